import KM.Lemmas.Admin
import KM.Gen.C08
import KM.Model.AdminPinned
/-! # C08 — users manage only themselves; administration needs admin rights (+ U2F)

Property theorems only. `authorize` transcribes the authorisation part of each handler
(`KM.Admin.spec` lists the source facts it was transcribed from; `c08_sites` re-checks them
against the regenerated table on every run). `IsAdmin` / `IsAutomationIdentity` are the
readable role predicates of the property text: configured by name, or the directory answers and
places the user in a configured group. -/
namespace KM.Admin

/-- **Self**: whoever is not an administrator can only ever act on the own profile, on every
endpoint except the role-certificate one (whose "target" is an automation identity, `c08_role`). -/
theorem c08_self (op : Op) (actor : Name) (level : Nat) (target : Name) (cfg : Cfg)
    (groups : Groups) (eff : Name) (hop : op ≠ .roleCert)
    (hna : ¬ IsAdmin cfg groups actor)
    (h : authorize op actor level target cfg groups = .pass eff) : eff = actor := by
  have hf : isAdminFresh cfg groups actor = false := by
    rw [isAdminFresh_eq]
    cases hb : isAdmin cfg groups actor with
    | false => rfl
    | true => exact absurd ((isAdmin_iff _ _ _).mp hb) hna
  unfold authorize authorizeV at h
  rw [hf] at h
  split at h
  · cases h
  · cases op with
    | viewProfile =>
      rcases gateProfile_pass h with ⟨_, he⟩ | ⟨_, _, ha⟩
      · exact he
      · cases ha
    | manageU2F a =>
      obtain ⟨he, ht | ⟨ha, _⟩⟩ := gateToken_pass h
      · rw [he, ht]
      · cases ha
    | manageTOTP a =>
      obtain ⟨he, ht | ⟨ha, _⟩⟩ := gateToken_pass h
      · rw [he, ht]
      · cases ha
    | totpGenerate => injection h with h; exact h.symm
    | totpValidateNew => injection h with h; exact h.symm
    | u2fRegBegin =>
      obtain ⟨he, ht | ⟨ha, _⟩⟩ := gateToken_pass h
      · rw [he, ht]
      · cases ha
    | u2fRegFinish =>
      obtain ⟨he, ht | ⟨ha, _⟩⟩ := gateToken_pass h
      · rw [he, ht]
      · cases ha
    | waRegBegin =>
      obtain ⟨he, ht | ⟨ha, _⟩⟩ := gateToken_pass h
      · rw [he, ht]
      · cases ha
    | waRegFinish =>
      obtain ⟨he, ht | ⟨ha, _⟩⟩ := gateToken_pass h
      · rw [he, ht]
      · cases ha
    | listUsers => cases (gateAdmin_pass h).2
    | addUser => cases (gateAdmin_pass h).2
    | deleteUser => cases (gateAdmin_pass h).2
    | bootstrapOTP => cases (gateAdmin_pass h).2
    | roleCert => exact absurd rfl hop

/-- **Admin**: listing, adding, deleting users and issuing bootstrap OTPs, as well as viewing a
profile named in the URL, get past the gate only for an administrator. -/
theorem c08_admin (op : Op) (actor : Name) (level : Nat) (target : Name) (cfg : Cfg)
    (groups : Groups) (eff : Name)
    (hop : op.userAdmin = true ∨ (op = .viewProfile ∧ target ≠ []))
    (h : authorize op actor level target cfg groups = .pass eff) : IsAdmin cfg groups actor := by
  apply (isAdmin_iff _ _ _).mp
  rw [← isAdminFresh_eq]
  unfold authorize authorizeV at h
  split at h
  · cases h
  · rcases hop with hop | ⟨hop, ht⟩
    · cases op <;> simp [Op.userAdmin] at hop <;> exact (gateAdmin_pass h).2
    · subst hop
      rcases gateProfile_pass h with ⟨ht', _⟩ | ⟨_, _, ha⟩
      · exact absurd ht' ht
      · exact ha

/-- viewing somebody else's profile needs an administrator -/
theorem c08_admin_view_other (actor : Name) (level : Nat) (target : Name) (cfg : Cfg)
    (groups : Groups) (eff : Name)
    (h : authorize .viewProfile actor level target cfg groups = .pass eff) (hne : eff ≠ actor) :
    IsAdmin cfg groups actor ∧ eff = target := by
  have h' := h
  unfold authorize authorizeV at h
  split at h
  · cases h
  · rcases gateProfile_pass h with ⟨_, he⟩ | ⟨ht, he, _⟩
    · exact absurd he hne
    · exact ⟨c08_admin .viewProfile actor level target cfg groups eff (Or.inr ⟨rfl, ht⟩) h', he⟩

/-- **Admin + U2F**: changing or registering ANOTHER user's second-factor tokens gets past the gate
only for an administrator whose own session carries the U2F bit (bit 3 = `AuthTypeU2F`). -/
theorem c08_admin_u2f (op : Op) (actor : Name) (level : Nat) (target : Name) (cfg : Cfg)
    (groups : Groups) (eff : Name) (hop : op.tokenOp = true)
    (h : authorize op actor level target cfg groups = .pass eff) (hne : eff ≠ actor) :
    IsAdmin cfg groups actor ∧ level.testBit 3 = true ∧ eff = target := by
  unfold authorize authorizeV at h
  split at h
  · cases h
  · have key : eff = target ∧ (target = actor ∨
        (isAdminFresh cfg groups actor = true ∧ u2fBit level = true)) := by
      cases op <;> simp [Op.tokenOp] at hop <;> exact gateToken_pass h
    obtain ⟨he, ht | ⟨ha, hu⟩⟩ := key
    · exact absurd (he.trans ht) hne
    · rw [isAdminFresh_eq] at ha
      exact ⟨(isAdmin_iff _ _ _).mp ha, (u2fBit_iff level).mp hu, he⟩

/-- **Role certificates**: issued only to an administrator or automation administrator, only for
the identity named in the request, and only if that is a configured automation identity. -/
theorem c08_role (actor : Name) (level : Nat) (target : Name) (cfg : Cfg) (groups : Groups)
    (eff : Name) (h : authorize .roleCert actor level target cfg groups = .pass eff) :
    (IsAdmin cfg groups actor ∨ actor ∈ cfg.automationAdmins) ∧ eff = target ∧
      IsAutomationIdentity cfg groups eff := by
  unfold authorize authorizeV at h
  split at h
  · cases h
  · obtain ⟨he, _, ha, hau⟩ := gateRole_pass h
    refine ⟨?_, he, ?_⟩
    · rcases ha with ha | ha
      · rw [isAdminFresh_eq] at ha
        exact Or.inl ((isAdmin_iff _ _ _).mp ha)
      · exact Or.inr ha
    · rw [he]
      apply (isAutomationIdentity_iff _ _ _).mp
      unfold isAutomationIdentity
      rw [hau]; rfl

/-- every request that gets past a gate carries a session level the endpoint accepts -/
theorem c08_session (op : Op) (actor : Name) (level : Nat) (target : Name) (cfg : Cfg)
    (groups : Groups) (eff : Name) (h : authorize op actor level target cfg groups = .pass eff) :
    level &&& requiredLevel cfg op ≠ 0 := by
  unfold authorize authorizeV at h
  split at h
  · cases h
  · assumption

/-- no handler ever acts on a third party: the name used is the caller's or the one the request names -/
theorem c08_no_third_party (op : Op) (actor : Name) (level : Nat) (target : Name) (cfg : Cfg)
    (groups : Groups) (eff : Name) (h : authorize op actor level target cfg groups = .pass eff) :
    eff = actor ∨ eff = target := by
  unfold authorize authorizeV at h
  split at h
  · cases h
  · cases op with
    | viewProfile =>
      rcases gateProfile_pass h with ⟨_, he⟩ | ⟨_, he, _⟩
      · exact Or.inl he
      · exact Or.inr he
    | manageU2F a => exact Or.inr (gateToken_pass h).1
    | manageTOTP a => exact Or.inr (gateToken_pass h).1
    | totpGenerate => injection h with h; exact Or.inl h.symm
    | totpValidateNew => injection h with h; exact Or.inl h.symm
    | u2fRegBegin => exact Or.inr (gateToken_pass h).1
    | u2fRegFinish => exact Or.inr (gateToken_pass h).1
    | waRegBegin => exact Or.inr (gateToken_pass h).1
    | waRegFinish => exact Or.inr (gateToken_pass h).1
    | listUsers => exact Or.inr (gateAdmin_pass h).1
    | addUser => exact Or.inr (gateAdmin_pass h).1
    | deleteUser => exact Or.inr (gateAdmin_pass h).1
    | bootstrapOTP => exact Or.inr (gateAdmin_pass h).1
    | roleCert => exact Or.inr (gateRole_pass h).1

/-! ### the predicate the judge applies to what the real handlers did -/

/-- **Judge predicate is the property**: an effect accepted by `effectAllowed` is the caller's own
business, or is backed by exactly the rights the property text demands. -/
theorem c08_effect_spec (cfg : Cfg) (groups : Groups) (op : Op) (actor : Name) (level : Nat)
    (target : Name) :
    (∀ u, effectAllowed cfg groups op actor level target (.changed u) = true → u ≠ actor →
        u = target ∧ IsAdmin cfg groups actor ∧
          ((op.tokenOp = true ∧ level.testBit 3 = true) ∨ op.userAdmin = true)) ∧
    (∀ u, effectAllowed cfg groups op actor level target (.read u) = true → u ≠ actor →
        op = .viewProfile ∧ u = target ∧ IsAdmin cfg groups actor) ∧
    (effectAllowed cfg groups op actor level target .listed = true → IsAdmin cfg groups actor) ∧
    (∀ cn, effectAllowed cfg groups op actor level target (.cert cn) = true →
        cn = target ∧ (IsAdmin cfg groups actor ∨ actor ∈ cfg.automationAdmins) ∧
          IsAutomationIdentity cfg groups cn) ∧
    (statusAllowed cfg groups op actor = true → op.userAdmin = true → IsAdmin cfg groups actor) := by
  refine ⟨?_, ?_, ?_, ?_, ?_⟩
  · intro u h hne
    unfold effectAllowed at h
    have hua : (u == actor) = false := by simpa using hne
    simp only [hua] at h
    simp only [Bool.false_eq_true, if_false, Bool.and_eq_true, Bool.or_eq_true, beq_iff_eq] at h
    obtain ⟨hut, h⟩ := h
    refine ⟨hut, ?_⟩
    rcases h with ⟨⟨ht, ha⟩, hu⟩ | ⟨hu, ha⟩
    · exact ⟨(isAdmin_iff _ _ _).mp ha, Or.inl ⟨ht, (u2fBit_iff level).mp hu⟩⟩
    · exact ⟨(isAdmin_iff _ _ _).mp ha, Or.inr hu⟩
  · intro u h hne
    unfold effectAllowed at h
    have hua : (u == actor) = false := by simpa using hne
    simp only [hua, Bool.false_or, Bool.and_eq_true, beq_iff_eq] at h
    exact ⟨h.1.1, h.1.2, (isAdmin_iff _ _ _).mp h.2⟩
  · intro h
    unfold effectAllowed at h
    simp only [Bool.and_eq_true] at h
    exact (isAdmin_iff _ _ _).mp h.2
  · intro cn h
    unfold effectAllowed at h
    simp only [Bool.and_eq_true, Bool.or_eq_true, beq_iff_eq] at h
    obtain ⟨⟨⟨_, hc⟩, ha⟩, hi⟩ := h
    refine ⟨hc, ?_, (isAutomationIdentity_iff _ _ _).mp hi⟩
    rcases ha with ha | ha
    · exact Or.inl ((isAdmin_iff _ _ _).mp ha)
    · exact Or.inr (by simpa using ha)
  · intro h hop
    unfold statusAllowed at h
    rw [hop] at h
    exact (isAdmin_iff _ _ _).mp (by simpa using h)

/-- **Model effects satisfy the property**: whatever the stored data and the rest of the request
look like (`env`), every effect of an accepted request is one the judge predicate allows. -/
theorem c08_effects (op : Op) (actor : Name) (level : Nat) (target : Name) (cfg : Cfg)
    (groups : Groups) (env : Env) (effs : List Effect)
    (h : outcome op (authorize op actor level target cfg groups) env = .done effs) :
    (∀ e ∈ effs, effectAllowed cfg groups op actor level target e = true) ∧
      statusAllowed cfg groups op actor = true := by
  cases hd : authorize op actor level target cfg groups with
  | deny w => rw [hd] at h; cases h
  | pass eff =>
    rw [hd] at h
    have h3 := c08_no_third_party op actor level target cfg groups eff hd
    have hadm : ∀ b : Bool, IsAdmin cfg groups actor → (b || isAdmin cfg groups actor) = true :=
      fun b ha => by rw [(isAdmin_iff _ _ _).mpr ha]; simp
    -- effect `changed eff` is fine for token operations and user administration
    have hchg_tok : op.tokenOp = true →
        effectAllowed cfg groups op actor level target (.changed eff) = true := by
      intro hop
      unfold effectAllowed
      by_cases hea : eff = actor
      · have hnu : op.userAdmin = false := by cases op <;> simp [Op.tokenOp, Op.userAdmin] at hop ⊢
        simp [hea, hnu]
      · obtain ⟨ha, hu, het⟩ := c08_admin_u2f op actor level target cfg groups eff hop hd hea
        have hea' : (eff == actor) = false := by simpa using hea
        simp [hea', het, hop, (isAdmin_iff _ _ _).mpr ha, (u2fBit_iff level).mpr hu]
    have hchg_adm : op.userAdmin = true →
        effectAllowed cfg groups op actor level target (.changed eff) = true := by
      intro hop
      have ha := c08_admin op actor level target cfg groups eff (Or.inl hop) hd
      have het : eff = target := by
        unfold authorize authorizeV at hd
        split at hd
        · cases hd
        · cases op <;> simp [Op.userAdmin] at hop <;> exact (gateAdmin_pass hd).1
      unfold effectAllowed
      by_cases hea : eff = actor
      · simp [hea, (isAdmin_iff _ _ _).mpr ha]
      · have hea' : (eff == actor) = false := by simpa using hea
        simp [hea', het, hop, (isAdmin_iff _ _ _).mpr ha]
    have hstat_adm : op.userAdmin = true → statusAllowed cfg groups op actor = true := by
      intro hop
      have ha := c08_admin op actor level target cfg groups eff (Or.inl hop) hd
      unfold statusAllowed
      simp [(isAdmin_iff _ _ _).mpr ha]
    have hstat_other : op.userAdmin = false → statusAllowed cfg groups op actor = true := by
      intro hop; unfold statusAllowed; simp [hop]
    have hself : eff = actor → op.userAdmin = false →
        effectAllowed cfg groups op actor level target (.changed eff) = true := by
      intro hea hop; unfold effectAllowed; simp [hea, hop]
    cases op with
    | viewProfile =>
      simp only [outcome] at h
      injection h with h; subst h
      refine ⟨?_, hstat_other rfl⟩
      intro e he
      simp only [List.mem_singleton] at he
      subst he
      unfold effectAllowed
      by_cases hea : eff = actor
      · simp [hea]
      · obtain ⟨ha, het⟩ := c08_admin_view_other actor level target cfg groups eff hd hea
        simp [het, (isAdmin_iff _ _ _).mpr ha]
    | manageU2F a =>
      simp only [outcome] at h
      split at h
      · cases h
      · split at h
        · cases h
        · injection h with h; subst h
          exact ⟨fun e he => by simp only [List.mem_singleton] at he; subst he; exact hchg_tok rfl,
            hstat_other rfl⟩
    | manageTOTP a =>
      simp only [outcome] at h
      split at h
      · cases h
      · split at h
        · cases h
        · injection h with h; subst h
          exact ⟨fun e he => by simp only [List.mem_singleton] at he; subst he; exact hchg_tok rfl,
            hstat_other rfl⟩
    | totpGenerate =>
      simp only [outcome] at h
      injection h with h; subst h
      have hea : eff = actor := by
        unfold authorize authorizeV at hd
        split at hd
        · cases hd
        · injection hd with hd; exact hd.symm
      exact ⟨fun e he => by simp only [List.mem_singleton] at he; subst he; exact hself hea rfl,
        hstat_other rfl⟩
    | totpValidateNew =>
      simp only [outcome] at h
      split at h
      · cases h
      · injection h with h; subst h
        have hea : eff = actor := by
          unfold authorize authorizeV at hd
          split at hd
          · cases hd
          · injection hd with hd; exact hd.symm
        exact ⟨fun e he => by simp only [List.mem_singleton] at he; subst he; exact hself hea rfl,
          hstat_other rfl⟩
    | u2fRegBegin =>
      simp only [outcome] at h
      injection h with h; subst h
      exact ⟨fun e he => by simp only [List.mem_singleton] at he; subst he; exact hchg_tok rfl,
        hstat_other rfl⟩
    | waRegBegin =>
      simp only [outcome] at h
      injection h with h; subst h
      exact ⟨fun e he => by simp only [List.mem_singleton] at he; subst he; exact hchg_tok rfl,
        hstat_other rfl⟩
    | u2fRegFinish =>
      simp only [outcome] at h
      split at h
      · cases h
      · injection h with h; subst h
        exact ⟨fun e he => by simp only [List.mem_singleton] at he; subst he; exact hchg_tok rfl,
          hstat_other rfl⟩
    | waRegFinish =>
      simp only [outcome] at h
      split at h
      · cases h
      · injection h with h; subst h
        exact ⟨fun e he => by simp only [List.mem_singleton] at he; subst he; exact hchg_tok rfl,
          hstat_other rfl⟩
    | listUsers =>
      simp only [outcome] at h
      injection h with h; subst h
      have ha := c08_admin .listUsers actor level target cfg groups eff (Or.inl rfl) hd
      refine ⟨?_, hstat_adm rfl⟩
      intro e he
      simp only [List.mem_singleton] at he
      subst he
      unfold effectAllowed
      simp [(isAdmin_iff _ _ _).mpr ha]
    | addUser =>
      simp only [outcome] at h
      split at h
      · cases h
      · injection h with h; subst h
        exact ⟨fun e he => by simp only [List.mem_singleton] at he; subst he; exact hchg_adm rfl,
          hstat_adm rfl⟩
    | deleteUser =>
      simp only [outcome] at h
      split at h
      · cases h
      · split at h
        · injection h with h; subst h
          exact ⟨fun e he => by simp only [List.mem_singleton] at he; subst he; exact hchg_adm rfl,
            hstat_adm rfl⟩
        · injection h with h; subst h
          exact ⟨fun e he => (by cases he), hstat_adm rfl⟩
    | bootstrapOTP =>
      simp only [outcome] at h
      split at h
      · cases h
      · injection h with h; subst h
        exact ⟨fun e he => by simp only [List.mem_singleton] at he; subst he; exact hchg_adm rfl,
          hstat_adm rfl⟩
    | roleCert =>
      simp only [outcome] at h
      injection h with h; subst h
      obtain ⟨ha, het, hi⟩ := c08_role actor level target cfg groups eff hd
      refine ⟨?_, hstat_other rfl⟩
      intro e he
      simp only [List.mem_singleton] at he
      subst he
      unfold effectAllowed
      have hi' := (isAutomationIdentity_iff _ _ _).mpr hi
      rcases ha with ha | ha
      · simp [het ▸ hi', het, (isAdmin_iff _ _ _).mpr ha]
      · simp [het ▸ hi', het, ha]

/-! ### the admin cache -/

/-- **Cache, general form**: for every history of clock advances and `IsAdminUser` calls (the
directory answering or failing at will), a verdict returned at time `t` is either the zero entry's
`false` (the directory has never answered for that user, and failed at some earlier call), or it is
what the directory answered for that user at some `t' ≤ t`, and either `t − t' < maxDur` or the
directory failed to answer a lookup for that user at some `t''` with `t − t'' < maxDur`. -/
theorem c08_cache_outage (maxDur : Nat) (hmax : 0 < maxDur) (t0 : Nat) (evs : List Ev) :
    ∀ r ∈ (crun maxDur (CState.init t0) evs).rets,
      GoodRet maxDur (crun maxDur (CState.init t0) evs).consults r :=
  (inv_run hmax evs (inv_init maxDur t0)).rets

/-- **Cache, while the directory answers**: if every lookup that is attempted succeeds, each verdict
returned at time `t` is the directory's own answer for that user from a lookup at some
`t' ≤ t` with `t − t' < maxDur` — the verdict is re-evaluated at least every `maxDur`. -/
theorem c08_cache (maxDur : Nat) (hmax : 0 < maxDur) (t0 : Nat) (evs : List Ev)
    (hdir : ∀ u, Ev.call u none ∉ evs) :
    ∀ r ∈ (crun maxDur (CState.init t0) evs).rets,
      ∃ t', r.origin = some t' ∧ t' ≤ r.t ∧ r.t - t' < maxDur ∧
        (⟨t', r.user, some r.verdict⟩ : Consult) ∈ (crun maxDur (CState.init t0) evs).consults := by
  intro r hr
  have hg := c08_cache_outage maxDur hmax t0 evs r hr
  have hnf : NoFail (crun maxDur (CState.init t0) evs) :=
    nofail_run evs (fun _ h => by cases h) hdir
  unfold GoodRet at hg
  cases ho : r.origin with
  | none =>
    rw [ho] at hg
    obtain ⟨_, t'', _, hm⟩ := hg
    exact absurd rfl (hnf _ hm)
  | some t' =>
    rw [ho] at hg
    obtain ⟨h1, h2, h3⟩ := hg
    refine ⟨t', rfl, h1, ?_, h2⟩
    rcases h3 with h3 | ⟨t'', _, _, _, hm⟩
    · exact h3
    · exact absurd rfl (hnf _ hm)

/-- **Cache, as seen from outside**: every verdict handed out is explained by what the directory
offered at the `IsAdminUser` calls of the history (`blackboxOK`: same value offered for that user at
some earlier call, less than `maxDur` ago unless a lookup for that user failed less than `maxDur`
ago; or `false` after a failed lookup). This is the predicate the judge applies to the verdicts of
the real `IsAdminUser` (instantiated at every prefix of the observed history). -/
theorem c08_cache_observable (maxDur : Nat) (hmax : 0 < maxDur) (t0 : Nat) (evs : List Ev) :
    ∀ r ∈ (crun maxDur (CState.init t0) evs).rets,
      blackboxOK maxDur (crun maxDur (CState.init t0) evs).offered r.t r.user r.verdict = true :=
  fun r hr => blackbox_of_goodRet (sub_run evs (fun _ h => (by cases h)))
    (c08_cache_outage maxDur hmax t0 evs r hr)

/-! ### overlapping calls (round 5)

`kstep` splits `IsAdminUser` where the real one can be interrupted: `begin` = `Get` (a valid entry is
served at once), a *parked* call keeps the value its `Get` saw until the directory answers (`release`),
other calls and clock advances run in between, the directory decides when it answers. -/

/-- **Overlapping calls, as seen from outside**: in every interleaving of call starts, parked
directory questions, releases and clock advances, every verdict handed out — at once or after a
release — is explained by what the directory offered for that user at the starts and releases so far
(`blackboxOK`, the predicate the judge applies to the verdicts of the real overlapping calls): never a
value older than `maxDur` while the directory answers, whoever else is refreshing meanwhile. -/
theorem c08_conc_observable (maxDur : Nat) (hmax : 0 < maxDur) (t0 : Nat) (evs : List KEv) :
    ∀ r ∈ (krun maxDur (KState.init t0) evs).c.rets,
      blackboxOK maxDur (krun maxDur (KState.init t0) evs).c.offered r.t r.user r.verdict = true :=
  fun r hr => blackbox_of_goodRet (kinv_run hmax evs (kinv_init maxDur t0)).sub
    ((kinv_run hmax evs (kinv_init maxDur t0)).inv.rets r hr)

/-- **Overlapping calls fail closed**: no interleaving makes `IsAdminUser` report an administrator
unless the directory itself said so for that user at some earlier moment. -/
theorem c08_conc_fail_closed (maxDur : Nat) (hmax : 0 < maxDur) (t0 : Nat) (evs : List KEv) :
    ∀ r ∈ (krun maxDur (KState.init t0) evs).c.rets, r.verdict = true →
      ∃ t', t' ≤ r.t ∧ (⟨t', r.user, some true⟩ : Consult) ∈
        (krun maxDur (KState.init t0) evs).c.consults := by
  intro r hr hv
  have hg := (kinv_run hmax evs (kinv_init maxDur t0)).inv.rets r hr
  unfold GoodRet at hg
  cases ho : r.origin with
  | none => rw [ho] at hg; rw [hg.1] at hv; cases hv
  | some t' =>
    rw [ho] at hg
    exact ⟨t', hg.1, hv ▸ hg.2.1⟩

/-- a call whose question is not parked is the sequential `IsAdminUser` of `c08_cache` -/
theorem c08_conc_sequential (maxDur : Nat) (s : KState) (u : Name) (dir : Option Bool) :
    (kstep maxDur s (.begin u dir false)).c = cstep maxDur s.c (.call u dir) :=
  kstep_sequential maxDur s u dir

/-- the history of the round-5 seeded change: verdict `true` cached, membership revoked, entry expired,
one refresh parked, a second call overlapping it — the model answers `false` to both -/
example : ((krun 300 (KState.init 1000)
    [.begin "bob".toList (some true) false, .advance 300, .begin "bob".toList (some false) true,
     .begin "bob".toList (some false) false, .release 1 (some false)]).c.rets.map (·.verdict))
    = [false, false, true] := by decide

/-- the lifetime the daemon configures is the property's five minutes -/
theorem c08_cache_lifetime :
    KM.Gen.c08AdminCacheLifetimes = [5 * 60 * 1000000000] ∧
    KM.Gen.c08AdminCacheLifetimesEvaluated = true ∧
    KM.Gen.c08AdminCacheLifetimeNs = 300000000000 ∧ 0 < KM.Gen.c08AdminCacheLifetimeNs := by
  decide

/-- **Fail closed**: `IsAdminUser` never reports an administrator unless the directory itself said so
for that user at some earlier moment. -/
theorem c08_cache_fail_closed (maxDur : Nat) (hmax : 0 < maxDur) (t0 : Nat) (evs : List Ev) :
    ∀ r ∈ (crun maxDur (CState.init t0) evs).rets, r.verdict = true →
      ∃ t', t' ≤ r.t ∧ (⟨t', r.user, some true⟩ : Consult) ∈
        (crun maxDur (CState.init t0) evs).consults := by
  intro r hr hv
  have hg := c08_cache_outage maxDur hmax t0 evs r hr
  unfold GoodRet at hg
  cases ho : r.origin with
  | none => rw [ho] at hg; rw [hg.1] at hv; cases hv
  | some t' =>
    rw [ho] at hg
    exact ⟨t', hg.1, hv ▸ hg.2.1⟩

/-- **End to end**: with the cache in front of the directory (configured lifetime) and the directory
answering, a user-administration request or a change of another user's tokens that gets past its
gate on the strength of `IsAdminUser`'s verdict at time `t` is backed by a directory lookup at most
five minutes old that called the actor an administrator. -/
theorem c08_admin_cached (t0 : Nat) (evs : List Ev) (hdir : ∀ u, Ev.call u none ∉ evs)
    (op : Op) (level : Nat) (target : Name) (cfg : Cfg) (autoV : Option Bool) (eff : Name) :
    ∀ r ∈ (crun KM.Gen.c08AdminCacheLifetimeNs (CState.init t0) evs).rets,
      authorizeV op r.user level target cfg r.verdict autoV = .pass eff →
      (op.userAdmin = true ∨ (op.tokenOp = true ∧ eff ≠ r.user)) →
      ∃ t', t' ≤ r.t ∧ r.t - t' < 5 * 60 * 1000000000 ∧
        (⟨t', r.user, some true⟩ : Consult) ∈
          (crun KM.Gen.c08AdminCacheLifetimeNs (CState.init t0) evs).consults := by
  intro r hr hp hop
  have hv : r.verdict = true := by
    unfold authorizeV at hp
    split at hp
    · cases hp
    · rcases hop with hop | ⟨hop, hne⟩
      · cases op <;> simp [Op.userAdmin] at hop <;> exact (gateAdmin_pass hp).2
      · have key : eff = target ∧ (target = r.user ∨ (r.verdict = true ∧ u2fBit level = true)) := by
          cases op <;> simp [Op.tokenOp] at hop <;> exact gateToken_pass hp
        obtain ⟨he, ht | ⟨ha, _⟩⟩ := key
        · exact absurd (he.trans ht) hne
        · exact ha
  obtain ⟨t', _, h1, h2, h3⟩ :=
    c08_cache KM.Gen.c08AdminCacheLifetimeNs c08_cache_lifetime.2.2.2 t0 evs hdir r hr
  refine ⟨t', h1, ?_, hv ▸ h3⟩
  have : KM.Gen.c08AdminCacheLifetimeNs = 5 * 60 * 1000000000 := by decide
  omega

/-! ### non-vacuity -/

def exCfg : Cfg :=
  { adminUsers := ["adm".toList], adminGroups := ["admins".toList],
    automationUsers := ["robot".toList], automationUserGroups := [],
    automationAdmins := ["auto".toList], webUIRequired := 2 ||| 8 ||| 64 }

def exGroups : Groups := fun u =>
  if u = "gadm".toList then some ["staff".toList, "admins".toList]
  else if u = "ldapdown".toList then none
  else some []

/-- an administrator (by name or by group) with U2F IS allowed to manage another user's token -/
example : authorize (.manageU2F .delete) "adm".toList (2 ||| 8) "bob".toList exCfg exGroups
    = .pass "bob".toList := by decide
example : authorize (.manageTOTP .disable) "gadm".toList (2 ||| 8) "bob".toList exCfg exGroups
    = .pass "bob".toList := by decide
/-- … but not without the U2F bit, and not when the directory does not answer for a group admin -/
example : authorize (.manageU2F .delete) "adm".toList (2 ||| 64) "bob".toList exCfg exGroups
    = .deny .notSelf := by decide
example : authorize .listUsers "ldapdown".toList 2 [] exCfg exGroups = .deny .notAdmin := by decide
/-- a plain user IS allowed to manage the own tokens and to register new ones -/
example : authorize (.manageU2F .update) "alice".toList 2 "alice".toList exCfg exGroups
    = .pass "alice".toList := by decide
example : authorize .waRegFinish "alice".toList 2 "alice".toList exCfg exGroups
    = .pass "alice".toList := by decide
example : authorize .u2fRegBegin "alice".toList (2 ||| 8) "bob".toList exCfg exGroups
    = .deny .notSelf := by decide
/-- an automation administrator obtains a certificate for a configured identity only -/
example : authorize .roleCert "auto".toList 2 "robot".toList exCfg exGroups
    = .pass "robot".toList := by decide
example : authorize .roleCert "auto".toList 2 "alice".toList exCfg exGroups
    = .deny .notAutoUser := by decide
/-- the hypotheses of `c08_cache` are satisfiable and the cache does serve from memory -/
example : ((crun 300 (CState.init 1000)
    [.call "adm".toList (some true), .advance 299, .call "adm".toList (some false),
     .advance 1, .call "adm".toList (some false)]).rets.map (fun r => (r.t, r.verdict, r.origin)))
    = [(1300, false, some 1300), (1299, true, some 1000), (1000, true, some 1000)] := by decide
/-- the fallback: an expired `true` is re-stamped on a lookup error and served for another lifetime -/
example : ((crun 300 (CState.init 1000)
    [.call "adm".toList (some true), .advance 300, .call "adm".toList none,
     .advance 299, .call "adm".toList (some false)]).rets.map (fun r => (r.t, r.verdict, r.origin)))
    = [(1599, true, some 1000), (1300, true, some 1000), (1000, true, some 1000)] := by decide

/-! ### the profile store (exact-key lookup) -/

theorem store_load_wf {st : Store} (h : st.WF) (k : Name) : ∀ t, t ∈ st.load k → t.owner = k := by
  intro t ht
  unfold Store.load at ht
  cases hk : st k with
  | none => rw [hk] at ht; cases ht
  | some l => rw [hk] at ht; exact h k l hk t ht

theorem store_save_wf {st : Store} (h : st.WF) (k : Name) (l : List Tok)
    (hl : ∀ t, t ∈ l → t.owner = k) : (st.save k l).WF := by
  intro u l' hu t ht
  unfold Store.save at hu
  split at hu
  · rename_i huk; injection hu with hu; subst hu; rw [huk]; exact hl t ht
  · exact h u l' hu t ht

theorem store_step_wf {st : Store} (h : st.WF) (op : Op) (eff : Name) (idx newId : Nat) :
    (storeStep st op eff idx newId).WF := by
  have hload := store_load_wf h eff
  have hcons : ∀ t, t ∈ (⟨eff, newId⟩ : Tok) :: st.load eff → t.owner = eff := by
    intro t ht
    simp only [List.mem_cons] at ht
    rcases ht with ht | ht
    · rw [ht]
    · exact hload t ht
  unfold storeStep
  split
  · exact store_save_wf h _ _ (fun t ht => hload t (List.mem_filter.mp ht).1)
  · exact store_save_wf h _ _ (fun t ht => hload t (List.mem_filter.mp ht).1)
  · exact store_save_wf h _ _ hcons
  · exact store_save_wf h _ _ hcons
  · exact store_save_wf h _ _ hcons
  · intro u l hu t ht
    unfold Store.delete at hu
    split at hu
    · cases hu
    · exact h u l hu t ht
  · exact h
  · exact h
  · exact h
  · exact store_save_wf h _ _ hload

/-- **Store**: whatever accepted request is applied to whichever name, every stored token stays in
its owner's row — no operation moves one user's token data into another user's profile. -/
theorem c08_store_wf (st : Store) (h : st.WF) (ops : List StoreOp) : (storeRun st ops).WF := by
  unfold storeRun
  induction ops generalizing st with
  | nil => exact h
  | cons o rest ih => exact ih _ (store_step_wf h o.op o.eff o.idx o.newId)

/-- **View**: in any store reachable from a well-formed one, the profile page rendered for an accepted
view lists only tokens of the user the gate let through — the caller's own, or (administrator) those
of the named target; never a third user's, whatever other rows exist. -/
theorem c08_view_own_tokens (st : Store) (h : st.WF) (ops : List StoreOp) (actor : Name) (level : Nat)
    (target : Name) (cfg : Cfg) (groups : Groups) (eff : Name)
    (hp : authorize .viewProfile actor level target cfg groups = .pass eff) :
    ∀ t, t ∈ shownTokens (storeRun st ops) eff →
      t.owner = eff ∧ (eff = actor ∨ (eff = target ∧ IsAdmin cfg groups actor)) := by
  intro t ht
  refine ⟨store_load_wf (c08_store_wf st h ops) eff t ht, ?_⟩
  by_cases hea : eff = actor
  · exact Or.inl hea
  · obtain ⟨ha, he⟩ := c08_admin_view_other actor level target cfg groups eff hp hea
    exact Or.inr ⟨he, ha⟩

/-- the judge's provenance effect: token data of `owner` stored in the row of `row` is acceptable
only for `owner = row` (the store invariant), for every operation and every caller -/
theorem c08_copied_spec (cfg : Cfg) (groups : Groups) (op : Op) (actor : Name) (level : Nat)
    (target owner row : Name) (adm : Bool) :
    (effectAllowed cfg groups op actor level target (.copied owner row) = true → owner = row) ∧
    (effectAllowedB adm cfg groups op actor level target (.copied owner row) = true → owner = row) := by
  constructor <;> intro h
  · unfold effectAllowed at h; simpa using h
  · unfold effectAllowedB at h; simpa using h

/-! ### order-dependent authorisation: requests as sequences on one shared admin cache -/

/-- **Effects relative to the verdict the handler got**: whatever `IsAdminUser(actor)` returned
(`adminV`), the effects of an accepted request are allowed *for that verdict* — so a request can
exceed the property only if the verdict itself was wrong. -/
theorem c08_effects_v (op : Op) (actor : Name) (level : Nat) (target : Name) (cfg : Cfg)
    (groups : Groups) (adminV : Bool) (env : Env) (effs : List Effect)
    (h : outcome op (authorizeV op actor level target cfg adminV (automationUser cfg groups target)) env
      = .done effs) :
    (∀ e ∈ effs, effectAllowedB adminV cfg groups op actor level target e = true) ∧
      statusAllowedB adminV op = true := by
  unfold authorizeV at h
  split at h
  · simp [outcome] at h
  · have one : ∀ (e : Effect) (P : Prop), (effs = [e] → P) → (Outcome.done [e] = Outcome.done effs → P) :=
      fun e P f hh => f (by injection hh with hh; exact hh.symm)
    -- effect `changed eff` of a token operation
    have tok : ∀ eff, op.tokenOp = true → gateToken actor level target adminV = .pass eff →
        effectAllowedB adminV cfg groups op actor level target (.changed eff) = true := by
      intro eff hop hg
      obtain ⟨he, ht | ⟨ha, hu⟩⟩ := gateToken_pass hg
      · have hnu : op.userAdmin = false := by cases op <;> simp [Op.tokenOp, Op.userAdmin] at hop ⊢
        subst he; subst ht
        simp [effectAllowedB, hnu]
      · subst he
        by_cases hta : eff = actor
        · have hnu : op.userAdmin = false := by cases op <;> simp [Op.tokenOp, Op.userAdmin] at hop ⊢
          simp [effectAllowedB, hta, hnu]
        · have : (eff == actor) = false := by simpa using hta
          simp [effectAllowedB, this, hop, ha, hu]
    have adm : ∀ eff, op.userAdmin = true → gateAdmin target adminV = .pass eff →
        effectAllowedB adminV cfg groups op actor level target (.changed eff) = true ∧ adminV = true := by
      intro eff hop hg
      obtain ⟨he, ha⟩ := gateAdmin_pass hg
      subst he
      refine ⟨?_, ha⟩
      by_cases hta : eff = actor
      · simp [effectAllowedB, hta, ha]
      · have : (eff == actor) = false := by simpa using hta
        simp [effectAllowedB, this, hop, ha]
    have sing : ∀ (e : Effect), effectAllowedB adminV cfg groups op actor level target e = true →
        effs = [e] → ∀ e' ∈ effs, effectAllowedB adminV cfg groups op actor level target e' = true := by
      intro e he hl e' he'
      rw [hl] at he'
      simp only [List.mem_singleton] at he'
      rw [he']; exact he
    cases op with
    | viewProfile =>
      cases hg : gateProfile actor target adminV with
      | deny w => simp [hg, outcome] at h
      | pass eff =>
        simp only [hg, outcome] at h
        refine ⟨one _ _ (sing _ ?_) h, by simp [statusAllowedB, Op.userAdmin]⟩
        rcases gateProfile_pass hg with ⟨_, he⟩ | ⟨_, he, ha⟩
        · simp [effectAllowedB, he]
        · simp [effectAllowedB, he, ha]
    | manageU2F a =>
      cases hg : gateToken actor level target adminV with
      | deny w => simp [hg, outcome] at h
      | pass eff =>
        simp only [hg, outcome] at h
        split at h
        · cases h
        · split at h
          · cases h
          · exact ⟨one _ _ (sing _ (tok eff rfl hg)) h, by simp [statusAllowedB, Op.userAdmin]⟩
    | manageTOTP a =>
      cases hg : gateToken actor level target adminV with
      | deny w => simp [hg, outcome] at h
      | pass eff =>
        simp only [hg, outcome] at h
        split at h
        · cases h
        · split at h
          · cases h
          · exact ⟨one _ _ (sing _ (tok eff rfl hg)) h, by simp [statusAllowedB, Op.userAdmin]⟩
    | totpGenerate =>
      simp only [outcome] at h
      exact ⟨one _ _ (sing _ (by simp [effectAllowedB, Op.userAdmin])) h, by simp [statusAllowedB, Op.userAdmin]⟩
    | totpValidateNew =>
      simp only [outcome] at h
      split at h
      · cases h
      · exact ⟨one _ _ (sing _ (by simp [effectAllowedB, Op.userAdmin])) h, by simp [statusAllowedB, Op.userAdmin]⟩
    | u2fRegBegin =>
      cases hg : gateToken actor level target adminV with
      | deny w => simp [hg, outcome] at h
      | pass eff =>
        simp only [hg, outcome] at h
        exact ⟨one _ _ (sing _ (tok eff rfl hg)) h, by simp [statusAllowedB, Op.userAdmin]⟩
    | waRegBegin =>
      cases hg : gateToken actor level target adminV with
      | deny w => simp [hg, outcome] at h
      | pass eff =>
        simp only [hg, outcome] at h
        exact ⟨one _ _ (sing _ (tok eff rfl hg)) h, by simp [statusAllowedB, Op.userAdmin]⟩
    | u2fRegFinish =>
      cases hg : gateToken actor level target adminV with
      | deny w => simp [hg, outcome] at h
      | pass eff =>
        simp only [hg, outcome] at h
        split at h
        · cases h
        · exact ⟨one _ _ (sing _ (tok eff rfl hg)) h, by simp [statusAllowedB, Op.userAdmin]⟩
    | waRegFinish =>
      cases hg : gateToken actor level target adminV with
      | deny w => simp [hg, outcome] at h
      | pass eff =>
        simp only [hg, outcome] at h
        split at h
        · cases h
        · exact ⟨one _ _ (sing _ (tok eff rfl hg)) h, by simp [statusAllowedB, Op.userAdmin]⟩
    | listUsers =>
      cases hg : gateAdmin target adminV with
      | deny w => simp [hg, outcome] at h
      | pass eff =>
        simp only [hg, outcome] at h
        have ha := (adm eff rfl hg).2
        exact ⟨one _ _ (sing _ (by simp [effectAllowedB, ha])) h, by simp [statusAllowedB, ha]⟩
    | addUser =>
      cases hg : gateAdmin target adminV with
      | deny w => simp [hg, outcome] at h
      | pass eff =>
        simp only [hg, outcome] at h
        have ha := adm eff rfl hg
        split at h
        · cases h
        · exact ⟨one _ _ (sing _ ha.1) h, by simp [statusAllowedB, ha.2]⟩
    | deleteUser =>
      cases hg : gateAdmin target adminV with
      | deny w => simp [hg, outcome] at h
      | pass eff =>
        simp only [hg, outcome] at h
        have ha := adm eff rfl hg
        split at h
        · cases h
        · split at h
          · exact ⟨one _ _ (sing _ ha.1) h, by simp [statusAllowedB, ha.2]⟩
          · injection h with h
            subst h
            exact ⟨fun e he => (by cases he), by simp [statusAllowedB, ha.2]⟩
    | bootstrapOTP =>
      cases hg : gateAdmin target adminV with
      | deny w => simp [hg, outcome] at h
      | pass eff =>
        simp only [hg, outcome] at h
        have ha := adm eff rfl hg
        split at h
        · cases h
        · exact ⟨one _ _ (sing _ ha.1) h, by simp [statusAllowedB, ha.2]⟩
    | roleCert =>
      cases hg : gateRole cfg actor target adminV (automationUser cfg groups target) with
      | deny w => simp [hg, outcome] at h
      | pass eff =>
        simp only [hg, outcome] at h
        obtain ⟨he, _, ha, hau⟩ := gateRole_pass hg
        refine ⟨one _ _ (sing _ ?_) h, by simp [statusAllowedB, Op.userAdmin]⟩
        subst he
        have hi : isAutomationIdentity cfg groups eff = true := by
          unfold isAutomationIdentity; rw [hau]; rfl
        rcases ha with ha | ha
        · simp [effectAllowedB, ha, hi]
        · simp [effectAllowedB, ha, hi]

/-- **Sequences, cache level**: along any sequence of requests and clock advances on one shared
cache (the directory content may differ from request to request), whenever `IsAdminUser(actor)`
answered `true` inside a handler, configuration + directory called that actor an administrator at
some handled request of the same actor — less than `maxDur` earlier, or followed by a failed lookup
for that actor less than `maxDur` earlier (`backedB`, computed from the history and the config only). -/
theorem c08_seq_backed (maxDur : Nat) (hmax : 0 < maxDur) (cfg : Cfg) (t0 : Nat) (evs : List HEv) :
    ∀ h ∈ (hrun maxDur cfg (HState.init t0) evs).handled, h.adminV = true →
      backedB maxDur cfg (hrun maxDur cfg (HState.init t0) evs).handled h.t h.r.actor = true := by
  intro h hh hv
  have hs := hinv_run hmax evs (hinv_init maxDur cfg t0)
  obtain ⟨r, hr, a, b, c⟩ := hs.ret h hh hv
  have := backed_of_ret hs hr c
  rw [a, b] at this
  exact this

/-- **Sequences, effect level** (the predicate the judge applies to every step of an observed
sequence): every effect of every request of the sequence is allowed for an actor whose
administrator status is `backedB` — i.e. established from configuration and directory, never from
what an earlier request left in the cache. -/
theorem c08_seq_effects (maxDur : Nat) (hmax : 0 < maxDur) (cfg : Cfg) (t0 : Nat) (evs : List HEv) :
    ∀ h ∈ (hrun maxDur cfg (HState.init t0) evs).handled, ∀ (env : Env) (effs : List Effect),
      outcome h.r.op h.dec env = .done effs →
      (∀ e ∈ effs, effectAllowedB
          (backedB maxDur cfg (hrun maxDur cfg (HState.init t0) evs).handled h.t h.r.actor)
          cfg h.r.groups h.r.op h.r.actor h.r.level h.r.target e = true) ∧
        statusAllowedB (backedB maxDur cfg (hrun maxDur cfg (HState.init t0) evs).handled h.t h.r.actor)
          h.r.op = true := by
  intro h hh env effs ho
  have hs := hinv_run hmax evs (hinv_init maxDur cfg t0)
  rw [hs.dec h hh] at ho
  obtain ⟨h1, h2⟩ := c08_effects_v h.r.op h.r.actor h.r.level h.r.target cfg h.r.groups h.adminV env effs ho
  have hb := c08_seq_backed maxDur hmax cfg t0 evs h hh
  exact ⟨fun e he => effectAllowedB_mono hb cfg _ _ _ _ _ e (h1 e he), statusAllowedB_mono hb _ h2⟩

/-- **Sequences, readable form**: a user-administration request, a view of a named profile or a change
of another user's tokens that is accepted anywhere in a sequence implies that, at some handled request
of the same actor not later than it, the actor was an administrator by configured name or by a group
the directory reported (and, for token operations, that the session carries the U2F bit). In
particular nothing an automation administrator does first can make a later admin-only request pass. -/
theorem c08_seq_admin (maxDur : Nat) (hmax : 0 < maxDur) (cfg : Cfg) (t0 : Nat) (evs : List HEv) :
    ∀ h ∈ (hrun maxDur cfg (HState.init t0) evs).handled, ∀ eff, h.dec = .pass eff →
      (h.r.op.userAdmin = true ∨ (h.r.op = .viewProfile ∧ h.r.target ≠ []) ∨
        (h.r.op.tokenOp = true ∧ eff ≠ h.r.actor)) →
      (∃ h' ∈ (hrun maxDur cfg (HState.init t0) evs).handled,
        h'.r.actor = h.r.actor ∧ h'.t ≤ h.t ∧ IsAdmin cfg h'.r.groups h.r.actor) ∧
      (h.r.op.tokenOp = true → h.r.level.testBit 3 = true) := by
  intro h hh eff hp hop
  have hs := hinv_run hmax evs (hinv_init maxDur cfg t0)
  have hd := hs.dec h hh
  rw [hp] at hd
  have hd' : authorizeV h.r.op h.r.actor h.r.level h.r.target cfg h.adminV
      (automationUser cfg h.r.groups h.r.target) = .pass eff := hd.symm
  have key : h.adminV = true ∧ (h.r.op.tokenOp = true → u2fBit h.r.level = true) := by
    unfold authorizeV at hd'
    split at hd'
    · cases hd'
    · rcases hop with hop | ⟨hop, ht⟩ | ⟨hop, hne⟩
      · have hnt : h.r.op.tokenOp = false := by
          cases hq : h.r.op <;> simp [hq, Op.userAdmin, Op.tokenOp] at hop ⊢
        refine ⟨?_, fun hx => by rw [hnt] at hx; cases hx⟩
        cases hq : h.r.op <;> simp [hq, Op.userAdmin] at hop <;> (rw [hq] at hd'; exact (gateAdmin_pass hd').2)
      · rw [hop] at hd'
        refine ⟨?_, fun hx => by rw [hop] at hx; cases hx⟩
        rcases gateProfile_pass hd' with ⟨ht', _⟩ | ⟨_, _, ha⟩
        · exact absurd ht' ht
        · exact ha
      · have : eff = h.r.target ∧ (h.r.target = h.r.actor ∨ (h.adminV = true ∧ u2fBit h.r.level = true)) := by
          cases hq : h.r.op <;> simp [hq, Op.tokenOp] at hop <;> (rw [hq] at hd'; exact gateToken_pass hd')
        obtain ⟨he, ht | ⟨ha, hu⟩⟩ := this
        · exact absurd (he.trans ht) hne
        · exact ⟨ha, fun _ => hu⟩
  have hb := c08_seq_backed maxDur hmax cfg t0 evs h hh key.1
  refine ⟨?_, fun hx => (u2fBit_iff _).mp (key.2 hx)⟩
  unfold backedB at hb
  simp only [List.any_eq_true, Bool.and_eq_true, beq_iff_eq, decide_eq_true_eq] at hb
  obtain ⟨h', hh', ⟨⟨⟨ha, ht⟩, hadm⟩, _⟩⟩ := hb
  exact ⟨h', hh', ha, ht, (isAdmin_iff _ _ _).mp hadm⟩

/-- the seeded-change class as a concrete history of the model: an automation administrator who
is not an administrator first obtains a role certificate, then asks for the user list — the second
request is refused because only `IsAdminUser` writes the cache, with a verdict that ignores the
`AutomationAdmins` list. -/
example : ((hrun 300 exCfg (HState.init 1000)
    [.req ⟨.roleCert, "auto".toList, 2, "robot".toList, exGroups⟩,
     .advance 10,
     .req ⟨.listUsers, "auto".toList, 2, [], exGroups⟩]).handled.map (·.dec))
    = [.deny .notAdmin, .pass "robot".toList] := by decide

/-! ### every handler of the current source tree (regenerated table) -/

def lookupFact (n : List Char) : Option KM.AdminSite.HandlerFact :=
  (KM.Gen.c08Handlers.find? (fun p => p.1 == n)).map (·.2)

def lookupRoute (path : List Char) : List (List Char) :=
  (KM.Gen.c08Routes.filter (fun p => p.1 == path)).map (·.2)

open KM.AdminSite in
/-- a profile key that is not the authenticated user's own name -/
def namesOther : Src → Bool
  | .authUser | .param => false
  | _ => true

/-- **Sites**: for every operation, the handler bound to its URL consults exactly the gate, compares
exactly the pair of names and keys its profile accesses exactly as `authorize` was transcribed
(`spec`); the helper gate of the user-administration handlers tests `IsAdminUser(authUser)`; and the
only functions that write a profile under a name other than the authenticated user's own are
handlers of the operation list. -/
theorem c08_sites :
    allOps.all (fun op => lookupFact (handlerName op) == some (spec op)) = true ∧
    allOps.all (fun op => lookupRoute (routePath op) == [handlerName op]) = true ∧
    lookupFact "sendFailureToClientIfNonAdmin".toList ==
      some { gate := .isAdminUser, cond := .notGate, cmp := .none, keys := [], gateFirst := true } ∧
    KM.Gen.c08Writers.all (fun w =>
      w.2.all (· != KM.AdminSite.Src.unknown) &&
      (!(w.2.any namesOther) || allOps.any (fun op => handlerName op == w.1))) = true := by
  decide

/-- **Storage statements**: Load/Save/DeleteUserProfile address `user_profile` rows by plain equality
on `username` (both databases) — the exact-key lookup `Store.load/save/delete` assume. -/
theorem c08_storage_sites :
    KM.Gen.c08StorageStmts.all (fun s => s.2.2 == KM.AdminSite.KeyUse.exactKey) = true ∧
    KM.Gen.c08StorageStmts.length = 6 := by
  decide

/-! **Helpers**: the small functions the model transcribes literally still read as transcribed
(`KM/Model/AdminPinned.lean` holds the pinned text; a difference fails at once and names the helper). -/
theorem c08_helpers_IsAdminUser : KM.Gen.c08Helper_IsAdminUser = Pinned.IsAdminUser := by decide +kernel
theorem c08_helpers_IsAdminUserAndU2F : KM.Gen.c08Helper_IsAdminUserAndU2F = Pinned.IsAdminUserAndU2F := by decide +kernel
theorem c08_helpers_isAutomationAdmin : KM.Gen.c08Helper_isAutomationAdmin = Pinned.isAutomationAdmin := by decide +kernel
theorem c08_helpers_admincache_get : KM.Gen.c08Helper_admincache_get = Pinned.admincache_get := by decide +kernel
theorem c08_helpers_admincache_put : KM.Gen.c08Helper_admincache_put = Pinned.admincache_put := by decide +kernel
theorem c08_helpers_admincache_isValid : KM.Gen.c08Helper_admincache_isValid = Pinned.admincache_isValid := by decide +kernel
theorem c08_helpers_admincache_New : KM.Gen.c08Helper_admincache_New = Pinned.admincache_New := by decide +kernel

end KM.Admin
