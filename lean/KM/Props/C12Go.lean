import KM.Model.GoLite
import KM.Model.GoTypes
import KM.Gen.GoOidc
/-! # C12 — the release decision of `idpOpenIDCTokenHandler` as TRANSLATED from the current source (go2lean)

Block of the handler from `codeVerifier := r.Form.Get("code_verifier")` up to the minting of the tokens, translated
with join points (`KM/Gen/GoOidc.lean`, `tokenRelease`); refusals are effects, reaching the minting code is the effect
`release`. -/
namespace KM.OidcGo
open KM.Go KM.GoTypes

/-- `url.QueryUnescape` as the handler uses it: the unescaped value, or the value itself when it does not unescape -/
def unesc (ext : TokenExt) (x : Str) : Str :=
  match ext.unescape x with
  | (y, none) => y
  | (_, some _) => x

/-- where client id and secret come from: the Basic header (url-unescaped) if there is one, else the form -/
def chosenCreds (ext : TokenExt) (formClientID formSecret : Str) : Str × Str :=
  match ext.basicAuth with
  | (c, p, true) => (unesc ext c, unesc ext p)
  | (_, _, false) => (formClientID, formSecret)

/-- the `type` an authorization code must carry -/
def tokEndpoint : Str := "token_endpoint".toList

/-- what the release decision demands of the chosen credentials `(cid, pass)` -/
def Released (ext : TokenExt) (tok : keymasterdCodeToken) (redirect verifier : Str) (now : Int) (cid pass : Str) : Prop :=
  ∃ client, ext.getClient cid = (client, none) ∧
    ((verifier ≠ [] ∧ client.ClientSecret = [] ∧ ext.validVerifier cid verifier tok = true) ∨
     (pass ≠ [] ∧ pass = client.ClientSecret)) ∧
    cid = tok.Subject ∧ ¬ (tok.Expiration < now) ∧ tok.RedirectURI = redirect ∧ tok.«Type» = tokEndpoint

/-- **tokens are released only to the client the code was issued to, with proof of being that client, in time, for
the same redirect URI, for a code of the token-endpoint kind**, on the translated source of the release decision of
`idpOpenIDCTokenHandler` (every statement from the choice of the credential source to the last refusal; the helper
functions it calls — `ClientCanDoPKCEAuth`, `ValidClientSecret`, `CorsOriginAllowed` — are the translated ones): if the
code that mints the ID token and the access token is reached at all, the client exists, it proved itself either by
the verifier matching the challenge sealed in the code (a client without a secret only) or by its secret, its id is
the code's subject, the code has not expired, the redirect URI equals the one recorded in the code, and the code's
type is `token_endpoint` — for every behaviour of Basic-auth parsing, unescaping, the client table and the sealed-data
check. -/
theorem c12_go_token_release (ext : TokenExt) (uext : UrlExt) (tok : keymasterdCodeToken)
    (redirect verifier formClientID formSecret origin : Str) (now : Int)
    (h : TokenEffect.release ∈ (KM.Gen.GoOidc.tokenRelease ext uext tok redirect verifier formClientID formSecret origin now).2) :
    Released ext tok redirect verifier now (chosenCreds ext formClientID formSecret).1 (chosenCreds ext formClientID formSecret).2 := by
  unfold KM.Gen.GoOidc.tokenRelease at h
  extract_lets tr cv un valid0 k1 cid0 pass0 trf at h
  have hlen : ∀ l : Str, (decide (len l > 0) = true) ↔ l ≠ [] := by
    intro l
    cases l with
    | nil => simp [len]
    | cons a as => simp [len]
  -- the join point k_1 with the unescape flag off: the decision proper
  have htail : ∀ (C P : Str), TokenEffect.release ∈ (k1 (C, P, tr, false)).2 →
      Released ext tok redirect verifier now C P := by
    intro C P hr
    unfold k1 at hr
    dsimp only at hr
    simp only [Bool.false_eq_true, if_false] at hr
    rw [show "token_endpoint".toList = tokEndpoint from rfl] at hr
    rcases hg : ext.getClient C with ⟨cl, _ | e⟩
    · simp only [hg, Option.isSome_none, Bool.false_eq_true, if_false] at hr
      -- the last five tests, shared by both ways of proving to be the client
      have fin : TokenEffect.release ∈
          (if (Gen.GoOidc.CorsOriginAllowed uext cl origin).snd.isSome = true then ((), tr ++ [TokenEffect.fail 500])
            else
              if (C != tok.Subject) = true then ((), tr ++ [TokenEffect.fail 401])
              else
                if decide (tok.Expiration < now) = true then ((), tr ++ [TokenEffect.fail 401])
                else
                  if (tok.RedirectURI != redirect) = true then ((), tr ++ [TokenEffect.fail 401])
                  else
                    if (tok.«Type» != tokEndpoint) = true then ((), tr ++ [TokenEffect.fail 401])
                    else ((), tr ++ [TokenEffect.release])).snd →
          C = tok.Subject ∧ ¬ (tok.Expiration < now) ∧ tok.RedirectURI = redirect ∧ tok.«Type» = tokEndpoint := by
        intro hf
        by_cases c0 : (Gen.GoOidc.CorsOriginAllowed uext cl origin).snd.isSome = true
        · simp [c0, tr] at hf
        by_cases c1 : C = tok.Subject
        · by_cases c2 : tok.Expiration < now
          · simp [c0, c1, c2, tr] at hf
          · by_cases c3 : tok.RedirectURI = redirect
            · by_cases c4 : tok.«Type» = tokEndpoint
              · exact ⟨c1, c2, c3, c4⟩
              · simp [c0, c1, c2, c3, c4, tr] at hf
            · simp [c0, c1, c2, c3, tr] at hf
        · simp [c0, c1, tr] at hf
      by_cases hv : verifier = []
      · -- no verifier: only the secret can prove the client
        have hcv : (decide (len cv > 0) = true) ↔ False := by rw [hlen]; simp [cv, hv]
        simp only [hcv, if_false] at hr
        by_cases hp : P = []
        · simp [hp, valid0, len, tr] at hr
        · have hpl : decide (len P > 0) = true := (hlen P).mpr hp
          by_cases hs : P = cl.ClientSecret
          · have hvs : Gen.GoOidc.ValidClientSecret cl P = true := by
              unfold Gen.GoOidc.ValidClientSecret; simp [hs]
            simp only [valid0, hpl, hvs, Bool.not_false, Bool.and_true, if_true, Bool.not_true, Bool.false_eq_true, if_false] at hr
            exact ⟨cl, hg, Or.inr ⟨hp, hs⟩, fin hr⟩
          · have hvs : Gen.GoOidc.ValidClientSecret cl P = false := by
              unfold Gen.GoOidc.ValidClientSecret; simp [hs]
            simp [valid0, hpl, hvs, tr] at hr
      · have hcv : decide (len cv > 0) = true := by rw [hlen]; simpa [cv] using hv
        simp only [hcv, if_true] at hr
        have hpk : Gen.GoOidc.ClientCanDoPKCEAuth cl = (cl.ClientSecret == [], none) := rfl
        simp only [hpk, Option.isSome_none, Bool.false_eq_true, if_false] at hr
        by_cases hs0 : cl.ClientSecret = []
        · simp only [hs0, beq_self_eq_true, Bool.not_true, Bool.false_eq_true, if_false] at hr
          cases hvv : ext.validVerifier C cv tok with
          | true =>
            simp only [hvv, Bool.not_true, Bool.false_and, Bool.false_eq_true, if_false] at hr
            exact ⟨cl, hg, Or.inl ⟨hv, hs0, by simpa [cv] using hvv⟩, fin hr⟩
          | false =>
            by_cases hp : P = []
            · simp [hvv, hp, len, tr] at hr
            · have hpl : decide (len P > 0) = true := (hlen P).mpr hp
              have hvs : Gen.GoOidc.ValidClientSecret cl P = false := by
                unfold Gen.GoOidc.ValidClientSecret; simp [hs0, hp]
              simp [hvv, hpl, hvs, tr] at hr
        · have : (cl.ClientSecret == []) = false := by simpa using hs0
          simp [this, tr] at hr
    · simp only [hg, Option.isSome_some, if_true] at hr
      split at hr <;> simp [tr] at hr
  have e1 : ∀ x : Str, unesc ext x = (if (ext.unescape x).2.isNone = true then (ext.unescape x).1 else x) := by
    intro x; unfold unesc
    rcases ext.unescape x with ⟨u, _ | e⟩ <;> rfl
  have hflag : ∀ (cid pass : Str), k1 (cid, pass, tr, true) = k1 (unesc ext cid, unesc ext pass, tr, false) := by
    intro cid pass
    rw [e1, e1]
    rfl
  rcases hb : ext.basicAuth with ⟨c, p, ok⟩
  rw [hb] at h
  dsimp only at h
  unfold chosenCreds
  rw [hb]
  cases ok with
  | true =>
    simp only [Bool.not_true, Bool.false_eq_true, if_false] at h
    rw [show un = true from rfl, hflag] at h
    exact htail _ _ h
  | false =>
    simp only [Bool.not_false, if_true] at h
    split at h
    · simp [trf, tr] at h
    · split at h
      · simp [trf, tr] at h
      · rw [show valid0 = false from rfl] at h
        exact htail _ _ h
end KM.OidcGo
