import KM.Model.PwCache
import KM.Model.GoLite
import KM.Model.GoTypes
import KM.Gen.GoPwAuth
/-! # C07 — `passwordAuthenticate` (lib/pwauth/ldap) as TRANSLATED from the current source (go2lean)

The whole function — the loop over servers and bind patterns with its `continue` on errors, the call of
`updateOrDeletePasswordHash`, the offline fallback — is translated from /repo's working tree on every run
(`KM/Gen/GoPwAuth.lean`).  Its externals (`convertToBindDN`, `authutil.CheckLDAPUserPassword`, the record store,
`Argon2CompareHashAndPassword`) are parameters (`ext`); the call of `updateOrDeletePasswordHash` is an EFFECT that the
translation records in a trace returned next to the answer.  `goDirVerdict` is built with the very combinator
(`loopWith`) the hand-written model's `loop` is built with, so the theorem below is the model's reading of the loop,
proved for the code as it reads now. -/
namespace KM.PwCache
open KM.Go KM.GoTypes

/-- a loop whose body, for each element, either answers (and returns from the function with a value built from the
answer and the trace so far) or moves on, leaving the trace alone: it is `loopWith` -/
theorem forRange_loopWith {α ρ E V T : Type} (ans : α → Option Bool) (mk : Bool → T → ρ)
    (ge : α → E → E) (gv : α → V → V) (body : α → E × T × V → Ctl ρ (E × T × V))
    (h : ∀ x e t v, body x (e, t, v) = match ans x with
      | some r => .ret (mk r t) | none => .next (ge x e, t, gv x v)) :
    ∀ xs e t v, forRange xs (e, t, v) body = match loopWith ans xs with
      | some r => .ret (mk r t)
      | none => .done (xs.foldl (fun e x => ge x e) e, t, xs.foldl (fun v x => gv x v) v) := by
  intro xs
  induction xs with
  | nil => intro e t v; simp [forRange, loopWith]
  | cons x rest ih =>
    intro e t v
    simp only [forRange, loopWith, h]
    cases ans x with
    | some r => simp
    | none => simp [ih]

/-- what one (server, bind pattern) check says: a verdict, or nothing (an error that is not a verdict) -/
def goAnswer {σ : Type} (ext : LdapExt σ) (u pw : Str) (srv : σ) (pat : Str) : Option Bool :=
  match ext.checkLDAP srv (ext.bindDN u pat) pw with
  | (v, none) => some v
  | (_, some _) => none

/-- the directory's verdict: servers outside, patterns inside, the first check that returns no error decides -/
def goDirVerdict {σ : Type} (ext : LdapExt σ) (servers : List σ) (patterns : List Str) (u pw : Str) : Option Bool :=
  loopWith (fun srv => loopWith (goAnswer ext u pw srv) patterns) servers

/-- the offline decision: a stored record exists, could be read and verified, and the password matches its hash -/
def goOffline {σ : Type} (ext : LdapExt σ) (hasStorage : Bool) (u pw : Str) : Bool :=
  hasStorage && (match ext.getSigned u 1 with
    | (ok, hash, none) => ok && (ext.argon2Compare hash pw).isNone
    | (_, _, some _) => false)

/-- **`passwordAuthenticate` as translated from the current source**: its answer and its one effect, for every
behaviour of the LDAP servers, of the record store and of the hash comparison, any number of servers and bind
patterns — the directory decides whenever some (server, pattern) check returns a verdict, the decision is followed by
exactly one `updateOrDeletePasswordHash(verdict, user, password)`, and only when NO check returned a verdict is the
stored record consulted (without any write). It never returns an error. -/
theorem c07_go_password_authenticate {σ : Type} (ext : LdapExt σ) (servers : List σ) (patterns : List Str)
    (hasStorage : Bool) (u pw : Str) :
    KM.Gen.GoPwAuth.passwordAuthenticate ext servers patterns hasStorage u pw =
      match goDirVerdict ext servers patterns u pw with
      | some v => ((v, none), [PwEffect.update v u pw])
      | none => ((goOffline ext hasStorage u pw, none), []) := by
  obtain ⟨bindDN, checkLDAP, updateResult, getSigned, argon2Compare⟩ := ext
  unfold KM.Gen.GoPwAuth.passwordAuthenticate goDirVerdict goOffline
  dsimp -iota only
  have inner : ∀ (srv : σ) (e : Option Err) (t : List PwEffect) (v : Bool), _ :=
    fun srv => forRange_loopWith (goAnswer ⟨bindDN, checkLDAP, updateResult, getSigned, argon2Compare⟩ u pw srv)
      (fun r t => ((r, (none : Option Err)), t ++ [PwEffect.update r u pw]))
      (fun pat _ => (checkLDAP srv (bindDN u pat) pw).2) (fun pat _ => (checkLDAP srv (bindDN u pat) pw).1)
      (fun bindPattern st => match st with
        | (err, trace_, valid) =>
          match (checkLDAP srv (bindDN u bindPattern) pw) with
          | (valid, err) =>
            if (Option.isSome err) then
              match (if true then () else ()) with
              | () => KM.Go.Ctl.next (err, trace_, valid)
            else
              match (if ((Option.isSome (updateResult valid u pw)) && true) then () else ()) with
              | () => KM.Go.Ctl.ret ((valid, none), trace_ ++ [KM.GoTypes.PwEffect.update valid u pw]))
      (by
        intro pat e t v
        unfold goAnswer
        dsimp only
        generalize checkLDAP srv (bindDN u pat) pw = r
        rcases r with ⟨vv, _ | er⟩ <;> simp) patterns
  simp only [inner]
  rw [forRange_loopWith
    (fun srv => loopWith (goAnswer ⟨bindDN, checkLDAP, updateResult, getSigned, argon2Compare⟩ u pw srv) patterns)
    (fun r t => ((r, (none : Option Err)), t ++ [PwEffect.update r u pw]))
    (fun srv e => List.foldl (fun e x => (checkLDAP srv (bindDN u x) pw).snd) e patterns)
    (fun srv v => List.foldl (fun v x => (checkLDAP srv (bindDN u x) pw).fst) v patterns) _ (by
      intro srv e t v
      cases loopWith (goAnswer ⟨bindDN, checkLDAP, updateResult, getSigned, argon2Compare⟩ u pw srv) patterns <;> rfl)]
  cases loopWith (fun srv => loopWith (goAnswer ⟨bindDN, checkLDAP, updateResult, getSigned, argon2Compare⟩ u pw srv) patterns) servers with
  | some r => simp
  | none =>
    cases hasStorage with
    | false => simp
    | true =>
      generalize getSigned u 1 = g
      rcases g with ⟨ok, hash, _ | er⟩
      · cases ok <;> cases ha : argon2Compare hash pw <;> simp [ha]
      · simp

/-- **The directory's verdict is final**, on the translated source: if some (server, pattern) check returns a
verdict, that verdict is the answer, and the refresh (accept) / eviction (reject) is issued exactly once for it -/
theorem c07_go_dir_final {σ : Type} (ext : LdapExt σ) (servers : List σ) (patterns : List Str)
    (hasStorage : Bool) (u pw : Str) (v : Bool) (h : goDirVerdict ext servers patterns u pw = some v) :
    KM.Gen.GoPwAuth.passwordAuthenticate ext servers patterns hasStorage u pw =
      ((v, none), [PwEffect.update v u pw]) := by
  rw [c07_go_password_authenticate, h]

/-- **The cache only fills outages**, on the translated source: an acceptance that was not followed by a refresh
(empty trace) happened with no verdict from any server, through a stored record that could be read, verified and
whose hash the password matches; and nothing is written in that case -/
theorem c07_go_offline_only_in_outage {σ : Type} (ext : LdapExt σ) (servers : List σ) (patterns : List Str)
    (hasStorage : Bool) (u pw : Str)
    (hacc : (KM.Gen.GoPwAuth.passwordAuthenticate ext servers patterns hasStorage u pw).1.1 = true)
    (htr : (KM.Gen.GoPwAuth.passwordAuthenticate ext servers patterns hasStorage u pw).2 = []) :
    goDirVerdict ext servers patterns u pw = none ∧ goOffline ext hasStorage u pw = true := by
  rw [c07_go_password_authenticate] at hacc htr
  cases hd : goDirVerdict ext servers patterns u pw with
  | some v => rw [hd] at htr; simp at htr
  | none => rw [hd] at hacc; exact ⟨rfl, hacc⟩

/-- it never returns an error, and its trace holds at most the one refresh/evict call -/
theorem c07_go_no_error {σ : Type} (ext : LdapExt σ) (servers : List σ) (patterns : List Str)
    (hasStorage : Bool) (u pw : Str) :
    (KM.Gen.GoPwAuth.passwordAuthenticate ext servers patterns hasStorage u pw).1.2 = none ∧
    (KM.Gen.GoPwAuth.passwordAuthenticate ext servers patterns hasStorage u pw).2.length ≤ 1 := by
  rw [c07_go_password_authenticate]
  cases goDirVerdict ext servers patterns u pw <;> simp

/-- non-vacuity: the translated function run on a tiny world — server 0 is down, server 1 rejects; with both down
the stored record decides -/
def exExt (up1 : Bool) : LdapExt Nat where
  bindDN u p := p ++ u
  checkLDAP srv _ pw := if srv = 1 ∧ up1 = true then (pw == ['o', 'k'], none) else (false, some ['d', 'o', 'w', 'n'])
  updateResult _ _ _ := none
  getSigned _ _ := (true, ['h'], none)
  argon2Compare hash pw := if hash = ['h'] ∧ pw = ['o', 'l', 'd'] then none else some ['n', 'o']

example : KM.Gen.GoPwAuth.passwordAuthenticate (exExt true) [0, 1] [['d']] true ['u'] ['o', 'l', 'd'] =
      ((false, none), [PwEffect.update false ['u'] ['o', 'l', 'd']]) ∧
    KM.Gen.GoPwAuth.passwordAuthenticate (exExt false) [0, 1] [['d']] true ['u'] ['o', 'l', 'd'] = ((true, none), []) ∧
    KM.Gen.GoPwAuth.passwordAuthenticate (exExt false) [0, 1] [['d']] false ['u'] ['o', 'l', 'd'] = ((false, none), []) := by
  decide

/-! ### `updateOrDeletePasswordHash` as translated: which writes follow a directory verdict -/

/-- the writes the statement of C07 asks for: an accepted password is stored afresh (expiry = now + cache
duration, handed in as `expiresAt`); a rejected password evicts the stored record exactly when it is the one that
record caches; nothing else is ever written -/
def goWrites (ext : HashStoreExt) (hasStorage : Bool) (expiresAt : Int) (valid : Bool) (u pw : Str) : List StoreEffect :=
  if hasStorage = false then []
  else if valid = true then
    (match ext.newHash pw with
     | (h, none) => [StoreEffect.upsert u 1 expiresAt h]
     | (_, some _) => [])
  else
    (match ext.getSigned u 1 with
     | (true, h, none) => if (ext.argon2Compare h pw).isNone = true then [StoreEffect.delete u 1] else []
     | _ => [])

/-- **refresh on accept, evict on reject of the cached password**, on the translated source, for every behaviour of
the hash function and of the record store -/
theorem c07_go_update_or_delete (ext : HashStoreExt) (hasStorage : Bool) (expiresAt : Int) (valid : Bool) (u pw : Str) :
    (KM.Gen.GoPwAuth.updateOrDeletePasswordHash ext hasStorage expiresAt valid u pw).2 =
      goWrites ext hasStorage expiresAt valid u pw := by
  obtain ⟨newHash, upsertResult, getSigned, argon2Compare, deleteResult⟩ := ext
  unfold KM.Gen.GoPwAuth.updateOrDeletePasswordHash goWrites
  dsimp -iota only
  cases hasStorage with
  | false => simp
  | true =>
    cases valid with
    | true =>
      rcases hn : newHash pw with ⟨h, _ | e⟩ <;> simp [hn]
    | false =>
      rcases hg : getSigned u 1 with ⟨ok, h, _ | e⟩
      · cases ok <;> cases ha : argon2Compare h pw <;> simp [hg, ha]
      · simp [hg]

end KM.PwCache
