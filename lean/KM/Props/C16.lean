/-! # C16 — property theorems (stub: not built yet) -/
