import KM.Gen.Pins
import KM.Model.Conc
/-! # C16 — concurrent requests are race-free and do not undo or double-spend

Three kinds of statement: (1) lockset facts over the regenerated access table; (2) what the
load-modify-save design does guarantee (requests on different users commute; a one-time TOTP
evaluation is serialised by its mutex); (3) **proved negations** for what it does not guarantee
— the lost update and the bootstrap-OTP double spend are known findings replayed on the real
handlers on every run. -/
namespace KM.Conc

/-- **Lockset**: every access to `localAuthData`, `vipPushCookie`, `pendingOauth2`,
`totpLocalRateLimit` outside single-threaded initialisation, and every comparison of the signer
with nil (the seal test, including readyz's), is dominated by `Lock()` of the guarding mutex; each field does occur in the table. -/
theorem c16_locked :
    KM.Gen.sharedAccesses.all (fun a => a.2.2) = true ∧
    ["localAuthData", "vipPushCookie", "pendingOauth2", "totpLocalRateLimit", "Signer"].all
      (fun f => KM.Gen.sharedAccesses.any (fun a => a.2.1 == f.toList)) = true := by decide

/-! ### what holds -/

theorem setUser_comm (s : Store) (u v : User) (p q : Profile) (h : u ≠ v) :
    setUser (setUser s u p) v q = setUser (setUser s v q) u p := by
  funext w
  unfold setUser
  by_cases h1 : w = v
  · by_cases h2 : w = u
    · subst h1; subst h2; exact absurd rfl h
    · simp [h1, h2]; intro e; exact absurd e.symm h
  · by_cases h2 : w = u
    · simp [h1, h2]; intro e; exact absurd e h
    · simp [h1, h2]

theorem setUser_other (s : Store) (u v : User) (p : Profile) (h : v ≠ u) : setUser s u p v = s v := by
  simp [setUser, h]

/-- the task component of a step depends on the store only through the task's own user -/
theorem stepTask_task_congr (s s' : Store) (t : Task) (h : s t.user = s' t.user) :
    (stepTask s t).2 = (stepTask s' t).2 := by
  unfold stepTask
  cases t.status with
  | some _ => rfl
  | none =>
    cases t.loaded with
    | none => simp [h]
    | some p =>
      simp only
      cases decide t.kind p with
      | mk o st => cases o <;> rfl

/-- a step touches the store at most at the task's own user -/
theorem stepTask_store_other (s : Store) (t : Task) (v : User) (h : v ≠ t.user) :
    (stepTask s t).1 v = s v := by
  unfold stepTask
  cases t.status with
  | some _ => rfl
  | none =>
    cases t.loaded with
    | none => rfl
    | some p =>
      simp only
      cases decide t.kind p with
      | mk o st =>
        cases o with
        | none => rfl
        | some p' => exact setUser_other s t.user v p' h

/-- the stored value written by a step does not depend on other users' entries -/
theorem stepTask_store_self (s s' : Store) (t : Task) (h : s t.user = s' t.user) :
    (stepTask s t).1 t.user = (stepTask s' t).1 t.user := by
  unfold stepTask
  cases t.status with
  | some _ => exact h
  | none =>
    cases t.loaded with
    | none => exact h
    | some p =>
      simp only
      cases decide t.kind p with
      | mk o st =>
        cases o with
        | none => exact h
        | some p' => simp [setUser]

theorem stepTask_user (s : Store) (t : Task) : (stepTask s t).2.user = t.user := by
  unfold stepTask
  cases t.status with
  | some _ => rfl
  | none =>
    cases t.loaded with
    | none => rfl
    | some p =>
      simp only
      cases decide t.kind p with
      | mk o st => cases o <;> rfl

/-- steps of requests on different users commute -/
theorem steps_commute (s : Store) (a b : Task) (h : a.user ≠ b.user) :
    (stepTask (stepTask s a).1 b).1 = (stepTask (stepTask s b).1 a).1 ∧
    (stepTask (stepTask s a).1 b).2 = (stepTask s b).2 ∧
    (stepTask (stepTask s b).1 a).2 = (stepTask s a).2 := by
  have hb : (stepTask s a).1 b.user = s b.user := stepTask_store_other s a b.user (fun e => h e.symm)
  have ha : (stepTask s b).1 a.user = s a.user := stepTask_store_other s b a.user h
  refine ⟨?_, stepTask_task_congr _ _ b hb, stepTask_task_congr _ _ a ha⟩
  funext v
  by_cases hva : v = a.user
  · subst hva
    rw [stepTask_store_other _ b _ h]
    exact (stepTask_store_self _ _ a ha).symm
  · by_cases hvb : v = b.user
    · subst hvb
      rw [stepTask_store_other (stepTask s b).1 a _ hva]
      exact stepTask_store_self _ _ b hb
    · rw [stepTask_store_other _ b v hvb, stepTask_store_other _ a v hva,
          stepTask_store_other _ a v hva, stepTask_store_other _ b v hvb]

/-- adjacent steps of different-user requests can be swapped in any schedule -/
theorem run_swap (s : Store) (a b : Task) (rest : List Bool) (h : a.user ≠ b.user) :
    run s a b (true :: false :: rest) = run s a b (false :: true :: rest) := by
  obtain ⟨h1, h2, h3⟩ := steps_commute s a b h
  simp only [run]
  rw [h1, h2, h3]

/-- **Different users serialise**: for two requests on different users' profiles, each of the six
interleavings of their load and save steps ends in the same store and the same two answers as
serving them one after another. -/
theorem c16_serializable_partial (s : Store) (a b : Task) (h : a.user ≠ b.user)
    (sched : List Bool)
    (hs : sched ∈ [[true, true, false, false], [true, false, true, false], [true, false, false, true],
                   [false, true, true, false], [false, true, false, true], [false, false, true, true]]) :
    run s a b sched = run s a b seqAB := by
  have hu1 : (stepTask s a).2.user ≠ b.user := by rw [stepTask_user]; exact h
  have hu2 : a.user ≠ (stepTask s b).2.user := by rw [stepTask_user]; exact h
  have hu3 : (stepTask s a).2.user ≠ (stepTask (stepTask s a).1 b).2.user := by
    rw [stepTask_user, stepTask_user]; exact h
  -- AABB is the reference; derive the others by adjacent swaps
  have e1 : run s a b [true, false, true, false] = run s a b seqAB := by
    show run s a b (true :: false :: true :: [false]) = run s a b (true :: true :: false :: [false])
    simp only [run]
    have := run_swap (stepTask s a).1 (stepTask s a).2 b [false] hu1
    simp only [run] at this
    exact this.symm
  have e2 : run s a b [true, false, false, true] = run s a b [true, false, true, false] := by
    simp only [run]
    have := run_swap (stepTask (stepTask s a).1 b).1 (stepTask s a).2 (stepTask (stepTask s a).1 b).2 [] hu3
    simp only [run] at this
    exact this.symm
  have e3 : run s a b [false, true, true, false] = run s a b [true, false, true, false] :=
    (run_swap s a b [true, false] h).symm
  have e4 : run s a b [false, true, false, true] = run s a b [true, false, false, true] :=
    (run_swap s a b [false, true] h).symm
  have e5 : run s a b [false, false, true, true] = run s a b [false, true, false, true] := by
    simp only [run]
    have := run_swap (stepTask s b).1 a (stepTask s b).2 [true] hu2
    simp only [run] at this
    exact this.symm
  simp only [List.mem_cons, List.not_mem_nil, or_false] at hs
  rcases hs with h | h | h | h | h | h <;> subst h
  · rfl
  · exact e1
  · exact e2.trans e1
  · exact e3.trans e1
  · exact e4.trans (e2.trans e1)
  · exact e5.trans (e4.trans (e2.trans e1))

/-- **One-time code, two simultaneous submissions**: the spacing test-and-set is atomic, so of two
submissions less than two seconds apart (in either order) at most one gets its code evaluated. -/
theorem c16_totp_once (last t1 t2 : Int) (hc : t2 < t1 + 2) :
    ¬ ((spacing last t1).1 = true ∧ (spacing (spacing last t1).2 t2).1 = true) := by
  intro ⟨h1, h2⟩
  by_cases hl : last + 2 > t1
  · simp [spacing, hl] at h1
  · have e : spacing last t1 = (true, t1) := by simp [spacing, hl]
    rw [e] at h2
    have : t1 + 2 > t2 := by omega
    simp [spacing, this] at h2

/-! ### one TOTP code, any number of simultaneous presentations, any schedule

`c16_totp_once` is about the test-and-set alone.  The request as a whole is load / gate+evaluate / save
(`KM.Conc.tStep`): the profile, with the counter of the last accepted code, is read *before* the gate and
saved without a version check, so what makes the code one-time under concurrency is that the record with
the first request's `lastCheckTime` is still there when a request holding a stale profile reaches the gate. -/

def TInv (base : Int) (s : TSt) : Prop :=
  s.pending.length + s.honoured.length ≤ 1 ∧ (∀ x ∈ s.pending, base ≤ x.2) ∧
  (0 < s.pending.length + s.honoured.length → ∃ t, s.lastCheck = some t ∧ base ≤ t)

theorem gateOpen_window (base now t : Int) (h1 : now < base + 2) (h2 : base ≤ t) :
    gateOpen (some t) now = false := by
  have : t + 2 > now := by omega
  simp [gateOpen, spacing, this]

theorem tStep_inv (base c : Int) (s : TSt) (e : TEv) (hw : e.inWindow base) (h : TInv base s) :
    TInv base (tStep true c s e) := by
  obtain ⟨h1, h2, h3⟩ := h
  cases e with
  | load r => exact ⟨h1, h2, h3⟩
  | gate r now =>
    obtain ⟨hb, hn⟩ := hw
    simp only [tStep]
    split
    · exact ⟨h1, h2, h3⟩
    · split
      · rename_i hopen
        -- the gate was open: nobody is pending or honoured
        have hz : s.pending.length + s.honoured.length = 0 := by
          rcases Nat.eq_zero_or_pos (s.pending.length + s.honoured.length) with hz | hp
          · exact hz
          · obtain ⟨t, ht, hbt⟩ := h3 hp
            rw [ht, gateOpen_window base now t hn hbt] at hopen
            cases hopen
        have hp0 : s.pending = [] := List.eq_nil_of_length_eq_zero (by omega)
        have hh0 : s.honoured.length = 0 := by omega
        split
        · refine ⟨by simpa using h1, h2, fun _ => ⟨now, rfl, hb⟩⟩
        · refine ⟨?_, ?_, fun _ => ⟨now, rfl, hb⟩⟩
          · simp [hp0, hh0]
          · intro x hx
            simp [hp0] at hx
            subst hx
            exact hb
      · exact ⟨h1, h2, h3⟩
  | save r =>
    simp only [tStep]
    split
    · exact ⟨h1, h2, h3⟩
    · rename_i t hl
      have hlen : s.pending.length ≠ 0 := by
        intro h0
        have := List.eq_nil_of_length_eq_zero h0
        rw [this] at hl
        simp [List.lookup] at hl
      match hp : s.pending, hl, h1, h2 with
      | [x], hl, h1, h2 =>
        have hh0 : s.honoured.length = 0 := by simp at h1; omega
        have hx : (r == x.1) = true ∧ x.2 = t := by
          cases hrx : (r == x.1) <;> simp [List.lookup, hrx] at hl
          exact ⟨rfl, hl⟩
        have hr : x.1 = r := by have := hx.1; simp at this; exact this.symm
        refine ⟨?_, ?_, fun _ => ⟨t, rfl, ?_⟩⟩
        · simp [List.filter, notReq, hr, hh0]
        · simp [List.filter, notReq, hr]
        · rw [← hx.2]; exact h2 x (by simp)
      | [], hl, _, _ => simp [List.lookup] at hl
      | _ :: _ :: _, _, h1, _ => simp at h1; omega


theorem tRun_inv (base c : Int) (evs : List TEv) (s : TSt) (hw : ∀ e ∈ evs, e.inWindow base)
    (h : TInv base s) : TInv base (tRun true c s evs) := by
  induction evs generalizing s with
  | nil => exact h
  | cons e rest ih =>
    exact ih (tStep true c s e) (fun e' he' => hw e' (List.mem_cons_of_mem _ he'))
      (tStep_inv base c s e (hw e (List.mem_cons_self ..)) h)

/-- **One code, honoured at most once under every schedule**: any number of requests presenting the same
valid code, their load / gate / save steps interleaved in any order (including a request parked between its
load and its gate while another runs to completion), all spacing tests within one window shorter than the
spacing — at most one request is answered "valid".  No bound on the number of requests or events. -/
theorem c16_totp_schedule_once (base c stored : Int) (lastCheck : Option Int) (evs : List TEv)
    (hw : ∀ e ∈ evs, e.inWindow base) :
    (tRun true c (TSt.init stored lastCheck) evs).honoured.length ≤ 1 := by
  have h := tRun_inv base c evs (TSt.init stored lastCheck) hw
    ⟨by simp [TSt.init], by simp [TSt.init], by simp [TSt.init]⟩
  have := h.1
  omega

/-- **The record is load-bearing** (proved negation): if the success path leaves no rate-limit record behind,
the schedule "B loads, A loads, A passes the gate, A saves, B passes the gate, B saves" at one instant honours
the code twice — the stored counter alone does not serialise the two requests. -/
theorem c16_totp_record_needed_witness :
    (tRun false 7 (TSt.init 0 none) [.load 1, .load 0, .gate 0 100, .save 0, .gate 1 100, .save 1]).honoured = [1, 0] ∧
    (∀ e ∈ [TEv.load 1, .load 0, .gate 0 100, .save 0, .gate 1 100, .save 1], e.inWindow 100) := by
  refine ⟨by decide, ?_⟩
  intro e he
  simp at he
  rcases he with rfl | rfl | rfl | rfl | rfl | rfl <;> simp [TEv.inWindow]

example : (tRun true 7 (TSt.init 0 none) [.load 1, .load 0, .gate 0 100, .save 0, .gate 1 100, .save 1]).honoured = [0] := by
  decide
example : (tRun true 7 (TSt.init 0 none) [.load 0, .gate 0 100, .save 0, .load 1, .gate 1 103, .save 1]).honoured = [0] := by
  decide

/-! ### a hardware-token challenge is honoured at most once -/

def ChInv (s : ChSt) : Prop :=
  s.honoured.Nodup ∧ (∀ c ∈ s.honoured, c < s.next) ∧
  (∀ c, s.pending = some c → c < s.next ∧ c ∉ s.honoured)

theorem chStep_inv (s : ChSt) (e : ChEv) (h : ChInv s) : ChInv (chStep true s e) := by
  obtain ⟨hn, hl, hp⟩ := h
  cases e with
  | begin =>
    refine ⟨hn, fun c hc => Nat.lt_succ_of_lt (hl c hc), ?_⟩
    intro c hc
    simp only [chStep] at hc
    injection hc with hc; subst hc
    exact ⟨Nat.lt_succ_self _, fun hm => Nat.lt_irrefl _ (hl _ hm)⟩
  | lookup r => exact ⟨hn, hl, hp⟩
  | expire => exact ⟨hn, hl, fun c hc => by simp [chStep] at hc⟩
  | consume r =>
    simp only [chStep]
    cases hs : s.seen r with
    | none => exact ⟨hn, hl, hp⟩
    | some c =>
      simp only [if_true]
      by_cases hpc : s.pending = some c
      · rw [if_pos hpc]
        have := hp c hpc
        refine ⟨List.nodup_cons.mpr ⟨this.2, hn⟩, ?_, fun d hd => by simp at hd⟩
        intro d hd
        rcases List.mem_cons.mp hd with rfl | hd
        · exact this.1
        · exact hl d hd
      · rw [if_neg hpc]; exact ⟨hn, hl, hp⟩

/-- **One signed assertion, any number of simultaneous presentations**: over every interleaving of
challenge requests, lookups, consumptions (of any number of concurrent requests) and cleanup runs, no
challenge is honoured twice — with the compare-and-remove of `consumeLoginChallenge`. -/
theorem c16_challenge_once (evs : List ChEv) : (chRun true ChSt.init evs).honoured.Nodup := by
  have : ∀ s, ChInv s → ChInv (chRun true s evs) := by
    induction evs with
    | nil => intro s h; exact h
    | cons e rest ih => intro s h; exact ih _ (chStep_inv s e h)
  have h0 : ChInv ChSt.init := by
    refine ⟨List.nodup_nil, ?_, ?_⟩
    · intro c hc; simp [ChSt.init] at hc
    · intro c hc; simp [ChSt.init] at hc
  exact (this ChSt.init h0).1

/-- **As found** (lookup and unconditional delete in separate critical sections): two requests that both
look the challenge up before either removes it are both honoured. -/
theorem c16_challenge_unfixed_counterexample :
    (chRun false ChSt.init [.begin, .lookup 0, .lookup 1, .consume 0, .consume 1]).honoured = [0, 0] ∧
    (chRun true ChSt.init [.begin, .lookup 0, .lookup 1, .consume 0, .consume 1]).honoured = [0] := by
  decide

/-- non-vacuity: a presentation alone is honoured, and a second challenge can be honoured after it -/
example : (chRun true ChSt.init [.begin, .lookup 0, .consume 0, .begin, .lookup 1, .consume 1]).honoured = [1, 0] := by
  decide

/-- **Who removes a pending challenge** (regenerated): only `consumeLoginChallenge` (the compare-and-remove
the model's `consume` transcribes; body pinned below) and the periodic cleanup; the handlers themselves only
read the map or store a fresh challenge. -/
theorem c16_challenge_sites :
    KM.Gen.challengeRemovers = ["consumeLoginChallenge".toList, "performStateCleanup".toList] ∧
    KM.Gen.challengeIndexers = ["consumeLoginChallenge".toList, "u2fSignRequest".toList, "u2fSignResponse".toList,
      "webauthnAuthFinish".toList, "webauthnAuthLogin".toList] := by decide

/-! ### what does not hold (known findings — witnesses) -/

def tokensFixture : Profile :=
  { u2f := fun i => if i = 1 ∨ i = 2 then some { enabled := true, name := 0 } else none,
    totp := fun i => if i = 1 then some { enabled := true, name := 0 } else none,
    bootstrap := false }

def otpFixture : Profile := { u2f := fun _ => none, totp := fun _ => none, bootstrap := true }

/-- **Lost update (finding)**: `Disable token 1` (A) and `rename token 2` (B) on one user, schedule
load A, load B, save A, save B: both are acknowledged with 200, yet token 1 is enabled again —
an outcome neither sequential order produces. -/
theorem c16_lost_update_witness :
    let r := run (fun _ => tokensFixture) (mk 0 (.u2f 1 .disable)) (mk 0 (.u2f 2 (.rename 7)))
      [true, false, true, false]
    r.2.1.status = some 200 ∧ r.2.2.status = some 200 ∧
    (r.1 0).u2f 1 = some { enabled := true, name := 0 } ∧
    ((run (fun _ => tokensFixture) (mk 0 (.u2f 1 .disable)) (mk 0 (.u2f 2 (.rename 7))) seqAB).1 0).u2f 1
      = some { enabled := false, name := 0 } ∧
    ((run (fun _ => tokensFixture) (mk 0 (.u2f 1 .disable)) (mk 0 (.u2f 2 (.rename 7))) seqBA).1 0).u2f 1
      = some { enabled := false, name := 0 } := by
  decide

/-- **Bootstrap OTP double spend (finding)**: the same one-time value presented by two sessions at
the same moment (load A, load B, save A, save B) is honoured twice; sequentially the second gets 412. -/
theorem c16_bootstrap_double_spend_witness :
    let r := run (fun _ => otpFixture) (mk 0 (.bootstrap true)) (mk 0 (.bootstrap true))
      [true, false, true, false]
    r.2.1.status = some 200 ∧ r.2.2.status = some 200 ∧
    (run (fun _ => otpFixture) (mk 0 (.bootstrap true)) (mk 0 (.bootstrap true)) seqAB).2.2.status = some 412 := by
  decide

/-- non-vacuity of `c16_serializable_partial`: two different users exist and the schedule set is inhabited -/
example : (mk 0 (.u2f 1 .disable)).user ≠ (mk 1 (.u2f 1 .delete)).user := by decide

end KM.Conc

-- BEGIN PINS (written by bin/update-pins.py)
namespace KM.Conc

/-- **Source pins** (regenerated): SHA-256 (first 80 bits) of the signature and body, whitespace-normalised,
of the load/decide/save handlers `KM.Conc.decide` transcribes, the storage primitives it treats as atomic, and the
challenge lookup / consume steps `KM.Conc.chStep` transcribes — equal to the values recorded when the model was last
read against the code. Any edit, harmless or not, breaks this tie. -/
theorem c16_source_pins :
    KM.Gen.Pins.LoadUserProfile = "6c94018184c626ad2b47" ∧
    KM.Gen.Pins.SaveUserProfile = "058f951a55bc49b13e72" ∧
    KM.Gen.Pins.u2fTokenManagerHandler = "7509db22e477f6130434" ∧
    KM.Gen.Pins.totpTokenManagerHandler = "c62269ed8bc05f5b35ab" ∧
    KM.Gen.Pins.BootstrapOtpAuthHandler = "bbd50321353caeeacbc7" ∧
    KM.Gen.Pins.userBootstrapOtpHash = "b6575c4fc52137bab8fb" ∧
    KM.Gen.Pins.performStateCleanup = "6927c0c0ef032c2ee15c" ∧
    KM.Gen.Pins.consumeLoginChallenge = "0bd6f92d7c6e11787aa0" ∧
    KM.Gen.Pins.u2fSignRequest = "0fc992789dbf32c74202" ∧
    KM.Gen.Pins.u2fSignResponse = "1bb702a0f4caba07564b" ∧
    KM.Gen.Pins.webauthnAuthLogin = "a9de7e8bace8d59bb16e" ∧
    KM.Gen.Pins.webauthnAuthFinish = "57089464356c1dbf38b2" := by
  exact ⟨rfl, rfl, rfl, rfl, rfl, rfl, rfl, rfl, rfl, rfl, rfl, rfl⟩

end KM.Conc
-- END PINS
