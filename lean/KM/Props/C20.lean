import KM.Lemmas.Events
/-! # C20 — every certificate issued is reported to the audit stream; history persists

Property theorems only.  Model: `KM/Model/Events.lean` (notifier fan-out with one bounded
channel per subscriber; recorder lists, save / load / expire).  Generated facts:
`KM/Gen/Events.lean` (channel capacity, retention, every send / locked region of the notifier,
every certificate signing site of cmd/keymasterd). -/
namespace KM.Events
open KM.EventSite
variable {α : Type}

/-! ## notifier -/

/-- **Non-blocking fan-out.**  A publish is a function of the state (`publish : St → α → St`, no
waiting outcome exists: each loop iteration is a `select` with `default`).  Its effect on a
subscriber's channel depends on that channel alone: enqueue when there is room, drop otherwise —
whatever the state of any other subscriber; the registered set and what subscribers already took
are untouched. -/
theorem c20_nonblocking (N : Nat) (s : St α) (ev : α) (h : s.keys.Nodup) :
    (publish N s ev).keys = s.keys ∧ (publish N s ev).got = s.got ∧
    ∀ k, (publish N s ev).q k = if k ∈ s.keys then trySend N (s.q k) ev else s.q k :=
  ⟨publishOver_keys N s.keys s ev, publishOver_got N s.keys s ev, publishOver_q N s.keys s ev h⟩

/-- Go iterates the channel map in an arbitrary order: every order gives the same result. -/
theorem c20_nonblocking_any_order (N : Nat) (s : St α) (ev : α) (order : List Nat)
    (h : s.keys.Nodup) (hp : order.Perm s.keys) (k : Nat) :
    (publishOver N order s ev).q k = (publish N s ev).q k := by
  rw [publishOver_q N order s ev (hp.nodup_iff.mpr h) k, (c20_nonblocking N s ev h).2.2 k]
  simp [hp.mem_iff]

/-- a subscriber whose channel is full (a slow or stalled reader) costs the others nothing:
`k` with room receives the event, the full `j` keeps its content -/
theorem c20_full_subscriber_harmless (N : Nat) (s : St α) (ev : α) (j k : Nat) (h : s.keys.Nodup)
    (hj : j ∈ s.keys) (hk : k ∈ s.keys) (hfull : N ≤ (s.q j).length) (hroom : (s.q k).length < N) :
    (publish N s ev).q k = s.q k ++ [ev] ∧ (publish N s ev).q j = s.q j := by
  have := (c20_nonblocking N s ev h).2.2
  constructor
  · rw [this k]; simp [hk, trySend, hroom]
  · rw [this j]
    have : ¬ (s.q j).length < N := by omega
    simp [hj, trySend, this]

/-- what makes the model's "no waiting outcome" true of the source (regenerated tables): every
channel send reachable from a `Publish*` method is a `select` with a `default` arm, nothing that
can wait runs while the notifier mutex is held, and subscriber channels are buffered. -/
theorem c20_nonblocking_sites :
    KM.Gen.notifierSends.all (fun r => !r.2.2 || r.2.1 == SendClass.selectDefault) = true ∧
    (KM.Gen.notifierSends.filter (fun r => r.2.2 && r.2.1 == SendClass.selectDefault)).length ≥ 2 ∧
    KM.Gen.notifierSends.all (fun r => r.2.1 != SendClass.blocking && r.2.1 != SendClass.unknown) = true ∧
    KM.Gen.notifierLockedRegions.all (fun r => r.2 == LockClass.nonBlocking) = true ∧
    KM.Gen.notifierLockedRegions.length ≥ 3 ∧
    0 < chanCap := by
  decide

/-- a channel never holds more than its capacity -/
theorem c20_bounded (N k : Nat) (ops : List (Op α)) (s : St α) (hn : s.keys.Nodup)
    (hb : (s.q k).length ≤ N) : ((run N s ops).q k).length ≤ N :=
  run_q_le N k ops s hn hb

/-- **Events are lost only to a full channel.**  For every op sequence (publishes, reads by any
subscriber, other subscribers coming and going) during which `k` stays connected: what `k` has
been handed (taken by its connection goroutine, then still buffered) is what it had, followed by
a subsequence `D` of the published events in publication order, and the number of published
events missing from `D` is exactly the number of publishes that found `k`'s channel full. -/
theorem c20_drop_only_when_full (N k : Nat) (ops : List (Op α)) (s : St α) (hn : s.keys.Nodup)
    (hk : k ∈ s.keys) (hs : stays k ops = true) :
    ∃ D, D.Sublist (pubs ops) ∧
      (run N s ops).got k ++ (run N s ops).q k = s.got k ++ s.q k ++ D ∧
      D.length + fullCount N k s ops = (pubs ops).length :=
  account N k ops s hn hk hs

/-- **Delivery.**  A subscriber whose channel is never full at a publish receives exactly the
published sequence, in order — for every op sequence. -/
theorem c20_delivery (N k : Nat) (ops : List (Op α)) (s : St α) (hn : s.keys.Nodup)
    (hk : k ∈ s.keys) (hs : stays k ops = true) (hf : fullCount N k s ops = 0) :
    (run N s ops).got k ++ (run N s ops).q k = s.got k ++ s.q k ++ pubs ops := by
  obtain ⟨D, hD, hv, hl⟩ := c20_drop_only_when_full N k ops s hn hk hs
  rw [hf, Nat.add_zero] at hl
  rw [hv, hD.eq_of_length hl]

/-- … in particular a subscriber that is drained between publishes (its goroutine takes the event
out before the next publish), with any channel capacity ≥ 1 -/
theorem c20_delivery_drained (N k : Nat) (ops : List (Op α)) (s : St α) (hn : s.keys.Nodup)
    (hk : k ∈ s.keys) (hs : stays k ops = true) (hN : 1 ≤ N) (he : s.q k = [])
    (hd : drainedBetween k false ops = true) :
    (run N s ops).got k ++ (run N s ops).q k = s.got k ++ pubs ops := by
  have := c20_delivery N k ops s hn hk hs
    (fullCount_drained N k ops s false hn hk hs hN hd (by simp [he]))
  simpa [he] using this

/-- … and a subscriber with at most `N` events outstanding, however slowly it reads -/
theorem c20_delivery_outstanding (N k : Nat) (ops : List (Op α)) (s : St α) (hn : s.keys.Nodup)
    (hk : k ∈ s.keys) (hs : stays k ops = true) (hb : (s.q k).length + (pubs ops).length ≤ N) :
    (run N s ops).got k ++ (run N s ops).q k = s.got k ++ s.q k ++ pubs ops :=
  c20_delivery N k ops s hn hk hs (fullCount_bounded N k ops s hn hk hs hb)

/-- **Slow subscriber.**  Whatever the interleaving of publishes with the subscriber's connection goroutine
taking events out of its channel (a monitor that is momentarily behind: the goroutine sits in its write while any
number of further events are published), what the goroutine has been handed so far is a *prefix* of: what it had,
what was buffered, and the published events minus exactly those that found the channel full — never a later event
in place of an earlier one. -/
theorem c20_slow_subscriber_prefix (N k : Nat) (ops : List (Op α)) (s : St α) (hn : s.keys.Nodup)
    (hk : k ∈ s.keys) (hs : stays k ops = true) :
    ∃ D, D.Sublist (pubs ops) ∧ (run N s ops).got k <+: s.got k ++ s.q k ++ D ∧
      D.length + fullCount N k s ops = (pubs ops).length := by
  obtain ⟨D, hD, hv, hl⟩ := c20_drop_only_when_full N k ops s hn hk hs
  exact ⟨D, hD, ⟨(run N s ops).q k, hv⟩, hl⟩

/-- … and with at most `N` events outstanding it is a prefix of the published sequence itself, all of it once the
channel is empty again -/
theorem c20_slow_subscriber_outstanding (N k : Nat) (ops : List (Op α)) (s : St α) (hn : s.keys.Nodup)
    (hk : k ∈ s.keys) (hs : stays k ops = true) (hb : (s.q k).length + (pubs ops).length ≤ N) :
    (run N s ops).got k <+: s.got k ++ s.q k ++ pubs ops ∧
    ((run N s ops).q k = [] → (run N s ops).got k = s.got k ++ s.q k ++ pubs ops) := by
  have h := c20_delivery_outstanding N k ops s hn hk hs hb
  refine ⟨⟨(run N s ops).q k, h⟩, fun he => ?_⟩
  rw [he, List.append_nil] at h
  exact h

/-- non-vacuity: the handler took the first event and sits in its write while three more are published; after two
more reads it has been handed the first three, in order, and the fourth is still buffered -/
example : (run 16 (St.empty (α := Nat)) [.sub 7, .pub 1, .recv 7, .pub 2, .pub 3, .pub 4, .recv 7, .recv 7]).got 7
      = [1, 2, 3] ∧
    (run 16 (St.empty (α := Nat)) [.sub 7, .pub 1, .recv 7, .pub 2, .pub 3, .pub 4, .recv 7, .recv 7]).q 7 = [4] := by
  decide

/-- the registered set stays duplicate free along every run from the empty notifier, so the
hypothesis `Nodup` above holds in every reachable state -/
theorem c20_reachable_nodup (N : Nat) (ops : List (Op α)) : (run N St.empty ops).keys.Nodup := by
  suffices h : ∀ s : St α, s.keys.Nodup → (run N s ops).keys.Nodup from h _ List.nodup_nil
  induction ops with
  | nil => intro s h; exact h
  | cons op r ih => intro s h; exact ih _ (step_nodup N s op h)

/-- non-vacuity: 3 publishes to a subscriber that reads once in between, capacity 16 -/
example : (run 16 (St.empty (α := Nat)) [.sub 7, .pub 1, .pub 2, .recv 7, .pub 3]).got 7 = [1] ∧
    (run 16 (St.empty (α := Nat)) [.sub 7, .pub 1, .pub 2, .recv 7, .pub 3]).q 7 = [2, 3] := by decide

/-- non-vacuity of the loss clause: capacity 2, third publish is dropped -/
example : (run 2 (St.empty (α := Nat)) [.sub 0, .pub 1, .pub 2, .pub 3]).q 0 = [1, 2] ∧
    fullCount 2 0 (run 2 (St.empty (α := Nat)) [.sub 0]) [.pub 1, .pub 2, .pub 3] = 1 := by decide

/-! ## issuing sites (regenerated table) -/

/-- a signing site is acceptable when the same variable is published with the matching event
type before the response / return, or when it signs the daemon's own CA certificate, or when it
is only reachable from the configuration generator -/
def siteOK : IssueClass → Bool
  | .published a b => a == b
  | .selfSignedCA | .configGeneration => true
  | .missing _ | .unknown => false

/-- **Sites**: every certificate signing call in cmd/keymasterd (direct `x509.CreateCertificate`,
or through a signing function of lib/certgen) is followed in the same function by
`eventNotifier.Publish*` of the variable it bound, with the matching type, before anything touches
the ResponseWriter or the function returns. -/
theorem c20_sites :
    KM.Gen.issueSites.all (fun s => siteOK s.2.2) = true ∧
    (KM.Gen.issueSites.filter (fun s => s.2.2 == IssueClass.published .ssh .ssh)).length ≥ 1 ∧
    (KM.Gen.issueSites.filter (fun s => s.2.2 == IssueClass.published .x509 .x509)).length ≥ 3 := by
  decide

/-- the table as extracted from the pinned tree: `generateRoleCert` (AWS role certificates)
returned the DER without publishing it -/
def issueSitesAsFound : List IssueClass :=
  [.selfSignedCA, .selfSignedCA, .missing .x509, .published .ssh .ssh, .published .x509 .x509,
   .configGeneration, .published .x509 .x509]

theorem c20_sites_unfixed_counterexample : issueSitesAsFound.all siteOK = false := by decide

/-! ## recorder -/

/-- **Save / restart / load.**  For every recorder state, every user and every restart time: the
history read back after `saveEvents` + `loadEvents` is the saved history with exactly the entries
older than the retention removed — same events, same order (newest first) — and the rebuilt
list is consistent in both pointer directions. -/
theorem c20_saveload (m : Rec) (now : Int) (u : String) :
    ((load now (save m)) u).map DL.snapshot = (m u).map (fun l => l.snapshot.filter (keep now)) ∧
    ∀ l, (load now (save m)) u = some l → l.wf := by
  unfold load save
  cases hm : m u with
  | none => simp
  | some l0 =>
    have := loadList_aux now l0.snapshot DL.empty
    simp only [Option.map_some, Option.some.injEq, DL.snapshot, loadList] at this ⊢
    refine ⟨by rw [this.1]; simp [DL.empty], ?_⟩
    intro l hl
    subst hl
    simp only [DL.wf]
    rw [this.1, this.2]
    simp [DL.empty]

/-- `keep` is "age ≤ retention" (for clocks past the first month of 1970, where the uint64
conversion in the source does not wrap) -/
theorem c20_keep_is_age (now : Int) (e : Event) (h : (retention : Int) ≤ now)
    (h64 : now < 9223372036854775808) :
    keep now e = decide (now - (e.createTime : Int) ≤ (retention : Int)) := by
  have h1 : minCreate now = (now - (retention : Int)).toNat := by
    unfold minCreate
    rw [Int.emod_eq_of_lt (by omega) (by unfold retention KM.Gen.recorderLoadRetentionSeconds at *; omega)]
  unfold keep
  rw [h1]
  apply decide_eq_decide.mpr
  omega

/-- no bound on the length of a history: when every entry is within the retention, the history
read back after save + restart is the saved one, whatever its size -/
theorem c20_saveload_no_cap (m : Rec) (now : Int) (u : String) (l0 : DL) (h0 : m u = some l0)
    (hk : ∀ e ∈ l0.snapshot, keep now e = true) :
    ((load now (save m)) u).map DL.snapshot = some l0.snapshot := by
  rw [(c20_saveload m now u).1, h0]
  simp only [Option.map_some, Option.some.injEq]
  exact List.filter_eq_self.mpr hk

/-- nothing else is lost and nothing is reordered: the reloaded history is a sublist of the saved one -/
theorem c20_saveload_order (m : Rec) (now : Int) (u : String) (l0 l1 : DL)
    (h0 : m u = some l0) (h1 : (load now (save m)) u = some l1) :
    l1.snapshot.Sublist l0.snapshot ∧ ∀ e ∈ l0.snapshot, keep now e = true → e ∈ l1.snapshot := by
  have := (c20_saveload m now u).1
  rw [h0, h1] at this
  simp only [Option.map_some, Option.some.injEq] at this
  rw [this]
  exact ⟨List.filter_sublist, fun e he hk => List.mem_filter.mpr ⟨he, hk⟩⟩

/-- **Expire.**  The hourly expiry removes a block at the old end consisting only of entries past
the retention, leaves the rest in order, stops at the first entry young enough, and keeps both
pointer chains consistent. -/
theorem c20_expire (now : Int) (l : DL) (h : l.wf) :
    (expireList now l).wf ∧
    ∃ d, l.snapshot = (expireList now l).snapshot ++ d ∧ (∀ e ∈ d, keep now e = false) ∧
      (∀ e, (expireList now l).snapshot.getLast? = some e → keep now e = true) := by
  obtain ⟨d, h1, h2, h3⟩ := expireFo_spec now l.fo
  have hfn : l.fn = (expireFo now l.fo).reverse ++ d.reverse := by
    have : l.fn = l.fo.reverse := by rw [h]; simp
    rw [this, congrArg List.reverse h1]; simp
  have hlen : l.fn.length - (l.fo.length - (expireFo now l.fo).length) = (expireFo now l.fo).reverse.length := by
    have e1 : l.fo.length = d.length + (expireFo now l.fo).length := by
      rw [congrArg List.length h1]; simp
    rw [hfn]; simp; omega
  have htake : (expireList now l).fn = (expireFo now l.fo).reverse := by
    simp only [expireList]
    rw [hlen, hfn, List.take_left]
  have hwf : (expireList now l).wf := by
    show (expireList now l).fo = (expireList now l).fn.reverse
    rw [htake]; simp [expireList]
  refine ⟨hwf, d.reverse, ?_, ?_, ?_⟩
  · simp only [DL.snapshot, htake]; exact hfn
  · intro e he; exact h2 e (List.mem_reverse.mp he)
  · intro e he
    simp only [DL.snapshot, htake, List.getLast?_reverse] at he
    exact h3 e he

/-- when creation times do not increase towards the old end (what `recordEvent` builds under a
clock that does not step backwards) expiry is exactly the retention filter, i.e. it agrees
with what a restart would keep -/
theorem c20_expire_sorted (now : Int) (l : DL) (h : l.wf)
    (hs : l.snapshot.Pairwise (fun a b => b.createTime ≤ a.createTime)) :
    (expireList now l).snapshot = l.snapshot.filter (keep now) := by
  obtain ⟨hw, _⟩ := c20_expire now l h
  have hfo : l.fo.Pairwise (fun a b => a.createTime ≤ b.createTime) := by
    rw [h]; exact List.pairwise_reverse.mpr hs
  have h1 := expireFo_sorted now l.fo hfo
  have : (expireList now l).fn = (expireList now l).fo.reverse := by rw [hw]; simp
  simp only [DL.snapshot]
  rw [this]
  simp only [expireList]
  rw [h1, h, List.filter_reverse]; simp

/-- **One retention.**  On a history built under a clock that does not step backwards, what the
hourly expiry keeps at time `now` is exactly what a save + restart at `now` brings back: there is a
single notion of "older than the retention", whichever path applies it. -/
theorem c20_load_expire_agree (now : Int) (l : DL) (h : l.wf)
    (hs : l.snapshot.Pairwise (fun a b => b.createTime ≤ a.createTime)) :
    (expireList now l).snapshot = (loadList now l.snapshot).snapshot := by
  rw [c20_expire_sorted now l h hs, loadList_snapshot]

/-- every list of every recorder state reachable from an empty recorder by recording, restarting
and expiring is consistent, so `c20_expire` applies to all of them -/
theorem c20_reachable_wf (ops : List RecOp) :
    ∀ (u : String) (l : DL), (recRun Rec.empty ops) u = some l → l.wf := by
  suffices hg : ∀ m : Rec, (∀ u l, m u = some l → l.wf) → ∀ u l, (recRun m ops) u = some l → l.wf from
    hg Rec.empty (by intro u l h; cases h)
  induction ops with
  | nil => intro m hm; exact hm
  | cons op r ih =>
    intro m hm
    apply ih
    intro u l hl
    cases op with
    | record v e =>
      simp only [recStep, record, Rec.upd] at hl
      split at hl
      · injection hl with hl
        subst hl
        apply wf_push
        cases hv : m v with
        | none => exact wf_empty
        | some l' => exact hm v l' hv
      · exact hm u l hl
    | restart now => exact (c20_saveload m now u).2 l hl
    | expire now =>
      simp only [recStep, expire] at hl
      cases hu : m u with
      | none => rw [hu] at hl; cases hl
      | some l' =>
        rw [hu] at hl
        simp only [Option.map_some, Option.some.injEq] at hl
        subst hl
        exact (c20_expire now l' (hm u l' hu)).1

/-- recording puts the new event at the newest end and keeps everything else -/
theorem c20_record (m : Rec) (u : String) (e : Event) :
    ((record m u e) u).map DL.snapshot = some (e :: ((m u).map DL.snapshot).getD []) ∧
    ∀ v, v ≠ u → (record m u e) v = m v := by
  constructor
  · cases h : m u <;> simp [record, Rec.upd, h, DL.push, DL.snapshot, DL.empty]
  · intro v hv; simp [record, Rec.upd, hv]

private def ev (t : Nat) (url : String) (web : Bool) : Event :=
  { authType := 0, createTime := t, lifetimeSeconds := 0, serviceProviderUrl := url.toList,
    ssh := false, webLogin := web, x509 := false, vipAuthType := 0 }

/-- `loadEvents` as found on the pinned tree: a web login followed by two service-provider logins
(saved newest first: sp2, sp1, web) comes back as web, sp1, sp2 — the history is reversed. -/
theorem c20_loadevents_unfixed_counterexample :
    (loadListOld 1790000000 [ev 1789999903 "https://sp2" false, ev 1789999902 "https://sp1" false,
        ev 1789999901 "" true]).snapshot =
      [ev 1789999901 "" true, ev 1789999902 "https://sp1" false, ev 1789999903 "https://sp2" false] ∧
    (loadList 1790000000 [ev 1789999903 "https://sp2" false, ev 1789999902 "https://sp1" false,
        ev 1789999901 "" true]).snapshot =
      [ev 1789999903 "https://sp2" false, ev 1789999902 "https://sp1" false, ev 1789999901 "" true] := by
  decide

/-- non-vacuity: an entry older than 31 days is dropped by a restart, younger ones survive in order -/
example : (loadList 1790000000 [ev 1789999903 "" true, ev 1787321599 "" true, ev 1787321600 "" true]).snapshot =
    [ev 1789999903 "" true, ev 1787321600 "" true] := by decide

/-! ## the recorder's event loop: record / activity-page query / deferred save / restart -/

/-- **Invariant of the event loop**, for every interleaving of recorded events, activity-page
queries, save-timer expiries and restarts (from the empty recorder): whenever no save is pending,
either the file holds exactly the current history (a save has happened since the last start), or
nothing has been recorded since the start and the current history is the file as loaded then.
Queries (which only touch the snapshot cache) never matter. -/
theorem c20_loop_inv (ops : List LoopOp) : LoopInv (loopRun Loop.init ops) :=
  loopInv_run ops Loop.init loopInv_init

/-- the save timer's expiry always leaves no save pending (it writes whenever one was) -/
theorem c20_loop_tick (s : Loop) : (loopStep s .tick).armed = false := by
  show (if s.armed then _ else s).armed = false
  by_cases h : s.armed = true
  · rw [if_pos h]
  · rw [if_neg h]; simpa using h

/-- **Persistence across a restart.**  After any such interleaving, if no save is pending (the
deferred save has run after the last recorded event), a restart at time `now` brings back, for
every user, the same events in the same order minus those older than the retention — provided the
clock did not go backwards since the previous start (and is in the range where the uint64
conversion does not wrap). -/
theorem c20_loop_persist (ops : List LoopOp) (now : Int) (u : String)
    (ha : (loopRun Loop.init ops).armed = false)
    (ht : ∀ t, (loopRun Loop.init ops).since = some t → (retention : Int) ≤ t ∧ t ≤ now ∧ now < 9223372036854775808) :
    ((loopStep (loopRun Loop.init ops) (.restart now)).m u).map DL.snapshot =
      ((loopRun Loop.init ops).m u).map (fun l => l.snapshot.filter (keep now)) := by
  have hinv := c20_loop_inv ops ha
  generalize loopRun Loop.init ops = s at *
  show ((load now s.file) u).map DL.snapshot = _
  unfold load
  cases hs : s.since with
  | none =>
    rw [hs] at hinv
    rw [hinv u]
    cases s.m u <;> simp [loadList_snapshot]
  | some t =>
    rw [hs] at hinv
    obtain ⟨h0, h1, h2⟩ := ht t hs
    rw [hinv u]
    cases s.file u with
    | none => rfl
    | some l => simp [loadList_snapshot, filter_keep_keep t now l h0 h1 h2]

/-- the arm of `eventLoop` that performs the deferred save reads as it did when `loopStep` was
written (take the snapshot, write it — unconditionally), and the delay is a few seconds -/
theorem c20_loop_source :
    KM.Gen.recorderSaveCaseSrc = "sr.getEventsList(&lastEvents) ; if err := saveEvents(sr.filename, lastEvents.Events); err != nil { sr.logger.Println(err) }".toList ∧
    0 < KM.Gen.recorderSaveDelayMillis ∧ KM.Gen.recorderSaveDelayMillis ≤ 10000 := by
  exact ⟨rfl, by decide, by decide⟩

/-- non-vacuity: record, look at the activity page, let the save timer fire, restart -/
example : (loopRun Loop.init [.record "alice" (ev 1789999901 "" true), .query, .tick]).armed = false := rfl

end KM.Events
