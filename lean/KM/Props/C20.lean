/-! # C20 — property theorems (stub: not built yet) -/
