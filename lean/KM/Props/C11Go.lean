import KM.Props.C11
import KM.Gen.GoIPRestr
import KM.Gen.GoIPUser
/-! # C11 — `VerifyIPRestrictedX509CertIP` as TRANSLATED from the current source (go2lean)

lib/certgen, whole function (`KM/Gen/GoIPRestr.lean`): three loops (the search for the extension, the families, the
blocks of a family).  External and arbitrary: `net.SplitHostPort`, `net.ParseIP`, the OID test, `asn1.Unmarshal`,
`bytes.Equal`, the decoder of one block (its own theorems: `c11_roundtrip`, `c11_malformed`) and `IPNet.Contains`. -/
namespace KM.IPBlockGo
open KM.GoTypes KM.Go

variable {ε β ι : Type}

/-- the blocks of one IPv4 family, in order: the first that does not decode is an error, the first that contains the
peer admits -/
def addrsGo (ext : IPExt ε β ι) (ip : Nat) : List β → Option (Bool × Option Err)
  | [] => none
  | s :: ss =>
    match ext.decode s with
    | (_, some e) => some (false, some e)
    | (b, none) => if ext.contains b ip then some (true, none) else addrsGo ext ip ss

/-- the families, in order: families that are not IPv4 are skipped -/
def famsGo (ext : IPExt ε β ι) (ip : Nat) : List (IpAdressFamily β) → Bool × Option Err
  | [] => (false, none)
  | f :: fs =>
    if ext.bytesEqual f.AddressFamily ext.v4afi then
      match addrsGo ext ip f.Addresses with
      | some r => r
      | none => famsGo ext ip fs
    else famsGo ext ip fs

theorem addrs_loop (ext : IPExt ε β ι) (ip : Nat) (l : List β) :
    KM.Go.forRange l () (fun encodedNetblock st => match st with
      | () =>
        match (ext.decode encodedNetblock) with
        | (decoded, err) =>
          if (Option.isSome err) then
            (KM.Go.Ctl.ret (false, err) : Ctl (Bool × Option Err) Unit)
          else
            if (ext.contains decoded ip) then
              KM.Go.Ctl.ret (true, none)
            else
              KM.Go.Ctl.next ()) =
      match addrsGo ext ip l with
      | some r => .ret r
      | none => .done () := by
  obtain ⟨shp, pip, isd, unm, v4, beq, dec, con⟩ := ext
  induction l with
  | nil => simp [forRange, addrsGo]
  | cons s ss ih =>
    simp only [forRange, addrsGo]
    rcases h : dec s with ⟨b, _ | e⟩
    · simp only [Option.isSome_none, Bool.false_eq_true, if_false]
      by_cases hc : con b ip = true
      · simp [hc]
      · simp only [hc, if_false]; exact ih
    · simp

theorem fams_loop (ext : IPExt ε β ι) (ip : Nat) (l : List (IpAdressFamily β)) :
    (match KM.Go.forRange l () (fun addressList st => match st with
      | () =>
        if (!(ext.bytesEqual addressList.AddressFamily ext.v4afi)) then
          (KM.Go.Ctl.next () : Ctl (Bool × Option Err) Unit)
        else
          match KM.Go.forRange addressList.Addresses () (fun encodedNetblock st => match st with
            | () =>
              match (ext.decode encodedNetblock) with
              | (decoded, err) =>
                if (Option.isSome err) then
                  KM.Go.Ctl.ret (false, err)
                else
                  if (ext.contains decoded ip) then
                    KM.Go.Ctl.ret (true, none)
                  else
                    KM.Go.Ctl.next ()) with
          | KM.Go.Loop.ret r => KM.Go.Ctl.ret r
          | KM.Go.Loop.done () =>
            KM.Go.Ctl.next ()) with
    | KM.Go.Loop.ret r => r
    | KM.Go.Loop.done () => (false, none)) = famsGo ext ip l := by
  obtain ⟨shp, pip, isd, unm, v4, beq, dec, con⟩ := ext
  induction l with
  | nil => simp [forRange, famsGo]
  | cons f fs ih =>
    simp only [forRange, famsGo]
    have hA := addrs_loop (⟨shp, pip, isd, unm, v4, beq, dec, con⟩ : IPExt ε β ι) ip f.Addresses
    dsimp only at hA
    by_cases hb : beq f.AddressFamily v4 = true
    · simp only [hb, Bool.not_true, Bool.false_eq_true, if_false, if_true]
      rw [hA]
      cases addrsGo (⟨shp, pip, isd, unm, v4, beq, dec, con⟩ : IPExt ε β ι) ip f.Addresses with
      | some r => rfl
      | none => exact ih
    · have hb' : beq f.AddressFamily v4 = false := by simpa using hb
      simp only [hb', Bool.not_false, if_true, Bool.false_eq_true, if_false]; exact ih

theorem find_loop (ext : IPExt ε β ι) (l : List ε) :
    KM.Go.forRange (ρ := Bool × Option Err) l (none : Option ε) (fun certExtension st => match st with
      | extension =>
        if (ext.isDelegation certExtension) then
          let extension := (some certExtension);
          KM.Go.Ctl.brk extension
        else
          KM.Go.Ctl.next extension) = .done (l.find? ext.isDelegation) := by
  obtain ⟨shp, pip, isd, unm, v4, beq, dec, con⟩ := ext
  induction l with
  | nil => simp [forRange]
  | cons x xs ih =>
    simp only [forRange, List.find?_cons]
    by_cases hx : isd x = true
    · simp [hx]
    · simp only [hx, if_false]; exact ih

/-- **closed form of the translated function**: the host of the remote address must split off; the FIRST extension
with the delegation OID is the one consulted (none ⇒ refused, no error); it must unmarshal; then the families in order,
IPv4 ones only, their blocks in order. -/
theorem c11_go_verify (ext : IPExt ε β ι) (exts : List ε) (addr : List Char) :
    KM.Gen.GoIPRestr.VerifyIPRestrictedX509CertIP ext exts addr =
      match ext.splitHostPort addr with
      | (_, _, some e) => (false, some e)
      | (host, _, none) =>
        match exts.find? ext.isDelegation with
        | none => (false, none)
        | some x =>
          match ext.unmarshal (some x) with
          | (_, _, some e) => (false, some e)
          | (fams, _, none) => famsGo ext (ext.parseIP host) fams := by
  have hF := fams_loop ext
  have hL := find_loop ext
  obtain ⟨shp, pip, isd, unm, v4, beq, dec, con⟩ := ext
  unfold KM.Gen.GoIPRestr.VerifyIPRestrictedX509CertIP
  dsimp only at hF hL ⊢
  rcases h : shp addr with ⟨host, port, _ | e⟩
  · dsimp only
    simp only [Option.isSome_none, Bool.false_eq_true, if_false]
    rw [hL]
    cases hf : exts.find? isd with
    | none => simp
    | some x =>
      simp only [Option.isNone_some, Bool.false_eq_true, if_false]
      rcases hu : unm (some x) with ⟨fams, rest, _ | e⟩
      · simp only [Option.isSome_none, Bool.false_eq_true, if_false]
        exact hF (pip host) fams
      · simp
  · simp

/-- **an IP-restricted certificate is honoured only from inside one of its own blocks** (C11), on the translated
source: `true` comes back only if the remote address split, the certificate carries the delegation extension, its
first such extension unmarshalled, and some block of an IPv4 family in it decoded without error and contains the parsed
peer address — for every behaviour of the externals. -/
theorem c11_go_verify_true (ext : IPExt ε β ι) (exts : List ε) (addr : List Char) (e : Option Err)
    (h : KM.Gen.GoIPRestr.VerifyIPRestrictedX509CertIP ext exts addr = (true, e)) :
    e = none ∧ ∃ host port x fams rest, ext.splitHostPort addr = (host, port, none) ∧
      exts.find? ext.isDelegation = some x ∧ ext.unmarshal (some x) = (fams, rest, none) ∧
      ∃ f ∈ fams, ext.bytesEqual f.AddressFamily ext.v4afi = true ∧
        ∃ s ∈ f.Addresses, (ext.decode s).2 = none ∧ ext.contains (ext.decode s).1 (ext.parseIP host) = true := by
  have haddrs : ∀ (ip : Nat) (l : List β) (e : Option Err), addrsGo ext ip l = some (true, e) →
      e = none ∧ ∃ s ∈ l, (ext.decode s).2 = none ∧ ext.contains (ext.decode s).1 ip = true := by
    intro ip l
    induction l with
    | nil => intro e h; cases h
    | cons s ss ih =>
      intro e h
      simp only [addrsGo] at h
      rcases hd : ext.decode s with ⟨b, _ | e'⟩
      · rw [hd] at h
        simp only at h
        cases hc : ext.contains b ip
        · rw [hc] at h; simp only [Bool.false_eq_true, if_false] at h
          obtain ⟨h1, s', hs', h2⟩ := ih e h
          exact ⟨h1, s', List.mem_cons_of_mem _ hs', h2⟩
        · rw [hc] at h; simp only [if_true, Option.some.injEq, Prod.mk.injEq, true_and] at h
          exact ⟨h.symm, s, List.mem_cons_self .., by rw [hd], by rw [hd]; exact hc⟩
      · rw [hd] at h; simp at h
  have hfams : ∀ (ip : Nat) (l : List (IpAdressFamily β)) (e : Option Err), famsGo ext ip l = (true, e) →
      e = none ∧ ∃ f ∈ l, ext.bytesEqual f.AddressFamily ext.v4afi = true ∧
        ∃ s ∈ f.Addresses, (ext.decode s).2 = none ∧ ext.contains (ext.decode s).1 ip = true := by
    intro ip l
    induction l with
    | nil => intro e h; simp [famsGo] at h
    | cons f fs ih =>
      intro e h
      simp only [famsGo] at h
      cases hb : ext.bytesEqual f.AddressFamily ext.v4afi
      · rw [hb] at h; simp only [Bool.false_eq_true, if_false] at h
        obtain ⟨h1, f', hf', h2⟩ := ih e h
        exact ⟨h1, f', List.mem_cons_of_mem _ hf', h2⟩
      · rw [hb] at h; simp only [if_true] at h
        cases ha : addrsGo ext ip f.Addresses with
        | none =>
          rw [ha] at h; simp only at h
          obtain ⟨h1, f', hf', h2⟩ := ih e h
          exact ⟨h1, f', List.mem_cons_of_mem _ hf', h2⟩
        | some r =>
          rw [ha] at h; simp only at h; subst h
          obtain ⟨h1, h2⟩ := haddrs ip f.Addresses e ha
          exact ⟨h1, f, List.mem_cons_self .., hb, h2⟩
  rw [c11_go_verify] at h
  rcases hs : ext.splitHostPort addr with ⟨host, port, _ | e'⟩
  · rw [hs] at h; simp only at h
    cases hf : exts.find? ext.isDelegation with
    | none => rw [hf] at h; simp at h
    | some x =>
      rw [hf] at h; simp only at h
      rcases hu : ext.unmarshal (some x) with ⟨fams, rest, _ | e'⟩
      · rw [hu] at h; simp only at h
        obtain ⟨h1, h2⟩ := hfams _ fams e h
        exact ⟨h1, host, port, x, fams, rest, rfl, rfl, hu, h2⟩
      · rw [hu] at h; simp at h
  · rw [hs] at h; simp at h

/-- no extension with the OID ⇒ refused without an error, whatever the address -/
theorem c11_go_verify_unrestricted (ext : IPExt ε β ι) (exts : List ε) (addr : List Char)
    (h : ∀ x ∈ exts, ext.isDelegation x = false) :
    (KM.Gen.GoIPRestr.VerifyIPRestrictedX509CertIP ext exts addr).1 = false := by
  rw [c11_go_verify]
  have : exts.find? ext.isDelegation = none := by
    rw [List.find?_eq_none]; intro x hx; simp [h x hx]
  rcases hs : ext.splitHostPort addr with ⟨host, port, _ | e'⟩ <;> simp [this]

end KM.IPBlockGo

/-! ## `getUsernameIfIPRestricted` (cmd/keymasterd, whole function; `KM/Gen/GoIPUser.lean`) -/
namespace KM.IPUserGo
open KM.GoTypes KM.Go

/-- **an IP-restricted certificate yields an identity exactly when** `VerifyIPRestrictedX509CertIP` said `true`
without an error for this connection's remote address (see `c11_go_verify_true`: only from inside one of the
certificate's own blocks), the key's fingerprint could be computed and is not on the deny list, the common name is an
automation user, and the certificate is not known to be revoked; the identity is the certificate's common name.  In
every other case no name is returned and one of the two errors is set. -/
theorem c11_go_ip_user (ext : IPUserExt) (cn : List Char) (denied : List (List Char)) (now : Nat) :
    (∃ fp rv ok re, ext.verifyIP = (true, none) ∧ ext.fingerprint = (fp, none) ∧ fp ∉ denied ∧
        ext.isAutomationUser cn = (true, none) ∧ ext.revocation = (rv, ok, re) ∧ (rv && ok) = false ∧
        KM.Gen.GoIPUser.getUsernameIfIPRestricted ext cn denied now = (cn, now, none, none)) ∨
    (∃ ue e, KM.Gen.GoIPUser.getUsernameIfIPRestricted ext cn denied now = ([], 0, ue, e) ∧
        (ue.isSome || e.isSome) = true ∧
        ¬ (∃ fp rv ok re, ext.verifyIP = (true, none) ∧ ext.fingerprint = (fp, none) ∧ fp ∉ denied ∧
            ext.isAutomationUser cn = (true, none) ∧ ext.revocation = (rv, ok, re) ∧ (rv && ok) = false)) := by
  obtain ⟨⟨v, ve⟩, ⟨fp, fe⟩, au, ⟨rv, ok, re⟩⟩ := ext
  unfold KM.Gen.GoIPUser.getUsernameIfIPRestricted
  dsimp only
  cases ve with
  | some e => right; exact ⟨_, _, rfl, rfl, by rintro ⟨_, _, _, _, h, _⟩; cases h⟩
  | none =>
    simp only [Option.isSome_none, Bool.false_eq_true, if_false]
    cases v
    · right; exact ⟨_, _, rfl, rfl, by rintro ⟨_, _, _, _, h, _⟩; cases h⟩
    · simp only [Bool.not_true, Bool.false_eq_true, if_false]
      cases fe with
      | some e => right; exact ⟨_, _, rfl, rfl, by rintro ⟨_, _, _, _, _, h, _⟩; cases h⟩
      | none =>
        simp only [Option.isSome_none, Bool.false_eq_true, if_false]
        rw [forRange_findRet (fun r => fp == r)
          (fun _ => (([] : List Char), (0 : Nat), (some "revoked key with FP:%s".toList : Option Err), (none : Option Err)))
          _ (by intro x s; cases s; rfl)]
        cases hf : denied.find? (fun r => fp == r) with
        | some r =>
          right
          refine ⟨_, _, rfl, rfl, ?_⟩
          rintro ⟨fp', _, _, _, _, h, hn, _⟩
          cases h
          have := List.find?_some hf
          have hm := List.mem_of_find?_eq_some hf
          simp only [beq_iff_eq] at this
          exact hn (this ▸ hm)
        | none =>
          have hnd : fp ∉ denied := by
            intro hm
            have := List.find?_eq_none.mp hf fp hm
            simp at this
          simp only
          rcases hau : au cn with ⟨isau, _ | e⟩
          · cases isau
            · right
              refine ⟨_, _, rfl, rfl, ?_⟩
              rintro ⟨_, _, _, _, _, _, _, h, _⟩
              cases h
            · by_cases hr : ((rv == true) && ok) = true
              · right
                refine ⟨some "revoked cert".toList, none, ?_, rfl, ?_⟩
                · simp only [Option.isSome_none, Bool.false_eq_true, if_false, Bool.not_true, hr, if_true]
                · rintro ⟨_, _, _, _, _, _, _, _, h, h2⟩
                  cases h
                  simp only [beq_true] at hr
                  rw [hr] at h2; cases h2
              · left
                refine ⟨fp, rv, ok, re, trivial, rfl, hnd, rfl, rfl, ?_, ?_⟩
                · simpa using hr
                · simp only [Option.isSome_none, Bool.false_eq_true, if_false, Bool.not_true, hr]
          · right
            refine ⟨_, _, rfl, rfl, ?_⟩
            rintro ⟨_, _, _, _, _, _, _, h, _⟩
            cases h

end KM.IPUserGo
