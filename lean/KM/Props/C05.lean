/-! # C05 — property theorems (stub: not built yet) -/
