import KM.Lemmas.Session
import KM.Gen.C05
import KM.Model.SessionCert
/-! # C05 — a session gains a factor only when its own user proves that factor

Property theorems only. `step fixed` mirrors the repaired handlers of cmd/keymasterd, `events` is the
ground truth about what the external verifiers (password backend, VIP service, Okta, the authenticator
app's secret, the hardware token's key, the CLI token issuer) established and for whom; `log` is the
concatenation of all events of the history. All statements are over ARBITRARY op lists, any number of
users, cookies, push-cookie values, challenges — the adversary attaches any issued cookie and any
auxiliary value to any request. -/
namespace KM.Session
open KM.Gen

/-! ## 1. the level only ever contains factors verified for the session's own user -/

/-- **Invariant.** In every reachable state, every session cookie that was ever issued carries only
factor bits `i` for which `(subject, factor i)` is in the log of verification events. -/
theorem c05_inv (t0 : Nat) (okta : Bool) (cfg : User → UserCfg) (ops : List Op) :
    ∀ c ∈ (run fixed t0 okta cfg ops).cookies,
      LevelOK (run fixed t0 okta cfg ops).log c.sub c.level :=
  (runFrom_inv (init_inv t0 okta cfg) ops).cookies

/-- the same for the cookies in each single response, from any state satisfying the invariant -/
theorem c05_inv_response {s : State} (hs : Inv s) (op : Op) :
    ∀ c ∈ (step fixed s op).2.cookies, LevelOK (step fixed s op).1.log c.sub c.level := by
  intro c hc
  exact (step_inv hs op).cookies c (List.mem_append_left _ hc)

/-- a profile-load fault answers 500 with nothing; otherwise the handler proper runs -/
theorem handle_eq_of_ne_nil {v : Variant} {s : State} {op : Op} (h : (handle v s op).2.2 ≠ []) :
    handle v s op = handle0 v s op := by
  unfold handle at h ⊢
  split at h
  · exact absurd rfl h
  · rename_i hl; rw [if_neg hl]

theorem not_accepted_of_nil {o : Out} (h : o.cookies = []) : o.accepted = false := by
  simp [Out.accepted, h]

theorem rejected_of_handle0_nil {v : Variant} {s : State} {op : Op} (h : (handle0 v s op).2.2 = []) :
    (step v s op).2.accepted = false := by
  apply not_accepted_of_nil
  show (handle v s op).2.2 = []
  unfold handle
  split
  · rfl
  · exact h

theorem accepted_handle0 {v : Variant} {s : State} {op : Op} (h : (step v s op).2.accepted = true) :
    (handle0 v s op).2.2 ≠ [] ∧ (step v s op).1 = assemble (events s op) (handle0 v s op) := by
  have hne : (handle v s op).2.2 ≠ [] := by
    intro he
    have : (step v s op).2.accepted = false := not_accepted_of_nil he
    rw [this] at h
    cases h
  have he := handle_eq_of_ne_nil hne
  refine ⟨by rw [← he]; exact hne, ?_⟩
  rw [step_fst, he]

/-- handlers never touch the ghost fields (any variant) -/
theorem handle0_ghost (v : Variant) (s : State) (op : Op) :
    (handle0 v s op).1.log = s.log ∧ (handle0 v s op).1.cookies = s.cookies := by
  cases op <;> simp only [handle0]
  case login => unfold hLogin; (repeat' split) <;> exact ⟨rfl, rfl⟩
  case vipOtp => unfold hVipOtp; (repeat' split) <;> exact ⟨rfl, rfl⟩
  case pushStart => unfold hPushStart; (repeat' split) <;> exact ⟨rfl, rfl⟩
  case approve => unfold hApprove; (repeat' split) <;> exact ⟨rfl, rfl⟩
  case poll => unfold hPoll; (repeat' split) <;> exact ⟨rfl, rfl⟩
  case totp => unfold hTotp; (repeat' split) <;> exact ⟨rfl, rfl⟩
  case bootstrap => unfold hBootstrap; (repeat' split) <;> exact ⟨rfl, rfl⟩
  case u2fBegin => unfold hU2fBegin; (repeat' split) <;> exact ⟨rfl, rfl⟩
  case u2fFinish => unfold hU2fFinish; (repeat' split) <;> exact ⟨rfl, rfl⟩
  case waBegin => unfold hWaBegin; (repeat' split) <;> exact ⟨rfl, rfl⟩
  case waFinish => unfold hWaFinish; (repeat' split) <;> exact ⟨rfl, rfl⟩
  case showToken => unfold hShowToken; (repeat' split) <;> exact ⟨rfl, rfl⟩
  case sendDoc => unfold hSendDoc; (repeat' split) <;> exact ⟨rfl, rfl⟩
  case logout => first | trivial | exact ⟨rfl, rfl⟩
  case oktaOtp => unfold hOktaOtp; (repeat' split) <;> exact ⟨rfl, rfl⟩
  case oktaPushStart => unfold hOktaPushStart; (repeat' split) <;> exact ⟨rfl, rfl⟩
  case oktaApprove => unfold hOktaApprove; (repeat' split) <;> exact ⟨rfl, rfl⟩
  case oktaPoll => unfold hOktaPoll; (repeat' split) <;> exact ⟨rfl, rfl⟩
  case tick => first | trivial | exact ⟨rfl, rfl⟩
  case sweep => first | trivial | exact ⟨rfl, rfl⟩
  case fault => first | trivial | exact ⟨rfl, rfl⟩
  case totpEnrol => unfold hTotpEnrol; (repeat' split) <;> exact ⟨rfl, rfl⟩
  case totpRename => unfold hRename; (repeat' split) <;> exact ⟨rfl, rfl⟩
  case hwRename => unfold hRename; (repeat' split) <;> exact ⟨rfl, rfl⟩

theorem handle_ghost (v : Variant) (s : State) (op : Op) :
    (handle v s op).1.log = s.log ∧ (handle v s op).1.cookies = s.cookies := by
  unfold handle
  split
  · exact ⟨rfl, rfl⟩
  · exact handle0_ghost v s op

/-- **The log is the history.** Every entry of the log is a ground-truth verification event of some op of
the history, evaluated in the state in which that op happened (any variant of the handlers). -/
theorem c05_log_is_history (v : Variant) (s : State) (ops : List Op) (e : User × Factor)
    (h : e ∈ (runFrom v s ops).log) :
    e ∈ s.log ∨ ∃ pre op post, ops = pre ++ op :: post ∧ e ∈ events (runFrom v s pre) op := by
  induction ops generalizing s with
  | nil => exact Or.inl h
  | cons op ops ih =>
    have h' : e ∈ (runFrom v (step v s op).1 ops).log := h
    rcases ih _ h' with h1 | ⟨pre, op', post, hops, hev⟩
    · have : (step v s op).1.log = events s op ++ s.log := by
        show events s op ++ (handle v s op).1.log = _
        rw [(handle_ghost v s op).1]
      rw [this, List.mem_append] at h1
      rcases h1 with h1 | h1
      · exact Or.inr ⟨[], op, ops, rfl, h1⟩
      · exact Or.inl h1
    · exact Or.inr ⟨op :: pre, op', post, by rw [hops]; rfl, hev⟩

/-- **Headline.** If a cookie issued anywhere in a history carries factor bit `i`, then bit `i` denotes a
factor `f` and somewhere in that history an external verifier established `f` for the cookie's OWN
subject (a device approval for a push sent to that user, a correct code for that user's secret, an
assertion by that user's registered token, …). A verification for anybody else never suffices. -/
theorem c05_factor_needs_own_verification (t0 : Nat) (okta : Bool) (cfg : User → UserCfg) (ops : List Op)
    (c : Cookie) (hc : c ∈ (run fixed t0 okta cfg ops).cookies) (i : Nat) (hi : c.level.testBit i = true) :
    ∃ f, bitFactor i = some f ∧
      ∃ pre op post, ops = pre ++ op :: post ∧ (c.sub, f) ∈ events (run fixed t0 okta cfg pre) op := by
  obtain ⟨f, hf, hm⟩ := c05_inv t0 okta cfg ops c hc i hi
  refine ⟨f, hf, ?_⟩
  rcases c05_log_is_history fixed (init t0 okta cfg) ops (c.sub, f) hm with h | h
  · cases h
  · exact h

/-- the auth cookies a request carries, in order (login carries none) -/
def reqCookies : Op → Cookies
  | .vipOtp c _ | .pushStart c _ | .poll c _ | .totp c _ | .bootstrap c _ | .u2fBegin c | .u2fFinish c _
  | .waBegin c | .waFinish c _ | .showToken c _ | .sendDoc c _ | .logout c | .oktaOtp c _
  | .oktaPushStart c | .oktaPoll c | .totpEnrol c | .totpRename c _ | .hwRename c _ => c
  | _ => []

/-- the cookie that identifies the caller: the last one -/
def reqCookie (op : Op) : Option Cookie := caller (reqCookies op)

/-- **Subject.** A response never hands out a cookie for anybody but the user of the (issued) cookie that
identifies the caller — the LAST auth cookie of the request, however many it carries — or, for a login, the user whose password was checked. -/
theorem c05_subject_stable (s : State) (op : Op) (c' : Cookie) (hc : c' ∈ (step fixed s op).2.cookies) :
    (∃ u, op = .login u true ∧ c'.sub = u) ∨
    (∃ ck, reqCookie op = some ck ∧ ck ∈ s.cookies ∧ c'.sub = ck.sub) := by
  have hc0 : c' ∈ (handle fixed s op).2.2 := hc
  have hne : (handle fixed s op).2.2 ≠ [] := by intro he; rw [he] at hc0; cases hc0
  have hc' : c' ∈ (handle0 fixed s op).2.2 := by rw [← handle_eq_of_ne_nil hne]; exact hc0
  clear hc0 hne
  cases op <;> simp only [handle0] at hc'
  case login u pw =>
    unfold hLogin at hc'
    split at hc'
    · rename_i h; subst h
      split at hc'
      · cases hc'
      · simp only [List.mem_singleton] at hc'; subst hc'
        exact Or.inl ⟨u, rfl, rfl⟩
    · cases hc'
  case vipOtp c o =>
    right; unfold hVipOtp at hc'
    split at hc'
    · cases hc'
    · rename_i ck hauth
      split at hc'
      · simp only [List.mem_singleton] at hc'; subst hc'
        exact ⟨ck, (auth_some hauth).2, (auth_some hauth).1, rfl⟩
      · cases hc'
  case pushStart c v => unfold hPushStart at hc'; (repeat' split at hc') <;> cases hc'
  case approve k => unfold hApprove at hc'; (repeat' split at hc') <;> cases hc'
  case poll c v =>
    right; unfold hPoll at hc'
    split at hc'
    · cases hc'
    · rename_i ck hauth
      (repeat' split at hc') <;> first
        | (simp only [List.mem_singleton] at hc'; subst hc'
           exact ⟨ck, (auth_some hauth).2, (auth_some hauth).1, rfl⟩)
        | cases hc'
  case totp c code =>
    right; unfold hTotp at hc'
    split at hc'
    · cases hc'
    · rename_i ck hauth
      (repeat' split at hc') <;> first
        | (simp only [List.mem_singleton] at hc'; subst hc'
           exact ⟨ck, (auth_some hauth).2, (auth_some hauth).1, rfl⟩)
        | cases hc'
  case bootstrap c o =>
    right; unfold hBootstrap at hc'
    split at hc'
    · cases hc'
    · rename_i ck hauth
      (repeat' split at hc') <;> first
        | (simp only [List.mem_singleton] at hc'; subst hc'
           exact ⟨ck, (auth_some hauth).2, (auth_some hauth).1, rfl⟩)
        | cases hc'
  case u2fBegin c => unfold hU2fBegin at hc'; (repeat' split at hc') <;> cases hc'
  case u2fFinish c a =>
    right; unfold hU2fFinish at hc'
    split at hc'
    · cases hc'
    · rename_i ck hauth
      (repeat' split at hc') <;> first
        | (simp only [List.mem_singleton] at hc'; subst hc'
           exact ⟨ck, (auth_some hauth).2, (auth_some hauth).1, rfl⟩)
        | cases hc'
  case waBegin c => unfold hWaBegin at hc'; (repeat' split at hc') <;> cases hc'
  case waFinish c a =>
    right; unfold hWaFinish at hc'
    split at hc'
    · cases hc'
    · rename_i ck hauth
      (repeat' split at hc') <;> first
        | (simp only [List.mem_singleton] at hc'; subst hc'
           exact ⟨ck, (auth_some hauth).2, (auth_some hauth).1, rfl⟩)
        | cases hc'
  case showToken c l => unfold hShowToken at hc'; (repeat' split at hc') <;> cases hc'
  case sendDoc c t =>
    right; unfold hSendDoc at hc'
    split at hc'
    · cases hc'
    · rename_i ck hauth
      split at hc'
      · cases hc'
      · split at hc'
        · cases hc'
        · split at hc'
          · rename_i hok
            simp only [List.mem_singleton] at hc'; subst hc'
            exact ⟨ck, (auth_some hauth).2, (auth_some hauth).1, hok.2.1⟩
          · cases hc'
  case logout c => cases hc'
  case oktaOtp c o =>
    right; unfold hOktaOtp at hc'
    split at hc'
    · cases hc'
    · rename_i ck hauth
      (repeat' split at hc') <;> first
        | (simp only [List.mem_singleton] at hc'; subst hc'
           exact ⟨ck, (auth_some hauth).2, (auth_some hauth).1, rfl⟩)
        | cases hc'
  case oktaPushStart c => unfold hOktaPushStart at hc'; (repeat' split at hc') <;> cases hc'
  case oktaApprove u => unfold hOktaApprove at hc'; (repeat' split at hc') <;> cases hc'
  case oktaPoll c =>
    right; unfold hOktaPoll at hc'
    split at hc'
    · cases hc'
    · rename_i ck hauth
      (repeat' split at hc') <;> first
        | (simp only [List.mem_singleton] at hc'; subst hc'
           exact ⟨ck, (auth_some hauth).2, (auth_some hauth).1, rfl⟩)
        | cases hc'
  case tick => cases hc'
  case sweep => cases hc'
  case fault => cases hc'
  case totpEnrol c => unfold hTotpEnrol at hc'; (repeat' split at hc') <;> cases hc'
  case totpRename c u => unfold hRename at hc'; (repeat' split at hc') <;> cases hc'
  case hwRename c u => unfold hRename at hc'; (repeat' split at hc') <;> cases hc'

/-- **Push poll.** An accepted VIP poll means: the transaction found under the presented (unauthenticated)
cookie value was started for the session's own user, is not expired, and the VIP service says that user
approved it. -/
theorem c05_poll_own_user (s : State) (c : Cookies) (V : Nat)
    (h : (step fixed s (.poll c (some V))).2.accepted = true) :
    ∃ ck tx u, auth s (caller c) = some ck ∧ s.push V = some tx ∧ tx.user = ck.sub ∧ ¬ pushExpired s tx ∧
      s.svcTx tx.txid = some (u, true) := by
  have h' : (hPoll fixed s (caller c) (some V)).2.2 ≠ [] := by
    intro he
    have : (step fixed s (.poll c (some V))).2.cookies = [] := he
    simp [Out.accepted, this] at h
  simp only [hPoll] at h'
  split at h'
  · exact absurd rfl h'
  · rename_i ck hauth
    split at h'
    · exact absurd rfl h'
    · rename_i tx htx
      split at h'
      · exact absurd rfl h'
      · rename_i hu
        split at h'
        · exact absurd rfl h'
        · rename_i he
          split at h'
          · exact absurd rfl h'
          · exact absurd rfl h'
          · rename_i u hsvc
            refine ⟨ck, tx, u, hauth, htx, ?_, ?_, hsvc⟩
            · apply Classical.byContradiction; intro hne; exact hu ⟨rfl, hne⟩
            · intro hexp; exact he ⟨rfl, hexp⟩

/-- **CLI token.** A CLI token is honoured only for the user of the browser session that presents it, and
the cookie handed to the CLI is for that same user. -/
theorem c05_cli_user (s : State) (c : Cookies) (t : CliTok)
    (h : (step fixed s (.sendDoc c (some t))).2.accepted = true) :
    ∃ ck, auth s (caller c) = some ck ∧ t ∈ s.toks ∧ t.user = ck.sub ∧ s.now < t.expiresAt ∧
      (step fixed s (.sendDoc c (some t))).2.cookies = [⟨ck.sub, authTypeWebauthForCLI⟩] := by
  have h' : (hSendDoc s (caller c) (some t)).2.2 ≠ [] := by
    intro he
    have : (step fixed s (.sendDoc c (some t))).2.cookies = [] := he
    simp [Out.accepted, this] at h
  show ∃ ck, auth s (caller c) = some ck ∧ t ∈ s.toks ∧ t.user = ck.sub ∧ s.now < t.expiresAt ∧
      (hSendDoc s (caller c) (some t)).2.2 = [⟨ck.sub, authTypeWebauthForCLI⟩]
  simp only [hSendDoc] at h'
  split at h'
  · exact absurd rfl h'
  · rename_i ck hauth
    split at h'
    · exact absurd rfl h'
    · rename_i hmask
      split at h'
      · rename_i hok
        refine ⟨ck, hauth, hok.1, hok.2.1, hok.2.2, ?_⟩
        simp only [hSendDoc, hauth]
        rw [if_neg hmask, if_pos hok, hok.2.1]
      · exact absurd rfl h'

/-! ## 2. one-time values stop working once accepted -/

/-- an accepted TOTP code is spent -/
theorem totp_accept_dead {s : State} {c : Cookies} {o : User} {k : Nat}
    (h : (step fixed s (.totp c (some (o, k)))).2.accepted = true) :
    TotpDead o k (step fixed s (.totp c (some (o, k)))).1 := by
  obtain ⟨h0, hst0⟩ := accepted_handle0 h
  have h' : (hTotp fixed s (caller c) (some (o, k))).2.2 ≠ [] := h0
  rw [hst0]
  show k ≤ (((hTotp fixed s (caller c) (some (o, k))).1).prof o).lastTotp
  simp only [hTotp] at h'
  split at h'
  · exact absurd rfl h'
  · rename_i ck hauth
    split at h'
    · exact absurd rfl h'
    · rename_i hne
      split at h'
      · rename_i hv
        simp only [fixed, if_true] at h'
        split at h'
        · rename_i hlt
          split at h'
          · exact absurd rfl h'
          · rename_i hsv
            simp only [hTotp, hauth]
            rw [if_neg hne, if_pos hv]
            simp only [fixed, if_true]
            rw [if_pos hlt, if_neg hsv]
            simp [setLastTotp, upd, hv.2.1]
        · exact absurd rfl h'
      · exact absurd rfl h'

/-- a spent TOTP code is refused whatever cookie it comes with -/
theorem totp_dead_reject {s : State} {o : User} {k : Nat} (hd : TotpDead o k s) (c : Cookies) :
    (step fixed s (.totp c (some (o, k)))).2.accepted = false := by
  apply rejected_of_handle0_nil
  show (hTotp fixed s (caller c) (some (o, k))).2.2 = []
  simp only [hTotp]
  split
  · rfl
  · split
    · rfl
    · split
      · rename_i hv
        simp only [fixed, if_true]
        split
        · rename_i hlt
          have hd' : k ≤ (s.prof o).lastTotp := hd
          rw [hv.2.1] at hd'
          exact absurd hlt (Nat.not_lt_of_le hd')
        · rfl
      · rfl

/-- **One-time TOTP.** Once a TOTP code has been accepted, the same code (same user's secret, same time
step) is never accepted again — with any cookie, after any further history, in any later time step
(in particular not in the adjacent step, where `totp.Validate` would still consider it valid). -/
theorem c05_onetime_totp (s : State) (c c' : Cookies) (o : User) (k : Nat) (ops : List Op)
    (h : (step fixed s (.totp c (some (o, k)))).2.accepted = true) :
    (step fixed (runFrom fixed (step fixed s (.totp c (some (o, k)))).1 ops) (.totp c' (some (o, k)))).2.accepted
      = false :=
  totp_dead_reject (runFrom_shape_pred (fun _ _ hsh hd => totpDead_shape hsh hd) (totp_accept_dead h) ops) c'

theorem boot_accept_dead {s : State} {c : Cookies} {o : User}
    (h : (step fixed s (.bootstrap c (some o))).2.accepted = true) :
    BootDead o (step fixed s (.bootstrap c (some o))).1 := by
  obtain ⟨h0, hst0⟩ := accepted_handle0 h
  have h' : (hBootstrap s (caller c) (some o)).2.2 ≠ [] := h0
  rw [hst0]
  show (((hBootstrap s (caller c) (some o)).1).prof o).boot = none
  simp only [hBootstrap] at h'
  split at h'
  · exact absurd rfl h'
  · rename_i ck hauth
    split at h'
    · exact absurd rfl h'
    · rename_i e hb
      split at h'
      · exact absurd rfl h'
      · rename_i hn
        split at h'
        · rename_i ho
          split at h'
          · exact absurd rfl h'
          · rename_i hsv
            simp only [hBootstrap, hauth, hb]
            rw [if_neg hn, if_pos ho, if_neg hsv]
            injection ho with ho
            simp [clearBoot, upd, ho]
        · exact absurd rfl h'

theorem boot_dead_reject {s : State} {o : User} (hd : BootDead o s) (c : Cookies) :
    (step fixed s (.bootstrap c (some o))).2.accepted = false := by
  apply rejected_of_handle0_nil
  show (hBootstrap s (caller c) (some o)).2.2 = []
  simp only [hBootstrap]
  split
  · rfl
  · rename_i ck hauth
    split
    · rfl
    · rename_i e hb
      split
      · rfl
      · split
        · rename_i ho
          injection ho with ho
          have hd' : (s.prof o).boot = none := hd
          rw [ho, hb] at hd'
          cases hd'
        · rfl

/-- **One-time bootstrap OTP.** Once user `o`'s bootstrap OTP has been accepted it is never accepted again. -/
theorem c05_onetime_bootstrap (s : State) (c c' : Cookies) (o : User) (ops : List Op)
    (h : (step fixed s (.bootstrap c (some o))).2.accepted = true) :
    (step fixed (runFrom fixed (step fixed s (.bootstrap c (some o))).1 ops) (.bootstrap c' (some o))).2.accepted
      = false :=
  boot_dead_reject (runFrom_shape_pred (fun _ _ hsh hd => bootDead_shape hsh hd) (boot_accept_dead h) ops) c'

/-- after an accepted finish the challenge is pending for nobody -/
theorem chal_dead_after_del {s : State} (hw : ChalWF s) {u : User} {ch : Chal} (hch : s.chal u = some ch) :
    ChalDead ch.id (delChal s u) := by
  refine ⟨hw.bound u ch hch, fun u' ch' h' => ?_⟩
  simp only [delChal, upd] at h'
  split at h'
  · cases h'
  · rename_i hne
    intro hid
    exact hne (hw.uniq u' u ch' ch h' hch hid)

/-- what an accepted U2F finish tells: the state afterwards is `delChal`, and the assertion was over the
pending challenge -/
theorem u2fFinish_accept_shape {s : State} {c : Cookies} {a : Assertion}
    (h' : (hU2fFinish fixed s (caller c) (some a)).2.2 ≠ []) :
    ∃ (ck : Cookie) (ch : Chal), s.chal ck.sub = some ch ∧ a.chal = ch.id ∧
      (hU2fFinish fixed s (caller c) (some a)).1 = delChal s ck.sub := by
  have h2 := h'
  simp only [hU2fFinish] at h2
  split at h2
  · exact absurd rfl h2
  · rename_i ck hauth
    split at h2
    · exact absurd rfl h2
    · rename_i hu
      split at h2
      · exact absurd rfl h2
      · rename_i ch hch
        split at h2
        · exact absurd rfl h2
        · rename_i hexp
          split at h2
          · rename_i hok
            refine ⟨ck, ch, hch, hok.2.1, ?_⟩
            simp only [hU2fFinish, hauth, hch]
            rw [if_neg hu, if_neg hexp, if_pos hok]
            split at h2
            · split at h2
              · rename_i hreg; rw [if_pos hreg]
              · exact absurd rfl h2
            · split at h2
              · rename_i hwa; rw [if_pos hwa]; simp only [fixed, if_true]
              · exact absurd rfl h2
          · exact absurd rfl h2

theorem waFinish_accept_shape {s : State} {c : Cookies} {a : Assertion}
    (h' : (hWaFinish fixed s (caller c) (some a)).2.2 ≠ []) :
    ∃ (ck : Cookie) (ch : Chal), s.chal ck.sub = some ch ∧ a.chal = ch.id ∧
      (hWaFinish fixed s (caller c) (some a)).1 = delChal s ck.sub := by
  have h2 := h'
  simp only [hWaFinish] at h2
  split at h2
  · exact absurd rfl h2
  · rename_i ck hauth
    split at h2
    · exact absurd rfl h2
    · rename_i ch hch
      split at h2
      · exact absurd rfl h2
      · rename_i hexp
        split at h2
        · exact absurd rfl h2
        · rename_i hwa
          split at h2
          · rename_i hfound
            split at h2
            · rename_i hid
              refine ⟨ck, ch, hch, hid, ?_⟩
              simp only [hWaFinish, hauth, hch]
              rw [if_neg hexp, if_neg hwa, if_pos hfound, if_pos hid]
            · exact absurd rfl h2
          · rename_i hnf
            split at h2
            · rename_i hok
              refine ⟨ck, ch, hch, hok.2.2.2, ?_⟩
              simp only [hWaFinish, hauth, hch]
              rw [if_neg hexp, if_neg hwa, if_neg hnf, if_pos hok]
            · exact absurd rfl h2

theorem chalDead_assemble {k : Nat} {s : State} (evs : List (User × Factor)) (cs : List Cookie) (code : Nat)
    (h : ChalDead k s) : ChalDead k (assemble evs (s, code, cs)) := h

theorem u2fFinish_accept_dead {s : State} (hw : ChalWF s) {c : Cookies} {a : Assertion}
    (h : (step fixed s (.u2fFinish c (some a))).2.accepted = true) :
    ChalDead a.chal (step fixed s (.u2fFinish c (some a))).1 := by
  obtain ⟨h0, hst0⟩ := accepted_handle0 h
  have h' : (hU2fFinish fixed s (caller c) (some a)).2.2 ≠ [] := h0
  rw [hst0]
  obtain ⟨ck, ch, hch, hid, hst⟩ := u2fFinish_accept_shape h'
  have hd := chal_dead_after_del hw hch
  rw [← hid, ← hst] at hd
  exact hd

theorem waFinish_accept_dead {s : State} (hw : ChalWF s) {c : Cookies} {a : Assertion}
    (h : (step fixed s (.waFinish c (some a))).2.accepted = true) :
    ChalDead a.chal (step fixed s (.waFinish c (some a))).1 := by
  obtain ⟨h0, hst0⟩ := accepted_handle0 h
  have h' : (hWaFinish fixed s (caller c) (some a)).2.2 ≠ [] := h0
  rw [hst0]
  obtain ⟨ck, ch, hch, hid, hst⟩ := waFinish_accept_shape h'
  have hd := chal_dead_after_del hw hch
  rw [← hid, ← hst] at hd
  exact hd

theorem chal_dead_reject_u2f {s : State} {k : Nat} (hd : ChalDead k s) (c : Cookies) (a : Assertion)
    (ha : a.chal = k) : (step fixed s (.u2fFinish c (some a))).2.accepted = false := by
  apply rejected_of_handle0_nil
  show (hU2fFinish fixed s (caller c) (some a)).2.2 = []
  simp only [hU2fFinish]
  split
  · rfl
  · rename_i ck hauth
    split
    · rfl
    · split
      · rfl
      · rename_i ch hch
        split
        · rfl
        · split
          · rename_i hok
            exact absurd (ha ▸ hok.2.1 : k = ch.id).symm (hd.2 _ _ hch)
          · rfl

theorem chal_dead_reject_wa {s : State} {k : Nat} (hd : ChalDead k s) (c : Cookies) (a : Assertion)
    (ha : a.chal = k) : (step fixed s (.waFinish c (some a))).2.accepted = false := by
  apply rejected_of_handle0_nil
  show (hWaFinish fixed s (caller c) (some a)).2.2 = []
  simp only [hWaFinish]
  split
  · rfl
  · rename_i ck hauth
    split
    · rfl
    · rename_i ch hch
      split
      · rfl
      · split
        · rfl
        · split
          · split
            · rename_i hid
              exact absurd (ha ▸ hid : k = ch.id).symm (hd.2 _ _ hch)
            · rfl
          · split
            · rename_i hok
              exact absurd (ha ▸ hok.2.2.2 : k = ch.id).symm (hd.2 _ _ hch)
            · rfl

theorem run_chalWF (t0 : Nat) (okta : Bool) (cfg : User → UserCfg) (ops : List Op) :
    ChalWF (run fixed t0 okta cfg ops) :=
  runFrom_shape_pred (fun _ _ hsh hw => chalWF_shape hsh hw) (init_chalWF t0 okta cfg) ops

/-- **One-time challenge.** Once a hardware-token challenge has been answered successfully (through either
finish endpoint), no assertion over that same challenge — by any token, with any cookie, through either
endpoint, after any further history — is accepted again. -/
theorem c05_onetime_challenge (t0 : Nat) (okta : Bool) (cfg : User → UserCfg) (ops1 ops2 : List Op)
    (viaWA viaWA' : Bool) (c c' : Cookies) (a a' : Assertion) (hsame : a'.chal = a.chal)
    (h : (step fixed (run fixed t0 okta cfg ops1)
            (if viaWA then .waFinish c (some a) else .u2fFinish c (some a))).2.accepted = true) :
    (step fixed
        (runFrom fixed (step fixed (run fixed t0 okta cfg ops1)
            (if viaWA then .waFinish c (some a) else .u2fFinish c (some a))).1 ops2)
        (if viaWA' then .waFinish c' (some a') else .u2fFinish c' (some a'))).2.accepted = false := by
  have hw := run_chalWF t0 okta cfg ops1
  have hd : ChalDead a.chal (step fixed (run fixed t0 okta cfg ops1)
      (if viaWA then .waFinish c (some a) else .u2fFinish c (some a))).1 := by
    cases viaWA with
    | true => exact waFinish_accept_dead hw h
    | false => exact u2fFinish_accept_dead hw h
  have hd2 := runFrom_shape_pred (P := ChalDead a.chal) (fun _ _ hsh hd => chalDead_shape hsh hd) hd ops2
  cases viaWA' with
  | true => exact chal_dead_reject_wa hd2 c' a' hsame
  | false => exact chal_dead_reject_u2f hd2 c' a' hsame

/-! ## 3. expired values never work (any state, any cookie) -/

/-- a TOTP code of a step older than the previous one is refused -/
theorem c05_expired_totp (s : State) (c : Cookies) (o : User) (k : Nat) (h : k + 1 < s.now) :
    (step fixed s (.totp c (some (o, k)))).2.accepted = false := by
  apply rejected_of_handle0_nil
  show (hTotp fixed s (caller c) (some (o, k))).2.2 = []
  simp only [hTotp]
  split
  · rfl
  · split
    · rfl
    · split
      · rename_i hv
        exact absurd hv.2.2.1 (Nat.not_le_of_lt h)
      · rfl

/-- an expired bootstrap OTP is refused -/
theorem c05_expired_bootstrap (s : State) (c : Cookies) (ck : Cookie) (o : Option User) (e : Nat)
    (hauth : auth s (caller c) = some ck) (hb : (s.prof ck.sub).boot = some e) (h : e ≤ s.now) :
    (step fixed s (.bootstrap c o)).2.accepted = false := by
  apply rejected_of_handle0_nil
  show (hBootstrap s (caller c) o).2.2 = []
  unfold hBootstrap
  simp only [hauth, hb]
  rw [if_pos (Or.inr (Or.inr h))]

/-- an expired hardware-token challenge is refused by both finish endpoints (whether or not the periodic
cleanup has run) -/
theorem c05_expired_challenge (s : State) (c : Cookies) (ck : Cookie) (a : Option Assertion) (ch : Chal)
    (hauth : auth s (caller c) = some ck) (hch : s.chal ck.sub = some ch) (h : chalExpired s ch) :
    (step fixed s (.u2fFinish c a)).2.accepted = false ∧ (step fixed s (.waFinish c a)).2.accepted = false := by
  constructor
  · apply rejected_of_handle0_nil
    show (hU2fFinish fixed s (caller c) a).2.2 = []
    unfold hU2fFinish
    simp only [hauth, hch]
    split
    · rfl
    · rw [if_pos ⟨rfl, h⟩]
  · apply rejected_of_handle0_nil
    show (hWaFinish fixed s (caller c) a).2.2 = []
    unfold hWaFinish
    simp only [hauth, hch]
    rw [if_pos ⟨rfl, h⟩]

/-- an expired push transaction is refused (whether or not the periodic cleanup has run) -/
theorem c05_expired_push (s : State) (c : Cookies) (V : Nat) (tx : PushTx)
    (htx : s.push V = some tx) (h : pushExpired s tx) :
    (step fixed s (.poll c (some V))).2.accepted = false := by
  apply rejected_of_handle0_nil
  show (hPoll fixed s (caller c) (some V)).2.2 = []
  unfold hPoll
  split
  · rfl
  · simp only [htx]
    split
    · rfl
    · rw [if_pos ⟨rfl, h⟩]

/-- an expired CLI token is refused -/
theorem c05_expired_cli (s : State) (c : Cookies) (t : CliTok) (h : t.expiresAt ≤ s.now) :
    (step fixed s (.sendDoc c (some t))).2.accepted = false := by
  apply rejected_of_handle0_nil
  show (hSendDoc s (caller c) (some t)).2.2 = []
  simp only [hSendDoc]
  split
  · rfl
  · split
    · rfl
    · split
      · rename_i hok
        exact absurd hok.2.2 (Nat.not_lt_of_le h)
      · rfl

/-- after the cleanup pass no expired push transaction or challenge is left at all -/
theorem c05_sweep_removes_expired (s : State) (V : Nat) (u : User) :
    (∀ tx, (step fixed s .sweep).1.push V = some tx → ¬ pushExpired s tx) ∧
    (∀ ch, (step fixed s .sweep).1.chal u = some ch → ¬ chalExpired s ch) := by
  constructor
  · intro tx h
    have h' : sweepPush s V = some tx := h
    unfold sweepPush at h'
    split at h'
    · split at h'
      · cases h'
      · rename_i hne; injection h' with h'; subst h'; exact hne
    · cases h'
  · intro ch h
    have h' : sweepChal s u = some ch := h
    unfold sweepChal at h'
    split at h'
    · split at h'
      · cases h'
      · rename_i hne; injection h' with h'; subst h'; exact hne
    · cases h'

/-! ## 3b. several auth cookies in one request; storage faults -/

/-- **Which cookie.** However many auth cookies a request carries, the one that identifies the caller and
the one that is re-signed with the raised level are the same one: the last. (That the two Go functions
still agree is part of `c05_sites`.) -/
theorem c05_target_is_caller (cs : Cookies) (c : Option Cookie) :
    target cs = caller cs ∧ caller (cs ++ [c]) = c := by
  refine ⟨rfl, ?_⟩
  simp [caller]

/-- a response that carries an auth cookie is a success response -/
def ResOK (r : Res) : Prop := r.2.2 ≠ [] → (r.2.1 = 200 ∨ r.2.1 = 308)

theorem handle0_resOK (v : Variant) (s : State) (op : Op) : ResOK (handle0 v s op) := by
  cases op <;> simp only [handle0]
  case login => unfold hLogin; (repeat' split) <;> simp [ResOK]
  case vipOtp => unfold hVipOtp; (repeat' split) <;> simp [ResOK]
  case pushStart => unfold hPushStart; (repeat' split) <;> simp [ResOK]
  case approve => unfold hApprove; (repeat' split) <;> simp [ResOK]
  case poll => unfold hPoll; (repeat' split) <;> simp [ResOK]
  case totp => unfold hTotp; (repeat' split) <;> simp [ResOK]
  case bootstrap => unfold hBootstrap; (repeat' split) <;> simp [ResOK]
  case u2fBegin => unfold hU2fBegin; (repeat' split) <;> simp [ResOK]
  case u2fFinish => unfold hU2fFinish; (repeat' split) <;> simp [ResOK]
  case waBegin => unfold hWaBegin; (repeat' split) <;> simp [ResOK]
  case waFinish => unfold hWaFinish; (repeat' split) <;> simp [ResOK]
  case showToken => unfold hShowToken; (repeat' split) <;> simp [ResOK]
  case sendDoc => unfold hSendDoc; (repeat' split) <;> simp [ResOK]
  case logout => simp [ResOK]
  case oktaOtp => unfold hOktaOtp; (repeat' split) <;> simp [ResOK]
  case oktaPushStart => unfold hOktaPushStart; (repeat' split) <;> simp [ResOK]
  case oktaApprove => unfold hOktaApprove; (repeat' split) <;> simp [ResOK]
  case oktaPoll => unfold hOktaPoll; (repeat' split) <;> simp [ResOK]
  case tick => simp [ResOK]
  case sweep => simp [ResOK]
  case fault => simp [ResOK]
  case totpEnrol => unfold hTotpEnrol; (repeat' split) <;> simp [ResOK]
  case totpRename => unfold hRename; (repeat' split) <;> simp [ResOK]
  case hwRename => unfold hRename; (repeat' split) <;> simp [ResOK]

/-- **No cookie on failure.** In every state (faults armed or not), for every variant, a response that
hands out an auth cookie has status 200 (or 308 for the CLI hand-off): no 4xx/5xx response, and no
handler that panicked, carries one. -/
theorem c05_cookie_only_on_success (v : Variant) (s : State) (op : Op)
    (h : (step v s op).2.cookies ≠ []) : (step v s op).2.code = 200 ∨ (step v s op).2.code = 308 := by
  have hne : (handle v s op).2.2 ≠ [] := h
  have he := handle_eq_of_ne_nil hne
  show (handle v s op).2.1 = 200 ∨ (handle v s op).2.1 = 308
  rw [he] at hne ⊢
  exact handle0_resOK v s op hne

/-- **Effect only after a durable consume.** A step that hands out a cookie for a one-time value has, in
the resulting state, already spent that value: the TOTP step is recorded, the bootstrap OTP is cleared,
the challenge is pending for nobody (so the `c05_onetime_*` theorems apply from there on). -/
theorem c05_accept_consumes (t0 : Nat) (okta : Bool) (cfg : User → UserCfg) (ops : List Op) (c : Cookies) :
    (∀ o k, (step fixed (run fixed t0 okta cfg ops) (.totp c (some (o, k)))).2.accepted = true →
        TotpDead o k (step fixed (run fixed t0 okta cfg ops) (.totp c (some (o, k)))).1) ∧
    (∀ o, (step fixed (run fixed t0 okta cfg ops) (.bootstrap c (some o))).2.accepted = true →
        BootDead o (step fixed (run fixed t0 okta cfg ops) (.bootstrap c (some o))).1) ∧
    (∀ a, (step fixed (run fixed t0 okta cfg ops) (.u2fFinish c (some a))).2.accepted = true →
        ChalDead a.chal (step fixed (run fixed t0 okta cfg ops) (.u2fFinish c (some a))).1) ∧
    (∀ a, (step fixed (run fixed t0 okta cfg ops) (.waFinish c (some a))).2.accepted = true →
        ChalDead a.chal (step fixed (run fixed t0 okta cfg ops) (.waFinish c (some a))).1) :=
  ⟨fun _ _ h => totp_accept_dead h, fun _ h => boot_accept_dead h,
   fun _ h => u2fFinish_accept_dead (run_chalWF t0 okta cfg ops) h,
   fun _ h => waFinish_accept_dead (run_chalWF t0 okta cfg ops) h⟩

/-- **Write fault.** While the profile store refuses writes, neither a TOTP code nor a bootstrap OTP
upgrades anything, and neither is consumed: the state does not change at all. -/
theorem c05_save_fault_no_effect (s : State) (hf : s.saveFails = true) (c : Cookies)
    (code : Option (User × Nat)) (o : Option User) :
    (step fixed s (.totp c code)).2.cookies = [] ∧ (handle fixed s (.totp c code)).1 = s ∧
    (step fixed s (.bootstrap c o)).2.cookies = [] ∧ (handle fixed s (.bootstrap c o)).1 = s := by
  have t : (handle0 fixed s (.totp c code)).2.2 = [] ∧ (handle0 fixed s (.totp c code)).1 = s := by
    show (hTotp fixed s (caller c) code).2.2 = [] ∧ (hTotp fixed s (caller c) code).1 = s
    unfold hTotp
    simp only [fixed, if_true, hf]
    (repeat' split) <;> exact ⟨rfl, rfl⟩
  have b : (handle0 fixed s (.bootstrap c o)).2.2 = [] ∧ (handle0 fixed s (.bootstrap c o)).1 = s := by
    show (hBootstrap s (caller c) o).2.2 = [] ∧ (hBootstrap s (caller c) o).1 = s
    unfold hBootstrap
    simp only [hf, if_true]
    (repeat' split) <;> exact ⟨rfl, rfl⟩
  refine ⟨?_, ?_, ?_, ?_⟩
  · show (handle fixed s (.totp c code)).2.2 = []
    unfold handle; split
    · rfl
    · exact t.1
  · unfold handle; split
    · rfl
    · exact t.2
  · show (handle fixed s (.bootstrap c o)).2.2 = []
    unfold handle; split
    · rfl
    · exact b.1
  · unfold handle; split
    · rfl
    · exact b.2

/-- **Read fault.** While the profile cannot be loaded, no handler that needs it hands out anything or
changes anything (fail closed), and a password login hands out no cookie. -/
theorem c05_load_fault_no_effect (v : Variant) (s : State) (hf : s.loadFails = true) (op : Op) (cs : Cookies)
    (hop : loadsProfile op = some cs) :
    (step v s op).2.cookies = [] ∧ ((auth s (caller cs)).isSome = true → (handle v s op).1 = s) ∧
    ∀ u pw, (step v s (.login u pw)).2.cookies = [] := by
  refine ⟨?_, ?_, ?_⟩
  · show (handle v s op).2.2 = []
    unfold handle loadFault
    simp only [hop, hf, Bool.true_and]
    split
    · rfl
    · rename_i hn
      have hnone : auth s (caller cs) = none := by
        cases h : auth s (caller cs) with
        | none => rfl
        | some ck => simp [h] at hn
      cases op <;> simp only [loadsProfile] at hop <;> try (cases hop)
      all_goals simp only [handle0]
      · unfold hTotp; simp only [hnone]
      · unfold hBootstrap; simp only [hnone]
      · unfold hU2fBegin; simp only [hnone]
      · unfold hU2fFinish; simp only [hnone]
      · unfold hWaBegin; simp only [hnone]
      · unfold hWaFinish; simp only [hnone]
  · intro ha
    unfold handle loadFault
    simp only [hop, hf, ha, Bool.and_self, if_true]
  · intro u pw
    show (handle v s (.login u pw)).2.2 = []
    unfold handle loadFault
    simp only [loadsProfile, handle0, hLogin]
    (repeat' split) <;> first | rfl | simp_all

/-- **Profile management keeps the replay guards.** Enrolling a further TOTP device and renaming a device
or token (handlers that load, modify and save the whole profile) never hand out a cookie and leave every
user's `LastSuccessfullTOTPCounter`, stored bootstrap OTP, registrations, the pending challenges and the
push transactions exactly as they were — so nothing that was spent becomes usable again (the
`c05_onetime_*` theorems already quantify over histories containing these ops; this is the single-step
reason). -/
theorem c05_management_keeps_guards (v : Variant) (s : State) (op : Op)
    (hop : (∃ c, op = .totpEnrol c) ∨ (∃ c u, op = .totpRename c u) ∨ (∃ c u, op = .hwRename c u)) :
    (step v s op).2.cookies = [] ∧
    (∀ u, ((step v s op).1.prof u).lastTotp = (s.prof u).lastTotp ∧ ((step v s op).1.prof u).boot = (s.prof u).boot ∧
          ((step v s op).1.prof u).hasTotp = (s.prof u).hasTotp ∧ ((step v s op).1.prof u).hasU2F = (s.prof u).hasU2F ∧
          ((step v s op).1.prof u).hasWA = (s.prof u).hasWA) ∧
    (step v s op).1.chal = s.chal ∧ (step v s op).1.nextChal = s.nextChal ∧ (step v s op).1.push = s.push := by
  have key : ∀ r : Res, (r = (s, r.2.1, []) ∨ ∃ u, r = (setExtraTotp s u, 302, [])) →
      r.2.2 = [] ∧
      (∀ u, (r.1.prof u).lastTotp = (s.prof u).lastTotp ∧ (r.1.prof u).boot = (s.prof u).boot ∧
            (r.1.prof u).hasTotp = (s.prof u).hasTotp ∧ (r.1.prof u).hasU2F = (s.prof u).hasU2F ∧
            (r.1.prof u).hasWA = (s.prof u).hasWA) ∧
      r.1.chal = s.chal ∧ r.1.nextChal = s.nextChal ∧ r.1.push = s.push := by
    intro r hr
    rcases hr with hr | ⟨u0, hr⟩
    · rw [hr]; exact ⟨rfl, fun _ => ⟨rfl, rfl, rfl, rfl, rfl⟩, rfl, rfl, rfl⟩
    · rw [hr]
      refine ⟨rfl, fun u => ?_, rfl, rfl, rfl⟩
      simp only [setExtraTotp, upd]
      split
      · rename_i h; subst h; exact ⟨rfl, rfl, rfl, rfl, rfl⟩
      · exact ⟨rfl, rfl, rfl, rfl, rfl⟩
  have shape : ∀ c u p, (hTotpEnrol s c = (s, (hTotpEnrol s c).2.1, []) ∨ ∃ u, hTotpEnrol s c = (setExtraTotp s u, 302, [])) ∧
      hRename s c u p = (s, (hRename s c u p).2.1, []) := by
    intro c u p
    constructor
    · unfold hTotpEnrol
      (repeat' split) <;> first | exact Or.inl rfl | exact Or.inr ⟨_, rfl⟩
    · unfold hRename
      (repeat' split) <;> rfl
  show (handle v s op).2.2 = [] ∧ (∀ u, ((handle v s op).1.prof u).lastTotp = _ ∧ ((handle v s op).1.prof u).boot = _ ∧
      ((handle v s op).1.prof u).hasTotp = _ ∧ ((handle v s op).1.prof u).hasU2F = _ ∧ ((handle v s op).1.prof u).hasWA = _) ∧
      (handle v s op).1.chal = _ ∧ (handle v s op).1.nextChal = _ ∧ (handle v s op).1.push = _
  have hl : loadFault s op = false := by
    rcases hop with ⟨c, rfl⟩ | ⟨c, u, rfl⟩ | ⟨c, u, rfl⟩ <;> rfl
  unfold handle
  rw [hl]
  simp only [Bool.false_eq_true, if_false]
  rcases hop with ⟨c, rfl⟩ | ⟨c, u, rfl⟩ | ⟨c, u, rfl⟩
  · exact key _ (shape (caller c) 0 false).1
  · exact key _ (Or.inl (shape (caller c) u _).2)
  · exact key _ (Or.inl (shape (caller c) u _).2)

/-! ## 4. the as-found handlers violate the property: decided concrete histories -/

def cfgAll : User → UserCfg := fun _ => ⟨true, true, true, 0⟩
def noVipCheck : Variant := { fixed with vipUserCheck := false }
def noTotpMatched : Variant := { fixed with totpMatched := false }
def noChalExpiry : Variant := { fixed with chalExpiry := false }
def noChalOnce : Variant := { fixed with chalOnce := false }
def noPushExpiry : Variant := { fixed with pushExpiry := false }

/-- responses of a whole history -/
def outs (v : Variant) (s : State) : List Op → List Out
  | [] => []
  | op :: ops => (step v s op).2 :: outs v (step v s op).1 ops

/-- bob (1) starts a push under cookie value 7 and approves it on his device; alice's (0) password-only
session polls with 7 -/
def histVip : List Op :=
  [.login 0 true, .login 1 true, .pushStart [some ⟨1, 2⟩] (some 7), .approve 0, .poll [some ⟨0, 2⟩] (some 7)]

/-- as found: alice's session receives the SymantecVIP bit (level 18) although the only VIP verification
in the whole history is bob's; repaired: 412 -/
theorem c05_unfixed_counterexample_vip :
    (outs noVipCheck (init 1000 false cfgAll) histVip).getLast? = some ⟨200, [⟨0, 18⟩], []⟩ ∧
    (0, Factor.vip) ∉ (runFrom noVipCheck (init 1000 false cfgAll) histVip).log ∧
    (1, Factor.vip) ∈ (runFrom noVipCheck (init 1000 false cfgAll) histVip).log ∧
    (outs fixed (init 1000 false cfgAll) histVip).getLast? = some ⟨412, [], []⟩ := by
  decide

/-- alice's code of step 1000 is accepted, refused on immediate replay, and — one tick later — … -/
def histTotp : List Op :=
  [.login 0 true, .totp [some ⟨0, 2⟩] (some (0, 1000)), .totp [some ⟨0, 2⟩] (some (0, 1000)), .tick,
   .totp [some ⟨0, 2⟩] (some (0, 1000))]

/-- … as found: accepted AGAIN in the adjacent step; repaired: refused -/
theorem c05_unfixed_counterexample_totp :
    (outs noTotpMatched (init 1000 false cfgAll) histTotp).map (·.code) = [200, 200, 401, 1, 200] ∧
    (outs fixed (init 1000 false cfgAll) histTotp).map (·.code) = [200, 200, 401, 1, 401] := by
  decide

def histChalExpiry : List Op :=
  [.login 0 true, .waBegin [some ⟨0, 2⟩], .tick, .tick, .waFinish [some ⟨0, 2⟩] (some ⟨0, .wa, 0⟩)]

/-- as found: a challenge that expired a minute ago (and was not swept yet) is still honoured -/
theorem c05_unfixed_counterexample_challenge_expiry :
    (outs noChalExpiry (init 1000 false cfgAll) histChalExpiry).map (·.code) = [200, 200, 1, 1, 200] ∧
    (outs fixed (init 1000 false cfgAll) histChalExpiry).map (·.code) = [200, 200, 1, 1, 400] := by
  decide

def histChalOnce : List Op :=
  [.login 0 true, .u2fBegin [some ⟨0, 2⟩], .u2fFinish [some ⟨0, 2⟩] (some ⟨0, .wa, 0⟩),
   .u2fFinish [some ⟨0, 2⟩] (some ⟨0, .wa, 0⟩)]

/-- as found: the same sign response (webauthn-registered key) is accepted twice over one challenge -/
theorem c05_unfixed_counterexample_challenge_reuse :
    (outs noChalOnce (init 1000 false cfgAll) histChalOnce).map (·.code) = [200, 200, 200, 200] ∧
    (outs fixed (init 1000 false cfgAll) histChalOnce).map (·.code) = [200, 200, 200, 400] := by
  decide

def histPushExpiry : List Op :=
  [.login 0 true, .pushStart [some ⟨0, 2⟩] (some 3), .approve 0, .tick, .tick, .tick, .tick,
   .poll [some ⟨0, 2⟩] (some 3)]

/-- as found: a push transaction is honoured after its 120 s lifetime until the cleanup runs -/
theorem c05_unfixed_counterexample_push_expiry :
    (outs noPushExpiry (init 1000 false cfgAll) histPushExpiry).getLast?.map (·.code) = some 200 ∧
    (outs fixed (init 1000 false cfgAll) histPushExpiry).getLast?.map (·.code) = some 412 := by
  decide

/-! ## 5. the source as it is now (tables regenerated from /repo on every run) -/

open KM.SessionSites in
/-- the constants each handler of the MODEL ORs into the level -/
def modelConsts : HandlerId → Option (List Nat)
  | .vipAuth | .vipPollCheck => some [authTypeSymantecVIP]
  | .totpAuth => some [authTypeTOTP]
  | .oktaOtp | .oktaPollCheck => some [authTypeOkta2FA]
  | .bootstrapOtp => some [authTypeBootstrapOTP]
  | .u2fSignResponse => some [authTypeU2F]
  | .webauthnAuthFinish => some [authTypeU2F, authTypeFIDO2]
  | .other => none

open KM.SessionSites in
/-- **Sites.** Every `updateAuthCookieAuthlevel` call in cmd/keymasterd ORs, onto the level of the cookie
re-verified in that very request, exactly the constants the model's handler ORs; the VIP poll compares the
transaction's user with the session user and the Okta poll is keyed by the session user; the three
handlers that consume a stored one-time entry refuse it once `ExpiresAt` has passed; every hardware-token
upgrade is preceded by deleting the pending challenge; `validateUserTOTP` stores the matched step;
`checkAuth`, `updateAuthCookieAuthlevel` and `logoutHandler` all use the LAST cookie named auth_cookie; the
bootstrap OTP is cleared and saved, and the TOTP step validated and saved, with their error paths leaving
the handler, before the upgrade. -/
theorem c05_sites :
    upgradeSites.all (fun s => s.base == .session && modelConsts s.handler == some s.consts) = true ∧
    upgradeSites.length = 9 ∧
    vipPollBinding = .checked ∧ oktaPollBinding = .keyedBySessionUser ∧
    expirySites = [(.vipPollCheck, true), (.u2fSignResponse, true), (.webauthnAuthFinish, true)] ∧
    challengeConsumed = [(.u2fSignResponse, true), (.u2fSignResponse, true), (.webauthnAuthFinish, true)] ∧
    totpStored = .matchedStep ∧
    authCookieChoice = [(.checkAuth, .last), (.updateAuthCookieAuthlevel, .last), (.logoutHandler, .last)] ∧
    consumedBeforeUpgrade = [(.bootstrapOtp, true), (.totpAuth, true)] := by
  decide

/-- the bit constants of the model are the ones of app.go -/
theorem c05_consts :
    authTypePassword = 2 ^ 1 ∧ authTypeU2F = 2 ^ 3 ∧ authTypeSymantecVIP = 2 ^ 4 ∧ authTypeTOTP = 2 ^ 6 ∧
    authTypeOkta2FA = 2 ^ 7 ∧ authTypeBootstrapOTP = 2 ^ 8 ∧ authTypeWebauthForCLI = 2 ^ 10 ∧
    authTypeFIDO2 = 2 ^ 11 ∧ vipLife = 4 ∧ chalLife = 1 := by
  decide

/-! ## non-vacuity -/

/-- the hypotheses of the theorems above are satisfiable: a history in which a second factor IS gained
(alice logs in and presents her own TOTP code), and one in which a challenge is answered -/
example : (outs fixed (init 1000 false cfgAll) [.login 0 true, .totp [some ⟨0, 2⟩] (some (0, 1000))]).map
    (fun o => (o.code, o.cookies, o.accepted)) = [(200, [⟨0, 2⟩], true), (200, [⟨0, 66⟩], true)] := by decide

example : (step fixed (run fixed 1000 false cfgAll [.login 0 true, .waBegin [some ⟨0, 2⟩]])
    (.waFinish [some ⟨0, 2⟩] (some ⟨0, .wa, 0⟩))).2 = ⟨200, [⟨0, 2058⟩], [(0, .hwToken)]⟩ := by decide

example : Inv (init 1000 false cfgAll) := init_inv _ _ _

/-- two auth cookies in one request: [victim bob, attacker alice] + alice's own TOTP code upgrades alice's
cookie, never bob's; in the other order the caller is bob and alice's code is refused -/
example : (outs fixed (init 1000 false cfgAll)
    [.login 0 true, .login 1 true, .totp [some ⟨1, 2⟩, some ⟨0, 2⟩] (some (0, 1000)),
     .totp [some ⟨0, 2⟩, some ⟨1, 2⟩] (some (0, 1001))]).map (fun o => (o.code, o.cookies))
    = [(200, [⟨0, 2⟩]), (200, [⟨1, 2⟩]), (200, [⟨0, 66⟩]), (401, [])] := by decide

/-- a TOTP code accepted for one session stays spent when the user enrols another device or renames one in
between -/
example : (outs fixed (init 1000 false cfgAll)
    [.login 0 true, .totp [some ⟨0, 2⟩] (some (0, 1000)), .totpEnrol [some ⟨0, 66⟩], .totpRename [some ⟨0, 66⟩] 0,
     .hwRename [some ⟨0, 66⟩] 0, .tick, .totp [some ⟨0, 2⟩] (some (0, 1000))]).map (·.code)
    = [200, 200, 302, 200, 200, 1, 401] := by decide

/-- write fault while the bootstrap OTP is presented: 500 without a cookie, the OTP survives, works exactly
once after the fault is lifted -/
example : (outs fixed (init 1000 false (fun _ => ⟨false, false, false, 3⟩))
    [.login 0 true, .fault true false, .bootstrap [some ⟨0, 2⟩] (some 0), .fault false false,
     .bootstrap [some ⟨0, 2⟩] (some 0), .bootstrap [some ⟨0, 2⟩] (some 0)]).map (fun o => (o.code, o.cookies))
    = [(200, [⟨0, 2⟩]), (1, []), (500, []), (1, []), (200, [⟨0, 258⟩]), (412, [])] := by decide

end KM.Session

/-! ### requests authenticated by a TLS client certificate (`KM.SessionCert`)

Found in round 5 of the seeded changes (an observation of the sub-agent working on C01, confirmed on the
real handlers): `checkAuth(…, AuthTypeAny)` prefers a client certificate, `updateAuthCookieAuthlevel`
re-signed whatever auth cookie came along.  Repaired in /repo (`fix: a second factor only raises the auth
cookie of the user who proved it`); `bind = true` is the repaired helper, `bind = false` the code as found. -/
namespace KM.SessionCert
open KM.Session KM.Gen

theorem inv_withCert {s : State} (hs : Inv s) (A : User) : Inv (withCert s A) := by
  refine ⟨?_, hs.pushSvc, ?_, hs.svcBound, ?_, hs.bootWorld⟩
  · intro c hc
    simp only [withCert, List.mem_cons] at hc ⊢
    rcases hc with rfl | hc
    · have h9 : authTypeKeymasterX509 = 2 ^ 9 := by decide
      show LevelOK ((A, Factor.x509) :: s.log) A authTypeKeymasterX509
      rw [h9]
      exact levelOK_pow (f := Factor.x509) rfl (List.mem_cons_self ..)
    · exact levelOK_mono (hs.cookies c hc) (fun x hx => List.mem_cons_of_mem _ hx)
  · intro k u h; exact List.mem_cons_of_mem _ (hs.svcLog k u h)
  · intro u h; exact List.mem_cons_of_mem _ (hs.oktaLog u h)

theorem reqCookie_setCookies {op : Op} {cs : Cookies} (h : anyMaskCookies op = some cs) (pc : Cookie) :
    reqCookie (setCookies [some pc] op) = some pc ∧ ∀ u, setCookies [some pc] op ≠ .login u true := by
  cases op <;> simp [anyMaskCookies] at h <;> simp [setCookies, reqCookie, reqCookies, caller]

/-- what the handler hands out for a certificate identity is for the certificate's user -/
theorem inner_sub {s : State} {A : User} {op : Op} {cs : Cookies} (h : anyMaskCookies op = some cs)
    {c : Cookie} (hc : c ∈ (inner fixed s A op).2.cookies) : c.sub = A := by
  have := c05_subject_stable (withCert s A) (setCookies [some (pseudo A)] op) c hc
  obtain ⟨hr, hl⟩ := reqCookie_setCookies h (pseudo A)
  rcases this with ⟨u, hu, _⟩ | ⟨ck, hck, _, hsub⟩
  · exact absurd hu (hl u)
  · rw [hr] at hck; cases hck; exact hsub

theorem handed_sub {s : State} {A : User} {op : Op} {cs : Cookies} (h : anyMaskCookies op = some cs)
    {c : Cookie} (hc : c ∈ handed true fixed s A op cs) : c ∈ (inner fixed s A op).2.cookies := by
  unfold handed retarget at hc
  split at hc
  · cases hc
  · rename_i t ht
    split at hc
    · cases hc
    · rename_i hne
      have hts : t.sub = A := by
        by_cases e : t.sub = A
        · exact e
        · exact absurd ⟨rfl, e⟩ hne
      simp only [List.mem_map] at hc
      obtain ⟨c0, hc0, rfl⟩ := hc
      have := inner_sub h hc0
      have e : (⟨t.sub, c0.level⟩ : Cookie) = c0 := by rw [hts, ← this]
      rw [e]; exact hc0

/-- **Invariant, certificate requests included** (one step): with the repair, a request authenticated by a
client certificate preserves "every issued cookie carries only factor bits verified for its own subject" -/
theorem c05_cert_step_inv {s : State} (hs : Inv s) (A : User) (op : Op) : Inv (stepCert true fixed s A op).1 := by
  unfold stepCert
  split
  · exact step_inv hs op
  · rename_i cs h
    have hi : Inv (inner fixed s A op).1 := step_inv (inv_withCert hs A) _
    refine ⟨?_, hi.pushSvc, hi.svcLog, hi.svcBound, hi.oktaLog, hi.bootWorld⟩
    intro c hc
    simp only [List.mem_append] at hc
    have hck : (inner fixed s A op).1.cookies =
        (inner fixed s A op).2.cookies ++ (withCert s A).cookies := by
      unfold inner step
      simp only [(handle_ghost fixed (withCert s A) _).2]
    apply hi.cookies c
    rw [hck]
    rcases hc with hc | hc
    · exact List.mem_append_left _ (handed_sub h hc)
    · exact List.mem_append_right _ (List.mem_cons_of_mem _ hc)

theorem runR_inv {s : State} (hs : Inv s) (rs : List Req) : Inv (runR true fixed s rs) := by
  induction rs generalizing s with
  | nil => exact hs
  | cons r rest ih =>
    apply ih
    cases r with
    | plain op => exact step_inv hs op
    | cert A op => exact c05_cert_step_inv hs A op

/-- **Invariant over every history of plain and certificate-bearing requests**, from any initial
configuration: every cookie ever issued carries only factor bits that were verified *for its own subject*
(the X509 bit: its subject presented a verified keymaster client certificate). -/
theorem c05_cert_inv (t0 : Nat) (okta : Bool) (cfg : User → UserCfg) (rs : List Req) :
    ∀ c ∈ (runR true fixed (init t0 okta cfg) rs).cookies,
      LevelOK (runR true fixed (init t0 okta cfg) rs).log c.sub c.level :=
  (runR_inv (init_inv t0 okta cfg) rs).cookies

/-- **Own user**: a second-factor step authenticated by `A`'s client certificate only ever hands out a
cookie whose subject is `A` — whatever cookies of whomever the request carried -/
theorem c05_cert_own_user (s : State) (A : User) (op : Op) (cs : Cookies) (h : anyMaskCookies op = some cs)
    (c : Cookie) (hc : c ∈ (stepCert true fixed s A op).2.cookies) : c.sub = A := by
  unfold stepCert at hc
  rw [h] at hc
  exact inner_sub h (handed_sub h hc)

/-- a certificate changes nothing at the endpoints whose mask has no certificate bit -/
theorem c05_cert_ignored (bind : Bool) (v : Variant) (s : State) (A : User) (op : Op)
    (h : anyMaskCookies op = none) : stepCert bind v s A op = step v s op := by
  unfold stepCert; rw [h]

/-- bob (1) holds a client certificate and his own TOTP device; alice (0) has only logged in with her
password.  The request carries bob's certificate, alice's cookie and bob's current code. -/
def histCert : List Req :=
  [.plain (.login 0 true), .plain (.login 1 true), .cert 1 (.totp [some ⟨0, 2⟩] (some (1, 1000)))]

def outsR (bind : Bool) (s : State) : List Req → List Out
  | [] => []
  | r :: rest => (stepR bind fixed s r).2 :: outsR bind (stepR bind fixed s r).1 rest

/-- as found (`bind = false`): alice's cookie comes back with level X509|TOTP = 576 although no TOTP code
of alice's and no certificate of alice's occurs anywhere in the history; repaired: 500 and no cookie -/
theorem c05_cert_unfixed_counterexample :
    (outsR false (init 1000 false cfgAll) histCert).getLast? = some ⟨200, [⟨0, 576⟩], [(1, Factor.totp)]⟩ ∧
    levelOKb (runR false fixed (init 1000 false cfgAll) histCert).log 0 576 = false ∧
    (outsR true (init 1000 false cfgAll) histCert).getLast? = some ⟨500, [], [(1, Factor.totp)]⟩ := by
  decide

/-- non-vacuity: with his own cookie attached bob's certificate request IS served -/
example : ((stepR true fixed (runR true fixed (init 1000 false cfgAll) [.plain (.login 1 true)])
    (.cert 1 (.totp [some ⟨1, 2⟩] (some (1, 1000))))).2.cookies) = [⟨1, 576⟩] := by decide

/-- **Sites** (regenerated): every upgrade site names the user `checkAuth` (or the TOTP wrapper around it)
authenticated, and the re-signing helper refuses a cookie whose subject is anybody else before it signs. -/
theorem c05_cert_sites :
    upgradeSubjectChecked = true ∧
    upgradeUserArgs.all (fun s => s.2 == "authData.Username".toList || s.2 == "authUser".toList) = true ∧
    upgradeUserArgs.map (·.1) = upgradeSites.map (·.handler) := by
  decide

end KM.SessionCert
