import KM.Props.C04
import KM.Gen.GoJwt
/-! # C04 — the three verifiers of signed tokens as TRANSLATED from the current source (go2lean)

`getAuthInfoFromJWT`, `updateAuthJWTWithNewAuthLevel` and `getStorageDataFromStorageStringDataJWT` of
cmd/keymasterd/jwt.go, whole functions (`KM/Gen/GoJwt.lean`).  External and arbitrary: the deployment's algorithm
list, `jwt.ParseSigned`, `RuntimeState.JWTClaims` (the signature check: claims come out of it only), the issuer string,
the signer. -/
namespace KM.TokenGo
open KM.Token KM.GoTypes KM.Go

/-- the value test the three functions share, on decoded claims -/
def valuesOK (iss tt : (List Char)) (aud : List (List Char)) (nbf : Int) (issuer want : (List Char)) (now : Int) : Prop :=
  iss = issuer ∧ tt = want ∧ aud.head? = some issuer ∧ nbf ≤ now

theorem valuesBad_iff (iss tt : (List Char)) (aud : List (List Char)) (nbf : Int) (issuer want : (List Char)) (now : Int) :
    (((((iss != issuer) || (tt != want)) || (decide ((KM.Go.len aud) < (1 : Int)))) ||
      ((aud.headD []) != issuer)) || (decide (nbf > now))) = false ↔ valuesOK iss tt aud nbf issuer want now := by
  unfold valuesOK KM.Go.len
  cases aud with
  | nil => simp
  | cons a t =>
    simp only [List.length_cons, List.headD_cons, List.head?_cons, Option.some.injEq, Bool.or_eq_false_iff,
      bne_eq_false_iff_eq, decide_eq_false_iff_not, gt_iff_lt, Int.not_lt]
    constructor
    · rintro ⟨⟨⟨⟨h1, h2⟩, _⟩, h4⟩, h5⟩; exact ⟨h1, h2, h4, h5⟩
    · rintro ⟨h1, h2, h4, h5⟩; exact ⟨⟨⟨⟨h1, h2⟩, by omega⟩, h4⟩, h5⟩

/-- **a session cookie or CLI token is accepted exactly when** the deployment's algorithm list could be built, the
token parses under THAT list, the claims passed `JWTClaims` (the signature check against the deployment's keys), and
the claims name this issuer, the EXPECTED token type, this issuer as first audience and a not-before that has been
reached; what comes back is the subject, level, expiry and issue time of those verified claims — for every behaviour
of the externals.  In particular a token of another type (storage record, authorization code, access or ID token)
is refused whatever else it carries. -/
theorem c04_go_auth_accept (ext : JwtExt) (now : Int) (tok want : (List Char)) (info : authInfoZ) :
    KM.Gen.GoJwt.getAuthInfoFromJWT ext now tok want = (info, none) ↔
      ∃ algos t c, ext.verifierList = (algos, none) ∧ ext.parseSigned tok algos = (t, none) ∧
        ext.authClaims t = (c, none) ∧ valuesOK c.Issuer c.TokenType c.Audience c.NotBefore ext.issuer want now ∧
        info = ⟨c.Subject, c.AuthType, c.Expiration, c.IssuedAt⟩ := by
  obtain ⟨vl, ps, ac, sc, issuer, sa, ns, rs⟩ := ext
  unfold KM.Gen.GoJwt.getAuthInfoFromJWT
  dsimp only
  rcases vl with ⟨algos, _ | e⟩
  · rcases h2 : ps tok algos with ⟨t, _ | e⟩
    · rcases h3 : ac t with ⟨c, _ | e⟩
      · simp only [Option.isSome_none, Bool.false_eq_true, if_false]
        cases hb : (((((c.Issuer != issuer) || (c.TokenType != want)) || (decide ((KM.Go.len c.Audience) < (1 : Int)))) ||
          ((c.Audience.headD []) != issuer)) || (decide (c.NotBefore > now)))
        · simp only [Bool.false_eq_true, if_false]
          rw [valuesBad_iff] at hb
          constructor
          · intro h; cases h; exact ⟨algos, t, c, rfl, h2, h3, hb, rfl⟩
          · rintro ⟨a', t', c', h1', h2', h3', _, rfl⟩
            cases h1'; rw [h2] at h2'; cases h2'; rw [h3] at h3'; cases h3'; rfl
        · simp only [if_true]
          constructor
          · intro h; cases h
          · rintro ⟨a', t', c', h1', h2', h3', hv, _⟩
            cases h1'; rw [h2] at h2'; cases h2'; rw [h3] at h3'; cases h3'
            rw [← valuesBad_iff, hb] at hv; cases hv
      · simp only [Option.isSome_some, if_true]
        constructor
        · intro h; cases h
        · rintro ⟨a', t', c', h1', h2', h3', _, _⟩
          cases h1'; rw [h2] at h2'; cases h2'; rw [h3] at h3'; cases h3'
    · simp only [Option.isSome_some, Option.isSome_none, Bool.false_eq_true, if_false, if_true]
      constructor
      · intro h; cases h
      · rintro ⟨a', t', c', h1', h2', _, _, _⟩
        cases h1'; rw [h2] at h2'; cases h2'
  · simp only [Option.isSome_some, if_true]
    constructor
    · intro h; cases h
    · rintro ⟨a', t', c', h1', _, _, _, _⟩; cases h1'

/-- never outside its purpose: claims of any other token type are refused -/
theorem c04_go_auth_wrong_type (ext : JwtExt) (now : Int) (tok want : (List Char)) (algos t c)
    (h1 : ext.verifierList = (algos, none)) (h2 : ext.parseSigned tok algos = (t, none))
    (h3 : ext.authClaims t = (c, none)) (hty : c.TokenType ≠ want) :
    (KM.Gen.GoJwt.getAuthInfoFromJWT ext now tok want).2 ≠ none := by
  intro hn
  have : KM.Gen.GoJwt.getAuthInfoFromJWT ext now tok want = ((KM.Gen.GoJwt.getAuthInfoFromJWT ext now tok want).1, none) := by
    rw [← hn]
  rw [c04_go_auth_accept] at this
  obtain ⟨a', t', c', h1', h2', h3', hv, _⟩ := this
  rw [h1] at h1'; cases h1'; rw [h2] at h2'; cases h2'; rw [h3] at h3'; cases h3'
  exact hty hv.2.1

/-- **the cookie upgrade re-signs only a verified session cookie of the user who proved the factor**: a new cookie
comes out exactly when the signer could be set up, the incoming token parses under the deployment's algorithm list,
its claims passed the signature check, they are those of a SESSION token (`keymaster_auth`) of this issuer that is
already valid, AND its subject is the user the caller authenticated; the new cookie is the serialisation of the SAME
claims — same subject, same expiry, same not-before and issue time — with only the level replaced. -/
theorem c04_go_upgrade_accept (ext : JwtExt) (now : Int) (tok user : (List Char)) (lvl : Int) (out : (List Char)) :
    KM.Gen.GoJwt.updateAuthJWTWithNewAuthLevel ext now tok user lvl = (out, none) ↔
      ∃ sa algos sg t c, ext.signerAlgo = (sa, none) ∧ ext.verifierList = (algos, none) ∧ ext.newSigner = (sg, none) ∧
        ext.parseSigned tok algos = (t, none) ∧ ext.authClaims t = (c, none) ∧
        valuesOK c.Issuer c.TokenType c.Audience c.NotBefore ext.issuer "keymaster_auth".toList now ∧
        c.Subject = user ∧ ext.resign { c with AuthType := lvl } = (out, none) := by
  obtain ⟨vl, ps, ac, sc, issuer, sa, ns, rs⟩ := ext
  unfold KM.Gen.GoJwt.updateAuthJWTWithNewAuthLevel
  dsimp only
  rcases sa with ⟨sa, _ | e⟩
  · rcases vl with ⟨algos, _ | e⟩
    · rcases ns with ⟨sg, _ | e⟩
      · rcases h2 : ps tok algos with ⟨t, _ | e⟩
        · rcases h3 : ac t with ⟨c, _ | e⟩
          · simp only [Option.isSome_none, Bool.false_eq_true, if_false]
            cases hb : (((((c.Issuer != issuer) || (c.TokenType != "keymaster_auth".toList)) ||
                (decide ((KM.Go.len c.Audience) < (1 : Int)))) ||
                ((c.Audience.headD []) != issuer)) || (decide (c.NotBefore > now)))
            · simp only [Bool.false_eq_true, if_false]
              rw [valuesBad_iff] at hb
              by_cases hu : c.Subject = user
              · have hne : (c.Subject != user) = false := by simp [hu]
                simp only [hne, Bool.false_eq_true, if_false]
                constructor
                · intro h; exact ⟨sa, algos, sg, t, c, rfl, rfl, rfl, h2, h3, hb, hu, h⟩
                · rintro ⟨_, a', _, t', c', _, h1', _, h2', h3', _, _, hr⟩
                  cases h1'; rw [h2] at h2'; cases h2'; rw [h3] at h3'; cases h3'; exact hr
              · have hne : (c.Subject != user) = true := by simp [hu]
                simp only [hne, if_true]
                constructor
                · intro h; cases h
                · rintro ⟨_, a', _, t', c', _, h1', _, h2', h3', _, hu', _⟩
                  cases h1'; rw [h2] at h2'; cases h2'; rw [h3] at h3'; cases h3'; exact absurd hu' hu
            · simp only [if_true]
              constructor
              · intro h; cases h
              · rintro ⟨_, a', _, t', c', _, h1', _, h2', h3', hv, _, _⟩
                cases h1'; rw [h2] at h2'; cases h2'; rw [h3] at h3'; cases h3'
                rw [← valuesBad_iff, hb] at hv; cases hv
          · simp only [Option.isSome_some, Option.isSome_none, Bool.false_eq_true, if_false, if_true]
            constructor
            · intro h; cases h
            · rintro ⟨_, a', _, t', c', _, h1', _, h2', h3', _, _, _⟩
              cases h1'; rw [h2] at h2'; cases h2'; rw [h3] at h3'; cases h3'
        · simp only [Option.isSome_some, Option.isSome_none, Bool.false_eq_true, if_false, if_true]
          constructor
          · intro h; cases h
          · rintro ⟨_, a', _, t', c', _, h1', _, h2', _, _, _, _⟩
            cases h1'; rw [h2] at h2'; cases h2'
      · simp only [Option.isSome_some, Option.isSome_none, Bool.false_eq_true, if_false, if_true]
        constructor
        · intro h; cases h
        · rintro ⟨_, _, _, _, _, _, _, h', _, _, _, _, _⟩; cases h'
    · simp only [Option.isSome_some, Option.isSome_none, Bool.false_eq_true, if_false, if_true]
      constructor
      · intro h; cases h
      · rintro ⟨_, _, _, _, _, _, h', _, _, _, _, _, _⟩; cases h'
  · simp only [Option.isSome_some, if_true]
    constructor
    · intro h; cases h
    · rintro ⟨_, _, _, _, _, h', _, _, _, _, _, _, _⟩; cases h'

/-- **a stored signed record is accepted exactly when** it parses under the deployment's algorithm list, passed the
signature check, and is a `storage_data` token of this issuer that is already valid; the record handed back is the
verified claims themselves. -/
theorem c04_go_storage_accept (ext : JwtExt) (now : Int) (tok : (List Char)) (r : storageStringDataJWT) :
    KM.Gen.GoJwt.getStorageDataFromStorageStringDataJWT ext now tok = (r, none) ↔
      ∃ algos t, ext.verifierList = (algos, none) ∧ ext.parseSigned tok algos = (t, none) ∧
        ext.storageClaims t = (r, none) ∧
        valuesOK r.Issuer r.TokenType r.Audience r.NotBefore ext.issuer "storage_data".toList now := by
  obtain ⟨vl, ps, ac, sc, issuer, sa, ns, rs⟩ := ext
  unfold KM.Gen.GoJwt.getStorageDataFromStorageStringDataJWT
  dsimp only
  rcases vl with ⟨algos, _ | e⟩
  · rcases h2 : ps tok algos with ⟨t, _ | e⟩
    · rcases h3 : sc t with ⟨c, _ | e⟩
      · simp only [Option.isSome_none, Bool.false_eq_true, if_false]
        cases hb : (((((c.Issuer != issuer) || (c.TokenType != "storage_data".toList)) ||
            (decide ((KM.Go.len c.Audience) < (1 : Int)))) ||
            ((c.Audience.headD []) != issuer)) || (decide (c.NotBefore > now)))
        · simp only [Bool.false_eq_true, if_false]
          rw [valuesBad_iff] at hb
          constructor
          · intro h; cases h; exact ⟨algos, t, rfl, h2, h3, hb⟩
          · rintro ⟨a', t', h1', h2', h3', _⟩
            cases h1'; rw [h2] at h2'; cases h2'; rw [h3] at h3'; cases h3'; rfl
        · simp only [if_true]
          constructor
          · intro h; cases h
          · rintro ⟨a', t', h1', h2', h3', hv⟩
            cases h1'; rw [h2] at h2'; cases h2'; rw [h3] at h3'; cases h3'
            rw [← valuesBad_iff, hb] at hv; cases hv
      · simp only [Option.isSome_some, if_true]
        constructor
        · intro h; cases h
        · rintro ⟨a', t', h1', h2', h3', _⟩
          cases h1'; rw [h2] at h2'; cases h2'; rw [h3] at h3'; cases h3'
    · simp only [Option.isSome_some, Option.isSome_none, Bool.false_eq_true, if_false, if_true]
      constructor
      · intro h; cases h
      · rintro ⟨a', t', h1', h2', _, _⟩
        cases h1'; rw [h2] at h2'; cases h2'
  · simp only [Option.isSome_some, if_true]
    constructor
    · intro h; cases h
    · rintro ⟨a', t', h1', _, _, _⟩; cases h1'

/-- the claims of the model's wire format as the Go struct -/
def toGo (c : AuthClaims) : authInfoJWT :=
  ⟨c.iss, c.sub, c.aud, c.exp, c.nbf, c.iat, c.tokenType, c.authType⟩

/-- **the translated value test is the model's** (`authValuesBad`, the function `c04_sound`, `c04_matrix` and the
differential runs are about): on the claims the JSON decoder yields for a wire token, the Go test accepts exactly
when the model's does -/
theorem c04_go_values_model (d : Deployment) (now : Clock) (want : (List Char)) (w : Wire) :
    valuesOK (toGo (decodeAuth w)).Issuer (toGo (decodeAuth w)).TokenType (toGo (decodeAuth w)).Audience
      (toGo (decodeAuth w)).NotBefore d.issuer want now.sec ↔ authValuesBad d now want w = false := by
  unfold valuesOK authValuesBad toGo decodeAuth
  simp only [Bool.or_eq_false_iff, bne_eq_false_iff_eq, decide_eq_false_iff_not, gt_iff_lt, Int.not_lt, Nat.not_lt]
  constructor
  · rintro ⟨h1, h2, h3, h4⟩
    refine ⟨⟨⟨⟨h1, h2⟩, ?_⟩, h3⟩, h4⟩
    cases h : gStrs w .aud with
    | nil => rw [h] at h3; cases h3
    | cons a t => simp
  · rintro ⟨⟨⟨⟨h1, h2⟩, _⟩, h3⟩, h4⟩
    exact ⟨h1, h2, h3, h4⟩

/-- the translations run: a storage record presented as a cookie is refused, the cookie itself is accepted -/
example :
    let ext : JwtExt := ⟨([1], none), fun _ _ => (7, none),
      fun _ => (⟨"iss".toList, "alice".toList, ["iss".toList], 100, 0, 0, "keymaster_auth".toList, 1⟩, none),
      fun _ => (default, none), "iss".toList, (0, none), (0, none), fun _ => ([], none)⟩
    (KM.Gen.GoJwt.getAuthInfoFromJWT ext 50 "x".toList "keymaster_auth".toList).2 = none ∧
    (KM.Gen.GoJwt.getAuthInfoFromJWT ext 50 "x".toList "storage_data".toList).2 ≠ none := by decide

end KM.TokenGo
