/-! # C18 — property theorems (stub: not built yet) -/
