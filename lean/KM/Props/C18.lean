import KM.Lemmas.Html
import KM.Gen.C18
/-! # C18 — request-controlled text is never rendered as markup

Property theorems only.  `esc`/`escT` mirror Go's `html.EscapeString` /
`template.HTMLEscapeString`, `unescape` decodes the five references they emit,
`tokenizeStartTag` is the WHATWG start-tag tokenizer (after newline normalisation),
`loginInput` is the raw `<INPUT … VALUE="…">` field the login and 2FA pages inject as
`template.HTML`.  The tables `KM.Gen.*` are regenerated from cmd/keymasterd on every run.

Ordinary `{{.Field}}` interpolations rely on html/template's contextual auto-escaping, which is
trusted base (exercised by the harness); what is proved here is everything that *bypasses* it. -/
namespace KM.Html

/-! ## the escapers -/

theorem escWith_inert (fn : EscFn) (s : List Char) :
    '"' ∉ escWith fn s ∧ '<' ∉ escWith fn s ∧ '>' ∉ escWith fn s ∧ '\'' ∉ escWith fn s := by
  have key : ∀ x : List Char, '"' ∉ esc x ∧ '<' ∉ esc x ∧ '>' ∉ esc x ∧ '\'' ∉ esc x := fun x =>
    ⟨fun h => (esc_inert x _ h).1 rfl, fun h => (esc_inert x _ h).2.1 rfl,
     fun h => (esc_inert x _ h).2.2.1 rfl, fun h => (esc_inert x _ h).2.2.2 rfl⟩
  cases fn
  · exact key s
  · exact key _

/-- **Escaping is inert**: for every string, the output of `html.EscapeString` contains no
double quote, no angle bracket and no single quote — nothing that can end an attribute value or
open a tag. -/
theorem c18_esc_inert (s : List Char) :
    '"' ∉ esc s ∧ '<' ∉ esc s ∧ '>' ∉ esc s ∧ '\'' ∉ esc s :=
  escWith_inert .htmlEscapeString s

/-- the same for `html/template.HTMLEscapeString` -/
theorem c18_escT_inert (s : List Char) :
    '"' ∉ escT s ∧ '<' ∉ escT s ∧ '>' ∉ escT s ∧ '\'' ∉ escT s :=
  escWith_inert .templateHTMLEscapeString s

/-- **Round trip**: decoding the five references gives the original text back, for every
string — including text that already looks like a reference (`&amp;` escapes to `&amp;amp;`
and decodes to `&amp;`; see the `example` below).  The converse (`esc (unescape s) = s`) is
false and not needed. -/
theorem c18_esc_roundtrip (s : List Char) : unescape (esc s) = s := unescape_esc s

/-- `HTMLEscapeString` round-trips up to its own NUL ↦ U+FFFD replacement -/
theorem c18_escT_roundtrip (s : List Char) : unescape (escT s) = s.map nulRepl :=
  unescape_esc _

theorem escWith_roundtrip (fn : EscFn) (s : List Char) :
    unescape (escWith fn s) = preEsc fn s := by
  cases fn
  · exact unescape_esc s
  · exact unescape_esc _

example : esc "&amp;\"<x>'".toList = "&amp;amp;&#34;&lt;x&gt;&#39;".toList := by decide
example : unescape "&amp;amp;&#34;&lt;x&gt;&#39;".toList = "&amp;\"<x>'".toList := by decide
/-- the converse direction really fails -/
example : esc (unescape "&quot;&amp;".toList) ≠ "&quot;&amp;".toList := by decide

/-! ## the double-quoted attribute value state -/

/-- **A quote-free string cannot leave a double-quoted attribute value**: in that tokenizer
state, whatever quote-free text `v` is read, the tokenizer continues on the following input
`t` in the same state with `v` added to the current attribute's value — `v` contributes no
attribute boundary, no tag end and no new tag. -/
theorem c18_dq_inert (s : St) (hm : s.mode = .valueDQ) (v t : List Char) (hv : '"' ∉ v) :
    run s (v ++ t) = run (s.addValues v) t ∧ (s.addValues v).mode = .valueDQ ∧
      eraseSt (s.addValues v) = eraseSt s :=
  ⟨run_dq s hm v t hv, (addValues_mode s v).trans hm, eraseSt_addValues s v⟩

/-! ## the login-destination field -/

/-- tokenizer state after the constant text in front of the destination -/
def stAfterInputPrefix : St :=
  ⟨.valueDQ, "tupni".toList,
   [⟨"eulav".toList, []⟩, ⟨"eman".toList, "noitanitsed_nigol".toList⟩,
    ⟨"di".toList, "tupni_noitanitsed_nigol".toList⟩, ⟨"epyt".toList, "neddih".toList⟩]⟩

theorem stateAfter_inputPrefix : stateAfter inputPrefix = some stAfterInputPrefix := by decide

/-- any quote-free raw text `v` between the constant parts tokenizes to exactly the hidden
input, with `v` (as the browser reads it) as value and nothing left over -/
theorem inputTag_tokenize (v : List Char) (hv : '"' ∉ v) :
    tokenizeStartTag (inputTag v) = some (loginTag ((normNewlines v).map nulRepl), []) := by
  unfold tokenizeStartTag normNewlines inputTag
  have hp : noNl inputPrefix = true := by decide
  have hq : noNl inputSuffix = true := by decide
  rw [List.append_assoc, nn_noNl_append _ _ hp, nn_append_noNl false v _ hq,
    tokenizeRaw_append _ stateAfter_inputPrefix,
    run_dq _ rfl _ _ (nn_quote_free hv),
    addValues_attrs stAfterInputPrefix _ _ _ rfl]
  simp [inputSuffix, run, step, St.to, stepBeforeName, finish, unrev, loginTag, stAfterInputPrefix,
    isWs]

theorem tokenizeInput_of_tag (l v rest : List Char)
    (h : tokenizeStartTag l = some (loginTag v, rest)) : tokenizeInput l = some (v, rest) := by
  unfold tokenizeInput
  rw [h]
  simp [loginTag]

/-- **The INPUT built from any destination is one inert tag.**  For every destination string
`dest`, every URL normalisation `norm` (what `ensureHTMLSafeLoginDestination` does is a
parameter: the statement holds whatever it returns) and either escaper, the field
`<INPUT TYPE="hidden" id=… NAME="login_destination" VALUE="` ++ escaped ++ `">` is read by an
HTML5 tokenizer as exactly one start tag `input` with exactly the four attributes
`type, id, name, value` carrying the three constant values, **nothing is left over after the
tag**, and the value decodes to the destination as a browser sees it.  No attribute boundary
and no element can originate from `dest`. -/
theorem c18_input (fn : EscFn) (norm : List Char → List Char) (dest : List Char) :
    ∃ v, tokenizeStartTag (loginInput fn norm dest) = some (loginTag v, []) ∧
      tokenizeInput (loginInput fn norm dest) = some (v, []) ∧
      unescape v = browserView (preEsc fn (norm dest)) := by
  have hq := (escWith_inert fn (norm dest)).1
  have ht := inputTag_tokenize _ hq
  refine ⟨_, ht, tokenizeInput_of_tag _ _ _ ht, ?_⟩
  have he : escWith fn (norm dest) = esc (preEsc fn (norm dest)) := by cases fn <;> rfl
  unfold browserView normNewlines
  rw [he, nn_esc, map_nulRepl_esc, unescape_esc]

/-- the predicate the judge evaluates on every field the real handlers emitted -/
theorem c18_input_ok (fn : EscFn) (norm : List Char → List Char) (dest : List Char) :
    inputOK (loginInput fn norm dest) (preEsc fn (norm dest)) = true := by
  obtain ⟨v, _, h2, h3⟩ := c18_input fn norm dest
  unfold inputOK
  rw [h2]
  simp [h3]

/-- **Exact round trip**: when the normalised destination contains neither CR nor NUL (both are
rejected by `url.Parse` and by the destination filter of C17), the browser submits back exactly
the string the server put in — with `html.EscapeString` as the escaper. -/
theorem c18_input_exact (norm : List Char → List Char) (dest : List Char)
    (h1 : '\r' ∉ norm dest) (h2 : '\x00' ∉ norm dest) :
    ∃ v, tokenizeInput (loginInput .htmlEscapeString norm dest) = some (v, []) ∧
      unescape v = norm dest := by
  obtain ⟨v, _, hv, hu⟩ := c18_input .htmlEscapeString norm dest
  exact ⟨v, hv, by rw [hu]; exact browserView_id _ h1 h2⟩

/-- non-vacuity / sanity: a hostile destination, as the repaired code renders it -/
example :
    tokenizeInput (loginInput .htmlEscapeString id "/x?a=\"><script>alert(1)</script>".toList) =
      some ("/x?a=&#34;&gt;&lt;script&gt;alert(1)&lt;/script&gt;".toList, []) := by decide
example : inputOK (loginInput .htmlEscapeString id "/x?a=\"><script>alert(1)</script>".toList)
    "/x?a=\"><script>alert(1)</script>".toList = true := by decide

/-- **The pinned tree was not safe**: without escaping, the query part of a destination that
passes every filter (`/x?a="><script>alert(1)</script>`, kept verbatim by
`url.Parse(..).String()`) ends the VALUE attribute and the tag, and an element follows; a
second input shows injected attributes (`onfocus`, `autofocus`) inside the tag itself. -/
theorem c18_unfixed_counterexample :
    tokenizeStartTag (loginInputOld id "/x?a=\"><script>alert(1)</script>".toList) =
      some (loginTag "/x?a=".toList, "<script>alert(1)</script>\">".toList) ∧
    tokenizeRaw "<script>alert(1)</script>\">".toList =
      some (⟨"script".toList, [], false⟩, "alert(1)</script>\">".toList) ∧
    inputOK (loginInputOld id "/x?a=\"><script>alert(1)</script>".toList)
      "/x?a=\"><script>alert(1)</script>".toList = false ∧
    (tokenizeStartTag (loginInputOld id "/x?a=\" onfocus=\"alert(1)\" autofocus=\"".toList)).map
        (fun p => p.1.attrs.map (·.name)) =
      some ["type".toList, "id".toList, "name".toList, "value".toList, "onfocus".toList,
        "autofocus".toList] := by
  decide

/-! ## base64 -/

theorem b64char_mem (n : Nat) : b64char n ∈ b64alphabet ∨ b64char n = '=' := by
  unfold b64char
  rw [List.getD_eq_getElem?_getD]
  cases h : b64alphabet[n]? with
  | none => right; rfl
  | some c => left; exact List.mem_of_getElem? h

/-- **base64 is inert**: for every byte string, `base64.StdEncoding.EncodeToString` emits only
letters, digits, `+`, `/` and `=` — no quote, angle bracket or ampersand. -/
theorem c18_base64_inert (bs : List UInt8) :
    ∀ c ∈ b64 bs, c ≠ '"' ∧ c ≠ '<' ∧ c ≠ '>' ∧ c ≠ '&' ∧ c ≠ '\'' := by
  have hal : ∀ c, (c ∈ b64alphabet ∨ c = '=') → c ≠ '"' ∧ c ≠ '<' ∧ c ≠ '>' ∧ c ≠ '&' ∧ c ≠ '\'' := by
    intro c hc
    rcases hc with hc | hc
    · refine ⟨?_, ?_, ?_, ?_, ?_⟩ <;> (intro e; subst e; revert hc; decide)
    · subst hc; decide
  induction bs using b64.induct with
  | case1 => intro c hc; cases hc
  | case2 a =>
    intro c hc
    simp only [b64, List.mem_cons, List.not_mem_nil, or_false] at hc
    rcases hc with h | h | h | h <;> subst h
    · exact hal _ (b64char_mem _)
    · exact hal _ (b64char_mem _)
    · decide
    · decide
  | case3 a b =>
    intro c hc
    simp only [b64, List.mem_cons, List.not_mem_nil, or_false] at hc
    rcases hc with h | h | h | h <;> subst h
    · exact hal _ (b64char_mem _)
    · exact hal _ (b64char_mem _)
    · exact hal _ (b64char_mem _)
    · decide
  | case4 a b c' rest ih =>
    intro c hc
    simp only [b64, List.mem_cons] at hc
    rcases hc with h | h | h | h | h
    · subst h; exact hal _ (b64char_mem _)
    · subst h; exact hal _ (b64char_mem _)
    · subst h; exact hal _ (b64char_mem _)
    · subst h; exact hal _ (b64char_mem _)
    · exact ih c h

example : b64 [0x4d, 0x61, 0x6e, 0x4d] = "TWFuTQ==".toList := by decide

/-! ## every raw-HTML conversion of the current source tree (regenerated tables) -/

/-- what a dynamic operand of a given class can evaluate to -/
def operandValue : Operand → List Char → Prop
  | .escaped fn, v => ∃ x, v = escWith fn x
  | .base64Std, v => ∃ bs, v = b64 bs
  | _, _ => False

def operandInert : Operand → Bool
  | .escaped _ | .base64Std => true
  | _ => false

/-- a conversion site is acceptable when it is `template.HTML(constant + operand + constant)`,
the operand is escaped or base64, the first constant leaves the tokenizer inside a
double-quoted attribute value and the constants alone form exactly one tag -/
def siteOK (s : RawSite) : Bool :=
  s.kind == .html &&
  match s.operands with
  | [.lit p, d, .lit q] =>
    operandInert d && noNl p && noNl q &&
    ((stateAfter p).map (·.mode) == some .valueDQ) &&
    ((tokenizeStartTag (p ++ q)).map (·.2) == some [])
  | _ => false

/-- **General site theorem**: at an acceptable site, for *every* value the dynamic operand can
take, the emitted fragment is exactly one start tag with nothing after it, and its structure
(tag name, attribute names, order) is the one of the constants alone. -/
theorem c18_site_inert (s : RawSite) (hs : siteOK s = true) :
    ∃ p d q, s.operands = [.lit p, d, .lit q] ∧
      ∀ v, operandValue d v →
        ∃ tag, tokenizeStartTag (p ++ v ++ q) = some (tag, []) ∧
          eraseOut (tokenizeStartTag (p ++ v ++ q)) = eraseOut (tokenizeStartTag (p ++ q)) := by
  unfold siteOK at hs
  simp only [Bool.and_eq_true] at hs
  obtain ⟨_, hs⟩ := hs
  split at hs
  · rename_i ops p d q heq
    simp only [Bool.and_eq_true, beq_iff_eq] at hs
    obtain ⟨⟨⟨⟨hd, hp⟩, hq⟩, hst⟩, hone⟩ := hs
    refine ⟨p, d, q, heq, ?_⟩
    intro v hv
    have hquote : '"' ∉ v := by
      cases d with
      | escaped fn => obtain ⟨x, hx⟩ := hv; subst hx; exact (escWith_inert fn x).1
      | base64Std =>
        obtain ⟨bs, hx⟩ := hv; subst hx
        exact fun h => (c18_base64_inert bs _ h).1 rfl
      | lit _ => cases hv
      | urlNormalised => cases hv
      | unknown => cases hv
    cases hsa : stateAfter p with
    | none => rw [hsa] at hst; cases hst
    | some st =>
      rw [hsa] at hst
      simp only [Option.map_some, Option.some.injEq] at hst
      have key := site_structure p q v st hp hq hsa hst hquote
      cases h0 : tokenizeStartTag (p ++ q) with
      | none => rw [h0] at hone; cases hone
      | some pr =>
        rw [h0] at hone
        simp only [Option.map_some, Option.some.injEq] at hone
        cases h1 : tokenizeStartTag (p ++ v ++ q) with
        | none => rw [h0, h1] at key; cases key
        | some pr1 =>
          have key' := key
          rw [h0, h1] at key'
          simp only [eraseOut, Option.map_some, Option.some.injEq, Prod.mk.injEq] at key'
          refine ⟨pr1.1, ?_, ?_⟩
          · have h2 : pr1.2 = [] := key'.2.trans hone
            rw [← h2]
          · rw [← h1, ← h0]; exact key
  · cases hs

def isLoginInputSite (s : RawSite) : Bool :=
  match s.operands with
  | [.lit p, .escaped _, .lit q] => p == inputPrefix && q == inputSuffix
  | _ => false

/-- **Raw sites**: every `template.HTML/JS/URL/HTMLAttr/CSS/JSStr/Srcset(...)` conversion in
cmd/keymasterd is an acceptable site (so `c18_site_inert` applies to each: no operand is
unescaped request data); the two page builders use exactly the field modelled by `c18_input`. -/
theorem c18_raw_sites :
    KM.Gen.rawHtmlSites.all siteOK = true ∧
    (KM.Gen.rawHtmlSites.filter (fun s => s.func == "writeHTMLLoginPage".toList)).map isLoginInputSite
      = [true] ∧
    (KM.Gen.rawHtmlSites.filter (fun s => s.func == "writeHTML2FAAuthPage".toList)).map isLoginInputSite
      = [true] := by
  decide

/-- **Bypass fields**: the struct fields whose type escapes html/template's auto-escaping are
exactly the three known ones, each is only ever filled directly by one of the conversions
above, the safe types are mentioned nowhere else, no custom template function exists, and every
template written to a ResponseWriter is executed on the html/template set. -/
theorem c18_bypass_fields :
    KM.Gen.safeFields =
      [⟨"loginPageTemplateData".toList, "LoginDestinationInput".toList, .html⟩,
       ⟨"secondFactorAuthTemplateData".toList, "LoginDestinationInput".toList, .html⟩,
       ⟨"newTOTPPageTemplateData".toList, "TOTPBase64Image".toList, .html⟩] ∧
    KM.Gen.safeFieldWrites.all (·.direct) = true ∧
    KM.Gen.safeFieldWrites.length = KM.Gen.rawHtmlSites.length ∧
    KM.Gen.otherSafeTypeUses.length = 0 ∧
    KM.Gen.templateFuncsCalls = 0 ∧
    KM.Gen.htmlTemplateFieldIsHtmlTemplate = true ∧
    (KM.Gen.execSites.filter (·.toResponse)).all (·.onHtmlTemplate) = true ∧
    (KM.Gen.execSites.filter (·.toResponse)).length ≥ 8 := by
  decide

/-- **End to end over the table**: every raw-HTML conversion of the tree, for every value its
operand can take, yields exactly one start tag followed by nothing. -/
theorem c18_all_sites_single_tag :
    ∀ s ∈ KM.Gen.rawHtmlSites, ∃ p d q, s.operands = [.lit p, d, .lit q] ∧
      ∀ v, operandValue d v → ∃ tag, tokenizeStartTag (p ++ v ++ q) = some (tag, []) := by
  intro s hs
  have hok : siteOK s = true := by
    have := c18_raw_sites.1
    rw [List.all_eq_true] at this
    exact this s hs
  obtain ⟨p, d, q, ho, h⟩ := c18_site_inert s hok
  exact ⟨p, d, q, ho, fun v hv => (h v hv).imp fun _ ht => ht.1⟩

/-! ## plain-text failure responses (round 2) -/

/-- **The plain failure body is never a markup document.**  For every status code, status text
and message — the message may echo request input verbatim — the body
`"<code> <status> <message>\n"` that `writeFailureResponse` writes without a Content-Type does
not start (after optional white space) with `<`, so neither `net/http.DetectContentType` nor a
sniffing browser can take it for HTML or XML; whatever markup the message contains stays text:
the property's predicate `responseOK` holds for any number of canary elements in the body. -/
theorem c18_failure_text_inert (code : Nat) (status msg : List Char) (canaryElems canaryAttrs : Nat) :
    sniffMayBeMarkup (failureText code status msg) = false ∧
    isMarkupResponse none (failureText code status msg) = false ∧
    responseOK none (failureText code status msg) canaryElems canaryAttrs = true := by
  have h := failureText_not_markup code status msg
  refine ⟨h, ?_, ?_⟩
  · simp [isMarkupResponse, h]
  · simp [responseOK, isMarkupResponse, h]

/-- the same body under an explicit non-markup label (what `http.Error` does: `text/plain` +
`nosniff`) -/
theorem c18_labelled_text_inert (ct body : List Char) (h0 : mediaType ct ≠ [])
    (h : markupMedia (mediaType ct) = false) (canaryElems canaryAttrs : Nat) :
    responseOK (some ct) body canaryElems canaryAttrs = true := by
  simp [responseOK, isMarkupResponse, h0, h]

/-- an explicit Content-Type is acceptable when it is a constant (or a local that only holds
constants) and either names no markup type or sits in a function that writes nothing but
template output to the response -/
def ctSetOK (s : CTSet) : Bool :=
  match s.values with
  | none => false
  | some vs => vs.all (fun v => !markupMedia (mediaType v)) || !s.rawWriter

/-- **Content types** (regenerated table): no handler of cmd/keymasterd that writes raw bytes
labels its response as a markup type, no Content-Type is computed from data, and the failure
body has the format modelled by `failureText` — so HTML documents only arise from html/template
output (sniffed from its `<!DOCTYPE html>`), never from the plain failure text. -/
theorem c18_content_types :
    KM.Gen.contentTypeSets.all ctSetOK = true ∧
    KM.Gen.failureTextFormat = "%d %s %s\n".toList := by
  decide

example : isMarkupResponse (some "text/html; charset=utf-8".toList) "400 Bad Request <img>".toList = true := by
  decide
example : isMarkupResponse (some "text/plain; charset=utf-8".toList) "<img>".toList = false := by decide
example : responseOK (some " Text/HTML;x".toList) [] 1 0 = false := by decide
example : failureText 400 "Bad Request".toList "invalid netblock <img src=x>".toList =
    "400 Bad Request invalid netblock <img src=x>\n".toList := by decide

/-! ## round 3: the redirect body, and why an unescaped operand is never acceptable -/

/-- constant parts of the body `net/http.Redirect` writes for GET/HEAD requests:
`"<a href=\"" + htmlEscape(url) + "\">" + StatusText(code) + "</a>.\n"` (up to the final
newline); `htmlEscape` uses the same five replacements as `html.EscapeString` -/
def redirectPrefix : List Char := "<a href=\"".toList
def redirectSuffix : List Char := "\">Found</a>.".toList

/-- **The redirect page of the OpenID Connect authorization endpoint is inert.**  The
redirect_uri (any path below an allowed domain), the code and the state all travel in the URL
handed to `http.Redirect`; for *every* URL the body is one `a` start tag with the single
attribute `href`, followed by the constant text — the structure never depends on the URL. -/
theorem c18_redirect_body (u : List Char) :
    eraseOut (tokenizeStartTag (redirectPrefix ++ esc u ++ redirectSuffix)) =
      some (⟨"a".toList, [⟨"href".toList, []⟩], false⟩, "Found</a>.".toList) := by
  have hst : stateAfter redirectPrefix =
      some ⟨.valueDQ, "a".toList, [⟨"ferh".toList, []⟩]⟩ := by decide
  rw [site_structure redirectPrefix redirectSuffix (esc u) _ (by decide) (by decide) hst rfl
    (c18_esc_inert u).1]
  decide

/-- **An unescaped operand is never acceptable, whatever vetted it**: a URL that passes every
check of `CanRedirectToURL` (https, allowed host, no query, no `..`) but is placed raw in a
double-quoted attribute adds attributes of its own (hand-written `action="%s"`), and Go's `%q`
quoting is no substitute for HTML escaping: it leaves `<` and `>` alone and turns `"` into `\"`,
which still ends the attribute value. -/
theorem c18_unescaped_operand_counterexample :
    (tokenizeStartTag "<form method=\"post\" action=\"https://app.example.com/cb\" onfocus=\"x\">".toList).map
        (fun p => p.1.attrs.map (·.name)) =
      some ["method".toList, "action".toList, "onfocus".toList] ∧
    (tokenizeStartTag "<small title=\"CA \\\"><img src=x>\">".toList).map (fun p => p.2) =
      some "<img src=x>\">".toList := by
  decide

end KM.Html
