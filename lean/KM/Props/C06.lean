import KM.Gen.Pins
import KM.Lemmas.Auth
import KM.Gen.Routes
import KM.Model.Routes
import KM.Gen.GoAuth
/-! # C06 — no protected effect without a valid credential the endpoint accepts

`checkAuth` is `KM.Auth.checkAuth` (repaired code); `Established` says the identity and
every factor bit of the returned `authInfo` are backed by a credential in the request. -/
namespace KM.Auth
open KM.Gen KM.Site

theorem tlsFinish_ret {m : Nat} {acc : TlsAcc} {info : AuthInfo}
    (h : tlsFinish fixed m acc = .ret info) :
    acc.user ≠ "" ∧ hasBit acc.authType m = true ∧ info.user = acc.user ∧
      info.authType = acc.authType ∧ info.issuedAt = acc.issuedAt := by
  unfold tlsFinish at h
  split at h
  · rename_i hc
    injection h with h
    subst h
    simp only [fixed, Bool.not_true, Bool.false_or, Bool.and_eq_true, bne_iff_ne, ne_eq] at hc
    exact ⟨hc.1, hc.2, rfl, rfl, rfl⟩
  · cases h

theorem tlsStart_user {cfg : Cfg} {chains : List Chain}
    (h : (tlsStart fixed cfg chains).user ≠ "") :
    (tlsStart fixed cfg chains).authType = authTypeKeymasterX509 ∧
    ∃ leaf signer rest, (leaf :: signer :: rest) ∈ chains ∧ leaf.cn = (tlsStart fixed cfg chains).user ∧
      leaf.ipRestricted = false ∧ cfg.deniedKeys.contains leaf.keyId = false ∧
      cfg.keymasterKeys.contains signer.keyId = true := by
  unfold tlsStart at h ⊢
  split at h
  · rename_i u nb hk
    split at h
    · rename_i hu
      simp only [hu, if_true]
      obtain ⟨leaf, signer, rest, hm, h1, _, h3, h4, h5⟩ := keymasterSigned_user hk
      exact ⟨by first | rfl | trivial, leaf, signer, rest, hm, h1, h3, h4, h5⟩
    · exact absurd rfl h
  · exact absurd rfl h

/-- the certificate branch only ever returns identities that a certificate in the request backs,
and only of a kind the caller asked for -/
theorem tlsBranch_sound {cfg : Cfg} {req : Req} {m : Nat} {info : AuthInfo}
    (h : tlsBranch fixed cfg req m = .ret info) :
    hasBit info.authType m = true ∧
    ((info.authType = authTypeKeymasterX509 ∧ kmCertValid cfg req info.user) ∨
     (info.authType = authTypeIPCertificate ∧ ipCertValid cfg req info.user) ∨
     (info.authType = authTypeKeymasterX509 ||| authTypeIPCertificate ∧
        ipCertValid cfg req info.user ∧ ∃ u', u' ≠ "" ∧ kmCertValid cfg req u')) := by
  unfold tlsBranch at h
  split at h
  · cases h
  · rename_i hg
    have htls : req.tls = true := by
      simp only [Bool.not_eq_true', Bool.and_eq_false_iff, not_or] at hg
      simpa using hg.2
    split at h
    · cases h
    · -- shared: finishing with the keymaster-signed accumulator
      have kmCase : ∀ {info}, tlsFinish fixed m (tlsStart fixed cfg req.chains) = .ret info →
          hasBit info.authType m = true ∧ info.authType = authTypeKeymasterX509 ∧
            kmCertValid cfg req info.user := by
        intro info hf
        obtain ⟨hu, hb, e1, e2, _⟩ := tlsFinish_ret hf
        obtain ⟨ht, leaf, signer, rest, hm, h1, h3, h4, h5⟩ := tlsStart_user hu
        refine ⟨by rw [e2]; exact hb, by rw [e2, ht], htls, leaf, signer, rest, hm, ?_, h3, h4, h5⟩
        rw [e1]; exact h1
      split at h
      · obtain ⟨a, b, c⟩ := kmCase h
        exact ⟨a, Or.inl ⟨b, c⟩⟩
      · split at h
        · cases h
        · split at h
          · cases h
          · obtain ⟨a, b, c⟩ := kmCase h
            exact ⟨a, Or.inl ⟨b, c⟩⟩
        · split at h
          · cases h
          · obtain ⟨a, b, c⟩ := kmCase h
            exact ⟨a, Or.inl ⟨b, c⟩⟩
        · rename_i u hip
          obtain ⟨hu, hb, e1, e2, _⟩ := tlsFinish_ret h
          simp only at e1 e2 hb hu
          obtain ⟨leaf, rest, more, hc, h1, h2, h3, h4, h5⟩ := ipRestricted_user hip
          have hipv : ipCertValid cfg req info.user := by
            rw [e1]
            exact ⟨htls, leaf, rest, more, hc, h1, h2, h3, h4, h5⟩
          refine ⟨by rw [e2]; exact hb, ?_⟩
          by_cases hs : (tlsStart fixed cfg req.chains).user = ""
          · right; left
            refine ⟨?_, hipv⟩
            rw [e2]
            have : (tlsStart fixed cfg req.chains).authType = 0 := by
              unfold tlsStart at hs ⊢
              split
              · rename_i u' nb hk
                split
                · rename_i hne
                  rw [hk] at hs
                  simp only [hne, if_true] at hs
                  exact absurd hs (by simpa using hne)
                · rfl
              · rfl
            rw [this]; simp
          · right; right
            obtain ⟨ht, leaf', signer, rest', hm, h1', h3', h4', h5'⟩ := tlsStart_user hs
            refine ⟨by rw [e2, ht], hipv, (tlsStart fixed cfg req.chains).user, hs, htls, leaf', signer,
              rest', hm, h1', h3', h4', h5'⟩

theorem cookieBranch_sound {req : Req} {m : Nat} {info : AuthInfo}
    (h : cookieBranch req m = .ok info) :
    hasBit info.authType m = true ∧
    (cookieValid req info ∨ (basicValid req info.user ∧ info.authType = authTypePassword)) := by
  unfold cookieBranch at h
  split at h
  · rename_i hc
    split at h
    · cases h
    · rename_i hp
      split at h
      · cases h
      · rename_i b hb
        split at h
        · cases h
        · rename_i hl
          split at h
          · cases h
          · cases h
          · rename_i hr
            injection h with h
            subst h
            refine ⟨?_, Or.inr ⟨⟨hc, by simpa using hl, b, hb, rfl, hr⟩, rfl⟩⟩
            simpa using hp
  · rename_i t hc
    split at h
    · cases h
    · rename_i i hj
      split at h
      · cases h
      · rename_i he
        split at h
        · cases h
        · rename_i hm
          injection h with h
          subst h
          refine ⟨by simpa using hm, Or.inl ⟨t, hc, ?_⟩⟩
          unfold jwtInfo at hj
          split at hj
          · rename_i hv
            injection hj with hj
            subst hj
            simp only [Bool.and_eq_true, beq_iff_eq, decide_eq_true_eq] at hv
            simp only [decide_eq_true_eq, Int.not_lt] at he
            exact ⟨hv.1.1.1.1, hv.1.1.1.2, hv.1.1.2, hv.1.2, hv.2, he, rfl, rfl, rfl⟩
          · cases hj

/-- **Admission is sound**: whenever `checkAuth` admits a request, the identity and level it is
admitted with were really established by the credential presented, and the level intersects
the mask the endpoint asked for. Holds for every configuration, request shape and mask. -/
theorem c06_checkAuth_sound (cfg : Cfg) (req : Req) (m : Nat) (info : AuthInfo)
    (h : checkAuth cfg req m = .ok info) :
    Established cfg req info ∧ hasBit info.authType m = true := by
  unfold checkAuth checkAuthWith at h
  split at h
  · split at h <;> cases h
  · split at h
    · cases h
    · split at h
      · rename_i i ht
        injection h with h
        subst h
        obtain ⟨hb, hc⟩ := tlsBranch_sound ht
        refine ⟨?_, hb⟩
        rcases hc with hc | hc | hc
        · exact Or.inr (Or.inr (Or.inl hc))
        · exact Or.inr (Or.inr (Or.inr (Or.inl hc)))
        · exact Or.inr (Or.inr (Or.inr (Or.inr hc)))
      · cases h
      · obtain ⟨hb, hc⟩ := cookieBranch_sound h
        refine ⟨?_, hb⟩
        rcases hc with hc | hc
        · exact Or.inl hc
        · exact Or.inr (Or.inl hc)

/-- **Cross-site requests**: a state-changing request whose Origin/Referer names another host
is never admitted, whatever credential it carries. -/
theorem c06_csrf (cfg : Cfg) (req : Req) (m : Nat)
    (hm : req.method ≠ .get) (ho : req.origin = .otherHost) (hh : req.hostPresent = true) :
    checkAuth cfg req m = .fail 401 := by
  unfold checkAuth checkAuthWith
  have : req.isGet = false := by
    unfold Req.isGet; cases hmm : req.method <;> simp_all
  simp [this, ho, hh]

/-- **Outside the netblocks**: when every verified chain carries the same IP-restricted leaf
(chains of one TLS handshake share their leaf) and the peer address is outside its netblocks,
the certificate admits nothing, on any endpoint. -/
theorem c06_ip_outside (cfg : Cfg) (req : Req) (m : Nat) (info : AuthInfo)
    (hleaf : ∀ c ∈ req.chains, ∀ leaf rest, c = leaf :: rest →
      leaf.ipRestricted = true ∧ leaf.ipVerdict ≠ .inside)
    (h : checkAuth cfg req m = .ok info) :
    cookieValid req info ∨ (basicValid req info.user ∧ info.authType = authTypePassword) := by
  have hs := (c06_checkAuth_sound cfg req m info h).1
  rcases hs with hs | hs | ⟨_, hs⟩ | ⟨_, hs⟩ | ⟨_, hs, _⟩
  · exact Or.inl hs
  · exact Or.inr hs
  · obtain ⟨_, leaf, signer, rest, hm, _, hr, _⟩ := hs
    have := (hleaf _ hm leaf (signer :: rest) rfl).1
    rw [this] at hr; cases hr
  · obtain ⟨_, leaf, rest, more, hc, _, hv, _⟩ := hs
    have := (hleaf ((leaf :: rest)) (by rw [hc]; exact List.mem_cons_self) leaf rest rfl).2
    exact absurd hv this
  · obtain ⟨_, leaf, rest, more, hc, _, hv, _⟩ := hs
    have := (hleaf ((leaf :: rest)) (by rw [hc]; exact List.mem_cons_self) leaf rest rfl).2
    exact absurd hv this

/-- **Deny list**: a client certificate whose key is on the deny list establishes no identity. -/
theorem c06_denied_key (cfg : Cfg) (req : Req) (m : Nat) (info : AuthInfo)
    (hden : ∀ c ∈ req.chains, ∀ leaf rest, c = leaf :: rest → cfg.deniedKeys.contains leaf.keyId = true)
    (h : checkAuth cfg req m = .ok info) :
    cookieValid req info ∨ (basicValid req info.user ∧ info.authType = authTypePassword) := by
  have hs := (c06_checkAuth_sound cfg req m info h).1
  rcases hs with hs | hs | ⟨_, hs⟩ | ⟨_, hs⟩ | ⟨_, hs, _⟩
  · exact Or.inl hs
  · exact Or.inr hs
  · obtain ⟨_, leaf, signer, rest, hm, _, _, hd, _⟩ := hs
    have := hden _ hm leaf (signer :: rest) rfl
    rw [this] at hd; cases hd
  · obtain ⟨_, leaf, rest, more, hc, _, _, hd, _⟩ := hs
    have := hden ((leaf :: rest)) (by rw [hc]; exact List.mem_cons_self) leaf rest rfl
    rw [this] at hd; cases hd
  · obtain ⟨_, leaf, rest, more, hc, _, _, hd, _⟩ := hs
    have := hden ((leaf :: rest)) (by rw [hc]; exact List.mem_cons_self) leaf rest rfl
    rw [this] at hd; cases hd

namespace Witness
def leafOut : Cert := { cn := "role1", keyId := 10, ipRestricted := true, ipVerdict := .outside,
                        notBefore := 0, revoked := false }
def leafIn : Cert := { cn := "role1", keyId := 10, ipRestricted := true, ipVerdict := .inside,
                       notBefore := 0, revoked := false }
def ca : Cert := { cn := "ca", keyId := 1, ipRestricted := false, ipVerdict := .outside,
                   notBefore := 0, revoked := false }
def cfg : Cfg := { keymasterKeys := [1], deniedKeys := [], automationUsers := ["role1"],
                   automationLookupFails := [] }
def cfgDeny : Cfg := { keymasterKeys := [1], deniedKeys := [10], automationUsers := ["role1"],
                       automationLookupFails := [] }
def req (chain : List Cert) : Req :=
  { method := Method.post, origin := Origin.none, hostPresent := true, tls := true, chains := [chain],
    cookie := Option.none, basic := Option.none, limiterAllows := true, now := 1000 }
end Witness

/-- the pinned tree admitted an IP-restricted certificate from outside its netblocks on the
refresh endpoint (mask = IPCertificate) with a realistic two-element chain, and one whose key
is on the deny list from inside; the repaired code answers 403 to both -/
theorem c06_unfixed_counterexample :
    checkAuthWith asFound Witness.cfg (Witness.req [Witness.leafOut, Witness.ca]) authTypeIPCertificate
      = .ok { user := "role1", authType := authTypeKeymasterX509, issuedAt := 0, expiresAt := 0 } ∧
    checkAuth Witness.cfg (Witness.req [Witness.leafOut, Witness.ca]) authTypeIPCertificate = .fail 403 ∧
    checkAuthWith asFound Witness.cfgDeny (Witness.req [Witness.leafIn]) authTypeIPCertificate
      = .ok { user := "role1", authType := authTypeIPCertificate, issuedAt := 1000, expiresAt := 0 } ∧
    checkAuth Witness.cfgDeny (Witness.req [Witness.leafIn]) authTypeIPCertificate = .fail 403 := by
  decide

/-- non-vacuity: a valid session cookie carrying the U2F bit is admitted on a web-UI endpoint -/
example :
    checkAuth { keymasterKeys := [1], deniedKeys := [], automationUsers := [], automationLookupFails := [] }
      { method := .get, origin := .none, hostPresent := true, tls := false, chains := [],
        cookie := some { sigOK := true, issOK := true, audOK := true, kind := .auth, nbf := 900, exp := 2000,
                         iat := 900, sub := "alice", level := 10 },
        basic := Option.none, limiterAllows := true, now := 1000 } 8
    = .ok { user := "alice", authType := 10, issuedAt := 900, expiresAt := 2000 } := by decide

end KM.Auth

/-! ### the route table of the current source tree (regenerated) -/
namespace KM.Routes
open KM.Auth KM.Site KM.Gen

/-- **Routes**: every route registered on the service multiplexer is in the specification table
and carries the gate it demands — session-gated routes test the seal first and then call
`checkAuth` with exactly the expected mask (plus the admin gate where demanded); routes without
a `checkAuth` are exactly the enumerated own-credential and public-by-design paths. A new or
re-gated route breaks this theorem. -/
theorem c06_routes : KM.Gen.routes.all routeOK = true := by decide

/-- every path of the specification is registered (no silently dropped gate) -/
theorem c06_routes_complete :
    expected.all (fun e => KM.Gen.routes.any (fun r => r.service && r.path == e.1)) = true := by decide

/-- **No effect without credential**: on a session-gated route, a request that `checkAuth`
refuses for each of the route's masks is denied — and by `c06_checkAuth_sound` every request it
does not refuse carries an established identity whose level intersects the mask. -/
theorem c06_route_gate (cfg : Cfg) (webui : Nat) (r : Route) (req : Req)
    (h : deniedBy cfg webui r req = false) (hm : r.masks ≠ []) :
    ∃ m ∈ r.masks, ∃ info, checkAuth cfg req (maskValue webui m) = .ok info ∧
      Established cfg req info ∧ hasBit info.authType (maskValue webui m) = true := by
  unfold deniedBy at h
  simp only [Bool.and_eq_false_iff, Bool.not_eq_false', List.isEmpty_iff] at h
  rcases h with h | h
  · exact absurd h hm
  · rw [List.all_eq_false] at h
    obtain ⟨m, hmm, hv⟩ := h
    refine ⟨m, hmm, ?_⟩
    unfold refuses at hv
    split at hv
    · rename_i info hok
      exact ⟨info, hok, c06_checkAuth_sound cfg req _ info hok⟩
    · exact absurd rfl hv

end KM.Routes


/-! ### `getRequiredWebUIAuthLevel` as TRANSLATED from the current source (go2lean) -/
namespace KM.Routes
open KM.Go KM.Gen

/-- the translated `getRequiredWebUIAuthLevel` (seven sequential tests OR-ing a bit into the level)
is the model's `webuiLevel`, for every operator list of arbitrary strings: the mask the web-UI
routes hand to `checkAuth` is the OR of exactly the bits the listed methods stand for -/
theorem c06_go_webui_level (prefs : List (List Char)) :
    KM.Gen.GoAuth.getRequiredWebUIAuthLevel prefs = webuiLevel prefs := by
  unfold KM.Gen.GoAuth.getRequiredWebUIAuthLevel webuiLevel
  dsimp -proj -iota only
  rw [forRange_fold (fun a p => a ||| webuiBit p)]
  intro x s
  unfold webuiBit authTypePassword authTypeFederated authTypeU2F authTypeSymantecVIP authTypeTOTP authTypeOkta2FA authTypeBootstrapOTP
  by_cases h1 : x = "password".toList
  · subst h1; simp
  by_cases h2 : x = "federated".toList
  · subst h2; simp
  by_cases h3 : x = "U2F".toList
  · subst h3; simp
  by_cases h4 : x = "SymantecVIP".toList
  · subst h4; simp
  by_cases h5 : x = "TOTP".toList
  · subst h5; simp
  by_cases h6 : x = "Okta2FA".toList
  · subst h6; simp
  by_cases h7 : x = "BootstrapOTP".toList
  · subst h7; simp
  have b1 := beq_eq_false_iff_ne.mpr h1
  have b2 := beq_eq_false_iff_ne.mpr h2
  have b3 := beq_eq_false_iff_ne.mpr h3
  have b4 := beq_eq_false_iff_ne.mpr h4
  have b5 := beq_eq_false_iff_ne.mpr h5
  have b6 := beq_eq_false_iff_ne.mpr h6
  have b7 := beq_eq_false_iff_ne.mpr h7
  simp only [b1, b2, b3, b4, b5, b6, b7, Bool.false_eq_true, if_false, Nat.or_zero]

end KM.Routes

-- BEGIN PINS (written by bin/update-pins.py)
namespace KM.Auth

/-- **Source pins** (regenerated): SHA-256 (first 80 bits) of the signature and body, whitespace-normalised,
of the functions `KM.Auth.checkAuth` and `KM.Routes` transcribe — equal to the values recorded when the model was last
read against the code. Any edit, harmless or not, breaks this tie. -/
theorem c06_source_pins :
    KM.Gen.Pins.checkAuth = "0cf449f8155b8b096501" ∧
    KM.Gen.Pins.getUsernameIfKeymasterSigned = "3bd54cf26d0233fda3cd" ∧
    KM.Gen.Pins.getUsernameIfIPRestricted = "8990794d6d846b9ce3df" ∧
    KM.Gen.Pins.getAuthInfoFromJWT = "0c41bb54cfa0a642e950" ∧
    KM.Gen.Pins.getAuthInfoFromAuthJWT = "b467a7c4bb05119d1014" ∧
    KM.Gen.Pins.getRequiredWebUIAuthLevel = "2febd98a0852ac4b9da5" ∧
    KM.Gen.Pins.sendFailureToClientIfLocked = "d37578883f62ab469b69" ∧
    KM.Gen.Pins.sendFailureToClientIfNonAdmin = "e327fa7a19bce349c845" ∧
    KM.Gen.Pins.commonTOTPPostHandler = "e03bf2a235d475870a0c" ∧
    KM.Gen.Pins.reprocessUsername = "b849cdbd82e9ae50db6a" ∧
    KM.Gen.Pins.checkUserPassword = "5155bfe5bff2934ed24c" ∧
    KM.Gen.Pins.checkPasswordAttemptLimit = "bb809a1a0bceb1b6ff2c" ∧
    KM.Gen.Pins.getOriginOrReferrer = "b35b2e1bddb19bb4e01a" ∧
    KM.Gen.Pins.VerifyIPRestrictedX509CertIP = "acb7ecb6dc2826aacedd" ∧
    KM.Gen.Pins.IsIPRestrictedX509Cert = "62b0bea12e1c4b7d1398" := by
  exact ⟨rfl, rfl, rfl, rfl, rfl, rfl, rfl, rfl, rfl, rfl, rfl, rfl, rfl, rfl, rfl⟩

end KM.Auth
-- END PINS
