/-! # C06 — property theorems (stub: not built yet) -/
