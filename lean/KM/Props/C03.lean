/-! # C03 — property theorems (stub: not built yet) -/
