import KM.Lemmas.Validity
import KM.Gen.C03
/-! # C03 — every issued certificate is short-lived, whatever duration is requested

Property theorems only.  `certgenDuration` *interprets* the duration block of
`certGenHandler` as regenerated from the source (`KM.Gen.C03.shape`), `sshWindow` /
`x509Window` mirror the field arithmetic of `lib/certgen`, `sshOK` / `windowOK` / `fixedOK`
are the predicates the driver's `judge` applies to what the real code returned.

Conventions: times are `Int` nanoseconds since the Unix epoch; `tb ≤ t1 ≤ t2 ≤ ta` are the
wall-clock readings "before the call", "`time.Until` in the handler", "`time.Now()` in the
generator", "after the call"; `iat` is `authInfo.IssuedAt`.  The duration parser is a
parameter: `Req.parsed nd` carries *whatever* `time.ParseDuration` returned — no range
restriction on `nd` is needed.  The float step of `uint64(d.Seconds())` is a parameter `fsec`
constrained only by `FloatSecs` (satisfied by truncation, `truncSecs_floatSecs`; the harness
tests the contract on the real conversion). -/
namespace KM.Validity
open KM.Dur

/-- **Shape**: the duration block of the current source is the repaired block — parse errors,
negative and over-24-h requests are refused with 400, the remaining request replaces the
default, the result is clamped by `time.Until(IssuedAt + maxCertificateLifetime)` — every write
to `duration` is accounted for, and all three issuing calls receive that variable. -/
theorem c03_shape :
    KM.Gen.C03.shape = shapeRepaired ∧
    KM.Gen.C03.maxCertificateLifetime = userCap ∧
    KM.Gen.C03.durationWritesTotal = KM.Gen.C03.durationWritesModelled ∧
    KM.Gen.C03.durationSource = "formDuration[0]".toList ∧
    KM.Gen.C03.parseCall = "time.ParseDuration(stringDuration)".toList ∧
    KM.Gen.C03.issueArgs = [("postAuthSSHCertHandler", Var.duration),
      ("postAuthX509CertHandler", Var.duration), ("postAuthX509CertHandler", Var.duration)] := by
  decide

/-- what the handler does with each kind of request (whatever the clock and the credential) -/
theorem c03_decision (req : Req) (t1 iat : Int) :
    certgenDuration KM.Gen.C03.shape KM.Gen.C03.maxCertificateLifetime req t1 iat =
      match req with
      | .absent => .issue (clampTo userCap (sat64 (iat + userCap - t1)))
      | .malformed => .reject 400
      | .parsed nd =>
        if nd < 0 then .reject 400 else if nd > userCap then .reject 400
        else .issue (clampTo nd (sat64 (iat + userCap - t1))) := by
  rw [c03_shape.1, c03_shape.2.1, certgenDuration_repaired]
  cases req <;> rfl

/-- the request as a number: the default when the field is absent -/
def requested : Req → Int
  | .parsed nd => nd
  | _ => userCap

/-- an issued duration is the clamp of a request in `[0, 24 h]` -/
theorem issue_inv {req : Req} {t1 iat d : Int}
    (h : certgenDuration KM.Gen.C03.shape KM.Gen.C03.maxCertificateLifetime req t1 iat = .issue d) :
    req ≠ .malformed ∧ 0 ≤ requested req ∧ requested req ≤ userCap ∧
    d = clampTo (requested req) (sat64 (iat + userCap - t1)) := by
  rw [c03_decision] at h
  cases req with
  | absent =>
    simp only [Outcome.issue.injEq] at h
    refine ⟨by simp, by decide, by decide, h.symm⟩
  | malformed => cases h
  | parsed nd =>
    simp only at h
    split at h
    · cases h
    · split at h
      · cases h
      · simp only [Outcome.issue.injEq] at h
        refine ⟨by simp, ?_, ?_, h.symm⟩ <;> simp only [requested] <;> omega

/-- **SSH certificates** (`/certgen/<user>`, type ssh).  For every request, every clock and every
credential: if the handler issues, then `ValidAfter` is the issuing second (not in the future),
`ValidBefore` has not wrapped (`0 ≤ · < 2^63`), and the window is either empty or ends no later
than the requested duration after issuance, 24 h after issuance, and 24 h after the credential
was authenticated (plus the handler's own running time `ta - tb`). -/
theorem c03_ssh (fsec : Int → Int) (hf : FloatSecs fsec) (req : Req) (iat tb t1 t2 ta va vb : Int)
    (hiat0 : 0 ≤ iat) (hiat1 : iat < horizon)
    (h0 : 0 ≤ tb) (h1 : tb ≤ t1) (h2 : t1 ≤ t2) (h3 : t2 ≤ ta) (h4 : ta < horizon)
    (h : sshIssue KM.Gen.C03.shape KM.Gen.C03.maxCertificateLifetime fsec req t1 t2 iat = some (va, vb)) :
    sshOK req iat tb ta va vb = true := by
  unfold sshIssue at h
  split at h
  · rename_i d hd
    obtain ⟨hm, hr0, hr1, hdd⟩ := issue_inv hd
    obtain ⟨c1, c2, c3, c4, c5⟩ :=
      ssh_core fsec hf (requested req) iat tb t1 t2 ta hr0 hr1 hiat0 hiat1 h0 h1 h2 h3 h4
    rw [← hdd] at c1 c2 c3 c4 c5
    simp only [Option.some.injEq] at h
    rw [h] at c1 c2 c3 c4 c5
    simp only at c1 c2 c3 c4 c5
    have hreq : reqOK req ta vb = true ∨ ¬ (vb * ns ≤ ta + requested req) := by
      cases req with
      | absent => left; rfl
      | malformed => exact absurd rfl hm
      | parsed nd =>
        by_cases hb : vb * ns ≤ ta + nd
        · left; simp [reqOK, hb]
        · right; simpa [requested] using hb
    simp only [sshOK, windowOK, Bool.and_eq_true, Bool.or_eq_true, decide_eq_true_eq]
    unfold userCap ns horizon two63 at *
    by_cases hdn : 0 ≤ d
    · have := c4 hdn
      refine ⟨⟨⟨by omega, by omega⟩, by omega⟩, by omega, ?_⟩
      rcases hreq with hq | hq
      · right; exact ⟨⟨by omega, by omega⟩, hq⟩
      · exact absurd (by omega) hq
    · have := c5 (by omega)
      exact ⟨⟨⟨by omega, by omega⟩, by omega⟩, by omega, Or.inl (by omega)⟩
  · cases h

/-- SSH, the two regimes spelled out: a credential at most 24 h old gets a window that starts at
the issuing second and is not inverted; a credential older than 24 h (year-long CLI sessions)
makes the clamp negative and the code then issues a certificate whose window is *empty*
(`ValidBefore ≤ ValidAfter`, still without wrap-around). -/
theorem c03_ssh_window (fsec : Int → Int) (hf : FloatSecs fsec) (req : Req) (iat tb t1 t2 ta va vb : Int)
    (hiat0 : 0 ≤ iat) (hiat1 : iat < horizon)
    (h0 : 0 ≤ tb) (h1 : tb ≤ t1) (h2 : t1 ≤ t2) (h3 : t2 ≤ ta) (h4 : ta < horizon)
    (h : sshIssue KM.Gen.C03.shape KM.Gen.C03.maxCertificateLifetime fsec req t1 t2 iat = some (va, vb)) :
    va = t2 / ns ∧ (t1 - iat ≤ userCap → va ≤ vb) ∧ (t1 - iat > userCap → vb ≤ va) := by
  unfold sshIssue at h
  split at h
  · rename_i d hd
    obtain ⟨_, hr0, hr1, hdd⟩ := issue_inv hd
    obtain ⟨c1, _, _, c4, c5⟩ :=
      ssh_core fsec hf (requested req) iat tb t1 t2 ta hr0 hr1 hiat0 hiat1 h0 h1 h2 h3 h4
    obtain ⟨s1, s2⟩ := clamp_sign (requested req) iat t1 hr0
    rw [← hdd] at c1 c4 c5 s1 s2
    simp only [Option.some.injEq] at h
    rw [h] at c1 c4 c5
    simp only at c1 c4 c5
    refine ⟨c1, fun hf => ?_, fun hs => ?_⟩
    · have := c4 (s1 hf); omega
    · have := c5 (s2 hs); omega
  · cases h

/-- **X.509 certificates** (types x509 and x509-kubernetes): same bounds for
`NotBefore`/`NotAfter` (seconds, as encoded in the certificate). -/
theorem c03_x509 (req : Req) (iat tb t1 t2 ta nb na : Int)
    (hiat0 : 0 ≤ iat) (hiat1 : iat < horizon)
    (h0 : 0 ≤ tb) (h1 : tb ≤ t1) (h2 : t1 ≤ t2) (h3 : t2 ≤ ta) (h4 : ta < horizon)
    (h : x509Issue KM.Gen.C03.shape KM.Gen.C03.maxCertificateLifetime req t1 t2 iat = some (nb, na)) :
    windowOK req iat tb ta nb na = true ∧ nb = t2 / ns ∧
    (t1 - iat ≤ userCap → nb ≤ na) ∧ (t1 - iat > userCap → na ≤ nb) := by
  unfold x509Issue at h
  split at h
  · rename_i d hd
    obtain ⟨hm, hr0, hr1, hdd⟩ := issue_inv hd
    obtain ⟨c1, c4, c5⟩ :=
      x509_core (requested req) iat tb t1 t2 ta hr0 hr1 hiat0 hiat1 h0 h1 h2 h3 h4
    obtain ⟨s1, s2⟩ := clamp_sign (requested req) iat t1 hr0
    rw [← hdd] at c1 c4 c5 s1 s2
    simp only [Option.some.injEq] at h
    rw [h] at c1 c4 c5
    simp only at c1 c4 c5
    have hreq : reqOK req ta na = true ∨ ¬ (na * ns ≤ ta + requested req) := by
      cases req with
      | absent => left; rfl
      | malformed => exact absurd rfl hm
      | parsed nd =>
        by_cases hb : na * ns ≤ ta + nd
        · left; simp [reqOK, hb]
        · right; simpa [requested] using hb
    refine ⟨?_, c1, fun hf => ?_, fun hs => ?_⟩
    · simp only [windowOK, Bool.and_eq_true, Bool.or_eq_true, decide_eq_true_eq]
      unfold userCap ns horizon at *
      by_cases hdn : 0 ≤ d
      · have := c4 hdn
        refine ⟨by omega, ?_⟩
        rcases hreq with hq | hq
        · right; exact ⟨⟨by omega, by omega⟩, hq⟩
        · exact absurd (by omega) hq
      · have := c5 (by omega)
        exact ⟨by omega, Or.inl (by omega)⟩
    · have := c4 (s1 hf); omega
    · have := c5 (s2 hs); omega
  · cases h

/-- nothing is issued for an unparsable, negative or over-24-h duration -/
theorem c03_refused (fsec : Int → Int) (req : Req) (t1 t2 iat : Int)
    (hbad : req = .malformed ∨ ∃ nd, req = .parsed nd ∧ (nd < 0 ∨ nd > userCap)) :
    sshIssue KM.Gen.C03.shape KM.Gen.C03.maxCertificateLifetime fsec req t1 t2 iat = none ∧
    x509Issue KM.Gen.C03.shape KM.Gen.C03.maxCertificateLifetime req t1 t2 iat = none := by
  unfold sshIssue x509Issue
  rw [c03_decision]
  rcases hbad with h | ⟨nd, h, hn⟩
  · subst h; simp
  · subst h
    rcases hn with hn | hn
    · simp [hn]
    · by_cases h0 : nd < 0 <;> simp [h0, hn]

/-- non-vacuity: a one-hour request on a ten-second-old session at 2026-09-29 is issued for
exactly one hour, and the default request on a 23 h 59 m old session for the remaining minute -/
example : sshIssue KM.Gen.C03.shape KM.Gen.C03.maxCertificateLifetime truncSecs
    (.parsed 3600000000000) 1790661645500000000 1790661645600000000 1790661635000000000
    = some (1790661645, 1790665245) := by decide
example : x509Issue KM.Gen.C03.shape KM.Gen.C03.maxCertificateLifetime
    .absent 1790661645500000000 1790661645600000000 (1790661645000000000 - 86340000000000)
    = some (1790661645, 1790661705) := by decide
example : FloatSecs truncSecs := truncSecs_floatSecs

/-- the float contract is what the driver's `judge secs` tests point by point on the real
conversion: a conversion that passes `floatSecsAt` everywhere satisfies `FloatSecs`, and the
truncating instance run by the driver does -/
theorem c03_float_contract :
    (∀ fsec : Int → Int, (∀ d, floatSecsAt d (fsec d) = true) → FloatSecs fsec) ∧ FloatSecs truncSecs :=
  ⟨fun _ h => floatSecs_of_at h, truncSecs_floatSecs⟩

/-- **As found**: the pinned tree's block (no test for negative requests) lets `duration=-600000h`
through and the unsigned conversion wraps: `ValidBefore = 18446744073340210366` (≈ 2^64). -/
theorem c03_ssh_unfixed_counterexample :
    sshIssue shapeAsFound userCap truncSecs (.parsed (-2160000000000000000))
      1790658750000000000 1790658750000000000 1790658750000000000
      = some (1790658750, 18446744073340210366) ∧
    sshOK (.parsed (-2160000000000000000)) 1790658750000000000 1790658750000000000
      1790658750000000000 1790658750 18446744073340210366 = false := by
  decide

/-! ### sessions that gained a second factor -/

/-- **Step-up**: however many second-factor step-ups a session went through, the cookie presented
to `certGenHandler` still carries the login's `iat` and `exp` (the source re-signs the parsed claims
with only `AuthType` replaced — `c03_sites`), so every bound of `c03_ssh` / `c03_x509` is a bound
relative to the moment the session was authenticated by its first factor: a late or repeated
step-up does not restart the 24 hours. -/
theorem c03_stepup (fsec : Int → Int) (hf : FloatSecs fsec) (s : Session) (lvls : List Nat) (req : Req)
    (tb t1 t2 ta va vb : Int)
    (hiat0 : 0 ≤ s.iat) (hiat1 : s.iat < horizon)
    (h0 : 0 ≤ tb) (h1 : tb ≤ t1) (h2 : t1 ≤ t2) (h3 : t2 ≤ ta) (h4 : ta < horizon) :
    (stepUps s lvls).iat = s.iat ∧ (stepUps s lvls).exp = s.exp ∧
    (sshIssue KM.Gen.C03.shape KM.Gen.C03.maxCertificateLifetime fsec req t1 t2 (stepUps s lvls).iat
        = some (va, vb) → sshOK req s.iat tb ta va vb = true) ∧
    (x509Issue KM.Gen.C03.shape KM.Gen.C03.maxCertificateLifetime req t1 t2 (stepUps s lvls).iat
        = some (va, vb) → windowOK req s.iat tb ta va vb = true) := by
  have hk : ∀ (l : List Nat) (x : Session), (stepUps x l).iat = x.iat ∧ (stepUps x l).exp = x.exp := by
    intro l
    induction l with
    | nil => intro x; exact ⟨rfl, rfl⟩
    | cons a as ih => intro x; exact ih (stepUp x a)
  obtain ⟨e1, e2⟩ := hk lvls s
  rw [e1]
  exact ⟨rfl, e2, fun h => c03_ssh fsec hf req s.iat tb t1 t2 ta va vb hiat0 hiat1 h0 h1 h2 h3 h4 h,
    fun h => (c03_x509 req s.iat tb t1 t2 ta va vb hiat0 hiat1 h0 h1 h2 h3 h4 h).1⟩

/-- why the login moment must survive: a step-up that mints a fresh token (`iat := now`) 15 hours
into a session lets the default request run until 39 h after the login -/
theorem c03_stepup_remint_counterexample :
    x509Issue shapeRepaired userCap .absent 1790661645500000000 1790661645600000000
      (stepUpRemint 1790661645000000000 ⟨1790661645000000000 - 54000000000000, 1790661645000000000 + 3600000000000, 2⟩ 66).iat
      = some (1790661645, 1790748045) ∧
    windowOK .absent (1790661645000000000 - 54000000000000) 1790661645400000000 1790661645700000000
      1790661645 1790748045 = false := by
  decide

/-! ### overlapping requests -/

/-- **Overlap**: any number of requests served at the same time, in whatever order they reach the
signer — the answer to the `i`-th one is computed from its own form and its own session alone, so
it satisfies the property's predicate *relative to its own authentication moment* (`sshOK` /
`windowOK` with `fs[i].iat`): a session is never handed a certificate sized for another, fresher
session of the same user. -/
theorem c03_overlap (fsec : Int → Int) (hf : FloatSecs fsec) (fs : List Flight) (i : Nat) (hi : i < fs.length)
    (w : Int × Int)
    (hiat0 : 0 ≤ fs[i].iat) (hiat1 : fs[i].iat < horizon)
    (h0 : 0 ≤ fs[i].tb) (h1 : fs[i].tb ≤ fs[i].t1) (h2 : fs[i].t1 ≤ fs[i].t2) (h3 : fs[i].t2 ≤ fs[i].ta)
    (h4 : fs[i].ta < horizon)
    (h : (serveEach KM.Gen.C03.shape KM.Gen.C03.maxCertificateLifetime fsec fs)[i]? = some (some w)) :
    flightOK fs[i] w = true := by
  unfold serveEach at h
  rw [List.getElem?_map, List.getElem?_eq_getElem hi] at h
  simp only [Option.map_some, Option.some.injEq] at h
  unfold answer at h
  unfold flightOK
  obtain ⟨va, vb⟩ := w
  by_cases hs : fs[i].ssh = true
  · rw [if_pos hs] at h ⊢
    exact c03_ssh fsec hf _ _ _ _ _ _ va vb hiat0 hiat1 h0 h1 h2 h3 h4 h
  · rw [if_neg hs] at h ⊢
    exact (c03_x509 _ _ _ _ _ _ va vb hiat0 hiat1 h0 h1 h2 h3 h4 h).1

/-- why the answer must be the invocation's own: a coalescer keyed by what is asked hands the
session authenticated 23 h ago the 24-hour certificate being signed for a session authenticated
just now (SSH and X.509); served each on its own, the old session gets the remaining hour -/
theorem c03_overlap_coalesced_counterexample :
    serveCoalesced shapeRepaired userCap truncSecs
      [⟨true, .parsed 86400000000000, 1790661645500000000, 1790661645400000000, 1790661645500000000, 1790661645600000000, 1790661646000000000⟩,
       ⟨true, .parsed 86400000000000, 1790661645000000000 - 82800000000000, 1790661645450000000, 1790661645550000000, 1790661645650000000, 1790661646000000000⟩]
      = [some (1790661645, 1790748045), some (1790661645, 1790748045)] ∧
    flightOK ⟨true, .parsed 86400000000000, 1790661645000000000 - 82800000000000, 1790661645450000000, 1790661645550000000, 1790661645650000000, 1790661646000000000⟩
      (1790661645, 1790748045) = false ∧
    flightOK ⟨false, .absent, 1790661645000000000 - 82800000000000, 1790661645450000000, 1790661645550000000, 1790661645650000000, 1790661646000000000⟩
      (1790661645, 1790748045) = false ∧
    serveEach shapeRepaired userCap truncSecs
      [⟨true, .parsed 86400000000000, 1790661645500000000, 1790661645400000000, 1790661645500000000, 1790661645600000000, 1790661646000000000⟩,
       ⟨true, .parsed 86400000000000, 1790661645000000000 - 82800000000000, 1790661645450000000, 1790661645550000000, 1790661645650000000, 1790661646000000000⟩]
      = [some (1790661645, 1790748045), some (1790661645, 1790665244)] := by
  decide

/-! ### fixed-lifetime certificates -/

/-- **Role-requesting certificates**: both parameter parsers set `Duration` to the constant, the
constant is at most 45 days, `withParamsGenerateRoleRequestingCert` hands it unchanged to
`GenIPRestrictedX509Cert`, whose window is `[now, now + Duration]`. -/
theorem c03_role (tb t ta : Int) (_h1 : tb ≤ t) (h2 : t ≤ ta) :
    KM.Gen.C03.maxRoleRequestingCertDuration ≤ roleCap ∧ 0 ≤ KM.Gen.C03.maxRoleRequestingCertDuration ∧
    fixedOK roleCap ta (x509Window t KM.Gen.C03.maxRoleRequestingCertDuration).1
      (x509Window t KM.Gen.C03.maxRoleRequestingCertDuration).2 = true ∧
    (x509Window t KM.Gen.C03.maxRoleRequestingCertDuration).2 * ns ≤ t + roleCap := by
  have hc : KM.Gen.C03.maxRoleRequestingCertDuration ≤ roleCap ∧
      0 ≤ KM.Gen.C03.maxRoleRequestingCertDuration := by decide
  generalize KM.Gen.C03.maxRoleRequestingCertDuration = D at hc ⊢
  simp only [x509Window]
  simp only [fixedOK, Bool.and_eq_true, Bool.or_eq_true, decide_eq_true_eq]
  unfold roleCap ns at *
  refine ⟨hc.1, hc.2, ⟨by omega, Or.inr (by omega)⟩, by omega⟩

/-- **Role-requesting certificates, the parsers**: both `parseRoleCertGenParams` and
`parseRefreshRoleCertGenParams` assign `Duration` exactly once, from the constant — in particular a
refresh does *not* inherit anything from the certificate it presents: for every lifetime `p` of the
presented certificate (negative, zero, 5 years …) the chosen duration is the constant, and the
window issued at `t` satisfies the 45-day predicate. -/
theorem c03_role_refresh (p t ta : Int) (h2 : t ≤ ta) :
    roleDuration KM.Gen.C03.roleHandlerDur KM.Gen.C03.maxRoleRequestingCertDuration p =
      .dur KM.Gen.C03.maxRoleRequestingCertDuration ∧
    roleDuration KM.Gen.C03.roleRefreshDur KM.Gen.C03.maxRoleRequestingCertDuration p =
      .dur KM.Gen.C03.maxRoleRequestingCertDuration ∧
    ∀ d, roleDuration KM.Gen.C03.roleRefreshDur KM.Gen.C03.maxRoleRequestingCertDuration p = .dur d →
      fixedOK roleCap ta (x509Window t d).1 (x509Window t d).2 = true := by
  have hs : KM.Gen.C03.roleHandlerDur = [.maxConst] ∧ KM.Gen.C03.roleRefreshDur = [.maxConst] := by decide
  rw [hs.1, hs.2]
  refine ⟨rfl, rfl, fun d hd => ?_⟩
  simp only [roleDuration, List.foldl, roleAssign, RoleRes.dur.injEq] at hd
  subst hd
  exact (c03_role t t ta (Int.le_refl t) h2).2.2.1

/-- why inheriting is not harmless: a parser that takes the presented certificate's lifetime when
it is positive (the constant otherwise) turns a 90-day certificate of another client CA into a
90-day role-requesting certificate -/
theorem c03_role_inherit_counterexample :
    roleDuration [.maxConst, .presentedIfPositive] 3888000000000000 7776000000000000 = .dur 7776000000000000 ∧
    fixedOK roleCap 1790661645600000000 (x509Window 1790661645500000000 7776000000000000).1
      (x509Window 1790661645500000000 7776000000000000).2 = false := by
  decide

/-- **AWS role certificates**: the template's window is `[now, now + 24 h]` and nothing between
template creation and signing touches it. -/
theorem c03_aws (tb t ta : Int) (_h1 : tb ≤ t) (h2 : t ≤ ta) :
    KM.Gen.C03.awsTemplateLifetime ≤ awsCap ∧ 0 ≤ KM.Gen.C03.awsTemplateLifetime ∧
    KM.Gen.C03.awsValidityMutations = 0 ∧
    fixedOK awsCap ta (x509Window t KM.Gen.C03.awsTemplateLifetime).1
      (x509Window t KM.Gen.C03.awsTemplateLifetime).2 = true := by
  have hc : KM.Gen.C03.awsTemplateLifetime ≤ awsCap ∧ 0 ≤ KM.Gen.C03.awsTemplateLifetime ∧
      KM.Gen.C03.awsValidityMutations = 0 := by decide
  generalize KM.Gen.C03.awsTemplateLifetime = D at hc ⊢
  simp only [x509Window]
  simp only [fixedOK, Bool.and_eq_true, Bool.or_eq_true, decide_eq_true_eq]
  unfold awsCap ns at *
  exact ⟨hc.1, hc.2.1, hc.2.2, by omega, Or.inr (by omega)⟩

/-! ### the expressions that become validity fields (regenerated table) -/

/-- what the models above assume about the source, site by site -/
def expectedFlow : List (String × List (List Char)) := [
  ("GenIPRestrictedX509Cert.NotAfter", ["notAfter".toList]),
  ("GenIPRestrictedX509Cert.NotBefore", ["notBefore".toList]),
  ("GenIPRestrictedX509Cert.durationWrites", []),
  ("GenIPRestrictedX509Cert.fieldWrites", ["0".toList]),
  ("GenIPRestrictedX509Cert.notAfter", ["notBefore.Add(duration)".toList]),
  ("GenIPRestrictedX509Cert.notBefore", ["time.Now()".toList]),
  ("GenUserX509Cert.NotAfter", ["notAfter".toList]),
  ("GenUserX509Cert.NotBefore", ["notBefore".toList]),
  ("GenUserX509Cert.durationWrites", []),
  ("GenUserX509Cert.fieldWrites", ["0".toList]),
  ("GenUserX509Cert.notAfter", ["notBefore.Add(duration)".toList]),
  ("GenUserX509Cert.notBefore", ["time.Now()".toList]),
  ("awsCreateTemplateArg", ["template".toList]),
  ("awsNotAfter", ["now.Add(time.Hour * 24)".toList]),
  ("awsNotBefore", ["now".toList]),
  ("awsNow", ["time.Now()".toList]),
  ("roleCallers", ["roleRequetingCertGenHandler: params".toList,
    "refreshRoleRequestingCertGenHandler: params".toList]),
  ("roleDurationSources", ["parseRoleCertGenParams: maxRoleRequestingCertDuration".toList,
    "parseRefreshRoleCertGenParams: maxRoleRequestingCertDuration".toList]),
  ("roleGenDurationArg", ["params.Duration".toList]),
  ("roleParamsDurationWrites", ["0".toList]),
  ("sshCurrentEpoch", ["uint64(time.Now().Unix())".toList]),
  ("sshDurationWrites", []),
  ("sshExpireEpoch", ["currentEpoch + uint64(duration.Seconds())".toList]),
  ("sshGenDurationArg", ["duration".toList]),
  ("sshHandlerDurationWrites", []),
  ("sshValidAfter", ["currentEpoch".toList]),
  ("sshValidBefore", ["expireEpoch".toList]),
  ("stepUpClaims", ["parsedJWT".toList]),
  ("stepUpCookieValue", ["state.updateAuthJWTWithNewAuthLevel(authCookie.Value, username, authlevel)".toList]),
  ("stepUpMints", []),
  ("stepUpReturns", ["jwt.Signed(signer).Claims(parsedJWT).Serialize()".toList]),
  ("stepUpWrites", ["parsedJWT.AuthType = newAuthLevel".toList]),
  ("x509GenDurationArg", ["duration".toList]),
  ("x509HandlerDurationWrites", [])]

/-- **Sites**: the validity fields of every certificate kind are computed by exactly the
expressions the models mirror, the duration reaches the generators unmodified, role parameters
always carry the constant, and the AWS template is signed as created. -/
theorem c03_sites : KM.Gen.C03.flow = expectedFlow := by decide

end KM.Validity
