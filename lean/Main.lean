import KM.Driver.C17

def handlerFor (prop mode : String) : Option KM.Driver.Handler :=
  match prop with
  | "C17" => KM.Driver.C17.handler mode
  | _ => none

def main (args : List String) : IO UInt32 := do
  match args with
  | [prop, mode] =>
    match handlerFor prop mode with
    | some h => KM.Driver.run h; return 0
    | none => IO.eprintln s!"unknown property/mode {prop}/{mode}"; return 2
  | _ => IO.eprintln "usage: kmdriver <property> <mode> < ops"; return 2
