import KM.Driver.C01
import KM.Driver.C02
import KM.Driver.C03
import KM.Driver.C04
import KM.Driver.C05
import KM.Driver.C06
import KM.Driver.C07
import KM.Driver.C08
import KM.Driver.C09
import KM.Driver.C10
import KM.Driver.C11
import KM.Driver.C12
import KM.Driver.C13
import KM.Driver.C14
import KM.Driver.C15
import KM.Driver.C16
import KM.Driver.C17
import KM.Driver.C18
import KM.Driver.C19
import KM.Driver.C20

def handlerFor (prop mode : String) : Option KM.Driver.Handler :=
  match prop with
  | "C01" => KM.Driver.C01.handler mode
  | "C02" => KM.Driver.C02.handler mode
  | "C03" => KM.Driver.C03.handler mode
  | "C04" => KM.Driver.C04.handler mode
  | "C05" => KM.Driver.C05.handler mode
  | "C06" => KM.Driver.C06.handler mode
  | "C07" => KM.Driver.C07.handler mode
  | "C08" => KM.Driver.C08.handler mode
  | "C09" => KM.Driver.C09.handler mode
  | "C10" => KM.Driver.C10.handler mode
  | "C11" => KM.Driver.C11.handler mode
  | "C12" => KM.Driver.C12.handler mode
  | "C13" => KM.Driver.C13.handler mode
  | "C14" => KM.Driver.C14.handler mode
  | "C15" => KM.Driver.C15.handler mode
  | "C16" => KM.Driver.C16.handler mode
  | "C17" => KM.Driver.C17.handler mode
  | "C18" => KM.Driver.C18.handler mode
  | "C19" => KM.Driver.C19.handler mode
  | "C20" => KM.Driver.C20.handler mode
  | _ => none

def main (args : List String) : IO UInt32 := do
  match args with
  | [prop, mode] =>
    match handlerFor prop mode with
    | some h => KM.Driver.run h; return 0
    | none => IO.eprintln s!"unknown property/mode {prop}/{mode}"; return 2
  | _ => IO.eprintln "usage: kmdriver <property> <mode> < ops"; return 2
