#!/bin/bash
# bin/merge-finish.sh <name> <PROP...>: after merge-builder.sh hit the expected conflicts (MANIFEST.json, lean/KM/Gen)
n=$1; shift
cd /verif
for f in MANIFEST.json checks/common.py bin/baseline.sh bin/setup.sh; do git checkout --ours $f 2>/dev/null; git add $f; done
for f in $(git status --short | grep "lean/KM/Gen/" | awk '{print $NF}'); do git rm -q --cached "$f" 2>/dev/null || git rm -q "$f" 2>/dev/null; done
# map the builder's fix shas (in known_findings.txt) to the cherry-picked shas on /repo main
for old in $(git -C /repo log --reverse --format=%h main..b-$n 2>/dev/null); do :; done
python3 - "$n" <<'PY'
import subprocess, sys, re
n=sys.argv[1]
def sh(*a): return subprocess.run(a,capture_output=True,text=True).stdout
olds=sh("git","-C","/repo","log","--reverse","--format=%h %s","b-"+n,"--not","main~40").splitlines()
mains=sh("git","-C","/repo","log","--format=%h %s","-60","main").splitlines()
msub={l.split(" ",1)[1]:l.split(" ",1)[0] for l in mains}
kf=open("/verif/known_findings.txt").read()
for l in olds:
    h,s=l.split(" ",1)
    if s in msub and msub[s]!=h and h in kf:
        kf=kf.replace(h,msub[s]); print("sha",h,"->",msub[s])
open("/verif/known_findings.txt","w").write(kf)
PY
bin/mkmanifest.py
git add -A
git commit -qm "merge b-$n ($*)"
git worktree remove --force /tmp/w-$n/verif; git -C /repo worktree remove --force /tmp/w-$n/repo; rm -rf /tmp/w-$n
git branch -D b-$n -q; git -C /repo branch -D b-$n -q
for p in "$@"; do bin/check $p 2>&1 | tail -2; done
