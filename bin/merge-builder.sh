#!/bin/bash
# bin/merge-builder.sh <name> : cherry-pick the builder's fix commits into /repo, merge its /verif branch, drop worktrees
n=$1; W=/tmp/w-$n
set -x
fixes=$(git -C /repo log --reverse --format=%h main..b-$n)
for f in $fixes; do
  git -C /repo cherry-pick $f || { echo "CHERRY-PICK CONFLICT $f"; exit 1; }
done
cd /verif
git merge --no-edit b-$n || { echo "MERGE CONFLICT"; git status --short | grep -v "^??" | head; exit 1; }
