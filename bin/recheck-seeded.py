#!/usr/bin/env python3
"""bin/recheck-seeded.py <seeded id> <prop> [<prop>...]: apply an already confirmed seeded change to $VERIF_REPO (a lane),
run the named checks (quick tier), undo it, and refresh checks_quick / detected_by in seeded/<id>/meta.json of THIS verif
copy. Confirmation fields are left alone. Patches written against an older tree are applied with --3way."""
import json, os, subprocess, sys, shutil
VERIF = os.path.dirname(os.path.dirname(os.path.abspath(__file__)))
REPO = os.environ.get("VERIF_REPO", "/repo")
def sh(cmd, cwd=None):
    p = subprocess.run(cmd, cwd=cwd, stdout=subprocess.PIPE, stderr=subprocess.STDOUT, text=True)
    return p.returncode, p.stdout
sid, props = sys.argv[1], sys.argv[2:]
d = os.path.join(VERIF, "seeded", sid)
meta = json.load(open(os.path.join(d, "meta.json")))
rc, out = sh(["git", "-C", REPO, "apply", "--recount", os.path.join(d, "patch.diff")])
how = "git apply"
if rc != 0:
    rc, out = sh(["git", "-C", REPO, "apply", "--3way", "--recount", os.path.join(d, "patch.diff")])
    how = "git apply --3way (patch written against the tree before a later fix)"
evbak = "/tmp/evidence-bak-%d" % os.getpid()
shutil.copytree(os.path.join(VERIF, "evidence"), evbak)
checks = {}
try:
    if rc != 0:
        meta["recheck"] = "patch no longer applies to %s: %s" % (subprocess.run(["git", "-C", REPO, "rev-parse", "--short", "HEAD"], stdout=subprocess.PIPE, text=True).stdout.strip(), out[-300:])
    else:
        rcb, outb = sh(["go", "build", "-o", "/dev/null", "./cmd/keymasterd"], cwd=REPO)
        if rcb != 0:
            meta["recheck"] = "applied with %s but does not build: %s" % (how, outb[-300:])
        else:
            for p in props:
                rcc, outc = sh([os.path.join(VERIF, "bin", "check"), p, "--tier", "quick"], cwd=VERIF)
                lines = [l for l in outc.strip().splitlines() if not l.startswith("KNOWN-FINDING")]
                checks[p] = {"exit": rcc, "tail": lines[-4:]}
            meta["recheck"] = "applied with %s to /repo %s" % (how, subprocess.run(["git", "-C", REPO, "rev-parse", "--short", "HEAD"], stdout=subprocess.PIPE, text=True).stdout.strip())
finally:
    sh(["git", "-C", REPO, "reset", "-q", "--hard"]); sh(["git", "-C", REPO, "clean", "-fdq"])
    shutil.rmtree(os.path.join(VERIF, "evidence")); shutil.move(evbak, os.path.join(VERIF, "evidence"))
if checks:
    meta["checks_first_pass"] = meta.get("checks_first_pass") or meta.get("checks_quick")
    meta["checks_quick"] = checks
    meta["detected_by"] = [p for p, v in checks.items() if v["exit"] != 0]
json.dump(meta, open(os.path.join(d, "meta.json"), "w"), indent=1)
print(sid, meta.get("recheck"), {p: (v["exit"], "tie" if any("no-failing-input-found" in t for t in v["tail"]) else ("input" if v["exit"] else "OK")) for p, v in checks.items()})
subprocess.run([sys.executable, "-c", "import sys; sys.path.insert(0,%r); from checks import common as c; ctx=c.Ctx('restore','quick',1); c.regen(ctx); ctx.cleanup()" % VERIF])
