#!/bin/bash
k=$1; L=/tmp/lane$k
git -C /verif worktree remove --force $L/verif 2>/dev/null
git -C /repo worktree remove --force $L/repo 2>/dev/null
rm -rf $L
git -C /verif worktree prune; git -C /repo worktree prune
