#!/usr/bin/env python3
"""bin/try-seeded.py <mutation out dir> <seeded id> <prop> [<prop>...]

Confirms a candidate seeded change in a scratch worktree (compiles, baseline passes, demo passes
without / fails with the change), then applies it to /repo, runs the named checks (quick tier),
undoes it, and files everything under /verif/seeded/<seeded id>/ with meta.json."""
import json
import os
import re
import shutil
import subprocess
import sys

VERIF = os.path.dirname(os.path.dirname(os.path.abspath(__file__)))
ENV = dict(os.environ, GOFLAGS="-mod=mod", GOPROXY="off")
ENV.pop("GOSUMDB", None)
REPO = os.environ.get("VERIF_REPO", "/repo")   # a lane (scratch copy of /repo) when set; the checks honour the same variable
NS = ["unshare", "-n", "sh", "-c", 'ip link set lo up && exec "$@"', "sh"]


def sh(cmd, cwd=None, env=None, timeout=3000):
    p = subprocess.run(cmd, cwd=cwd, env=env or ENV, stdout=subprocess.PIPE, stderr=subprocess.STDOUT, text=True, timeout=timeout)
    return p.returncode, p.stdout


def main():
    src, sid, props = os.path.abspath(sys.argv[1]), sys.argv[2], sys.argv[3:]
    meta = json.load(open(os.path.join(src, "meta.json")))
    if "what_i_ran" in meta and "demo_copy_to" not in meta:
        # re-run from /verif/seeded/<id>/: recover where the demo goes from our own earlier record
        m = re.search(r"demo copied to (\S+)\)", meta.get("demo_cmd", ""))
        if m:
            meta["demo_copy_to"] = m.group(1)
    patch = os.path.join(src, "patch.diff")
    demo = os.path.join(src, "demo_test.go")
    wt = "/tmp/wt-seed-%d" % os.getpid()
    sh(["git", "-C", REPO, "worktree", "add", "-q", "--detach", wt, "HEAD"])
    result = {"property": meta.get("property"), "summary": meta.get("summary"), "needs_to_manifest": meta.get("needs_to_manifest"),
              "files_changed": meta.get("files_changed"), "source": src}
    try:
        copy_to = meta.get("demo_copy_to") or "cmd/keymasterd/zz_demo_test.go"
        copy_to = copy_to.split()[0]        # some records append a remark after the path
        copy_to = re.sub(r"^/tmp/(m|r2|r3)-[a-z0-9]+/", "", copy_to)
        if os.path.isdir(os.path.join(wt, copy_to)) or not copy_to.endswith(".go"):
            copy_to = os.path.join(copy_to, "zz_demo_%s_test.go" % sid.replace("-", "_"))
        pkg = "./" + os.path.dirname(copy_to) + "/"
        m = re.search(r"-run\s+'?\"?([^\s'\"]+)", meta.get("demo_cmd", ""))
        runpat = m.group(1) if m else "."
        race = ["-race"] if "-race" in meta.get("demo_cmd", "") else []
        demo_cmd = NS + ["go", "test", "-vet=off", "-count=1"] + race + ["-run", runpat, pkg]
        shutil.copy(demo, os.path.join(wt, copy_to))
        rc0, out0 = sh(demo_cmd, cwd=wt)
        result["demo_pristine"] = "pass" if rc0 == 0 else "FAIL"
        os.remove(os.path.join(wt, copy_to))
        rc, out = sh(["git", "apply", "--recount", patch], cwd=wt)
        result["applies"] = rc == 0
        if rc != 0:
            result["apply_error"] = out[-500:]
        else:
            rcb, outb = sh(["go", "build", "-o", "/dev/null", "./cmd/keymasterd"], cwd=wt)
            result["builds"] = rcb == 0
            rcs, outs = sh([os.path.join(VERIF, "bin", "baseline.sh")], env=dict(ENV, VERIF_REPO=wt))
            result["baseline_with_change"] = outs.strip().splitlines()[0] if outs.strip() else "?"
            result["baseline_ok"] = rcs == 0
            shutil.copy(demo, os.path.join(wt, copy_to))
            rc1, out1 = sh(demo_cmd, cwd=wt)
            result["demo_with_change"] = "pass" if rc1 == 0 else "FAIL"
            result["demo_cmd"] = " ".join(demo_cmd[len(NS):]) + "   (in a private netns; demo copied to %s)" % copy_to
    finally:
        sh(["git", "-C", REPO, "worktree", "remove", "--force", wt])
    confirmed = result.get("applies") and result.get("builds") and result.get("baseline_ok") and \
        result.get("demo_pristine") == "pass" and result.get("demo_with_change") == "FAIL"
    result["confirmed"] = bool(confirmed)
    checks = {}
    evbak = "/tmp/evidence-bak-%d" % os.getpid()
    shutil.copytree(os.path.join(VERIF, "evidence"), evbak)   # evidence committed must come from the unchanged tree
    if confirmed:
        rc, out = sh(["git", "-C", REPO, "apply", "--recount", patch])
        try:
            for p in props:
                rc, out = sh([os.path.join(VERIF, "bin", "check"), p, "--tier", "quick"], cwd=VERIF)
                lines = [l for l in out.strip().splitlines() if not l.startswith("KNOWN-FINDING")]
                checks[p] = {"exit": rc, "tail": lines[-4:]}
        finally:
            sh(["git", "-C", REPO, "checkout", "--", "."])
            sh(["git", "-C", REPO, "clean", "-fdq"])
    shutil.rmtree(os.path.join(VERIF, "evidence"))
    shutil.move(evbak, os.path.join(VERIF, "evidence"))
    result["checks_quick"] = checks
    result["detected_by"] = [p for p, v in checks.items() if v["exit"] != 0]
    dst = os.path.join(VERIF, "seeded", sid)
    os.makedirs(dst, exist_ok=True)
    for src_f, name in ((patch, "patch.diff"), (demo, "demo_test.go")):
        if os.path.abspath(src_f) != os.path.abspath(os.path.join(dst, name)):
            shutil.copy(src_f, os.path.join(dst, name))
    result["what_i_ran"] = "bin/try-seeded.py: scratch worktree of /repo HEAD: demo on pristine tree, git apply, go build ./cmd/keymasterd, bin/baseline.sh (143 stable tests), demo with change; then git -C /repo apply, bin/check <prop> --tier quick for each named property, git -C /repo checkout -- ."
    json.dump(result, open(os.path.join(dst, "meta.json"), "w"), indent=1)
    print(json.dumps({k: result.get(k) for k in ("confirmed", "demo_pristine", "demo_with_change", "baseline_with_change", "detected_by")}, indent=0))
    for p, v in checks.items():
        print(p, v["exit"], " | ".join(v["tail"])[:600])
    # regenerate Gen for the unchanged tree
    subprocess.run([sys.executable, "-c", "import sys; sys.path.insert(0,%r); from checks import common as c; ctx=c.Ctx('restore','quick',1); c.regen(ctx); ctx.cleanup()" % VERIF])


if __name__ == "__main__":
    main()
