#!/bin/bash
# bin/revert-test.sh <commit> <prop> [<prop>...]: revert one /repo commit in a scratch worktree and run checks against it.
# Expect VIOLATION. Restores KM/Gen afterwards by re-running the extractor on /repo.
sha=$1; shift
W=/tmp/wt-revert-$$
cp -r /verif/evidence /tmp/evidence-bak-$$
git -C /repo worktree add -q --detach $W HEAD
( cd $W && git revert --no-commit $sha >/dev/null 2>&1 || { echo "revert failed"; } )
for p in "$@"; do
  echo "== $p with $sha reverted"
  VERIF_REPO=$W /verif/bin/check $p --tier quick 2>&1 | tail -4
done
git -C /repo worktree remove --force $W
rm -rf /verif/evidence && mv /tmp/evidence-bak-$$ /verif/evidence
# restore generated files for /repo
python3 - <<'PY'
import sys; sys.path.insert(0,'/verif')
from checks import common as c
ctx=c.Ctx("restore","quick",1); c.regen(ctx); ctx.cleanup()
PY
