#!/bin/bash
# Build everything from files on disk only (offline): extractor, Lean project, harness compile cache.
# Only a failure of /verif's own tooling (the extractor does not build) fails setup. Every step that depends on
# /repo's working tree (regenerated facts, proofs over them, harness compilation) is a warm-up of what each check
# redoes for itself: when one of them fails here the checks report it (as a VIOLATION naming the broken
# obligation), so setup warns and carries on instead of keeping the checks from running.
cd "$(dirname "$0")/.."
export GOFLAGS=-mod=mod GOPROXY=off
unset GOSUMDB
mkdir -p .work evidence replay lean/KM/Gen
( cd extract && GOTOOLCHAIN=local go build -o ../.work/extract.bin . ) || { echo "setup: extractor does not build"; exit 1; }
mkdir -p .work/gen0
if .work/extract.bin -repo "${VERIF_REPO:-/repo}" -out .work/gen0; then
  for f in .work/gen0/*.lean; do
    d="lean/KM/Gen/$(basename "$f")"
    cmp -s "$f" "$d" || cp "$f" "$d"
  done
  cp .work/gen0/facts.json .work/facts.json
  cp .work/gen0/routes_glue_test.go .work/routes_glue_test.go
else
  echo "setup: WARNING the extractor failed on the working tree; the checks will report it"
fi
rm -rf .work/gen0
( cd lean && lake build ) || echo "setup: WARNING lake build failed; the checks will report the broken obligations"
# the judge: same Model/Driver, built against the committed facts snapshot (lean-judge/KM/Gen);
# then warm the go build cache for the harness packages
python3 bin/setup_warm.py || echo "setup: WARNING warm-up step failed; the checks rebuild what they need"
echo setup ok
