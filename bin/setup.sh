#!/bin/bash
# Build everything from files on disk only (offline): extractor, Lean project, harness compile cache.
set -e
cd "$(dirname "$0")/.."
export GOFLAGS=-mod=mod GOPROXY=off
unset GOSUMDB
mkdir -p .work evidence replay lean/KM/Gen
( cd extract && GOTOOLCHAIN=local go build -o ../.work/extract.bin . )
mkdir -p .work/gen0 && .work/extract.bin -repo "${VERIF_REPO:-/repo}" -out .work/gen0
for f in .work/gen0/*.lean; do
  d="lean/KM/Gen/$(basename "$f")"
  cmp -s "$f" "$d" || cp "$f" "$d"
done
cp .work/gen0/facts.json .work/facts.json
cp .work/gen0/routes_glue_test.go .work/routes_glue_test.go
rm -rf .work/gen0
( cd lean && lake build )
# the judge: same Model/Driver, built against the committed facts snapshot (lean-judge/KM/Gen)
python3 - <<'PY'
import sys, os
sys.path.insert(0, os.getcwd())
from checks import common as c
ctx = c.Ctx("setup", "quick", 1)
print("judge:", c.build_judge(ctx), ctx.coverage.get("judge_facts_snapshot"), ctx.notes[-1:] )
ctx.cleanup()
PY
# warm the go build cache for the harness packages
python3 - <<'PY'
import sys, os
sys.path.insert(0, os.getcwd())
from checks import common as c
ctx = c.Ctx("setup", "quick", 1)
for d, pkg in c.harness_packages().items():
    pre = c.NETNS_PREFIX if c.netns_available() else []
    rc, out = c.sh(pre + ["go", "test", "-tags", "verif", "-overlay", c.overlay_file(ctx), "-vet=off", "-count=1", "-run", "^$", "./" + pkg + "/"], cwd=c.REPO, env=c.GOENV)
    print(pkg, "compile rc", rc, out[-300:])
    if rc != 0: sys.exit(1)
ctx.cleanup()
PY
echo setup ok
