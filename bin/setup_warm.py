#!/usr/bin/env python3
"""Second half of bin/setup.sh: build the judge driver and warm the go build cache of the harness packages.
Nothing here decides anything: every check rebuilds what it needs from /repo's working tree. A failure is printed
as a warning and never fails setup (a harness that does not compile against a changed tree is the check's finding)."""
import os
import sys

sys.path.insert(0, os.path.join(os.path.dirname(os.path.abspath(__file__)), ".."))
from checks import common as c  # noqa: E402


def main():
    ctx = c.Ctx("setup", "quick", 1)
    try:
        try:
            print("judge:", c.build_judge(ctx), ctx.coverage.get("judge_facts_snapshot"), ctx.notes[-1:])
        except Exception as e:  # noqa: BLE001
            print("setup: WARNING judge build failed (%s); the checks rebuild it" % e)
        pre = c.NETNS_PREFIX if c.netns_available() else []
        for d, pkg in c.harness_packages().items():
            base = pre + ["go", "test", "-tags", "verif", "-overlay", c.overlay_file(ctx), "-vet=off"]
            for attempt in range(4):
                rc, out = c.sh(base + ["-count=1", "-run", "^$", "./" + pkg + "/"], cwd=c.REPO, env=c.GOENV)
                print(pkg, "compile rc", rc, out[-300:])
                # the package's own test init() may lose its 20 ms start-up race (common.test_init_flake): re-run
                if rc == 0 or not c.test_init_flake(out):
                    break
            if rc != 0:
                rc2, out2 = c.sh(base + ["-c", "-o", os.devnull, "./" + pkg + "/"], cwd=c.REPO, env=c.GOENV)
                print(pkg, "compile-only rc", rc2, out2[-300:])
                print("setup: WARNING harness package %s: %s against the working tree; the checks will report it"
                      % (pkg, "does not compile" if rc2 != 0 else "compiles but its test binary does not start"))
    finally:
        ctx.cleanup()


if __name__ == "__main__":
    main()
