#!/bin/bash
# bin/sweep.sh <tier> <seeds...>: run every check for each seed; print one line per run (used with `vp run --with-repo`)
tier=$1; shift
[ -n "$VP_RUN_REPO" ] && export VERIF_REPO=$VP_RUN_REPO
cd "$(dirname "$0")/.."
bin/setup.sh > .work-setup.log 2>&1 || { echo "SETUP FAILED"; tail -20 .work-setup.log; exit 1; }
for seed in "$@"; do
  for p in C01 C02 C03 C04 C05 C06 C07 C08 C09 C10 C11 C12 C13 C14 C15 C16 C17 C18 C19 C20; do
    start=$(date +%s)
    out=$(VERIF_SEED=$seed bin/check $p --tier $tier 2>&1 | grep -v "^KNOWN-FINDING" | tail -3 | tr '\n' ' ')
    echo "seed=$seed $p $(( $(date +%s) - start ))s :: ${out:0:400}"
  done
done
