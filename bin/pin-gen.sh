#!/bin/bash
# bin/pin-gen.sh: snapshot the facts regenerated from the CURRENT tree as the judge's facts.
# Run only on an unchanged, validated tree (all checks OK), e.g. after a `fix:` commit was merged.
set -e
cd "$(dirname "$0")/.."
export GOFLAGS=-mod=mod GOPROXY=off; unset GOSUMDB
if [ -n "$(git -C "${VERIF_REPO:-/repo}" status --porcelain)" ]; then
  echo "pin-gen: ${VERIF_REPO:-/repo} has uncommitted changes (a seeded change applied?) - refusing to snapshot its facts" >&2; exit 1
fi
[ -x .work/extract.bin ] || ( cd extract && GOTOOLCHAIN=local go build -o ../.work/extract.bin . )
mkdir -p .work/genpin && .work/extract.bin -repo "${VERIF_REPO:-/repo}" -out .work/genpin >/dev/null
mkdir -p lean-judge/KM/Gen
rm -f lean-judge/KM/Gen/*.lean
cp .work/genpin/*.lean lean-judge/KM/Gen/
rm -rf .work/genpin
git -C "${VERIF_REPO:-/repo}" rev-parse HEAD > lean-judge/KM/Gen/PINNED_AT
ls lean-judge/KM/Gen | wc -l
