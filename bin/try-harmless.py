#!/usr/bin/env python3
"""bin/try-harmless.py <out dir> <id> <prop> [<prop>...]

A candidate PROPERTY-PRESERVING change (round 4: testing the checks for false alarms): confirms in a scratch
worktree that it applies, builds and passes the 143-test baseline, then applies it to /repo, runs the named
checks (quick tier), undoes it, and files it under /verif/harmless/<id>/ with the outcome per check:
ok | tie (VIOLATION … no-failing-input-found: permitted by the brief for a rewrite that breaks a proof or
the correspondence) | FAILING-INPUT (the judge reported a concrete input on code that is claimed to keep the
property: to be examined — either the claim is wrong or the judge demands too much)."""
import json
import os
import re
import shutil
import subprocess
import sys

VERIF = os.path.dirname(os.path.dirname(os.path.abspath(__file__)))
ENV = dict(os.environ, GOFLAGS="-mod=mod", GOPROXY="off")
ENV.pop("GOSUMDB", None)
NS = ["unshare", "-n", "sh", "-c", 'ip link set lo up && exec "$@"', "sh"]


def sh(cmd, cwd=None, env=None, timeout=3000):
    p = subprocess.run(cmd, cwd=cwd, env=env or ENV, stdout=subprocess.PIPE, stderr=subprocess.STDOUT, text=True, timeout=timeout)
    return p.returncode, p.stdout


def main():
    src, sid, props = os.path.abspath(sys.argv[1]), sys.argv[2], sys.argv[3:]
    meta = json.load(open(os.path.join(src, "meta.json")))
    patch = os.path.join(src, "patch.diff")
    wt = "/tmp/wt-harmless-%d" % os.getpid()
    sh(["git", "-C", "/repo", "worktree", "add", "-q", "--detach", wt, "HEAD"])
    result = {"property": meta.get("property"), "kind": meta.get("kind"), "summary": meta.get("summary"),
              "why_property_still_holds": meta.get("why_property_still_holds"), "files_changed": meta.get("files_changed"), "source": src}
    try:
        rc, out = sh(["git", "apply", "--recount", patch], cwd=wt)
        result["applies"] = rc == 0
        if rc != 0:
            result["apply_error"] = out[-500:]
        else:
            rcb, outb = sh(["go", "build", "-o", "/dev/null", "./cmd/keymasterd"], cwd=wt)
            result["builds"] = rcb == 0
            rcs, outs = sh([os.path.join(VERIF, "bin", "baseline.sh")], env=dict(ENV, VERIF_REPO=wt))
            result["baseline_with_change"] = outs.strip().splitlines()[0] if outs.strip() else "?"
            result["baseline_ok"] = rcs == 0
    finally:
        sh(["git", "-C", "/repo", "worktree", "remove", "--force", wt])
    confirmed = result.get("applies") and result.get("builds") and result.get("baseline_ok")
    result["confirmed"] = bool(confirmed)
    checks = {}
    evbak = "/tmp/evidence-bak-%d" % os.getpid()
    shutil.copytree(os.path.join(VERIF, "evidence"), evbak)   # evidence committed must come from the unchanged tree
    if confirmed:
        rc, out = sh(["git", "-C", "/repo", "apply", "--recount", patch])
        try:
            for p in props:
                rc, out = sh([os.path.join(VERIF, "bin", "check"), p, "--tier", "quick"], cwd=VERIF)
                lines = [l for l in out.strip().splitlines() if not l.startswith("KNOWN-FINDING")]
                kind = "ok" if rc == 0 else ("tie" if any("no-failing-input-found" in l for l in lines[-2:]) else "FAILING-INPUT")
                checks[p] = {"exit": rc, "outcome": kind, "tail": lines[-6:]}
        finally:
            sh(["git", "-C", "/repo", "checkout", "--", "."])
            sh(["git", "-C", "/repo", "clean", "-fdq"])
    shutil.rmtree(os.path.join(VERIF, "evidence"))
    shutil.move(evbak, os.path.join(VERIF, "evidence"))
    result["checks_quick"] = checks
    result["outcome"] = {p: v["outcome"] for p, v in checks.items()}
    dst = os.path.join(VERIF, "harmless", sid)
    os.makedirs(dst, exist_ok=True)
    for src_f, name in ((patch, "patch.diff"),):
        if os.path.abspath(src_f) != os.path.abspath(os.path.join(dst, name)):
            shutil.copy(src_f, os.path.join(dst, name))
    result["what_i_ran"] = "bin/try-harmless.py: scratch worktree of /repo HEAD: git apply, go build ./cmd/keymasterd, bin/baseline.sh (143 stable tests); then git -C /repo apply, bin/check <prop> --tier quick for each named property, git -C /repo checkout -- ."
    json.dump(result, open(os.path.join(dst, "meta.json"), "w"), indent=1)
    print(json.dumps({k: result.get(k) for k in ("confirmed", "kind", "baseline_with_change", "outcome")}, indent=0))
    for p, v in checks.items():
        print(p, v["exit"], " | ".join(v["tail"])[:600])
    # regenerate Gen for the unchanged tree
    subprocess.run([sys.executable, "-c", "import sys; sys.path.insert(0,%r); from checks import common as c; ctx=c.Ctx('restore','quick',1); c.regen(ctx); ctx.cleanup()" % VERIF])


if __name__ == "__main__":
    main()
