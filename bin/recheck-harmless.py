#!/usr/bin/env python3
"""bin/recheck-harmless.py <harmless id> [<prop>...]: apply an already confirmed property-PRESERVING change to $VERIF_REPO
(a lane), run the property's own check (or the named ones), undo it, and record the outcome per check in
harmless/<id>/meta.json of THIS verif copy under `recheck`: ok | tie | FAILING-INPUT (= a false alarm)."""
import json, os, subprocess, sys, shutil
VERIF = os.path.dirname(os.path.dirname(os.path.abspath(__file__)))
REPO = os.environ.get("VERIF_REPO", "/repo")
def sh(cmd, cwd=None):
    p = subprocess.run(cmd, cwd=cwd, stdout=subprocess.PIPE, stderr=subprocess.STDOUT, text=True)
    return p.returncode, p.stdout
hid = sys.argv[1]
d = os.path.join(VERIF, "harmless", hid)
meta = json.load(open(os.path.join(d, "meta.json")))
props = sys.argv[2:] or [meta["property"]]
head = subprocess.run(["git", "-C", REPO, "rev-parse", "--short", "HEAD"], stdout=subprocess.PIPE, text=True).stdout.strip()
rc, out = sh(["git", "-C", REPO, "apply", "--recount", os.path.join(d, "patch.diff")])
how = "git apply"
if rc != 0:
    rc, out = sh(["git", "-C", REPO, "apply", "--3way", "--recount", os.path.join(d, "patch.diff")])
    how = "git apply --3way"
evbak = "/tmp/evidence-bak-%d" % os.getpid()
shutil.copytree(os.path.join(VERIF, "evidence"), evbak)
res = {"tree": head}
try:
    if rc != 0:
        res["status"] = "patch no longer applies: " + out[-200:]
    else:
        rcb, outb = sh(["go", "build", "-o", "/dev/null", "./cmd/keymasterd"], cwd=REPO)
        if rcb != 0:
            res["status"] = "applied (%s) but does not build: %s" % (how, outb[-200:])
        else:
            res["status"] = "applied with " + how
            res["checks"] = {}
            for p in props:
                rcc, outc = sh([os.path.join(VERIF, "bin", "check"), p, "--tier", "quick"], cwd=VERIF)
                lines = [l for l in outc.strip().splitlines() if not l.startswith("KNOWN-FINDING")]
                kind = "ok" if rcc == 0 else ("tie" if any("no-failing-input-found" in l for l in lines[-3:]) else "FAILING-INPUT")
                res["checks"][p] = {"outcome": kind, "tail": lines[-4:]}
finally:
    sh(["git", "-C", REPO, "reset", "-q", "--hard"]); sh(["git", "-C", REPO, "clean", "-fdq"])
    shutil.rmtree(os.path.join(VERIF, "evidence")); shutil.move(evbak, os.path.join(VERIF, "evidence"))
meta["recheck"] = res
json.dump(meta, open(os.path.join(d, "meta.json"), "w"), indent=1)
print(hid, res.get("status"), {p: v["outcome"] for p, v in res.get("checks", {}).items()})
subprocess.run([sys.executable, "-c", "import sys; sys.path.insert(0,%r); from checks import common as c; ctx=c.Ctx('restore','quick',1); c.regen(ctx); ctx.cleanup()" % VERIF])
