#!/usr/bin/env python3
"""bin/update-pins.py: (re)writes the `cNN_source_pins` theorems at the end of lean/KM/Props/{C01,C06,C09,C16}.lean
from the CURRENT lean/KM/Gen/Pins.lean. Run it only after re-validating the hand-written models against the
functions by reading them (the point of a pin is that somebody looked)."""
import os, re
HERE = os.path.dirname(os.path.dirname(os.path.abspath(__file__)))
gen = open(os.path.join(HERE, "lean/KM/Gen/Pins.lean")).read()
vals = dict(re.findall(r"def (\w+) : String := \"(\w+)\"", gen))
GROUPS = {
 "C06": ("KM.Auth", ["checkAuth", "getUsernameIfKeymasterSigned", "getUsernameIfIPRestricted", "getAuthInfoFromJWT",
                     "getAuthInfoFromAuthJWT", "getRequiredWebUIAuthLevel", "sendFailureToClientIfLocked",
                     "sendFailureToClientIfNonAdmin", "commonTOTPPostHandler", "reprocessUsername", "checkUserPassword",
                     "checkPasswordAttemptLimit", "getOriginOrReferrer", "VerifyIPRestrictedX509CertIP", "IsIPRestrictedX509Cert"],
         "the functions `KM.Auth.checkAuth` and `KM.Routes` transcribe"),
 "C01": ("KM.CertGen", ["certGenHandler"], "`certGenHandler`, which `KM.CertGen.decide` transcribes (its gate functions are pinned by `c06_source_pins`)"),
 "C09": ("KM.Seal", ["unsealCA", "secretInjectorHandler", "loadSignersFromPemData", "signerPublicKeyToKeymasterKeys",
                     "readyzHandler", "isUnsealed", "pgpDecryptFileData"], "the functions `KM.Seal.inject` collapses into one atomic step"),
 "C16": ("KM.Conc", ["LoadUserProfile", "SaveUserProfile", "u2fTokenManagerHandler", "totpTokenManagerHandler",
                     "BootstrapOtpAuthHandler", "userBootstrapOtpHash", "performStateCleanup",
                     "consumeLoginChallenge", "u2fSignRequest", "u2fSignResponse", "webauthnAuthLogin", "webauthnAuthFinish"],
         "the load/decide/save handlers `KM.Conc.decide` transcribes, the storage primitives it treats as atomic, and the\nchallenge lookup / consume steps `KM.Conc.chStep` transcribes"),
}
for prop, (ns, fns, what) in GROUPS.items():
    p = os.path.join(HERE, "lean/KM/Props/%s.lean" % prop)
    s = open(p).read()
    s = re.sub(r"\n-- BEGIN PINS.*?-- END PINS\n", "\n", s, flags=re.S)
    if "import KM.Gen.Pins" not in s:
        s = s.replace("import ", "import KM.Gen.Pins\nimport ", 1)
    conj = " ∧\n    ".join('KM.Gen.Pins.%s = "%s"' % (f, vals[f]) for f in fns)
    proof = "⟨" + ", ".join(["rfl"] * len(fns)) + "⟩" if len(fns) > 1 else "rfl"
    block = ("\n-- BEGIN PINS (written by bin/update-pins.py)\nnamespace %s\n\n"
             "/-- **Source pins** (regenerated): SHA-256 (first 80 bits) of the signature and body, whitespace-normalised,\n"
             "of %s — equal to the values recorded when the model was last\nread against the code. Any edit, harmless or not, breaks this tie. -/\n"
             "theorem %s_source_pins :\n    %s := by\n  exact %s\n\nend %s\n-- END PINS\n") % (ns, what, prop.lower(), conj, proof, ns)
    open(p, "w").write(s.rstrip("\n") + "\n" + block)
    print(prop, len(fns), "pins")
