#!/bin/bash
# bin/mklane.sh <k>: a private lane /tmp/lane<k>/{verif,repo}: detached worktrees of /verif HEAD and /repo HEAD with the
# build outputs of /verif copied in, so that seeded changes can be tried in parallel without touching /repo or /verif.
# Use:  VERIF_REPO=/tmp/lane<k>/repo /tmp/lane<k>/verif/bin/try-seeded.py <dir> <id> <props...>;  remove with bin/rmlane.sh <k>
set -e
k=$1; L=/tmp/lane$k
mkdir -p $L
git -C /verif worktree add -q --detach $L/verif HEAD
git -C /repo worktree add -q --detach $L/repo HEAD
for d in lean/.lake lean/KM/Gen lean-judge/.lake lean-judge/KM/Model lean-judge/KM/Driver lean-judge/Main.lean .work; do
  [ -e /verif/$d ] && mkdir -p "$(dirname $L/verif/$d)" && cp -a /verif/$d $L/verif/$d
done
rm -rf $L/verif/.work/C* $L/verif/.work/setup* 2>/dev/null || true
echo $L
