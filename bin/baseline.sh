#!/bin/bash
# Runs the repository's pinned baseline (guard off) and compares with /root/.vp/BASELINE.json stable_pass.
cd "${VERIF_REPO:-/repo}" || exit 2
export GOFLAGS=-mod=mod GOPROXY=off
unset GOSUMDB
out=$(mktemp)
# cmd/keymasterd tests listen on a fixed port: serialise with the harness runs
if unshare -n true 2>/dev/null; then
  # private loopback: no collision with harness runs on the fixed test port
  unshare -n sh -c 'ip link set lo up && exec go test -json -vet=off -count=1 -timeout 25m ./...' > "$out" 2>/dev/null
else
  flock /tmp/.verif-gotest.lock go test -json -vet=off -count=1 -timeout 25m ./... > "$out" 2>/dev/null
fi
python3 - "$out" <<'PY'
import json,sys
passed=set()
for line in open(sys.argv[1]):
    try: e=json.loads(line)
    except Exception: continue
    if e.get("Action")=="pass" and e.get("Test"):
        passed.add(e["Package"]+"::"+e["Test"])
base=json.load(open("/root/.vp/BASELINE.json"))["stable_pass"]
missing=[t for t in base if t not in passed]
print("baseline: %d/%d stable tests pass" % (len(base)-len(missing), len(base)))
for m in missing: print("  MISSING", m)
sys.exit(1 if missing else 0)
PY
rc=$?
rm -f "$out"
exit $rc
