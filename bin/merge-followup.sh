#!/bin/bash
# bin/merge-followup.sh <name> <seeded ids...>: merge a builder's follow-up branch (verif only), refresh seeded records
n=$1; shift
cd /verif
git merge --no-edit b-$n >/dev/null 2>&1
for f in $(git status --short | grep "^UU\|^AA" | awk '{print $2}'); do
  case $f in
    evidence/*) git checkout --theirs $f ;;
    MANIFEST.json|checks/common.py|bin/*) git checkout --ours $f ;;
    *) echo "UNRESOLVED $f" ;;
  esac
  git add $f
done
for f in $(git status --short | grep "^DU\|^UD" | awk '{print $2}'); do git rm -q --cached $f 2>/dev/null || git rm -q $f; done
bin/mkmanifest.py >/dev/null
git add -A; git commit -qm "merge b-$n follow-up"
git worktree remove --force /tmp/w-$n/verif; git -C /repo worktree remove --force /tmp/w-$n/repo; rm -rf /tmp/w-$n
git branch -D b-$n -q; git -C /repo branch -D b-$n -q
for sid in "$@"; do
  prop=${sid%%-*}
  bin/check $prop | grep -v KNOWN | tail -1
  bin/try-seeded.py seeded/$sid $sid $prop 2>&1 | tail -1 | cut -c1-260
done
bin/mkdesign-seeded.py >/dev/null
git add -A; git commit -qm "seeded records refreshed after b-$n follow-up" -q
