#!/bin/bash
# bin/mkwork.sh <name>: private copy for a builder: /tmp/w-<name>/{verif,repo} as git worktrees on branch b-<name>
set -e
n=$1; W=/tmp/w-$n
mkdir -p $W
git -C /verif worktree add -q -b b-$n $W/verif
git -C /repo worktree add -q -b b-$n $W/repo
echo $W
