#!/usr/bin/env python3
"""Regenerates the seeded-changes table of DESIGN.md (between the SEEDED markers) from seeded/*/meta.json."""
import glob, json, os, re
HERE = os.path.dirname(os.path.dirname(os.path.abspath(__file__)))
rows = ["| seeded id | what it changes (needs to manifest) | confirmed | caught by (quick tier) |", "|---|---|---|---|"]
for d in sorted(glob.glob(os.path.join(HERE, "seeded", "*", "meta.json"))):
    m = json.load(open(d)); sid = os.path.basename(os.path.dirname(d))
    kinds = []
    for p, v in (m.get("checks_quick") or {}).items():
        if v["exit"] != 0:
            kinds.append(p + (": tie" if any("no-failing-input-found" in t for t in v["tail"]) else ": input"))
    summ = re.sub(r"\s+", " ", (m.get("summary") or "")).replace("|", "/")
    if len(summ) > 170: summ = summ[:167] + "…"
    rows.append("| %s | %s | %s | %s |" % (sid, summ, "yes" if m.get("confirmed") else "no", ", ".join(kinds) or "**missed**"))
table = "\n".join(rows)
p = os.path.join(HERE, "DESIGN.md")
s = open(p).read()
s = re.sub(r"<!-- SEEDED -->.*?<!-- /SEEDED -->", lambda _m: "<!-- SEEDED -->\n" + table + "\n<!-- /SEEDED -->", s, flags=re.S)
open(p, "w").write(s)
print(len(rows) - 2, "seeded rows")
