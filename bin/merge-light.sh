#!/bin/bash
# bin/merge-light.sh <name>...: merge builder branches b-<name> (verif only), resolve the usual conflicts, drop the workspaces
cd /verif
for n in "$@"; do
  git merge --no-edit b-$n >/dev/null 2>&1
  for f in $(git status --short | grep "^UU\|^AA" | awk '{print $2}'); do
    case $f in
      evidence/*) git checkout --theirs $f ;;
      MANIFEST.json|checks/common.py|bin/*) git checkout --ours $f ;;
      *) echo "UNRESOLVED $n $f" ;;
    esac
    git add $f
  done
  if git status --short | grep -q "^UU\|^AA\|UNRESOLVED"; then echo "STOP at $n"; exit 1; fi
  git commit -qm "merge b-$n (round 5 follow-up)" 2>/dev/null
  git worktree remove --force /tmp/w-$n/verif 2>/dev/null; git -C /repo worktree remove --force /tmp/w-$n/repo 2>/dev/null; rm -rf /tmp/w-$n
  git branch -D b-$n -q 2>/dev/null; git -C /repo branch -D b-$n -q 2>/dev/null
  echo "merged $n: $(git log --oneline | head -1 | cut -c1-80)"
done
