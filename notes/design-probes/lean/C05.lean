/-! Prototype C05: session state machine with ghost log; VIP push confusion.
    Go maps are modelled as functions K → Option V. -/
namespace C05

abbrev User := Nat
abbrev Factor := Nat
def fPassword : Factor := 1
def fVIP : Factor := 4

structure Cookie where
  sub : User
  level : List Factor
deriving DecidableEq, Repr

structure Tx where
  user : User
  approved : Bool
deriving DecidableEq, Repr

structure State where
  cookies : List Cookie
  txs : Nat → Option Tx
  log : List (User × Factor)

inductive Op
  | login (u : User) (pwOk : Bool)
  | pushStart (c : Cookie) (key : Nat)
  | approve (key : Nat)
  | poll (c : Cookie) (key : Nat)

def init : State := ⟨[], fun _ => none, []⟩

def upd (m : Nat → Option Tx) (k : Nat) (v : Tx) : Nat → Option Tx := fun k' => if k' = k then some v else m k'

def step (checkUser : Bool) (s : State) : Op → State
  | .login u pwOk =>
    if pwOk then { s with cookies := ⟨u, [fPassword]⟩ :: s.cookies, log := (u, fPassword) :: s.log } else s
  | .pushStart c key =>
    if c ∈ s.cookies then
      match s.txs key with
      | some _ => s
      | none => { s with txs := upd s.txs key ⟨c.sub, false⟩ }
    else s
  | .approve key =>
    match s.txs key with
    | some t => { s with txs := upd s.txs key { t with approved := true }, log := (t.user, fVIP) :: s.log }
    | none => s
  | .poll c key =>
    if c ∈ s.cookies then
      match s.txs key with
      | some t =>
        if t.approved && (!checkUser || t.user == c.sub) then
          { s with cookies := ⟨c.sub, fVIP :: c.level⟩ :: s.cookies }
        else s
      | none => s
    else s

def run (checkUser : Bool) (ops : List Op) : State := ops.foldl (step checkUser) init

def Inv (s : State) : Prop :=
  (∀ c ∈ s.cookies, ∀ f ∈ c.level, (c.sub, f) ∈ s.log) ∧
  (∀ k t, s.txs k = some t → t.approved = true → (t.user, fVIP) ∈ s.log)

theorem step_inv (s : State) (op : Op) (h : Inv s) : Inv (step true s op) := by
  obtain ⟨hc, ht⟩ := h
  cases op with
  | login u pwOk =>
    simp only [step]
    split
    · refine ⟨?_, ?_⟩
      · intro c hcm f hf
        simp only [List.mem_cons] at hcm
        rcases hcm with rfl | hcm
        · simp only [List.mem_singleton] at hf; subst hf; simp
        · exact List.mem_cons_of_mem _ (hc c hcm f hf)
      · intro k t htm hap; exact List.mem_cons_of_mem _ (ht k t htm hap)
    · exact ⟨hc, ht⟩
  | pushStart c key =>
    simp only [step]
    split
    · split
      · exact ⟨hc, ht⟩
      · refine ⟨hc, ?_⟩
        intro k t htm hap
        simp only [upd] at htm
        split at htm
        · injection htm with htm; subst htm; simp at hap
        · exact ht k t htm hap
    · exact ⟨hc, ht⟩
  | approve key =>
    simp only [step]
    split
    · rename_i t0 ht0
      refine ⟨?_, ?_⟩
      · intro c hcm f hf; exact List.mem_cons_of_mem _ (hc c hcm f hf)
      · intro k t htm hap
        simp only [upd] at htm
        split at htm
        · injection htm with htm; subst htm; simp
        · exact List.mem_cons_of_mem _ (ht k t htm hap)
    · exact ⟨hc, ht⟩
  | poll c key =>
    simp only [step]
    split
    · rename_i hmem
      split
      · rename_i t hft
        split
        · rename_i hcond
          refine ⟨?_, ht⟩
          intro c' hcm f hf
          simp only [List.mem_cons] at hcm
          rcases hcm with rfl | hcm
          · simp only [List.mem_cons] at hf
            simp only [Bool.not_true, Bool.false_or, Bool.and_eq_true, beq_iff_eq] at hcond
            rcases hf with rfl | hf
            · have := ht key t hft hcond.1
              rw [← hcond.2]; exact this
            · exact hc c hmem f hf
          · exact hc c' hcm f hf
        · exact ⟨hc, ht⟩
      · exact ⟨hc, ht⟩
    · exact ⟨hc, ht⟩

theorem init_inv : Inv init := by
  refine ⟨?_, ?_⟩
  · intro c h; simp [init] at h
  · intro k t h; simp [init] at h

theorem run_inv (ops : List Op) : Inv (run true ops) := by
  unfold run
  suffices ∀ s, Inv s → Inv (ops.foldl (step true) s) from this init init_inv
  induction ops with
  | nil => intro s h; exact h
  | cons op ops ih => intro s h; exact ih _ (step_inv s op h)

/-- today's handler (no user comparison): concrete history in which alice's cookie carries a
    VIP bit although only bob's VIP verification is in the log -/
theorem old_violates : ¬ Inv (run false
    [.login 0 true, .login 1 true, .pushStart ⟨1, [fPassword]⟩ 7, .approve 7, .poll ⟨0, [fPassword]⟩ 7]) := by
  intro h
  have := h.1 ⟨0, [fVIP, fPassword]⟩ (by decide) fVIP (by decide)
  revert this
  decide

end C05
