/-! Prototype C03: duration clamp and SSH epoch arithmetic -/
namespace C03

def ns : Int := 1000000000
def maxLife : Int := 86400 * ns       -- maxCertificateLifetime
def two64 : Int := 18446744073709551616

/-- Go/amd64 `uint64(f)` for a float holding an integer-valued or fractional number of
seconds: truncation toward zero of d/1e9 as int64, reinterpreted mod 2^64.
(For |d| ≤ 24h the float is exact enough that trunc = Int.tdiv; validated by the harness.) -/
def secsU64 (d : Int) : Int := (Int.tdiv d ns) % two64

inductive Res | reject | ok (d : Int)
deriving DecidableEq

/-- certGenHandler as it is today -/
def cap (d now iat : Int) : Int := if d > (iat + 86400 - now) * ns then (iat + 86400 - now) * ns else d

def clampOld (req : Option Int) (now iat : Int) : Res :=
  match req with
  | none => .ok (cap maxLife now iat)
  | some nd => if nd > maxLife then .reject else .ok (cap nd now iat)

/-- repaired: negative requested durations are rejected -/
def clampNew (req : Option Int) (now iat : Int) : Res :=
  match req with
  | some nd => if nd < 0 then .reject else clampOld req now iat
  | none => clampOld req now iat

def sshValidBefore (now d : Int) : Int := (now + secsU64 d) % two64

/-- witness on today's code: duration=-600000h gives a validity end near 2^64 -/
theorem old_unbounded :
    ∃ nd now iat, ∃ d, clampOld (some nd) now iat = .ok d ∧ sshValidBefore now d > now + 86400 := by
  refine ⟨-600000 * 3600 * ns, 1790658750, 1790658750, -600000 * 3600 * ns, ?_, ?_⟩ <;> decide

theorem clampNew_bounds (req : Option Int) (now iat d : Int)
    (hle : iat ≤ now) (hage : now - iat ≤ 86400)
    (h : clampNew req now iat = .ok d) :
    0 ≤ d ∧ d ≤ maxLife ∧ d ≤ (iat + 86400 - now) * ns ∧ (∀ nd, req = some nd → d ≤ nd) := by
  unfold clampNew clampOld at h
  cases req with
  | none =>
    simp only [Res.ok.injEq] at h
    subst h
    unfold cap maxLife ns
    refine ⟨by omega, by omega, by omega, ?_⟩
    intro nd hc; cases hc
  | some nd =>
    simp only at h
    split at h
    · cases h
    · split at h
      · cases h
      · simp only [Res.ok.injEq] at h
        subst h
        unfold cap maxLife ns at *
        refine ⟨by omega, by omega, by omega, ?_⟩
        intro nd' hc; injection hc with hc; subst hc; omega

theorem new_bounded (req : Option Int) (now iat d : Int)
    (hnow : 0 ≤ now) (hnow2 : now < 2^40) (hiat : 0 ≤ iat) (hle : iat ≤ now)
    (hage : now - iat ≤ 86400)
    (h : clampNew req now iat = .ok d) :
    now ≤ sshValidBefore now d ∧ sshValidBefore now d ≤ now + 86400 ∧
    sshValidBefore now d ≤ iat + 86400 ∧
    (∀ nd, req = some nd → sshValidBefore now d ≤ now + Int.tdiv nd ns) := by
  obtain ⟨h0, h1, h2, h3⟩ := clampNew_bounds req now iat d hle hage h
  have hq : Int.tdiv d ns = d / ns := Int.tdiv_eq_ediv_of_nonneg h0
  have hq0 : 0 ≤ d / ns := Int.ediv_nonneg h0 (by decide)
  have hq1 : d / ns ≤ 86400 := by
    have : d ≤ 86400 * ns := h1
    simp only [ns] at *
    omega
  have hq2 : d / ns ≤ iat + 86400 - now := by
    simp only [ns] at *
    omega
  have hsec : secsU64 d = d / ns := by
    unfold secsU64; rw [hq]; apply Int.emod_eq_of_lt hq0; simp only [two64]; omega
  have hvb : sshValidBefore now d = now + d / ns := by
    unfold sshValidBefore; rw [hsec]; apply Int.emod_eq_of_lt (by omega)
    simp only [two64]
    have : (2:Int)^40 = 1099511627776 := by decide
    omega
  rw [hvb]
  refine ⟨by omega, by omega, by omega, ?_⟩
  intro nd hnd
  have := h3 nd hnd
  have h0' : 0 ≤ nd := by omega
  rw [Int.tdiv_eq_ediv_of_nonneg h0']
  have : d / ns ≤ nd / ns := Int.ediv_le_ediv (by decide) this
  omega

end C03
