/-! Prototype: login destination filter (fixed form) and WHATWG start state -/
namespace C17

def profilePath : String := "/profile/"

def isCtl (c : Char) : Bool := c.val < 0x20 || c.val == 0x7f

/-- the *repaired* filter, over characters -/
def safeChars : List Char → Bool
  | '/' :: [] => true
  | '/' :: c :: rest => c != '/' && c != '\\' && !(c :: rest).any isCtl
  | _ => false

def filter (s : String) : String := if safeChars s.toList then s else profilePath

/-- the filter as the code has it today: two prefix tests -/
def safeCharsOld : List Char → Bool
  | '/' :: '/' :: _ => false
  | '/' :: _ => true
  | _ => false

inductive Start | pathAbsolute | authority | other
deriving DecidableEq, Repr

/-- WHATWG: strip leading C0/space, remove tab/LF/CR everywhere, then look at first two code points -/
def stripLead : List Char → List Char
  | c :: cs => if c.val ≤ 0x20 then stripLead cs else c :: cs
  | [] => []

def dropTabNl (l : List Char) : List Char := l.filter (fun c => !(c == '\t' || c == '\n' || c == '\r'))

def browserStart (l : List Char) : Start :=
  match dropTabNl (stripLead l) with
  | '/' :: '/' :: _ => .authority
  | '/' :: '\\' :: _ => .authority
  | '\\' :: _ => .authority   -- backslash is treated as slash in special schemes
  | '/' :: _ => .pathAbsolute
  | _ => .other

theorem noctl_dropTabNl (l : List Char) (h : l.any isCtl = false) : dropTabNl l = l := by
  unfold dropTabNl
  apply List.filter_eq_self.mpr
  intro c hc
  have : isCtl c = false := by
    have := List.any_eq_false.mp h c hc
    simpa using this
  simp only [isCtl, Bool.or_eq_false_iff] at this
  have h1 := this.1
  simp only [decide_eq_false_iff_not, Nat.not_lt] at h1
  simp only [Bool.not_eq_true', Bool.or_eq_false_iff, beq_eq_false_iff_ne, ne_eq]
  refine ⟨⟨?_, ?_⟩, ?_⟩ <;> (intro e; subst e; revert h1; decide)

theorem safe_same_origin (l : List Char) (h : safeChars l = true) : browserStart l = .pathAbsolute := by
  unfold safeChars at h
  split at h
  · decide
  · rename_i c rest
    simp only [Bool.and_eq_true, bne_iff_ne, ne_eq, Bool.not_eq_true'] at h
    obtain ⟨⟨h1, h2⟩, h3⟩ := h
    have hs : stripLead ('/' :: c :: rest) = '/' :: c :: rest := by
      simp [stripLead]
    have hd : dropTabNl ('/' :: c :: rest) = '/' :: c :: rest := by
      have : dropTabNl (c :: rest) = c :: rest := noctl_dropTabNl _ h3
      unfold dropTabNl at this ⊢
      rw [List.filter_cons_of_pos (by decide), this]
    unfold browserStart
    rw [hs, hd]
    split <;> simp_all
  · simp at h

theorem filter_ok (s : String) : filter s = profilePath ∨ safeChars (filter s).toList = true := by
  unfold filter
  split
  · right; assumption
  · left; rfl

/-- the current code's filter is NOT safe: witness -/
theorem old_unsafe : ∃ l, safeCharsOld l = true ∧ browserStart l = .authority :=
  ⟨['/', '\\', 'e'], by decide⟩
theorem old_unsafe_tab : ∃ l, safeCharsOld l = true ∧ browserStart l = .authority :=
  ⟨['/', '\t', '/', 'e'], by decide⟩

end C17
