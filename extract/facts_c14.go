package main

// C14 — password and one-time-code guessing is throttled.
// Facts regenerated from cmd/keymasterd: the TOTP limiter constants, the statement order of
// validateUserTOTP, what the "every 5th failure" statement does with lockoutExpirationTime,
// how the global password limiter is configured, and whether the limiter call dominates the
// backend call in every function that calls checkUserPassword.

import (
	"fmt"
	"go/ast"
	"go/token"
	"sort"
	"strings"
)

func init() { register("c14-ratelimit", genC14) }

const c14Second = int64(1000000000)

// c14sel returns "a.b.c" for a selector chain of identifiers, "" otherwise.
func c14sel(e ast.Expr) string {
	switch x := e.(type) {
	case *ast.Ident:
		return x.Name
	case *ast.SelectorExpr:
		l := c14sel(x.X)
		if l == "" {
			return ""
		}
		return l + "." + x.Sel.Name
	case *ast.ParenExpr:
		return c14sel(x.X)
	}
	return ""
}

// c14method matches `<recv>.<name>(args)` and returns recv expr and args.
func c14method(e ast.Expr, name string) (ast.Expr, []ast.Expr, bool) {
	ce, ok := e.(*ast.CallExpr)
	if !ok {
		return nil, nil, false
	}
	se, ok := ce.Fun.(*ast.SelectorExpr)
	if !ok || se.Sel.Name != name {
		return nil, nil, false
	}
	return se.X, ce.Args, true
}

func c14isTimeNow(e ast.Expr) bool {
	recv, args, ok := c14method(e, "Now")
	return ok && len(args) == 0 && c14sel(recv) == "time"
}

// c14durSecs evaluates a constant duration expression to whole seconds.
func c14durSecs(p *pkgInfo, e ast.Expr) (int64, bool) {
	v, ok := p.evalInt(e, 0)
	if !ok || v <= 0 || v%c14Second != 0 {
		return 0, false
	}
	return v / c14Second, true
}

// c14returnsFalse: block ends with `return false, …`
func c14endsReturnFalse(b *ast.BlockStmt) bool {
	if b == nil || len(b.List) == 0 {
		return false
	}
	rs, ok := b.List[len(b.List)-1].(*ast.ReturnStmt)
	if !ok || len(rs.Results) == 0 {
		return false
	}
	id, ok := rs.Results[0].(*ast.Ident)
	return ok && id.Name == "false"
}

func c14hasReturn(n ast.Node) bool {
	found := false
	ast.Inspect(n, func(x ast.Node) bool {
		if _, ok := x.(*ast.ReturnStmt); ok {
			found = true
		}
		return !found
	})
	return found
}

func c14hasAssign(n ast.Node) bool {
	found := false
	ast.Inspect(n, func(x ast.Node) bool {
		switch x.(type) {
		case *ast.AssignStmt, *ast.IncDecStmt:
			found = true
		}
		return !found
	})
	return found
}

// c14callTo: call to `name` — "pkg.Func" matches exactly that qualified call, a bare name matches
// the function `name(…)` and any method call `<expr>.name(…)`.
func c14callTo(e ast.Expr, name string) (*ast.CallExpr, bool) {
	ce, ok := e.(*ast.CallExpr)
	if !ok {
		return nil, false
	}
	if strings.Contains(name, ".") {
		return ce, c14sel(ce.Fun) == name
	}
	switch f := ce.Fun.(type) {
	case *ast.Ident:
		return ce, f.Name == name
	case *ast.SelectorExpr:
		return ce, f.Sel.Name == name
	}
	return ce, false
}

func c14containsCall(n ast.Node, name string) bool {
	found := false
	ast.Inspect(n, func(x ast.Node) bool {
		if e, ok := x.(ast.Expr); ok {
			if _, ok := c14callTo(e, name); ok {
				found = true
			}
		}
		return !found
	})
	return found
}

// assignment `lhs = rhs` (single) with lhs selector chain
func c14assign(s ast.Stmt) (string, ast.Expr, bool) {
	as, ok := s.(*ast.AssignStmt)
	if !ok || len(as.Lhs) != 1 || len(as.Rhs) != 1 || as.Tok != token.ASSIGN {
		return "", nil, false
	}
	l := c14sel(as.Lhs[0])
	return l, as.Rhs[0], l != ""
}

type c14totp struct {
	Order         []string `json:"order"`
	LockoutUpdate string   `json:"lockout_update"`
	LockoutSecs   int64    `json:"lockout_secs"`
	Every         int64    `json:"every"`
	SpacingSecs   int64    `json:"spacing_secs"`
	ResetSecs     int64    `json:"reset_secs"`
	Period        int64    `json:"period"`
	Notes         []string `json:"notes"`
}

func c14classifyLockoutUpdate(p *pkgInfo, body *ast.BlockStmt, everyExpr string) (string, int64) {
	const field = "userRateLimit.lockoutExpirationTime"
	if body == nil || len(body.List) != 1 {
		return "unknown", 0
	}
	switch s := body.List[0].(type) {
	case *ast.ExprStmt:
		recv, args, ok := c14method(s.X, "Add")
		if ok && len(args) == 1 && c14sel(recv) == field {
			if secs, ok := c14durSecs(p, args[0]); ok {
				return "discarded", secs
			}
		}
	case *ast.AssignStmt:
		lhs, rhs, ok := c14assign(s)
		if !ok || lhs != field {
			return "unknown", 0
		}
		recv, args, ok := c14method(rhs, "Add")
		if !ok || len(args) != 1 {
			return "unknown", 0
		}
		if c14sel(recv) == field {
			if secs, ok := c14durSecs(p, args[0]); ok {
				return "extendPrev", secs
			}
			return "unknown", 0
		}
		if c14isTimeNow(recv) {
			if secs, ok := c14durSecs(p, args[0]); ok {
				return "nowPlusFixed", secs
			}
			// time.Duration(failCount/every) * d   or   d * time.Duration(failCount/every)
			if be, ok := args[0].(*ast.BinaryExpr); ok && be.Op == token.MUL {
				for _, pr := range [][2]ast.Expr{{be.X, be.Y}, {be.Y, be.X}} {
					conv, ok := pr[0].(*ast.CallExpr)
					if !ok || len(conv.Args) != 1 || c14sel(conv.Fun) != "time.Duration" {
						continue
					}
					q, ok := conv.Args[0].(*ast.BinaryExpr)
					if !ok || q.Op != token.QUO || c14sel(q.X) != "userRateLimit.failCount" || p.str(q.Y) != everyExpr {
						continue
					}
					if secs, ok := c14durSecs(p, pr[1]); ok {
						return "nowPlusPerBlock", secs
					}
				}
			}
		}
	}
	return "unknown", 0
}

func c14analyseTOTP(p *pkgInfo) c14totp {
	res := c14totp{LockoutUpdate: "unknown"}
	fd := p.funcs["validateUserTOTP"]
	if fd == nil || fd.Body == nil {
		res.Notes = append(res.Notes, "validateUserTOTP not found")
		return res
	}
	const rl = "userRateLimit"
	for _, st := range fd.Body.List {
		cls := "unknown"
		switch s := st.(type) {
		case *ast.DeclStmt:
			cls = "other"
			if gd, ok := s.Decl.(*ast.GenDecl); ok && gd.Tok == token.CONST {
				for _, sp := range gd.Specs {
					vs := sp.(*ast.ValueSpec)
					for i, nm := range vs.Names {
						if nm.Name == "defaultPeriod" && i < len(vs.Values) {
							if v, ok := p.evalInt(vs.Values[i], 0); ok {
								res.Period = v
							}
						}
					}
				}
			}
		case *ast.ExprStmt:
			if recv, args, ok := c14method(s.X, "Lock"); ok && len(args) == 0 && c14sel(recv) == "state.totpLocalTateLimitMutex" {
				cls = "lock"
			} else if recv, args, ok := c14method(s.X, "Unlock"); ok && len(args) == 0 && c14sel(recv) == "state.totpLocalTateLimitMutex" {
				cls = "unlock"
			} else if recv, _, ok := c14method(s.X, "Printf"); ok && c14sel(recv) == "logger" {
				cls = "other"
			}
		case *ast.IncDecStmt:
			if s.Tok == token.INC && c14sel(s.X) == rl+".failCount" {
				cls = "incFail"
			}
		case *ast.ReturnStmt:
			if len(s.Results) == 2 && p.str(s.Results[0]) == "false" && p.str(s.Results[1]) == "nil" {
				cls = "retFalse"
			}
		case *ast.RangeStmt:
			if p.str(s.X) == "profile.TOTPAuthData" && c14containsCall(s.Body, "totpMatchedCounter") &&
				!c14containsCall(s.Body, "totp.Validate") && !c14containsCall(s.Body, "totp.ValidateCustom") {
				// per enabled device: matched step; a miss or a step not later than the last accepted one
				// goes on to the next device (and so to the failure path); success path: counter saved,
				// failCount = 0, lockout = now, stored, return true — in this order
				src := p.str(s.Body)
				seq := []string{
					"if !deviceInfo.Enabled { continue }",
					"matchedCounter, valid := totpMatchedCounter(OTPString, string(clearTextKey), counter, defaultPeriod)",
					"if !valid || matchedCounter <= profile.LastSuccessfullTOTPCounter { continue }",
					"profile.LastSuccessfullTOTPCounter = matchedCounter",
					rl + ".failCount = 0",
					rl + ".lockoutExpirationTime = time.Now()",
					"state.totpLocalRateLimit[username] = " + rl,
					"return true, nil",
				}
				pos, ok := 0, true
				for _, frag := range seq {
					i := strings.Index(src[pos:], frag)
					if i < 0 {
						ok = false
						res.Notes = append(res.Notes, "device loop: missing or out of order: "+frag)
						break
					}
					pos += i + len(frag)
				}
				if ok && strings.Count(src, "continue") == 2 && strings.Count(src, "return true") == 1 {
					cls = "deviceLoop"
				}
			}
		case *ast.AssignStmt:
			if len(s.Lhs) == 4 && len(s.Rhs) == 1 && c14containsCall(s.Rhs[0], "LoadUserProfile") {
				cls = "loadProfile"
				break
			}
			if len(s.Lhs) == 1 && len(s.Rhs) == 1 {
				l, r := p.str(s.Lhs[0]), s.Rhs[0]
				switch {
				case s.Tok == token.DEFINE && l == rl && p.str(r) == "state.totpLocalRateLimit[username]":
					cls = "readLimit"
				case s.Tok == token.ASSIGN && l == "state.totpLocalRateLimit[username]" && p.str(r) == rl:
					cls = "storeLimit"
				case s.Tok == token.ASSIGN && l == rl+".lastCheckTime" && c14isTimeNow(r):
					cls = "setLastCheck"
				case s.Tok == token.ASSIGN && l == rl+".lastFailTime" && c14isTimeNow(r):
					cls = "setLastFail"
				case s.Tok == token.DEFINE && (l == "counter" || l == "OTPString"):
					cls = "other"
				}
			}
		case *ast.IfStmt:
			if s.Init != nil || s.Else != nil {
				break
			}
			cond := s.Cond
			// err != nil right after the profile load
			if p.str(cond) == "err != nil" && c14endsReturnFalse(s.Body) {
				cls = "loadErr"
				break
			}
			if id, ok := cond.(*ast.Ident); ok && id.Name == "fromCache" && !c14hasReturn(s.Body) && !c14hasAssign(s.Body) {
				cls = "other"
				break
			}
			// X.After(time.Now()) / X.Before(time.Now())
			if recv, args, ok := c14method(cond, "After"); ok && len(args) == 1 && c14isTimeNow(args[0]) {
				if c14sel(recv) == rl+".lockoutExpirationTime" && c14endsReturnFalse(s.Body) && len(s.Body.List) == 1 {
					cls = "lockoutTest"
					break
				}
				if base, a2, ok := c14method(recv, "Add"); ok && len(a2) == 1 && c14sel(base) == rl+".lastCheckTime" {
					if secs, ok := c14durSecs(p, a2[0]); ok && c14endsReturnFalse(s.Body) && len(s.Body.List) == 2 &&
						p.str(s.Body.List[0]) == "state.totpLocalTateLimitMutex.Unlock()" {
						cls = "spacingTest"
						res.SpacingSecs = secs
					}
				}
				break
			}
			if recv, args, ok := c14method(cond, "Before"); ok && len(args) == 1 && c14isTimeNow(args[0]) {
				if base, a2, ok := c14method(recv, "Add"); ok && len(a2) == 1 && c14sel(base) == rl+".lastFailTime" {
					if secs, ok := c14durSecs(p, a2[0]); ok && len(s.Body.List) == 2 &&
						p.str(s.Body.List[0]) == rl+".failCount = 0" &&
						p.str(s.Body.List[1]) == rl+".lockoutExpirationTime = time.Now()" {
						cls = "resetTest"
						res.ResetSecs = secs
					}
				}
				break
			}
			if p.str(cond) == "profile.LastSuccessfullTOTPCounter == counter" && c14endsReturnFalse(s.Body) && !c14hasAssign(s.Body) {
				cls = "replayTest"
				break
			}
			// failCount % every == 0
			if be, ok := cond.(*ast.BinaryExpr); ok && be.Op == token.EQL && p.str(be.Y) == "0" {
				if m, ok := be.X.(*ast.BinaryExpr); ok && m.Op == token.REM && c14sel(m.X) == rl+".failCount" {
					if ev, ok := p.evalInt(m.Y, 0); ok && ev > 0 {
						cls = "lockoutUpdate"
						res.Every = ev
						res.LockoutUpdate, res.LockoutSecs = c14classifyLockoutUpdate(p, s.Body, p.str(m.Y))
					}
				}
			}
		}
		if cls == "unknown" {
			res.Notes = append(res.Notes, p.pos(st)+": "+p.str(st))
		}
		if cls != "other" {
			res.Order = append(res.Order, cls)
		}
	}
	return res
}

type c14match struct {
	Offsets  []int64 `json:"offsets"`
	OffsetOK bool    `json:"offsets_ok"`
	Skew     int64   `json:"skew"`
	SkewOK   bool    `json:"skew_ok"`
	ShapeOK  bool    `json:"shape_ok"`
}

// totpMatchedCounter(passcode, secret, counter, period): which steps are tried, in which order,
// with which skew, and that the step that validated is what is returned.
func c14analyseMatch(p *pkgInfo) c14match {
	var m c14match
	fd := p.funcs["totpMatchedCounter"]
	if fd == nil || fd.Body == nil || len(fd.Body.List) != 3 {
		return m
	}
	// opts := totp.ValidateOpts{Period: period, Skew: 0, …}
	if as, ok := fd.Body.List[0].(*ast.AssignStmt); ok && len(as.Rhs) == 1 && p.str(as.Lhs[0]) == "opts" {
		if cl, ok := as.Rhs[0].(*ast.CompositeLit); ok && p.str(cl.Type) == "totp.ValidateOpts" {
			period := false
			for _, el := range cl.Elts {
				if kv, ok := el.(*ast.KeyValueExpr); ok {
					switch p.str(kv.Key) {
					case "Skew":
						if v, ok := p.evalInt(kv.Value, 0); ok && v >= 0 {
							m.Skew, m.SkewOK = v, true
						}
					case "Period":
						period = p.str(kv.Value) == "period"
					}
				}
			}
			m.SkewOK = m.SkewOK && period
		}
	}
	rs, ok := fd.Body.List[1].(*ast.RangeStmt)
	if ok && p.str(rs.Value) == "step" {
		if cl, ok := rs.X.(*ast.CompositeLit); ok && p.str(cl.Type) == "[]int64" {
			m.OffsetOK = true
			for _, el := range cl.Elts {
				switch p.str(el) {
				case "counter":
					m.Offsets = append(m.Offsets, 0)
				case "counter - 1":
					m.Offsets = append(m.Offsets, -1)
				case "counter + 1":
					m.Offsets = append(m.Offsets, 1)
				default:
					m.OffsetOK = false
				}
			}
		}
		body := p.str(rs.Body)
		m.ShapeOK = len(rs.Body.List) == 2 &&
			p.str(rs.Body.List[0]) == "valid, err := totp.ValidateCustom(passcode, secret, time.Unix(step*int64(period), 0), opts)" &&
			strings.Contains(body, "if err == nil && valid { return step, true }")
	}
	if ret, ok := fd.Body.List[2].(*ast.ReturnStmt); !ok || p.str(ret) != "return 0, false" {
		m.ShapeOK = false
	}
	return m
}

type c14guard struct {
	Func  string `json:"func"`
	Class string `json:"class"`
	Calls int    `json:"backend_calls"`
	Pos   string `json:"guard_pos"`
}

// c14guardIf: `if err := state.checkPasswordAttemptLimit(…); err != nil { …; return … }`
func c14guardIf(p *pkgInfo, st ast.Stmt) bool {
	is, ok := st.(*ast.IfStmt)
	if !ok || is.Init == nil || is.Else != nil {
		return false
	}
	as, ok := is.Init.(*ast.AssignStmt)
	if !ok || len(as.Lhs) != 1 || len(as.Rhs) != 1 {
		return false
	}
	recv, _, ok := c14method(as.Rhs[0], "checkPasswordAttemptLimit")
	if !ok || c14sel(recv) != "state" {
		return false
	}
	if p.str(is.Cond) != p.str(as.Lhs[0])+" != nil" {
		return false
	}
	if len(is.Body.List) == 0 {
		return false
	}
	if _, ok := is.Body.List[len(is.Body.List)-1].(*ast.ReturnStmt); !ok {
		return false
	}
	return !c14containsCall(is.Body, "checkUserPassword") && !c14containsCall(is.Body, "PasswordAuthenticate")
}

func c14analyseGuard(p *pkgInfo, fd *ast.FuncDecl) c14guard {
	g := c14guard{Func: fd.Name.Name, Class: "unknown"}
	var calls []*ast.CallExpr
	weird := false
	ast.Inspect(fd.Body, func(n ast.Node) bool {
		switch x := n.(type) {
		case *ast.LabeledStmt:
			weird = true
		case *ast.BranchStmt:
			if x.Tok == token.GOTO {
				weird = true
			}
		case *ast.FuncLit:
			if c14containsCall(x, "checkUserPassword") {
				weird = true
			}
		case *ast.CallExpr:
			if _, ok := c14callTo(x, "checkUserPassword"); ok {
				calls = append(calls, x)
			}
		}
		return true
	})
	g.Calls = len(calls)
	if weird || len(calls) == 0 {
		return g
	}
	// every statement list of the function
	type guardAt struct {
		end    token.Pos // end of the guard statement
		rbrace token.Pos // end of the enclosing list
		pos    string
	}
	var guards []guardAt
	addList := func(list []ast.Stmt, end token.Pos) {
		for _, st := range list {
			if c14guardIf(p, st) {
				guards = append(guards, guardAt{st.End(), end, p.pos(st)})
			}
		}
	}
	ast.Inspect(fd.Body, func(n ast.Node) bool {
		switch x := n.(type) {
		case *ast.BlockStmt:
			addList(x.List, x.Rbrace)
		case *ast.CaseClause:
			addList(x.Body, x.End())
		case *ast.CommClause:
			addList(x.Body, x.End())
		}
		return true
	})
	all := true
	for _, c := range calls {
		ok := false
		for _, gd := range guards {
			if c.Pos() > gd.end && c.End() <= gd.rbrace {
				ok = true
				g.Pos = gd.pos
			}
		}
		if !ok {
			all = false
		}
	}
	if all {
		g.Class = "guarded"
	} else {
		g.Class = "unguarded"
	}
	return g
}

var c14httpStatus = map[string]int{
	"http.StatusTooManyRequests": 429, "http.StatusUnauthorized": 401, "http.StatusForbidden": 403,
	"http.StatusOK": 200, "http.StatusBadRequest": 400, "http.StatusInternalServerError": 500,
	"http.StatusServiceUnavailable": 503,
}

type c14shape struct {
	StmtCount           int  `json:"stmt_count"`
	CondIsNotAllow      bool `json:"cond_is_not_allow"`
	RefusalStatus       int  `json:"refusal_status"`
	RefusalReturnsError bool `json:"refusal_returns_error"`
	RefusalCallsBackend bool `json:"refusal_calls_backend"`
	PassReturnsNil      bool `json:"pass_returns_nil"`
}

func c14analyseLimitCheck(p *pkgInfo) c14shape {
	var sh c14shape
	fd := p.funcs["checkPasswordAttemptLimit"]
	if fd == nil || fd.Body == nil {
		return sh
	}
	sh.StmtCount = len(fd.Body.List)
	if len(fd.Body.List) != 2 {
		return sh
	}
	is, ok := fd.Body.List[0].(*ast.IfStmt)
	if ok && is.Init == nil && is.Else == nil {
		if ue, ok := is.Cond.(*ast.UnaryExpr); ok && ue.Op == token.NOT {
			if recv, args, ok := c14method(ue.X, "Allow"); ok && len(args) == 0 && c14sel(recv) == "state.passwordAttemptGlobalLimiter" {
				sh.CondIsNotAllow = true
			}
		}
		statuses := map[int]bool{}
		ast.Inspect(is.Body, func(n ast.Node) bool {
			if e, ok := n.(ast.Expr); ok {
				if ce, ok := c14callTo(e, "writeFailureResponse"); ok && len(ce.Args) >= 3 {
					if v, ok := c14httpStatus[p.str(ce.Args[2])]; ok {
						statuses[v] = true
					} else {
						statuses[-1] = true
					}
				}
				if ce, ok := e.(*ast.CallExpr); ok {
					if se, ok := ce.Fun.(*ast.SelectorExpr); ok && (se.Sel.Name == "WriteHeader" || se.Sel.Name == "Error" && c14sel(se.X) == "http") {
						statuses[-1] = true
					}
				}
			}
			return true
		})
		if len(statuses) == 1 {
			for v := range statuses {
				sh.RefusalStatus = v
			}
		}
		if n := len(is.Body.List); n > 0 {
			if rs, ok := is.Body.List[n-1].(*ast.ReturnStmt); ok && len(rs.Results) == 1 && p.str(rs.Results[0]) != "nil" {
				sh.RefusalReturnsError = true
			}
		}
		sh.RefusalCallsBackend = c14containsCall(is.Body, "checkUserPassword") || c14containsCall(is.Body, "PasswordAuthenticate")
	}
	if rs, ok := fd.Body.List[1].(*ast.ReturnStmt); ok && len(rs.Results) == 1 && p.str(rs.Results[0]) == "nil" {
		sh.PassReturnsNil = true
	}
	return sh
}

type c14config struct {
	DefaultBurst int64    `json:"default_burst"`
	DefaultRate  int64    `json:"default_rate_milli"`
	ClampBurst   [2]int64 `json:"clamp_burst"`
	ClampRate    [2]int64 `json:"clamp_rate_milli"`
	Built        bool     `json:"built_from_config_fields"`
	OrderOK      bool     `json:"order_ok"`
	AssignSites  int      `json:"assign_sites"`
	MutatorCalls int      `json:"mutator_calls"`
	LimiterUses  []string `json:"limiter_uses"`
	haveDefB     bool
	haveDefR     bool
	haveClampB   bool
	haveClampR   bool
}

func c14analyseConfig(p *pkgInfo) c14config {
	var c c14config
	const bf = "runtimeState.Config.Base.PasswordAttemptGlobalBurstLimit"
	const rf = "runtimeState.Config.Base.PasswordAttemptGlobalRateLimit"
	fd := p.funcs["loadVerifyConfigFile"]
	idxDefB, idxDefR, idxYaml, idxClB, idxClR, idxNew := -1, -1, -1, -1, -1, -1
	if fd != nil && fd.Body != nil {
		for i, st := range fd.Body.List {
			if l, r, ok := c14assign(st); ok {
				if l == bf {
					if v, ok := p.evalInt(r, 0); ok && idxDefB < 0 {
						c.DefaultBurst, c.haveDefB, idxDefB = v, true, i
					}
				}
				if l == rf {
					if v, ok := p.evalInt(r, 0); ok && idxDefR < 0 {
						c.DefaultRate, c.haveDefR, idxDefR = v*1000, true, i
					}
				}
				if l == "runtimeState.passwordAttemptGlobalLimiter" {
					if ce, ok := c14callTo(r, "rate.NewLimiter"); ok && len(ce.Args) == 2 {
						idxNew = i
						c.Built = p.str(ce.Args[0]) == rf && p.str(ce.Args[1]) == "int("+bf+")"
					}
				}
				if c14containsCall(r, "yaml.Unmarshal") && strings.Contains(p.str(r), "&runtimeState.Config") {
					idxYaml = i
				}
			}
			if is, ok := st.(*ast.IfStmt); ok && is.Init == nil && is.Else == nil && len(is.Body.List) == 1 {
				if be, ok := is.Cond.(*ast.BinaryExpr); ok && be.Op == token.LSS {
					f := c14sel(be.X)
					th, ok1 := p.evalInt(be.Y, 0)
					l, r, ok2 := c14assign(is.Body.List[0])
					if ok1 && ok2 && l == f {
						if v, ok := p.evalInt(r, 0); ok {
							if f == bf && idxClB < 0 {
								c.ClampBurst, c.haveClampB, idxClB = [2]int64{th, v}, true, i
							}
							if f == rf && idxClR < 0 {
								c.ClampRate, c.haveClampR, idxClR = [2]int64{th * 1000, v * 1000}, true, i
							}
						}
					}
				}
			}
		}
	}
	c.OrderOK = idxDefB >= 0 && idxDefR >= 0 && idxYaml > idxDefB && idxYaml > idxDefR &&
		idxClB > idxYaml && idxClR > idxYaml && idxNew > idxClB && idxNew > idxClR
	// every assignment to / use of the limiter in the package
	p.eachFunc(func(fd *ast.FuncDecl) {
		ast.Inspect(fd.Body, func(n ast.Node) bool {
			switch x := n.(type) {
			case *ast.AssignStmt:
				for _, l := range x.Lhs {
					if strings.HasSuffix(c14sel(l), ".passwordAttemptGlobalLimiter") {
						c.AssignSites++
					}
				}
			case *ast.KeyValueExpr:
				if id, ok := x.Key.(*ast.Ident); ok && id.Name == "passwordAttemptGlobalLimiter" {
					c.AssignSites++
				}
			case *ast.CallExpr:
				if se, ok := x.Fun.(*ast.SelectorExpr); ok && strings.HasSuffix(c14sel(se.X), ".passwordAttemptGlobalLimiter") {
					c.LimiterUses = append(c.LimiterUses, fd.Name.Name+":"+se.Sel.Name)
					if se.Sel.Name != "Allow" {
						c.MutatorCalls++
					}
				}
			}
			return true
		})
	})
	return c
}

func c14charLists(l []string) string {
	q := make([]string, len(l))
	for i, s := range l {
		q[i] = leanStr(s) + ".toList"
	}
	return "[" + strings.Join(q, ", ") + "]"
}

func c14optNat(have bool, v int64) string {
	if !have || v < 0 {
		return "none"
	}
	return fmt.Sprintf("(some %d)", v)
}

func c14optPair(have bool, v [2]int64) string {
	if !have || v[0] < 0 || v[1] < 0 {
		return "none"
	}
	return fmt.Sprintf("(some (%d, %d))", v[0], v[1])
}

func genC14(e *emitter) {
	p := e.pkg("cmd/keymasterd")
	tp := c14analyseTOTP(p)
	sh := c14analyseLimitCheck(p)
	cfg := c14analyseConfig(p)
	var guards []c14guard
	mt := c14analyseMatch(p)
	var authCallers, totpValidate, totpCallers, matchCallers []string
	p.eachFunc(func(fd *ast.FuncDecl) {
		if c14containsCall(fd.Body, "checkUserPassword") {
			guards = append(guards, c14analyseGuard(p, fd))
		}
		if c14containsCall(fd.Body, "PasswordAuthenticate") {
			authCallers = append(authCallers, fd.Name.Name)
		}
		if c14containsCall(fd.Body, "totp.Validate") || c14containsCall(fd.Body, "totp.ValidateCustom") {
			totpValidate = append(totpValidate, fd.Name.Name)
		}
		if c14containsCall(fd.Body, "validateUserTOTP") {
			totpCallers = append(totpCallers, fd.Name.Name)
		}
		if c14containsCall(fd.Body, "totpMatchedCounter") {
			matchCallers = append(matchCallers, fd.Name.Name)
		}
	})
	// informational (no theorem pins them: pruning entries nobody can observe would be legitimate, see
	// c14_prune_unobservable): what the periodic cleanup deletes, and who writes the TOTP limiter table
	var cleanupDeletes, tableWriters []string
	p.eachFunc(func(fd *ast.FuncDecl) {
		writes := false
		ast.Inspect(fd.Body, func(n ast.Node) bool {
			switch x := n.(type) {
			case *ast.CallExpr:
				if id, ok := x.Fun.(*ast.Ident); ok && id.Name == "delete" && len(x.Args) == 2 {
					if fd.Name.Name == "performStateCleanup" {
						cleanupDeletes = append(cleanupDeletes, c14sel(x.Args[0]))
					}
					if strings.HasSuffix(c14sel(x.Args[0]), ".totpLocalRateLimit") {
						writes = true
					}
				}
			case *ast.AssignStmt:
				for _, l := range x.Lhs {
					if ix, ok := l.(*ast.IndexExpr); ok && strings.HasSuffix(c14sel(ix.X), ".totpLocalRateLimit") {
						writes = true
					}
					if strings.HasSuffix(c14sel(l), ".totpLocalRateLimit") {
						writes = true
					}
				}
			}
			return true
		})
		if writes {
			tableWriters = append(tableWriters, fd.Name.Name)
		}
	})
	sort.Strings(cleanupDeletes)
	sort.Strings(tableWriters)
	sort.Slice(guards, func(i, j int) bool { return guards[i].Func < guards[j].Func })
	sort.Strings(authCallers)
	sort.Strings(totpValidate)
	sort.Strings(totpCallers)
	sort.Strings(matchCallers)

	consts := map[string]int64{}
	for _, n := range []string{"minSecsBetweenTOTPValidations", "numHoursForLocalTOTPRateLimitReset", "numFailedTOTPChecksForTimeoutIncrease"} {
		if ce, ok := p.consts[n]; ok {
			if v, ok := p.evalInt(ce, p.cindex[n]); ok && v >= 0 {
				consts[n] = v
			}
		}
	}

	var b strings.Builder
	b.WriteString("import KM.Model.RateLimitTypes\nnamespace KM.Gen.C14\nopen KM.RateLimit\n\n")
	b.WriteString("/-- constants of cmd/keymasterd/2fa_totp.go -/\n")
	fmt.Fprintf(&b, "def minSecsBetweenTOTPValidations : Nat := %d\n", consts["minSecsBetweenTOTPValidations"])
	fmt.Fprintf(&b, "def numHoursForLocalTOTPRateLimitReset : Nat := %d\n", consts["numHoursForLocalTOTPRateLimitReset"])
	fmt.Fprintf(&b, "def numFailedTOTPChecksForTimeoutIncrease : Nat := %d\n\n", consts["numFailedTOTPChecksForTimeoutIncrease"])
	b.WriteString("/-- durations (whole seconds) and modulus as they are *used* in validateUserTOTP -/\n")
	fmt.Fprintf(&b, "def spacingSecsUsed : Nat := %d\ndef resetSecsUsed : Nat := %d\ndef everyUsed : Nat := %d\ndef totpPeriod : Nat := %d\n\n",
		tp.SpacingSecs, tp.ResetSecs, tp.Every, tp.Period)
	b.WriteString("/-- what the statement under `failCount % every == 0` does (increment in seconds) -/\n")
	lu := "LockoutUpdate.unknown"
	if tp.LockoutUpdate != "unknown" {
		lu = fmt.Sprintf("LockoutUpdate.%s %d", tp.LockoutUpdate, tp.LockoutSecs)
	}
	fmt.Fprintf(&b, "def lockoutUpdate : LockoutUpdate := %s\n\n", lu)
	b.WriteString("/-- top-level statements of validateUserTOTP in source order (declarations, logging and the\ncomputation of `counter`/`OTPString` left out) -/\n")
	var ord []string
	for _, o := range tp.Order {
		ord = append(ord, "TotpStmt."+o)
	}
	fmt.Fprintf(&b, "def totpOrder : List TotpStmt := [%s]\n\n", strings.Join(ord, ", "))
	for _, n := range tp.Notes {
		fmt.Fprintf(&b, "-- unclassified: %s\n", n)
	}
	b.WriteString("/-- every function of cmd/keymasterd that calls `checkUserPassword`: is the call dominated by\n`if err := state.checkPasswordAttemptLimit(…); err != nil { …; return }`? -/\n")
	b.WriteString("def backendCallers : List (List Char × GuardClass) := [\n")
	for i, g := range guards {
		sep := ","
		if i == len(guards)-1 {
			sep = ""
		}
		fmt.Fprintf(&b, "  (%s.toList, GuardClass.%s)%s  -- %d backend call(s), guard at %s\n", leanStr(g.Func), g.Class, sep, g.Calls, g.Pos)
	}
	b.WriteString("]\n\n")
	fmt.Fprintf(&b, "/-- functions that call `.PasswordAuthenticate(` directly -/\ndef passwordAuthenticateCallers : List (List Char) := %s\n\n", c14charLists(authCallers))
	st := "none"
	if sh.RefusalStatus > 0 {
		st = fmt.Sprintf("some %d", sh.RefusalStatus)
	}
	fmt.Fprintf(&b, "def limitCheck : LimitCheckShape :=\n  { stmtCount := %d, condIsNotAllow := %s, refusalStatus := %s, refusalReturnsError := %s,\n    refusalCallsBackend := %s, passReturnsNil := %s }\n\n",
		sh.StmtCount, leanBool(sh.CondIsNotAllow), st, leanBool(sh.RefusalReturnsError), leanBool(sh.RefusalCallsBackend), leanBool(sh.PassReturnsNil))
	fmt.Fprintf(&b, "def limiterConfig : LimiterConfig :=\n  { defaultBurst := %s, defaultRateMilli := %s, clampBurst := %s, clampRateMilli := %s,\n    builtFromConfigFields := %s, orderOK := %s, assignSites := %d, mutatorCalls := %d }\n\n",
		c14optNat(cfg.haveDefB, cfg.DefaultBurst), c14optNat(cfg.haveDefR, cfg.DefaultRate),
		c14optPair(cfg.haveClampB, cfg.ClampBurst), c14optPair(cfg.haveClampR, cfg.ClampRate),
		leanBool(cfg.Built), leanBool(cfg.OrderOK), cfg.AssignSites, cfg.MutatorCalls)
	fmt.Fprintf(&b, "/-- functions calling `totp.Validate` / callers of validateUserTOTP -/\ndef totpValidateSites : List (List Char) := %s\ndef validateUserTOTPCallers : List (List Char) := %s\n",
		c14charLists(totpValidate), c14charLists(totpCallers))
	offs := "none"
	if mt.OffsetOK {
		var l []string
		for _, o := range mt.Offsets {
			l = append(l, fmt.Sprintf("%d", o))
		}
		offs = "some [" + strings.Join(l, ", ") + "]"
	}
	fmt.Fprintf(&b, "\n/-- `totpMatchedCounter`: the steps tried (offsets from `counter`, in order), the skew handed to\n`totp.ValidateCustom`, and that the step that validated is what is returned; its callers -/\n")
	fmt.Fprintf(&b, "def matchOffsets : Option (List Int) := %s\ndef matchSkew : Option Nat := %s\ndef matchShapeOK : Bool := %s\ndef totpMatchedCounterCallers : List (List Char) := %s\n",
		offs, c14optNat(mt.SkewOK, mt.Skew), leanBool(mt.ShapeOK), c14charLists(matchCallers))
	b.WriteString("\nend KM.Gen.C14\n")
	e.lean("C14.lean", b.String())
	e.facts["c14"] = map[string]interface{}{
		"consts": consts, "totp": tp, "backend_callers": guards, "password_authenticate_callers": authCallers,
		"limit_check": sh, "limiter_config": cfg, "totp_validate_sites": totpValidate,
		"validate_user_totp_callers": totpCallers, "totp_matched_counter": mt,
		"totp_matched_counter_callers": matchCallers,
		"cleanup_deletes":              cleanupDeletes, "totp_limiter_table_writers": tableWriters,
	}
}
