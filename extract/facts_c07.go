package main

// C07 — the directory's verdict on a password is final; the offline cache only fills outages.
// Facts regenerated from lib/pwauth/ldap, lib/authutil and cmd/keymasterd: the cache duration
// and record type, the statement shape of the server loop of passwordAuthenticate (what makes
// a server's answer a verdict, what falls through, where the cached hash is updated/evicted,
// that the cache is consulted only after the loop), of updateOrDeletePasswordHash, of
// CheckLDAPUserPassword (the "Invalid Credentials" test), what GetSigned compares once the JWS
// is verified, how copyDBIntoSQLite empties the cache tables, and which name every caller of
// checkUserPassword passes. Anything unrecognised becomes `unknown`.

import (
	"fmt"
	"go/ast"
	"go/token"
	"sort"
	"strings"
)

func init() { register("c07-pwcache", genC07) }

// c07isLog: a statement that only logs (pa.logger.X(…), logger.X(…), log.X(…)) or an `if` without
// else whose body only logs.
func c07isLog(p *pkgInfo, s ast.Stmt) bool {
	switch x := s.(type) {
	case *ast.ExprStmt:
		ce, ok := x.X.(*ast.CallExpr)
		if !ok {
			return false
		}
		se, ok := ce.Fun.(*ast.SelectorExpr)
		if !ok {
			return false
		}
		recv := p.str(se.X)
		if recv != "pa.logger" && recv != "logger" && recv != "log" && recv != "state.logger" {
			return false
		}
		switch se.Sel.Name {
		case "Printf", "Println", "Debugf", "Debugln", "Print":
			return true
		}
		return false
	case *ast.IfStmt:
		if x.Else != nil || x.Init != nil {
			return false
		}
		for _, b := range x.Body.List {
			if !c07isLog(p, b) {
				return false
			}
		}
		return true
	}
	return false
}

// c07strip drops log-only statements.
func c07strip(p *pkgInfo, l []ast.Stmt) []ast.Stmt {
	var out []ast.Stmt
	for _, s := range l {
		if !c07isLog(p, s) {
			out = append(out, s)
		}
	}
	return out
}

// c07if matches `if <cond> { body }` (no init, no else) and returns the stripped body as strings.
func c07if(p *pkgInfo, s ast.Stmt, cond string) ([]ast.Stmt, bool) {
	is, ok := s.(*ast.IfStmt)
	if !ok || is.Init != nil || is.Else != nil || p.str(is.Cond) != cond {
		return nil, false
	}
	return c07strip(p, is.Body.List), true
}

func c07strs(p *pkgInfo, l []ast.Stmt) []string {
	out := make([]string, len(l))
	for i, s := range l {
		out[i] = p.str(s)
	}
	return out
}

func c07eq(a []string, b ...string) bool {
	if len(a) != len(b) {
		return false
	}
	for i := range a {
		if a[i] != b[i] {
			return false
		}
	}
	return true
}

func c07loopStmt(p *pkgInfo, s ast.Stmt) string {
	if c07isLog(p, s) {
		return "logOnly"
	}
	switch p.str(s) {
	case "bindDN := convertToBindDN(username, bindPattern)":
		return "bindDN"
	case "valid, err = authutil.CheckLDAPUserPassword(*u, bindDN, string(password), pa.timeoutSecs, pa.rootCAs)":
		return "check"
	case "err = pa.updateOrDeletePasswordHash(valid, username, password)":
		return "updateOrDelete"
	case "return valid, nil":
		return "returnVerdict"
	}
	if body, ok := c07if(p, s, "err != nil"); ok && c07eq(c07strs(p, body), "continue") {
		return "onErrContinue"
	}
	return "unknown"
}

// acceptIfMatches / deleteIfMatches share the shape `if ok { err(:)= Argon2Compare(hash, password); if err == nil { X } }`
func c07ifOkCompareThen(p *pkgInfo, s ast.Stmt, then string) bool {
	body, ok := c07if(p, s, "ok")
	if !ok || len(body) != 2 {
		return false
	}
	cmp := p.str(body[0])
	if cmp != "err = authutil.Argon2CompareHashAndPassword(hash, password)" &&
		cmp != "err := authutil.Argon2CompareHashAndPassword(hash, password)" {
		return false
	}
	inner, ok := c07if(p, body[1], "err == nil")
	return ok && c07eq(c07strs(p, inner), then)
}

func c07fallbackStmt(p *pkgInfo, s ast.Stmt) string {
	if c07isLog(p, s) {
		return "logOnly"
	}
	if p.str(s) == "ok, hash, err := pa.storage.GetSigned(username, passwordDataType)" {
		return "getSigned"
	}
	if body, ok := c07if(p, s, "err != nil"); ok && c07eq(c07strs(p, body), "return false, nil") {
		return "onErrReject"
	}
	if c07ifOkCompareThen(p, s, "return true, nil") {
		return "acceptIfMatches"
	}
	return "unknown"
}

func c07updStmt(p *pkgInfo, s ast.Stmt) string {
	if c07isLog(p, s) {
		return "logOnly"
	}
	switch p.str(s) {
	case "hash, err := authutil.Argon2MakeNewHash(password)":
		return "makeHash"
	case "Expiration := time.Now().Add(pa.expirationDuration)":
		return "expiryNowPlusDuration"
	case "err = pa.storage.UpsertSigned(username, passwordDataType, Expiration.Unix(), hash)":
		return "upsert"
	case "return err":
		return "returnErr"
	case "ok, hash, err := pa.storage.GetSigned(username, passwordDataType)":
		return "getSigned"
	case "return nil":
		return "returnNil"
	}
	if body, ok := c07if(p, s, "pa.storage == nil"); ok && len(body) == 1 && strings.HasPrefix(p.str(body[0]), "return errors.New(") {
		return "noStorageError"
	}
	if body, ok := c07if(p, s, "err != nil"); ok && c07eq(c07strs(p, body), "return nil") {
		// the two uses are told apart by position (after makeHash / after getSigned)
		return "onErrNil"
	}
	if c07ifOkCompareThen(p, s, "pa.storage.DeleteSigned(username, passwordDataType)") {
		return "deleteIfMatches"
	}
	return "unknown"
}

func c07bindStmt(p *pkgInfo, s ast.Stmt, lit *string) string {
	if c07isLog(p, s) {
		return "" // dropped
	}
	switch p.str(s) {
	case "timeout := time.Duration(time.Duration(timeoutSecs) * time.Second)":
		return "timeoutDecl"
	case "conn, server, err := getLDAPConnection(u, timeoutSecs, rootCAs)":
		return "connect"
	case "defer conn.Close()":
		return "deferClose"
	case "conn.SetTimeout(timeout)":
		return "setTimeout"
	case "conn.Start()":
		return "start"
	case "err = conn.Bind(bindDN, bindPassword)":
		return "bind"
	case "return true, nil":
		return "returnTrue"
	}
	for _, c := range []string{`bindPassword == ""`, "len(bindPassword) == 0", "len(bindPassword) < 1"} {
		if body, ok := c07if(p, s, c); ok && c07eq(c07strs(p, body), "return false, nil") {
			return "rejectEmptyPassword"
		}
	}
	if body, ok := c07if(p, s, "err != nil"); ok {
		if c07eq(c07strs(p, body), "return false, err") {
			return "onConnErr"
		}
		if len(body) == 2 && p.str(body[1]) == "return false, err" {
			if is, ok := body[0].(*ast.IfStmt); ok && is.Else == nil && is.Init == nil &&
				c07eq(c07strs(p, c07strip(p, is.Body.List)), "return false, nil") {
				if ce, ok := is.Cond.(*ast.CallExpr); ok && p.str(ce.Fun) == "strings.Contains" && len(ce.Args) == 2 &&
					p.str(ce.Args[0]) == "err.Error()" {
					if v, ok := p.evalStr(ce.Args[1]); ok {
						*lit = v
						return "onBindErr"
					}
				}
			}
		}
	}
	return "unknown"
}

func c07ctor(ty string, l []string) string {
	q := make([]string, len(l))
	for i, s := range l {
		q[i] = ty + "." + s
	}
	return "[" + strings.Join(q, ", ") + "]"
}

func c07classify(p *pkgInfo, l []ast.Stmt, f func(*pkgInfo, ast.Stmt) string) []string {
	var out []string
	for _, s := range l {
		out = append(out, f(p, s))
	}
	return out
}

// c07table: table name of a `DELETE from <table> …` literal, "" otherwise
func c07table(sql string) string {
	f := strings.Fields(strings.ToLower(sql))
	if len(f) >= 3 && f[0] == "delete" && f[1] == "from" {
		return f[2]
	}
	return ""
}

// c07resolveStr: string value of an expression inside fd (literal, fmt.Sprintf of one literal, or a
// local variable assigned once from such an expression)
func c07resolveStr(p *pkgInfo, fd *ast.FuncDecl, e ast.Expr) (string, bool) {
	if v, ok := p.evalStr(e); ok {
		return v, true
	}
	if ce, ok := e.(*ast.CallExpr); ok && p.str(ce.Fun) == "fmt.Sprintf" && len(ce.Args) == 1 {
		return p.evalStr(ce.Args[0])
	}
	if id, ok := e.(*ast.Ident); ok {
		var val ast.Expr
		n := 0
		ast.Inspect(fd.Body, func(x ast.Node) bool {
			if as, ok := x.(*ast.AssignStmt); ok && len(as.Lhs) == 1 && len(as.Rhs) == 1 {
				if l, ok := as.Lhs[0].(*ast.Ident); ok && l.Name == id.Name {
					val = as.Rhs[0]
					n++
				}
			}
			return true
		})
		if n == 1 {
			if _, isID := val.(*ast.Ident); !isID {
				return c07resolveStr(p, fd, val)
			}
		}
	}
	return "", false
}

func genC07(e *emitter) {
	lp := e.pkg("lib/pwauth/ldap")
	au := e.pkg("lib/authutil")
	km := e.pkg("cmd/keymasterd")

	// ---- constants
	durSecs := int64(-1)
	if ce, ok := lp.consts["defaultCacheDuration"]; ok {
		if v, ok := lp.evalInt(ce, 0); ok && v > 0 && v%1000000000 == 0 {
			durSecs = v / 1000000000
		}
	}
	pwType := int64(-1)
	if ce, ok := lp.consts["passwordDataType"]; ok {
		if v, ok := lp.evalInt(ce, lp.cindex["passwordDataType"]); ok && v >= 0 {
			pwType = v
		}
	}
	// every assignment to .expirationDuration in the package
	var expInits []string
	lp.eachFunc(func(fd *ast.FuncDecl) {
		ast.Inspect(fd.Body, func(x ast.Node) bool {
			if as, ok := x.(*ast.AssignStmt); ok {
				for i, l := range as.Lhs {
					if se, ok := l.(*ast.SelectorExpr); ok && se.Sel.Name == "expirationDuration" && i < len(as.Rhs) {
						expInits = append(expInits, lp.str(as.Rhs[i]))
					}
				}
			}
			return true
		})
	})
	sort.Strings(expInits)

	// ---- passwordAuthenticate
	var authTop, loopBody, fallback []string
	if fd := lp.funcs["passwordAuthenticate"]; fd != nil && fd.Body != nil {
		for _, s := range c07strip(lp, fd.Body.List) {
			switch {
			case lp.str(s) == "valid = false":
				authTop = append(authTop, "initInvalid")
			case lp.str(s) == "return false, nil":
				authTop = append(authTop, "returnReject")
			default:
				if rs, ok := s.(*ast.RangeStmt); ok && lp.str(rs.X) == "pa.ldapURL" && lp.str(rs.Value) == "u" && len(rs.Body.List) == 1 {
					if in, ok := rs.Body.List[0].(*ast.RangeStmt); ok && lp.str(in.X) == "pa.bindPattern" && lp.str(in.Value) == "bindPattern" {
						authTop = append(authTop, "serverLoop")
						loopBody = c07classify(lp, in.Body.List, c07loopStmt)
						continue
					}
				}
				if is, ok := s.(*ast.IfStmt); ok && is.Else == nil && is.Init == nil && lp.str(is.Cond) == "pa.storage != nil" {
					authTop = append(authTop, "cacheFallback")
					fallback = c07classify(lp, is.Body.List, c07fallbackStmt)
					continue
				}
				authTop = append(authTop, "unknown")
			}
		}
	} else {
		authTop = []string{"unknown"}
	}

	// ---- updateOrDeletePasswordHash
	var updPrologue, updValid, updInvalid, updEpilogue []string
	if fd := lp.funcs["updateOrDeletePasswordHash"]; fd != nil && fd.Body != nil {
		seenIf := false
		for _, s := range c07strip(lp, fd.Body.List) {
			if is, ok := s.(*ast.IfStmt); ok && is.Init == nil && lp.str(is.Cond) == "valid" && is.Else != nil {
				if eb, ok := is.Else.(*ast.BlockStmt); ok && !seenIf {
					seenIf = true
					updValid = c07classify(lp, is.Body.List, c07updStmt)
					updInvalid = c07classify(lp, eb.List, c07updStmt)
					continue
				}
			}
			if !seenIf {
				updPrologue = append(updPrologue, c07updStmt(lp, s))
			} else {
				updEpilogue = append(updEpilogue, c07updStmt(lp, s))
			}
		}
		if !seenIf {
			updPrologue = append(updPrologue, "unknown")
		}
	} else {
		updPrologue = []string{"unknown"}
	}

	// ---- CheckLDAPUserPassword
	var bindStmts []string
	lit := ""
	if fd := au.funcs["CheckLDAPUserPassword"]; fd != nil && fd.Body != nil {
		for _, s := range fd.Body.List {
			if c := c07bindStmt(au, s, &lit); c != "" {
				bindStmts = append(bindStmts, c)
			}
		}
	} else {
		bindStmts = []string{"unknown"}
	}
	var checkCallers []string
	for _, pk := range []*pkgInfo{lp, au, km} {
		pk.eachFunc(func(fd *ast.FuncDecl) {
			if fd.Name.Name != "CheckLDAPUserPassword" && c14containsCall(fd.Body, "CheckLDAPUserPassword") {
				checkCallers = append(checkCallers, pk.dir+":"+fd.Name.Name)
			}
		})
	}
	sort.Strings(checkCallers)

	// ---- GetSigned: comparisons after the JWS is verified; the SQL filter
	var signedChecks []string
	getSignedReturnsData := false
	if fd := km.funcs["GetSigned"]; fd != nil && fd.Body != nil {
		after := false
		for _, s := range fd.Body.List {
			if strings.HasPrefix(km.str(s), "storageJWT, err := state.getStorageDataFromStorageStringDataJWT(jwsData)") {
				after = true
				continue
			}
			if !after || c07isLog(km, s) {
				continue
			}
			if rs, ok := s.(*ast.ReturnStmt); ok {
				getSignedReturnsData = km.str(rs) == "return true, storageJWT.Data, nil"
				continue
			}
			is, ok := s.(*ast.IfStmt)
			if !ok || is.Else != nil || is.Init != nil {
				signedChecks = append(signedChecks, "unknown")
				continue
			}
			body := c07strip(km, is.Body.List)
			rejects := false
			if len(body) == 1 {
				if rs, ok := body[0].(*ast.ReturnStmt); ok && len(rs.Results) == 3 && km.str(rs.Results[0]) == "false" && km.str(rs.Results[2]) != "nil" {
					rejects = true
				}
			}
			cond := km.str(is.Cond)
			switch {
			case cond == "err != nil" && rejects:
				// verification failure: modelled as sigOK = false
			case cond == "storageJWT.Subject != username" && rejects:
				signedChecks = append(signedChecks, "subjectIsUser")
			case cond == "storageJWT.DataType != dataType" && rejects:
				signedChecks = append(signedChecks, "typeIsRequested")
			case cond == "storageJWT.Expiration < time.Now().Unix()" && rejects:
				signedChecks = append(signedChecks, "notExpired")
			default:
				signedChecks = append(signedChecks, "unknown")
			}
		}
	} else {
		signedChecks = []string{"unknown"}
	}
	sqlFilter := ""
	if v, ok := km.vars["getSignedUserDataStmt"]; ok {
		if cl, ok := v.(*ast.CompositeLit); ok {
			for _, el := range cl.Elts {
				if kv, ok := el.(*ast.KeyValueExpr); ok {
					if k, _ := km.evalStr(kv.Key); k == "sqlite" {
						sqlFilter, _ = km.evalStr(kv.Value)
					}
				}
			}
		}
	}
	filterStrict := strings.Contains(sqlFilter, "username = ? and type =? and expiration_epoch > ?") ||
		strings.Contains(sqlFilter, "username = ? and type = ? and expiration_epoch > ?")

	// ---- copyDBIntoSQLite: how the destination tables are emptied
	var syncDeletes []string
	syncCopiesUnexpired := false
	if fd := km.funcs["copyDBIntoSQLite"]; fd != nil && fd.Body != nil {
		ast.Inspect(fd.Body, func(x ast.Node) bool {
			ce, ok := x.(*ast.CallExpr)
			if !ok || len(ce.Args) < 1 {
				return true
			}
			fn := km.str(ce.Fun)
			sql, ok := c07resolveStr(km, fd, ce.Args[0])
			if !ok {
				return true
			}
			if strings.Contains(sql, "FROM expiring_signed_user_data WHERE expiration_epoch > %d") && fn == "fmt.Sprintf" &&
				len(ce.Args) == 2 && km.str(ce.Args[1]) == "time.Now().Unix()" {
				syncCopiesUnexpired = true
			}
			tb := c07table(sql)
			if tb == "" {
				return true
			}
			switch fn {
			case "tx.Exec":
				syncDeletes = append(syncDeletes, fmt.Sprintf("(SyncDelete.txExec %s.toList)", leanStr(tb)))
			case "destination.Query":
				syncDeletes = append(syncDeletes, fmt.Sprintf("(SyncDelete.queryOutsideTx %s.toList)", leanStr(tb)))
			case "fmt.Sprintf":
			default:
				syncDeletes = append(syncDeletes, "SyncDelete.unknown")
			}
			return true
		})
	} else {
		syncDeletes = []string{"SyncDelete.unknown"}
	}

	// ---- callers of checkUserPassword: which name do they pass?
	type caller struct{ fn, class, where string }
	var callers []caller
	km.eachFunc(func(fd *ast.FuncDecl) {
		if fd.Name.Name == "checkUserPassword" || !c14containsCall(fd.Body, "checkUserPassword") {
			return
		}
		class, where := "unknown", ""
		n := 0
		ast.Inspect(fd.Body, func(x ast.Node) bool {
			bs, ok := x.(*ast.BlockStmt)
			if !ok {
				return true
			}
			for i, s := range bs.List {
				as, ok := s.(*ast.AssignStmt)
				if !ok || len(as.Rhs) != 1 {
					continue
				}
				ce, ok := c14callTo(as.Rhs[0], "checkUserPassword")
				if !ok || len(ce.Args) < 1 {
					continue
				}
				n++
				where = km.pos(ce)
				v := km.str(ce.Args[0])
				if _, isID := ce.Args[0].(*ast.Ident); !isID {
					class = "unknown"
					continue
				}
				if i > 0 && km.str(bs.List[i-1]) == fmt.Sprintf("%s = state.reprocessUsername(%s)", v, v) {
					class = "reprocessedSameVar"
				} else {
					class = "notNormalised"
				}
			}
			return true
		})
		if n != 1 {
			class = "unknown"
		}
		callers = append(callers, caller{fd.Name.Name, class, where})
	})
	sort.Slice(callers, func(i, j int) bool { return callers[i].fn < callers[j].fn })

	passThrough := false
	if fd := km.funcs["checkUserPassword"]; fd != nil {
		ast.Inspect(fd.Body, func(x ast.Node) bool {
			if ce, ok := x.(*ast.CallExpr); ok && km.str(ce) == "passwordChecker.PasswordAuthenticate(username, []byte(password))" {
				passThrough = true
			}
			return true
		})
	}
	var normStmts []string
	if fd := km.funcs["reprocessUsername"]; fd != nil && fd.Body != nil {
		for _, s := range fd.Body.List {
			c := "unknown"
			if body, ok := c07if(km, s, "!state.Config.Base.DisableUsernameNormalization"); ok &&
				c07eq(c07strs(km, body), "username = strings.ToLower(username)") {
				c = "lowerUnlessDisabled"
			}
			if body, ok := c07if(km, s, "state.oktaUsernameFilterRE != nil"); ok &&
				c07eq(c07strs(km, body), "filteredUsername := string(state.oktaUsernameFilterRE.ReplaceAll( []byte(username), nil))", "username = filteredUsername") {
				c = "regexFilter"
			}
			if km.str(s) == "return username" {
				c = "returnName"
			}
			normStmts = append(normStmts, c)
		}
	} else {
		normStmts = []string{"unknown"}
	}
	// loginHandler: form values stripped of CR/LF, empty name or password refused on the form path
	_ = token.NoPos

	var b strings.Builder
	b.WriteString("import KM.Model.PwCacheTypes\nnamespace KM.Gen.C07\nopen KM.PwCache\n\n")
	nat := func(v int64) string {
		if v < 0 {
			return "0  -- NOT FOUND"
		}
		return fmt.Sprint(v)
	}
	fmt.Fprintf(&b, "/-- lib/pwauth/ldap: `defaultCacheDuration` in whole seconds, `passwordDataType` -/\n")
	fmt.Fprintf(&b, "def cacheDurationSecs : Nat := %s\ndef passwordDataType : Nat := %s\n", nat(durSecs), nat(pwType))
	fmt.Fprintf(&b, "/-- right-hand sides of every assignment to `.expirationDuration` -/\ndef expirationDurationInits : List (List Char) := [%s]\n\n", c07charLists(expInits))
	fmt.Fprintf(&b, "/-- `passwordAuthenticate`: top-level statements, innermost loop body, fall-back block (logging dropped at top level) -/\n")
	fmt.Fprintf(&b, "def authTop : List AuthStmt := %s\n", c07ctor("AuthStmt", authTop))
	fmt.Fprintf(&b, "def loopBody : List LoopStmt := %s\n", c07ctor("LoopStmt", loopBody))
	fmt.Fprintf(&b, "def fallback : List FallbackStmt := %s\n\n", c07ctor("FallbackStmt", fallback))
	fmt.Fprintf(&b, "/-- `updateOrDeletePasswordHash`: before `if valid`, its two branches, after it -/\n")
	fmt.Fprintf(&b, "def updPrologue : List UpdStmt := %s\n", c07ctor("UpdStmt", updPrologue))
	fmt.Fprintf(&b, "def updValid : List UpdStmt := %s\n", c07ctor("UpdStmt", updValid))
	fmt.Fprintf(&b, "def updInvalid : List UpdStmt := %s\n", c07ctor("UpdStmt", updInvalid))
	fmt.Fprintf(&b, "def updEpilogue : List UpdStmt := %s\n\n", c07ctor("UpdStmt", updEpilogue))
	fmt.Fprintf(&b, "/-- `authutil.CheckLDAPUserPassword` (logging dropped) and the literal its bind-error test looks for -/\n")
	fmt.Fprintf(&b, "def bindStmts : List BindStmt := %s\n", c07ctor("BindStmt", bindStmts))
	fmt.Fprintf(&b, "def invalidCredentialsLiteral : List Char := %s.toList\n", leanStr(lit))
	fmt.Fprintf(&b, "/-- every function that calls CheckLDAPUserPassword -/\ndef checkCallers : List (List Char) := [%s]\n\n", c07charLists(checkCallers))
	fmt.Fprintf(&b, "/-- cmd/keymasterd `GetSigned`: comparisons applied to the verified record, in order; the SQL row filter -/\n")
	fmt.Fprintf(&b, "def signedChecks : List SignedCheck := %s\n", c07ctor("SignedCheck", signedChecks))
	fmt.Fprintf(&b, "def getSignedReturnsSignedData : Bool := %s\n", leanBool(getSignedReturnsData))
	fmt.Fprintf(&b, "def rowFilterIsUserTypeAndColumnExpiryStrict : Bool := %s\n\n", leanBool(filterStrict))
	fmt.Fprintf(&b, "/-- `copyDBIntoSQLite`: DELETE statements and how they are issued; the signed-record source query -/\n")
	fmt.Fprintf(&b, "def syncDeletes : List SyncDelete := [%s]\n", strings.Join(syncDeletes, ", "))
	fmt.Fprintf(&b, "def syncCopiesUnexpiredByColumn : Bool := %s\n\n", leanBool(syncCopiesUnexpired))
	fmt.Fprintf(&b, "/-- every function of cmd/keymasterd that calls `checkUserPassword` -/\ndef passwordCallers : List (List Char × NormClass) := [\n")
	for i, c := range callers {
		sep := ","
		if i == len(callers)-1 {
			sep = ""
		}
		fmt.Fprintf(&b, "  (%s.toList, NormClass.%s)%s  -- %s\n", leanStr(c.fn), c.class, sep, c.where)
	}
	fmt.Fprintf(&b, "]\ndef checkUserPasswordPassesNameThrough : Bool := %s\n", leanBool(passThrough))
	fmt.Fprintf(&b, "def reprocessUsername : List NormStmt := %s\n", c07ctor("NormStmt", normStmts))
	b.WriteString("\nend KM.Gen.C07\n")
	e.lean("C07.lean", b.String())

	cl := make([]map[string]string, 0)
	for _, c := range callers {
		cl = append(cl, map[string]string{"func": c.fn, "class": c.class, "where": c.where})
	}
	e.facts["c07"] = map[string]interface{}{
		"cache_duration_secs": durSecs, "password_data_type": pwType, "expiration_inits": expInits,
		"auth_top": authTop, "loop_body": loopBody, "fallback": fallback,
		"upd_prologue": updPrologue, "upd_valid": updValid, "upd_invalid": updInvalid, "upd_epilogue": updEpilogue,
		"bind_stmts": bindStmts, "invalid_credentials_literal": lit, "check_callers": checkCallers,
		"signed_checks": signedChecks, "row_filter_strict": filterStrict, "sync_deletes": syncDeletes,
		"sync_copies_unexpired": syncCopiesUnexpired, "password_callers": cl,
		"name_passed_through": passThrough, "reprocess_username": normStmts,
	}
}

func c07charLists(l []string) string {
	q := make([]string, len(l))
	for i, s := range l {
		q[i] = leanStr(s) + ".toList"
	}
	return strings.Join(q, ", ")
}
