package main

// C19 — facts about the client: which keys it generates per preference and which certificate
// requests it makes with them, the server's SSH key-type alternation and strength thresholds,
// and every use of private-key material in cmd/keymaster and lib/client/*.

import (
	"fmt"
	"go/ast"
	"go/token"
	"regexp"
	"sort"
	"strconv"
	"strings"
)

func init() { register("c19-client", genC19) }

type c19KeyGen struct {
	Pref  string `json:"pref"`
	Field string `json:"field"`
	Kind  string `json:"kind"`
	Bits  int64  `json:"bits"`
}

type c19Use struct {
	Pos   string `json:"pos"`
	Pkg   string `json:"pkg"`
	Func  string `json:"func"`
	Expr  string `json:"expr"`
	Class string `json:"class"`
}

type c19Sink struct {
	Pos    string `json:"pos"`
	Pkg    string `json:"pkg"`
	Func   string `json:"func"`
	Callee string `json:"callee"`
	Class  string `json:"class"`
	Mode   int64  `json:"mode"`
	Detail string `json:"detail"`
}

var c19Serialisers = map[string]bool{
	"x509.MarshalPKCS8PrivateKey": true, "x509.MarshalECPrivateKey": true, "x509.MarshalPKCS1PrivateKey": true,
	"ssh.MarshalPrivateKey": true, "ssh.MarshalPrivateKeyWithPassphrase": true,
}

var c19KeyTypes = map[string]bool{
	"crypto.Signer": true, "ed25519.PrivateKey": true, "*rsa.PrivateKey": true, "*ecdsa.PrivateKey": true,
	"crypto.PrivateKey": true,
}

var c19KeyFields = map[string]bool{"X509": true, "SshMain": true, "SshEd25519": true, "Signer": true}

var c19GenFuncs = map[string]bool{"rsa.GenerateKey": true, "ecdsa.GenerateKey": true, "ed25519.GenerateKey": true,
	"genKeyPair": true, "util.GenKeyPair": true, "util.GenerateKey": true}

// parents builds a child -> parent map for a function body.
func c19Parents(root ast.Node) map[ast.Node]ast.Node {
	par := map[ast.Node]ast.Node{}
	var stack []ast.Node
	ast.Inspect(root, func(n ast.Node) bool {
		if n == nil {
			stack = stack[:len(stack)-1]
			return true
		}
		if len(stack) > 0 {
			par[n] = stack[len(stack)-1]
		}
		stack = append(stack, n)
		return true
	})
	return par
}

// c19KeyNames: identifiers of fd that hold private keys (parameters by type or name, results of
// key generation, type-switch bindings over such values).
func c19KeyNames(p *pkgInfo, fd *ast.FuncDecl) map[string]bool {
	names := map[string]bool{}
	addFields := func(fl *ast.FieldList) {
		if fl == nil {
			return
		}
		for _, f := range fl.List {
			ts := p.str(f.Type)
			for _, n := range f.Names {
				if c19KeyTypes[ts] || n.Name == "signer" || n.Name == "privateKey" {
					names[n.Name] = true
				}
			}
		}
	}
	addFields(fd.Type.Params)
	addFields(fd.Type.Results)
	for changed := true; changed; {
		changed = false
		ast.Inspect(fd.Body, func(n ast.Node) bool {
			switch x := n.(type) {
			case *ast.AssignStmt:
				if len(x.Rhs) == 1 {
					if ce, ok := x.Rhs[0].(*ast.CallExpr); ok && c19GenFuncs[c20CallName(ce)] {
						idx := 0
						if c20CallName(ce) == "ed25519.GenerateKey" {
							idx = 1
						}
						if idx < len(x.Lhs) {
							if id, ok := x.Lhs[idx].(*ast.Ident); ok && id.Name != "_" && !names[id.Name] {
								names[id.Name] = true
								changed = true
							}
						}
					}
				}
			case *ast.TypeSwitchStmt:
				if as, ok := x.Assign.(*ast.AssignStmt); ok && len(as.Lhs) == 1 && len(as.Rhs) == 1 {
					if ta, ok := as.Rhs[0].(*ast.TypeAssertExpr); ok {
						if id, ok := ta.X.(*ast.Ident); ok && names[id.Name] {
							if l, ok := as.Lhs[0].(*ast.Ident); ok && !names[l.Name] {
								names[l.Name] = true
								changed = true
							}
						}
					}
				}
			}
			return true
		})
	}
	return names
}

// c19IsKeyExpr: is e (an Ident or SelectorExpr) a private-key valued expression?
func c19IsKeyExpr(e ast.Expr, names map[string]bool, par map[ast.Node]ast.Node) bool {
	switch x := e.(type) {
	case *ast.Ident:
		if !names[x.Name] {
			return false
		}
		// not the field name of a selector or a composite-literal key
		if sel, ok := par[x].(*ast.SelectorExpr); ok && sel.Sel == x {
			return false
		}
		if kv, ok := par[x].(*ast.KeyValueExpr); ok && kv.Key == ast.Expr(x) {
			return false
		}
		return true
	case *ast.SelectorExpr:
		return c19KeyFields[x.Sel.Name]
	}
	return false
}

func c19ClassifyUse(p *pkgInfo, e ast.Expr, par map[ast.Node]ast.Node, local map[string]bool) string {
	parent := par[e]
	switch x := parent.(type) {
	case *ast.SelectorExpr:
		if x.X == e {
			if ce, ok := par[x].(*ast.CallExpr); ok && ce.Fun == ast.Expr(x) && x.Sel.Name == "Public" {
				return "public"
			}
			if c19KeyFields[x.Sel.Name] {
				return "container" // s.X509 where s itself is not a key
			}
			return "unknown"
		}
	case *ast.CallExpr:
		for _, a := range x.Args {
			if a == e {
				nm := c20CallName(x)
				if c19Serialisers[nm] {
					return "serialised"
				}
				sel := c20SelName(x)
				if local[sel] || strings.HasPrefix(nm, "twofa.") || strings.HasPrefix(nm, "sshagent.") ||
					strings.HasPrefix(nm, "util.") || strings.HasPrefix(nm, "aws_role.") {
					return "passed"
				}
				if nm == "ssh.NewSignerFromKey" || nm == "ssh.NewSignerFromSigner" {
					return "unknown"
				}
				return "unknown"
			}
		}
	case *ast.KeyValueExpr:
		if x.Value == e {
			if cl, ok := par[x].(*ast.CompositeLit); ok {
				ty := p.str(cl.Type)
				key := p.str(x.Key)
				switch {
				case ty == "agent.AddedKey" && key == "PrivateKey":
					return "agentKey"
				case ty == "tls.Certificate" && key == "PrivateKey":
					return "tlsKey"
				case (ty == "aws_role.Params" || ty == "Params") && key == "Signer":
					return "passed"
				}
			}
			return "unknown"
		}
	case *ast.AssignStmt:
		for _, l := range x.Lhs {
			if l == e {
				return "assigned"
			}
		}
		for _, r := range x.Rhs {
			if r == e {
				// key copied into a key-holding field / variable
				if len(x.Lhs) == 1 {
					if c19KeyFields[c19LastName(x.Lhs[0])] {
						return "assigned"
					}
				}
				return "unknown"
			}
		}
	case *ast.BinaryExpr:
		if (x.Op == token.EQL || x.Op == token.NEQ) && (p.str(x.X) == "nil" || p.str(x.Y) == "nil") {
			return "nilCheck"
		}
	case *ast.TypeAssertExpr:
		if x.X == e && x.Type == nil {
			return "typeSwitch"
		}
	case *ast.ReturnStmt:
		return "returned"
	case *ast.Field:
		return "declared"
	case *ast.ValueSpec:
		return "declared"
	}
	return "unknown"
}

func c19LastName(e ast.Expr) string {
	switch x := e.(type) {
	case *ast.Ident:
		return x.Name
	case *ast.SelectorExpr:
		return x.Sel.Name
	}
	return ""
}

func c19Uses(p *pkgInfo, pkgName string) []c19Use {
	var out []c19Use
	local := map[string]bool{}
	for n := range p.funcs {
		local[n] = true
	}
	p.eachFunc(func(fd *ast.FuncDecl) {
		names := c19KeyNames(p, fd)
		par := c19Parents(fd.Body)
		ast.Inspect(fd.Body, func(n ast.Node) bool {
			e, ok := n.(ast.Expr)
			if !ok {
				return true
			}
			switch e.(type) {
			case *ast.Ident, *ast.SelectorExpr:
			default:
				return true
			}
			if !c19IsKeyExpr(e, names, par) {
				return true
			}
			cl := c19ClassifyUse(p, e, par, local)
			if cl == "container" {
				return true
			}
			out = append(out, c19Use{Pos: p.pos(e), Pkg: pkgName, Func: fd.Name.Name, Expr: p.str(e), Class: cl})
			// do not descend into the selector (its X is not a key by itself)
			_, isSel := e.(*ast.SelectorExpr)
			return !isSel
		})
	})
	return out
}

// c19Sinks: where does the result of every private-key serialisation go?
func c19Sinks(p *pkgInfo, pkgName string) []c19Sink {
	var out []c19Sink
	p.eachFunc(func(fd *ast.FuncDecl) {
		par := c19Parents(fd.Body)
		ast.Inspect(fd.Body, func(n ast.Node) bool {
			ce, ok := n.(*ast.CallExpr)
			if !ok || !c19Serialisers[c20CallName(ce)] {
				return true
			}
			site := c19Sink{Pos: p.pos(ce), Pkg: pkgName, Func: fd.Name.Name, Callee: c20CallName(ce)}
			as, ok := par[ce].(*ast.AssignStmt)
			if !ok || len(as.Lhs) == 0 {
				site.Class = "unknown"
				site.Detail = "result not assigned to a variable"
				out = append(out, site)
				return true
			}
			vid, ok := as.Lhs[0].(*ast.Ident)
			if !ok {
				site.Class = "unknown"
				out = append(out, site)
				return true
			}
			// every other occurrence of the variable in the function
			classes := map[string]bool{}
			mode := int64(-1)
			ast.Inspect(fd.Body, func(m ast.Node) bool {
				id, ok := m.(*ast.Ident)
				if !ok || id.Name != vid.Name || id == vid {
					return true
				}
				if a2, ok := par[id].(*ast.AssignStmt); ok {
					for _, l := range a2.Lhs {
						if l == ast.Expr(id) {
							return true // (re)definition
						}
					}
				}
				if vs, ok := par[id].(*ast.ValueSpec); ok {
					_ = vs
					return true // var declaration
				}
				cl, md := c19FlowOf(p, id, par)
				classes[cl] = true
				if cl == "file" {
					if mode == -1 || md == mode {
						mode = md
					} else {
						classes["unknown"] = true
					}
				}
				return true
			})
			switch {
			case len(classes) == 1 && classes["file"]:
				site.Class = "file"
				site.Mode = mode
			case len(classes) == 0:
				site.Class = "unused"
			default:
				site.Class = "unknown"
				var l []string
				for c := range classes {
					l = append(l, c)
				}
				sort.Strings(l)
				site.Detail = strings.Join(l, "|")
			}
			out = append(out, site)
			return true
		})
	})
	return out
}

// c19FlowOf climbs from one occurrence of the serialised value: through pem.Block{Bytes: v},
// &…, pem.EncodeToMemory(…) up to the data argument of ioutil.WriteFile / os.WriteFile.
func c19FlowOf(p *pkgInfo, id *ast.Ident, par map[ast.Node]ast.Node) (string, int64) {
	var cur ast.Node = id
	for i := 0; i < 12; i++ {
		up := par[cur]
		switch x := up.(type) {
		case *ast.KeyValueExpr:
			if x.Value == cur && p.str(x.Key) == "Bytes" {
				cur = up
				continue
			}
			return "unknown", 0
		case *ast.CompositeLit:
			if p.str(x.Type) == "pem.Block" {
				cur = up
				continue
			}
			return "unknown", 0
		case *ast.UnaryExpr:
			if x.Op == token.AND {
				cur = up
				continue
			}
			return "unknown", 0
		case *ast.CallExpr:
			nm := c20CallName(x)
			if nm == "pem.EncodeToMemory" {
				cur = up
				continue
			}
			if (nm == "ioutil.WriteFile" || nm == "os.WriteFile") && len(x.Args) == 3 && x.Args[1] == cur {
				if bl, ok := x.Args[2].(*ast.BasicLit); ok && bl.Kind == token.INT {
					if v, err := strconv.ParseInt(bl.Value, 0, 64); err == nil {
						return "file", v
					}
				}
				return "unknown", 0
			}
			return "unknown", 0
		default:
			return "unknown", 0
		}
	}
	return "unknown", 0
}

// c19AddedKeys: every use of a value of type agent.AddedKey (it carries the private key).
func c19AddedKeys(p *pkgInfo, pkgName string) []c19Use {
	var out []c19Use
	local := map[string]bool{}
	for n := range p.funcs {
		local[n] = true
	}
	p.eachFunc(func(fd *ast.FuncDecl) {
		names := map[string]bool{}
		if fd.Type.Params != nil {
			for _, f := range fd.Type.Params.List {
				if p.str(f.Type) == "agent.AddedKey" {
					for _, n := range f.Names {
						names[n.Name] = true
					}
				}
			}
		}
		ast.Inspect(fd.Body, func(n ast.Node) bool {
			if as, ok := n.(*ast.AssignStmt); ok && len(as.Lhs) == 1 && len(as.Rhs) == 1 {
				if cl, ok := as.Rhs[0].(*ast.CompositeLit); ok && p.str(cl.Type) == "agent.AddedKey" {
					if id, ok := as.Lhs[0].(*ast.Ident); ok {
						names[id.Name] = true
					}
				}
			}
			return true
		})
		if len(names) == 0 {
			return
		}
		par := c19Parents(fd.Body)
		ast.Inspect(fd.Body, func(n ast.Node) bool {
			id, ok := n.(*ast.Ident)
			if !ok || !names[id.Name] {
				return true
			}
			cl := "unknown"
			switch x := par[id].(type) {
			case *ast.SelectorExpr:
				if x.X == ast.Expr(id) && x.Sel.Name != "PrivateKey" {
					cl = "field"
				} else if x.Sel == id {
					return true
				}
			case *ast.AssignStmt:
				for _, l := range x.Lhs {
					if l == ast.Expr(id) {
						cl = "assigned"
					}
				}
			case *ast.CallExpr:
				nm := c20CallName(x)
				sel := c20SelName(x)
				switch {
				case sel == "Add" && len(x.Args) == 1:
					cl = "agentAdd"
				case local[sel] || strings.HasPrefix(nm, "sshagent."):
					cl = "passed"
				}
			}
			out = append(out, c19Use{Pos: p.pos(id), Pkg: pkgName, Func: fd.Name.Name, Expr: id.Name, Class: cl})
			return true
		})
	})
	return out
}

func c19LeanUse(c string) string {
	switch c {
	case "public", "serialised", "passed", "agentKey", "tlsKey", "assigned", "nilCheck", "typeSwitch", "returned", "declared",
		"field", "agentAdd":
		return "KeyUse." + c
	}
	return "KeyUse.unknown"
}

func c19LeanPkg(s string) string {
	switch s {
	case "cmd/keymaster":
		return "ClientPkg.main"
	case "lib/client/twofa":
		return "ClientPkg.twofa"
	case "lib/client/aws_role":
		return "ClientPkg.awsRole"
	case "lib/client/sshagent":
		return "ClientPkg.sshagent"
	case "lib/client/util":
		return "ClientPkg.util"
	case "lib/client/webauth":
		return "ClientPkg.webauth"
	case "lib/client/net":
		return "ClientPkg.net"
	case "lib/client/config":
		return "ClientPkg.config"
	}
	return "ClientPkg.other"
}

// ---------------------------------------------------------------- key generation per preference

func c19KeyGenOf(p *pkgInfo, ce *ast.CallExpr) (string, int64) {
	switch c20CallName(ce) {
	case "rsa.GenerateKey":
		if len(ce.Args) == 2 {
			if v, ok := p.evalInt(ce.Args[1], 0); ok {
				return "rsa", v
			}
		}
	case "ecdsa.GenerateKey":
		if len(ce.Args) == 2 {
			switch p.str(ce.Args[0]) {
			case "elliptic.P224()":
				return "ecdsa", 224
			case "elliptic.P256()":
				return "ecdsa", 256
			case "elliptic.P384()":
				return "ecdsa", 384
			case "elliptic.P521()":
				return "ecdsa", 521
			}
		}
	case "ed25519.GenerateKey":
		return "ed25519", 256
	}
	return "unknown", 0
}

func genC19(e *emitter) {
	cli := e.pkg("cmd/keymaster")
	kmd := e.pkg("cmd/keymasterd")
	cg := e.pkg("lib/certgen")
	var b strings.Builder
	b.WriteString("import KM.Model.ClientTypes\nnamespace KM.Gen\nopen KM.ClientSite\n\n")

	// preference names: keyPreferenceFromString
	prefOf := map[string]string{} // constant name -> flag string
	if fd, ok := cli.funcs["keyPreferenceFromString"]; ok {
		ast.Inspect(fd.Body, func(n ast.Node) bool {
			cc, ok := n.(*ast.CaseClause)
			if !ok || len(cc.List) != 1 || len(cc.Body) == 0 {
				return true
			}
			s, ok := cli.evalStr(cc.List[0])
			if !ok {
				return true
			}
			if rs, ok := cc.Body[0].(*ast.ReturnStmt); ok && len(rs.Results) >= 1 {
				prefOf[cli.str(rs.Results[0])] = s
			}
			return true
		})
	}
	leanPref := func(constName string) string {
		switch prefOf[constName] {
		case "rsa":
			return "Pref.rsa"
		case "p256":
			return "Pref.p256"
		case "p384":
			return "Pref.p384"
		}
		return "Pref.unknown"
	}
	// signers.compute: per case, what is generated into which field; and what follows the switch
	var gens []c19KeyGen
	if fd, ok := cli.funcs["compute"]; ok {
		for _, st := range fd.Body.List {
			if sw, ok := st.(*ast.SwitchStmt); ok {
				for _, c := range sw.Body.List {
					cc := c.(*ast.CaseClause)
					if len(cc.List) != 1 {
						continue
					}
					for _, s := range cc.Body {
						as, ok := s.(*ast.AssignStmt)
						if !ok || len(as.Rhs) != 1 {
							continue
						}
						ce, ok := as.Rhs[0].(*ast.CallExpr)
						if !ok {
							continue
						}
						kind, bits := c19KeyGenOf(cli, ce)
						if kind == "unknown" && !c19GenFuncs[c20CallName(ce)] {
							continue
						}
						gens = append(gens, c19KeyGen{Pref: cli.str(cc.List[0]), Field: c19LastName(as.Lhs[0]), Kind: kind, Bits: bits})
					}
				}
				continue
			}
			// unconditional generation after the switch: `_, x, err := ed25519.GenerateKey` then `s.F = x`
			if as, ok := st.(*ast.AssignStmt); ok && len(as.Rhs) == 1 {
				if ce, ok := as.Rhs[0].(*ast.CallExpr); ok && c19GenFuncs[c20CallName(ce)] {
					kind, bits := c19KeyGenOf(cli, ce)
					idx := 0
					if kind == "ed25519" {
						idx = 1
					}
					v := c19LastName(as.Lhs[idx])
					field := v
					for _, s2 := range fd.Body.List {
						if a2, ok := s2.(*ast.AssignStmt); ok && len(a2.Rhs) == 1 && cli.str(a2.Rhs[0]) == v {
							field = c19LastName(a2.Lhs[0])
						}
					}
					gens = append(gens, c19KeyGen{Pref: "*", Field: field, Kind: kind, Bits: bits})
				}
			}
		}
	}
	leanField := func(f string) string {
		switch f {
		case "X509":
			return "KeyField.x509"
		case "SshMain":
			return "KeyField.sshMain"
		case "SshEd25519":
			return "KeyField.sshEd25519"
		}
		return "KeyField.unknown"
	}
	leanKind := func(k string) string {
		switch k {
		case "rsa", "ecdsa", "ed25519":
			return "KeyKind." + k
		}
		return "KeyKind.other"
	}
	b.WriteString("/-- cmd/keymaster/signers.go `compute`: (preference, field, key kind, bits); `none` = generated for every preference -/\n")
	b.WriteString("def clientKeyGen : List (Option Pref × KeyField × KeyKind × Nat) := [\n")
	for i, g := range gens {
		sep := ","
		if i == len(gens)-1 {
			sep = ""
		}
		pref := "some " + leanPref(g.Pref)
		if g.Pref == "*" {
			pref = "none"
		}
		fmt.Fprintf(&b, "  (%s, %s, %s, %d)%s  -- %s %s\n", pref, leanField(g.Field), leanKind(g.Kind), g.Bits, sep, g.Pref, g.Field)
	}
	b.WriteString("]\n\n")
	// setupCerts: DoCertRequest(signers.<Field>, …, "<type>", …) and whether its failure aborts
	type reqT struct {
		Field, CertType string
		Mandatory       bool
	}
	var reqs []reqT
	if fd, ok := cli.funcs["setupCerts"]; ok {
		list := fd.Body.List
		for i, st := range list {
			as, ok := st.(*ast.AssignStmt)
			if !ok || len(as.Rhs) != 1 {
				continue
			}
			ce, ok := as.Rhs[0].(*ast.CallExpr)
			if !ok || c20CallName(ce) != "twofa.DoCertRequest" || len(ce.Args) < 5 {
				continue
			}
			ct, _ := cli.evalStr(ce.Args[4])
			mand := false
			if i+1 < len(list) {
				if is, ok := list[i+1].(*ast.IfStmt); ok && c20IsErrExit(is) {
					mand = true
				}
			}
			reqs = append(reqs, reqT{Field: c19LastName(ce.Args[0]), CertType: ct, Mandatory: mand})
		}
	}
	leanCT := func(s string) string {
		switch s {
		case "ssh":
			return "CertType.ssh"
		case "x509":
			return "CertType.x509"
		case "x509-kubernetes":
			return "CertType.x509Kubernetes"
		}
		return "CertType.unknown"
	}
	b.WriteString("/-- cmd/keymaster/main.go `setupCerts`: every twofa.DoCertRequest (key field, cert type, failure aborts) -/\n")
	b.WriteString("def clientCertRequests : List (KeyField × CertType × Bool) := [\n")
	for i, r := range reqs {
		sep := ","
		if i == len(reqs)-1 {
			sep = ""
		}
		fmt.Fprintf(&b, "  (%s, %s, %s)%s\n", leanField(r.Field), leanCT(r.CertType), leanBool(r.Mandatory), sep)
	}
	b.WriteString("]\n\n")

	// server: alternation of the key-type regex in getValidSSHPublicKey
	var reLit string
	var alts []string
	restOK := false
	if fd, ok := kmd.funcs["getValidSSHPublicKey"]; ok {
		ast.Inspect(fd.Body, func(n ast.Node) bool {
			ce, ok := n.(*ast.CallExpr)
			if ok && c20CallName(ce) == "regexp.MatchString" && len(ce.Args) == 2 {
				if s, ok := kmd.evalStr(ce.Args[0]); ok {
					reLit = s
				}
			}
			return true
		})
	}
	if m := regexp.MustCompile(`(?s)^\^\(([^()]*)\) (.*)$`).FindStringSubmatch(reLit); m != nil {
		alts = strings.Split(m[1], "|")
		restOK = m[2] == "[a-zA-Z0-9/+]+=?=? ?.{0,512}\n?$"
	}
	b.WriteString("/-- alternation of key type names in the regex of cmd/keymasterd getValidSSHPublicKey -/\n")
	b.WriteString("def sshKeyTypeAlternation : List (List Char) := [")
	for i, a := range alts {
		if i > 0 {
			b.WriteString(", ")
		}
		b.WriteString(leanStr(a) + ".toList")
	}
	b.WriteString("]\n")
	fmt.Fprintf(&b, "/-- the rest of that regex is literally ` [a-zA-Z0-9/+]+=?=? ?.{0,512}\\n?$` (what `KM.Client.lineOK` mirrors) -/\ndef sshKeyRegexRestAsModelled : Bool := %s\n\n", leanBool(restOK))

	// strength thresholds of certgen.ValidatePublicKeyStrength
	th := map[string]int64{}
	if fd, ok := cg.funcs["ValidatePublicKeyStrength"]; ok {
		ast.Inspect(fd.Body, func(n ast.Node) bool {
			be, ok := n.(*ast.BinaryExpr)
			if !ok || be.Op != token.LSS {
				return true
			}
			v, ok := cg.evalInt(be.Y, 0)
			if !ok {
				return true
			}
			l := cg.str(be.X)
			switch {
			case strings.HasSuffix(l, ".Size()"): // modulus size in bytes: (bits+7)/8 >= v  <=>  bits >= 8v-7
				th["rsaMinBits"] = 8*v - 7
			case strings.HasSuffix(l, ".BitLen()"):
				th["rsaMinBits"] = v
			case strings.HasSuffix(l, ".E"):
				th["rsaMinExponent"] = v
			case strings.HasSuffix(l, ".BitSize"):
				th["ecMinBits"] = v
			}
			return true
		})
	}
	fmt.Fprintf(&b, "/-- smallest accepted RSA modulus length in bits (from the `.Size()` or `.BitLen()` comparison) -/\ndef strengthRsaMinBits : Nat := %d\ndef strengthRsaMinExponent : Nat := %d\ndef strengthEcMinBits : Nat := %d\n", th["rsaMinBits"], th["rsaMinExponent"], th["ecMinBits"])
	rsaBits := int64(0)
	if ce, ok := cli.consts["rsaKeySize"]; ok {
		rsaBits, _ = cli.evalInt(ce, 0)
	}
	fmt.Fprintf(&b, "def clientRsaKeySize : Nat := %d\n\n", rsaBits)

	// private-key uses and serialisation sinks
	pkgs := []string{"cmd/keymaster", "lib/client/twofa", "lib/client/aws_role", "lib/client/sshagent", "lib/client/util",
		"lib/client/webauth", "lib/client/net", "lib/client/config"}
	var uses, added []c19Use
	var sinks []c19Sink
	for _, pn := range pkgs {
		p := e.pkg(pn)
		uses = append(uses, c19Uses(p, pn)...)
		sinks = append(sinks, c19Sinks(p, pn)...)
		added = append(added, c19AddedKeys(p, pn)...)
	}
	b.WriteString("/-- every occurrence of a private-key valued expression in cmd/keymaster and lib/client/*: (package, function, use) -/\n")
	b.WriteString("def clientKeyUses : List (ClientPkg × String × KeyUse) := [\n")
	for i, u := range uses {
		sep := ","
		if i == len(uses)-1 {
			sep = ""
		}
		fmt.Fprintf(&b, "  (%s, %s, %s)%s  -- %s %s\n", c19LeanPkg(u.Pkg), leanStr(u.Func), c19LeanUse(u.Class), sep, u.Pos, u.Expr)
	}
	b.WriteString("]\n\n")
	// source text of the agent upsert (what KM.Client.agentUpsert transcribes)
	sa := e.pkg("lib/client/sshagent")
	srcs := map[string]string{}
	for _, fn := range []string{"deleteDuplicateEntries", "withAddedKeyUpsertCertIntoAgentConnection", "connectToDefaultSSHAgentLocation"} {
		src := "<missing>"
		if fd := sa.funcs[fn]; fd != nil {
			src = sa.str(fd.Body)
		}
		srcs[fn] = src
		fmt.Fprintf(&b, "/-- body of lib/client/sshagent %s (go/printer, whitespace-normalised) -/\ndef %sSrc : List Char := %s.toList\n", fn, fn, leanStr(src))
	}
	b.WriteString("\n")
	e.facts["c19_agent_src"] = srcs
	b.WriteString("/-- every use of an `agent.AddedKey` value (it carries the private key): (package, function, use) -/\n")
	b.WriteString("def clientAddedKeyUses : List (ClientPkg × String × KeyUse) := [\n")
	for i, u := range added {
		sep := ","
		if i == len(added)-1 {
			sep = ""
		}
		fmt.Fprintf(&b, "  (%s, %s, %s)%s  -- %s %s\n", c19LeanPkg(u.Pkg), leanStr(u.Func), c19LeanUse(u.Class), sep, u.Pos, u.Expr)
	}
	b.WriteString("]\n\n")
	b.WriteString("/-- every serialisation of a private key: (package, function, where its result goes) -/\n")
	b.WriteString("def clientKeySinks : List (ClientPkg × String × KeySink) := [\n")
	for i, s := range sinks {
		sep := ","
		if i == len(sinks)-1 {
			sep = ""
		}
		cl := "KeySink.unknown"
		switch s.Class {
		case "file":
			cl = fmt.Sprintf("KeySink.file %d", s.Mode)
		case "unused":
			cl = "KeySink.unused"
		}
		fmt.Fprintf(&b, "  (%s, %s, %s)%s  -- %s %s %s\n", c19LeanPkg(s.Pkg), leanStr(s.Func), cl, sep, s.Pos, s.Callee, s.Detail)
	}
	b.WriteString("]\n\nend KM.Gen\n")
	e.lean("Client.lean", b.String())
	e.facts["c19"] = map[string]interface{}{
		"key_gen": gens, "cert_requests": reqs, "ssh_key_regex": reLit, "ssh_key_type_alternation": alts,
		"regex_rest_as_modelled": restOK, "strength": th, "client_rsa_bits": rsaBits, "key_uses": uses, "key_sinks": sinks, "added_key_uses": added,
		"pref_names": prefOf,
	}
}
