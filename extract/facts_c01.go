package main

import (
	"fmt"
	"go/ast"
	"go/token"
	"strings"
)

// C01: the sufficiency decision of certGenHandler as a clause table.

type clauseFact struct {
	Pref string `json:"pref_const"` // proto.AuthTypeX
	Test string `json:"test"`       // always | hasAll:<AuthTypeY> | unknown:<text>
}

func init() { register("c01-certgen", genC01) }

// matchHasAll recognises ((authData.AuthType & C) == C) and returns C.
func matchHasAll(p *pkgInfo, e ast.Expr) (string, bool) {
	for {
		if pe, ok := e.(*ast.ParenExpr); ok {
			e = pe.X
			continue
		}
		break
	}
	be, ok := e.(*ast.BinaryExpr)
	if !ok || be.Op != token.EQL {
		return "", false
	}
	l := be.X
	for {
		if pe, ok := l.(*ast.ParenExpr); ok {
			l = pe.X
			continue
		}
		break
	}
	and, ok := l.(*ast.BinaryExpr)
	if !ok || and.Op != token.AND || p.str(and.X) != "authData.AuthType" {
		return "", false
	}
	c1, ok1 := and.Y.(*ast.Ident)
	c2, ok2 := be.Y.(*ast.Ident)
	if !ok1 || !ok2 || c1.Name != c2.Name {
		return "", false
	}
	return c1.Name, true
}

func isSetTrue(p *pkgInfo, body *ast.BlockStmt, v string) bool {
	if len(body.List) != 1 {
		return false
	}
	as, ok := body.List[0].(*ast.AssignStmt)
	return ok && len(as.Lhs) == 1 && len(as.Rhs) == 1 && p.str(as.Lhs[0]) == v && p.str(as.Rhs[0]) == "true"
}

func genC01(e *emitter) {
	p := e.pkg("cmd/keymasterd")
	proto := e.pkg("lib/webapi/v0/proto")
	fd := p.funcs["certGenHandler"]
	if fd == nil {
		fatal("certGenHandler not found")
	}
	const v = "sufficientAuthLevel"
	var clauses []clauseFact
	var always []string
	otherWrites := 0
	loopVar := ""
	var rangeOver string
	// position bookkeeping: every assignment to v must be inside a recognised clause
	recognised := map[token.Pos]bool{}
	for _, st := range fd.Body.List {
		switch x := st.(type) {
		case *ast.RangeStmt:
			if id, ok := x.Value.(*ast.Ident); ok && strings.Contains(p.str(x.X), "AllowedAuthBackendsForCerts") {
				loopVar = id.Name
				rangeOver = p.str(x.X)
				for _, inner := range x.Body.List {
					ifs, ok := inner.(*ast.IfStmt)
					if !ok || ifs.Else != nil || ifs.Init != nil || !isSetTrue(p, ifs.Body, v) {
						clauses = append(clauses, clauseFact{Pref: "?", Test: "unknown:" + p.str(inner)})
						continue
					}
					recognised[ifs.Body.List[0].Pos()] = true
					cond := ifs.Cond
					var prefExpr, rest ast.Expr
					if be, ok := cond.(*ast.BinaryExpr); ok && be.Op == token.LAND {
						prefExpr, rest = be.X, be.Y
					} else {
						prefExpr = cond
					}
					pe, ok := prefExpr.(*ast.BinaryExpr)
					if !ok || pe.Op != token.EQL || p.str(pe.X) != loopVar || !strings.HasPrefix(p.str(pe.Y), "proto.") {
						clauses = append(clauses, clauseFact{Pref: "?", Test: "unknown:" + p.str(cond)})
						continue
					}
					pref := strings.TrimPrefix(p.str(pe.Y), "proto.")
					if rest == nil {
						clauses = append(clauses, clauseFact{Pref: pref, Test: "always"})
					} else if c, ok := matchHasAll(p, rest); ok {
						clauses = append(clauses, clauseFact{Pref: pref, Test: "hasAll:" + c})
					} else {
						clauses = append(clauses, clauseFact{Pref: pref, Test: "unknown:" + p.str(rest)})
					}
				}
			}
		case *ast.IfStmt:
			if isSetTrue(p, x.Body, v) && x.Else == nil {
				recognised[x.Body.List[0].Pos()] = true
				if c, ok := matchHasAll(p, x.Cond); ok {
					always = append(always, c)
				} else {
					always = append(always, "?"+p.str(x.Cond))
				}
			}
		}
	}
	// any other write to the variable?
	ast.Inspect(fd.Body, func(n ast.Node) bool {
		if as, ok := n.(*ast.AssignStmt); ok {
			for i, l := range as.Lhs {
				if p.str(l) == v && !recognised[as.Pos()] {
					if as.Tok == token.DEFINE && i < len(as.Rhs) && p.str(as.Rhs[i]) == "false" {
						continue
					}
					otherWrites++
				}
			}
		}
		return true
	})
	// gate order in the body: sealed test, checkAuth(mask), sufficiency test, target user test, method test
	var order []string
	mask := "unknown"
	ast.Inspect(fd.Body, func(n ast.Node) bool {
		switch x := n.(type) {
		case *ast.IfStmt:
			c := p.str(x.Cond)
			switch {
			case c == "signerIsNull":
				order = append(order, "sealed")
			case c == "!"+v:
				order = append(order, "sufficient")
			case c == "authData.Username != targetUser":
				order = append(order, "targetUser")
			case c == `r.Method != "POST"`:
				order = append(order, "post")
			}
		case *ast.CallExpr:
			if se, ok := x.Fun.(*ast.SelectorExpr); ok {
				switch se.Sel.Name {
				case "checkAuth":
					order = append(order, "checkAuth")
					if len(x.Args) == 3 {
						mask = maskClass(p, x.Args[2])
					}
				case "postAuthSSHCertHandler", "postAuthX509CertHandler":
					order = appendUnique(order, "issue")
				}
			}
		}
		return true
	})
	val := func(q *pkgInfo, name string) (int64, bool) {
		ce, ok := q.consts[name]
		if !ok {
			return 0, false
		}
		return q.evalInt(ce, q.cindex[name])
	}
	var b strings.Builder
	b.WriteString("import KM.Model.SiteTypes\nnamespace KM.Gen\nopen KM.Site\n\n")
	b.WriteString("/-- the clauses of certGenHandler's sufficiency loop: (operator setting value, constant names, test) -/\n")
	b.WriteString("def certgenClauses : List Clause := [\n")
	for i, c := range clauses {
		sep := ","
		if i == len(clauses)-1 {
			sep = ""
		}
		prefStr := "?"
		if ce, ok := proto.consts[c.Pref]; ok {
			if s, ok := proto.evalStr(ce); ok {
				prefStr = s
			}
		}
		test := "ClauseTest.unknown"
		bitName := ""
		switch {
		case c.Test == "always":
			test = "ClauseTest.always"
		case strings.HasPrefix(c.Test, "hasAll:"):
			bitName = strings.TrimPrefix(c.Test, "hasAll:")
			if n, ok := val(p, bitName); ok {
				test = fmt.Sprintf("ClauseTest.hasAll %d", n)
			}
		}
		fmt.Fprintf(&b, "  { pref := %s.toList, prefConst := %s.toList, bitConst := %s.toList, test := %s }%s\n",
			leanStr(prefStr), leanStr(c.Pref), leanStr(bitName), test, sep)
	}
	b.WriteString("]\n\n")
	var al []string
	for _, a := range always {
		if n, ok := val(p, a); ok {
			al = append(al, fmt.Sprintf("(%s.toList, %d)", leanStr(a), n))
		} else {
			al = append(al, fmt.Sprintf("(%s.toList, 0)", leanStr(a)))
		}
	}
	fmt.Fprintf(&b, "/-- factor bits that suffice whatever the operator listed (tests after the loop) -/\ndef certgenAlwaysBits : List (List Char × Nat) := [%s]\n\n", strings.Join(al, ", "))
	fmt.Fprintf(&b, "def certgenOtherWrites : Nat := %d\n", otherWrites)
	fmt.Fprintf(&b, "def certgenRangesOverAllowedBackends : Bool := %s\n", leanBool(rangeOver == "state.Config.Base.AllowedAuthBackendsForCerts"))
	fmt.Fprintf(&b, "def certgenMask : Mask := Mask.%s\n", mask)
	fmt.Fprintf(&b, "/-- order in which the gates appear in the handler body -/\ndef certgenGateOrder : List (List Char) := [%s]\n",
		strings.Join(mapStr(order, func(s string) string { return leanStr(s) + ".toList" }), ", "))
	b.WriteString("\nend KM.Gen\n")
	e.lean("C01.lean", b.String())
	e.facts["c01"] = map[string]interface{}{"clauses": clauses, "always": always, "other_writes": otherWrites, "mask": mask, "order": order}
}

func mapStr(l []string, f func(string) string) []string {
	out := make([]string, len(l))
	for i, s := range l {
		out[i] = f(s)
	}
	return out
}
