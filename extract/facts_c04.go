package main

// C04: facts about the signed artefacts of cmd/keymasterd — JSON layout of the claim
// structs, the kind literals the producers write, and, for every consumer, the set of
// comparisons that guard acceptance (as a structured table: dropping one comparison
// changes the table and breaks theorem c04_sites).

import (
	"fmt"
	"go/ast"
	"go/token"
	"reflect"
	"regexp"
	"strconv"
	"strings"
)

func init() { register("c04-tokens", genC04) }

type c04Field struct {
	Go        string `json:"go"`
	JSON      string `json:"json"`
	Omitempty bool   `json:"omitempty"`
	Ty        string `json:"ty"`
}

type c04Cmp struct {
	Lhs string `json:"lhs"`
	Op  string `json:"op"`
	Rhs string `json:"rhs"`
	Src string `json:"src"`
	Pos string `json:"pos"`
}

func c04StructFields(p *pkgInfo, name string) []c04Field {
	var out []c04Field
	for _, f := range p.files {
		for _, d := range f.Decls {
			gd, ok := d.(*ast.GenDecl)
			if !ok || gd.Tok != token.TYPE {
				continue
			}
			for _, sp := range gd.Specs {
				ts := sp.(*ast.TypeSpec)
				st, ok := ts.Type.(*ast.StructType)
				if !ok || ts.Name.Name != name {
					continue
				}
				for _, fl := range st.Fields.List {
					ty := "unknown"
					switch p.str(fl.Type) {
					case "string":
						ty = "str"
					case "int", "int64":
						ty = "int"
					case "[]string":
						ty = "strs"
					}
					tag := ""
					if fl.Tag != nil {
						if s, err := strconv.Unquote(fl.Tag.Value); err == nil {
							tag = reflect.StructTag(s).Get("json")
						}
					}
					for _, nm := range fl.Names {
						key := nm.Name
						omit := false
						if tag != "" {
							parts := strings.Split(tag, ",")
							if parts[0] != "" {
								key = parts[0]
							}
							for _, o := range parts[1:] {
								if o == "omitempty" { // exact: "omitEmpty" is not an option of encoding/json
									omit = true
								}
							}
						}
						out = append(out, c04Field{Go: nm.Name, JSON: key, Omitempty: omit, Ty: ty})
					}
				}
			}
		}
	}
	return out
}

// c04Literals: string literals stored into field `field` inside function fn
// (composite literal key or assignment X.field = "lit").
func c04Literals(p *pkgInfo, fn, field string) []string {
	fd := p.funcs[fn]
	var out []string
	if fd == nil {
		return out
	}
	ast.Inspect(fd.Body, func(n ast.Node) bool {
		switch x := n.(type) {
		case *ast.KeyValueExpr:
			if p.str(x.Key) == field {
				if s, ok := p.evalStr(x.Value); ok {
					out = append(out, s)
				} else {
					out = append(out, "?"+p.str(x.Value))
				}
			}
		case *ast.AssignStmt:
			for i, l := range x.Lhs {
				if sel, ok := l.(*ast.SelectorExpr); ok && sel.Sel.Name == field && i < len(x.Rhs) {
					if s, ok := p.evalStr(x.Rhs[i]); ok {
						out = append(out, s)
					} else {
						out = append(out, "?"+p.str(x.Rhs[i]))
					}
				}
			}
		}
		return true
	})
	return out
}

// c04ClaimsVars: local variables of fd holding decoded claims: `&V` handed to JWTClaims, or a
// variable assigned from one of the decoding helpers.
func c04ClaimsVars(p *pkgInfo, fd *ast.FuncDecl) []string {
	var vars []string
	add := func(s string) {
		for _, v := range vars {
			if v == s {
				return
			}
		}
		vars = append(vars, s)
	}
	ast.Inspect(fd.Body, func(n ast.Node) bool {
		switch x := n.(type) {
		case *ast.CallExpr:
			if sel, ok := x.Fun.(*ast.SelectorExpr); ok && sel.Sel.Name == "JWTClaims" {
				for _, a := range x.Args[1:] {
					if u, ok := a.(*ast.UnaryExpr); ok && u.Op == token.AND {
						add(p.str(u.X))
					}
				}
			}
		case *ast.AssignStmt:
			if len(x.Rhs) == 1 {
				if ce, ok := x.Rhs[0].(*ast.CallExpr); ok {
					if sel, ok := ce.Fun.(*ast.SelectorExpr); ok {
						switch sel.Sel.Name {
						case "getAuthInfoFromAuthJWT", "getAuthInfoFromJWT", "getStorageDataFromStorageStringDataJWT":
							if id, ok := x.Lhs[0].(*ast.Ident); ok {
								add(id.Name)
							}
						}
					}
				}
			}
		}
		return true
	})
	return vars
}

func c04IsParam(fd *ast.FuncDecl, name string) bool {
	for _, fl := range fd.Type.Params.List {
		for _, nm := range fl.Names {
			if nm.Name == name {
				return true
			}
		}
	}
	return false
}

var c04FormGet = regexp.MustCompile(`^r\.Form\.Get\("([^"]+)"\)$`)

func c04Rhs(p *pkgInfo, fd *ast.FuncDecl, e ast.Expr, depth int) string {
	s := p.str(e)
	switch s {
	case "state.idpGetIssuer()":
		return "issuer"
	case "state.idpGetIssuer() + idpOpenIDCUserinfoPath":
		return "userinfoURL"
	case "time.Now().Unix()":
		return "nowUnix"
	}
	if lit, ok := e.(*ast.BasicLit); ok {
		if lit.Kind == token.STRING {
			if v, ok := p.evalStr(e); ok {
				return "lit:" + v
			}
		}
		if lit.Kind == token.INT {
			return "int:" + lit.Value
		}
	}
	if m := c04FormGet.FindStringSubmatch(s); m != nil {
		return "form:" + m[1]
	}
	if id, ok := e.(*ast.Ident); ok {
		if c04IsParam(fd, id.Name) {
			return "param:" + id.Name
		}
		if v, ok := p.evalStr(e); ok {
			if _, isConst := p.consts[id.Name]; isConst {
				return "lit:" + v
			}
		}
		rhs := assignmentsTo(fd, id.Name)
		if len(rhs) == 1 && depth < 2 {
			r := c04Rhs(p, fd, rhs[0], depth+1)
			if r == "issuer" || r == "userinfoURL" || strings.HasPrefix(r, "form:") {
				return r
			}
		}
		return "loc:" + id.Name
	}
	if sel, ok := e.(*ast.SelectorExpr); ok {
		if _, ok := sel.X.(*ast.Ident); ok {
			return "field:" + s
		}
	}
	return "unknown:" + s
}

var c04ClaimNames = map[string]string{
	"Issuer": "issuer", "Subject": "subject", "Expiration": "expiration", "NotBefore": "notBefore",
	"IssuedAt": "issuedAt", "TokenType": "tokenType", "Type": "typ", "DataType": "dataType",
	"RedirectURI": "redirectURI", "Username": "username", "ExpiresAt": "expiresAt", "AuthType": "authType",
}

// c04Lhs classifies an expression mentioning claims variable v. Returns "" if it does not mention v.
func c04Lhs(p *pkgInfo, v string, e ast.Expr, authInfo bool) string {
	s := p.str(e)
	if !strings.Contains(s, v+".") {
		return ""
	}
	switch {
	case s == "len("+v+".Audience)":
		return "audienceLen"
	case s == v+".Audience[0]":
		return "audience0"
	}
	if strings.HasPrefix(s, v+".") {
		f := s[len(v)+1:]
		if authInfo && f == "Username" {
			return "authUsername"
		}
		if c, ok := c04ClaimNames[f]; ok {
			return c
		}
	}
	return "unknown"
}

func c04EndsInReturn(b *ast.BlockStmt) bool {
	if len(b.List) == 0 {
		return false
	}
	_, ok := b.List[len(b.List)-1].(*ast.ReturnStmt)
	return ok
}

func c04Flip(op string) string {
	switch op {
	case "lt":
		return "gt"
	case "gt":
		return "lt"
	}
	return op
}

// c04Leaf classifies one disjunct of a rejecting `if` condition.
func c04Leaf(p *pkgInfo, fd *ast.FuncDecl, v string, authInfo bool, e ast.Expr) (c04Cmp, bool) {
	src := p.str(e)
	if !strings.Contains(src, v+".") {
		return c04Cmp{}, false
	}
	c := c04Cmp{Lhs: "unknown", Op: "unknown", Rhs: "unknown:" + src, Src: src, Pos: p.pos(e)}
	for {
		pe, ok := e.(*ast.ParenExpr)
		if !ok {
			break
		}
		e = pe.X
	}
	switch x := e.(type) {
	case *ast.BinaryExpr:
		ops := map[token.Token]string{token.NEQ: "ne", token.LSS: "lt", token.GTR: "gt"}
		// (V.AuthType & m) == 0
		if x.Op == token.EQL && p.str(x.Y) == "0" {
			if pe, ok := x.X.(*ast.ParenExpr); ok {
				if be, ok := pe.X.(*ast.BinaryExpr); ok && be.Op == token.AND {
					if l := c04Lhs(p, v, be.X, authInfo); l != "" {
						c.Lhs, c.Op, c.Rhs = l, "maskZero", c04Rhs(p, fd, be.Y, 0)
						return c, true
					}
				}
			}
		}
		// time.Until(V.ExpiresAt) < 0
		if ce, ok := isCallTo(x.X, "time.Until"); ok && len(ce.Args) == 1 && x.Op == token.LSS && p.str(x.Y) == "0" {
			if l := c04Lhs(p, v, ce.Args[0], authInfo); l != "" {
				c.Lhs, c.Op, c.Rhs = l, "untilNeg", "none"
				return c, true
			}
		}
		op, ok := ops[x.Op]
		if !ok {
			return c, true
		}
		if l := c04Lhs(p, v, x.X, authInfo); l != "" {
			c.Lhs, c.Op, c.Rhs = l, op, c04Rhs(p, fd, x.Y, 0)
			return c, true
		}
		if l := c04Lhs(p, v, x.Y, authInfo); l != "" {
			c.Lhs, c.Op, c.Rhs = l, c04Flip(op), c04Rhs(p, fd, x.X, 0)
			return c, true
		}
	case *ast.CallExpr:
		// V.ExpiresAt.Before(time.Now())
		if sel, ok := x.Fun.(*ast.SelectorExpr); ok && sel.Sel.Name == "Before" && len(x.Args) == 1 && p.str(x.Args[0]) == "time.Now()" {
			if l := c04Lhs(p, v, sel.X, authInfo); l != "" {
				c.Lhs, c.Op, c.Rhs = l, "beforeNow", "none"
				return c, true
			}
		}
	}
	return c, true
}

func c04Disjuncts(e ast.Expr) []ast.Expr {
	if be, ok := e.(*ast.BinaryExpr); ok && be.Op == token.LOR {
		return append(c04Disjuncts(be.X), c04Disjuncts(be.Y)...)
	}
	return []ast.Expr{e}
}

// c04AudienceLoop recognises
//   if len(V.Audience) > 0 { has := false; url := issuer + path; for _, a := range V.Audience { if a == url { has = true ... } }; if !has { ...; return } }
func c04AudienceLoop(p *pkgInfo, fd *ast.FuncDecl, v string, st *ast.IfStmt) (c04Cmp, bool) {
	if p.str(st.Cond) != "len("+v+".Audience) > 0" {
		return c04Cmp{}, false
	}
	c := c04Cmp{Lhs: "audienceHas", Op: "unknown", Rhs: "unknown", Src: "len(" + v + ".Audience) > 0 { range … }", Pos: p.pos(st)}
	var flag, target string
	rejects := false
	for _, s := range st.Body.List {
		switch x := s.(type) {
		case *ast.RangeStmt:
			if p.str(x.X) != v+".Audience" || x.Value == nil {
				continue
			}
			elem := p.str(x.Value)
			for _, bs := range x.Body.List {
				if is, ok := bs.(*ast.IfStmt); ok {
					if be, ok := is.Cond.(*ast.BinaryExpr); ok && be.Op == token.EQL && p.str(be.X) == elem {
						target = c04Rhs(p, fd, be.Y, 0)
						if id, ok := be.Y.(*ast.Ident); ok {
							// variable declared inside the enclosing block
							for _, s2 := range st.Body.List {
								if as, ok := s2.(*ast.AssignStmt); ok && len(as.Lhs) == 1 && p.str(as.Lhs[0]) == id.Name {
									target = c04Rhs(p, fd, as.Rhs[0], 0)
								}
							}
						}
						for _, s3 := range is.Body.List {
							if as, ok := s3.(*ast.AssignStmt); ok && p.str(as.Rhs[0]) == "true" {
								flag = p.str(as.Lhs[0])
							}
						}
					}
				}
			}
		case *ast.IfStmt:
			if flag != "" && p.str(x.Cond) == "!"+flag && c04EndsInReturn(x.Body) {
				rejects = true
			}
		}
	}
	if flag != "" && rejects {
		c.Op, c.Rhs = "missingIfNonEmpty", target
	}
	return c, true
}

// c04Comparisons: every comparison over claims variable v that guards a rejecting branch of fd, in source order.
func c04Comparisons(p *pkgInfo, fd *ast.FuncDecl, v string, authInfo bool) []c04Cmp {
	var out []c04Cmp
	ast.Inspect(fd.Body, func(n ast.Node) bool {
		st, ok := n.(*ast.IfStmt)
		if !ok {
			return true
		}
		if c, ok := c04AudienceLoop(p, fd, v, st); ok {
			out = append(out, c)
			return false
		}
		if !c04EndsInReturn(st.Body) {
			return true
		}
		for _, d := range c04Disjuncts(st.Cond) {
			if c, ok := c04Leaf(p, fd, v, authInfo, d); ok {
				out = append(out, c)
			}
		}
		return true
	})
	return out
}

func c04LeanRhs(r string) string {
	switch {
	case r == "issuer":
		return "Rhs.issuer"
	case r == "userinfoURL":
		return "Rhs.userinfoURL"
	case r == "nowUnix":
		return "Rhs.nowUnix"
	case r == "none":
		return "Rhs.none"
	case strings.HasPrefix(r, "lit:"):
		return "Rhs.lit " + leanStr(r[4:]) + ".toList"
	case strings.HasPrefix(r, "int:"):
		return "Rhs.int " + r[4:]
	case strings.HasPrefix(r, "param:"):
		return "Rhs.param " + leanStr(r[6:]) + ".toList"
	case strings.HasPrefix(r, "form:"):
		return "Rhs.form " + leanStr(r[5:]) + ".toList"
	case strings.HasPrefix(r, "loc:"):
		return "Rhs.loc " + leanStr(r[4:]) + ".toList"
	case strings.HasPrefix(r, "field:"):
		return "Rhs.field " + leanStr(r[6:]) + ".toList"
	}
	return "Rhs.unknown"
}

func c04LeanCmps(b *strings.Builder, name, doc string, cs []c04Cmp) {
	fmt.Fprintf(b, "/-- %s -/\ndef %s : List Cmp := [\n", doc, name)
	for i, c := range cs {
		sep := ","
		if i == len(cs)-1 {
			sep = ""
		}
		fmt.Fprintf(b, "  ⟨ClaimRef.%s, CmpOp.%s, %s⟩%s  -- %s: %s\n", c.Lhs, c.Op, c04LeanRhs(c.Rhs), sep, c.Pos, c.Src)
	}
	b.WriteString("]\n\n")
}

func c04One(l []string) string {
	if len(l) == 1 {
		return l[0]
	}
	return "?" + strings.Join(l, "|")
}

func genC04(e *emitter) {
	p := e.pkg("cmd/keymasterd")
	var b strings.Builder
	b.WriteString("import KM.Model.TokenTypes\nnamespace KM.Gen.C04\nopen KM.Token\n\n")
	facts := map[string]interface{}{}

	// 1. kind literals written by the producers
	lits := []struct{ lean, fn, field, doc string }{
		{"sessionType", "genNewSerializedAuthJWT", "TokenType", "session cookie"},
		{"cliType", "generateAuthJWT", "TokenType", "CLI web-auth token"},
		{"storageType", "genNewSerializedStorageStringDataJWT", "TokenType", "signed storage record"},
		{"codeType", "idpOpenIDCAuthorizationHandler", "Type", "OpenID authorization code"},
		{"accessType", "idpOpenIDCTokenHandler", "Type", "OpenID access token"},
	}
	lf := map[string]string{}
	for _, l := range lits {
		v := c04One(c04Literals(p, l.fn, l.field))
		lf[l.lean] = v
		fmt.Fprintf(&b, "/-- %s: literal stored in `%s` by `%s` -/\ndef %s : Str := %s.toList\n", l.doc, l.field, l.fn, l.lean, leanStr(v))
	}
	// kind strings demanded by the callers of getAuthInfoFromJWT
	callerTypes := map[string]string{}
	for _, fn := range []string{"getAuthInfoFromAuthJWT", "SendAuthDocumentHandler", "VerifyAuthTokenHandler"} {
		fd := p.funcs[fn]
		v := "?"
		if fd != nil {
			ast.Inspect(fd.Body, func(n ast.Node) bool {
				if ce, ok := n.(*ast.CallExpr); ok {
					if sel, ok := ce.Fun.(*ast.SelectorExpr); ok && sel.Sel.Name == "getAuthInfoFromJWT" && len(ce.Args) == 2 {
						if s, ok := p.evalStr(ce.Args[1]); ok {
							v = s
						}
					}
				}
				return true
			})
		}
		callerTypes[fn] = v
		fmt.Fprintf(&b, "/-- kind string `%s` hands to getAuthInfoFromJWT -/\ndef want_%s : Str := %s.toList\n", fn, fn, leanStr(v))
	}
	if ce, ok := p.consts["idpOpenIDCUserinfoPath"]; ok {
		s, _ := p.evalStr(ce)
		fmt.Fprintf(&b, "def userinfoPath : Str := %s.toList\n", leanStr(s))
		lf["userinfoPath"] = s
	}
	b.WriteString("\n")
	facts["literals"] = lf
	facts["caller_types"] = callerTypes

	// 2. JSON layout of the claim structs
	sf := map[string][]c04Field{}
	for _, st := range []string{"authInfoJWT", "storageStringDataJWT", "keymasterdCodeToken", "bearerAccessToken", "openIDConnectIDToken", "keymasterdIDPCodeProtectedData"} {
		fs := c04StructFields(p, st)
		sf[st] = fs
		fmt.Fprintf(&b, "/-- fields of `%s` -/\ndef struct_%s : List StructField := [\n", st, st)
		for i, f := range fs {
			sep := ","
			if i == len(fs)-1 {
				sep = ""
			}
			fmt.Fprintf(&b, "  ⟨%s.toList, %s.toList, %s, GoTy.%s⟩%s\n", leanStr(f.Go), leanStr(f.JSON), leanBool(f.Omitempty), f.Ty, sep)
		}
		b.WriteString("]\n\n")
	}
	facts["structs"] = sf

	// 3. comparisons guarding each consumer
	cons := []struct {
		fn       string
		authInfo bool // the claims variable is an authInfo (result of getAuthInfoFromJWT)
		doc      string
	}{
		{"getAuthInfoFromJWT", false, "session cookie / CLI token: value checks after signature verification"},
		{"updateAuthJWTWithNewAuthLevel", false, "session cookie being upgraded"},
		{"getStorageDataFromStorageStringDataJWT", false, "signed storage record: value checks"},
		{"GetSigned", false, "signed storage record: checks by the caller of the verifier"},
		{"checkAuth", true, "session cookie: checks by checkAuth on the verified claims"},
		{"VerifyAuthTokenHandler", true, "CLI token: checks by the handler on the verified claims"},
		{"SendAuthDocumentHandler", true, "CLI token: checks by the handler on the verified claims"},
		{"idpOpenIDCTokenHandler", false, "authorization code"},
		{"idpOpenIDCUserinfoHandler", false, "access token"},
	}
	cf := map[string][]c04Cmp{}
	for _, c := range cons {
		fd := p.funcs[c.fn]
		var cs []c04Cmp
		if fd != nil {
			for _, v := range c04ClaimsVars(p, fd) {
				if c.fn == "SendAuthDocumentHandler" && v == "authData" {
					continue
				}
				cs = append(cs, c04Comparisons(p, fd, v, c.authInfo)...)
			}
		}
		cf[c.fn] = cs
		c04LeanCmps(&b, "cmps_"+c.fn, c.doc+" (`"+c.fn+"`)", cs)
	}
	facts["comparisons"] = cf

	// 4. what getAuthInfoFromJWT copies into its result
	type asg struct{ Dst, Src, Wrap string }
	var asgs []asg
	if fd := p.funcs["getAuthInfoFromJWT"]; fd != nil {
		vars := c04ClaimsVars(p, fd)
		ast.Inspect(fd.Body, func(n ast.Node) bool {
			as, ok := n.(*ast.AssignStmt)
			if !ok || len(as.Lhs) != 1 || len(as.Rhs) != 1 {
				return true
			}
			sel, ok := as.Lhs[0].(*ast.SelectorExpr)
			if !ok || p.str(sel.X) != "rvalue" {
				return true
			}
			rs := p.str(as.Rhs[0])
			a := asg{Dst: sel.Sel.Name, Src: "?" + rs, Wrap: "unknown"}
			for _, v := range vars {
				if strings.HasPrefix(rs, v+".") {
					a.Src, a.Wrap = rs[len(v)+1:], "id"
				}
				if strings.HasPrefix(rs, "time.Unix("+v+".") && strings.HasSuffix(rs, ", 0)") {
					a.Src, a.Wrap = strings.TrimSuffix(rs[len("time.Unix("+v+"."):], ", 0)"), "timeUnix"
				}
			}
			asgs = append(asgs, a)
			return true
		})
	}
	b.WriteString("/-- what `getAuthInfoFromJWT` copies from the verified claims into its result: (authInfo field, claims field, conversion) -/\n")
	b.WriteString("def authInfoAssignments : List (Str × Str × Str) := [")
	for i, a := range asgs {
		if i > 0 {
			b.WriteString(", ")
		}
		fmt.Fprintf(&b, "(%s.toList, %s.toList, %s.toList)", leanStr(a.Dst), leanStr(a.Src), leanStr(a.Wrap))
	}
	b.WriteString("]\n\n")
	facts["authinfo_assignments"] = asgs

	// 5. every caller of updateAuthCookieAuthlevel and how it authenticated the request before
	type ug struct{ Func, Guard, Pos string }
	var ugs []ug
	p.eachFunc(func(fd *ast.FuncDecl) {
		if fd.Name.Name == "updateAuthCookieAuthlevel" {
			return
		}
		var guardPos token.Pos
		guard := "none"
		ast.Inspect(fd.Body, func(n ast.Node) bool {
			ce, ok := n.(*ast.CallExpr)
			if !ok {
				return true
			}
			sel, ok := ce.Fun.(*ast.SelectorExpr)
			if !ok {
				return true
			}
			switch sel.Sel.Name {
			case "checkAuth":
				if guardPos == 0 {
					guardPos, guard = ce.Pos(), "checkAuthBefore"
				}
			case "commonTOTPPostHandler":
				if guardPos == 0 {
					guardPos, guard = ce.Pos(), "commonTOTPBefore"
				}
			case "updateAuthCookieAuthlevel":
				g := "none"
				if guardPos != 0 && guardPos < ce.Pos() {
					g = guard
				} else if c04IsParam(fd, "authUser") && c04IsParam(fd, "currentAuthLevel") {
					g = "viaParams"
				}
				ugs = append(ugs, ug{fd.Name.Name, g, p.pos(ce)})
			}
			return true
		})
	})
	b.WriteString("/-- every call of `updateAuthCookieAuthlevel`: (caller, how the request was authenticated before the call) -/\n")
	b.WriteString("def upgradeCallers : List (String × UpgradeGuard) := [\n")
	for i, u := range ugs {
		sep := ","
		if i == len(ugs)-1 {
			sep = ""
		}
		fmt.Fprintf(&b, "  (%s, UpgradeGuard.%s)%s  -- %s\n", leanStr(u.Func), u.Guard, sep, u.Pos)
	}
	b.WriteString("]\n\n")
	facts["upgrade_callers"] = ugs

	// 6. callers of internalTOTPAuthHandler (the one viaParams site) must come from commonTOTPPostHandler
	var via []string
	p.eachFunc(func(fd *ast.FuncDecl) {
		seenCommon := false
		ast.Inspect(fd.Body, func(n ast.Node) bool {
			ce, ok := n.(*ast.CallExpr)
			if !ok {
				return true
			}
			if sel, ok := ce.Fun.(*ast.SelectorExpr); ok {
				if sel.Sel.Name == "commonTOTPPostHandler" {
					seenCommon = true
				}
				if sel.Sel.Name == "internalTOTPAuthHandler" {
					if seenCommon {
						via = append(via, fd.Name.Name+":commonTOTPBefore")
					} else {
						via = append(via, fd.Name.Name+":none")
					}
				}
			}
			return true
		})
	})
	b.WriteString("/-- callers of `internalTOTPAuthHandler` and how they authenticated -/\ndef internalTOTPCallers : List (String × UpgradeGuard) := [")
	for i, v := range via {
		if i > 0 {
			b.WriteString(", ")
		}
		parts := strings.SplitN(v, ":", 2)
		fmt.Fprintf(&b, "(%s, UpgradeGuard.%s)", leanStr(parts[0]), parts[1])
	}
	b.WriteString("]\n\nend KM.Gen.C04\n")
	facts["internal_totp_callers"] = via

	e.lean("C04.lean", b.String())
	e.facts["c04"] = facts
}
