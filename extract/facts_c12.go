package main

// C12: facts about the OpenID Connect token endpoint — the PKCE method switch, the two client
// credential predicates, and what the handlers copy into codes, ID tokens and access tokens.

import (
	"fmt"
	"go/ast"
	"go/token"
	"strings"
)

func init() { register("c12-oidc", genC12) }

type c12Asg struct {
	Field string `json:"field"`
	Rhs   string `json:"rhs"`
}

// c12Assignments: fields of local variable v of fd set in its composite literal or by `v.F = rhs`, in source order.
func c12Assignments(p *pkgInfo, fd *ast.FuncDecl, v string) []c12Asg {
	var out []c12Asg
	if fd == nil {
		return out
	}
	ast.Inspect(fd.Body, func(n ast.Node) bool {
		as, ok := n.(*ast.AssignStmt)
		if !ok {
			return true
		}
		for i, l := range as.Lhs {
			if i >= len(as.Rhs) {
				break
			}
			if id, ok := l.(*ast.Ident); ok && id.Name == v {
				if cl, ok := as.Rhs[i].(*ast.CompositeLit); ok {
					for _, el := range cl.Elts {
						if kv, ok := el.(*ast.KeyValueExpr); ok {
							out = append(out, c12Asg{p.str(kv.Key), p.str(kv.Value)})
						}
					}
				}
			}
			if sel, ok := l.(*ast.SelectorExpr); ok && p.str(sel.X) == v {
				out = append(out, c12Asg{sel.Sel.Name, p.str(as.Rhs[i])})
			}
		}
		return true
	})
	return out
}

func c12LeanAsg(b *strings.Builder, name, doc string, as []c12Asg) {
	fmt.Fprintf(b, "/-- %s -/\ndef %s : List (Str × Str) := [\n", doc, name)
	for i, a := range as {
		sep := ","
		if i == len(as)-1 {
			sep = ""
		}
		fmt.Fprintf(b, "  (%s.toList, %s.toList)%s\n", leanStr(a.Field), leanStr(a.Rhs), sep)
	}
	b.WriteString("]\n\n")
}

func c12SingleReturn(p *pkgInfo, fd *ast.FuncDecl) string {
	if fd == nil || len(fd.Body.List) != 1 {
		return "?"
	}
	rs, ok := fd.Body.List[0].(*ast.ReturnStmt)
	if !ok {
		return "?"
	}
	var parts []string
	for _, r := range rs.Results {
		parts = append(parts, p.str(r))
	}
	return strings.Join(parts, ", ")
}

func genC12(e *emitter) {
	p := e.pkg("cmd/keymasterd")
	var b strings.Builder
	b.WriteString("import KM.Model.TokenTypes\nnamespace KM.Gen.C12\nopen KM.Token\n\n")
	facts := map[string]interface{}{}

	// 1. the PKCE method switch
	type arm struct {
		Labels []string `json:"labels"`
		Result string   `json:"result"`
		Src    string   `json:"src"`
	}
	var arms []arm
	swTag := "?"
	if fd := p.funcs["idpOpenIDCValidCodeVerifier"]; fd != nil {
		ast.Inspect(fd.Body, func(n ast.Node) bool {
			sw, ok := n.(*ast.SwitchStmt)
			if !ok {
				return true
			}
			swTag = p.str(sw.Tag)
			for _, st := range sw.Body.List {
				cc := st.(*ast.CaseClause)
				a := arm{Result: "unknown"}
				if cc.List == nil {
					a.Labels = []string{"<default>"}
				}
				for _, l := range cc.List {
					if s, ok := p.evalStr(l); ok {
						a.Labels = append(a.Labels, s)
					} else {
						a.Labels = append(a.Labels, "?"+p.str(l))
					}
				}
				// the arm must end in a single return; classify it
				var ret *ast.ReturnStmt
				if len(cc.Body) > 0 {
					ret, _ = cc.Body[len(cc.Body)-1].(*ast.ReturnStmt)
				}
				if ret != nil && len(ret.Results) == 1 {
					src := p.str(ret.Results[0])
					a.Src = src
					switch {
					case src == "false":
						a.Result = "alwaysFalse"
					case src == "codeVerifier == protectedData.CodeChallenge" && len(cc.Body) == 1:
						a.Result = "verifierEqChallenge"
					case src == "base64.RawURLEncoding.EncodeToString(sum[:]) == protectedData.CodeChallenge" && len(cc.Body) == 2:
						if as, ok := cc.Body[0].(*ast.AssignStmt); ok && as.Tok == token.DEFINE &&
							p.str(as.Lhs[0]) == "sum" && p.str(as.Rhs[0]) == "sha256.Sum256([]byte(codeVerifier))" {
							a.Result = "s256EqChallenge"
						}
					}
				}
				arms = append(arms, a)
			}
			return false
		})
	}
	fmt.Fprintf(&b, "/-- tag of the switch in `idpOpenIDCValidCodeVerifier` -/\ndef pkceSwitchTag : Str := %s.toList\n\n", leanStr(swTag))
	b.WriteString("/-- its arms: (case labels, what the arm returns) -/\ndef pkceSwitch : List (List Str × PkceResult) := [\n")
	for i, a := range arms {
		sep := ","
		if i == len(arms)-1 {
			sep = ""
		}
		var ls []string
		for _, l := range a.Labels {
			ls = append(ls, leanStr(l)+".toList")
		}
		fmt.Fprintf(&b, "  ([%s], PkceResult.%s)%s  -- %s\n", strings.Join(ls, ", "), a.Result, sep, a.Src)
	}
	b.WriteString("]\n\n")
	facts["pkce_switch"] = arms

	// 2. the two credential predicates
	canPKCE := c12SingleReturn(p, p.funcs["ClientCanDoPKCEAuth"])
	validSecret := c12SingleReturn(p, p.funcs["ValidClientSecret"])
	fmt.Fprintf(&b, "/-- body of `ClientCanDoPKCEAuth` -/\ndef clientCanDoPKCE : Str := %s.toList\n", leanStr(canPKCE))
	fmt.Fprintf(&b, "/-- body of `ValidClientSecret` -/\ndef validClientSecret : Str := %s.toList\n\n", leanStr(validSecret))
	facts["client_can_do_pkce"] = canPKCE
	facts["valid_client_secret"] = validSecret

	// 3. what is copied where
	tok := p.funcs["idpOpenIDCTokenHandler"]
	az := p.funcs["idpOpenIDCAuthorizationHandler"]
	idAs := c12Assignments(p, tok, "idToken")
	accAs := c12Assignments(p, tok, "accessToken")
	codeAs := c12Assignments(p, az, "codeToken")
	pdAs := c12Assignments(p, az, "protectedData")
	c12LeanAsg(&b, "idTokenAssignments", "fields of the ID token set by `idpOpenIDCTokenHandler`", idAs)
	c12LeanAsg(&b, "accessTokenAssignments", "fields of the access token set by `idpOpenIDCTokenHandler`", accAs)
	c12LeanAsg(&b, "codeAssignments", "fields of the code set by `idpOpenIDCAuthorizationHandler`", codeAs)
	c12LeanAsg(&b, "protectedDataAssignments", "fields of the sealed PKCE data set by `idpOpenIDCAuthorizationHandler`", pdAs)
	facts["id_token"] = idAs
	facts["access_token"] = accAs
	facts["code"] = codeAs

	// 4. conditions of the token handler that gate client authentication, and the challenge-method gate of the authorization handler
	var tokConds, azConds []string
	collect := func(fd *ast.FuncDecl, want func(string) bool, out *[]string) {
		if fd == nil {
			return
		}
		ast.Inspect(fd.Body, func(n ast.Node) bool {
			if st, ok := n.(*ast.IfStmt); ok {
				s := p.str(st.Cond)
				if want(s) {
					*out = append(*out, s)
				}
			}
			return true
		})
	}
	collect(tok, func(s string) bool {
		return strings.Contains(s, "codeVerifier") || strings.Contains(s, "pass") || strings.Contains(s, "valid") ||
			strings.Contains(s, "canUserCodeVerifier") || s == "!ok" || strings.Contains(s, "len(clientID)")
	}, &tokConds)
	collect(az, func(s string) bool { return strings.Contains(s, "CodeChallenge") }, &azConds)
	emitList := func(name, doc string, l []string) {
		fmt.Fprintf(&b, "/-- %s -/\ndef %s : List Str := [", doc, name)
		for i, s := range l {
			if i > 0 {
				b.WriteString(", ")
			}
			b.WriteString(leanStr(s) + ".toList")
		}
		b.WriteString("]\n\n")
	}
	emitList("tokenAuthConditions", "`if` conditions of the token handler that concern client credentials, in source order", tokConds)
	emitList("authzChallengeConditions", "`if` conditions of the authorization handler that concern the PKCE challenge", azConds)
	facts["token_auth_conditions"] = tokConds
	facts["authz_challenge_conditions"] = azConds

	// 5. the JWKS handler: which collection is published, what is skipped, what goes into each JWK
	jwksRange, jwksKey, jwksKid := "?", "?", "?"
	var jwksSkips []string
	if fd := p.funcs["idpOpenIDCJWKSHandler"]; fd != nil {
		ast.Inspect(fd.Body, func(n ast.Node) bool {
			rs, ok := n.(*ast.RangeStmt)
			if !ok {
				return true
			}
			jwksRange = p.str(rs.X)
			ast.Inspect(rs.Body, func(m ast.Node) bool {
				switch x := m.(type) {
				case *ast.IfStmt:
					// a branch that leaves the iteration without publishing (continue / break / goto)
					skips := false
					ast.Inspect(x.Body, func(q ast.Node) bool {
						if _, ok := q.(*ast.BranchStmt); ok {
							skips = true
						}
						return true
					})
					if x.Else != nil {
						ast.Inspect(x.Else, func(q ast.Node) bool {
							if _, ok := q.(*ast.BranchStmt); ok {
								skips = true
							}
							return true
						})
					}
					if skips {
						jwksSkips = append(jwksSkips, p.str(x.Cond))
					}
				case *ast.BranchStmt:
					// an unconditional one directly in the loop body is reported too
					for _, st := range rs.Body.List {
						if st == ast.Stmt(x) {
							jwksSkips = append(jwksSkips, "<unconditional "+x.Tok.String()+">")
						}
					}
				case *ast.CompositeLit:
					if p.str(x.Type) == "jose.JSONWebKey" {
						for _, el := range x.Elts {
							if kv, ok := el.(*ast.KeyValueExpr); ok {
								switch p.str(kv.Key) {
								case "Key":
									jwksKey = p.str(kv.Value)
								case "KeyID":
									jwksKid = p.str(kv.Value)
								}
							}
						}
					}
				}
				return true
			})
			return false
		})
	}
	kidHeader := "?"
	if tok != nil {
		ast.Inspect(tok.Body, func(n ast.Node) bool {
			if ce, ok := n.(*ast.CallExpr); ok {
				if sel, ok := ce.Fun.(*ast.SelectorExpr); ok && sel.Sel.Name == "WithHeader" && len(ce.Args) == 2 && p.str(ce.Args[0]) == "\"kid\"" {
					kidHeader = p.str(ce.Args[1])
					for _, r := range assignmentsTo(tok, kidHeader) {
						kidHeader = p.str(r)
					}
				}
			}
			return true
		})
	}
	fmt.Fprintf(&b, "/-- collection `idpOpenIDCJWKSHandler` ranges over -/\ndef jwksRange : Str := %s.toList\n", leanStr(jwksRange))
	fmt.Fprintf(&b, "/-- `Key` / `KeyID` of every published JWK -/\ndef jwksKey : Str := %s.toList\ndef jwksKid : Str := %s.toList\n", leanStr(jwksKey), leanStr(jwksKid))
	fmt.Fprintf(&b, "/-- how the token endpoint computes the `kid` header -/\ndef tokenKidHeader : Str := %s.toList\n", leanStr(kidHeader))
	emitList("jwksSkipConditions", "conditions under which an entry is left out of the JWKS (continue / break inside the loop)", jwksSkips)
	facts["jwks"] = map[string]interface{}{"range": jwksRange, "key": jwksKey, "kid": jwksKid, "skips": jwksSkips, "token_kid": kidHeader}

	b.WriteString("end KM.Gen.C12\n")
	e.lean("C12.lean", b.String())
	e.facts["c12"] = facts
}
