package main

// Every configuration key the daemon's YAML loader accepts (struct AppConfigFile of cmd/keymasterd, followed
// through the package's own struct types), with its Go type. Used by the C10/C11 checks to notice options the
// pinned list does not know and to run their request streams with such options switched on.

import (
	"go/ast"
	"reflect"
	"sort"
	"strings"
)

func init() { register("c10-config-options", genConfigOptions) }

type cfgOption struct {
	Path string `json:"path"`
	Type string `json:"type"`
}

func genConfigOptions(e *emitter) {
	p := e.pkg("cmd/keymasterd")
	structs := map[string]*ast.StructType{}
	for _, f := range p.files {
		for _, d := range f.Decls {
			gd, ok := d.(*ast.GenDecl)
			if !ok {
				continue
			}
			for _, sp := range gd.Specs {
				if ts, ok := sp.(*ast.TypeSpec); ok {
					if st, ok := ts.Type.(*ast.StructType); ok {
						structs[ts.Name.Name] = st
					}
				}
			}
		}
	}
	var out []cfgOption
	var walk func(name, prefix string, depth int)
	walk = func(name, prefix string, depth int) {
		st := structs[name]
		if st == nil || depth > 6 {
			return
		}
		for _, fld := range st.Fields.List {
			typ := p.str(fld.Type)
			key, inline := "", false
			if fld.Tag != nil {
				tag := reflect.StructTag(strings.Trim(fld.Tag.Value, "`")).Get("yaml")
				parts := strings.Split(tag, ",")
				key = parts[0]
				for _, o := range parts[1:] {
					if o == "inline" {
						inline = true
					}
				}
			}
			if key == "-" {
				continue
			}
			names := fld.Names
			if len(names) == 0 { // embedded
				if inline {
					if id, ok := fld.Type.(*ast.Ident); ok {
						walk(id.Name, prefix, depth+1)
					}
				}
				continue
			}
			for _, nm := range names {
				if !nm.IsExported() {
					continue
				}
				k := key
				if k == "" {
					k = strings.ToLower(nm.Name)
				}
				path := k
				if prefix != "" {
					path = prefix + "." + k
				}
				if id, ok := fld.Type.(*ast.Ident); ok && structs[id.Name] != nil {
					walk(id.Name, path, depth+1)
					continue
				}
				out = append(out, cfgOption{Path: path, Type: strings.ReplaceAll(typ, " ", "")})
			}
		}
	}
	walk("AppConfigFile", "", 0)
	sort.Slice(out, func(i, j int) bool { return out[i].Path < out[j].Path })
	e.facts["config_options"] = out
}
