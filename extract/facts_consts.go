package main

import (
	"fmt"
	"go/ast"
	"sort"
	"strings"
)

// genConsts: numeric and string constants the models use.
func init() { register("consts", genConsts) }

func genConsts(e *emitter) {
	kmd := e.pkg("cmd/keymasterd")
	proto := e.pkg("lib/webapi/v0/proto")
	var b strings.Builder
	b.WriteString("namespace KM.Gen\n\n")
	ints := map[string]int64{}
	// every AuthType* constant of cmd/keymasterd
	var names []string
	for n := range kmd.consts {
		if strings.HasPrefix(n, "AuthType") {
			names = append(names, n)
		}
	}
	sort.Strings(names)
	b.WriteString("/-- `AuthType*` bit values of cmd/keymasterd/app.go -/\n")
	var pairs []string
	for _, n := range names {
		v, ok := kmd.evalInt(kmd.consts[n], kmd.cindex[n])
		if !ok {
			fatal("cannot evaluate const %s", n)
		}
		ints[n] = v
		fmt.Fprintf(&b, "def %s : Nat := %d\n", lowerFirst(n), v)
		pairs = append(pairs, fmt.Sprintf("(%s.toList, %d)", leanStr(n), v))
	}
	fmt.Fprintf(&b, "def authTypeTable : List (List Char × Nat) := [%s]\n\n", strings.Join(pairs, ", "))
	// proto names
	var pnames []string
	for n := range proto.consts {
		if strings.HasPrefix(n, "AuthType") {
			pnames = append(pnames, n)
		}
	}
	sort.Strings(pnames)
	strs := map[string]string{}
	pairs = nil
	for _, n := range pnames {
		s, ok := proto.evalStr(proto.consts[n])
		if !ok {
			fatal("cannot evaluate proto const %s", n)
		}
		strs["proto."+n] = s
		fmt.Fprintf(&b, "def proto%s : String := %s\n", n, leanStr(s))
		pairs = append(pairs, fmt.Sprintf("(%s.toList, %s.toList)", leanStr(n), leanStr(s)))
	}
	fmt.Fprintf(&b, "def protoTable : List (List Char × List Char) := [%s]\n\n", strings.Join(pairs, ", "))
	// durations / counts (nanoseconds for time.Duration constants)
	for _, n := range []string{"maxCertificateLifetime", "maxRoleRequestingCertDuration", "maxAgeSecondsAuthCookie",
		"maxAgeSecondsVIPCookie", "maxAgeU2FVerifySeconds", "minSecsBetweenTOTPValidations",
		"numHoursForLocalTOTPRateLimitReset", "numFailedTOTPChecksForTimeoutIncrease",
		"maxWebauthForCliTokenLifetime", "selfServiceBootstrapOtpLifetime", "idpOpenIDCMaxAuthProcessMaxDurationSeconds",
		"defaultRSAKeySize", "secsBetweenCleanup", "maxAgeSecondsRedirCookie"} {
		ce, ok := kmd.consts[n]
		if !ok {
			continue
		}
		v, ok := kmd.evalInt(ce, kmd.cindex[n])
		if !ok {
			continue
		}
		ints[n] = v
		fmt.Fprintf(&b, "def %s : Int := %d\n", lowerFirst(n), v)
	}
	for _, n := range []string{"profilePath", "authCookieName", "vipTransactionCookieName", "certgenPath", "publicPath"} {
		if ce, ok := kmd.consts[n]; ok {
			if s, ok := kmd.evalStr(ce); ok {
				strs[n] = s
				fmt.Fprintf(&b, "def %sStr : String := %s\n", n, leanStr(s))
			}
		}
	}
	b.WriteString("\nend KM.Gen\n")
	e.lean("Consts.lean", b.String())
	e.facts["ints"] = ints
	e.facts["strings"] = strs
}

func lowerFirst(s string) string {
	if s == "" {
		return s
	}
	return strings.ToLower(s[:1]) + s[1:]
}

var _ = ast.Inspect
