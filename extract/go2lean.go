package main

// go2lean: a translator from a pure subset of Go to Lean 4 (shallow embedding).
//
// For every function listed in go2lean_targets.go the body found in /repo's CURRENT working tree is
// translated into one Lean definition (KM/Gen/Go<Group>.lean) written against KM/Model/GoLite.lean.
// The property modules then prove `translated = hand-written model` for all inputs, so that every
// theorem about the model is a theorem about what the source says now.  The translation is
// syntax-directed and total on its subset; anything outside the subset yields `KM.Go.Untranslated`
// in place of the function (with the reason), which breaks every theorem that mentions it.
//
// Subset: parameters/results of type string, bool, int, rune, error, []T, *T and configured named
// types; `if` (with init), `return`, `:=`, `=`, op-assignments, `var`, `x++`, `for … range` over
// slices and strings (value only for strings), `for i := a; i < b; i++`, `break`, `continue`,
// expression `switch` without fallthrough, calls of: builtins (len), configured library functions,
// other translated functions, configured externals (become fields of the `ext` parameter).
// Logging calls are dropped.  Not in the subset (→ Untranslated): goroutines, defer, maps, channels,
// closures, labelled jumps, goto, pointer writes, field/element assignment, string indexing/slicing,
// type switches, composite literals, select.
//
// Scoping: Go block scoping is kept by translating `if c {A}; rest` as `if c then ⟦A; rest⟧ else
// ⟦rest⟧` only when A does not declare a name that is visible outside (otherwise Untranslated), and
// as `if c then ⟦A⟧ else ⟦rest⟧` when A always leaves (return/break/continue).
// Loop-carried variables (assigned in a loop body, declared outside) are threaded as a tuple.

import (
	"fmt"
	"go/ast"
	"go/parser"
	"go/token"
	"sort"
	"strconv"
	"strings"
)

type glExtern struct {
	lean string   // Lean term applied to the translated arguments
	ret  []string // Go result types
	args []int    // when non-nil: which arguments (by index) are handed to the Lean term, in this order
	// effect: when non-empty the call is also an EFFECT — before its value is used, `<effect> <selected args>` is
	// appended to the function's trace (`trace_`), which every `return` hands back as the last component
	effect string
	// out: when > 0, the 1-based index of an argument of the form `&v` that RECEIVES the first component of the Lean
	// term's value (`err := f(x, &v)` becomes `match f x with | (v, err) => …`); the argument itself is not passed
	out int
}

type glTarget struct {
	pkg     string // directory of the package relative to the repo root
	name    string // function or method name
	group   string // output file KM/Gen/Go<group>.lean, namespace KM.Gen.Go<group>
	binders string // Lean binders that replace the receiver and/or configured parameters
	// paths: selector chains (printed Go source) that are replaced by a Lean term, with their Go type
	paths map[string][2]string
	// parameter type overrides (Go parameter name -> Lean type); a parameter mapped to "" is dropped
	paramLean map[string]string
	retLean   string // Lean result type (required)
	natInts   bool   // Go ints of this function are bit sets / counters: translate as Nat
	externs   map[string]glExtern
	// locals: variables declared BEFORE a block that the block assigns (name -> Go type); they start at their zero value
	locals map[string]string
	// zeros: the zero value (Lean term) of Go struct types this target declares variables or named results of
	zeros map[string]string
	// Go types of parameters whose syntactic type the translator cannot use directly
	paramGo map[string]string
	// block mode: translate the top-level statements of function `in` from the one whose printed text starts with
	// blockFrom up to (not including) the one that starts with blockUpto, as a function of the configured binders
	// (every free name must be covered by `paths`) returning the expression blockResult afterwards.  The block
	// must not leave the enclosing function (no return inside).
	traceLean string // Lean type of one trace entry ("" = the function has no effect externs)
	// stores: assignments whose left-hand side (printed) is one of these are EFFECTS: `<ctor> <value>` is appended to
	// the trace (writes into maps or fields of shared state)
	stores map[string]string
	// typeCases: for `switch k := x.(type)`: printed Go type of a case -> the Lean pattern that stands for it and the
	// selector chains on the bound variable that the pattern's fields stand for (added to `paths` inside the case)
	typeCases   map[string]glTypeCase
	in          string
	blockFrom   string
	blockUpto   string
	blockResult string
	blockResGo  string
	// blockReach: for a block of a handler (no results) whose statements may `return`: falling out of the block
	// appends this entry to the trace and returns — "the handler got past these statements"
	blockReach string
	// ignore: calls (printed function) that are dropped like logging calls — only for calls whose sole effect is on
	// values that nothing but log statements read (e.g. `copy(tmp[:], …)` feeding a Debugf)
	ignore []string
	// joinPoints: an `if` one of whose branches may leave while the other falls through is translated with the
	// statements after it as a local function (`let k_n := fun vars => …`) that both branches call, instead of
	// duplicating those statements in both branches
	joinPoints bool
}

type glTypeCase struct {
	pattern string
	bind    map[string][2]string
}

var glTargets []glTarget

func init() { register("go2lean", genGo2Lean) }

var leanKeywords = map[string]bool{"at": true, "from": true, "have": true, "show": true, "then": true, "end": true,
	"in": true, "fun": true, "match": true, "with": true, "do": true, "if": true, "else": true, "let": true,
	"open": true, "local": true, "instance": true, "structure": true, "class": true, "where": true, "by": true,
	"def": true, "theorem": true, "example": true, "namespace": true, "section": true, "variable": true,
	"universe": true, "import": true, "private": true, "protected": true, "mutual": true, "inductive": true,
	"deriving": true, "macro": true, "syntax": true, "notation": true, "infix": true, "prefix": true,
	"postfix": true, "abbrev": true, "axiom": true, "opaque": true, "set_option": true, "attribute": true,
	"export": true, "using": true, "calc": true, "for": true, "unless": true, "return": true, "try": true,
	"catch": true, "finally": true, "mut": true, "nomatch": true, "nofun": true, "Type": true, "Prop": true,
	"Sort": true, "ext": true, "default": true, "some": true, "none": true, "true": true, "false": true,
	"re": false}

func leanIdent(n string) string {
	if leanKeywords[n] {
		return n + "_"
	}
	return n
}

type glErr struct{ msg string }

type glCtx struct {
	p          *pkgInfo
	e          *emitter
	t          *glTarget
	file       *ast.File
	vars       []map[string]string // scopes: Go name -> Go type ("" unknown)
	inLoop     bool
	state      []string // loop-carried variables of the innermost loop
	void       bool
	nres       int
	join       []string // variables handed on by a jump-free `if` translated as a value
	joinActive bool
	known      map[string]*glTarget // translated functions of the same group/package by name
	usesExt    map[string]bool
	effectDone map[*ast.AssignStmt]bool
	effectCall *ast.CallExpr // the effect call whose trace entry the enclosing statement has just recorded
	cont       string        // join point to call when control falls out of the current statement list
	contVars   []string
	nJoin      int
	inLoopBody bool     // inside a loop body that started after the current join point was set
	reach      string   // see glTarget.blockReach
	resTypes   []string // Go result types of the function being translated
	deferred   []string // trace entries of deferred effect calls, in the order the defers were executed
}

func (c *glCtx) fail(n ast.Node, f string, a ...interface{}) {
	where := ""
	if n != nil {
		where = c.p.pos(n) + ": "
	}
	panic(glErr{where + fmt.Sprintf(f, a...)})
}

func (c *glCtx) push()                { c.vars = append(c.vars, map[string]string{}) }
func (c *glCtx) pop()                 { c.vars = c.vars[:len(c.vars)-1] }
func (c *glCtx) declare(n, ty string) { c.vars[len(c.vars)-1][n] = ty }
func (c *glCtx) lookup(n string) (string, bool) {
	for i := len(c.vars) - 1; i >= 0; i-- {
		if ty, ok := c.vars[i][n]; ok {
			return ty, true
		}
	}
	return "", false
}
func (c *glCtx) setType(n, ty string) {
	for i := len(c.vars) - 1; i >= 0; i-- {
		if _, ok := c.vars[i][n]; ok {
			c.vars[i][n] = ty
			return
		}
	}
}

// importDir resolves an import alias of the current file to a directory of this repository.
func (c *glCtx) importDir(alias string) (string, bool) {
	const mod = "github.com/Cloud-Foundations/keymaster/"
	for _, im := range c.file.Imports {
		path, _ := strconv.Unquote(im.Path.Value)
		name := path[strings.LastIndex(path, "/")+1:]
		if im.Name != nil {
			name = im.Name.Name
		}
		if name == alias && strings.HasPrefix(path, mod) {
			return strings.TrimPrefix(path, mod), true
		}
	}
	return "", false
}

func (c *glCtx) intLit(v int64) string {
	if c.t.natInts {
		return fmt.Sprintf("(%d : Nat)", v)
	}
	return fmt.Sprintf("(%d : Int)", v)
}

func leanCharLit(r rune) string {
	switch {
	case r == '\\':
		return "'\\\\'"
	case r == '\'':
		return "'\\''"
	case r == '\n':
		return "'\\n'"
	case r == '\t':
		return "'\\t'"
	case r == '\r':
		return "'\\r'"
	case r >= 0x20 && r < 0x7f:
		return "'" + string(r) + "'"
	}
	return fmt.Sprintf("(Char.ofNat %d)", r)
}

func leanStrLit(s string) string {
	if s == "" {
		return "([] : List Char)"
	}
	return leanStr(s) + ".toList"
}

var glLib = map[string]glExtern{
	"strings.HasPrefix": {lean: "KM.Go.strings_HasPrefix", ret: []string{"bool"}},
	"strings.HasSuffix": {lean: "KM.Go.strings_HasSuffix", ret: []string{"bool"}},
	"strings.Contains":  {lean: "KM.Go.strings_Contains", ret: []string{"bool"}},
	"strings.ToLower":   {lean: "KM.Go.strings_ToLower", ret: []string{"string"}},
	"unicode.IsControl": {lean: "KM.Go.unicode_IsControl", ret: []string{"bool"}},
	"errors.New":        {lean: "some", ret: []string{"error"}},
}

var glIgnoredCallPrefixes = []string{"logger.", "log.", "state.logger.", "s.logger.", "pa.logger.", "state.Mutex.", "w.(", "logger .", "fmt.Print"}

func (c *glCtx) ignorable(call *ast.CallExpr) bool {
	s := c.p.str(call.Fun)
	for _, f := range c.t.ignore {
		if s == f {
			return true
		}
	}
	for _, pre := range glIgnoredCallPrefixes {
		if strings.HasPrefix(s, pre) {
			return true
		}
	}
	return false
}

// expr translates an expression; returns the Lean term and the Go type ("" when unknown)
func (c *glCtx) expr(e ast.Expr) (string, string) {
	// configured selector chains first
	if c.t.paths != nil {
		// compared without white space: go/printer keeps the line breaks of chained calls
		key := strings.Join(strings.Fields(c.p.str(e)), "")
		for k, r := range c.t.paths {
			if strings.Join(strings.Fields(k), "") == key {
				return r[0], r[1]
			}
		}
	}
	switch x := e.(type) {
	case *ast.CompositeLit:
		// `[]T{a, b, …}` (no keys): the list of the translated elements
		if at, ok := x.Type.(*ast.ArrayType); ok && at.Len == nil {
			ety := normInt(c.p.str(at.Elt))
			var parts []string
			for _, el := range x.Elts {
				if _, keyed := el.(*ast.KeyValueExpr); keyed {
					c.fail(x, "keyed slice literal")
				}
				s, ty := c.expr(el)
				if ty != ety {
					c.fail(x, "slice literal of %s with an element of type %s", ety, ty)
				}
				parts = append(parts, s)
			}
			return "[" + strings.Join(parts, ", ") + "]", "[]" + ety
		}
	case *ast.ParenExpr:
		s, ty := c.expr(x.X)
		return "(" + s + ")", ty
	case *ast.BasicLit:
		switch x.Kind {
		case token.INT:
			v, ok := c.p.evalInt(x, 0)
			if !ok {
				c.fail(x, "integer literal %s", x.Value)
			}
			return c.intLit(v), "int"
		case token.STRING:
			s, err := strconv.Unquote(x.Value)
			if err != nil {
				c.fail(x, "string literal %s", x.Value)
			}
			return leanStrLit(s), "string"
		case token.CHAR:
			s, err := strconv.Unquote(x.Value)
			if err != nil {
				c.fail(x, "char literal %s", x.Value)
			}
			r := []rune(s)
			return leanCharLit(r[0]), "rune"
		}
		c.fail(x, "literal %s", x.Value)
	case *ast.Ident:
		switch x.Name {
		case "true", "false":
			return x.Name, "bool"
		case "nil":
			return "none", "nil"
		}
		if ty, ok := c.lookup(x.Name); ok {
			return leanIdent(x.Name), ty
		}
		if ce, ok := c.p.consts[x.Name]; ok {
			if v, ok := c.p.evalInt(ce, c.p.cindex[x.Name]); ok {
				return c.intLit(v), "int"
			}
			if s, ok := c.p.evalStr(ce); ok {
				return leanStrLit(s), "string"
			}
		}
		c.fail(x, "identifier %s is neither a local nor a constant of the package", x.Name)
	case *ast.SelectorExpr:
		if id, ok := x.X.(*ast.Ident); ok {
			_, isPath := c.t.paths[id.Name] // a free variable of a block, configured as a path to a binder
			if _, isLocal := c.lookup(id.Name); !isLocal && !isPath {
				if dir, ok := c.importDir(id.Name); ok {
					q := c.e.pkg(dir)
					if ce, ok := q.consts[x.Sel.Name]; ok {
						if v, ok := q.evalInt(ce, q.cindex[x.Sel.Name]); ok {
							return c.intLit(v), "int"
						}
						if s, ok := q.evalStr(ce); ok {
							return leanStrLit(s), "string"
						}
					}
				}
				c.fail(x, "selector %s", c.p.str(x))
			}
		}
		s, ty := c.expr(x.X)
		key := ty + "." + x.Sel.Name
		if ex, ok := c.t.externs[key]; ok {
			return "(" + ex.lean + " " + s + ")", ex.ret[0]
		}
		if ft, ok := c.structField(ty, x.Sel.Name); ok {
			fld := x.Sel.Name
			if leanKeywords[fld] {
				fld = "«" + fld + "»"
			}
			return s + "." + fld, ft
		}
		c.fail(x, "field %s of a value of type %q", x.Sel.Name, ty)
	case *ast.StarExpr:
		// *p of a pointer that is only read: the value (a nil dereference is not modelled)
		s, ty := c.expr(x.X)
		return s, strings.TrimPrefix(ty, "*")
	case *ast.UnaryExpr:
		s, ty := c.expr(x.X)
		switch x.Op {
		case token.NOT:
			return "(!" + s + ")", "bool"
		case token.SUB:
			if c.t.natInts {
				c.fail(x, "negation in a function whose ints are Nat")
			}
			return "(-" + s + ")", ty
		case token.AND:
			// &x of a value that is only read afterwards: pointers are `Option`, the address of a value is `some`
			// (aliasing does not matter in the pure subset: there are no writes through pointers)
			return "(some " + s + ")", "*" + ty
		}
		c.fail(x, "unary %s", x.Op)
	case *ast.BinaryExpr:
		a, ta := c.expr(x.X)
		b, tb := c.expr(x.Y)
		ty := ta
		if ty == "" || ty == "nil" {
			ty = tb
		}
		switch x.Op {
		case token.LAND:
			return "(" + a + " && " + b + ")", "bool"
		case token.LOR:
			return "(" + a + " || " + b + ")", "bool"
		case token.EQL, token.NEQ:
			if ta == "nil" || tb == "nil" {
				v := a
				if ta == "nil" {
					v = b
				}
				if x.Op == token.EQL {
					return "(Option.isNone " + v + ")", "bool"
				}
				return "(Option.isSome " + v + ")", "bool"
			}
			if x.Op == token.EQL {
				return "(" + a + " == " + b + ")", "bool"
			}
			return "(" + a + " != " + b + ")", "bool"
		case token.LSS:
			return "(decide (" + a + " < " + b + "))", "bool"
		case token.LEQ:
			return "(decide (" + a + " ≤ " + b + "))", "bool"
		case token.GTR:
			return "(decide (" + a + " > " + b + "))", "bool"
		case token.GEQ:
			return "(decide (" + a + " ≥ " + b + "))", "bool"
		case token.ADD:
			if ty == "string" {
				return "(" + a + " ++ " + b + ")", "string"
			}
			if ty == "int" {
				return "(" + a + " + " + b + ")", "int"
			}
			c.fail(x, "+ on operands of unknown type (%q, %q)", ta, tb)
		case token.SUB:
			if ty == "int" && !c.t.natInts {
				return "(" + a + " - " + b + ")", "int"
			}
		case token.MUL:
			if ty == "int" {
				return "(" + a + " * " + b + ")", "int"
			}
		case token.QUO:
			if ty == "int" {
				if c.t.natInts {
					return "(" + a + " / " + b + ")", "int"
				}
				return "(Int.tdiv " + a + " " + b + ")", "int"
			}
		case token.REM:
			if ty == "int" {
				if c.t.natInts {
					return "(" + a + " % " + b + ")", "int"
				}
				return "(Int.tmod " + a + " " + b + ")", "int"
			}
		case token.OR:
			if ty == "int" && c.t.natInts {
				return "(" + a + " ||| " + b + ")", "int"
			}
		case token.AND:
			if ty == "int" && c.t.natInts {
				return "(" + a + " &&& " + b + ")", "int"
			}
		}
		c.fail(x, "binary %s on (%q, %q)", x.Op, ta, tb)
	case *ast.CallExpr:
		if ex, ok := c.t.externs[c.p.str(x.Fun)]; ok && ex.effect != "" && x != c.effectCall {
			// an effect is only recorded when the call is a statement or the whole right-hand side of an assignment:
			// anywhere else (a condition, an argument) it would be dropped silently
			c.fail(x, "effect call %s inside an expression", c.p.str(x.Fun))
		}
		terms, tys := c.call(x)
		if len(tys) != 1 {
			c.fail(x, "call with %d results used as a value", len(tys))
		}
		return terms, tys[0]
	}
	c.fail(e, "expression %s", c.p.str(e))
	return "", ""
}

// call translates a call; returns the Lean term and the Go result types
func (c *glCtx) call(x *ast.CallExpr) (string, []string) {
	fn := c.p.str(x.Fun)
	args := func() string {
		var parts []string
		for _, a := range x.Args {
			s, _ := c.expr(a)
			parts = append(parts, s)
		}
		if len(parts) == 0 {
			return ""
		}
		return " " + strings.Join(parts, " ")
	}
	if id, ok := x.Fun.(*ast.Ident); ok {
		switch id.Name {
		case "len":
			if len(x.Args) == 1 {
				s, _ := c.expr(x.Args[0])
				if c.t.natInts {
					return "(List.length " + s + ")", []string{"int"}
				}
				return "(KM.Go.len " + s + ")", []string{"int"}
			}
		case "string", "int":
			// conversions between types the translation identifies
			if len(x.Args) == 1 {
				s, ty := c.expr(x.Args[0])
				if ty == id.Name {
					return s, []string{ty}
				}
			}
			c.fail(x, "conversion %s", fn)
		}
		if t, ok := c.known[id.Name]; ok {
			pre := "KM.Gen.Go" + t.group + "." + t.name
			if len(t.externs) > 0 && hasExtParam(t) {
				pre += " ext"
				c.usesExt["ext"] = true
			}
			return "(" + pre + args() + ")", goResultTypes(c.e.pkg(t.pkg), t.name)
		}
	}
	if ex, ok := c.t.externs[fn]; ok {
		return "(" + ex.lean + c.externArgs(x, ex) + ")", ex.ret
	}
	if fn == "fmt.Errorf" && len(x.Args) >= 1 {
		// a non-nil error; its text is read as the format string (the interpolated values are not modelled)
		s, ty := c.expr(x.Args[0])
		if ty != "string" {
			c.fail(x, "fmt.Errorf with a non-string format")
		}
		return "(some " + s + ")", []string{"error"}
	}
	if ex, ok := glLib[fn]; ok {
		return "(" + ex.lean + args() + ")", ex.ret
	}
	// method call on a value: configured by "<GoType>.<Method>()"
	if sel, ok := x.Fun.(*ast.SelectorExpr); ok {
		if id, ok := sel.X.(*ast.Ident); ok {
			if ty, isLocal := c.lookup(id.Name); isLocal {
				key := ty + "." + sel.Sel.Name + "()"
				if ex, ok := c.t.externs[key]; ok {
					return "(" + ex.lean + " " + leanIdent(id.Name) + args() + ")", ex.ret
				}
				c.fail(x, "method %s on a value of type %q", sel.Sel.Name, ty)
			}
		}
	}
	c.fail(x, "call of %s", fn)
	return "", nil
}

// externArgs: the (selected) translated arguments of a call of an external
func (c *glCtx) externArgs(x *ast.CallExpr, ex glExtern) string {
	var parts []string
	if ex.args == nil {
		for _, a := range x.Args {
			s, _ := c.expr(a)
			parts = append(parts, s)
		}
	} else {
		for _, i := range ex.args {
			if i >= len(x.Args) {
				c.fail(x, "external %s: argument %d missing", c.p.str(x.Fun), i)
			}
			s, _ := c.expr(x.Args[i])
			parts = append(parts, s)
		}
	}
	if len(parts) == 0 {
		return ""
	}
	return " " + strings.Join(parts, " ")
}

// effectOf: the effect external a statement's (single) right-hand call is, if any
func (c *glCtx) effectOf(e ast.Expr) (*ast.CallExpr, glExtern, bool) {
	call, ok := e.(*ast.CallExpr)
	if !ok {
		return nil, glExtern{}, false
	}
	ex, ok := c.t.externs[c.p.str(call.Fun)]
	if !ok || ex.effect == "" {
		return nil, glExtern{}, false
	}
	return call, ex, true
}

// traceUpdate: `let trace_ := trace_ ++ [<effect> args];`
func (c *glCtx) traceUpdate(call *ast.CallExpr, ex glExtern, d int) string {
	return "let trace_ := trace_ ++ [" + ex.effect + c.externArgs(call, ex) + "];" + ind(d)
}

// hasEffect: does the node contain a call of an effect external?
func (c *glCtx) hasEffect(n ast.Node) bool {
	found := false
	ast.Inspect(n, func(m ast.Node) bool {
		if call, ok := m.(*ast.CallExpr); ok {
			if ex, ok := c.t.externs[c.p.str(call.Fun)]; ok && ex.effect != "" {
				found = true
			}
		}
		return true
	})
	return found
}

// structField: Go type of a field of a struct type declared in the package (non-pointer values only;
// the Lean side declares a structure with the same field names in KM/Model/GoTypes.lean)
func (c *glCtx) structField(ty, field string) (string, bool) {
	for _, f := range c.p.files {
		for _, d := range f.Decls {
			gd, ok := d.(*ast.GenDecl)
			if !ok || gd.Tok != token.TYPE {
				continue
			}
			for _, sp := range gd.Specs {
				ts := sp.(*ast.TypeSpec)
				st, ok := ts.Type.(*ast.StructType)
				if !ok || ts.Name.Name != ty {
					continue
				}
				for _, fl := range st.Fields.List {
					for _, n := range fl.Names {
						if n.Name == field {
							return normInt(c.p.str(fl.Type)), true
						}
					}
				}
			}
		}
	}
	return "", false
}

// normInt: the sized integer types are read as the unbounded `int` of the translation (overflow is not modelled;
// the trusted-base note in DESIGN.md §16 says so)
func normInt(ty string) string {
	switch ty {
	case "int8", "int16", "int32", "int64", "uint", "uint8", "uint16", "uint32", "uint64":
		return "int"
	}
	return ty
}

func hasExtParam(t *glTarget) bool { return strings.Contains(t.binders, "(ext :") }

func goResultTypes(p *pkgInfo, name string) []string {
	fd := p.funcs[name]
	var out []string
	if fd == nil || fd.Type.Results == nil {
		return out
	}
	for _, f := range fd.Type.Results.List {
		n := len(f.Names)
		if n == 0 {
			n = 1
		}
		for i := 0; i < n; i++ {
			out = append(out, p.str(f.Type))
		}
	}
	return out
}

func terminates(s ast.Stmt) bool {
	switch x := s.(type) {
	case *ast.ReturnStmt:
		return true
	case *ast.BranchStmt:
		return x.Tok == token.BREAK || x.Tok == token.CONTINUE
	case *ast.BlockStmt:
		return len(x.List) > 0 && terminates(x.List[len(x.List)-1])
	case *ast.IfStmt:
		if x.Else == nil {
			return false
		}
		return terminates(x.Body) && terminates(x.Else)
	}
	return false
}

// declaredNames: names a statement list declares at its top level
func declaredNames(list []ast.Stmt) []string {
	var out []string
	for _, s := range list {
		switch x := s.(type) {
		case *ast.AssignStmt:
			if x.Tok == token.DEFINE {
				for _, l := range x.Lhs {
					if id, ok := l.(*ast.Ident); ok && id.Name != "_" {
						out = append(out, id.Name)
					}
				}
			}
		case *ast.DeclStmt:
			if gd, ok := x.Decl.(*ast.GenDecl); ok {
				for _, sp := range gd.Specs {
					if vs, ok := sp.(*ast.ValueSpec); ok {
						for _, n := range vs.Names {
							out = append(out, n.Name)
						}
					}
				}
			}
		}
	}
	return out
}

// assignedOuter: variables of the enclosing scopes that the statements assign (not declare), with Go's block
// scoping: a name re-declared inside a block (`:=`, `var`, a range variable) is a new variable from there to the end
// of that block, and assignments to it there do not count. Writes configured as effects count as `trace_`.
func (c *glCtx) assignedOuter(list []ast.Stmt) []string {
	seen := map[string]bool{}
	cp := func(m map[string]bool) map[string]bool {
		n := map[string]bool{}
		for k, v := range m {
			n[k] = v
		}
		return n
	}
	note := func(e ast.Expr, declared map[string]bool) {
		if _, ok := c.t.stores[c.p.str(e)]; ok {
			seen["trace_"] = true
			return
		}
		if sel, ok := e.(*ast.SelectorExpr); ok {
			e = sel.X
		}
		if id, ok := e.(*ast.Ident); ok && id.Name != "_" && !declared[id.Name] {
			if _, ok := c.lookup(id.Name); ok {
				seen[id.Name] = true
			}
		}
	}
	var walkList func(l []ast.Stmt, declared map[string]bool)
	var walkStmt func(st ast.Stmt, declared map[string]bool)
	walkList = func(l []ast.Stmt, declared map[string]bool) {
		for _, st := range l {
			walkStmt(st, declared)
		}
	}
	walkStmt = func(st ast.Stmt, declared map[string]bool) {
		if st == nil {
			return
		}
		if c.hasEffectShallow(st) {
			seen["trace_"] = true
		}
		switch x := st.(type) {
		case *ast.AssignStmt:
			if x.Tok == token.DEFINE {
				for _, l := range x.Lhs {
					if id, ok := l.(*ast.Ident); ok {
						declared[id.Name] = true
					}
				}
			} else {
				for _, l := range x.Lhs {
					note(l, declared)
				}
			}
		case *ast.IncDecStmt:
			note(x.X, declared)
		case *ast.SendStmt:
			if _, ok := c.t.stores[c.p.str(x.Chan)]; ok {
				seen["trace_"] = true
			}
		case *ast.DeclStmt:
			if gd, ok := x.Decl.(*ast.GenDecl); ok {
				for _, sp := range gd.Specs {
					if vs, ok := sp.(*ast.ValueSpec); ok {
						for _, n := range vs.Names {
							declared[n.Name] = true
						}
					}
				}
			}
		case *ast.BlockStmt:
			walkList(x.List, cp(declared))
		case *ast.IfStmt:
			sc := cp(declared)
			walkStmt(x.Init, sc)
			walkList(x.Body.List, cp(sc))
			if x.Else != nil {
				walkStmt(x.Else, cp(sc))
			}
		case *ast.ForStmt:
			sc := cp(declared)
			walkStmt(x.Init, sc)
			walkStmt(x.Post, sc)
			walkList(x.Body.List, cp(sc))
		case *ast.RangeStmt:
			sc := cp(declared)
			if x.Tok == token.DEFINE {
				for _, e := range []ast.Expr{x.Key, x.Value} {
					if id, ok := e.(*ast.Ident); ok {
						sc[id.Name] = true
					}
				}
			} else {
				for _, e := range []ast.Expr{x.Key, x.Value} {
					if e != nil {
						note(e, sc)
					}
				}
			}
			walkList(x.Body.List, cp(sc))
		case *ast.SwitchStmt:
			sc := cp(declared)
			walkStmt(x.Init, sc)
			for _, cl := range x.Body.List {
				walkList(cl.(*ast.CaseClause).Body, cp(sc))
			}
		case *ast.TypeSwitchStmt:
			sc := cp(declared)
			walkStmt(x.Init, sc)
			for _, cl := range x.Body.List {
				walkList(cl.(*ast.CaseClause).Body, cp(sc))
			}
		}
	}
	walkList(list, map[string]bool{})
	var out []string
	for n := range seen {
		out = append(out, n)
	}
	sort.Strings(out)
	return out
}

// hasEffectShallow: does the statement itself (not the statements nested in its blocks) call an effect external?
func (c *glCtx) hasEffectShallow(st ast.Stmt) bool {
	found := false
	check := func(n ast.Node) {
		if n == nil {
			return
		}
		ast.Inspect(n, func(m ast.Node) bool {
			if _, ok := m.(*ast.BlockStmt); ok {
				return false
			}
			if call, ok := m.(*ast.CallExpr); ok {
				if ex, ok := c.t.externs[c.p.str(call.Fun)]; ok && ex.effect != "" {
					found = true
				}
			}
			return true
		})
	}
	switch x := st.(type) {
	case *ast.AssignStmt, *ast.ExprStmt, *ast.ReturnStmt, *ast.IncDecStmt, *ast.DeclStmt, *ast.GoStmt:
		check(x)
	case *ast.IfStmt:
		check(x.Cond)
	case *ast.RangeStmt:
		check(x.X)
	case *ast.ForStmt:
		check(x.Cond)
	case *ast.SwitchStmt:
		check(x.Tag)
	}
	return found
}

func tuple(names []string) string {
	switch len(names) {
	case 0:
		return "()"
	case 1:
		return leanIdent(names[0])
	}
	q := make([]string, len(names))
	for i, n := range names {
		q[i] = leanIdent(n)
	}
	return "(" + strings.Join(q, ", ") + ")"
}

// containsJump: does the statement list contain a return, break or continue anywhere?
func containsJump(list []ast.Stmt) bool {
	found := false
	for _, s := range list {
		ast.Inspect(s, func(n ast.Node) bool {
			switch n.(type) {
			case *ast.ReturnStmt, *ast.BranchStmt:
				found = true
			}
			return !found
		})
	}
	return found
}

func (c *glCtx) fallthroughEnd(n ast.Node) string {
	if c.joinActive {
		return tuple(c.join)
	}
	if c.cont != "" && !c.inLoopBody {
		return c.cont + " " + tuple(c.contVars)
	}
	if c.inLoop {
		return "KM.Go.Ctl.next " + tuple(c.state)
	}
	if c.void {
		if c.reach != "" {
			return "((), trace_ ++ [" + c.reach + "])"
		}
		if c.t.traceLean != "" {
			return "((), trace_)"
		}
		return "()"
	}
	c.fail(n, "control reaches the end of a function that returns a value")
	return ""
}

func (c *glCtx) zero(n ast.Node, goType string) string {
	if z, ok := c.t.zeros[goType]; ok {
		return z
	}
	switch goType {
	case "string":
		return "([] : List Char)"
	case "bool":
		return "false"
	case "int":
		return c.intLit(0)
	case "error":
		return "(none : Option KM.Go.Err)"
	}
	if strings.HasPrefix(goType, "[]") {
		return "[]"
	}
	if strings.HasPrefix(goType, "*") {
		return "none"
	}
	if strings.HasPrefix(goType, "[") {
		// a fixed-size array: opaque (the subset has no indexing; it can only be handed to ignored calls)
		return "()"
	}
	if z, ok := c.t.zeros[goType]; ok {
		return z
	}
	c.fail(n, "zero value of type %s", goType)
	return ""
}

func ind(depth int) string { return "\n" + strings.Repeat("  ", depth) }

// stmts translates a statement list followed by nothing else
func (c *glCtx) stmts(list []ast.Stmt, d int) string {
	if len(list) == 0 {
		return c.fallthroughEnd(nil)
	}
	s, rest := list[0], list[1:]
	switch x := s.(type) {
	case *ast.EmptyStmt:
		return c.stmts(rest, d)
	case *ast.ReturnStmt:
		var parts []string
		if len(x.Results) == 1 && c.nres > 1 {
			// `return f(…)` where f yields the whole result tuple
			if cx, ok := x.Results[0].(*ast.CallExpr); ok {
				if _, ex, isEff := c.effectOf(cx); isEff && ex.effect != "" {
					c.fail(x, "return of an effect call")
				}
				term, tys := c.call(cx)
				if len(tys) != c.nres {
					c.fail(x, "return of a call with %d results in a function with %d", len(tys), c.nres)
				}
				val := term
				if c.t.traceLean != "" {
					if len(c.deferred) > 0 {
						c.fail(x, "return of a call with deferred effects")
					}
					val = "(" + val + ", trace_)"
				}
				if c.inLoop {
					return "KM.Go.Ctl.ret " + val
				}
				return val
			}
		}
		for i, r := range x.Results {
			t, ty := c.expr(r)
			// a value handed back where the function declares a pointer result (the value came from an external that
			// is configured to yield the struct itself): the non-nil pointer to it
			if c.resTypes != nil && i < len(c.resTypes) && strings.HasPrefix(c.resTypes[i], "*") && ty == c.resTypes[i][1:] {
				t = "(some " + t + ")"
			}
			parts = append(parts, t)
		}
		val := "()"
		if len(parts) == 1 {
			val = parts[0]
			if cx, ok := x.Results[0].(*ast.CallExpr); ok && c.nres > 1 {
				_ = cx // a call returning the whole tuple
			}
		} else if len(parts) > 1 {
			val = "(" + strings.Join(parts, ", ") + ")"
		}
		if len(parts) == 0 && !c.void {
			c.fail(x, "bare return in a function with (named) results")
		}
		if c.t.traceLean != "" {
			tr := "trace_"
			if len(c.deferred) > 0 {
				// deferred effect calls run after the results are evaluated, last deferred first
				var rev []string
				for i := len(c.deferred) - 1; i >= 0; i-- {
					rev = append(rev, c.deferred[i])
				}
				tr = "(trace_ ++ [" + strings.Join(rev, ", ") + "])"
			}
			val = "(" + val + ", " + tr + ")"
		}
		if c.inLoop {
			return "KM.Go.Ctl.ret " + val
		}
		return val
	case *ast.BranchStmt:
		if x.Label != nil || !c.inLoop {
			c.fail(x, "%s", x.Tok)
		}
		if x.Tok == token.BREAK {
			return "KM.Go.Ctl.brk " + tuple(c.state)
		}
		if x.Tok == token.CONTINUE {
			return "KM.Go.Ctl.next " + tuple(c.state)
		}
		c.fail(x, "%s", x.Tok)
	case *ast.ExprStmt:
		if call, ex, ok := c.effectOf(x.X); ok {
			return c.traceUpdate(call, ex, d) + c.stmts(rest, d)
		}
		if call, ok := x.X.(*ast.CallExpr); ok && c.ignorable(call) {
			return c.stmts(rest, d)
		}
		c.fail(x, "expression statement %s", c.p.str(x))
	case *ast.IncDecStmt:
		if sel, ok := x.X.(*ast.SelectorExpr); ok {
			if base, ok := sel.X.(*ast.Ident); ok && x.Tok == token.INC {
				if _, ok := c.lookup(base.Name); ok {
					b := leanIdent(base.Name)
					return "let " + b + " := { " + b + " with " + sel.Sel.Name + " := " + b + "." + sel.Sel.Name + " + " + c.intLit(1) + " };" + ind(d) + c.stmts(rest, d)
				}
			}
		}
		id, ok := x.X.(*ast.Ident)
		if !ok {
			c.fail(x, "inc/dec of a non-variable")
		}
		if _, ok := c.lookup(id.Name); !ok {
			c.fail(x, "inc/dec of unknown %s", id.Name)
		}
		op := " + "
		if x.Tok == token.DEC {
			if c.t.natInts {
				c.fail(x, "decrement in a function whose ints are Nat")
			}
			op = " - "
		}
		n := leanIdent(id.Name)
		return "let " + n + " := " + n + op + c.intLit(1) + ";" + ind(d) + c.stmts(rest, d)
	case *ast.DeclStmt:
		gd, ok := x.Decl.(*ast.GenDecl)
		if !ok || (gd.Tok != token.VAR && gd.Tok != token.CONST) {
			c.fail(x, "declaration")
		}
		out := ""
		for _, sp := range gd.Specs {
			vs := sp.(*ast.ValueSpec)
			for i, nm := range vs.Names {
				var val, ty string
				if i < len(vs.Values) {
					val, ty = c.expr(vs.Values[i])
					if vs.Type != nil {
						ty = c.p.str(vs.Type)
					}
				} else {
					ty = c.p.str(vs.Type)
					val = c.zero(x, ty)
				}
				c.declare(nm.Name, ty)
				out += "let " + leanIdent(nm.Name) + " := " + val + ";" + ind(d)
			}
		}
		return out + c.stmts(rest, d)
	case *ast.AssignStmt:
		return c.assign(x, rest, d)
	case *ast.BlockStmt:
		for _, n := range declaredNames(x.List) {
			if _, outer := c.lookup(n); outer {
				c.fail(x, "nested block redeclares %s", n)
			}
		}
		return c.stmts(append(append([]ast.Stmt{}, x.List...), rest...), d)
	case *ast.IfStmt:
		return c.ifStmt(x, rest, d)
	case *ast.SwitchStmt:
		return c.stmts(append([]ast.Stmt{c.switchToIf(x)}, rest...), d)
	case *ast.GoStmt:
		// `go <effect call>`: the effect is recorded where the goroutine is started (it runs asynchronously and is not
		// awaited by the function: the trace says that it was started, not when it completes)
		if call, ex, ok := c.effectOf(x.Call); ok {
			return c.traceUpdate(call, ex, d) + c.stmts(rest, d)
		}
		c.fail(x, "go statement")
	case *ast.DeferStmt:
		// only `defer <effect call>` at the top level of the function (not in a loop or branch): the effect is
		// appended to the trace at every return that follows
		if call, ex, ok := c.effectOf(x.Call); ok && !c.inLoop && !c.joinActive && d == 1 {
			c.deferred = append(c.deferred, ex.effect+c.externArgs(call, ex))
			return c.stmts(rest, d)
		}
		if c.ignorable(x.Call) {
			// a deferred call the translation drops anyway (logging, Close of a request body, …)
			return c.stmts(rest, d)
		}
		c.fail(x, "defer")
	case *ast.SendStmt:
		if ctor, ok := c.t.stores[c.p.str(x.Chan)]; ok {
			val, _ := c.expr(x.Value)
			return "let trace_ := trace_ ++ [" + ctor + " " + val + "];" + ind(d) + c.stmts(rest, d)
		}
		c.fail(x, "channel send")
	case *ast.TypeSwitchStmt:
		return c.typeSwitch(x, rest, d)
	case *ast.RangeStmt:
		return c.rangeStmt(x, rest, d)
	case *ast.ForStmt:
		return c.forStmt(x, rest, d)
	}
	c.fail(s, "statement %T", s)
	return ""
}

func (c *glCtx) assign(x *ast.AssignStmt, rest []ast.Stmt, d int) string {
	if len(x.Rhs) == 1 {
		if call, ex, ok := c.effectOf(x.Rhs[0]); ok {
			// the effect is recorded first, then the call's (parameterised) value is bound; a statement may be
			// translated several times (once per branch that falls through to it), each time with its effect
			c.effectCall = call
			return c.traceUpdate(call, ex, d) + c.assign2(x, rest, d)
		}
	}
	return c.assign2(x, rest, d)
}

func (c *glCtx) assign2(x *ast.AssignStmt, rest []ast.Stmt, d int) string {
	// `e1, … := f(a, &v)` where f is an external with an out-parameter: v receives the first component
	if len(x.Rhs) == 1 {
		if call, ok := x.Rhs[0].(*ast.CallExpr); ok {
			if ex, ok := c.t.externs[c.p.str(call.Fun)]; ok && ex.out > 0 {
				if ex.out > len(call.Args) || len(ex.ret) != len(x.Lhs)+1 {
					c.fail(x, "out-parameter external %s: shape", c.p.str(call.Fun))
				}
				u, ok := call.Args[ex.out-1].(*ast.UnaryExpr)
				if !ok || u.Op != token.AND {
					c.fail(x, "out-parameter of %s is not &v", c.p.str(call.Fun))
				}
				ov, ok := u.X.(*ast.Ident)
				if !ok {
					c.fail(x, "out-parameter of %s is not a variable", c.p.str(call.Fun))
				}
				if _, known := c.lookup(ov.Name); !known {
					c.fail(x, "out-parameter %s is not a local", ov.Name)
				}
				var parts []string
				for i, a := range call.Args {
					if i == ex.out-1 {
						continue
					}
					if ex.args != nil {
						keep := false
						for _, j := range ex.args {
							keep = keep || j == i
						}
						if !keep {
							continue
						}
					}
					sa, _ := c.expr(a)
					parts = append(parts, sa)
				}
				term := ex.lean
				if len(parts) > 0 {
					term += " " + strings.Join(parts, " ")
				}
				pats := []string{leanIdent(ov.Name)}
				for i, l := range x.Lhs {
					id, ok := l.(*ast.Ident)
					if !ok {
						c.fail(x, "assignment to a non-variable")
					}
					if id.Name == "_" {
						pats = append(pats, "_")
						continue
					}
					if x.Tok == token.DEFINE {
						c.declare(id.Name, ex.ret[i+1])
					} else if _, ok := c.lookup(id.Name); !ok {
						c.fail(x, "assignment to unknown %s", id.Name)
					}
					pats = append(pats, leanIdent(id.Name))
				}
				return "match (" + term + ") with" + ind(d) + "| (" + strings.Join(pats, ", ") + ") =>" + ind(d+1) + c.stmts(rest, d+1)
			}
		}
	}
	// several results of one call
	if len(x.Lhs) > 1 && len(x.Rhs) == 1 {
		var term string
		var tys []string
		call, ok := x.Rhs[0].(*ast.CallExpr)
		if ok {
			term, tys = c.call(call)
		} else {
			// `v, ok := m[k]` (or any other comma-ok form) configured as a path: the Lean term yields the tuple and the
			// configured type is the comma-separated list of the Go types
			key := strings.Join(strings.Fields(c.p.str(x.Rhs[0])), "")
			found := false
			for k, r := range c.t.paths {
				if strings.Join(strings.Fields(k), "") == key {
					term, tys, found = r[0], strings.Split(r[1], ","), true
				}
			}
			if !found {
				c.fail(x, "multi-assignment from a non-call")
			}
		}
		if len(tys) != len(x.Lhs) {
			c.fail(x, "call yields %d values for %d variables", len(tys), len(x.Lhs))
		}
		var pats []string
		for i, l := range x.Lhs {
			id, ok := l.(*ast.Ident)
			if !ok {
				c.fail(x, "assignment to a non-variable")
			}
			if id.Name == "_" {
				pats = append(pats, "_")
				continue
			}
			if x.Tok == token.DEFINE {
				if _, exists := c.vars[len(c.vars)-1][id.Name]; !exists {
					c.declare(id.Name, tys[i])
				}
			} else if _, ok := c.lookup(id.Name); !ok {
				c.fail(x, "assignment to unknown %s", id.Name)
			}
			pats = append(pats, leanIdent(id.Name))
		}
		return "match " + term + " with" + ind(d) + "| (" + strings.Join(pats, ", ") + ") =>" + ind(d+1) + c.stmts(rest, d+1)
	}
	if len(x.Lhs) != len(x.Rhs) {
		c.fail(x, "assignment shape")
	}
	if len(x.Lhs) > 1 {
		c.fail(x, "parallel assignment")
	}
	if ctor, ok := c.t.stores[c.p.str(x.Lhs[0])]; ok && x.Tok == token.ASSIGN {
		val, _ := c.expr(x.Rhs[0])
		return "let trace_ := trace_ ++ [" + ctor + " " + val + "];" + ind(d) + c.stmts(rest, d)
	}
	if sel, ok := x.Lhs[0].(*ast.SelectorExpr); ok {
		// x.F = e on a local struct value: a structure update
		base, ok := sel.X.(*ast.Ident)
		if !ok {
			c.fail(x, "assignment to %s", c.p.str(x.Lhs[0]))
		}
		bty, ok := c.lookup(base.Name)
		if !ok {
			c.fail(x, "field assignment on unknown %s", base.Name)
		}
		if _, ok := c.structField(strings.TrimPrefix(bty, "*"), sel.Sel.Name); !ok {
			c.fail(x, "field %s of %s", sel.Sel.Name, bty)
		}
		if x.Tok != token.ASSIGN {
			c.fail(x, "operator assignment to a field")
		}
		val, _ := c.expr(x.Rhs[0])
		b := leanIdent(base.Name)
		return "let " + b + " := { " + b + " with " + sel.Sel.Name + " := " + val + " };" + ind(d) + c.stmts(rest, d)
	}
	id, ok := x.Lhs[0].(*ast.Ident)
	if !ok {
		c.fail(x, "assignment to %s (only variables can be assigned)", c.p.str(x.Lhs[0]))
	}
	val, ty := c.expr(x.Rhs[0])
	n := leanIdent(id.Name)
	switch x.Tok {
	case token.DEFINE:
		c.declare(id.Name, ty)
	case token.ASSIGN:
		if _, ok := c.lookup(id.Name); !ok {
			c.fail(x, "assignment to unknown %s", id.Name)
		}
	default:
		vt, ok := c.lookup(id.Name)
		if !ok {
			c.fail(x, "assignment to unknown %s", id.Name)
		}
		var op string
		switch x.Tok {
		case token.ADD_ASSIGN:
			op = " + "
			if vt == "string" {
				op = " ++ "
			}
		case token.OR_ASSIGN:
			if !c.t.natInts {
				c.fail(x, "|= outside a Nat function")
			}
			op = " ||| "
		case token.AND_ASSIGN:
			if !c.t.natInts {
				c.fail(x, "&= outside a Nat function")
			}
			op = " &&& "
		case token.SUB_ASSIGN:
			if c.t.natInts {
				c.fail(x, "-= in a Nat function")
			}
			op = " - "
		default:
			c.fail(x, "assignment operator %s", x.Tok)
		}
		val = "(" + n + op + val + ")"
	}
	if id.Name == "_" {
		return c.stmts(rest, d)
	}
	return "let " + n + " := " + val + ";" + ind(d) + c.stmts(rest, d)
}

func (c *glCtx) ifStmt(x *ast.IfStmt, rest []ast.Stmt, d int) string {
	if x.Init != nil {
		// `if v := e; cond {…}`: v is scoped to the if statement
		c.push()
		defer c.pop()
		for _, n := range declaredNames([]ast.Stmt{x.Init}) {
			if _, outer := c.lookup(n); outer && len(rest) > 0 {
				// `if n := …; cond {…}` where n shadows an outer variable that the statements after the if may still
				// use: inside the whole if statement every `n` is the new variable, so it is renamed there (the
				// identifiers are restored afterwards: the syntax tree is shared with the other extractors)
				fresh := n + "_s"
				for {
					if _, taken := c.lookup(fresh); !taken {
						break
					}
					fresh += "s"
				}
				var touched []*ast.Ident
				ast.Inspect(x, func(m ast.Node) bool {
					switch y := m.(type) {
					case *ast.SelectorExpr:
						ast.Inspect(y.X, func(k ast.Node) bool {
							if id, ok := k.(*ast.Ident); ok && id.Name == n {
								id.Name = fresh
								touched = append(touched, id)
							}
							return true
						})
						return false
					case *ast.KeyValueExpr:
						ast.Inspect(y.Value, func(k ast.Node) bool {
							if id, ok := k.(*ast.Ident); ok && id.Name == n {
								id.Name = fresh
								touched = append(touched, id)
							}
							return true
						})
						return false
					case *ast.Ident:
						if y.Name == n {
							y.Name = fresh
							touched = append(touched, y)
						}
					}
					return true
				})
				orig := n
				defer func() {
					for _, id := range touched {
						id.Name = orig
					}
				}()
			}
		}
		y := *x
		y.Init = nil
		return c.stmts(append([]ast.Stmt{x.Init, &y}, rest...), d)
	}
	// `if f(…) {` / `if !f(…) {` where f is an effect external: the effect is recorded before the condition is evaluated
	prefix := ""
	{
		inner := x.Cond
		if u, ok := inner.(*ast.UnaryExpr); ok && u.Op == token.NOT {
			inner = u.X
		}
		if call, ok := inner.(*ast.CallExpr); ok {
			if ex, isExt := c.t.externs[c.p.str(call.Fun)]; isExt && ex.effect != "" {
				prefix = c.traceUpdate(call, ex, d)
				saved := c.effectCall
				c.effectCall = call
				defer func() { c.effectCall = saved }()
			}
		}
	}
	cond, _ := c.expr(x.Cond)
	var elseList []ast.Stmt
	if x.Else != nil {
		switch e := x.Else.(type) {
		case *ast.BlockStmt:
			elseList = e.List
		default:
			elseList = []ast.Stmt{e}
		}
	}
	branch := func(list []ast.Stmt, leaves bool) string {
		c.push()
		defer c.pop()
		if leaves {
			return c.stmts(list, d+1)
		}
		// the branch is translated as `list; rest` in one scope: a name the branch re-declares (Go: a new variable
		// that shadows the outer one inside the block) is harmless exactly when `rest` never mentions that name
		for _, n := range declaredNames(list) {
			if _, outer := c.lookup(n); outer && mentionsIdent(rest, n) {
				// the branch re-declares n (a new variable to the end of the branch) and the statements after the if
				// still use the outer n: inside the branch, from the declaring statement on, the new variable is renamed
				// (identifiers restored afterwards: the syntax tree is shared)
				restore, ok := renameFrom(list, n, c)
				if !ok {
					c.fail(x, "branch redeclares %s, which the statements after the if still use", n)
				}
				defer restore()
			}
		}
		return c.stmts(append(append([]ast.Stmt{}, list...), rest...), d+1)
	}
	if !containsJump(x.Body.List) && !containsJump(elseList) {
		// neither branch leaves: the `if` is a value, namely the variables it assigns. A name a branch re-declares is
		// a new variable of that branch (each branch is translated in its own scope and `rest` outside of it);
		// assignedOuter refuses the case in which that name is also assigned, where the two could be confused.
		vars := c.assignedOuter(append(append([]ast.Stmt{}, x.Body.List...), elseList...))
		val := func(list []ast.Stmt) string {
			c.push()
			defer c.pop()
			sj, sa, sl, ss := c.join, c.joinActive, c.inLoop, c.state
			c.join, c.joinActive = vars, true
			defer func() { c.join, c.joinActive, c.inLoop, c.state = sj, sa, sl, ss }()
			return c.stmts(list, d+2)
		}
		t, e := val(x.Body.List), val(elseList)
		return prefix + "match (if " + cond + " then" + ind(d+2) + t + ind(d+1) + "else" + ind(d+2) + e + ") with" + ind(d) + "| " + tuple(vars) + " =>" + ind(d+1) + c.stmts(rest, d+1)
	}
	thenLeaves := terminates(x.Body)
	elseLeaves := x.Else != nil && terminates(x.Else)
	if c.t.joinPoints && !thenLeaves && !elseLeaves && len(rest) > 0 && !c.inLoop {
		// both branches may fall through (and at least one may also leave): the statements after the if become a
		// join point that the branches call with the variables they may have assigned
		vars := c.assignedOuter(append(append([]ast.Stmt{}, x.Body.List...), elseList...))
		c.nJoin++
		k := fmt.Sprintf("k_%d", c.nJoin)
		restS := c.stmts(rest, d+1)
		br := func(list []ast.Stmt) string {
			c.push()
			defer c.pop()
			sc, sv, sl := c.cont, c.contVars, c.inLoopBody
			c.cont, c.contVars, c.inLoopBody = k, vars, false
			defer func() { c.cont, c.contVars, c.inLoopBody = sc, sv, sl }()
			return c.stmts(list, d+1)
		}
		pat := tuple(vars)
		return prefix + "let " + k + " := fun " + pat + " =>" + ind(d+1) + restS + ";" + ind(d) +
			"if " + cond + " then" + ind(d+1) + br(x.Body.List) + ind(d) + "else" + ind(d+1) + br(elseList)
	}
	thenS := branch(x.Body.List, thenLeaves)
	var elseS string
	if elseLeaves {
		elseS = branch(elseList, true)
	} else {
		elseS = branch(elseList, false)
	}
	if thenLeaves && elseLeaves && len(rest) > 0 {
		// unreachable rest: Go would reject most such code; keep what is reachable
	}
	return prefix + "if " + cond + " then" + ind(d+1) + thenS + ind(d) + "else" + ind(d+1) + elseS
}

// typeSwitch: `switch k := x.(type) { case T: … default: … }` over a value whose dynamic types are a configured Lean
// inductive: one `match` arm per case (types of one clause that share a pattern are merged), `_` for default (or for
// falling out of the switch). Inside a case the configured selector chains on k read the pattern's fields.
func (c *glCtx) typeSwitch(x *ast.TypeSwitchStmt, rest []ast.Stmt, d int) string {
	if x.Init != nil || c.t.typeCases == nil {
		c.fail(x, "type switch (no type cases configured)")
	}
	var ta *ast.TypeAssertExpr
	switch a := x.Assign.(type) {
	case *ast.ExprStmt:
		ta, _ = a.X.(*ast.TypeAssertExpr)
	case *ast.AssignStmt:
		if len(a.Rhs) == 1 {
			ta, _ = a.Rhs[0].(*ast.TypeAssertExpr)
		}
	}
	if ta == nil {
		c.fail(x, "type switch header")
	}
	scrut, _ := c.expr(ta.X)
	out := "match " + scrut + " with"
	hasDefault := false
	for _, cl := range x.Body.List {
		cc := cl.(*ast.CaseClause)
		var pats []string
		bind := map[string][2]string{}
		if cc.List == nil {
			hasDefault = true
			pats = []string{"_"}
		}
		for _, ty := range cc.List {
			tc, ok := c.t.typeCases[c.p.str(ty)]
			if !ok {
				c.fail(ty, "type switch case %s is not configured", c.p.str(ty))
			}
			dup := false
			for _, p := range pats {
				if p == tc.pattern {
					dup = true
				}
			}
			if !dup {
				pats = append(pats, tc.pattern)
			}
			for k, v := range tc.bind {
				bind[k] = v
			}
		}
		if len(pats) > 1 && len(bind) > 0 {
			c.fail(cc, "a type switch case with several patterns cannot bind fields")
		}
		saved := c.t.paths
		merged := map[string][2]string{}
		for k, v := range saved {
			merged[k] = v
		}
		for k, v := range bind {
			merged[k] = v
		}
		c.t.paths = merged
		c.push()
		body := c.stmts(append(append([]ast.Stmt{}, cc.Body...), rest...), d+1)
		c.pop()
		c.t.paths = saved
		out += ind(d) + "| " + strings.Join(pats, " | ") + " =>" + ind(d+1) + body
	}
	if !hasDefault {
		out += ind(d) + "| _ =>" + ind(d+1) + c.stmts(rest, d+1)
	}
	return out
}

// renameFrom renames the variable n that one of the top-level statements of list declares with `:=` (left-hand side
// only in the declaring statement, every occurrence in the statements after it) to a fresh name; it returns the
// function that undoes the renaming. Not applicable (false) when the declaration is not a plain `:=` whose right-hand
// side does not mention n.
func renameFrom(list []ast.Stmt, n string, c *glCtx) (func(), bool) {
	k := -1
	for i, st := range list {
		if as, ok := st.(*ast.AssignStmt); ok && as.Tok == token.DEFINE {
			for _, l := range as.Lhs {
				if id, ok := l.(*ast.Ident); ok && id.Name == n && k < 0 {
					k = i
				}
			}
		}
	}
	if k < 0 {
		return nil, false
	}
	decl := list[k].(*ast.AssignStmt)
	for _, r := range decl.Rhs {
		if mentionsIdent([]ast.Stmt{&ast.ExprStmt{X: r}}, n) {
			return nil, false
		}
	}
	if mentionsIdent(list[:k], n) {
		// uses of the OUTER n before the declaration stay as they are; fine
	}
	fresh := n + "_s"
	for {
		if _, taken := c.lookup(fresh); !taken && !mentionsIdent(list, fresh) {
			break
		}
		fresh += "s"
	}
	var touched []*ast.Ident
	ren := func(node ast.Node) {
		ast.Inspect(node, func(m ast.Node) bool {
			switch y := m.(type) {
			case *ast.SelectorExpr:
				ast.Inspect(y.X, func(q ast.Node) bool {
					if id, ok := q.(*ast.Ident); ok && id.Name == n {
						id.Name = fresh
						touched = append(touched, id)
					}
					return true
				})
				return false
			case *ast.Ident:
				if y.Name == n {
					y.Name = fresh
					touched = append(touched, y)
				}
			}
			return true
		})
	}
	for _, l := range decl.Lhs {
		ren(l)
	}
	for _, st := range list[k+1:] {
		ren(st)
	}
	return func() {
		for _, id := range touched {
			id.Name = n
		}
	}, true
}

// assignsIdent: is there a plain assignment (=, op=, ++) to the identifier n anywhere in the statements?
func assignsIdent(list []ast.Stmt, n string) bool {
	found := false
	for _, st := range list {
		ast.Inspect(st, func(m ast.Node) bool {
			switch x := m.(type) {
			case *ast.AssignStmt:
				if x.Tok != token.DEFINE {
					for _, l := range x.Lhs {
						if id, ok := l.(*ast.Ident); ok && id.Name == n {
							found = true
						}
					}
				}
			case *ast.IncDecStmt:
				if id, ok := x.X.(*ast.Ident); ok && id.Name == n {
					found = true
				}
			}
			return true
		})
	}
	return found
}

// mentionsIdent: does any of the statements mention the identifier n (as a variable, not as a field name)?
func mentionsIdent(list []ast.Stmt, n string) bool {
	found := false
	for _, st := range list {
		ast.Inspect(st, func(m ast.Node) bool {
			switch x := m.(type) {
			case *ast.SelectorExpr:
				ast.Inspect(x.X, func(k ast.Node) bool {
					if id, ok := k.(*ast.Ident); ok && id.Name == n {
						found = true
					}
					return true
				})
				return false
			case *ast.Ident:
				if x.Name == n {
					found = true
				}
			}
			return true
		})
	}
	return found
}

func (c *glCtx) switchToIf(x *ast.SwitchStmt) ast.Stmt {
	if x.Init != nil {
		c.fail(x, "switch with init")
	}
	var first, last *ast.IfStmt
	var deflt *ast.BlockStmt
	for _, cl := range x.Body.List {
		cc := cl.(*ast.CaseClause)
		for _, s := range cc.Body {
			if b, ok := s.(*ast.BranchStmt); ok && (b.Tok == token.FALLTHROUGH || b.Tok == token.BREAK) {
				c.fail(b, "%s inside switch", b.Tok)
			}
		}
		if cc.List == nil {
			deflt = &ast.BlockStmt{List: cc.Body}
			continue
		}
		var cond ast.Expr
		for _, v := range cc.List {
			var t ast.Expr = v
			if x.Tag != nil {
				t = &ast.BinaryExpr{X: x.Tag, Op: token.EQL, Y: v, OpPos: v.Pos()}
			}
			if cond == nil {
				cond = t
			} else {
				cond = &ast.BinaryExpr{X: cond, Op: token.LOR, Y: t, OpPos: v.Pos()}
			}
		}
		is := &ast.IfStmt{If: cc.Pos(), Cond: cond, Body: &ast.BlockStmt{List: cc.Body}}
		if first == nil {
			first = is
		} else {
			last.Else = is
		}
		last = is
	}
	if first == nil {
		if deflt != nil {
			return deflt
		}
		return &ast.EmptyStmt{}
	}
	if deflt != nil {
		last.Else = deflt
	}
	return first
}

func (c *glCtx) loopBody(body []ast.Stmt, state []string, d int) string {
	savedLoop, savedState, savedLB := c.inLoop, c.state, c.inLoopBody
	c.inLoop, c.state, c.inLoopBody = true, state, true
	defer func() { c.inLoop, c.state, c.inLoopBody = savedLoop, savedState, savedLB }()
	return c.stmts(body, d)
}

func (c *glCtx) afterLoop(loop string, state []string, rest []ast.Stmt, d int) string {
	retArm := "r"
	if c.inLoop {
		retArm = "KM.Go.Ctl.ret r"
	}
	return "match " + loop + " with" + ind(d) + "| KM.Go.Loop.ret r => " + retArm + ind(d) +
		"| KM.Go.Loop.done " + tuple(state) + " =>" + ind(d+1) + c.stmts(rest, d+1)
}

func (c *glCtx) rangeStmt(x *ast.RangeStmt, rest []ast.Stmt, d int) string {
	if x.Tok != token.DEFINE && x.Key != nil {
		c.fail(x, "range assigning to existing variables")
	}
	coll, cty := c.expr(x.X)
	elemTy := ""
	mapKeyTy := ""
	switch {
	case cty == "string":
		elemTy = "rune"
	case strings.HasPrefix(cty, "[]"):
		elemTy = cty[2:]
	case strings.HasPrefix(cty, "map[") && strings.Contains(cty, "]"):
		// a map is ranged over as a list of (key, value) pairs in SOME order (Go's order is unspecified: a theorem about
		// the translation quantifies over every list, hence over every order)
		mapKeyTy = normInt(cty[4:strings.Index(cty, "]")])
		elemTy = cty[strings.Index(cty, "]")+1:]
	default:
		c.fail(x, "range over a value of type %q (only slices, maps and strings)", cty)
	}
	key, val := "_", "_"
	if id, ok := x.Key.(*ast.Ident); ok && x.Key != nil {
		key = id.Name
	}
	if x.Value != nil {
		if id, ok := x.Value.(*ast.Ident); ok {
			val = id.Name
		} else {
			c.fail(x, "range value")
		}
	}
	if key != "_" && cty == "string" {
		c.fail(x, "byte offsets of a range over a string")
	}
	state := c.assignedOuter(x.Body.List)
	for _, n := range []string{key, val} {
		if n != "_" {
			if _, outer := c.lookup(n); outer {
				c.fail(x, "range variable %s shadows an outer variable", n)
			}
		}
	}
	c.push()
	if key != "_" {
		if mapKeyTy != "" {
			c.declare(key, mapKeyTy)
		} else {
			c.declare(key, "int")
		}
	}
	if val != "_" {
		c.declare(val, elemTy)
	}
	body := c.loopBody(x.Body.List, state, d+2)
	c.pop()
	var loop string
	if mapKeyTy != "" {
		k, v := "_", "_"
		if key != "_" {
			k = leanIdent(key)
		}
		if val != "_" {
			v = leanIdent(val)
		}
		loop = "KM.Go.forRange " + coll + " " + tuple(state) + " (fun kv_ st => match kv_, st with" + ind(d+1) + "| (" + k + ", " + v + "), " + tuple(state) + " =>" + ind(d+2) + body + ")"
		return c.afterLoop(loop, state, rest, d)
	}
	if key != "_" {
		if c.t.natInts {
			c.fail(x, "slice index in a function whose ints are Nat")
		}
		loop = "KM.Go.forRangeIdx " + coll + " " + tuple(state) + " (fun " + leanIdent(key) + " " + leanIdent(val) + " st => match st with" + ind(d+1) + "| " + tuple(state) + " =>" + ind(d+2) + body + ")"
	} else {
		loop = "KM.Go.forRange " + coll + " " + tuple(state) + " (fun " + leanIdent(val) + " st => match st with" + ind(d+1) + "| " + tuple(state) + " =>" + ind(d+2) + body + ")"
	}
	return c.afterLoop(loop, state, rest, d)
}

func (c *glCtx) forStmt(x *ast.ForStmt, rest []ast.Stmt, d int) string {
	// only `for i := a; i < b; i++ { … }` with i not assigned in the body
	init, ok := x.Init.(*ast.AssignStmt)
	if !ok || init.Tok != token.DEFINE || len(init.Lhs) != 1 || len(init.Rhs) != 1 {
		c.fail(x, "for statement that is not a counted loop")
	}
	iv, ok := init.Lhs[0].(*ast.Ident)
	cond, ok2 := x.Cond.(*ast.BinaryExpr)
	post, ok3 := x.Post.(*ast.IncDecStmt)
	if !ok || !ok2 || !ok3 || cond.Op != token.LSS || post.Tok != token.INC || c.p.str(cond.X) != iv.Name || c.p.str(post.X) != iv.Name || c.t.natInts {
		c.fail(x, "for statement that is not a counted loop")
	}
	if _, outer := c.lookup(iv.Name); outer {
		c.fail(x, "loop counter shadows an outer variable")
	}
	from, _ := c.expr(init.Rhs[0])
	state := c.assignedOuter(x.Body.List)
	c.push()
	c.declare(iv.Name, "int")
	for _, n := range c.assignedOuter(x.Body.List) {
		if n == iv.Name {
			c.fail(x, "loop counter assigned in the body")
		}
	}
	to, _ := c.expr(cond.Y)
	if strings.Contains(" "+to+" ", " "+leanIdent(iv.Name)+" ") {
		c.fail(x, "loop bound mentions the counter")
	}
	for _, n := range state {
		if strings.Contains(c.p.str(cond.Y), n) {
			c.fail(x, "loop bound mentions a variable assigned in the body")
		}
	}
	body := c.loopBody(x.Body.List, state, d+2)
	c.pop()
	loop := "KM.Go.forRange (KM.Go.intRange " + from + " " + to + ") " + tuple(state) + " (fun " + leanIdent(iv.Name) + " st => match st with" + ind(d+1) + "| " + tuple(state) + " =>" + ind(d+2) + body + ")"
	return c.afterLoop(loop, state, rest, d)
}

func (c *glCtx) leanParamType(n ast.Node, goType string) string {
	switch goType {
	case "string":
		return "List Char"
	case "bool":
		return "Bool"
	case "int":
		if c.t.natInts {
			return "Nat"
		}
		return "Int"
	case "rune":
		return "Char"
	case "error":
		return "Option KM.Go.Err"
	}
	if strings.HasPrefix(goType, "[]") {
		return "List (" + c.leanParamType(n, goType[2:]) + ")"
	}
	c.fail(n, "parameter of type %s has no configured Lean type", goType)
	return ""
}

func (c *glCtx) function(fd *ast.FuncDecl) string {
	c.vars = nil
	c.push()
	var binders []string
	if c.t.binders != "" {
		binders = append(binders, c.t.binders)
	}
	if fd.Recv != nil {
		for _, f := range fd.Recv.List {
			for _, n := range f.Names {
				// a pointer receiver is translated as the value it points to (a nil receiver is not modelled)
				c.declare(n.Name, strings.TrimPrefix(c.p.str(f.Type), "*"))
			}
		}
	}
	for _, f := range fd.Type.Params.List {
		gt := c.p.str(f.Type)
		for _, n := range f.Names {
			if g, ok := c.t.paramGo[n.Name]; ok {
				gt = g
			}
			c.declare(n.Name, gt)
			if lt, ok := c.t.paramLean[n.Name]; ok {
				if lt != "" {
					binders = append(binders, "("+leanIdent(n.Name)+" : "+lt+")")
				}
				continue
			}
			binders = append(binders, "("+leanIdent(n.Name)+" : "+c.leanParamType(f, gt)+")")
		}
	}
	c.void = fd.Type.Results == nil || len(fd.Type.Results.List) == 0
	c.nres = len(goResultTypes(c.p, fd.Name.Name))
	c.resTypes = goResultTypes(c.p, fd.Name.Name)
	pre := ""
	if fd.Type.Results != nil {
		for _, f := range fd.Type.Results.List {
			// named results are locals that start at their zero value; every return of the subset is explicit
			// (a bare return is refused where it occurs)
			for _, n := range f.Names {
				gt := c.p.str(f.Type)
				c.declare(n.Name, gt)
				pre += "let " + leanIdent(n.Name) + " := " + c.zero(fd, gt) + ";" + ind(1)
			}
		}
	}
	if c.t.traceLean != "" {
		c.declare("trace_", "[]effect")
		pre += "let trace_ := ([] : List " + c.t.traceLean + ");" + ind(1)
	}
	body := c.stmts(fd.Body.List, 1)
	return "def " + c.t.name + " " + strings.Join(binders, " ") + " : " + c.t.retLean + " :=\n  " + pre + body + "\n"
}

// block translates a range of top-level statements of fd (see glTarget.blockFrom) followed by `return <result>`
func (c *glCtx) block(fd *ast.FuncDecl) string {
	c.vars = nil
	c.push()
	from, upto := -1, -1
	norm := func(n ast.Node) string { return strings.Join(strings.Fields(c.p.str(n)), " ") }
	for i, st := range fd.Body.List {
		txt := norm(st)
		if strings.HasPrefix(txt, c.t.blockFrom) {
			if from >= 0 {
				c.fail(st, "block start %q matches more than one statement", c.t.blockFrom)
			}
			from = i
		}
		if c.t.blockUpto != "" && strings.HasPrefix(txt, c.t.blockUpto) {
			if upto >= 0 {
				c.fail(st, "block end %q matches more than one statement", c.t.blockUpto)
			}
			upto = i
		}
	}
	if c.t.blockUpto == "" && from >= 0 {
		// tail block: from the statement to the end of the function; its returns are the function's returns
		c.void = fd.Type.Results == nil || len(fd.Type.Results.List) == 0
		c.nres = len(goResultTypes(c.p, fd.Name.Name))
		pre := ""
		if c.t.traceLean != "" {
			c.declare("trace_", "[]effect")
			pre = "let trace_ := ([] : List " + c.t.traceLean + ");" + ind(1)
		}
		{
			var lnames []string
			for n := range c.t.locals {
				lnames = append(lnames, n)
			}
			sort.Strings(lnames)
			for _, n := range lnames {
				c.declare(n, c.t.locals[n])
				pre += "let " + leanIdent(n) + " := " + c.zero(fd, c.t.locals[n]) + ";" + ind(1)
			}
		}
		body := c.stmts(append([]ast.Stmt{}, fd.Body.List[from:]...), 1)
		return "def " + c.t.name + " " + c.t.binders + " : " + c.t.retLean + " :=\n  " + pre + body + "\n"
	}
	if from < 0 || upto < 0 || upto <= from {
		c.fail(fd, "block %q … %q not found in %s", c.t.blockFrom, c.t.blockUpto, fd.Name.Name)
	}
	list := append([]ast.Stmt{}, fd.Body.List[from:upto]...)
	if c.t.blockReach != "" {
		if c.t.traceLean == "" || !(fd.Type.Results == nil || len(fd.Type.Results.List) == 0) {
			c.fail(fd, "blockReach needs a trace and a function without results")
		}
		c.void = true
		c.nres = 0
		c.declare("trace_", "[]effect")
		pre := "let trace_ := ([] : List " + c.t.traceLean + ");" + ind(1)
		var lnames []string
		for n := range c.t.locals {
			lnames = append(lnames, n)
		}
		sort.Strings(lnames)
		for _, n := range lnames {
			c.declare(n, c.t.locals[n])
			pre += "let " + leanIdent(n) + " := " + c.zero(fd, c.t.locals[n]) + ";" + ind(1)
		}
		c.reach = c.t.blockReach
		body := c.stmts(list, 1)
		return "def " + c.t.name + " " + c.t.binders + " : " + c.t.retLean + " :=\n  " + pre + body + "\n"
	}
	for _, st := range list {
		ast.Inspect(st, func(n ast.Node) bool {
			switch n.(type) {
			case *ast.ReturnStmt, *ast.GoStmt, *ast.DeferStmt:
				c.fail(n, "the block leaves or outlives the enclosing function")
			}
			return true
		})
	}
	res, err := parser.ParseExpr(c.t.blockResult)
	if err != nil {
		c.fail(fd, "block result %q: %v", c.t.blockResult, err)
	}
	list = append(list, &ast.ReturnStmt{Results: []ast.Expr{res}})
	c.void = false
	c.nres = 1
	body := c.stmts(list, 1)
	return "def " + c.t.name + " " + c.t.binders + " : " + c.t.retLean + " :=\n  " + body + "\n"
}

func genGo2Lean(e *emitter) {
	groups := map[string][]*glTarget{}
	var order []string
	for i := range glTargets {
		t := &glTargets[i]
		if _, ok := groups[t.group]; !ok {
			order = append(order, t.group)
		}
		groups[t.group] = append(groups[t.group], t)
	}
	sort.Strings(order)
	facts := map[string]interface{}{}
	for _, g := range order {
		var b strings.Builder
		b.WriteString("import KM.Model.GoLite\nimport KM.Model.GoTypes\nset_option linter.unusedVariables false\nnamespace KM.Gen.Go" + g + "\n\n")
		known := map[string]*glTarget{}
		for _, t := range groups[g] {
			p := e.pkg(t.pkg)
			fd := p.funcs[t.name]
			status := "translated"
			var text string
			func() {
				defer func() {
					if r := recover(); r != nil {
						ge, ok := r.(glErr)
						if !ok {
							panic(r)
						}
						status = "untranslated: " + ge.msg
						text = "/-- NOT TRANSLATED: " + strings.ReplaceAll(ge.msg, "-/", "- /") + " -/\ndef " + t.name + " : KM.Go.Untranslated := ⟨" + leanStr(ge.msg) + "⟩\n"
					}
				}()
				if t.in != "" {
					fd = p.funcs[t.in]
				}
				if fd == nil || fd.Body == nil {
					panic(glErr{"function " + t.name + t.in + " not found in " + t.pkg})
				}
				var file *ast.File
				for _, f := range p.files {
					if f.Pos() <= fd.Pos() && fd.End() <= f.End() {
						file = f
					}
				}
				c := &glCtx{p: p, e: e, t: t, file: file, known: known, usesExt: map[string]bool{}}
				if t.in != "" {
					text = c.block(fd)
				} else {
					text = c.function(fd)
				}
			}()
			src := ""
			if fd != nil && t.in == "" {
				src = p.str(fd)
			} else if t.in != "" {
				src = "block of " + t.in + ": from `" + t.blockFrom + "` up to `" + t.blockUpto + "`, then " + t.blockResult
				if t.blockUpto == "" {
					src = "tail of " + t.in + ": from `" + t.blockFrom + "` to the end of the function"
				}
			}
			b.WriteString("/- " + t.pkg + " " + t.name + " (" + status + ")\n   " + strings.ReplaceAll(src, "-/", "- /") + " -/\n")
			b.WriteString(text + "\n")
			known[t.name] = t
			facts[t.pkg+"."+t.name] = status
		}
		b.WriteString("end KM.Gen.Go" + g + "\n")
		e.lean("Go"+g+".lean", b.String())
	}
	e.facts["go2lean"] = facts
}
