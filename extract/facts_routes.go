package main

import (
	"fmt"
	"go/ast"
	"os"
	"path/filepath"
	"strings"
)

// Route table of main(): every Handle/HandleFunc registration with the structural
// facts of its handler (sealed guard, mask handed to checkAuth, admin gate).

type routeFact struct {
	Mux     string   `json:"mux"`
	Path    string   `json:"path"`
	Handler string   `json:"handler"`
	Cond    string   `json:"cond"`
	Sealed  bool     `json:"sealed_guard"`
	Masks   []string `json:"masks"`
	Admin   bool     `json:"admin_gate"`
	First   string   `json:"first_gate"` // which of sealed/auth comes first in the body
}

func init() { register("a-routes", genRoutes) }

func maskClass(p *pkgInfo, e ast.Expr) string {
	s := p.str(e)
	switch s {
	case "AuthTypeAny":
		return "any"
	case "state.getRequiredWebUIAuthLevel()":
		return "webui"
	case "state.getRequiredWebUIAuthLevel() | AuthTypeKeymasterX509", "state.getRequiredWebUIAuthLevel()|AuthTypeKeymasterX509":
		return "webuiKmx509"
	case "AuthTypeIPCertificate":
		return "ipcert"
	}
	return "unknown"
}

// analyseHandler collects gate facts of a handler body, inlining the known helper wrappers.
func analyseHandler(p *pkgInfo, fd *ast.FuncDecl, argMask string, depth int, rf *routeFact) {
	if fd == nil || fd.Body == nil || depth > 2 {
		return
	}
	ast.Inspect(fd.Body, func(n ast.Node) bool {
		switch x := n.(type) {
		case *ast.BinaryExpr:
			if s := p.str(x); s == "state.Signer == nil" {
				if rf.First == "" {
					rf.First = "sealed"
				}
				rf.Sealed = true
			}
		case *ast.CallExpr:
			se, ok := x.Fun.(*ast.SelectorExpr)
			if !ok {
				return true
			}
			switch se.Sel.Name {
			case "sendFailureToClientIfLocked":
				if rf.First == "" {
					rf.First = "sealed"
				}
				rf.Sealed = true
			case "checkAuth":
				if rf.First == "" {
					rf.First = "auth"
				}
				if len(x.Args) == 3 {
					m := maskClass(p, x.Args[2])
					if id, ok := x.Args[2].(*ast.Ident); ok && argMask != "" && isParam(fd, id.Name) {
						m = argMask
					}
					rf.Masks = appendUnique(rf.Masks, m)
				} else {
					rf.Masks = appendUnique(rf.Masks, "unknown")
				}
			case "sendFailureToClientIfNonAdmin":
				rf.Admin = true
				analyseHandler(p, p.funcs["sendFailureToClientIfNonAdmin"], "", depth+1, rf)
			case "commonTOTPPostHandler":
				m := "unknown"
				if len(x.Args) == 3 {
					m = maskClass(p, x.Args[2])
				}
				analyseHandler(p, p.funcs["commonTOTPPostHandler"], m, depth+1, rf)
			case "IsAdminUser":
				// admin test inside the handler itself is recorded by the C08 extractor
			}
		}
		return true
	})
}

func isParam(fd *ast.FuncDecl, name string) bool {
	for _, f := range fd.Type.Params.List {
		for _, n := range f.Names {
			if n.Name == name {
				return true
			}
		}
	}
	return false
}

func appendUnique(l []string, s string) []string {
	for _, x := range l {
		if x == s {
			return l
		}
	}
	return append(l, s)
}

func genRoutes(e *emitter) {
	p := e.pkg("cmd/keymasterd")
	protoP := e.pkg("lib/webapi/v0/proto")
	pathsP := e.pkg("lib/paths")
	evm := e.pkg("proto/eventmon")
	mainFn := p.funcs["main"]
	if mainFn == nil {
		fatal("main() not found")
	}
	resolvePath := func(x ast.Expr) string {
		if s, ok := p.evalStr(x); ok {
			return s
		}
		if se, ok := x.(*ast.SelectorExpr); ok {
			if id, ok := se.X.(*ast.Ident); ok {
				var q *pkgInfo
				switch id.Name {
				case "proto":
					q = protoP
				case "paths":
					q = pathsP
				case "eventmon":
					q = evm
				}
				if q != nil {
					if ce, ok := q.consts[se.Sel.Name]; ok {
						if s, ok := q.evalStr(ce); ok {
							return s
						}
					}
				}
			}
		}
		return "?" + p.str(x)
	}
	var routes []routeFact
	var walk func(n ast.Node, cond string)
	walk = func(n ast.Node, cond string) {
		ast.Inspect(n, func(m ast.Node) bool {
			if ifs, ok := m.(*ast.IfStmt); ok {
				if ifs.Init != nil {
					walk(ifs.Init, cond)
				}
				walk(ifs.Body, cond+"["+p.str(ifs.Cond)+"]")
				if ifs.Else != nil {
					walk(ifs.Else, cond+"[!"+p.str(ifs.Cond)+"]")
				}
				return false
			}
			if _, ok := m.(*ast.FuncLit); ok {
				return false
			}
			ce, ok := m.(*ast.CallExpr)
			if !ok {
				return true
			}
			se, ok := ce.Fun.(*ast.SelectorExpr)
			if !ok || (se.Sel.Name != "HandleFunc" && se.Sel.Name != "Handle") || len(ce.Args) != 2 {
				return true
			}
			mux := "admin"
			if p.str(se.X) == "serviceMux" {
				mux = "service"
			} else if p.str(se.X) != "http" {
				mux = "?" + p.str(se.X)
			}
			rf := routeFact{Mux: mux, Path: resolvePath(ce.Args[0]), Cond: cond}
			h := p.str(ce.Args[1])
			switch {
			case strings.HasPrefix(h, "runtimeState."):
				rf.Handler = strings.TrimPrefix(h, "runtimeState.")
				analyseHandler(p, p.funcs[rf.Handler], "", 0, &rf)
				if p.funcs[rf.Handler] == nil {
					rf.Handler = "?" + rf.Handler
				}
			case strings.Contains(h, "http.FileServer"):
				rf.Handler = "static-files"
			case h == "promhttp.Handler()":
				rf.Handler = "prometheus"
			case h == "adminDashboard":
				rf.Handler = "adminDashboard"
			case h == "eventNotifier":
				rf.Handler = "eventNotifier"
			default:
				rf.Handler = "?" + h
			}
			routes = append(routes, rf)
			return true
		})
	}
	walk(mainFn.Body, "")
	var b strings.Builder
	b.WriteString("import KM.Model.SiteTypes\nnamespace KM.Gen\nopen KM.Site\n\n")
	b.WriteString("/-- every `Handle`/`HandleFunc` registration of main(), with the gate facts of its handler -/\n")
	b.WriteString("def routes : List Route := [\n")
	for i, r := range routes {
		sep := ","
		if i == len(routes)-1 {
			sep = ""
		}
		var ms []string
		for _, m := range r.Masks {
			ms = append(ms, "Mask."+m)
		}
		fmt.Fprintf(&b, "  { service := %s, path := %s.toList, handler := %s.toList, conditional := %s, sealedGuard := %s, sealedFirst := %s, masks := [%s], adminGate := %s }%s\n",
			leanBool(r.Mux == "service"), leanStr(r.Path), leanStr(r.Handler), leanBool(r.Cond != ""),
			leanBool(r.Sealed), leanBool(r.First == "sealed" || r.First == ""), strings.Join(ms, ", "), leanBool(r.Admin), sep)
	}
	b.WriteString("]\n\nend KM.Gen\n")
	e.lean("Routes.lean", b.String())
	e.facts["routes"] = routes
	// harness glue: path -> method value of the current route table (service port handlers only)
	var g strings.Builder
	g.WriteString("// GENERATED by /verif/extract from main() of the current working tree.\npackage main\n\nimport \"net/http\"\n\n")
	g.WriteString("type vfRoute struct {\n\tpath string\n\tservice bool\n\th http.HandlerFunc\n}\n\n")
	g.WriteString("func vfRouteTable(state *RuntimeState) []vfRoute {\n\treturn []vfRoute{\n")
	for _, r := range routes {
		if strings.HasPrefix(r.Handler, "?") || p.funcs[r.Handler] == nil {
			continue
		}
		fmt.Fprintf(&g, "\t\t{%q, %v, state.%s},\n", r.Path, r.Mux == "service", r.Handler)
	}
	g.WriteString("\t}\n}\n")
	os.WriteFile(filepath.Join(e.outDir, "routes_glue_test.go"), []byte(g.String()), 0644)
}
