package main

func genRoutes(e *emitter, p *pkgInfo, repo string) {}
func genSites(e *emitter, p *pkgInfo, repo string)  {}
