package main

// Functions of /repo translated to Lean by go2lean on every run, with the little configuration the
// translator needs: what replaces the receiver, which selector chains stand for which Lean term,
// which calls are externals (fields of the `ext` parameter whose assumed behaviour is recorded in the
// trusted base), and the Lean result type.  Structures and `Ext` records live in
// lean/KM/Model/GoTypes.lean.

var urlExterns = map[string]glExtern{
	"url.Parse":             {"ext.urlParse", []string{"*url.URL", "error"}},
	"regexp.MatchString":    {"ext.reMatch", []string{"bool", "error"}},
	"*url.URL.Scheme":       {"KM.GoTypes.urlScheme", []string{"string"}},
	"*url.URL.RawQuery":     {"KM.GoTypes.urlRawQuery", []string{"string"}},
	"*url.URL.Path":         {"KM.GoTypes.urlPath", []string{"string"}},
	"*url.URL.Hostname()":   {"KM.GoTypes.urlHostname", []string{"string"}},
}

func init() {
	glTargets = append(glTargets,
		// C17
		glTarget{pkg: "cmd/keymasterd", name: "isSafeLoginDestination", group: "LoginDest", retLean: "Bool"},
		glTarget{pkg: "cmd/keymasterd", name: "getLoginDestination", group: "LoginDest",
			binders:   "(formValue : List Char)",
			paramLean: map[string]string{"r": ""},
			paths: map[string][2]string{
				"r.FormValue(\"login_destination\")": {"formValue", "string"},
				"r.Form.Get(\"login_destination\")":  {"formValue", "string"},
				"profilePath":                         {"\"/profile/\".toList", "string"}},
			retLean: "List Char"},
		// C13
		glTarget{pkg: "cmd/keymasterd", name: "hostMatchesDomain", group: "Oidc", retLean: "Bool"},
		glTarget{pkg: "cmd/keymasterd", name: "CanRedirectToURL", group: "Oidc",
			binders: "(ext : KM.GoTypes.UrlExt) (client : KM.GoTypes.OpenIDConnectClientConfig)",
			retLean: "Bool × Option KM.GoTypes.URL × Option KM.Go.Err", externs: urlExterns},
		glTarget{pkg: "cmd/keymasterd", name: "CorsOriginAllowed", group: "Oidc",
			binders: "(ext : KM.GoTypes.UrlExt) (client : KM.GoTypes.OpenIDConnectClientConfig)",
			retLean: "Bool × Option KM.Go.Err", externs: urlExterns},
		glTarget{pkg: "cmd/keymasterd", name: "idpOpenIDCGenericIsCorsOriginAllowed", group: "Oidc",
			binders: "(ext : KM.GoTypes.UrlExt) (clients : List KM.GoTypes.OpenIDConnectClientConfig)",
			paths:   map[string][2]string{"state.Config.OpenIDConnectIDP.Client": {"clients", "[]OpenIDConnectClientConfig"}},
			retLean: "Bool × Option KM.Go.Err", externs: urlExterns},
		glTarget{pkg: "cmd/keymasterd", name: "ValidClientSecret", group: "Oidc",
			binders: "(client : KM.GoTypes.OpenIDConnectClientConfig)", retLean: "Bool"},
		glTarget{pkg: "cmd/keymasterd", name: "ClientCanDoPKCEAuth", group: "Oidc",
			binders: "(client : KM.GoTypes.OpenIDConnectClientConfig)", retLean: "Bool × Option KM.Go.Err"},
		glTarget{pkg: "cmd/keymasterd", name: "idpOpenIDCGetClientConfig", group: "Oidc",
			binders: "(clients : List KM.GoTypes.OpenIDConnectClientConfig)",
			paths: map[string][2]string{
				"state.Config.OpenIDConnectIDP.Client": {"clients", "[]OpenIDConnectClientConfig"},
				"ErrorIDPClientNotFound":               {"(some \"client not found\".toList)", "error"}},
			retLean: "Option KM.GoTypes.OpenIDConnectClientConfig × Option KM.Go.Err"},
		// C08
		glTarget{pkg: "cmd/keymasterd", name: "isAutomationAdmin", group: "Admin",
			binders: "(isAdminUser : List Char → Bool) (automationAdmins : List (List Char))",
			paths: map[string][2]string{
				"state.IsAdminUser(user)":            {"(isAdminUser user)", "bool"},
				"state.Config.Base.AutomationAdmins": {"automationAdmins", "[]string"}},
			retLean: "Bool"},
		glTarget{pkg: "cmd/keymasterd", name: "isAutomationUser", group: "Admin",
			binders: "(getUserGroups : List Char → List (List Char) × Option KM.Go.Err) (automationUsers automationUserGroups : List (List Char))",
			paths: map[string][2]string{
				"state.Config.Base.AutomationUsers":      {"automationUsers", "[]string"},
				"state.Config.Base.AutomationUserGroups": {"automationUserGroups", "[]string"}},
			externs: map[string]glExtern{"state.getUserGroups": {"getUserGroups", []string{"[]string", "error"}}},
			retLean: "Bool × Option KM.Go.Err"},
		// C01: the level test of certGenHandler (the statements between the credential check and the refusal)
		glTarget{pkg: "cmd/keymasterd", name: "certgenSufficientAuthLevel", group: "CertGen", natInts: true,
			in: "certGenHandler", blockFrom: "sufficientAuthLevel := false", blockUpto: "if !sufficientAuthLevel",
			blockResult: "sufficientAuthLevel", blockResGo: "bool",
			binders: "(allowedForCerts : List (List Char)) (authType : Nat)",
			paths: map[string][2]string{
				"state.Config.Base.AllowedAuthBackendsForCerts": {"allowedForCerts", "[]string"},
				"authData.AuthType":                             {"authType", "int"}},
			retLean: "Bool"},
		// C01 / C06
		glTarget{pkg: "cmd/keymasterd", name: "getRequiredWebUIAuthLevel", group: "Auth",
			binders: "(allowedWebUI : List (List Char))", natInts: true,
			paths:   map[string][2]string{"state.Config.Base.AllowedAuthBackendsForWebUI": {"allowedWebUI", "[]string"}},
			retLean: "Nat"},
	)
}
