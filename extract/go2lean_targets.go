package main

// Functions of /repo translated to Lean by go2lean on every run, with the little configuration the
// translator needs: what replaces the receiver, which selector chains stand for which Lean term,
// which calls are externals (fields of the `ext` parameter whose assumed behaviour is recorded in the
// trusted base), and the Lean result type.  Structures and `Ext` records live in
// lean/KM/Model/GoTypes.lean.

var urlExterns = map[string]glExtern{
	"url.Parse":           {lean: "ext.urlParse", ret: []string{"*url.URL", "error"}},
	"regexp.MatchString":  {lean: "ext.reMatch", ret: []string{"bool", "error"}},
	"*url.URL.Scheme":     {lean: "KM.GoTypes.urlScheme", ret: []string{"string"}},
	"*url.URL.RawQuery":   {lean: "KM.GoTypes.urlRawQuery", ret: []string{"string"}},
	"*url.URL.Path":       {lean: "KM.GoTypes.urlPath", ret: []string{"string"}},
	"*url.URL.Hostname()": {lean: "KM.GoTypes.urlHostname", ret: []string{"string"}},
}

func init() {
	glTargets = append(glTargets,
		// C17
		glTarget{pkg: "cmd/keymasterd", name: "isSafeLoginDestination", group: "LoginDest", retLean: "Bool"},
		glTarget{pkg: "cmd/keymasterd", name: "getLoginDestination", group: "LoginDest",
			binders:   "(formValue : List Char)",
			paramLean: map[string]string{"r": ""},
			paths: map[string][2]string{
				"r.FormValue(\"login_destination\")": {"formValue", "string"},
				"r.Form.Get(\"login_destination\")":  {"formValue", "string"},
				"profilePath":                        {"\"/profile/\".toList", "string"}},
			retLean: "List Char"},
		// C13
		glTarget{pkg: "cmd/keymasterd", name: "hostMatchesDomain", group: "Oidc", retLean: "Bool"},
		glTarget{pkg: "cmd/keymasterd", name: "CanRedirectToURL", group: "Oidc",
			binders: "(ext : KM.GoTypes.UrlExt) (client : KM.GoTypes.OpenIDConnectClientConfig)",
			retLean: "Bool × Option KM.GoTypes.URL × Option KM.Go.Err", externs: urlExterns},
		glTarget{pkg: "cmd/keymasterd", name: "CorsOriginAllowed", group: "Oidc",
			binders: "(ext : KM.GoTypes.UrlExt) (client : KM.GoTypes.OpenIDConnectClientConfig)",
			retLean: "Bool × Option KM.Go.Err", externs: urlExterns},
		glTarget{pkg: "cmd/keymasterd", name: "idpOpenIDCGenericIsCorsOriginAllowed", group: "Oidc",
			binders: "(ext : KM.GoTypes.UrlExt) (clients : List KM.GoTypes.OpenIDConnectClientConfig)",
			paths:   map[string][2]string{"state.Config.OpenIDConnectIDP.Client": {"clients", "[]OpenIDConnectClientConfig"}},
			retLean: "Bool × Option KM.Go.Err", externs: urlExterns},
		glTarget{pkg: "cmd/keymasterd", name: "ValidClientSecret", group: "Oidc",
			binders: "(client : KM.GoTypes.OpenIDConnectClientConfig)", retLean: "Bool"},
		glTarget{pkg: "cmd/keymasterd", name: "ClientCanDoPKCEAuth", group: "Oidc",
			binders: "(client : KM.GoTypes.OpenIDConnectClientConfig)", retLean: "Bool × Option KM.Go.Err"},
		glTarget{pkg: "cmd/keymasterd", name: "idpOpenIDCGetClientConfig", group: "Oidc",
			binders: "(clients : List KM.GoTypes.OpenIDConnectClientConfig)",
			paths: map[string][2]string{
				"state.Config.OpenIDConnectIDP.Client": {"clients", "[]OpenIDConnectClientConfig"},
				"ErrorIDPClientNotFound":               {"(some \"client not found\".toList)", "error"}},
			retLean: "Option KM.GoTypes.OpenIDConnectClientConfig × Option KM.Go.Err"},
		// C07: lib/pwauth/ldap passwordAuthenticate — the directory loop, the refresh/evict call, the offline fallback
		glTarget{pkg: "lib/pwauth/ldap", name: "passwordAuthenticate", group: "PwAuth",
			binders:   "{σ : Type} (ext : KM.GoTypes.LdapExt σ) (servers : List σ) (patterns : List (List Char)) (hasStorage : Bool)",
			paramGo:   map[string]string{"password": "string"},
			traceLean: "KM.GoTypes.PwEffect",
			paths: map[string][2]string{
				"pa.ldapURL":        {"servers", "[]*Server"},
				"pa.bindPattern":    {"patterns", "[]string"},
				"pa.logger != nil":  {"true", "bool"},
				"pa.storage != nil": {"hasStorage", "bool"}},
			externs: map[string]glExtern{
				"convertToBindDN":                       {lean: "ext.bindDN", ret: []string{"string"}},
				"authutil.CheckLDAPUserPassword":        {lean: "ext.checkLDAP", ret: []string{"bool", "error"}, args: []int{0, 1, 2}},
				"pa.updateOrDeletePasswordHash":         {lean: "ext.updateResult", ret: []string{"error"}, effect: "KM.GoTypes.PwEffect.update"},
				"pa.storage.GetSigned":                  {lean: "ext.getSigned", ret: []string{"bool", "string", "error"}},
				"authutil.Argon2CompareHashAndPassword": {lean: "ext.argon2Compare", ret: []string{"error"}}},
			retLean: "(Bool × Option KM.Go.Err) × List KM.GoTypes.PwEffect"},
		glTarget{pkg: "lib/pwauth/ldap", name: "updateOrDeletePasswordHash", group: "PwAuth",
			binders:   "(ext : KM.GoTypes.HashStoreExt) (hasStorage : Bool) (expiresAt : Int)",
			paramGo:   map[string]string{"password": "string"},
			traceLean: "KM.GoTypes.StoreEffect",
			paths: map[string][2]string{
				"pa.storage == nil":                     {"(!hasStorage)", "bool"},
				"pa.logger != nil":                      {"true", "bool"},
				"time.Now().Add(pa.expirationDuration)": {"expiresAt", "int"},
				"Expiration.Unix()":                     {"Expiration", "int"}},
			externs: map[string]glExtern{
				"authutil.Argon2MakeNewHash":            {lean: "ext.newHash", ret: []string{"string", "error"}},
				"pa.storage.UpsertSigned":               {lean: "ext.upsertResult", ret: []string{"error"}, effect: "KM.GoTypes.StoreEffect.upsert"},
				"pa.storage.GetSigned":                  {lean: "ext.getSigned", ret: []string{"bool", "string", "error"}},
				"authutil.Argon2CompareHashAndPassword": {lean: "ext.argon2Compare", ret: []string{"error"}},
				"pa.storage.DeleteSigned":               {lean: "ext.deleteResult", ret: []string{"error"}, effect: "KM.GoTypes.StoreEffect.delete"}},
			retLean: "Option KM.Go.Err × List KM.GoTypes.StoreEffect"},
		// C10: lib/certgen ValidatePublicKeyStrength — a type switch over the key's dynamic type
		glTarget{pkg: "lib/certgen", name: "ValidatePublicKeyStrength", group: "Certgen",
			paramLean: map[string]string{"pub": "KM.GoTypes.PubKey"},
			typeCases: map[string]glTypeCase{
				"*rsa.PublicKey": {pattern: ".rsa bits e", bind: map[string][2]string{
					"k.N.BitLen()": {"bits", "int"}, "k.E": {"e", "int"}}},
				"*ecdsa.PublicKey": {pattern: ".ecdsa bitSize", bind: map[string][2]string{
					"k.Curve.Params().BitSize": {"bitSize", "int"}}},
				"*ed25519.PublicKey": {pattern: ".ed25519"},
				"ed25519.PublicKey":  {pattern: ".ed25519"}},
			retLean: "Bool × Option KM.Go.Err"},
		// C12: the RFC 7636 §4.6 switch of idpOpenIDCValidCodeVerifier (tail block)
		glTarget{pkg: "cmd/keymasterd", name: "codeVerifierMethodCheck", group: "Oidc",
			in: "idpOpenIDCValidCodeVerifier", blockFrom: "switch protectedData.CodeChallengeMethod",
			binders: "(s256 : List Char → List Char) (protectedData : KM.GoTypes.keymasterdIDPCodeProtectedData) (codeVerifier : List Char)",
			paths: map[string][2]string{
				"protectedData.CodeChallengeMethod":            {"protectedData.CodeChallengeMethod", "string"},
				"protectedData.CodeChallenge":                  {"protectedData.CodeChallenge", "string"},
				"codeVerifier":                                 {"codeVerifier", "string"},
				"sha256.Sum256([]byte(codeVerifier))":          {"()", "unit"},
				"base64.RawURLEncoding.EncodeToString(sum[:])": {"(s256 codeVerifier)", "string"}},
			retLean: "Bool"},
		// C14 / C05: validateUserTOTP — spacing, lock-out, one-time use; map writes and the profile save are effects
		glTarget{pkg: "cmd/keymasterd", name: "validateUserTOTP", group: "Totp",
			binders:   "(ext : KM.GoTypes.TotpExt) (now : Int) (rate0 : KM.GoTypes.totpRateLimitInfo)",
			paramLean: map[string]string{"t": "Int"},
			paramGo:   map[string]string{"t": "int"},
			traceLean: "KM.GoTypes.TotpEffect",
			stores:    map[string]string{"state.totpLocalRateLimit[username]": "KM.GoTypes.TotpEffect.storeRate"},
			paths: map[string][2]string{
				"state.totpLocalRateLimit[username]": {"rate0", "totpRateLimitInfo"},
				"userRateLimit.lastCheckTime.Add(time.Second * time.Duration(minSecsBetweenTOTPValidations)).After(time.Now())": {
					"(decide (userRateLimit.lastCheckTime + (2 : Int) > now))", "bool"},
				"time.Now()": {"now", "int"},
				"userRateLimit.lockoutExpirationTime.After(time.Now())": {"(decide (userRateLimit.lockoutExpirationTime > now))", "bool"},
				"userRateLimit.lastFailTime.Add(time.Duration(numHoursForLocalTOTPRateLimitReset) * time.Hour).Before(time.Now())": {
					"(decide (userRateLimit.lastFailTime + (24 : Int) * 3600 < now))", "bool"},
				"int64(math.Floor(float64(t.Unix()) / float64(defaultPeriod)))": {"(t / 30)", "int"},
				"fmt.Sprintf(\"%06d\", OTPValue)":                               {"(ext.otpString OTPValue)", "string"},
				"profile.TOTPAuthData":                                          {"profile.TOTPAuthData", "[]totpAuthData"},
				"string(clearTextKey)":                                          {"clearTextKey", "string"},
				"time.Now().Add(time.Duration(userRateLimit.failCount/numFailedTOTPChecksForTimeoutIncrease) * time.Hour)": {
					"(now + (Int.tdiv userRateLimit.failCount 5) * 3600)", "int"}},
			externs: map[string]glExtern{
				"state.totpLocalTateLimitMutex.Lock":   {lean: "()", ret: []string{}, args: []int{}, effect: "KM.GoTypes.TotpEffect.lock"},
				"state.totpLocalTateLimitMutex.Unlock": {lean: "()", ret: []string{}, args: []int{}, effect: "KM.GoTypes.TotpEffect.unlock"},
				"state.LoadUserProfile":                {lean: "ext.loadProfile", ret: []string{"userProfile", "bool", "bool", "error"}},
				"state.decryptWithPublicKeys":          {lean: "ext.decrypt", ret: []string{"string", "error"}},
				"totpMatchedCounter":                   {lean: "ext.matched", ret: []string{"int", "bool"}, effect: "KM.GoTypes.TotpEffect.eval"},
				"state.SaveUserProfile":                {lean: "ext.saveResult", ret: []string{"error"}, effect: "KM.GoTypes.TotpEffect.saveProfile"}},
			retLean: "(Bool × Option KM.Go.Err) × List KM.GoTypes.TotpEffect"},
		// C16 / C05: consumeLoginChallenge — compare and remove the pending hardware-token challenge under one lock
		glTarget{pkg: "cmd/keymasterd", name: "consumeLoginChallenge", group: "Chal",
			binders:   "(stored : KM.GoTypes.localUserData × Bool)",
			paramLean: map[string]string{"used": "KM.GoTypes.localUserData"},
			traceLean: "KM.GoTypes.ChalEffect",
			paths: map[string][2]string{
				"state.localAuthData[username]": {"stored", "localUserData,bool"}},
			externs: map[string]glExtern{
				"state.Mutex.Lock":   {lean: "()", ret: []string{}, args: []int{}, effect: "KM.GoTypes.ChalEffect.lock"},
				"state.Mutex.Unlock": {lean: "()", ret: []string{}, args: []int{}, effect: "KM.GoTypes.ChalEffect.unlock"},
				"delete":             {lean: "()", ret: []string{}, args: []int{1}, effect: "KM.GoTypes.ChalEffect.delete"}},
			retLean: "Bool × List KM.GoTypes.ChalEffect"},
		// C05: VIPPollCheckHandler — the whole handler; responses, the question to VIP and the cookie upgrade are effects
		glTarget{pkg: "cmd/keymasterd", name: "VIPPollCheckHandler", group: "Vip", natInts: true,
			binders:   "(ext : KM.GoTypes.VipPollExt) (vipEnabled : Bool) (method : List Char)",
			paramLean: map[string]string{"w": "", "r": ""},
			traceLean: "KM.GoTypes.PollEffect",
			paths: map[string][2]string{
				"state.Config.SymantecVIP.Enabled": {"vipEnabled", "bool"},
				"r.Method":                         {"method", "string"},
				"AuthTypeAny":                      {"(65535 : Nat)", "int"},
				"vipPollCookie.Value":              {"vipPollCookie", "string"},
				"pushTransaction.ExpiresAt.Before(time.Now())": {"(ext.expired pushTransaction)", "bool"},
				"http.StatusBadRequest":                        {"(400 : Nat)", "int"},
				"http.StatusMethodNotAllowed":                  {"(405 : Nat)", "int"},
				"http.StatusPreconditionFailed":                {"(412 : Nat)", "int"},
				"http.StatusInternalServerError":               {"(500 : Nat)", "int"},
				"http.StatusOK":                                {"(200 : Nat)", "int"}},
			externs: map[string]glExtern{
				"state.sendFailureToClientIfLocked": {lean: "ext.locked", ret: []string{"bool"}, args: []int{}},
				"r.ParseForm":                       {lean: "ext.parseForm", ret: []string{"error"}, args: []int{}},
				"state.checkAuth":                   {lean: "ext.checkAuth", ret: []string{"authInfo", "error"}, args: []int{2}},
				"r.Cookie":                          {lean: "ext.pollCookie", ret: []string{"string", "error"}, args: []int{}},
				"state.getPushPollTransaction":      {lean: "ext.transaction", ret: []string{"pushPollTransaction", "bool"}},
				"state.Config.SymantecVIP.Client.VipPushHasBeenApproved": {lean: "ext.approved", ret: []string{"bool", "error"}, effect: "KM.GoTypes.PollEffect.askVip"},
				"state.updateAuthCookieAuthlevel":                        {lean: "ext.upgradeResult", ret: []string{"string", "error"}, args: []int{2, 3}, effect: "KM.GoTypes.PollEffect.upgrade"},
				"state.writeFailureResponse":                             {lean: "()", ret: []string{}, args: []int{2}, effect: "KM.GoTypes.PollEffect.fail"},
				"eventNotifier.PublishVIPAuthEvent":                      {lean: "()", ret: []string{}, args: []int{1}, effect: "KM.GoTypes.PollEffect.publish"},
				"w.WriteHeader":                                          {lean: "()", ret: []string{}, effect: "KM.GoTypes.PollEffect.status"}},
			retLean: "Unit × List KM.GoTypes.PollEffect"},
		// C09 / C06 / C08: the two gate helpers most handlers start with, and the admin+U2F predicate
		glTarget{pkg: "cmd/keymasterd", name: "sendFailureToClientIfLocked", group: "Gate",
			binders:   "(signerNil : Bool)",
			paramLean: map[string]string{"w": "", "r": ""},
			traceLean: "KM.GoTypes.GateEffect",
			paths: map[string][2]string{
				"(state.Signer == nil)":          {"signerNil", "bool"},
				"http.StatusInternalServerError": {"(500 : Nat)", "int"}},
			externs: map[string]glExtern{
				"state.Mutex.Lock":           {lean: "()", ret: []string{}, args: []int{}, effect: "KM.GoTypes.GateEffect.lock"},
				"state.Mutex.Unlock":         {lean: "()", ret: []string{}, args: []int{}, effect: "KM.GoTypes.GateEffect.unlock"},
				"setSecurityHeaders":         {lean: "()", ret: []string{}, args: []int{}, effect: "KM.GoTypes.GateEffect.securityHeaders"},
				"state.writeFailureResponse": {lean: "()", ret: []string{}, args: []int{2}, effect: "KM.GoTypes.GateEffect.fail"}},
			retLean: "Bool × List KM.GoTypes.GateEffect"},
		glTarget{pkg: "cmd/keymasterd", name: "sendFailureToClientIfNonAdmin", group: "Gate", natInts: true,
			binders:   "(ext : KM.GoTypes.AdminGateExt) (webUILevel : Nat)",
			paramLean: map[string]string{"w": "", "r": ""},
			traceLean: "KM.GoTypes.GateEffect",
			paths: map[string][2]string{
				"state.getRequiredWebUIAuthLevel()": {"webUILevel", "int"},
				"http.StatusUnauthorized":           {"(401 : Nat)", "int"}},
			externs: map[string]glExtern{
				"state.sendFailureToClientIfLocked": {lean: "ext.locked", ret: []string{"bool"}, args: []int{}},
				"state.checkAuth":                   {lean: "ext.checkAuth", ret: []string{"authInfo", "error"}, args: []int{2}},
				"state.IsAdminUser":                 {lean: "ext.isAdmin", ret: []string{"bool"}},
				"state.writeFailureResponse":        {lean: "()", ret: []string{}, args: []int{2}, effect: "KM.GoTypes.GateEffect.fail"}},
			retLean: "(Bool × Option KM.GoTypes.authInfo) × List KM.GoTypes.GateEffect"},
		glTarget{pkg: "cmd/keymasterd", name: "IsAdminUserAndU2F", group: "Gate", natInts: true,
			binders: "(isAdmin : List Char → Bool)",
			paths:   map[string][2]string{"state.IsAdminUser(user)": {"(isAdmin user)", "bool"}},
			retLean: "Bool"},
		// C05: BootstrapOtpAuthHandler from the profile load to the cookie upgrade (block; the OTP hash comparison is external)
		glTarget{pkg: "cmd/keymasterd", name: "bootstrapOtpCore", group: "Boot", natInts: true,
			in: "BootstrapOtpAuthHandler", blockFrom: "profile, _, fromCache, err := state.LoadUserProfile(authData.Username)",
			blockUpto: "returnAcceptType := getPreferredAcceptType(r)", blockReach: "KM.GoTypes.BootEffect.reached",
			binders:   "(ext : KM.GoTypes.BootExt) (authData : KM.GoTypes.authInfo)",
			traceLean: "KM.GoTypes.BootEffect",
			ignore:    []string{"copy"},
			paths: map[string][2]string{
				"authData":                 {"authData", "authInfo"},
				"len(requiredOtpHash) < 1": {"(ext.noHash requiredOtpHash)", "bool"},
				"subtle.ConstantTimeCompare(inputOtpHash[:], requiredOtpHash) != 1": {"(!(ext.hashMatches requiredOtpHash))", "bool"},
				"bootstrapOTPData{}":             {"(0 : Nat)", "bootstrapOTPData"},
				"http.StatusInternalServerError": {"(500 : Nat)", "int"},
				"http.StatusServiceUnavailable":  {"(503 : Nat)", "int"},
				"http.StatusPreconditionFailed":  {"(412 : Nat)", "int"},
				"http.StatusUnauthorized":        {"(401 : Nat)", "int"}},
			externs: map[string]glExtern{
				"state.LoadUserProfile":           {lean: "ext.loadProfile", ret: []string{"userProfile", "bool", "bool", "error"}},
				"state.userBootstrapOtpHash":      {lean: "ext.storedHash", ret: []string{"hash"}},
				"state.SaveUserProfile":           {lean: "ext.saveResult", ret: []string{"error"}, effect: "KM.GoTypes.BootEffect.saveProfile"},
				"state.updateAuthCookieAuthlevel": {lean: "ext.upgradeResult", ret: []string{"string", "error"}, args: []int{2, 3}, effect: "KM.GoTypes.BootEffect.upgrade"},
				"state.writeFailureResponse":      {lean: "()", ret: []string{}, args: []int{2}, effect: "KM.GoTypes.BootEffect.fail"}},
			retLean: "Unit × List KM.GoTypes.BootEffect"},
		// C05: internalTOTPAuthHandler up to the response (block): validate, then raise
		glTarget{pkg: "cmd/keymasterd", name: "totpAuthCore", group: "Boot", natInts: true,
			in: "internalTOTPAuthHandler", blockFrom: "valid, err := state.validateUserTOTP(authUser, otpValue, time.Now())",
			blockUpto: "returnAcceptType := getPreferredAcceptType(r)", blockReach: "KM.GoTypes.BootEffect.reached",
			binders:   "(ext : KM.GoTypes.TotpAuthExt) (authUser : List Char) (currentAuthLevel : Nat) (otpValue : Int)",
			traceLean: "KM.GoTypes.BootEffect",
			paths: map[string][2]string{
				"authUser":                       {"authUser", "string"},
				"currentAuthLevel":               {"currentAuthLevel", "int"},
				"otpValue":                       {"otpValue", "int"},
				"http.StatusInternalServerError": {"(500 : Nat)", "int"},
				"http.StatusUnauthorized":        {"(401 : Nat)", "int"}},
			externs: map[string]glExtern{
				"state.validateUserTOTP":          {lean: "ext.validate", ret: []string{"bool", "error"}, args: []int{0, 1}},
				"state.updateAuthCookieAuthlevel": {lean: "ext.upgradeResult", ret: []string{"string", "error"}, args: []int{2, 3}, effect: "KM.GoTypes.BootEffect.upgrade"},
				"state.writeFailureResponse":      {lean: "()", ret: []string{}, args: []int{2}, effect: "KM.GoTypes.BootEffect.fail"}},
			retLean: "Unit × List KM.GoTypes.BootEffect"},
		// C09: unsealCA — the whole injection step under the mutex
		glTarget{pkg: "cmd/keymasterd", name: "unsealCA", group: "Seal",
			binders:   "(ext : KM.GoTypes.SealExt) (signerSet : Bool) (hasEdFile : Bool)",
			paramGo:   map[string]string{"password": "string"},
			paramLean: map[string]string{"clientName": ""},
			traceLean: "KM.GoTypes.SealEffect",
			stores:    map[string]string{"state.SignerIsReady": "KM.GoTypes.SealEffect.ready"},
			paths: map[string][2]string{
				"state.Signer != nil": {"signerSet", "bool"},
				"state.Signer == nil": {"(!signerSet)", "bool"},
				"state.Ed25519CAFileContent != nil && len(state.Ed25519CAFileContent) > 0": {"hasEdFile", "bool"},
				"state.SSHCARawFileContent":  {"KM.GoTypes.KeyFile.main", "keyfile"},
				"state.Ed25519CAFileContent": {"KM.GoTypes.KeyFile.ed25519", "keyfile"}},
			externs: map[string]glExtern{
				"state.Mutex.Lock":                     {lean: "()", ret: []string{}, args: []int{}, effect: "KM.GoTypes.SealEffect.lock"},
				"state.Mutex.Unlock":                   {lean: "()", ret: []string{}, args: []int{}, effect: "KM.GoTypes.SealEffect.unlock"},
				"pgpDecryptFileData":                   {lean: "ext.decrypt", ret: []string{"string", "error"}},
				"state.loadSignersFromPemData":         {lean: "ext.loadResult", ret: []string{"error"}, effect: "KM.GoTypes.SealEffect.loadSigners"},
				"state.signerPublicKeyToKeymasterKeys": {lean: "()", ret: []string{}, args: []int{}, effect: "KM.GoTypes.SealEffect.publishKeys"}},
			retLean: "Option KM.Go.Err × List KM.GoTypes.SealEffect"},
		// C08
		glTarget{pkg: "cmd/keymasterd", name: "isAutomationAdmin", group: "Admin",
			binders: "(isAdminUser : List Char → Bool) (automationAdmins : List (List Char))",
			paths: map[string][2]string{
				"state.IsAdminUser(user)":            {"(isAdminUser user)", "bool"},
				"state.Config.Base.AutomationAdmins": {"automationAdmins", "[]string"}},
			retLean: "Bool"},
		glTarget{pkg: "cmd/keymasterd", name: "IsAdminUser", group: "Admin",
			binders:   "(ext : KM.GoTypes.AdminCacheExt)",
			traceLean: "KM.GoTypes.AdminEffect",
			externs: map[string]glExtern{
				"state.isAdminCache.Get": {lean: "ext.cacheGet", ret: []string{"bool", "bool"}},
				"state._IsAdminUser":     {lean: "ext.lookup", ret: []string{"bool", "error"}, effect: "KM.GoTypes.AdminEffect.lookup"},
				"state.isAdminCache.Put": {lean: "()", ret: []string{}, effect: "KM.GoTypes.AdminEffect.put"}},
			retLean: "Bool × List KM.GoTypes.AdminEffect"},
		glTarget{pkg: "cmd/keymasterd", name: "isAutomationUser", group: "Admin",
			binders: "(getUserGroups : List Char → List (List Char) × Option KM.Go.Err) (automationUsers automationUserGroups : List (List Char))",
			paths: map[string][2]string{
				"state.Config.Base.AutomationUsers":      {"automationUsers", "[]string"},
				"state.Config.Base.AutomationUserGroups": {"automationUserGroups", "[]string"}},
			externs: map[string]glExtern{"state.getUserGroups": {lean: "getUserGroups", ret: []string{"[]string", "error"}}},
			retLean: "Bool × Option KM.Go.Err"},
		// C01: the level test of certGenHandler (the statements between the credential check and the refusal)
		glTarget{pkg: "cmd/keymasterd", name: "certgenSufficientAuthLevel", group: "CertGen", natInts: true,
			in: "certGenHandler", blockFrom: "sufficientAuthLevel := false", blockUpto: "if !sufficientAuthLevel",
			blockResult: "sufficientAuthLevel", blockResGo: "bool",
			binders: "(allowedForCerts : List (List Char)) (authType : Nat)",
			paths: map[string][2]string{
				"state.Config.Base.AllowedAuthBackendsForCerts": {"allowedForCerts", "[]string"},
				"authData.AuthType":                             {"authType", "int"}},
			retLean: "Bool"},
		// C06 / C04: the session-cookie tail of checkAuth — verify, expiry, mask, each refusal one 401
		glTarget{pkg: "cmd/keymasterd", name: "checkAuthCookieTail", group: "Auth", natInts: true,
			in: "checkAuth", blockFrom: "info, err := state.getAuthInfoFromAuthJWT(authCookie.Value)",
			binders:   "(ext : KM.GoTypes.CookieExt) (cookieValue : List Char) (requiredAuthType : Nat)",
			traceLean: "KM.GoTypes.HttpEffect",
			paths: map[string][2]string{
				"authCookie.Value":                  {"cookieValue", "string"},
				"requiredAuthType":                  {"requiredAuthType", "int"},
				"info.ExpiresAt.Before(time.Now())": {"(ext.expired info)", "bool"},
				"http.StatusUnauthorized":           {"(401 : Nat)", "int"}},
			externs: map[string]glExtern{
				"state.getAuthInfoFromAuthJWT": {lean: "ext.getAuthInfo", ret: []string{"authInfo", "error"}},
				"state.writeFailureResponse":   {lean: "ext.unit", ret: []string{}, args: []int{2}, effect: "KM.GoTypes.HttpEffect.fail"}},
			retLean: "(Option KM.GoTypes.authInfo × Option KM.Go.Err) × List KM.GoTypes.HttpEffect"},
		// C01: the gates of certGenHandler in program order, each refusal an effect, up to the method test
		glTarget{pkg: "cmd/keymasterd", name: "certgenGates", group: "CertGen", natInts: true,
			in: "certGenHandler", blockFrom: "if signerIsNull", blockUpto: "logger.Debugf(3, \"Got client POST connection\")",
			blockReach: "KM.GoTypes.HttpEffect.reached",
			binders:    "(ext : KM.GoTypes.CertgenExt) (signerIsNull : Bool) (allowedForCerts : List (List Char)) (urlUser method : List Char)",
			traceLean:  "KM.GoTypes.HttpEffect",
			paths: map[string][2]string{
				"signerIsNull": {"signerIsNull", "bool"},
				"state.Config.Base.AllowedAuthBackendsForCerts": {"allowedForCerts", "[]string"},
				"r.URL.Path[len(certgenPath):]":                 {"urlUser", "string"},
				"r.Method":                                      {"method", "string"},
				"AuthTypeAny":                                   {"(65535 : Nat)", "int"},
				"http.StatusInternalServerError":                {"(500 : Nat)", "int"},
				"http.StatusUnauthorized":                       {"(401 : Nat)", "int"},
				"http.StatusForbidden":                          {"(403 : Nat)", "int"},
				"http.StatusMethodNotAllowed":                   {"(405 : Nat)", "int"}},
			externs: map[string]glExtern{
				"state.checkAuth":            {lean: "ext.checkAuth", ret: []string{"authInfo", "error"}, args: []int{2}},
				"state.writeFailureResponse": {lean: "()", ret: []string{}, args: []int{2}, effect: "KM.GoTypes.HttpEffect.fail"}},
			retLean: "Unit × List KM.GoTypes.HttpEffect"},
		// C01 / C06
		glTarget{pkg: "cmd/keymasterd", name: "getRequiredWebUIAuthLevel", group: "Auth",
			binders: "(allowedWebUI : List (List Char))", natInts: true,
			paths:   map[string][2]string{"state.Config.Base.AllowedAuthBackendsForWebUI": {"allowedWebUI", "[]string"}},
			retLean: "Nat"},
	)
}
