package main

import (
	"fmt"
	"go/ast"
	"go/token"
	"strings"
)

// C03 facts: the lifetime constants, the duration block of certGenHandler as a small
// straight-line program (KM.Dur.Shape), and the expressions that become the validity
// fields of every kind of certificate keymaster signs.

func init() { register("c03-validity", genC03) }

type c03Step struct {
	Kind   string `json:"kind"` // rejectIf | assign | assignIf | unknown
	Cmp    string `json:"cmp,omitempty"`
	A      string `json:"a,omitempty"`
	B      string `json:"b,omitempty"`
	Dst    string `json:"dst,omitempty"`
	Src    string `json:"src,omitempty"`
	Status int    `json:"status,omitempty"`
	Text   string `json:"text"`
}

func c03Var(p *pkgInfo, e ast.Expr) string {
	switch x := e.(type) {
	case *ast.Ident:
		switch x.Name {
		case "newDuration", "duration", "maxDuration":
			return x.Name
		case "maxCertificateLifetime":
			return "maxLifetime"
		}
	case *ast.BasicLit:
		if x.Kind == token.INT && x.Value == "0" {
			return "zero"
		}
	case *ast.ParenExpr:
		return c03Var(p, x.X)
	}
	return "unknown"
}

func c03Cmp(op token.Token) string {
	switch op {
	case token.LSS:
		return "lt"
	case token.LEQ:
		return "le"
	case token.GTR:
		return "gt"
	case token.GEQ:
		return "ge"
	}
	return "unknown"
}

var c03Status = map[string]int{"StatusBadRequest": 400, "StatusUnauthorized": 401, "StatusForbidden": 403,
	"StatusMethodNotAllowed": 405, "StatusUnprocessableEntity": 422, "StatusInternalServerError": 500}

// c03FailureStatus: the body writes a failure response and returns; which status?
func c03FailureStatus(p *pkgInfo, body *ast.BlockStmt) (int, bool) {
	if len(body.List) == 0 {
		return 0, false
	}
	if _, ok := body.List[len(body.List)-1].(*ast.ReturnStmt); !ok {
		return 0, false
	}
	status := 0
	for _, s := range body.List[:len(body.List)-1] {
		es, ok := s.(*ast.ExprStmt)
		if !ok {
			return 0, false // anything but calls before the return is not a plain rejection
		}
		ce, ok := es.X.(*ast.CallExpr)
		if !ok {
			return 0, false
		}
		if sel, ok := ce.Fun.(*ast.SelectorExpr); ok && sel.Sel.Name == "writeFailureResponse" && len(ce.Args) == 4 {
			if st, ok := ce.Args[2].(*ast.SelectorExpr); ok {
				status = c03Status[st.Sel.Name]
			}
		}
	}
	return status, status != 0
}

func c03IsHarmlessCall(p *pkgInfo, s ast.Stmt) bool {
	es, ok := s.(*ast.ExprStmt)
	if !ok {
		return false
	}
	ce, ok := es.X.(*ast.CallExpr)
	if !ok {
		return false
	}
	name := p.str(ce.Fun)
	return name == "metricLogCertDuration" || strings.HasPrefix(name, "logger.") || strings.HasPrefix(name, "state.logger.")
}

// c03Classify turns one statement of the block into a step ("" kind = no effect on the variables).
func c03Classify(p *pkgInfo, s ast.Stmt) (c03Step, bool) {
	txt := p.str(s)
	if len(txt) > 120 {
		txt = txt[:120]
	}
	if c03IsHarmlessCall(p, s) {
		return c03Step{}, false
	}
	switch x := s.(type) {
	case *ast.AssignStmt:
		if x.Tok == token.ASSIGN && len(x.Lhs) == 1 && len(x.Rhs) == 1 {
			return c03Step{Kind: "assign", Dst: c03Var(p, x.Lhs[0]), Src: c03Var(p, x.Rhs[0]), Text: txt}, true
		}
	case *ast.IfStmt:
		be, ok := x.Cond.(*ast.BinaryExpr)
		if !ok || x.Init != nil || x.Else != nil {
			break
		}
		if st, ok := c03FailureStatus(p, x.Body); ok {
			return c03Step{Kind: "rejectIf", Cmp: c03Cmp(be.Op), A: c03Var(p, be.X), B: c03Var(p, be.Y), Status: st, Text: txt}, true
		}
		if len(x.Body.List) == 1 {
			if as, ok := x.Body.List[0].(*ast.AssignStmt); ok && as.Tok == token.ASSIGN && len(as.Lhs) == 1 && len(as.Rhs) == 1 {
				return c03Step{Kind: "assignIf", Cmp: c03Cmp(be.Op), A: c03Var(p, be.X), B: c03Var(p, be.Y),
					Dst: c03Var(p, as.Lhs[0]), Src: c03Var(p, as.Rhs[0]), Text: txt}, true
			}
		}
	}
	return c03Step{Kind: "unknown", Text: txt}, true
}

func c03LeanVar(v string) string {
	switch v {
	case "newDuration", "duration", "maxDuration", "zero", "maxLifetime":
		return "Var." + v
	}
	return "Var.unknown"
}

func c03LeanCmp(c string) string {
	switch c {
	case "lt", "le", "gt", "ge":
		return "Cmp." + c
	}
	return "Cmp.unknown"
}

func c03LeanSteps(steps []c03Step) string {
	var l []string
	for _, s := range steps {
		switch s.Kind {
		case "rejectIf":
			l = append(l, fmt.Sprintf("Step.rejectIf %s %s %s %d", c03LeanCmp(s.Cmp), c03LeanVar(s.A), c03LeanVar(s.B), s.Status))
		case "assign":
			l = append(l, fmt.Sprintf("Step.assign %s %s", c03LeanVar(s.Dst), c03LeanVar(s.Src)))
		case "assignIf":
			l = append(l, fmt.Sprintf("Step.assignIf %s %s %s %s %s", c03LeanCmp(s.Cmp), c03LeanVar(s.A), c03LeanVar(s.B), c03LeanVar(s.Dst), c03LeanVar(s.Src)))
		default:
			l = append(l, "Step.unknown")
		}
	}
	return "[" + strings.Join(l, ",\n    ") + "]"
}

// c03Assigned: RHS text of every assignment/definition of the local `name` in fd ("" when none)
func c03Assigned(p *pkgInfo, fd *ast.FuncDecl, name string) []string {
	var out []string
	for _, e := range assignmentsTo(fd, name) {
		out = append(out, p.str(e))
	}
	return out
}

// c03LitField: value text of every `key: value` inside composite literals of type typ in fd
func c03LitField(p *pkgInfo, fd *ast.FuncDecl, typ, key string) []string {
	var out []string
	ast.Inspect(fd.Body, func(n ast.Node) bool {
		cl, ok := n.(*ast.CompositeLit)
		if !ok || p.str(cl.Type) != typ {
			return true
		}
		for _, el := range cl.Elts {
			if kv, ok := el.(*ast.KeyValueExpr); ok && p.str(kv.Key) == key {
				out = append(out, p.str(kv.Value))
			}
		}
		return true
	})
	return out
}

// c03CallArg: text of argument idx of every call to callee (selector or bare name suffix) in fd
func c03CallArg(p *pkgInfo, fd *ast.FuncDecl, callee string, idx int) []string {
	var out []string
	ast.Inspect(fd.Body, func(n ast.Node) bool {
		ce, ok := n.(*ast.CallExpr)
		if !ok {
			return true
		}
		name := p.str(ce.Fun)
		if name == callee || strings.HasSuffix(name, "."+callee) {
			if idx < len(ce.Args) {
				out = append(out, p.str(ce.Args[idx]))
			} else {
				out = append(out, "<missing>")
			}
		}
		return true
	})
	return out
}

// c03FieldWrites: number of assignments `<anything>.<field> = …` in fd
func c03FieldWrites(p *pkgInfo, fd *ast.FuncDecl, fields ...string) int {
	n := 0
	ast.Inspect(fd.Body, func(nd ast.Node) bool {
		as, ok := nd.(*ast.AssignStmt)
		if !ok {
			return true
		}
		for _, l := range as.Lhs {
			if sel, ok := l.(*ast.SelectorExpr); ok {
				for _, f := range fields {
					if sel.Sel.Name == f {
						n++
					}
				}
			}
		}
		return true
	})
	return n
}

func c03CharLists(l []string) string {
	q := make([]string, len(l))
	for i, s := range l {
		q[i] = leanStr(s) + ".toList"
	}
	return "[" + strings.Join(q, ", ") + "]"
}

func genC03(e *emitter) {
	kmd := e.pkg("cmd/keymasterd")
	cg := e.pkg("lib/certgen")
	aws := e.pkg("lib/server/aws_identity_cert")
	facts := map[string]interface{}{}
	var b strings.Builder
	b.WriteString("import KM.Model.DurTypes\nnamespace KM.Gen.C03\nopen KM.Dur\n\n")

	// ---- constants
	for _, n := range []string{"maxCertificateLifetime", "maxRoleRequestingCertDuration"} {
		v, ok := int64(0), false
		if ce, has := kmd.consts[n]; has {
			v, ok = kmd.evalInt(ce, kmd.cindex[n])
		}
		if !ok {
			v = -1 // makes every theorem over it fail
		}
		facts[n] = v
		fmt.Fprintf(&b, "/-- `%s` of cmd/keymasterd, nanoseconds (-1: not found) -/\ndef %s : Int := %d\n", n, n, v)
	}

	// ---- the duration block of certGenHandler
	shape := map[string]interface{}{}
	initVar, untilBase := "unknown", "unknown"
	parseErrRejects := false
	var requested, final []c03Step
	durationSource := "<none>"
	parseCall := "<none>"
	var issueArgs [][2]string
	writesTotal, writesModelled := 0, 0
	if fd := kmd.funcs["certGenHandler"]; fd != nil {
		stmts := fd.Body.List
		start, end := -1, -1
		for i, s := range stmts {
			if as, ok := s.(*ast.AssignStmt); ok && as.Tok == token.DEFINE && len(as.Lhs) == 1 {
				if id, ok := as.Lhs[0].(*ast.Ident); ok {
					if id.Name == "duration" && start < 0 {
						start = i
						initVar = c03Var(kmd, as.Rhs[0])
						writesModelled++
					}
					if id.Name == "certType" && end < 0 {
						end = i
					}
				}
			}
		}
		if start >= 0 && end > start {
			sawUntil := false
			for _, s := range stmts[start+1 : end] {
				// the form block
				if is, ok := s.(*ast.IfStmt); ok && is.Init != nil && !sawUntil &&
					strings.HasPrefix(kmd.str(is.Init), "formDuration, ok := r.Form[\"duration\"]") && kmd.str(is.Cond) == "ok" && is.Else == nil {
					body := is.Body.List
					for j := 0; j < len(body); j++ {
						st := body[j]
						if as, ok := st.(*ast.AssignStmt); ok && as.Tok == token.DEFINE {
							txt := kmd.str(st)
							if strings.HasPrefix(txt, "stringDuration := ") {
								durationSource = kmd.str(as.Rhs[0])
								continue
							}
							if strings.HasPrefix(txt, "newDuration, err := ") {
								parseCall = kmd.str(as.Rhs[0])
								// the statement after it must be the err test
								if j+1 < len(body) {
									if es, ok := body[j+1].(*ast.IfStmt); ok && kmd.str(es.Cond) == "err != nil" && es.Init == nil && es.Else == nil {
										if stt, ok := c03FailureStatus(kmd, es.Body); ok && stt == 400 {
											parseErrRejects = true
										}
										j++
									}
								}
								continue
							}
						}
						if stp, eff := c03Classify(kmd, st); eff {
							requested = append(requested, stp)
						}
					}
					continue
				}
				if as, ok := s.(*ast.AssignStmt); ok && as.Tok == token.DEFINE && len(as.Lhs) == 1 && kmd.str(as.Lhs[0]) == "maxDuration" && !sawUntil {
					sawUntil = true
					// time.Until(authData.IssuedAt.Add(X))
					if ce, ok := isCallTo(as.Rhs[0], "time.Until"); ok && len(ce.Args) == 1 {
						if inner, ok := ce.Args[0].(*ast.CallExpr); ok && kmd.str(inner.Fun) == "authData.IssuedAt.Add" && len(inner.Args) == 1 {
							untilBase = c03Var(kmd, inner.Args[0])
						}
					}
					continue
				}
				stp, eff := c03Classify(kmd, s)
				if !eff {
					continue
				}
				if sawUntil {
					final = append(final, stp)
				} else {
					requested = append(requested, c03Step{Kind: "unknown", Text: "outside the form block: " + stp.Text})
				}
			}
		}
		for _, st := range append(append([]c03Step{}, requested...), final...) {
			if (st.Kind == "assign" || st.Kind == "assignIf") && st.Dst == "duration" {
				writesModelled++
			}
		}
		ast.Inspect(fd.Body, func(n ast.Node) bool {
			if as, ok := n.(*ast.AssignStmt); ok {
				for _, l := range as.Lhs {
					if id, ok := l.(*ast.Ident); ok && id.Name == "duration" {
						writesTotal++
					}
				}
			}
			if ce, ok := n.(*ast.CallExpr); ok {
				name := kmd.str(ce.Fun)
				if name == "state.postAuthSSHCertHandler" && len(ce.Args) == 4 {
					issueArgs = append(issueArgs, [2]string{"postAuthSSHCertHandler", c03Var(kmd, ce.Args[3])})
				}
				if name == "state.postAuthX509CertHandler" && len(ce.Args) == 6 {
					issueArgs = append(issueArgs, [2]string{"postAuthX509CertHandler", c03Var(kmd, ce.Args[4])})
				}
			}
			return true
		})
	}
	shape["init"], shape["untilBase"], shape["parseErrorRejects"] = initVar, untilBase, parseErrRejects
	shape["requested"], shape["final"] = requested, final
	facts["shape"] = shape
	fmt.Fprintf(&b, "\n/-- the duration block of `certGenHandler` (cmd/keymasterd/certgen.go) -/\ndef shape : Shape :=\n  { init := %s,\n    parseErrorRejects := %s,\n    requested := %s,\n    untilBase := %s,\n    final := %s }\n",
		c03LeanVar(initVar), leanBool(parseErrRejects), c03LeanSteps(requested), c03LeanVar(untilBase), c03LeanSteps(final))
	for _, st := range append(append([]c03Step{}, requested...), final...) {
		fmt.Fprintf(&b, "-- %s: %s\n", st.Kind, st.Text)
	}
	fmt.Fprintf(&b, "\n/-- where the string handed to the parser comes from, and the parser -/\ndef durationSource : List Char := %s.toList\ndef parseCall : List Char := %s.toList\n", leanStr(durationSource), leanStr(parseCall))
	fmt.Fprintf(&b, "/-- writes to the local `duration` in certGenHandler: all of them / those the shape accounts for -/\ndef durationWritesTotal : Nat := %d\ndef durationWritesModelled : Nat := %d\n", writesTotal, writesModelled)
	var ia []string
	for _, a := range issueArgs {
		ia = append(ia, fmt.Sprintf("(%s, %s)", leanStr(a[0]), c03LeanVar(a[1])))
	}
	fmt.Fprintf(&b, "/-- the duration argument of every issuing call in certGenHandler's `switch certType` -/\ndef issueArgs : List (String × Var) := [%s]\n", strings.Join(ia, ", "))
	facts["issueArgs"] = issueArgs

	// ---- how the duration travels to the generators
	flow := map[string][]string{}
	if fd := kmd.funcs["postAuthSSHCertHandler"]; fd != nil {
		flow["sshGenDurationArg"] = c03CallArg(kmd, fd, "certgen.GenSSHCertFileString", 4)
		flow["sshHandlerDurationWrites"] = c03Assigned(kmd, fd, "duration")
	}
	if fd := kmd.funcs["postAuthX509CertHandler"]; fd != nil {
		flow["x509GenDurationArg"] = c03CallArg(kmd, fd, "certgen.GenUserX509Cert", 5)
		flow["x509HandlerDurationWrites"] = c03Assigned(kmd, fd, "duration")
	}
	// ---- lib/certgen: the validity fields
	if fd := cg.funcs["GenSSHCertFileString"]; fd != nil {
		flow["sshCurrentEpoch"] = c03Assigned(cg, fd, "currentEpoch")
		flow["sshExpireEpoch"] = c03Assigned(cg, fd, "expireEpoch")
		flow["sshValidAfter"] = c03LitField(cg, fd, "ssh.Certificate", "ValidAfter")
		flow["sshValidBefore"] = c03LitField(cg, fd, "ssh.Certificate", "ValidBefore")
		flow["sshDurationWrites"] = c03Assigned(cg, fd, "duration")
	}
	for _, fn := range []string{"GenUserX509Cert", "GenIPRestrictedX509Cert"} {
		if fd := cg.funcs[fn]; fd != nil {
			flow[fn+".notBefore"] = c03Assigned(cg, fd, "notBefore")
			flow[fn+".notAfter"] = c03Assigned(cg, fd, "notAfter")
			flow[fn+".NotBefore"] = c03LitField(cg, fd, "x509.Certificate", "NotBefore")
			flow[fn+".NotAfter"] = c03LitField(cg, fd, "x509.Certificate", "NotAfter")
			flow[fn+".durationWrites"] = c03Assigned(cg, fd, "duration")
			flow[fn+".fieldWrites"] = []string{fmt.Sprint(c03FieldWrites(cg, fd, "NotBefore", "NotAfter"))}
		}
	}
	// ---- role requesting certificates
	var roleSources []string
	roleAssigns := map[string][]string{}
	for _, fn := range []string{"parseRoleCertGenParams", "parseRefreshRoleCertGenParams"} {
		roleAssigns[fn] = []string{}
		if fd := kmd.funcs[fn]; fd != nil {
			// classify every assignment to <x>.Duration, in source order; remember an enclosing `if v > 0`
			var walk func(n ast.Node, guard string)
			walk = func(n ast.Node, guard string) {
				ast.Inspect(n, func(m ast.Node) bool {
					if is, ok := m.(*ast.IfStmt); ok && m != n {
						g := ""
						if be, ok := is.Cond.(*ast.BinaryExpr); ok && be.Op == token.GTR && kmd.str(be.Y) == "0" && is.Init == nil {
							g = kmd.str(be.X)
						} else {
							g = "?" + kmd.str(is.Cond)
						}
						walk(is.Body, g)
						if is.Else != nil {
							walk(is.Else, "?else")
						}
						return false
					}
					if as, ok := m.(*ast.AssignStmt); ok {
						for i, l := range as.Lhs {
							if sel, ok := l.(*ast.SelectorExpr); ok && sel.Sel.Name == "Duration" && i < len(as.Rhs) {
								rhs := kmd.str(as.Rhs[i])
								roleSources = append(roleSources, fn+": "+rhs)
								cls := "unknown"
								if rhs == "maxRoleRequestingCertDuration" && guard == "" {
									cls = "maxConst"
								} else if id, ok := as.Rhs[i].(*ast.Ident); ok {
									defs := c03Assigned(kmd, fd, id.Name)
									if len(defs) == 1 && (defs[0] == "userCert.NotAfter.Sub(userCert.NotBefore)") &&
										len(c03Assigned(kmd, fd, "userCert")) == 1 && c03Assigned(kmd, fd, "userCert")[0] == "r.TLS.VerifiedChains[0][0]" {
										if guard == "" {
											cls = "presented"
										} else if guard == id.Name {
											cls = "presentedIfPositive"
										}
									}
								}
								roleAssigns[fn] = append(roleAssigns[fn], cls)
							}
						}
					}
					return true
				})
			}
			walk(fd.Body, "")
		}
	}
	flow["roleDurationSources"] = roleSources
	if fd := kmd.funcs["withParamsGenerateRoleRequestingCert"]; fd != nil {
		flow["roleGenDurationArg"] = c03CallArg(kmd, fd, "certgen.GenIPRestrictedX509Cert", 5)
		flow["roleParamsDurationWrites"] = []string{fmt.Sprint(c03FieldWrites(kmd, fd, "Duration"))}
	}
	// who calls withParamsGenerateRoleRequestingCert, and with what
	var roleCallers []string
	kmd.eachFunc(func(fd *ast.FuncDecl) {
		for _, a := range c03CallArg(kmd, fd, "withParamsGenerateRoleRequestingCert", 0) {
			roleCallers = append(roleCallers, fd.Name.Name+": "+a)
		}
	})
	flow["roleCallers"] = roleCallers
	// ---- AWS role certificates
	awsLifetime := int64(-1)
	if fd := aws.funcs["makeCertificateTemplate"]; fd != nil {
		flow["awsNow"] = c03Assigned(aws, fd, "now")
		flow["awsNotBefore"] = c03LitField(aws, fd, "x509.Certificate", "NotBefore")
		na := c03LitField(aws, fd, "x509.Certificate", "NotAfter")
		flow["awsNotAfter"] = na
		ast.Inspect(fd.Body, func(n ast.Node) bool {
			cl, ok := n.(*ast.CompositeLit)
			if !ok || aws.str(cl.Type) != "x509.Certificate" {
				return true
			}
			for _, el := range cl.Elts {
				if kv, ok := el.(*ast.KeyValueExpr); ok && aws.str(kv.Key) == "NotAfter" {
					if ce, ok := kv.Value.(*ast.CallExpr); ok && aws.str(ce.Fun) == "now.Add" && len(ce.Args) == 1 {
						if v, ok := aws.evalInt(ce.Args[0], 0); ok {
							awsLifetime = v
						}
					}
				}
			}
			return true
		})
	}
	awsMut := 0
	for _, fn := range []string{"generateRoleCert", "requestHandler"} {
		if fd := aws.funcs[fn]; fd != nil {
			awsMut += c03FieldWrites(aws, fd, "NotBefore", "NotAfter")
		}
	}
	if fd := kmd.funcs["generateRoleCert"]; fd != nil {
		awsMut += c03FieldWrites(kmd, fd, "NotBefore", "NotAfter")
		flow["awsCreateTemplateArg"] = c03CallArg(kmd, fd, "x509.CreateCertificate", 1)
	}
	leanAssigns := func(l []string) string {
		q := make([]string, len(l))
		for i, c := range l {
			switch c {
			case "maxConst", "presented", "presentedIfPositive":
				q[i] = "RoleAssign." + c
			default:
				q[i] = "RoleAssign.unknown"
			}
		}
		return "[" + strings.Join(q, ", ") + "]"
	}
	fmt.Fprintf(&b, "\n/-- assignments to `Duration` in the two role parameter parsers, in source order -/\ndef roleHandlerDur : List RoleAssign := %s\ndef roleRefreshDur : List RoleAssign := %s\n",
		leanAssigns(roleAssigns["parseRoleCertGenParams"]), leanAssigns(roleAssigns["parseRefreshRoleCertGenParams"]))
	facts["roleAssigns"] = roleAssigns
	// ---- second-factor step-up: how the session cookie is re-issued
	if fd := kmd.funcs["updateAuthJWTWithNewAuthLevel"]; fd != nil {
		flow["stepUpClaims"] = c03CallArg(kmd, fd, "Claims", 0)
		var writes []string
		ast.Inspect(fd.Body, func(n ast.Node) bool {
			if as, ok := n.(*ast.AssignStmt); ok && as.Tok == token.ASSIGN {
				for i, l := range as.Lhs {
					if sel, ok := l.(*ast.SelectorExpr); ok && i < len(as.Rhs) {
						writes = append(writes, kmd.str(sel)+" = "+kmd.str(as.Rhs[i]))
					}
				}
			}
			return true
		})
		flow["stepUpWrites"] = writes
		flow["stepUpMints"] = append(c03CallArg(kmd, fd, "genNewSerializedAuthJWT", 0), c03CallArg(kmd, fd, "setNewAuthCookie", 0)...)
		var rets []string
		ast.Inspect(fd.Body, func(n ast.Node) bool {
			if r, ok := n.(*ast.ReturnStmt); ok && len(r.Results) == 1 {
				rets = append(rets, kmd.str(r.Results[0]))
			}
			return true
		})
		flow["stepUpReturns"] = rets
	}
	if fd := kmd.funcs["updateAuthCookieAuthlevel"]; fd != nil {
		flow["stepUpCookieValue"] = c03Assigned(kmd, fd, "cookieVal")
	}
	facts["awsTemplateLifetime"] = awsLifetime
	facts["flow"] = flow
	fmt.Fprintf(&b, "\n/-- `NotAfter: now.Add(<this>)` in aws_identity_cert.makeCertificateTemplate, nanoseconds (-1: not found) -/\ndef awsTemplateLifetime : Int := %d\n", awsLifetime)
	fmt.Fprintf(&b, "/-- assignments to a NotBefore/NotAfter field between template creation and signing (AWS path) -/\ndef awsValidityMutations : Nat := %d\n", awsMut)
	keys := make([]string, 0, len(flow))
	for k := range flow {
		keys = append(keys, k)
	}
	sortStrings(keys)
	b.WriteString("\n/-- source expressions that become validity fields / carry the duration (site, expressions) -/\ndef flow : List (String × List (List Char)) := [\n")
	for i, k := range keys {
		sep := ","
		if i == len(keys)-1 {
			sep = ""
		}
		fmt.Fprintf(&b, "  (%s, %s)%s\n", leanStr(k), c03CharLists(flow[k]), sep)
	}
	b.WriteString("]\n\nend KM.Gen.C03\n")
	e.lean("C03.lean", b.String())
	e.facts["c03"] = facts
}
