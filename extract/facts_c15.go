package main

// C15 facts: (1) the storage calls of copyDBIntoSQLite in source order, each with the handle it
// is issued on and the database/sql call used; (2) the fromCache guard table: every function
// that writes profile data to the primary and how it treats the fromCache result of the
// LoadUserProfile that precedes the write.

import (
	"fmt"
	"go/ast"
	"go/token"
	"regexp"
	"sort"
	"strings"
)

func init() { register("c15-storage", genC15) }

type c15Site struct {
	Pos  string `json:"pos"`
	Call string `json:"call"`
	Lean string `json:"lean"`
}

type c15Guard struct {
	Func  string `json:"func"`
	Pkg   string `json:"pkg"`
	Write string `json:"write"`
	Pos   string `json:"pos"`
	Class string `json:"class"`
	Why   string `json:"why"`
}

var c15Space = regexp.MustCompile(`\s+`)

func c15NormSQL(s string) string {
	return strings.TrimSpace(c15Space.ReplaceAllString(strings.ToLower(s), " "))
}

// c15SQL resolves the SQL text of an argument: literal, constant, fmt.Sprintf format, local
// variable assigned one of those, or an entry of a package-level map keyed by DB type (the
// "sqlite" entry is used: the destination of copyDBIntoSQLite is always SQLite).
// Second result: the Sprintf arguments (to recognise `time.Now().Unix()`).
func c15SQL(p *pkgInfo, fd *ast.FuncDecl, e ast.Expr, depth int) (string, []ast.Expr, bool) {
	if depth > 4 {
		return "", nil, false
	}
	if s, ok := p.evalStr(e); ok {
		if id, isID := e.(*ast.Ident); !isID || len(assignmentsTo(fd, id.Name)) == 0 {
			return s, nil, true
		}
	}
	switch x := e.(type) {
	case *ast.CallExpr:
		if ce, ok := isCallTo(x, "fmt.Sprintf"); ok && len(ce.Args) >= 1 {
			if s, ok := p.evalStr(ce.Args[0]); ok {
				return s, ce.Args[1:], true
			}
		}
	case *ast.IndexExpr:
		if id, ok := x.X.(*ast.Ident); ok {
			if v, ok := p.vars[id.Name]; ok {
				if cl, ok := v.(*ast.CompositeLit); ok {
					for _, el := range cl.Elts {
						if kv, ok := el.(*ast.KeyValueExpr); ok {
							if k, ok := p.evalStr(kv.Key); ok && k == "sqlite" {
								if s, ok := p.evalStr(kv.Value); ok {
									return s, nil, true
								}
							}
						}
					}
				}
			}
		}
	case *ast.Ident:
		rhs := assignmentsTo(fd, x.Name)
		if len(rhs) == 1 {
			return c15SQL(p, fd, rhs[0], depth+1)
		}
	}
	return "", nil, false
}

func c15Table(sql string) string {
	switch {
	case strings.Contains(sql, "expiring_signed_user_data"):
		return "signed"
	case strings.Contains(sql, "user_profile"):
		return "users"
	}
	return ""
}

func c15LeanTable(t string) string {
	if t == "signed" {
		return "Table.signed"
	}
	return "Table.users"
}

// recvCall: method call on a plain identifier
func c15RecvCall(n ast.Node) (recv, method string, ce *ast.CallExpr, ok bool) {
	ce, ok = n.(*ast.CallExpr)
	if !ok {
		return
	}
	sel, ok2 := ce.Fun.(*ast.SelectorExpr)
	if !ok2 {
		return "", "", nil, false
	}
	id, ok3 := sel.X.(*ast.Ident)
	if !ok3 {
		return "", "", nil, false
	}
	return id.Name, sel.Sel.Name, ce, true
}

func c15SyncSites(p *pkgInfo) []c15Site {
	fd := p.funcs["copyDBIntoSQLite"]
	if fd == nil || fd.Body == nil {
		return []c15Site{{Pos: "-", Call: "copyDBIntoSQLite not found", Lean: "SyncSite.unknown"}}
	}
	// the two *sql.DB parameters, in order: source, destination
	var dbs []string
	for _, f := range fd.Type.Params.List {
		if p.str(f.Type) == "*sql.DB" {
			for _, n := range f.Names {
				dbs = append(dbs, n.Name)
			}
		}
	}
	if len(dbs) != 2 {
		return []c15Site{{Pos: p.pos(fd), Call: "unexpected parameters", Lean: "SyncSite.unknown"}}
	}
	role := map[string]string{dbs[0]: "source", dbs[1]: "db"}
	rowsTable := map[string]string{}
	stmtTable := map[string]string{}
	var sites []c15Site
	emit := func(n ast.Node, lean string) {
		sites = append(sites, c15Site{Pos: p.pos(n), Call: p.str(n), Lean: lean})
	}
	// names defined by an assignment whose single RHS is the given call
	definedBy := map[*ast.CallExpr]string{}
	ast.Inspect(fd.Body, func(n ast.Node) bool {
		if as, ok := n.(*ast.AssignStmt); ok && len(as.Rhs) == 1 && len(as.Lhs) >= 1 {
			if ce, ok := as.Rhs[0].(*ast.CallExpr); ok {
				if id, ok := as.Lhs[0].(*ast.Ident); ok {
					definedBy[ce] = id.Name
				}
			}
		}
		return true
	})
	// `if err := rows.Err(); err != nil { …; return err }` after the loop
	errChecked := func(rows string, after token.Pos) bool {
		found := false
		ast.Inspect(fd.Body, func(n ast.Node) bool {
			ifs, ok := n.(*ast.IfStmt)
			if !ok || ifs.Pos() < after || ifs.Init == nil || len(ifs.Body.List) == 0 {
				return true
			}
			as, ok := ifs.Init.(*ast.AssignStmt)
			if !ok || len(as.Rhs) != 1 || len(as.Lhs) != 1 {
				return true
			}
			r, m, _, ok := c15RecvCall(as.Rhs[0])
			if !ok || r != rows || m != "Err" {
				return true
			}
			be, ok := ifs.Cond.(*ast.BinaryExpr)
			if !ok || be.Op != token.NEQ || p.str(be.X) != p.str(as.Lhs[0]) || p.str(be.Y) != "nil" {
				return true
			}
			if _, ok := ifs.Body.List[len(ifs.Body.List)-1].(*ast.ReturnStmt); ok {
				found = true
			}
			return true
		})
		return found
	}
	ast.Inspect(fd.Body, func(n ast.Node) bool {
		if fs, ok := n.(*ast.ForStmt); ok {
			if r, m, _, ok := c15RecvCall(fs.Cond); ok && m == "Next" {
				t, isRows := rowsTable[r]
				var execs []string
				ast.Inspect(fs.Body, func(m ast.Node) bool {
					if s, mm, _, ok := c15RecvCall(m); ok {
						if _, isStmt := stmtTable[s]; isStmt && mm == "Exec" {
							execs = append(execs, s)
						} else if _, known := role[s]; known {
							execs = append(execs, "!"+s+"."+mm)
						}
					}
					return true
				})
				if !isRows || len(execs) != 1 || stmtTable[execs[0]] != t {
					emit(fs.Cond, "SyncSite.unknown")
				} else {
					emit(fs.Cond, fmt.Sprintf("SyncSite.loop %s %s", c15LeanTable(t), leanBool(errChecked(r, fs.End()))))
				}
				return false
			}
			return true
		}
		recv, method, ce, ok := c15RecvCall(n)
		if !ok {
			return true
		}
		_, isRows := rowsTable[recv]
		_, isStmt := stmtTable[recv]
		rl, isHandle := role[recv]
		switch {
		case isRows:
			switch method {
			case "Close", "Scan", "Err", "Next":
			default:
				emit(ce, "SyncSite.unknown")
			}
		case isStmt:
			switch method {
			case "Close":
			default: // an Exec outside a recognised loop
				emit(ce, "SyncSite.unknown")
			}
		case isHandle:
			switch method {
			case "Begin":
				if rl == "db" && definedBy[ce] != "" {
					role[definedBy[ce]] = "tx"
					emit(ce, "SyncSite.begin")
				} else {
					emit(ce, "SyncSite.unknown")
				}
			case "Commit":
				if rl == "tx" {
					emit(ce, "SyncSite.commit")
				} else {
					emit(ce, "SyncSite.unknown")
				}
			case "Rollback", "Close":
			case "Query", "Exec":
				if len(ce.Args) < 1 {
					emit(ce, "SyncSite.unknown")
					break
				}
				sql, args, ok := c15SQL(p, fd, ce.Args[0], 0)
				sql = c15NormSQL(sql)
				t := c15Table(sql)
				via := "Via.query"
				if method == "Exec" {
					via = "Via.exec"
				}
				switch {
				case !ok || t == "":
					emit(ce, "SyncSite.unknown")
				case strings.HasPrefix(sql, "select ") && rl == "source" && method == "Query":
					sel := "Sel.all"
					if strings.Contains(sql, " where ") {
						sel = "Sel.other"
						if strings.HasSuffix(sql, "where expiration_epoch > %d") && len(args) == 1 &&
							p.str(args[0]) == "time.Now().Unix()" {
							sel = "Sel.unexpired"
						}
					}
					if name := definedBy[ce]; name != "" {
						rowsTable[name] = t
					}
					emit(ce, fmt.Sprintf("SyncSite.select %s %s", c15LeanTable(t), sel))
				case strings.HasPrefix(sql, "delete from ") && (rl == "db" || rl == "tx"):
					emit(ce, fmt.Sprintf("SyncSite.delete Handle.%s %s %s %s", rl, via, c15LeanTable(t),
						leanBool(strings.Contains(sql, " where "))))
				default:
					emit(ce, "SyncSite.unknown")
				}
			case "Prepare":
				sql := ""
				ok := false
				if len(ce.Args) == 1 {
					sql, _, ok = c15SQL(p, fd, ce.Args[0], 0)
				}
				sql = c15NormSQL(sql)
				t := c15Table(sql)
				if ok && rl == "tx" && t != "" && strings.HasPrefix(sql, "insert ") && definedBy[ce] != "" {
					stmtTable[definedBy[ce]] = t
					emit(ce, "SyncSite.prepare "+c15LeanTable(t))
				} else {
					emit(ce, "SyncSite.unknown")
				}
			default:
				emit(ce, "SyncSite.unknown")
			}
		}
		return true
	})
	return sites
}

// ---------------------------------------------------------------- fromCache guard table

var c15Writes = map[string]bool{"SaveUserProfile": true, "DeleteUserProfile": true, "UpsertSigned": true, "DeleteSigned": true}

type c15Load struct {
	pos     token.Pos
	profile string
	fc      string
}

func c15Loads(fd *ast.FuncDecl) []c15Load {
	var out []c15Load
	ast.Inspect(fd.Body, func(n ast.Node) bool {
		as, ok := n.(*ast.AssignStmt)
		if !ok || len(as.Rhs) != 1 || len(as.Lhs) != 4 {
			return true
		}
		ce, ok := as.Rhs[0].(*ast.CallExpr)
		if !ok {
			return true
		}
		sel, ok := ce.Fun.(*ast.SelectorExpr)
		if !ok || sel.Sel.Name != "LoadUserProfile" {
			return true
		}
		name := func(e ast.Expr) string {
			if id, ok := e.(*ast.Ident); ok {
				return id.Name
			}
			return "?"
		}
		out = append(out, c15Load{pos: as.Pos(), profile: name(as.Lhs[0]), fc: name(as.Lhs[2])})
		return true
	})
	return out
}

// c15Guarded: is the node at position `at` unreachable when the boolean `fc` (set at `from`) is true?
// (i) an `if fc { …; return }` statement (no else) between the load and the node, directly in a
// block that encloses the node; (ii) the node sits in the body of `if !fc { … }`.
func c15Guarded(fd *ast.FuncDecl, fc string, from, at token.Pos) (bool, string) {
	res, why := false, ""
	isFc := func(e ast.Expr) bool {
		id, ok := e.(*ast.Ident)
		return ok && id.Name == fc
	}
	// fc must be assigned exactly once after `from`... it is assigned by loads only
	ast.Inspect(fd.Body, func(n ast.Node) bool {
		switch b := n.(type) {
		case *ast.BlockStmt:
			if !(b.Pos() < at && at < b.End()) {
				return true
			}
			for _, st := range b.List {
				ifs, ok := st.(*ast.IfStmt)
				if !ok || ifs.Init != nil || ifs.Else != nil || !isFc(ifs.Cond) {
					continue
				}
				if ifs.Pos() > from && ifs.End() < at && len(ifs.Body.List) > 0 {
					if _, ok := ifs.Body.List[len(ifs.Body.List)-1].(*ast.ReturnStmt); ok {
						res, why = true, "if "+fc+" { …; return } before the write"
					}
				}
			}
		case *ast.IfStmt:
			if u, ok := b.Cond.(*ast.UnaryExpr); ok && u.Op == token.NOT && isFc(u.X) && b.Init == nil {
				if b.Pos() > from && b.Body.Pos() < at && at < b.Body.End() {
					res, why = true, "write inside if !"+fc+" { … }"
				}
			}
		}
		return true
	})
	return res, why
}

func c15ParamNames(fd *ast.FuncDecl) map[string]bool {
	out := map[string]bool{}
	for _, f := range fd.Type.Params.List {
		for _, n := range f.Names {
			out[n.Name] = true
		}
	}
	return out
}

// c15RootIdent: the identifier an expression like p, &p, *p is built on
func c15RootIdent(e ast.Expr) string {
	switch x := e.(type) {
	case *ast.Ident:
		return x.Name
	case *ast.UnaryExpr:
		return c15RootIdent(x.X)
	case *ast.StarExpr:
		return c15RootIdent(x.X)
	case *ast.ParenExpr:
		return c15RootIdent(x.X)
	}
	return ""
}

func c15ClassifyWrite(p *pkgInfo, fd *ast.FuncDecl, ce *ast.CallExpr, kind string, depth int) (string, string) {
	loads := c15Loads(fd)
	var last *c15Load
	for i := range loads {
		if loads[i].pos < ce.Pos() {
			last = &loads[i]
		}
	}
	if last != nil {
		if last.fc == "_" || last.fc == "?" {
			return "unguarded", "fromCache result of the preceding LoadUserProfile is discarded"
		}
		if ok, why := c15Guarded(fd, last.fc, last.pos, ce.Pos()); ok {
			return "guarded", why
		}
		return "unguarded", "no test of " + last.fc + " dominates the write"
	}
	if kind != "SaveUserProfile" || len(ce.Args) != 2 {
		return "direct", "no profile is loaded before the write"
	}
	// SaveUserProfile of something that was not loaded here: a parameter (possibly copied)?
	root := c15RootIdent(ce.Args[1])
	params := c15ParamNames(fd)
	isParam := params[root]
	if !isParam && root != "" {
		for _, rhs := range assignmentsTo(fd, root) {
			if params[c15RootIdent(rhs)] {
				isParam = true
			}
		}
	}
	if !isParam {
		return "direct", "the profile written is built in the function, not loaded"
	}
	if depth > 2 {
		return "unknown", "call chain too deep"
	}
	// every caller must pass a loaded profile under a fromCache guard
	callers := 0
	verdict, why := "guarded", ""
	p.eachFunc(func(g *ast.FuncDecl) {
		ast.Inspect(g.Body, func(n ast.Node) bool {
			c, ok := n.(*ast.CallExpr)
			if !ok {
				return true
			}
			sel, ok := c.Fun.(*ast.SelectorExpr)
			if !ok || sel.Sel.Name != fd.Name.Name {
				return true
			}
			callers++
			cls, w := c15ClassifyWrite(p, g, c, "SaveUserProfile-via-"+fd.Name.Name, depth+1)
			if cls != "guarded" {
				verdict, why = cls, "caller "+g.Name.Name+": "+w
			} else if why == "" {
				why = "profile is a parameter; caller " + g.Name.Name + ": " + w
			}
			return true
		})
	})
	if callers == 0 {
		return "unknown", "profile is a parameter and no caller was found"
	}
	return verdict, why
}

func c15GuardTable(e *emitter) []c15Guard {
	var out []c15Guard
	for _, rel := range []string{"cmd/keymasterd", "lib/pwauth/ldap"} {
		p := e.pkg(rel)
		p.eachFunc(func(fd *ast.FuncDecl) {
			if c15Writes[fd.Name.Name] && p.file(fd) == "storage.go" {
				return
			}
			callFuns := map[ast.Expr]bool{}
			ast.Inspect(fd.Body, func(n ast.Node) bool {
				if ce, ok := n.(*ast.CallExpr); ok {
					callFuns[ce.Fun] = true
					if sel, ok := ce.Fun.(*ast.SelectorExpr); ok && c15Writes[sel.Sel.Name] {
						cls, why := c15ClassifyWrite(p, fd, ce, sel.Sel.Name, 0)
						out = append(out, c15Guard{Func: fd.Name.Name, Pkg: rel, Write: sel.Sel.Name, Pos: p.pos(ce), Class: cls, Why: why})
					}
				}
				return true
			})
			// a storage write taken as a method value escapes the analysis
			ast.Inspect(fd.Body, func(n ast.Node) bool {
				if sel, ok := n.(*ast.SelectorExpr); ok && c15Writes[sel.Sel.Name] && !callFuns[ast.Expr(sel)] {
					out = append(out, c15Guard{Func: fd.Name.Name, Pkg: rel, Write: sel.Sel.Name, Pos: p.pos(sel), Class: "unknown", Why: "method value"})
				}
				return true
			})
		})
	}
	sort.SliceStable(out, func(i, j int) bool {
		if out[i].Pkg != out[j].Pkg {
			return out[i].Pkg < out[j].Pkg
		}
		return out[i].Pos < out[j].Pos
	})
	return out
}

// ---------------------------------------------------------------- start-up statements

// c15ConstPrefix: the constant left part of a string expression ("drop table " + name -> "drop table ")
func c15ConstPrefix(p *pkgInfo, fd *ast.FuncDecl, e ast.Expr, depth int) string {
	if depth > 4 {
		return ""
	}
	if s, ok := p.evalStr(e); ok {
		if id, isID := e.(*ast.Ident); !isID || len(assignmentsTo(fd, id.Name)) == 0 {
			return s
		}
	}
	switch x := e.(type) {
	case *ast.BinaryExpr:
		if x.Op == token.ADD {
			return c15ConstPrefix(p, fd, x.X, depth+1)
		}
	case *ast.ParenExpr:
		return c15ConstPrefix(p, fd, x.X, depth+1)
	case *ast.Ident:
		// the assignment that reaches the use: the last one before it in source order
		var best ast.Expr
		for _, r := range assignmentsTo(fd, x.Name) {
			if r.Pos() < x.Pos() && (best == nil || r.Pos() > best.Pos()) {
				best = r
			}
		}
		if best != nil {
			return c15ConstPrefix(p, fd, best, depth+1)
		}
	case *ast.CallExpr:
		if ce, ok := isCallTo(x, "fmt.Sprintf"); ok && len(ce.Args) >= 1 {
			if s, ok := p.evalStr(ce.Args[0]); ok {
				if i := strings.Index(s, "%"); i >= 0 {
					return s[:i]
				}
				return s
			}
		}
	}
	return ""
}

func c15ClassifyInitSQL(sql string) string {
	sql = c15NormSQL(sql)
	switch {
	case strings.HasPrefix(sql, "create table if not exists "):
		switch c15Table(sql) {
		case "users":
			return "InitStmt.createIfNotExists Table.users"
		case "signed":
			return "InitStmt.createIfNotExists Table.signed"
		}
		return "InitStmt.additive"
	case strings.HasPrefix(sql, "create index if not exists "), strings.HasPrefix(sql, "create unique index if not exists "),
		strings.HasPrefix(sql, "alter table ") && strings.Contains(sql, " add "):
		return "InitStmt.additive"
	case strings.HasPrefix(sql, "select "), strings.HasPrefix(sql, "pragma "):
		return ""
	case strings.HasPrefix(sql, "drop "), strings.HasPrefix(sql, "delete "), strings.HasPrefix(sql, "update "),
		strings.HasPrefix(sql, "insert "), strings.HasPrefix(sql, "replace "), strings.HasPrefix(sql, "truncate "),
		strings.HasPrefix(sql, "create "), strings.HasPrefix(sql, "alter "):
		return "InitStmt.destructive"
	}
	return "InitStmt.unknown"
}

// c15InitStmts: every SQL statement executed synchronously by initDB and the functions it calls
// (`go` statements — the background copier — are not part of the start-up path).
func c15InitStmts(p *pkgInfo) []c15Site {
	var out []c15Site
	visited := map[string]bool{}
	var walk func(name string, depth int)
	walk = func(name string, depth int) {
		fd := p.funcs[name]
		if fd == nil || fd.Body == nil || visited[name] || depth > 5 {
			return
		}
		visited[name] = true
		// range variables over package-level string slices
		rangeVals := map[string][]string{}
		ast.Inspect(fd.Body, func(n ast.Node) bool {
			rs, ok := n.(*ast.RangeStmt)
			if !ok {
				return true
			}
			v, ok := rs.Value.(*ast.Ident)
			src, ok2 := rs.X.(*ast.Ident)
			if !ok || !ok2 {
				return true
			}
			if cl, ok := p.vars[src.Name].(*ast.CompositeLit); ok {
				var vals []string
				for _, el := range cl.Elts {
					if s, ok := p.evalStr(el); ok {
						vals = append(vals, s)
					} else {
						vals = append(vals, "?")
					}
				}
				rangeVals[v.Name] = vals
			}
			return true
		})
		ast.Inspect(fd.Body, func(n ast.Node) bool {
			if _, isGo := n.(*ast.GoStmt); isGo {
				return false
			}
			ce, ok := n.(*ast.CallExpr)
			if !ok {
				return true
			}
			callee := ""
			switch f := ce.Fun.(type) {
			case *ast.Ident:
				callee = f.Name
			case *ast.SelectorExpr:
				callee = f.Sel.Name
			}
			switch callee {
			case "Exec", "Query", "QueryRow", "Prepare":
				if len(ce.Args) < 1 {
					return true
				}
				if id, ok := ce.Args[0].(*ast.Ident); ok {
					if vals, ok := rangeVals[id.Name]; ok {
						for _, v := range vals {
							if cls := c15ClassifyInitSQL(v); cls != "" {
								out = append(out, c15Site{Pos: p.pos(ce), Call: name + ": " + v, Lean: cls})
							}
						}
						return true
					}
				}
				sql := c15ConstPrefix(p, fd, ce.Args[0], 0)
				cls := "InitStmt.unknown"
				if sql != "" {
					cls = c15ClassifyInitSQL(sql)
				}
				if cls != "" {
					out = append(out, c15Site{Pos: p.pos(ce), Call: name + ": " + p.str(ce), Lean: cls})
				}
			default:
				if _, ok := p.funcs[callee]; ok && callee != "" {
					walk(callee, depth+1)
				}
			}
			return true
		})
	}
	walk("initDB", 0)
	if len(out) == 0 {
		out = append(out, c15Site{Pos: "-", Call: "no start-up statement found", Lean: "InitStmt.unknown"})
	}
	return out
}

func genC15(e *emitter) {
	p := e.pkg("cmd/keymasterd")
	sites := c15SyncSites(p)
	guards := c15GuardTable(e)
	inits := c15InitStmts(p)
	var b strings.Builder
	b.WriteString("import KM.Model.SiteTypesC15\nnamespace KM.Gen.C15\nopen KM.SiteC15\n\n")
	b.WriteString("/-- the storage calls of `copyDBIntoSQLite` (cmd/keymasterd/storage.go) in source order -/\n")
	b.WriteString("def syncSites : List SyncSite := [\n")
	for i, s := range sites {
		sep := ","
		if i == len(sites)-1 {
			sep = ""
		}
		fmt.Fprintf(&b, "  %s%s  -- %s: %s\n", s.Lean, sep, s.Pos, s.Call)
	}
	b.WriteString("]\n\n")
	b.WriteString("/-- every SQL statement `initDB` and the functions it calls synchronously execute at start-up -/\n")
	b.WriteString("def initStmts : List InitStmt := [\n")
	for i, s := range inits {
		sep := ","
		if i == len(inits)-1 {
			sep = ""
		}
		fmt.Fprintf(&b, "  %s%s  -- %s: %s\n", s.Lean, sep, s.Pos, s.Call)
	}
	b.WriteString("]\n\n")
	b.WriteString("/-- every function that writes profile data (or a signed record) to the primary:\n(function, storage call, class) -/\n")
	b.WriteString("def guardTable : List (List Char × List Char × GuardClass) := [\n")
	for i, g := range guards {
		sep := ","
		if i == len(guards)-1 {
			sep = ""
		}
		fmt.Fprintf(&b, "  (%s.toList, %s.toList, GuardClass.%s)%s  -- %s %s: %s\n", leanStr(g.Func), leanStr(g.Write), g.Class, sep, g.Pkg, g.Pos, g.Why)
	}
	b.WriteString("]\n\nend KM.Gen.C15\n")
	e.lean("C15.lean", b.String())
	e.facts["c15_sync_sites"] = sites
	e.facts["c15_guard_table"] = guards
	e.facts["c15_init_stmts"] = inits
}
