package main

// C18 — request-controlled text is never rendered as markup.
//
// Regenerated facts (lean/KM/Gen/C18.lean):
//   rawHtmlSites       every conversion template.HTML/JS/URL/HTMLAttr/CSS/JSStr/Srcset(...) of
//                      cmd/keymasterd with the operands of its `+` chain classified
//   safeFields         every struct field whose type is one of those html/template types
//   safeFieldWrites    every store into a field of that name; direct = the stored expression
//                      is itself one of the listed conversions
//   otherSafeTypeUses  any other mention of those types (results, parameters, variables …)
//   execSites          every ExecuteTemplate/Execute call: writes to the ResponseWriter? on
//                      the html/template set?
//   htmlTemplateFieldIsHtmlTemplate, templateFuncsCalls
//
// Anything the patterns below do not recognise becomes `unknown`, so the table theorem fails.

import (
	"fmt"
	"go/ast"
	"go/token"
	"sort"
	"strconv"
	"strings"
)

var c18SafeKinds = map[string]string{
	"HTML": "SafeKind.html", "JS": "SafeKind.js", "URL": "SafeKind.url", "HTMLAttr": "SafeKind.htmlAttr",
	"CSS": "SafeKind.css", "JSStr": "SafeKind.jsStr", "Srcset": "SafeKind.srcset",
}

type c18Operand struct {
	Class string `json:"class"` // lit | escaped:html | escaped:template | base64Std | urlNormalised | unknown
	Text  string `json:"text"`
	Lit   string `json:"lit,omitempty"`
}

type c18Site struct {
	Pos      string       `json:"pos"`
	Func     string       `json:"func"`
	Kind     string       `json:"kind"`
	Operands []c18Operand `json:"operands"`
}

type c18Field struct {
	Struct string `json:"struct"`
	Field  string `json:"field"`
	Kind   string `json:"kind"`
}

type c18Write struct {
	Pos    string `json:"pos"`
	Func   string `json:"func"`
	Field  string `json:"field"`
	Direct bool   `json:"direct"`
}

type c18CTSet struct {
	Pos       string   `json:"pos"`
	Func      string   `json:"func"`
	Values    []string `json:"values"` // nil: not a constant
	Known     bool     `json:"known"`
	RawWriter bool     `json:"raw_writer"`
	Text      string   `json:"text"`
}

type c18Echo struct {
	Pos  string `json:"pos"`
	Func string `json:"func"`
	Via  string `json:"via"` // writeFailureResponse | http.Error
	Text string `json:"text"`
}

type c18Exec struct {
	Pos            string `json:"pos"`
	Func           string `json:"func"`
	Template       string `json:"template"`
	ToResponse     bool   `json:"to_response"`
	OnHtmlTemplate bool   `json:"on_html_template"`
	Receiver       string `json:"receiver"`
}

// c18Imports: local package name -> import path, for one file
func c18Imports(f *ast.File) map[string]string {
	m := map[string]string{}
	for _, im := range f.Imports {
		path, err := strconv.Unquote(im.Path.Value)
		if err != nil {
			continue
		}
		name := path[strings.LastIndex(path, "/")+1:]
		if im.Name != nil {
			name = im.Name.Name
		}
		m[name] = path
	}
	return m
}

// c18Sel: for pkgname.Sel returns (import path, Sel)
func c18Sel(imp map[string]string, e ast.Expr) (string, string, bool) {
	sel, ok := e.(*ast.SelectorExpr)
	if !ok {
		return "", "", false
	}
	id, ok := sel.X.(*ast.Ident)
	if !ok {
		return "", "", false
	}
	path, ok := imp[id.Name]
	if !ok {
		return "", "", false
	}
	return path, sel.Sel.Name, true
}

func c18IsSafeType(imp map[string]string, e ast.Expr) (string, bool) {
	path, name, ok := c18Sel(imp, e)
	if !ok || path != "html/template" {
		return "", false
	}
	_, ok = c18SafeKinds[name]
	return name, ok
}

func c18Flatten(e ast.Expr) []ast.Expr {
	switch x := e.(type) {
	case *ast.ParenExpr:
		return c18Flatten(x.X)
	case *ast.BinaryExpr:
		if x.Op == token.ADD {
			return append(c18Flatten(x.X), c18Flatten(x.Y)...)
		}
	}
	return []ast.Expr{e}
}

type c18ctx struct {
	p    *pkgInfo
	imps map[*ast.FuncDecl]map[string]string
}

// escaper recognises html.EscapeString(x), template.HTMLEscapeString(x)
func (c *c18ctx) escaper(imp map[string]string, e ast.Expr) (string, bool) {
	ce, ok := e.(*ast.CallExpr)
	if !ok || len(ce.Args) != 1 {
		return "", false
	}
	path, name, ok := c18Sel(imp, ce.Fun)
	if !ok {
		return "", false
	}
	switch {
	case path == "html" && name == "EscapeString":
		return "escaped:html", true
	case (path == "html/template" || path == "text/template") && name == "HTMLEscapeString":
		return "escaped:template", true
	}
	return "", false
}

func (c *c18ctx) isBase64Std(imp map[string]string, e ast.Expr) bool {
	ce, ok := e.(*ast.CallExpr)
	if !ok || len(ce.Args) != 1 {
		return false
	}
	sel, ok := ce.Fun.(*ast.SelectorExpr)
	if !ok || sel.Sel.Name != "EncodeToString" {
		return false
	}
	path, name, ok := c18Sel(imp, sel.X)
	return ok && path == "encoding/base64" && name == "StdEncoding"
}

// classify one non-constant operand inside fd
func (c *c18ctx) classify(fd *ast.FuncDecl, e ast.Expr, depth int) string {
	imp := c.imps[fd]
	if depth > 4 {
		return "unknown"
	}
	if pe, ok := e.(*ast.ParenExpr); ok {
		return c.classify(fd, pe.X, depth)
	}
	if cl, ok := c.escaper(imp, e); ok {
		return cl
	}
	if c.isBase64Std(imp, e) {
		return "base64Std"
	}
	if ce, ok := e.(*ast.CallExpr); ok {
		if id, ok := ce.Fun.(*ast.Ident); ok {
			if callee, ok := c.p.funcs[id.Name]; ok && callee.Recv == nil && callee.Body != nil {
				return c.classifyReturns(callee, depth+1)
			}
		}
		return "unknown"
	}
	if id, ok := e.(*ast.Ident); ok && fd != nil {
		rhs := assignmentsTo(fd, id.Name)
		if len(rhs) == 0 {
			return "unknown" // parameter, global, …
		}
		classes := map[string]bool{}
		for _, r := range rhs {
			if s, ok := c.p.evalStr(r); ok && !c.shadowed(fd, r) {
				_ = s
				classes["lit"] = true
				continue
			}
			classes[c.classify(fd, r, depth+1)] = true
		}
		return c18Join(classes)
	}
	return "unknown"
}

func (c *c18ctx) shadowed(fd *ast.FuncDecl, e ast.Expr) bool {
	id, ok := e.(*ast.Ident)
	return ok && fd != nil && len(assignmentsTo(fd, id.Name)) > 0
}

// c18Join: constants mixed with one escaper stay that escaper; anything else must agree
func c18Join(classes map[string]bool) string {
	if len(classes) > 1 {
		delete(classes, "lit")
	}
	if len(classes) == 1 {
		for k := range classes {
			return k
		}
	}
	return "unknown"
}

// classifyReturns: a package function whose every return value is a constant or the result of
// one escaper is that escaper; ensureHTMLSafeLoginDestination without escaping is what the
// pinned tree had (urlNormalised).
func (c *c18ctx) classifyReturns(fn *ast.FuncDecl, depth int) string {
	if fn.Type.Results == nil || len(fn.Type.Results.List) != 1 {
		return "unknown"
	}
	classes := map[string]bool{}
	n := 0
	ast.Inspect(fn.Body, func(nd ast.Node) bool {
		if _, ok := nd.(*ast.FuncLit); ok {
			return false
		}
		rs, ok := nd.(*ast.ReturnStmt)
		if !ok {
			return true
		}
		n++
		if len(rs.Results) != 1 {
			classes["unknown"] = true
			return true
		}
		r := rs.Results[0]
		if _, ok := c.p.evalStr(r); ok && !c.shadowed(fn, r) {
			classes["lit"] = true
			return true
		}
		cl := c.classify(fn, r, depth+1)
		if cl == "unknown" && fn.Name.Name == "ensureHTMLSafeLoginDestination" {
			if ce, ok := r.(*ast.CallExpr); ok {
				if sel, ok := ce.Fun.(*ast.SelectorExpr); ok && sel.Sel.Name == "String" && len(ce.Args) == 0 {
					cl = "urlNormalised"
				}
			}
		}
		classes[cl] = true
		return true
	})
	if n == 0 {
		return "unknown"
	}
	if len(classes) == 1 && classes["lit"] {
		return "lit-only"
	}
	return c18Join(classes)
}

func c18LeanOperand(o c18Operand) string {
	switch o.Class {
	case "lit":
		return "Operand.lit " + leanStr(o.Lit) + ".toList"
	case "escaped:html":
		return "Operand.escaped EscFn.htmlEscapeString"
	case "escaped:template":
		return "Operand.escaped EscFn.templateHTMLEscapeString"
	case "base64Std":
		return "Operand.base64Std"
	case "urlNormalised":
		return "Operand.urlNormalised"
	}
	return "Operand.unknown"
}

func init() { register("c18-rawhtml", genC18) }

func genC18(e *emitter) {
	p := e.pkg("cmd/keymasterd")
	c := &c18ctx{p: p, imps: map[*ast.FuncDecl]map[string]string{}}
	fileNames := make([]string, 0, len(p.files))
	for n := range p.files {
		fileNames = append(fileNames, n)
	}
	sort.Strings(fileNames)
	for _, n := range fileNames {
		imp := c18Imports(p.files[n])
		for _, d := range p.files[n].Decls {
			if fd, ok := d.(*ast.FuncDecl); ok {
				c.imps[fd] = imp
			}
		}
	}

	var sites []c18Site
	var fields []c18Field
	var writes []c18Write
	var others []string
	var execs []c18Exec
	funcsCalls := 0
	htmlTemplateField := false
	accounted := map[ast.Node]bool{} // selector nodes X.HTML that are a conversion or a field type
	siteCalls := map[ast.Node]bool{}

	// pass 1: conversions, struct fields
	for _, n := range fileNames {
		f := p.files[n]
		imp := c18Imports(f)
		var cur *ast.FuncDecl
		funcName := func() string {
			if cur == nil {
				return "<package>"
			}
			return cur.Name.Name
		}
		var visit func(nd ast.Node) bool
		visit = func(nd ast.Node) bool {
			switch x := nd.(type) {
			case *ast.FuncDecl:
				cur = x
				if x.Body != nil {
					ast.Inspect(x.Type, visit)
					ast.Inspect(x.Body, visit)
				}
				cur = nil
				return false
			case *ast.CallExpr:
				if kind, ok := c18IsSafeType(imp, x.Fun); ok && len(x.Args) == 1 {
					accounted[x.Fun] = true
					siteCalls[x] = true
					s := c18Site{Pos: p.pos(x), Func: funcName(), Kind: kind}
					for _, op := range c18Flatten(x.Args[0]) {
						if lit, ok := p.evalStr(op); ok && !c.shadowed(cur, op) {
							s.Operands = append(s.Operands, c18Operand{Class: "lit", Text: p.str(op), Lit: lit})
							continue
						}
						cl := "unknown"
						if cur != nil {
							cl = c.classify(cur, op, 0)
						}
						if cl == "lit-only" || cl == "lit" {
							cl = "unknown" // a non-constant expression that only ever holds constants: not a pattern we model
						}
						s.Operands = append(s.Operands, c18Operand{Class: cl, Text: p.str(op)})
					}
					sites = append(sites, s)
				}
				if sel, ok := x.Fun.(*ast.SelectorExpr); ok {
					if sel.Sel.Name == "Funcs" {
						funcsCalls++
					}
					if (sel.Sel.Name == "ExecuteTemplate" && len(x.Args) == 3) || (sel.Sel.Name == "Execute" && len(x.Args) == 2) {
						ex := c18Exec{Pos: p.pos(x), Func: funcName(), Receiver: p.str(sel.X)}
						if sel.Sel.Name == "ExecuteTemplate" {
							ex.Template, _ = p.evalStr(x.Args[1])
						}
						ex.OnHtmlTemplate = strings.HasSuffix(ex.Receiver, ".htmlTemplate")
						if id, ok := x.Args[0].(*ast.Ident); ok && cur != nil {
							ex.ToResponse = c18IsResponseWriterParam(imp, cur, id.Name)
						}
						execs = append(execs, ex)
					}
				}
			case *ast.TypeSpec:
				if st, ok := x.Type.(*ast.StructType); ok {
					c18StructFields(imp, x.Name.Name, st, &fields, accounted)
					if x.Name.Name == "RuntimeState" {
						for _, fl := range st.Fields.List {
							for _, nm := range fl.Names {
								if nm.Name == "htmlTemplate" {
									if star, ok := fl.Type.(*ast.StarExpr); ok {
										if path, name, ok := c18Sel(imp, star.X); ok && path == "html/template" && name == "Template" {
											htmlTemplateField = true
										}
									}
								}
							}
						}
					}
				}
			}
			return true
		}
		ast.Inspect(f, visit)
	}
	safeFieldNames := map[string]bool{}
	safeStructs := map[string]bool{}
	for _, f := range fields {
		safeFieldNames[f.Field] = true
		safeStructs[f.Struct] = true
	}
	// pass 2: every other mention of the safe types; every store into a safe field
	for _, n := range fileNames {
		f := p.files[n]
		imp := c18Imports(f)
		var cur *ast.FuncDecl
		funcName := func() string {
			if cur == nil {
				return "<package>"
			}
			return cur.Name.Name
		}
		var visit func(nd ast.Node) bool
		visit = func(nd ast.Node) bool {
			switch x := nd.(type) {
			case *ast.FuncDecl:
				cur = x
				ast.Inspect(x.Type, visit)
				if x.Body != nil {
					ast.Inspect(x.Body, visit)
				}
				cur = nil
				return false
			case *ast.SelectorExpr:
				if kind, ok := c18IsSafeType(imp, x); ok && !accounted[x] {
					others = append(others, fmt.Sprintf("%s: %s in %s", p.pos(x), kind, funcName()))
				}
			case *ast.CompositeLit:
				tname := ""
				if id, ok := x.Type.(*ast.Ident); ok {
					tname = id.Name
				}
				for _, el := range x.Elts {
					kv, ok := el.(*ast.KeyValueExpr)
					if !ok {
						if safeStructs[tname] {
							writes = append(writes, c18Write{Pos: p.pos(el), Func: funcName(), Field: "<positional " + tname + ">", Direct: false})
						}
						continue
					}
					if id, ok := kv.Key.(*ast.Ident); ok && safeFieldNames[id.Name] {
						writes = append(writes, c18Write{Pos: p.pos(kv), Func: funcName(), Field: id.Name, Direct: siteCalls[kv.Value]})
					}
				}
			case *ast.AssignStmt:
				for i, l := range x.Lhs {
					if sel, ok := l.(*ast.SelectorExpr); ok && safeFieldNames[sel.Sel.Name] {
						direct := false
						if len(x.Rhs) == len(x.Lhs) {
							direct = siteCalls[x.Rhs[i]]
						}
						writes = append(writes, c18Write{Pos: p.pos(x), Func: funcName(), Field: sel.Sel.Name, Direct: direct})
					}
				}
			case *ast.UnaryExpr:
				// &x.Field handed to someone else who may store into it
				if x.Op == token.AND {
					if sel, ok := x.X.(*ast.SelectorExpr); ok && safeFieldNames[sel.Sel.Name] {
						writes = append(writes, c18Write{Pos: p.pos(x), Func: funcName(), Field: "&" + sel.Sel.Name, Direct: false})
					}
				}
			}
			return true
		}
		ast.Inspect(f, visit)
	}

	ctSets, echoes, params, failFmt := c18ResponseFacts(c, fileNames)

	var b strings.Builder
	b.WriteString("import KM.Model.Html\nnamespace KM.Gen\nopen KM.Html\n\n")
	b.WriteString("/-- every `template.HTML/JS/URL/HTMLAttr/CSS/JSStr/Srcset(...)` conversion of cmd/keymasterd -/\n")
	b.WriteString("def rawHtmlSites : List RawSite := [\n")
	for i, s := range sites {
		var ops []string
		var txt []string
		for _, o := range s.Operands {
			ops = append(ops, c18LeanOperand(o))
			if o.Class != "lit" {
				txt = append(txt, o.Text+" : "+o.Class)
			}
		}
		sep := ","
		if i == len(sites)-1 {
			sep = ""
		}
		fmt.Fprintf(&b, "  ⟨%s.toList, %s,\n    [%s]⟩%s  -- %s: %s\n", leanStr(s.Func), c18SafeKinds[s.Kind],
			strings.Join(ops, ",\n     "), sep, s.Pos, strings.Join(txt, "; "))
	}
	b.WriteString("]\n\n")
	b.WriteString("/-- every struct field whose type bypasses html/template's contextual escaping -/\n")
	b.WriteString("def safeFields : List SafeField := [\n")
	for i, f := range fields {
		sep := ","
		if i == len(fields)-1 {
			sep = ""
		}
		fmt.Fprintf(&b, "  ⟨%s.toList, %s.toList, %s⟩%s\n", leanStr(f.Struct), leanStr(f.Field), c18SafeKinds[f.Kind], sep)
	}
	b.WriteString("]\n\n")
	b.WriteString("/-- every store into a field of one of those names -/\n")
	b.WriteString("def safeFieldWrites : List FieldWrite := [\n")
	for i, w := range writes {
		sep := ","
		if i == len(writes)-1 {
			sep = ""
		}
		fmt.Fprintf(&b, "  ⟨%s.toList, %s.toList, %s⟩%s  -- %s\n", leanStr(w.Func), leanStr(w.Field), leanBool(w.Direct), sep, w.Pos)
	}
	b.WriteString("]\n\n")
	fmt.Fprintf(&b, "/-- mentions of those types that are neither a conversion nor a struct field type -/\ndef otherSafeTypeUses : List String := %s\n\n", leanStrList(others))
	b.WriteString("/-- every `ExecuteTemplate` / `Execute` call -/\n")
	b.WriteString("def execSites : List ExecSite := [\n")
	for i, x := range execs {
		sep := ","
		if i == len(execs)-1 {
			sep = ""
		}
		fmt.Fprintf(&b, "  ⟨%s.toList, %s.toList, %s, %s⟩%s  -- %s: %s\n", leanStr(x.Func), leanStr(x.Template), leanBool(x.ToResponse), leanBool(x.OnHtmlTemplate), sep, x.Pos, x.Receiver)
	}
	b.WriteString("]\n\n")
	fmt.Fprintf(&b, "/-- `RuntimeState.htmlTemplate` has type `*\"html/template\".Template` -/\ndef htmlTemplateFieldIsHtmlTemplate : Bool := %s\n\n", leanBool(htmlTemplateField))
	fmt.Fprintf(&b, "/-- calls of a `Funcs` method (custom template functions could return unescaped HTML) -/\ndef templateFuncsCalls : Nat := %d\n", funcsCalls)
	b.WriteString("\n/-- every explicit `Header().Set/Add(\"Content-Type\", v)` -/\ndef contentTypeSets : List CTSet := [\n")
	for i, x := range ctSets {
		sep := ","
		if i == len(ctSets)-1 {
			sep = ""
		}
		vals := "none"
		if x.Known {
			var q []string
			for _, v := range x.Values {
				q = append(q, leanStr(v)+".toList")
			}
			vals = "some [" + strings.Join(q, ", ") + "]"
		}
		fmt.Fprintf(&b, "  ⟨%s.toList, %s, %s⟩%s  -- %s: %s\n", leanStr(x.Func), vals, leanBool(x.RawWriter), sep, x.Pos, x.Text)
	}
	b.WriteString("]\n\n")
	fmt.Fprintf(&b, "/-- format of the plain failure body built in `writeFailureResponse` -/\ndef failureTextFormat : List Char := %s.toList\n", leanStr(failFmt))
	b.WriteString("\nend KM.Gen\n")
	e.lean("C18.lean", b.String())
	e.facts["c18_content_type_sets"] = ctSets
	e.facts["c18_echo_sites"] = echoes
	e.facts["c18_form_params"] = params
	e.facts["c18_form_param_values"] = c18ParamValues(c, fileNames)
	e.facts["c18_failure_text_format"] = failFmt
	e.facts["c18_raw_html_sites"] = sites
	e.facts["c18_safe_fields"] = fields
	e.facts["c18_safe_field_writes"] = writes
	e.facts["c18_other_safe_type_uses"] = others
	e.facts["c18_exec_sites"] = execs
	e.facts["c18_html_template_field_is_html_template"] = htmlTemplateField
	e.facts["c18_template_funcs_calls"] = funcsCalls
}

// c18StructFields records fields (also of nested anonymous structs, pointers, slices, maps)
// whose type mentions a safe html/template type.
func c18StructFields(imp map[string]string, sname string, st *ast.StructType, out *[]c18Field, accounted map[ast.Node]bool) {
	for _, fl := range st.Fields.List {
		var kinds []string
		ast.Inspect(fl.Type, func(nd ast.Node) bool {
			if inner, ok := nd.(*ast.StructType); ok && nd != ast.Node(st) {
				c18StructFields(imp, sname, inner, out, accounted)
				return false
			}
			if sel, ok := nd.(*ast.SelectorExpr); ok {
				if kind, ok := c18IsSafeType(imp, sel); ok {
					accounted[sel] = true
					kinds = append(kinds, kind)
				}
			}
			return true
		})
		for _, kind := range kinds {
			if len(fl.Names) == 0 {
				*out = append(*out, c18Field{Struct: sname, Field: "<embedded>", Kind: kind})
			}
			for _, nm := range fl.Names {
				*out = append(*out, c18Field{Struct: sname, Field: nm.Name, Kind: kind})
			}
		}
	}
}

func c18IsResponseWriterParam(imp map[string]string, fd *ast.FuncDecl, name string) bool {
	if fd.Type.Params == nil {
		return false
	}
	for _, fl := range fd.Type.Params.List {
		for _, nm := range fl.Names {
			if nm.Name == name {
				path, tn, ok := c18Sel(imp, fl.Type)
				return ok && path == "net/http" && tn == "ResponseWriter"
			}
		}
	}
	return false
}

// c18ResponseFacts (round 2): explicit Content-Type headers, error paths whose message is not a
// constant (they may echo request input), form parameter names read anywhere, and the format of
// the plain failure body.
func c18ResponseFacts(c *c18ctx, fileNames []string) ([]c18CTSet, []c18Echo, []string, string) {
	p := c.p
	var sets []c18CTSet
	var echoes []c18Echo
	paramSet := map[string]bool{}
	failFmt := ""
	for _, n := range fileNames {
		f := p.files[n]
		imp := c18Imports(f)
		for _, d := range f.Decls {
			fd, ok := d.(*ast.FuncDecl)
			if !ok || fd.Body == nil {
				continue
			}
			// names of ResponseWriter parameters
			rw := map[string]bool{}
			if fd.Type.Params != nil {
				for _, fl := range fd.Type.Params.List {
					if path, tn, ok := c18Sel(imp, fl.Type); ok && path == "net/http" && tn == "ResponseWriter" {
						for _, nm := range fl.Names {
							rw[nm.Name] = true
						}
					}
				}
			}
			rawWriter := false
			var local []c18CTSet
			ast.Inspect(fd.Body, func(nd ast.Node) bool {
				switch x := nd.(type) {
				case *ast.IndexExpr:
					if sel, ok := x.X.(*ast.SelectorExpr); ok && (sel.Sel.Name == "Form" || sel.Sel.Name == "PostForm") {
						if s, ok := p.evalStr(x.Index); ok {
							paramSet[s] = true
						}
					}
				case *ast.CallExpr:
					sel, ok := x.Fun.(*ast.SelectorExpr)
					if !ok {
						return true
					}
					name := sel.Sel.Name
					// form parameter names
					if (name == "FormValue" || name == "PostFormValue") && len(x.Args) == 1 {
						if s, ok := p.evalStr(x.Args[0]); ok {
							paramSet[s] = true
						}
					}
					if name == "Get" && len(x.Args) == 1 {
						if inner, ok := sel.X.(*ast.SelectorExpr); ok && (inner.Sel.Name == "Form" || inner.Sel.Name == "PostForm") {
							if s, ok := p.evalStr(x.Args[0]); ok {
								paramSet[s] = true
							}
						}
					}
					// raw writes to the response
					if id, ok := sel.X.(*ast.Ident); ok && rw[id.Name] && name == "Write" {
						rawWriter = true
					}
					if path, fn, ok := c18Sel(imp, x.Fun); ok && len(x.Args) >= 1 {
						if id, ok2 := x.Args[0].(*ast.Ident); ok2 && rw[id.Name] &&
							((path == "fmt" && strings.HasPrefix(fn, "Fprint")) || (path == "io" && fn == "WriteString")) {
							rawWriter = true
						}
						if path == "net/http" && fn == "Error" && len(x.Args) == 3 {
							if _, isConst := p.evalStr(x.Args[1]); !isConst || c.shadowed(fd, x.Args[1]) {
								echoes = append(echoes, c18Echo{Pos: p.pos(x), Func: fd.Name.Name, Via: "http.Error", Text: p.str(x.Args[1])})
							}
						}
					}
					if name == "writeFailureResponse" && len(x.Args) == 4 {
						if _, isConst := p.evalStr(x.Args[3]); !isConst || c.shadowed(fd, x.Args[3]) {
							echoes = append(echoes, c18Echo{Pos: p.pos(x), Func: fd.Name.Name, Via: "writeFailureResponse", Text: p.str(x.Args[3])})
						}
					}
					// Header().Set("Content-Type", v)
					if (name == "Set" || name == "Add") && len(x.Args) == 2 {
						if inner, ok := sel.X.(*ast.CallExpr); ok {
							if isel, ok := inner.Fun.(*ast.SelectorExpr); ok && isel.Sel.Name == "Header" {
								if k, ok := p.evalStr(x.Args[0]); ok && strings.EqualFold(k, "Content-Type") {
									cs := c18CTSet{Pos: p.pos(x), Func: fd.Name.Name, Text: p.str(x.Args[1])}
									cs.Values, cs.Known = c18ConstValues(p, c, fd, x.Args[1])
									local = append(local, cs)
								}
							}
						}
					}
					// the failure body
					if fd.Name.Name == "writeFailureResponse" {
						if path, fn, ok := c18Sel(imp, x.Fun); ok && path == "fmt" && fn == "Sprintf" && len(x.Args) == 4 && failFmt == "" {
							if s, ok := p.evalStr(x.Args[0]); ok {
								failFmt = s
							}
						}
					}
				}
				return true
			})
			for _, cs := range local {
				cs.RawWriter = rawWriter
				sets = append(sets, cs)
			}
		}
	}
	var params []string
	for k := range paramSet {
		params = append(params, k)
	}
	sort.Strings(params)
	return sets, echoes, params, failFmt
}

// c18ConstValues: the constant(s) an expression can hold: a constant, or a local variable whose
// every assignment is a constant.
func c18ConstValues(p *pkgInfo, c *c18ctx, fd *ast.FuncDecl, e ast.Expr) ([]string, bool) {
	if s, ok := p.evalStr(e); ok && !c.shadowed(fd, e) {
		return []string{s}, true
	}
	id, ok := e.(*ast.Ident)
	if !ok {
		return nil, false
	}
	rhs := assignmentsTo(fd, id.Name)
	if len(rhs) == 0 {
		return nil, false
	}
	var out []string
	for _, r := range rhs {
		s, ok := p.evalStr(r)
		if !ok || c.shadowed(fd, r) {
			return nil, false
		}
		out = append(out, s)
	}
	return out, true
}

// c18ParamValues (round 3): for every form parameter, the string constants the code compares it
// with (`r.Form.Get("p") == "lit"`, `v := r.Form.Get("p"); switch v { case "lit": … }`).  These
// are the request options a handler knows — the generator sends each of them, so that an opt-in
// request option is exercised as soon as it exists in the tree.
func c18ParamValues(c *c18ctx, fileNames []string) map[string][]string {
	p := c.p
	out := map[string]map[string]bool{}
	add := func(param, v string) {
		if out[param] == nil {
			out[param] = map[string]bool{}
		}
		out[param][v] = true
	}
	formParam := func(e ast.Expr) (string, bool) {
		ce, ok := e.(*ast.CallExpr)
		if !ok || len(ce.Args) != 1 {
			return "", false
		}
		sel, ok := ce.Fun.(*ast.SelectorExpr)
		if !ok {
			return "", false
		}
		name, isConst := p.evalStr(ce.Args[0])
		if !isConst {
			return "", false
		}
		switch sel.Sel.Name {
		case "FormValue", "PostFormValue":
			return name, true
		case "Get":
			if inner, ok := sel.X.(*ast.SelectorExpr); ok && (inner.Sel.Name == "Form" || inner.Sel.Name == "PostForm") {
				return name, true
			}
		}
		return "", false
	}
	for _, n := range fileNames {
		for _, d := range p.files[n].Decls {
			fd, ok := d.(*ast.FuncDecl)
			if !ok || fd.Body == nil {
				continue
			}
			local := map[string]string{} // local variable -> form parameter
			ast.Inspect(fd.Body, func(nd ast.Node) bool {
				if as, ok := nd.(*ast.AssignStmt); ok && len(as.Lhs) == len(as.Rhs) {
					for i, l := range as.Lhs {
						if id, ok := l.(*ast.Ident); ok {
							if prm, ok := formParam(as.Rhs[i]); ok {
								local[id.Name] = prm
							}
						}
					}
				}
				return true
			})
			paramOf := func(e ast.Expr) (string, bool) {
				if prm, ok := formParam(e); ok {
					return prm, true
				}
				if id, ok := e.(*ast.Ident); ok {
					prm, ok := local[id.Name]
					return prm, ok
				}
				return "", false
			}
			ast.Inspect(fd.Body, func(nd ast.Node) bool {
				switch x := nd.(type) {
				case *ast.BinaryExpr:
					if x.Op == token.EQL || x.Op == token.NEQ {
						for _, pr := range [][2]ast.Expr{{x.X, x.Y}, {x.Y, x.X}} {
							if prm, ok := paramOf(pr[0]); ok {
								if v, ok := p.evalStr(pr[1]); ok {
									add(prm, v)
								}
							}
						}
					}
				case *ast.SwitchStmt:
					if x.Tag == nil {
						return true
					}
					if prm, ok := paramOf(x.Tag); ok {
						for _, st := range x.Body.List {
							if cc, ok := st.(*ast.CaseClause); ok {
								for _, ce := range cc.List {
									if v, ok := p.evalStr(ce); ok {
										add(prm, v)
									}
								}
							}
						}
					}
				}
				return true
			})
		}
	}
	res := map[string][]string{}
	for k, vs := range out {
		for v := range vs {
			res[k] = append(res[k], v)
		}
		sort.Strings(res[k])
	}
	return res
}
