package main

import (
	"fmt"
	"go/ast"
	"strings"
)

type redirectSite struct {
	Pos   string `json:"pos"`
	Func  string `json:"func"`
	Arg   string `json:"arg"`
	Class string `json:"class"`
}

// isCall reports whether e is a call to pkg.name or name
func isCallTo(e ast.Expr, name string) (*ast.CallExpr, bool) {
	ce, ok := e.(*ast.CallExpr)
	if !ok {
		return nil, false
	}
	switch f := ce.Fun.(type) {
	case *ast.Ident:
		return ce, f.Name == name
	case *ast.SelectorExpr:
		if id, ok := f.X.(*ast.Ident); ok {
			return ce, id.Name+"."+f.Sel.Name == name
		}
		return ce, f.Sel.Name == name
	}
	return ce, false
}

// assignmentsTo collects every RHS assigned to the local identifier name within fd.
func assignmentsTo(fd *ast.FuncDecl, name string) []ast.Expr {
	var out []ast.Expr
	ast.Inspect(fd.Body, func(n ast.Node) bool {
		switch x := n.(type) {
		case *ast.AssignStmt:
			for i, l := range x.Lhs {
				if id, ok := l.(*ast.Ident); ok && id.Name == name {
					if len(x.Rhs) == len(x.Lhs) {
						out = append(out, x.Rhs[i])
					} else if len(x.Rhs) == 1 {
						out = append(out, x.Rhs[0])
					}
				}
			}
		case *ast.ValueSpec:
			for i, nm := range x.Names {
				if nm.Name == name && i < len(x.Values) {
					out = append(out, x.Values[i])
				}
			}
		}
		return true
	})
	return out
}

// classifyRedirectArg: where does the URL handed to http.Redirect come from?
func classifyRedirectArg(p *pkgInfo, fd *ast.FuncDecl, arg ast.Expr, depth int) string {
	local := false
	if id, ok := arg.(*ast.Ident); ok && len(assignmentsTo(fd, id.Name)) > 0 {
		local = true // a local variable shadows any package-level constant of the same name
	}
	if s, ok := p.evalStr(arg); ok && !local {
		return "const:" + s
	}
	if ce, ok := isCallTo(arg, "getLoginDestination"); ok && len(ce.Args) == 1 {
		return "filtered"
	}
	if _, ok := isCallTo(arg, "profileURI"); ok {
		return "profile-uri"
	}
	if ce, ok := isCallTo(arg, "fmt.Sprintf"); ok && len(ce.Args) >= 1 {
		if s, ok := p.evalStr(ce.Args[0]); ok {
			if strings.HasPrefix(s, "%s?code=") && len(ce.Args) >= 2 && p.str(ce.Args[1]) == "requestRedirectURLString" {
				return "oidc-redirect-uri"
			}
			return "sprintf:" + s
		}
	}
	if sel, ok := arg.(*ast.SelectorExpr); ok && sel.Sel.Name == "loginDestination" {
		return "pending-field"
	}
	if ce, ok := arg.(*ast.CallExpr); ok {
		if sel, ok := ce.Fun.(*ast.SelectorExpr); ok && sel.Sel.Name == "AuthCodeURL" {
			return "federation-config"
		}
	}
	if id, ok := arg.(*ast.Ident); ok && depth < 3 {
		rhs := assignmentsTo(fd, id.Name)
		if len(rhs) == 0 {
			return "unknown:" + p.str(arg)
		}
		classes := map[string]bool{}
		for _, r := range rhs {
			classes[classifyRedirectArg(p, fd, r, depth+1)] = true
		}
		// a pending destination defaulted to the profile page is still the pending destination
		if classes["pending-field"] {
			delete(classes, "const:"+mustStr(p, "profilePath"))
		}
		if len(classes) == 1 {
			for c := range classes {
				return c
			}
		}
		var l []string
		for c := range classes {
			l = append(l, c)
		}
		return "mixed:" + strings.Join(sortStrings(l), "|")
	}
	return "unknown:" + p.str(arg)
}

func mustStr(p *pkgInfo, name string) string {
	if ce, ok := p.consts[name]; ok {
		if s, ok := p.evalStr(ce); ok {
			return s
		}
	}
	return ""
}

func sortStrings(l []string) []string {
	for i := range l {
		for j := i + 1; j < len(l); j++ {
			if l[j] < l[i] {
				l[i], l[j] = l[j], l[i]
			}
		}
	}
	return l
}

func init() { register("c17-redirects", genRedirects) }

func genRedirects(e *emitter) {
	p := e.pkg("cmd/keymasterd")
	var sites []redirectSite
	p.eachFunc(func(fd *ast.FuncDecl) {
		ast.Inspect(fd.Body, func(n ast.Node) bool {
			ce, ok := isCallTo2(n, "http.Redirect")
			if !ok || len(ce.Args) != 4 {
				return true
			}
			cl := classifyRedirectArg(p, fd, ce.Args[2], 0)
			sites = append(sites, redirectSite{Pos: p.pos(ce), Func: fd.Name.Name, Arg: p.str(ce.Args[2]), Class: cl})
			return true
		})
	})
	// every value stored into pendingAuth2Request.loginDestination
	var pend []string
	p.eachFunc(func(fd *ast.FuncDecl) {
		ast.Inspect(fd.Body, func(n ast.Node) bool {
			cl, ok := n.(*ast.CompositeLit)
			if !ok || p.str(cl.Type) != "pendingAuth2Request" {
				return true
			}
			for _, el := range cl.Elts {
				if kv, ok := el.(*ast.KeyValueExpr); ok && p.str(kv.Key) == "loginDestination" {
					pend = append(pend, classifyRedirectArg(p, fd, kv.Value, 0))
				}
			}
			return true
		})
	})
	var b strings.Builder
	b.WriteString("import KM.Model.SiteTypes\nnamespace KM.Gen\nopen KM.Site\n\n")
	b.WriteString("/-- every `http.Redirect` call of cmd/keymasterd: (function, class of the URL argument) -/\n")
	b.WriteString("def redirectSites : List (String × RedirClass) := [\n")
	for i, s := range sites {
		sep := ","
		if i == len(sites)-1 {
			sep = ""
		}
		fmt.Fprintf(&b, "  (%s, %s)%s  -- %s: %s\n", leanStr(s.Func), leanClass(s.Class), sep, s.Pos, s.Arg)
	}
	b.WriteString("]\n\n")
	var pl []string
	for _, c := range pend {
		pl = append(pl, leanClass(c))
	}
	fmt.Fprintf(&b, "/-- class of every value stored in `pendingAuth2Request.loginDestination` -/\ndef pendingDestinationSources : List RedirClass := [%s]\n", strings.Join(pl, ", "))
	// the source text (go/printer, whitespace-normalised) of the destination filter itself
	for _, fn := range []string{"getLoginDestination", "isSafeLoginDestination"} {
		src := "<missing>"
		if fd := p.funcs[fn]; fd != nil {
			src = p.str(fd.Body)
		}
		fmt.Fprintf(&b, "def %sSrc : List Char := %s.toList\n", fn, leanStr(src))
	}
	b.WriteString("\nend KM.Gen\n")
	e.lean("Redirects.lean", b.String())
	e.facts["redirect_sites"] = sites
	e.facts["pending_destination_sources"] = pend
}

func isCallTo2(n ast.Node, name string) (*ast.CallExpr, bool) {
	e, ok := n.(ast.Expr)
	if !ok {
		return nil, false
	}
	return isCallTo(e, name)
}

func leanClass(c string) string {
	switch {
	case c == "filtered":
		return "RedirClass.filtered"
	case c == "pending-field":
		return "RedirClass.pendingField"
	case c == "profile-uri":
		return "RedirClass.profileUri"
	case c == "federation-config":
		return "RedirClass.federationConfig"
	case c == "oidc-redirect-uri":
		return "RedirClass.oidcRedirectUri"
	case strings.HasPrefix(c, "const:"):
		return "RedirClass.const " + leanStr(c[6:]) + ".toList"
	case strings.HasPrefix(c, "sprintf:"):
		return "RedirClass.sprintf " + leanStr(c[8:]) + ".toList"
	case strings.HasPrefix(c, "mixed:"):
		return "RedirClass.mixed"
	}
	return "RedirClass.unknown"
}
