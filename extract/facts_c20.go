package main

// C20 — facts about the audit stream: queue capacity and retention constants, the
// event vocabulary, every channel send / mutex region of the notifier, and every
// certificate signing site of cmd/keymasterd with what follows it.

import (
	"fmt"
	"go/ast"
	"go/token"
	"sort"
	"strings"
)

func init() { register("c20-events", genC20) }

type c20Send struct {
	Pos           string `json:"pos"`
	Func          string `json:"func"`
	Class         string `json:"class"`
	OnPublishPath bool   `json:"on_publish_path"`
}

type c20Lock struct {
	Pos   string   `json:"pos"`
	Func  string   `json:"func"`
	Class string   `json:"class"`
	Calls []string `json:"calls"`
}

type c20Site struct {
	Pos    string `json:"pos"`
	Func   string `json:"func"`
	Callee string `json:"callee"`
	Class  string `json:"class"`
	Detail string `json:"detail"`
}

// c20CallName renders the callee of a call expression as "pkg.Name", "Name" or ".Method".
func c20CallName(ce *ast.CallExpr) string {
	switch f := ce.Fun.(type) {
	case *ast.Ident:
		return f.Name
	case *ast.SelectorExpr:
		if id, ok := f.X.(*ast.Ident); ok {
			return id.Name + "." + f.Sel.Name
		}
		return "." + f.Sel.Name
	}
	return "?"
}

func c20SelName(ce *ast.CallExpr) string {
	switch f := ce.Fun.(type) {
	case *ast.Ident:
		return f.Name
	case *ast.SelectorExpr:
		return f.Sel.Name
	}
	return ""
}

// c20CallGraph: function name -> names of package functions it references (calls or function values).
func c20CallGraph(p *pkgInfo) map[string]map[string]bool {
	g := map[string]map[string]bool{}
	p.eachFunc(func(fd *ast.FuncDecl) {
		m := g[fd.Name.Name]
		if m == nil {
			m = map[string]bool{}
			g[fd.Name.Name] = m
		}
		ast.Inspect(fd.Body, func(n ast.Node) bool {
			switch x := n.(type) {
			case *ast.Ident:
				if _, ok := p.funcs[x.Name]; ok {
					m[x.Name] = true
				}
			case *ast.SelectorExpr:
				if _, ok := p.funcs[x.Sel.Name]; ok {
					m[x.Sel.Name] = true
				}
			}
			return true
		})
	})
	return g
}

func c20Reach(g map[string]map[string]bool, roots []string) map[string]bool {
	seen := map[string]bool{}
	var visit func(string)
	visit = func(n string) {
		if seen[n] {
			return
		}
		seen[n] = true
		for m := range g[n] {
			visit(m)
		}
	}
	for _, r := range roots {
		visit(r)
	}
	return seen
}

// ---------------------------------------------------------------- notifier sends and locks

func c20Sends(p *pkgInfo) []c20Send {
	g := c20CallGraph(p)
	var roots []string
	for n := range p.funcs {
		if strings.HasPrefix(n, "Publish") {
			roots = append(roots, n)
		}
	}
	sort.Strings(roots)
	onPath := c20Reach(g, roots)
	var out []c20Send
	p.eachFunc(func(fd *ast.FuncDecl) {
		var walk func(n ast.Node, inGo bool, selDefault bool)
		walk = func(n ast.Node, inGo bool, selDefault bool) {
			if n == nil {
				return
			}
			switch x := n.(type) {
			case *ast.GoStmt:
				walk(x.Call, true, false)
				return
			case *ast.SelectStmt:
				hasDefault := false
				for _, c := range x.Body.List {
					if cc, ok := c.(*ast.CommClause); ok && cc.Comm == nil {
						hasDefault = true
					}
				}
				for _, c := range x.Body.List {
					cc := c.(*ast.CommClause)
					if cc.Comm != nil {
						walk(cc.Comm, inGo, hasDefault)
					}
					for _, s := range cc.Body {
						walk(s, inGo, false)
					}
				}
				return
			case *ast.SendStmt:
				cl := "blocking"
				if selDefault {
					cl = "selectDefault"
				} else if inGo {
					cl = "goroutine"
				}
				out = append(out, c20Send{Pos: p.pos(x), Func: fd.Name.Name, Class: cl, OnPublishPath: onPath[fd.Name.Name]})
				return
			}
			// generic descent over children, keeping the flags (selDefault only applies to the Comm itself)
			ast.Inspect(n, func(c ast.Node) bool {
				if c == n || c == nil {
					return true
				}
				walk(c, inGo, false)
				return false
			})
		}
		walk(fd.Body, false, false)
	})
	return out
}

func c20IsMutexCall(s ast.Stmt, method string) bool {
	var ce *ast.CallExpr
	switch x := s.(type) {
	case *ast.ExprStmt:
		ce, _ = x.X.(*ast.CallExpr)
	case *ast.DeferStmt:
		ce = x.Call
	}
	if ce == nil {
		return false
	}
	sel, ok := ce.Fun.(*ast.SelectorExpr)
	return ok && sel.Sel.Name == method
}

// c20Locks: every region between Lock() and Unlock() (or the rest of the body after
// `defer Unlock()`) with the calls / channel operations found inside it.
func c20Locks(p *pkgInfo) []c20Lock {
	var out []c20Lock
	allowed := map[string]bool{"delete": true, "len": true, "make": true}
	classify := func(fn string, pos ast.Node, region []ast.Stmt, closed bool) {
		var calls []string
		blocking := false
		var walk func(n ast.Node, selDefault bool)
		walk = func(n ast.Node, selDefault bool) {
			if n == nil {
				return
			}
			switch x := n.(type) {
			case *ast.SelectStmt:
				hasDefault := false
				for _, c := range x.Body.List {
					if cc, ok := c.(*ast.CommClause); ok && cc.Comm == nil {
						hasDefault = true
					}
				}
				for _, c := range x.Body.List {
					cc := c.(*ast.CommClause)
					if cc.Comm != nil {
						walk(cc.Comm, hasDefault)
					}
					for _, s := range cc.Body {
						walk(s, false)
					}
				}
				return
			case *ast.SendStmt:
				if !selDefault {
					blocking = true
				}
				return
			case *ast.UnaryExpr:
				if x.Op == token.ARROW && !selDefault {
					blocking = true
				}
			case *ast.CallExpr:
				nm := c20CallName(x)
				if !allowed[nm] {
					calls = append(calls, nm)
				}
			case *ast.DeferStmt:
				if c20IsMutexCall(x, "Unlock") {
					return
				}
			}
			ast.Inspect(n, func(c ast.Node) bool {
				if c == n || c == nil {
					return true
				}
				walk(c, false)
				return false
			})
		}
		for _, s := range region {
			walk(s, false)
		}
		cl := "nonBlocking"
		if !closed {
			cl = "unknown"
		} else if blocking || len(calls) > 0 {
			cl = "mayBlock"
		}
		out = append(out, c20Lock{Pos: p.pos(pos), Func: fn, Class: cl, Calls: calls})
	}
	var scanBody func(fn string, body *ast.BlockStmt)
	scanBody = func(fn string, body *ast.BlockStmt) {
		lit := 0
		var scanList func(list []ast.Stmt)
		scanList = func(list []ast.Stmt) {
			for i, s := range list {
				if _, isDefer := s.(*ast.DeferStmt); !isDefer && c20IsMutexCall(s, "Lock") {
					if i+1 < len(list) {
						if _, ok := list[i+1].(*ast.DeferStmt); ok && c20IsMutexCall(list[i+1], "Unlock") {
							classify(fn, s, list[i+2:], true)
							continue
						}
					}
					closed := false
					for j := i + 1; j < len(list); j++ {
						if _, isDefer := list[j].(*ast.DeferStmt); !isDefer && c20IsMutexCall(list[j], "Unlock") {
							classify(fn, s, list[i+1:j], true)
							closed = true
							break
						}
					}
					if !closed {
						classify(fn, s, list[i+1:], false)
					}
				}
			}
			// nested blocks and function literals
			for _, s := range list {
				ast.Inspect(s, func(n ast.Node) bool {
					switch x := n.(type) {
					case *ast.FuncLit:
						lit++
						scanBody(fmt.Sprintf("%s$%d", fn, lit), x.Body)
						return false
					case *ast.BlockStmt:
						scanList(x.List)
						return false
					case *ast.CaseClause:
						scanList(x.Body)
						return false
					case *ast.CommClause:
						scanList(x.Body)
						return false
					}
					return true
				})
			}
		}
		scanList(body.List)
	}
	p.eachFunc(func(fd *ast.FuncDecl) { scanBody(fd.Name.Name, fd.Body) })
	return out
}

// ---------------------------------------------------------------- signing sites

// c20SigningFuncs: exported functions of lib/certgen that (transitively) call
// x509.CreateCertificate or <cert>.SignCert.
func c20SigningFuncs(p *pkgInfo) map[string]bool {
	direct := map[string]bool{}
	p.eachFunc(func(fd *ast.FuncDecl) {
		ast.Inspect(fd.Body, func(n ast.Node) bool {
			if ce, ok := n.(*ast.CallExpr); ok {
				nm := c20CallName(ce)
				if nm == "x509.CreateCertificate" || c20SelName(ce) == "SignCert" {
					direct[fd.Name.Name] = true
				}
			}
			return true
		})
	})
	g := c20CallGraph(p)
	res := map[string]bool{}
	for n := range p.funcs {
		r := c20Reach(g, []string{n})
		for d := range direct {
			if r[d] {
				res[n] = true
			}
		}
	}
	return res
}

// c20ConfigOnly: functions referenced only from the configuration generator
// (`keymasterd -generateConfig`), computed as a least fixed point from generateNewConfig.
func c20ConfigOnly(p *pkgInfo) map[string]bool {
	g := c20CallGraph(p)
	callers := map[string]map[string]bool{}
	for f, m := range g {
		for c := range m {
			if c == f {
				continue
			}
			if callers[c] == nil {
				callers[c] = map[string]bool{}
			}
			callers[c][f] = true
		}
	}
	set := map[string]bool{}
	for _, r := range []string{"generateNewConfig", "generateNewConfigInternal"} {
		if _, ok := p.funcs[r]; ok {
			set[r] = true
		}
	}
	for changed := true; changed; {
		changed = false
		for f := range p.funcs {
			if set[f] || len(callers[f]) == 0 {
				continue
			}
			all := true
			for c := range callers[f] {
				if !set[c] {
					all = false
				}
			}
			if all {
				set[f] = true
				changed = true
			}
		}
	}
	return set
}

// shallow: does the statement itself (not its nested blocks / function literals) contain node pred?
func c20ShallowFind(s ast.Stmt, pred func(*ast.CallExpr) bool) *ast.CallExpr {
	var found *ast.CallExpr
	ast.Inspect(s, func(n ast.Node) bool {
		if found != nil {
			return false
		}
		switch x := n.(type) {
		case *ast.BlockStmt:
			return false
		case *ast.FuncLit:
			return false
		case *ast.CallExpr:
			if pred(x) {
				found = x
				return false
			}
		}
		return true
	})
	return found
}

func c20Mentions(n ast.Node, name string) bool {
	hit := false
	ast.Inspect(n, func(c ast.Node) bool {
		if id, ok := c.(*ast.Ident); ok && id.Name == name {
			hit = true
		}
		return !hit
	})
	return hit
}

func c20IsErrExit(s ast.Stmt) bool {
	is, ok := s.(*ast.IfStmt)
	if !ok || is.Else != nil || len(is.Body.List) == 0 {
		return false
	}
	be, ok := is.Cond.(*ast.BinaryExpr)
	if !ok || be.Op != token.NEQ {
		return false
	}
	x, ok1 := be.X.(*ast.Ident)
	y, ok2 := be.Y.(*ast.Ident)
	if !ok1 || !ok2 || x.Name != "err" || y.Name != "nil" {
		return false
	}
	_, isRet := is.Body.List[len(is.Body.List)-1].(*ast.ReturnStmt)
	return isRet
}

func c20Sites(p *pkgInfo, signing map[string]bool) []c20Site {
	cfgOnly := c20ConfigOnly(p)
	isSign := func(ce *ast.CallExpr) bool {
		nm := c20CallName(ce)
		if nm == "x509.CreateCertificate" || c20SelName(ce) == "SignCert" {
			return true
		}
		return strings.HasPrefix(nm, "certgen.") && signing[strings.TrimPrefix(nm, "certgen.")]
	}
	var out []c20Site
	p.eachFunc(func(fd *ast.FuncDecl) {
		// names of http.ResponseWriter parameters
		var writers []string
		if fd.Type.Params != nil {
			for _, f := range fd.Type.Params.List {
				if p.str(f.Type) == "http.ResponseWriter" {
					for _, n := range f.Names {
						writers = append(writers, n.Name)
					}
				}
			}
		}
		var scan func(list []ast.Stmt)
		scan = func(list []ast.Stmt) {
			for i, s := range list {
				if ce := c20ShallowFind(s, isSign); ce != nil {
					out = append(out, c20Classify(p, fd, cfgOnly, writers, list, i, ce))
				}
				ast.Inspect(s, func(n ast.Node) bool {
					switch x := n.(type) {
					case *ast.BlockStmt:
						scan(x.List)
						return false
					case *ast.CaseClause:
						scan(x.Body)
						return false
					case *ast.CommClause:
						scan(x.Body)
						return false
					}
					return true
				})
			}
		}
		scan(fd.Body.List)
	})
	return out
}

func c20Classify(p *pkgInfo, fd *ast.FuncDecl, cfgOnly map[string]bool, writers []string,
	list []ast.Stmt, i int, ce *ast.CallExpr) c20Site {
	callee := c20CallName(ce)
	site := c20Site{Pos: p.pos(ce), Func: fd.Name.Name, Callee: callee}
	if callee == "certgen.GenSelfSignedCACert" {
		site.Class = "selfSignedCA"
		return site
	}
	if cfgOnly[fd.Name.Name] {
		site.Class = "configGeneration"
		return site
	}
	as, ok := list[i].(*ast.AssignStmt)
	if !ok || len(as.Rhs) != 1 || as.Rhs[0] != ast.Expr(ce) {
		site.Class = "unknown"
		site.Detail = "signing call is not the sole right-hand side of an assignment"
		return site
	}
	kind := "x509"
	idx := 0
	if strings.HasPrefix(callee, "certgen.GenSSH") {
		kind, idx = "ssh", 1
	}
	if c20SelName(ce) == "SignCert" {
		site.Class = "unknown"
		site.Detail = "direct SignCert call"
		return site
	}
	if idx >= len(as.Lhs) {
		site.Class = "unknown"
		return site
	}
	vid, ok := as.Lhs[idx].(*ast.Ident)
	if !ok || vid.Name == "_" {
		site.Class = "unknown"
		site.Detail = "result not bound to a variable"
		return site
	}
	v := vid.Name
	want := v
	if kind == "ssh" {
		want = v + ".Marshal()"
	}
	for _, s := range list[i+1:] {
		if c20IsErrExit(s) {
			continue
		}
		// a publish call?
		if es, ok := s.(*ast.ExprStmt); ok {
			if pc, ok := es.X.(*ast.CallExpr); ok {
				nm := c20CallName(pc)
				if nm == "eventNotifier.PublishX509" || nm == "eventNotifier.PublishSSH" {
					pk := "x509"
					if nm == "eventNotifier.PublishSSH" {
						pk = "ssh"
					}
					if len(pc.Args) == 1 && p.str(pc.Args[0]) == want {
						site.Class = "published:" + kind + ":" + pk
						site.Detail = p.str(pc)
						return site
					}
					site.Class = "unknown"
					site.Detail = "publishes " + p.str(pc.Args[0]) + ", expected " + want
					return site
				}
			}
		}
		if _, ok := s.(*ast.ReturnStmt); ok {
			site.Class = "missing:" + kind
			site.Detail = "reaches `" + p.str(s) + "` without a Publish call"
			return site
		}
		for _, w := range writers {
			if c20Mentions(s, w) {
				site.Class = "missing:" + kind
				site.Detail = "response touched at " + p.pos(s) + " without a Publish call"
				return site
			}
		}
		// the variable must not be rebound in between
		if a2, ok := s.(*ast.AssignStmt); ok {
			for _, l := range a2.Lhs {
				if id, ok := l.(*ast.Ident); ok && id.Name == v {
					site.Class = "unknown"
					site.Detail = "result variable reassigned before publish"
					return site
				}
			}
		}
		switch s.(type) {
		case *ast.IfStmt, *ast.ForStmt, *ast.RangeStmt, *ast.SwitchStmt, *ast.SelectStmt:
			// control flow between signing and publishing that is not an error exit
			site.Class = "unknown"
			site.Detail = "control flow at " + p.pos(s) + " between signing and publish"
			return site
		}
	}
	site.Class = "missing:" + kind
	site.Detail = "end of block without a Publish call"
	return site
}

func c20LeanIssue(c string) string {
	k := func(s string) string {
		if s == "ssh" {
			return "CertKind.ssh"
		}
		return "CertKind.x509"
	}
	f := strings.Split(c, ":")
	switch f[0] {
	case "published":
		return "IssueClass.published " + k(f[1]) + " " + k(f[2])
	case "missing":
		return "IssueClass.missing " + k(f[1])
	case "selfSignedCA":
		return "IssueClass.selfSignedCA"
	case "configGeneration":
		return "IssueClass.configGeneration"
	}
	return "IssueClass.unknown"
}

// ---------------------------------------------------------------- constants

func c20FindNegAdd(p *pkgInfo, fn string) (int64, bool) {
	fd, ok := p.funcs[fn]
	if !ok {
		return 0, false
	}
	var v int64
	found := false
	ast.Inspect(fd.Body, func(n ast.Node) bool {
		ce, ok := n.(*ast.CallExpr)
		if !ok || c20SelName(ce) != "Add" || len(ce.Args) != 1 {
			return true
		}
		if ue, ok := ce.Args[0].(*ast.UnaryExpr); ok && ue.Op == token.SUB {
			if x, ok := p.evalInt(ue.X, 0); ok {
				v, found = x, true
			}
		}
		return true
	})
	return v, found
}

func genC20(e *emitter) {
	en := e.pkg("keymasterd/eventnotifier")
	er := e.pkg("eventmon/eventrecorder")
	pe := e.pkg("proto/eventmon")
	cg := e.pkg("lib/certgen")
	kmd := e.pkg("cmd/keymasterd")
	var b strings.Builder
	b.WriteString("import KM.Model.EventSiteTypes\nnamespace KM.Gen\nopen KM.EventSite\n\n")

	// capacity of the per-subscriber channel made in handleConnection
	chanCap := int64(0)
	if fd, ok := en.funcs["handleConnection"]; ok {
		ast.Inspect(fd.Body, func(n ast.Node) bool {
			ce, ok := n.(*ast.CallExpr)
			if !ok || c20CallName(ce) != "make" || len(ce.Args) != 2 {
				return true
			}
			if _, isChan := ce.Args[0].(*ast.ChanType); isChan {
				if v, ok := en.evalInt(ce.Args[1], 0); ok {
					chanCap = v
				}
			}
			return true
		})
	}
	fmt.Fprintf(&b, "/-- capacity of the channel `handleConnection` makes for each subscriber (keymasterd/eventnotifier) -/\ndef notifierChanCap : Nat := %d\n\n", chanCap)

	// retention used by loadEvents and expireOldEvents (nanoseconds in the source)
	loadNs, ok1 := c20FindNegAdd(er, "loadEvents")
	expNs, ok2 := c20FindNegAdd(er, "expireOldEvents")
	if !ok1 {
		loadNs = 0
	}
	if !ok2 {
		expNs = 0
	}
	fmt.Fprintf(&b, "/-- `time.Now().Add(-X)` of loadEvents / expireOldEvents, in seconds -/\ndef recorderLoadRetentionSeconds : Nat := %d\ndef recorderExpireRetentionSeconds : Nat := %d\n", loadNs/1000000000, expNs/1000000000)
	fmt.Fprintf(&b, "def recorderRetentionSubSecondNanos : Nat := %d\n\n", loadNs%1000000000+expNs%1000000000)

	// the deferred save of eventLoop: every saveTimer.Reset(d) and the text of the `<-saveTimer.C` case
	saveDelayNs := int64(-1)
	saveCase := "<missing>"
	nResets := 0
	if fd, ok := er.funcs["eventLoop"]; ok {
		ast.Inspect(fd.Body, func(n ast.Node) bool {
			switch x := n.(type) {
			case *ast.CallExpr:
				if er.str(x.Fun) == "saveTimer.Reset" && len(x.Args) == 1 {
					nResets++
					if v, ok := er.evalInt(x.Args[0], 0); ok && (saveDelayNs == -1 || saveDelayNs == v) {
						saveDelayNs = v
					} else {
						saveDelayNs = 0
					}
				}
			case *ast.CommClause:
				if x.Comm != nil && er.str(x.Comm) == "<-saveTimer.C" {
					var parts []string
					for _, st := range x.Body {
						parts = append(parts, er.str(st))
					}
					saveCase = strings.Join(parts, " ; ")
				}
			}
			return true
		})
	}
	if saveDelayNs < 0 {
		saveDelayNs = 0
	}
	fmt.Fprintf(&b, "/-- `saveTimer.Reset(d)` in eventLoop (all %d sites agree, else 0), milliseconds -/\ndef recorderSaveDelayMillis : Nat := %d\n", nResets, saveDelayNs/1000000)
	fmt.Fprintf(&b, "/-- statements of the `case <-saveTimer.C:` arm of eventLoop (go/printer, whitespace-normalised) -/\ndef recorderSaveCaseSrc : List Char := %s.toList\n\n", leanStr(saveCase))

	// command-line options defined by the recorder package itself (flag.<Kind>("name", default, usage)):
	// the check drives each of them away from its default (generator input only, not a judge parameter)
	type flagT struct {
		Name string `json:"name"`
		Kind string `json:"kind"`
	}
	var recFlags []flagT
	for _, fn := range []string{"eventmon/eventrecorder"} {
		fp := e.pkg(fn)
		for _, f := range fp.files {
			ast.Inspect(f, func(n ast.Node) bool {
				ce, ok := n.(*ast.CallExpr)
				if !ok || len(ce.Args) < 2 {
					return true
				}
				nm := c20CallName(ce)
				if !strings.HasPrefix(nm, "flag.") {
					return true
				}
				kind := strings.TrimSuffix(strings.TrimPrefix(nm, "flag."), "Var")
				idx := 0
				if strings.HasSuffix(nm, "Var") {
					idx = 1
				}
				if idx < len(ce.Args) {
					if name, ok := fp.evalStr(ce.Args[idx]); ok {
						recFlags = append(recFlags, flagT{Name: name, Kind: kind})
					}
				}
				return true
			})
		}
	}
	sort.Slice(recFlags, func(i, j int) bool { return recFlags[i].Name < recFlags[j].Name })

	// vocabulary of proto/eventmon
	var names []string
	for n := range pe.consts {
		names = append(names, n)
	}
	sort.Strings(names)
	strs := map[string]string{}
	for _, n := range names {
		if s, ok := pe.evalStr(pe.consts[n]); ok {
			strs[n] = s
			fmt.Fprintf(&b, "def eventmon%s : String := %s\n", n, leanStr(s))
		}
	}
	b.WriteString("\n")

	sends := c20Sends(en)
	b.WriteString("/-- every channel send of keymasterd/eventnotifier: (function, class, reachable from a Publish* method) -/\n")
	b.WriteString("def notifierSends : List (String × SendClass × Bool) := [\n")
	for i, s := range sends {
		sep := ","
		if i == len(sends)-1 {
			sep = ""
		}
		fmt.Fprintf(&b, "  (%s, SendClass.%s, %s)%s  -- %s\n", leanStr(s.Func), s.Class, leanBool(s.OnPublishPath), sep, s.Pos)
	}
	b.WriteString("]\n\n")
	locks := c20Locks(en)
	b.WriteString("/-- every region of keymasterd/eventnotifier executed while holding the notifier mutex -/\n")
	b.WriteString("def notifierLockedRegions : List (String × LockClass) := [\n")
	for i, s := range locks {
		sep := ","
		if i == len(locks)-1 {
			sep = ""
		}
		fmt.Fprintf(&b, "  (%s, LockClass.%s)%s  -- %s calls=%v\n", leanStr(s.Func), s.Class, sep, s.Pos, s.Calls)
	}
	b.WriteString("]\n\n")

	signing := c20SigningFuncs(cg)
	var sn []string
	for n := range signing {
		if ast.IsExported(n) {
			sn = append(sn, n)
		}
	}
	sort.Strings(sn)
	sites := c20Sites(kmd, signing)
	fmt.Fprintf(&b, "/-- exported functions of lib/certgen that sign (reach x509.CreateCertificate / SignCert) -/\ndef certgenSigningFuncs : List String := %s\n\n", leanStrList(sn))
	b.WriteString("/-- every certificate signing call of cmd/keymasterd: (function, callee, what follows it) -/\n")
	b.WriteString("def issueSites : List (String × String × IssueClass) := [\n")
	for i, s := range sites {
		sep := ","
		if i == len(sites)-1 {
			sep = ""
		}
		fmt.Fprintf(&b, "  (%s, %s, %s)%s  -- %s %s\n", leanStr(s.Func), leanStr(s.Callee), c20LeanIssue(s.Class), sep, s.Pos, s.Detail)
	}
	b.WriteString("]\n\nend KM.Gen\n")
	e.lean("Events.lean", b.String())
	e.facts["c20"] = map[string]interface{}{
		"notifier_chan_cap": chanCap, "recorder_flags": recFlags, "save_delay_ms": saveDelayNs / 1000000, "save_case_src": saveCase, "load_retention_s": loadNs / 1000000000, "expire_retention_s": expNs / 1000000000,
		"eventmon": strs, "sends": sends, "locks": locks, "signing_funcs": sn, "issue_sites": sites,
	}
}
