// Command extract reads /repo's current working tree with go/ast (stdlib only) and
// regenerates the facts the Lean theorems are stated over: constants, the route
// table of main(), and per-site structural facts. Output: facts.json + KM/Gen/*.lean.
package main

import (
	"bytes"
	"encoding/json"
	"flag"
	"fmt"
	"go/ast"
	"go/parser"
	"go/printer"
	"go/token"
	"os"
	"path/filepath"
	"sort"
	"strings"
)

type pkgInfo struct {
	dir    string
	fset   *token.FileSet
	files  map[string]*ast.File
	funcs  map[string]*ast.FuncDecl // by name (methods by bare name; collisions keep first)
	consts map[string]ast.Expr
	cgroup map[string][]*ast.ValueSpec // const name -> specs of its const block up to and including it
	cindex map[string]int              // iota value
	vars   map[string]ast.Expr
}

func (p *pkgInfo) str(n ast.Node) string {
	if n == nil {
		return ""
	}
	var b bytes.Buffer
	printer.Fprint(&b, p.fset, n)
	return strings.Join(strings.Fields(b.String()), " ")
}

func (p *pkgInfo) pos(n ast.Node) string {
	ps := p.fset.Position(n.Pos())
	return fmt.Sprintf("%s:%d", filepath.Base(ps.Filename), ps.Line)
}

func (p *pkgInfo) file(n ast.Node) string {
	return filepath.Base(p.fset.Position(n.Pos()).Filename)
}

func load(repo, rel string) *pkgInfo {
	p := &pkgInfo{dir: rel, fset: token.NewFileSet(), files: map[string]*ast.File{},
		funcs: map[string]*ast.FuncDecl{}, consts: map[string]ast.Expr{},
		cgroup: map[string][]*ast.ValueSpec{}, cindex: map[string]int{}, vars: map[string]ast.Expr{}}
	dir := filepath.Join(repo, rel)
	ents, err := os.ReadDir(dir)
	if err != nil {
		fatal("read %s: %v", dir, err)
	}
	for _, e := range ents {
		n := e.Name()
		if !strings.HasSuffix(n, ".go") || strings.HasSuffix(n, "_test.go") {
			continue
		}
		f, err := parser.ParseFile(p.fset, filepath.Join(dir, n), nil, parser.ParseComments)
		if err != nil {
			fatal("parse %s: %v", n, err)
		}
		// honour build constraints crudely: skip files guarded by a `verif` or non-linux tag
		skip := false
		for _, cg := range f.Comments {
			if cg.Pos() > f.Package {
				break
			}
			for _, c := range cg.List {
				if strings.HasPrefix(c.Text, "//go:build") && (strings.Contains(c.Text, "verif") || strings.Contains(c.Text, "windows") || strings.Contains(c.Text, "darwin")) && !strings.Contains(c.Text, "!") {
					skip = true
				}
			}
		}
		if skip {
			continue
		}
		p.files[n] = f
		for _, d := range f.Decls {
			switch x := d.(type) {
			case *ast.FuncDecl:
				if _, dup := p.funcs[x.Name.Name]; !dup {
					p.funcs[x.Name.Name] = x
				}
			case *ast.GenDecl:
				if x.Tok == token.CONST {
					var lastVals []ast.Expr
					for i, sp := range x.Specs {
						vs := sp.(*ast.ValueSpec)
						vals := vs.Values
						if len(vals) == 0 {
							vals = lastVals
						} else {
							lastVals = vals
						}
						for j, nm := range vs.Names {
							if j < len(vals) {
								p.consts[nm.Name] = vals[j]
								p.cindex[nm.Name] = i
							}
						}
					}
				}
				if x.Tok == token.VAR {
					for _, sp := range x.Specs {
						vs := sp.(*ast.ValueSpec)
						for j, nm := range vs.Names {
							if j < len(vs.Values) {
								p.vars[nm.Name] = vs.Values[j]
							}
						}
					}
				}
			}
		}
	}
	return p
}

func fatal(f string, a ...interface{}) {
	fmt.Fprintf(os.Stderr, "extract: "+f+"\n", a...)
	os.Exit(1)
}

// evalInt evaluates an integer constant expression (iota, shifts, arithmetic,
// references to other constants of the package, time.* units in nanoseconds).
func (p *pkgInfo) evalInt(e ast.Expr, iota int) (int64, bool) {
	switch x := e.(type) {
	case *ast.BasicLit:
		if x.Kind == token.INT {
			var v int64
			_, err := fmt.Sscan(x.Value, &v)
			if err != nil {
				// hex etc.
				var u uint64
				if _, err2 := fmt.Sscanf(x.Value, "%v", &u); err2 == nil {
					return int64(u), true
				}
				return 0, false
			}
			return v, true
		}
	case *ast.Ident:
		if x.Name == "iota" {
			return int64(iota), true
		}
		if ce, ok := p.consts[x.Name]; ok {
			return p.evalInt(ce, p.cindex[x.Name])
		}
	case *ast.ParenExpr:
		return p.evalInt(x.X, iota)
	case *ast.SelectorExpr:
		if id, ok := x.X.(*ast.Ident); ok && id.Name == "time" {
			switch x.Sel.Name {
			case "Nanosecond":
				return 1, true
			case "Microsecond":
				return 1000, true
			case "Millisecond":
				return 1000000, true
			case "Second":
				return 1000000000, true
			case "Minute":
				return 60 * 1000000000, true
			case "Hour":
				return 3600 * 1000000000, true
			}
		}
	case *ast.CallExpr:
		// conversions like time.Duration(x)
		if len(x.Args) == 1 {
			return p.evalInt(x.Args[0], iota)
		}
	case *ast.BinaryExpr:
		a, ok1 := p.evalInt(x.X, iota)
		b, ok2 := p.evalInt(x.Y, iota)
		if !ok1 || !ok2 {
			return 0, false
		}
		switch x.Op {
		case token.SHL:
			return a << uint(b), true
		case token.SHR:
			return a >> uint(b), true
		case token.MUL:
			return a * b, true
		case token.ADD:
			return a + b, true
		case token.SUB:
			return a - b, true
		case token.OR:
			return a | b, true
		case token.AND:
			return a & b, true
		case token.QUO:
			if b != 0 {
				return a / b, true
			}
		}
	}
	return 0, false
}

func (p *pkgInfo) evalStr(e ast.Expr) (string, bool) {
	switch x := e.(type) {
	case *ast.BasicLit:
		if x.Kind == token.STRING {
			var s string
			if strings.HasPrefix(x.Value, "`") {
				return strings.Trim(x.Value, "`"), true
			}
			if err := json.Unmarshal([]byte(x.Value), &s); err == nil {
				return s, true
			}
			// Go escapes not valid in JSON (\x..): fall back to strconv-like handling
			return x.Value, false
		}
	case *ast.Ident:
		if ce, ok := p.consts[x.Name]; ok {
			return p.evalStr(ce)
		}
	case *ast.BinaryExpr:
		if x.Op == token.ADD {
			a, ok1 := p.evalStr(x.X)
			b, ok2 := p.evalStr(x.Y)
			return a + b, ok1 && ok2
		}
	}
	return "", false
}

// enclosingFuncs maps every node position to its FuncDecl
func (p *pkgInfo) eachFunc(fn func(fd *ast.FuncDecl)) {
	names := make([]string, 0, len(p.files))
	for n := range p.files {
		names = append(names, n)
	}
	sort.Strings(names)
	for _, n := range names {
		for _, d := range p.files[n].Decls {
			if fd, ok := d.(*ast.FuncDecl); ok && fd.Body != nil {
				fn(fd)
			}
		}
	}
}

func leanStr(s string) string {
	var b strings.Builder
	b.WriteByte('"')
	for _, r := range s {
		switch {
		case r == '"':
			b.WriteString("\\\"")
		case r == '\\':
			b.WriteString("\\\\")
		case r == '\n':
			b.WriteString("\\n")
		case r == '\t':
			b.WriteString("\\t")
		case r < 0x20 || r == 0x7f:
			fmt.Fprintf(&b, "\\x%02x", r)
		default:
			b.WriteRune(r)
		}
	}
	b.WriteByte('"')
	return b.String()
}

func leanStrList(l []string) string {
	q := make([]string, len(l))
	for i, s := range l {
		q[i] = leanStr(s)
	}
	return "[" + strings.Join(q, ", ") + "]"
}

func leanBool(b bool) string {
	if b {
		return "true"
	}
	return "false"
}

type emitter struct {
	outDir string
	repo   string
	facts  map[string]interface{}
	pkgs   map[string]*pkgInfo
}

// pkg loads (once) the non-test files of a package directory relative to the repo root.
func (e *emitter) pkg(rel string) *pkgInfo {
	if p, ok := e.pkgs[rel]; ok {
		return p
	}
	p := load(e.repo, rel)
	e.pkgs[rel] = p
	return p
}

// registry: one generator per topic / property, each in its own facts_*.go file:
//   func init() { register("c17-redirects", genRedirects) }
var registry = map[string]func(e *emitter){}

func register(name string, f func(e *emitter)) { registry[name] = f }

func (e *emitter) lean(name, body string) {
	hdr := "/- GENERATED by /verif/extract from /repo's working tree — do not edit. -/\n"
	if err := os.WriteFile(filepath.Join(e.outDir, name), []byte(hdr+body), 0644); err != nil {
		fatal("%v", err)
	}
}

func main() {
	repo := flag.String("repo", "/repo", "repository root")
	out := flag.String("out", "", "output directory")
	flag.Parse()
	if *out == "" {
		fatal("-out required")
	}
	os.MkdirAll(*out, 0755)
	e := &emitter{outDir: *out, facts: map[string]interface{}{}}
	e.repo = *repo
	e.pkgs = map[string]*pkgInfo{}
	names := make([]string, 0, len(registry))
	for n := range registry {
		names = append(names, n)
	}
	sort.Strings(names)
	for _, n := range names {
		registry[n](e)
	}
	js, _ := json.MarshalIndent(e.facts, "", " ")
	os.WriteFile(filepath.Join(*out, "facts.json"), js, 0644)
}
