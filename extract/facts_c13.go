package main

// C13: the sequence of tests in CanRedirectToURL / CorsOriginAllowed /
// idpOpenIDCGenericIsCorsOriginAllowed, the host comparison each of the three sites uses,
// the text of the comparison helper, and the redirect step of the authorize handler.

import (
	"fmt"
	"go/ast"
	"go/token"
	"strings"
)

func init() { register("c13-redirect-validator", genC13) }

type c13Step struct {
	Pos  string `json:"pos"`
	Lean string `json:"class"`
	Src  string `json:"src"`
}

const c13Helper = "hostMatchesDomain"

// c13ReturnsFalse: the block only logs and ends in `return false, …`.
func c13ReturnsFalse(p *pkgInfo, b *ast.BlockStmt) bool {
	if b == nil || len(b.List) == 0 {
		return false
	}
	for _, s := range b.List[:len(b.List)-1] {
		es, ok := s.(*ast.ExprStmt)
		if !ok || !strings.HasPrefix(p.str(es.X), "logger.") {
			return false
		}
	}
	rs, ok := b.List[len(b.List)-1].(*ast.ReturnStmt)
	return ok && len(rs.Results) >= 1 && p.str(rs.Results[0]) == "false"
}

// c13AlwaysReturns: the block's last statement is a return (every path through it leaves the function).
func c13AlwaysReturns(b *ast.BlockStmt) bool {
	if b == nil || len(b.List) == 0 {
		return false
	}
	_, ok := b.List[len(b.List)-1].(*ast.ReturnStmt)
	return ok
}

func c13Cmp(p *pkgInfo, src string) string {
	switch src {
	case "strings.HasSuffix(parsedURL.Hostname(), domain)":
		return "HostCmp.hasSuffixNoDot"
	case c13Helper + "(parsedURL.Hostname(), domain)":
		if fd, ok := p.funcs[c13Helper]; ok && fd.Recv == nil && p.str(fd.Type) == "func(host, domain string) bool" {
			return "HostCmp.dotBoundary"
		}
	}
	return "HostCmp.unknown"
}

func c13Chars(s string) string { return leanStr(s) + ".toList" }

// c13DomainLoop recognises `for _, domain := range client.AllowedRedirectDomains { matched := CMP; if matched { TAIL } }`.
func c13DomainLoop(p *pkgInfo, s ast.Stmt, tail string) (string, bool) {
	rs, ok := s.(*ast.RangeStmt)
	if !ok || p.str(rs.Key) != "_" || p.str(rs.Value) != "domain" || rs.Tok != token.DEFINE ||
		p.str(rs.X) != "client.AllowedRedirectDomains" || len(rs.Body.List) != 2 {
		return "", false
	}
	as, ok := rs.Body.List[0].(*ast.AssignStmt)
	if !ok || len(as.Lhs) != 1 || len(as.Rhs) != 1 || p.str(as.Lhs[0]) != "matched" || as.Tok != token.DEFINE {
		return "", false
	}
	if p.str(rs.Body.List[1]) != "if matched { "+tail+" }" {
		return "", false
	}
	return c13Cmp(p, p.str(as.Rhs[0])), true
}

func c13Classify(p *pkgInfo, fd *ast.FuncDecl, s ast.Stmt, prev string) string {
	src := p.str(s)
	arg := ""
	if fd.Type.Params != nil && len(fd.Type.Params.List) > 0 && len(fd.Type.Params.List[0].Names) > 0 {
		arg = fd.Type.Params.List[0].Names[0].Name
	}
	switch x := s.(type) {
	case *ast.IfStmt:
		if x.Init != nil || x.Else != nil {
			break
		}
		cond := p.str(x.Cond)
		body := ""
		if len(x.Body.List) == 1 {
			body = p.str(x.Body.List[0])
		}
		switch {
		case cond == "len(client.AllowedRedirectDomains) < 1 && len(client.AllowedRedirectURLRE) < 1" && c13ReturnsFalse(p, x.Body):
			return "Step.noConfigReject"
		case cond == "err != nil" && prev == "Step.parse" && c13ReturnsFalse(p, x.Body):
			return "Step.parseErrReject"
		case cond == "len(parsedURL.RawQuery) > 0" && c13ReturnsFalse(p, x.Body):
			return "Step.rawQueryReject"
		case cond == `parsedURL.Hostname() == ""` && c13ReturnsFalse(p, x.Body):
			return "Step.hostEmptyReject"
		case cond == "len(client.AllowedRedirectDomains) < 1" && body == "return matchedRE, parsedURL, nil":
			return "Step.noDomainsReturnRE"
		case cond == "len(client.AllowedRedirectURLRE) < 1" && body == "matchedRE = true":
			return "Step.noPatternsSetRE"
		}
		if be, ok := x.Cond.(*ast.BinaryExpr); ok && be.Op == token.NEQ && p.str(be.X) == "parsedURL.Scheme" && c13ReturnsFalse(p, x.Body) {
			if lit, ok := p.evalStr(be.Y); ok {
				return "Step.schemeNeReject " + c13Chars(lit)
			}
		}
		if ce, ok := isCallTo(x.Cond, "strings.Contains"); ok && len(ce.Args) == 2 && p.str(ce.Args[0]) == "parsedURL.Path" && c13ReturnsFalse(p, x.Body) {
			if lit, ok := p.evalStr(ce.Args[1]); ok {
				return "Step.pathContainsReject " + c13Chars(lit)
			}
		}
	case *ast.AssignStmt:
		switch src {
		case "matchedRE := false":
			return "Step.flagInit " + c13Chars("matchedRE") + " false"
		case "matchedDomain := false":
			return "Step.flagInit " + c13Chars("matchedDomain") + " false"
		case "parsedURL, err := url.Parse(" + arg + ")":
			if arg != "" {
				return "Step.parse"
			}
		}
	case *ast.RangeStmt:
		if arg != "" && src == "for _, re := range client.AllowedRedirectURLRE { matched, err := regexp.MatchString(re, "+arg+") if err != nil { return false, nil, err } if matched { matchedRE = true break } }" {
			return "Step.reLoop"
		}
		if cmp, ok := c13DomainLoop(p, s, "matchedDomain = true break"); ok {
			return "Step.domainLoop " + cmp
		}
		if cmp, ok := c13DomainLoop(p, s, "return true, nil"); ok {
			return "Step.domainLoopReturnTrue " + cmp
		}
		if p.str(x.Key) == "_" && p.str(x.Value) == "client" && x.Tok == token.DEFINE &&
			p.str(x.X) == "state.Config.OpenIDConnectIDP.Client" && len(x.Body.List) == 1 {
			if cmp, ok := c13DomainLoop(p, x.Body.List[0], "return true, nil"); ok {
				return "Step.clientsDomainLoopReturnTrue " + cmp
			}
		}
	case *ast.ReturnStmt:
		switch src {
		case "return matchedDomain && matchedRE, parsedURL, nil":
			return "Step.returnBoth"
		case "return false, nil":
			return "Step.returnFalse"
		}
	}
	return "Step.unknown " + c13Chars(src)
}

func c13Steps(p *pkgInfo, name string) []c13Step {
	fd, ok := p.funcs[name]
	if !ok || fd.Body == nil {
		return []c13Step{{Pos: "-", Lean: "Step.unknown " + c13Chars("function "+name+" not found"), Src: ""}}
	}
	var out []c13Step
	prev := ""
	for _, s := range fd.Body.List {
		cl := c13Classify(p, fd, s, prev)
		out = append(out, c13Step{Pos: p.pos(s), Lean: cl, Src: p.str(s)})
		prev = cl
	}
	return out
}

func c13EmitSteps(b *strings.Builder, def, doc string, steps []c13Step) {
	fmt.Fprintf(b, "/-- %s -/\ndef %s : List Step := [\n", doc, def)
	for i, s := range steps {
		sep := ","
		if i == len(steps)-1 {
			sep = ""
		}
		src := s.Src
		if len(src) > 90 {
			src = src[:90] + "…"
		}
		fmt.Fprintf(b, "  %s%s  -- %s: %s\n", s.Lean, sep, s.Pos, src)
	}
	b.WriteString("]\n\n")
}

func genC13(e *emitter) {
	p := e.pkg("cmd/keymasterd")
	var b strings.Builder
	b.WriteString("import KM.Model.RedirectTypes\nnamespace KM.Gen.C13\nopen KM.RedirectSite\n\n")
	can := c13Steps(p, "CanRedirectToURL")
	cors := c13Steps(p, "CorsOriginAllowed")
	gcors := c13Steps(p, "idpOpenIDCGenericIsCorsOriginAllowed")
	c13EmitSteps(&b, "canRedirectSteps", "top-level statements of `CanRedirectToURL`, in source order", can)
	c13EmitSteps(&b, "corsSteps", "top-level statements of `CorsOriginAllowed`", cors)
	c13EmitSteps(&b, "genericCorsSteps", "top-level statements of `idpOpenIDCGenericIsCorsOriginAllowed`", gcors)

	// every comparison of a parsed host name with a configured domain, anywhere in the package
	type site struct {
		Func  string `json:"func"`
		Pos   string `json:"pos"`
		Class string `json:"class"`
		Src   string `json:"src"`
	}
	var sites []site
	p.eachFunc(func(fd *ast.FuncDecl) {
		if fd.Name.Name == c13Helper {
			return
		}
		ast.Inspect(fd.Body, func(n ast.Node) bool {
			ce, ok := n.(*ast.CallExpr)
			if !ok {
				return true
			}
			src := p.str(ce)
			if strings.Contains(src, "Hostname()") && (strings.HasPrefix(src, "strings.HasSuffix(") || strings.HasPrefix(src, "strings.HasPrefix(") ||
				strings.HasPrefix(src, "strings.Contains(") || strings.HasPrefix(src, "strings.EqualFold(") || strings.HasPrefix(src, c13Helper+"(")) {
				sites = append(sites, site{Func: fd.Name.Name, Pos: p.pos(ce), Class: c13Cmp(p, src), Src: src})
				return false
			}
			return true
		})
	})
	b.WriteString("/-- every call that compares a parsed `Hostname()` with something, in cmd/keymasterd: (function, class) -/\n")
	b.WriteString("def hostSites : List (String × HostCmp) := [\n")
	for i, s := range sites {
		sep := ","
		if i == len(sites)-1 {
			sep = ""
		}
		fmt.Fprintf(&b, "  (%s, %s)%s  -- %s: %s\n", leanStr(s.Func), s.Class, sep, s.Pos, s.Src)
	}
	b.WriteString("]\n\n")

	// the helper's body as (condition, returned expression) pairs
	type clause struct {
		Cond string `json:"cond"`
		Ret  string `json:"ret"`
	}
	var helper []clause
	if fd, ok := p.funcs[c13Helper]; ok && fd.Body != nil {
		for _, s := range fd.Body.List {
			switch x := s.(type) {
			case *ast.IfStmt:
				if x.Init == nil && x.Else == nil && len(x.Body.List) == 1 {
					if rs, ok := x.Body.List[0].(*ast.ReturnStmt); ok && len(rs.Results) == 1 {
						helper = append(helper, clause{p.str(x.Cond), p.str(rs.Results[0])})
						continue
					}
				}
				helper = append(helper, clause{"?", p.str(s)})
			case *ast.ReturnStmt:
				if len(x.Results) == 1 {
					helper = append(helper, clause{"", p.str(x.Results[0])})
					continue
				}
				helper = append(helper, clause{"?", p.str(s)})
			default:
				helper = append(helper, clause{"?", p.str(s)})
			}
		}
	}
	b.WriteString("/-- body of `" + c13Helper + "(host, domain string) bool` as (condition, returned expression); \"\" = unconditional -/\n")
	b.WriteString("def hostHelper : List (List Char × List Char) := [\n")
	for i, c := range helper {
		sep := ","
		if i == len(helper)-1 {
			sep = ""
		}
		fmt.Fprintf(&b, "  (%s, %s)%s\n", c13Chars(c.Cond), c13Chars(c.Ret), sep)
	}
	b.WriteString("]\n\n")

	// the redirect step of the authorize handler
	af := map[string]interface{}{}
	lookupCall, validateCall, validatedVar, redirectFmt, redirectFirst := "", "", "", "", ""
	lookupErr, errGuard, okGuard, orderOK := false, false, false, false
	nAssign, nRedirect := 0, 0
	if fd, ok := p.funcs["idpOpenIDCAuthorizationHandler"]; ok && fd.Body != nil {
		list := fd.Body.List
		iLookup, iValidate, iRedirect := -1, -1, -1
		guard := func(i int, cond string) bool {
			if i < 0 || i >= len(list) {
				return false
			}
			is, ok := list[i].(*ast.IfStmt)
			return ok && is.Init == nil && is.Else == nil && p.str(is.Cond) == cond && c13AlwaysReturns(is.Body)
		}
		for i, s := range list {
			if as, ok := s.(*ast.AssignStmt); ok && len(as.Rhs) == 1 {
				if ce, ok := as.Rhs[0].(*ast.CallExpr); ok {
					switch p.str(ce.Fun) {
					case "state.idpOpenIDCGetClientConfig":
						iLookup, lookupCall = i, p.str(s)
						lookupErr = guard(i+1, "err != nil")
					case "oidcClient.CanRedirectToURL":
						iValidate, validateCall = i, p.str(s)
						if len(ce.Args) == 1 {
							validatedVar = p.str(ce.Args[0])
						}
						errGuard = guard(i+1, "err != nil")
						okGuard = guard(i+2, "!ok")
					}
				}
			}
			if es, ok := s.(*ast.ExprStmt); ok {
				if ce, ok := isCallTo(es.X, "http.Redirect"); ok && len(ce.Args) == 4 {
					iRedirect = i
					if id, ok := ce.Args[2].(*ast.Ident); ok {
						for _, rhs := range assignmentsTo(fd, id.Name) {
							if sp, ok := isCallTo(rhs, "fmt.Sprintf"); ok && len(sp.Args) >= 2 {
								redirectFmt, _ = p.evalStr(sp.Args[0])
								redirectFirst = p.str(sp.Args[1])
							}
						}
					}
				}
			}
		}
		ast.Inspect(fd.Body, func(n ast.Node) bool {
			if _, ok := isCallTo2(n, "http.Redirect"); ok {
				nRedirect++
			}
			return true
		})
		if validatedVar != "" {
			nAssign = len(assignmentsTo(fd, validatedVar))
		}
		orderOK = iLookup >= 0 && iLookup < iValidate && iValidate < iRedirect
	}
	fmt.Fprintf(&b, "/-- the redirect step of `idpOpenIDCAuthorizationHandler` -/\ndef authorize : AuthorizeFacts := {\n")
	fmt.Fprintf(&b, "  lookupCall := %s,\n  lookupErrReturns := %s,\n  validateCall := %s,\n  validatedVar := %s,\n",
		c13Chars(lookupCall), leanBool(lookupErr), c13Chars(validateCall), c13Chars(validatedVar))
	fmt.Fprintf(&b, "  errGuardReturns := %s,\n  okGuardReturns := %s,\n  varAssignments := %d,\n  redirectCalls := %d,\n",
		leanBool(errGuard), leanBool(okGuard), nAssign, nRedirect)
	fmt.Fprintf(&b, "  redirectFmt := %s,\n  redirectFirstArg := %s,\n  orderOK := %s }\n", c13Chars(redirectFmt), c13Chars(redirectFirst), leanBool(orderOK))

	// every statement of the package that writes a client's redirect lists or the client table: the
	// handlers must see what the configuration file says (yaml fills the structs; nothing else may)
	type cfgWrite struct {
		Func string `json:"func"`
		Pos  string `json:"pos"`
		Src  string `json:"src"`
	}
	var writes []cfgWrite
	isClientField := func(x ast.Expr) bool {
		for {
			switch y := x.(type) {
			case *ast.IndexExpr:
				x = y.X
				continue
			case *ast.ParenExpr:
				x = y.X
				continue
			case *ast.StarExpr:
				x = y.X
				continue
			}
			break
		}
		sel, ok := x.(*ast.SelectorExpr)
		if !ok {
			return false
		}
		switch sel.Sel.Name {
		case "AllowedRedirectURLRE", "AllowedRedirectDomains", "OpenIDConnectIDP":
			return true
		case "Client":
			return strings.HasSuffix(p.str(sel.X), "OpenIDConnectIDP")
		}
		return false
	}
	p.eachFunc(func(fd *ast.FuncDecl) {
		// local aliases of the client table (clients := state.Config.OpenIDConnectIDP.Client; clients[i].X = …)
		alias := map[string]bool{}
		ast.Inspect(fd.Body, func(n ast.Node) bool {
			if as, ok := n.(*ast.AssignStmt); ok && len(as.Lhs) == len(as.Rhs) {
				for i, r := range as.Rhs {
					if id, ok := as.Lhs[i].(*ast.Ident); ok && strings.Contains(p.str(r), "OpenIDConnectIDP") {
						alias[id.Name] = true
					}
				}
			}
			return true
		})
		ast.Inspect(fd.Body, func(n ast.Node) bool {
			as, ok := n.(*ast.AssignStmt)
			if !ok {
				return true
			}
			for _, l := range as.Lhs {
				hit := isClientField(l)
				if ix, ok := l.(*ast.IndexExpr); ok && !hit {
					if id, ok := ix.X.(*ast.Ident); ok && alias[id.Name] {
						hit = true
					}
				}
				if hit {
					writes = append(writes, cfgWrite{fd.Name.Name, p.pos(as), p.str(as)})
					break
				}
			}
			return true
		})
	})
	b.WriteString("\n/-- every assignment in cmd/keymasterd to a client's redirect lists or to the client table (function, source) -/\n")
	b.WriteString("def clientConfigWrites : List (String × List Char) := [\n")
	for i, w := range writes {
		sep := ","
		if i == len(writes)-1 {
			sep = ""
		}
		fmt.Fprintf(&b, "  (%s, %s)%s  -- %s\n", leanStr(w.Func), c13Chars(w.Src), sep, w.Pos)
	}
	b.WriteString("]\n")
	e.facts["c13_client_config_writes"] = writes
	b.WriteString("\nend KM.Gen.C13\n")
	e.lean("C13.lean", b.String())
	af["lookup"], af["validate"], af["redirect_fmt"], af["redirect_first_arg"] = lookupCall, validateCall, redirectFmt, redirectFirst
	e.facts["c13_tests"] = map[string]interface{}{"CanRedirectToURL": can, "CorsOriginAllowed": cors, "idpOpenIDCGenericIsCorsOriginAllowed": gcors}
	e.facts["c13_host_sites"] = sites
	e.facts["c13_host_helper"] = helper
	e.facts["c13_authorize"] = af
}
