package main

import (
	"fmt"
	"go/ast"
	"sort"
	"strings"
)

// C16: syntactic lockset facts — is every access to the shared in-memory maps (and the
// readiness read of the signer) dominated by a Lock() of the mutex that guards it?

func init() { register("c16-locks", genC16) }

var guardedMaps = map[string]string{
	"localAuthData":      "Mutex",
	"vipPushCookie":      "Mutex",
	"pendingOauth2":      "Mutex",
	"totpLocalRateLimit": "totpLocalTateLimitMutex",
}

type lockAccess struct {
	Func   string `json:"func"`
	Target string `json:"target"`
	Pos    string `json:"pos"`
	Locked bool   `json:"locked"`
}

type lockWalker struct {
	p   *pkgInfo
	fn  string
	out *[]lockAccess
}

func copyHeld(h map[string]bool) map[string]bool {
	c := map[string]bool{}
	for k, v := range h {
		c[k] = v
	}
	return c
}

func endsWithReturn(b *ast.BlockStmt) bool {
	if b == nil || len(b.List) == 0 {
		return false
	}
	_, ok := b.List[len(b.List)-1].(*ast.ReturnStmt)
	return ok
}

// lockCall recognises <recv>.<mutex>.Lock()/Unlock() and returns (mutex field, isLock, ok)
func lockCall(p *pkgInfo, e ast.Expr) (string, bool, bool) {
	ce, ok := e.(*ast.CallExpr)
	if !ok {
		return "", false, false
	}
	se, ok := ce.Fun.(*ast.SelectorExpr)
	if !ok || (se.Sel.Name != "Lock" && se.Sel.Name != "Unlock") {
		return "", false, false
	}
	inner, ok := se.X.(*ast.SelectorExpr)
	if !ok {
		return "", false, false
	}
	if id, ok := inner.X.(*ast.Ident); !ok || (id.Name != "state" && id.Name != "runtimeState") {
		return "", false, false
	}
	return inner.Sel.Name, se.Sel.Name == "Lock", true
}

func (w *lockWalker) scanExpr(n ast.Node, held map[string]bool) {
	if n == nil {
		return
	}
	ast.Inspect(n, func(m ast.Node) bool {
		if _, ok := m.(*ast.FuncLit); ok {
			// a goroutine / closure body starts with nothing held
			w.block(m.(*ast.FuncLit).Body, map[string]bool{})
			return false
		}
		if be, ok := m.(*ast.BinaryExpr); ok {
			// the seal test: any comparison of the signer with nil must happen under state.Mutex
			if t := w.p.str(be); t == "state.Signer == nil" || t == "state.Signer != nil" {
				*w.out = append(*w.out, lockAccess{w.fn, "Signer", w.p.pos(be), held["Mutex"]})
			}
		}
		se, ok := m.(*ast.SelectorExpr)
		if !ok {
			return true
		}
		id, ok := se.X.(*ast.Ident)
		if !ok || (id.Name != "state" && id.Name != "runtimeState") {
			return true
		}
		if mu, ok := guardedMaps[se.Sel.Name]; ok {
			*w.out = append(*w.out, lockAccess{w.fn, se.Sel.Name, w.p.pos(se), held[mu]})
		}
		return true
	})
}

func (w *lockWalker) block(b *ast.BlockStmt, held map[string]bool) map[string]bool {
	if b == nil {
		return held
	}
	for _, st := range b.List {
		held = w.stmt(st, held)
	}
	return held
}

func (w *lockWalker) stmt(st ast.Stmt, held map[string]bool) map[string]bool {
	switch x := st.(type) {
	case *ast.ExprStmt:
		if mu, isLock, ok := lockCall(w.p, x.X); ok {
			held = copyHeld(held)
			held[mu] = isLock
			return held
		}
		w.scanExpr(x.X, held)
	case *ast.DeferStmt:
		if _, _, ok := lockCall(w.p, x.Call); ok {
			return held // deferred unlock: held until the function returns
		}
		w.scanExpr(x.Call, held)
	case *ast.BlockStmt:
		return w.block(x, held)
	case *ast.IfStmt:
		if x.Init != nil {
			held = w.stmt(x.Init, held)
		}
		w.scanExpr(x.Cond, held)
		after := w.block(x.Body, copyHeld(held))
		res := held
		if !endsWithReturn(x.Body) {
			res = intersect(res, after)
		}
		if x.Else != nil {
			var ea map[string]bool
			switch e := x.Else.(type) {
			case *ast.BlockStmt:
				ea = w.block(e, copyHeld(held))
				if !endsWithReturn(e) {
					res = intersect(res, ea)
				}
			default:
				ea = w.stmt(e, copyHeld(held))
				res = intersect(res, ea)
			}
		}
		return res
	case *ast.ForStmt:
		if x.Init != nil {
			held = w.stmt(x.Init, held)
		}
		w.scanExpr(x.Cond, held)
		after := w.block(x.Body, copyHeld(held))
		return intersect(held, after)
	case *ast.RangeStmt:
		w.scanExpr(x.X, held)
		after := w.block(x.Body, copyHeld(held))
		return intersect(held, after)
	case *ast.SwitchStmt:
		if x.Init != nil {
			held = w.stmt(x.Init, held)
		}
		w.scanExpr(x.Tag, held)
		for _, c := range x.Body.List {
			cc := c.(*ast.CaseClause)
			for _, e := range cc.List {
				w.scanExpr(e, held)
			}
			h := copyHeld(held)
			for _, s := range cc.Body {
				h = w.stmt(s, h)
			}
		}
	case *ast.TypeSwitchStmt, *ast.SelectStmt:
		w.scanExpr(x, held)
	case *ast.GoStmt:
		w.scanExpr(x.Call, map[string]bool{})
	default:
		w.scanExpr(st, held)
	}
	return held
}

func intersect(a, b map[string]bool) map[string]bool {
	r := map[string]bool{}
	for k, v := range a {
		if v && b[k] {
			r[k] = true
		}
	}
	return r
}

func genC16(e *emitter) {
	p := e.pkg("cmd/keymasterd")
	var acc []lockAccess
	p.eachFunc(func(fd *ast.FuncDecl) {
		switch fd.Name.Name {
		case "main", "loadVerifyConfigFile": // single-threaded initialisation
			return
		}
		w := &lockWalker{p: p, fn: fd.Name.Name, out: &acc}
		w.block(fd.Body, map[string]bool{})
	})
	sort.Slice(acc, func(i, j int) bool { return acc[i].Pos < acc[j].Pos })
	var b strings.Builder
	b.WriteString("namespace KM.Gen\n\n")
	b.WriteString("/-- every access to a mutex-guarded in-memory map of RuntimeState (and readyz's read of the signer):\n(function, field, dominated by Lock() of the guarding mutex) -/\n")
	b.WriteString("def sharedAccesses : List (List Char × List Char × Bool) := [\n")
	for i, a := range acc {
		sep := ","
		if i == len(acc)-1 {
			sep = ""
		}
		fmt.Fprintf(&b, "  (%s.toList, %s.toList, %s)%s  -- %s\n", leanStr(a.Func), leanStr(a.Target), leanBool(a.Locked), sep, a.Pos)
	}
	b.WriteString("]\n\n")
	// who removes a pending hardware-token login challenge, and who looks one up
	var removers, readers []string
	seenR, seenL := map[string]bool{}, map[string]bool{}
	p.eachFunc(func(fd *ast.FuncDecl) {
		if fd.Body == nil {
			return
		}
		ast.Inspect(fd.Body, func(n ast.Node) bool {
			switch x := n.(type) {
			case *ast.CallExpr:
				if id, ok := x.Fun.(*ast.Ident); ok && id.Name == "delete" && len(x.Args) == 2 {
					if sel, ok := x.Args[0].(*ast.SelectorExpr); ok && sel.Sel.Name == "localAuthData" && !seenR[fd.Name.Name] {
						seenR[fd.Name.Name] = true
						removers = append(removers, fd.Name.Name)
					}
				}
			case *ast.IndexExpr:
				if sel, ok := x.X.(*ast.SelectorExpr); ok && sel.Sel.Name == "localAuthData" && !seenL[fd.Name.Name] {
					seenL[fd.Name.Name] = true
					readers = append(readers, fd.Name.Name)
				}
			}
			return true
		})
	})
	sort.Strings(removers)
	sort.Strings(readers)
	b.WriteString("/-- functions that `delete(state.localAuthData, …)` / that index `state.localAuthData[…]` -/\n")
	fmt.Fprintf(&b, "def challengeRemovers : List (List Char) := %s\n", leanCharLists(removers))
	fmt.Fprintf(&b, "def challengeIndexers : List (List Char) := %s\n", leanCharLists(indexersOrEmpty(readers)))
	b.WriteString("\nend KM.Gen\n")
	e.lean("C16.lean", b.String())
	e.facts["c16_accesses"] = acc
	e.facts["c16_challenge_removers"] = removers
}

func indexersOrEmpty(l []string) []string { return l }

func leanCharLists(l []string) string {
	var parts []string
	for _, x := range l {
		parts = append(parts, leanStr(x)+".toList")
	}
	return "[" + strings.Join(parts, ", ") + "]"
}
