package main

import (
	"fmt"
	"go/ast"
	"go/token"
	"sort"
	"strings"
)

// C09: which routes can reach a signing primitive, and structural facts of the unseal path.

func init() { register("c09-seal", genC09) }

var signingCalls = map[string]bool{
	"NewSigner": true, "GenSSHCertFileString": true, "GenUserX509Cert": true, "GenIPRestrictedX509Cert": true,
	"SignCert": true, "CreateCertificate": true, "NewSignerFromSigner": true,
}

func calledNames(fd *ast.FuncDecl) []string {
	seen := map[string]bool{}
	ast.Inspect(fd.Body, func(n ast.Node) bool {
		if ce, ok := n.(*ast.CallExpr); ok {
			switch f := ce.Fun.(type) {
			case *ast.Ident:
				seen[f.Name] = true
			case *ast.SelectorExpr:
				seen[f.Sel.Name] = true
			}
		}
		// method values passed around (e.g. go state.X(...) are CallExpr already)
		return true
	})
	var l []string
	for k := range seen {
		l = append(l, k)
	}
	sort.Strings(l)
	return l
}

func genC09(e *emitter) {
	p := e.pkg("cmd/keymasterd")
	// direct signers
	direct := map[string]bool{}
	calls := map[string][]string{}
	for name, fd := range p.funcs {
		if fd.Body == nil {
			continue
		}
		cs := calledNames(fd)
		calls[name] = cs
		for _, c := range cs {
			if signingCalls[c] {
				direct[name] = true
			}
		}
		// use of the AWS issuer object signs too
		ast.Inspect(fd.Body, func(n ast.Node) bool {
			if se, ok := n.(*ast.SelectorExpr); ok && se.Sel.Name == "awsCertIssuer" {
				if name != "main" && name != "configureAwsRoles" {
					direct[name] = true
				}
			}
			return true
		})
	}
	// transitive closure over package-local calls
	reach := map[string]bool{}
	var visit func(n string, depth int) bool
	memo := map[string]int{} // 0 unknown, 1 visiting, 2 no, 3 yes
	visit = func(n string, depth int) bool {
		if direct[n] {
			return true
		}
		switch memo[n] {
		case 1, 2:
			return false
		case 3:
			return true
		}
		memo[n] = 1
		for _, c := range calls[n] {
			if _, ok := p.funcs[c]; ok && c != n {
				if visit(c, depth+1) {
					memo[n] = 3
					return true
				}
			}
		}
		memo[n] = 2
		return false
	}
	for n := range p.funcs {
		reach[n] = visit(n, 0)
	}
	// unseal facts
	unsealLocked := false
	if fd := p.funcs["unsealCA"]; fd != nil && len(fd.Body.List) >= 2 {
		unsealLocked = p.str(fd.Body.List[0]) == "state.Mutex.Lock()" && p.str(fd.Body.List[1]) == "defer state.Mutex.Unlock()"
	}
	signerLast := false
	if fd := p.funcs["loadSignersFromPemData"]; fd != nil {
		n := len(fd.Body.List)
		if n >= 2 {
			signerLast = p.str(fd.Body.List[n-2]) == "state.Signer = signer" && p.str(fd.Body.List[n-1]) == "return nil"
		}
		// and no other assignment to state.Signer in the function
		cnt := 0
		ast.Inspect(fd.Body, func(nn ast.Node) bool {
			if as, ok := nn.(*ast.AssignStmt); ok {
				for _, l := range as.Lhs {
					if p.str(l) == "state.Signer" {
						cnt++
					}
				}
			}
			return true
		})
		signerLast = signerLast && cnt == 1
	}
	lockedGuard := false
	if fd := p.funcs["sendFailureToClientIfLocked"]; fd != nil {
		s := p.str(fd.Body)
		i1 := strings.Index(s, "state.Mutex.Lock()")
		i2 := strings.Index(s, "state.Signer == nil")
		i3 := strings.Index(s, "state.Mutex.Unlock()")
		lockedGuard = i1 >= 0 && i1 < i2 && i2 < i3
	}
	// writers of state.Signer outside the unseal path
	var signerWriters []string
	p.eachFunc(func(fd *ast.FuncDecl) {
		ast.Inspect(fd.Body, func(nn ast.Node) bool {
			if as, ok := nn.(*ast.AssignStmt); ok {
				for _, l := range as.Lhs {
					if p.str(l) == "state.Signer" || p.str(l) == "runtimeState.Signer" {
						signerWriters = appendUnique(signerWriters, fd.Name.Name)
					}
				}
			}
			return true
		})
	})
	sort.Strings(signerWriters)
	routes, _ := e.facts["routes"].([]routeFact)
	var b strings.Builder
	b.WriteString("namespace KM.Gen\n\n")
	b.WriteString("/-- per registered route: (path, handler tests the seal first, handler can reach a signing primitive) -/\n")
	b.WriteString("def sealRoutes : List (List Char × Bool × Bool) := [\n")
	type sr struct {
		Path    string `json:"path"`
		Guard   bool   `json:"sealed_guard"`
		Reaches bool   `json:"reaches_signing"`
	}
	var out []sr
	for i, r := range routes {
		sep := ","
		if i == len(routes)-1 {
			sep = ""
		}
		rs := reach[r.Handler]
		if strings.HasPrefix(r.Handler, "?") {
			rs = true // unknown handler: assume the worst
		}
		out = append(out, sr{r.Path, r.Sealed && (r.First == "sealed" || r.First == ""), rs})
		fmt.Fprintf(&b, "  (%s.toList, %s, %s)%s  -- %s\n", leanStr(r.Path), leanBool(r.Sealed && (r.First == "sealed" || r.First == "")), leanBool(rs), sep, r.Handler)
	}
	b.WriteString("]\n\n")
	fmt.Fprintf(&b, "def unsealRunsUnderMutex : Bool := %s\n", leanBool(unsealLocked))
	fmt.Fprintf(&b, "def signerAssignedLast : Bool := %s\n", leanBool(signerLast))
	fmt.Fprintf(&b, "def sealedGuardReadsUnderMutex : Bool := %s\n", leanBool(lockedGuard))
	fmt.Fprintf(&b, "def signerWriters : List (List Char) := [%s]\n",
		strings.Join(mapStr(signerWriters, func(s string) string { return leanStr(s) + ".toList" }), ", "))
	// main(): what happens only after `<-runtimeState.SignerIsReady` (the unseal signal)
	svcAfter, readyAfter, adminBefore, recvCount := false, false, false, 0
	if mainFd := p.funcs["main"]; mainFd != nil && mainFd.Body != nil {
		var recvPos token.Pos
		ast.Inspect(mainFd.Body, func(n ast.Node) bool {
			if u, ok := n.(*ast.UnaryExpr); ok && u.Op == token.ARROW && p.str(u.X) == "runtimeState.SignerIsReady" {
				recvCount++
				recvPos = u.Pos()
			}
			return true
		})
		if recvCount == 1 {
			svc, rdy, adm := 0, 0, 0
			svcOK, rdyOK, admOK := true, true, true
			ast.Inspect(mainFd.Body, func(n ast.Node) bool {
				ce, ok := n.(*ast.CallExpr)
				if !ok {
					return true
				}
				switch p.str(ce.Fun) {
				case "serviceSrv.ListenAndServeTLS":
					svc++
					svcOK = svcOK && ce.Pos() > recvPos
				case "healthserver.SetReady", "adminDashboard.setReady":
					rdy++
					rdyOK = rdyOK && ce.Pos() > recvPos
				case "adminSrv.ListenAndServeTLS":
					adm++
					admOK = admOK && ce.Pos() < recvPos
				}
				return true
			})
			svcAfter, readyAfter, adminBefore = svc == 1 && svcOK, rdy == 2 && rdyOK, adm == 1 && admOK
		}
	}
	b.WriteString("\n/-- main(): the service listener, and both readiness switches, come after the one receive from SignerIsReady;\nthe admin listener (which serves the injector) before it -/\n")
	fmt.Fprintf(&b, "def mainServiceListensAfterUnseal : Bool := %s\n", leanBool(svcAfter))
	fmt.Fprintf(&b, "def mainReadinessSetAfterUnseal : Bool := %s\n", leanBool(readyAfter))
	fmt.Fprintf(&b, "def mainAdminListensBeforeUnseal : Bool := %s\n", leanBool(adminBefore))
	b.WriteString("\nend KM.Gen\n")
	e.lean("C09.lean", b.String())
	e.facts["c09"] = map[string]interface{}{"routes": out, "unseal_locked": unsealLocked, "signer_last": signerLast,
		"guard_locked": lockedGuard, "signer_writers": signerWriters,
		"main_service_after_unseal": svcAfter, "main_readiness_after_unseal": readyAfter, "main_admin_before_unseal": adminBefore}
}
