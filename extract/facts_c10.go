package main

// Facts for C10, regenerated from the working tree:
//   * the thresholds of certgen.ValidatePublicKeyStrength (lib/certgen/certgen.go);
//   * the key-type alternation of the regular expression in getValidSSHPublicKey;
//   * for each of the six issuing paths: where the strength test sits relative to the signing call
//     in the handler body and which HTTP status its false branch answers with;
//   * every call of a signing primitive in cmd/keymasterd with its enclosing function, the callers of
//     the two shared signing helpers and the dispatch of certGenHandler.

import (
	"fmt"
	"go/ast"
	"go/token"
	"sort"
	"strings"
)

func init() { register("c10-keystrength", genC10) }

var httpStatus = map[string]int{
	"StatusOK": 200, "StatusBadRequest": 400, "StatusUnauthorized": 401, "StatusForbidden": 403, "StatusNotFound": 404,
	"StatusMethodNotAllowed": 405, "StatusNotAcceptable": 406, "StatusConflict": 409, "StatusGone": 410,
	"StatusRequestEntityTooLarge": 413, "StatusUnsupportedMediaType": 415, "StatusUnprocessableEntity": 422,
	"StatusTooManyRequests": 429, "StatusInternalServerError": 500, "StatusNotImplemented": 501,
	"StatusBadGateway": 502, "StatusServiceUnavailable": 503,
}

type c10Thresholds struct {
	RsaMinBits   int64    `json:"rsa_min_bits"` // smallest accepted modulus bit length; -1 unknown
	RsaForm      string   `json:"rsa_form"`
	RsaMinE      int64    `json:"rsa_min_e"`
	EcBelow      int64    `json:"ecdsa_refuse_bitsize_below"`
	Ed25519      bool     `json:"ed25519_accepted"`
	DefaultFalse bool     `json:"default_refuses"`
	Unexpected   []string `json:"unexpected"`
}

// lastReturnBool: the bool literal the last statement of a case body returns first ("true"/"false"/"")
func lastReturnBool(body []ast.Stmt) string {
	if len(body) == 0 {
		return ""
	}
	rs, ok := body[len(body)-1].(*ast.ReturnStmt)
	if !ok || len(rs.Results) == 0 {
		return ""
	}
	if id, ok := rs.Results[0].(*ast.Ident); ok {
		return id.Name
	}
	return ""
}

func analyseStrength(p *pkgInfo) c10Thresholds {
	th := c10Thresholds{RsaMinBits: -1, RsaMinE: -1, EcBelow: -1}
	fd := p.funcs["ValidatePublicKeyStrength"]
	if fd == nil || fd.Body == nil {
		th.Unexpected = append(th.Unexpected, "function not found")
		return th
	}
	var sw *ast.TypeSwitchStmt
	for _, st := range fd.Body.List {
		if s, ok := st.(*ast.TypeSwitchStmt); ok {
			sw = s
		} else {
			th.Unexpected = append(th.Unexpected, "statement outside the type switch: "+p.str(st))
		}
	}
	if sw == nil {
		th.Unexpected = append(th.Unexpected, "no type switch")
		return th
	}
	for _, cs := range sw.Body.List {
		cc := cs.(*ast.CaseClause)
		var types []string
		for _, t := range cc.List {
			types = append(types, p.str(t))
		}
		sort.Strings(types)
		key := strings.Join(types, ",")
		// every if in the case body must be `if <cmp> { return false, nil }`
		var cmps []*ast.BinaryExpr
		okShape := true
		for i, st := range cc.Body {
			if is, ok := st.(*ast.IfStmt); ok {
				be, isBin := is.Cond.(*ast.BinaryExpr)
				if !isBin || is.Else != nil || is.Init != nil || lastReturnBool(is.Body.List) != "false" {
					okShape = false
					continue
				}
				cmps = append(cmps, be)
			} else if _, isRet := st.(*ast.ReturnStmt); !(isRet && i == len(cc.Body)-1) {
				okShape = false
			}
		}
		final := lastReturnBool(cc.Body)
		switch {
		case cc.List == nil: // default
			th.DefaultFalse = final == "false" && len(cc.Body) == 1
			if !th.DefaultFalse {
				th.Unexpected = append(th.Unexpected, "default does not simply refuse")
			}
		case key == "*rsa.PublicKey":
			if !okShape || final != "true" {
				th.Unexpected = append(th.Unexpected, "rsa case has an unrecognised shape")
			}
			for _, be := range cmps {
				l := strings.ReplaceAll(p.str(be.X), " ", "")
				v, okv := p.evalInt(be.Y, 0)
				switch {
				case l == "k.Size()" && be.Op == token.LSS && okv:
					th.RsaMinBits, th.RsaForm = 8*(v-1)+1, fmt.Sprintf("k.Size() < %d", v) // Size() = ceil(bits/8)
				case l == "k.N.BitLen()" && be.Op == token.LSS && okv:
					th.RsaMinBits, th.RsaForm = v, fmt.Sprintf("k.N.BitLen() < %d", v)
				case l == "k.E" && be.Op == token.LSS && okv:
					th.RsaMinE = v
				default:
					th.Unexpected = append(th.Unexpected, "rsa: "+p.str(be))
				}
			}
		case key == "*ecdsa.PublicKey":
			if !okShape || final != "true" {
				th.Unexpected = append(th.Unexpected, "ecdsa case has an unrecognised shape")
			}
			for _, be := range cmps {
				l := strings.ReplaceAll(p.str(be.X), " ", "")
				v, okv := p.evalInt(be.Y, 0)
				if l == "k.Curve.Params().BitSize" && be.Op == token.LSS && okv {
					th.EcBelow = v
				} else {
					th.Unexpected = append(th.Unexpected, "ecdsa: "+p.str(be))
				}
			}
		case key == "*ed25519.PublicKey,ed25519.PublicKey" || key == "ed25519.PublicKey":
			th.Ed25519 = final == "true" && len(cc.Body) == 1
			if !th.Ed25519 {
				th.Unexpected = append(th.Unexpected, "ed25519 case has an unrecognised shape")
			}
		default:
			th.Unexpected = append(th.Unexpected, "case "+key)
		}
	}
	return th
}

// ----------------------------------------------------------------------------- issuing paths

type c10Path struct {
	Name     string `json:"name"`
	Pkg      string `json:"pkg"`
	Func     string `json:"func"`
	Sign     string `json:"sign_call"`
	Class    string `json:"class"` // direct | helper | insigner | missing | unknown
	Helper   string `json:"helper,omitempty"`
	Precedes bool   `json:"validation_precedes_signing"`
	Refusal  int    `json:"refusal_status"`
	Detail   string `json:"detail"`
}

func containsCall(p *pkgInfo, n ast.Node, name string) bool {
	found := false
	ast.Inspect(n, func(x ast.Node) bool {
		if ce, ok := x.(*ast.CallExpr); ok && p.str(ce.Fun) == name {
			found = true
		}
		return !found
	})
	return found
}

// statusIn: the http.StatusXxx a failure-writing call inside the block names, when the block ends in return
func statusIn(p *pkgInfo, b *ast.BlockStmt) int {
	if b == nil || len(b.List) == 0 {
		return 0
	}
	if _, ok := b.List[len(b.List)-1].(*ast.ReturnStmt); !ok {
		return 0
	}
	st := 0
	ast.Inspect(b, func(x ast.Node) bool {
		ce, ok := x.(*ast.CallExpr)
		if !ok {
			return true
		}
		fn := p.str(ce.Fun)
		if !(strings.HasSuffix(fn, "writeFailureResponse") || strings.HasSuffix(fn, "FailureWriter") || fn == "http.Error") {
			return true
		}
		for _, a := range ce.Args {
			if sel, ok := a.(*ast.SelectorExpr); ok && p.str(sel.X) == "http" {
				if v, ok := httpStatus[sel.Sel.Name]; ok {
					st = v
				}
			}
		}
		return true
	})
	return st
}

// assignedNames: left-hand identifiers of the top-level assignment statement that contains the call
func assignedNames(st ast.Stmt) []string {
	as, ok := st.(*ast.AssignStmt)
	if !ok {
		return nil
	}
	var out []string
	for _, l := range as.Lhs {
		if id, ok := l.(*ast.Ident); ok {
			out = append(out, id.Name)
		} else {
			out = append(out, "")
		}
	}
	return out
}

// helperUserErrIndex: the helper contains a top-level direct strength test whose `if !v` branch returns
// exactly one non-nil result; that result index is returned (-1: not such a helper)
func helperUserErrIndex(p *pkgInfo, fd *ast.FuncDecl) int {
	if fd == nil || fd.Body == nil {
		return -1
	}
	for i, st := range fd.Body.List {
		if !containsCall(p, st, "certgen.ValidatePublicKeyStrength") {
			continue
		}
		names := assignedNames(st)
		if len(names) < 1 || names[0] == "" {
			return -1
		}
		for _, later := range fd.Body.List[i+1:] {
			is, ok := later.(*ast.IfStmt)
			if !ok || strings.ReplaceAll(p.str(is.Cond), " ", "") != "!"+names[0] || len(is.Body.List) == 0 {
				continue
			}
			rs, ok := is.Body.List[len(is.Body.List)-1].(*ast.ReturnStmt)
			if !ok {
				return -1
			}
			idx := -1
			for k, r := range rs.Results {
				if id, ok := r.(*ast.Ident); ok && id.Name == "nil" {
					continue
				}
				if idx >= 0 {
					return -1
				}
				idx = k
			}
			return idx
		}
	}
	return -1
}

func analysePath(p *pkgInfo, name, pkg, fn, sign string, helpers []string) c10Path {
	res := c10Path{Name: name, Pkg: pkg, Func: fn, Sign: sign, Class: "unknown"}
	fd := p.funcs[fn]
	if fd == nil || fd.Body == nil {
		res.Detail = "function not found"
		return res
	}
	idxSign, idxVal := -1, -1
	var guardVar string
	for i, st := range fd.Body.List {
		if idxSign < 0 && containsCall(p, st, sign) {
			idxSign = i
		}
		if idxVal >= 0 {
			continue
		}
		if containsCall(p, st, "certgen.ValidatePublicKeyStrength") {
			if _, isIf := st.(*ast.IfStmt); isIf {
				continue // nested in a conditional: not a dominating test
			}
			names := assignedNames(st)
			if len(names) >= 1 && names[0] != "" {
				idxVal, guardVar, res.Class = i, "!"+names[0], "direct"
			}
			continue
		}
		for _, h := range helpers {
			if !containsCall(p, st, h) {
				continue
			}
			bare := h[strings.LastIndex(h, ".")+1:]
			k := helperUserErrIndex(p, p.funcs[bare])
			names := assignedNames(st)
			if k >= 0 && k < len(names) && names[k] != "" {
				idxVal, guardVar, res.Class, res.Helper = i, names[k]+"!=nil", "helper", bare
			}
		}
	}
	if idxSign < 0 {
		res.Detail = "signing call not found at the top level of the body"
		return res
	}
	if idxVal < 0 {
		res.Class = "missing"
		// status the handler answers when the signing call itself fails (where a test hidden in the signer ends up)
		names := assignedNames(fd.Body.List[idxSign])
		for _, later := range fd.Body.List[idxSign+1:] {
			if is, ok := later.(*ast.IfStmt); ok && len(names) > 0 &&
				strings.ReplaceAll(p.str(is.Cond), " ", "") == names[len(names)-1]+"!=nil" {
				res.Refusal = statusIn(p, is.Body)
				break
			}
		}
		res.Detail = "no strength test before the signing call in this function"
		return res
	}
	res.Precedes = idxVal < idxSign
	for _, later := range fd.Body.List[idxVal+1:] {
		is, ok := later.(*ast.IfStmt)
		if !ok || strings.ReplaceAll(p.str(is.Cond), " ", "") != guardVar {
			continue
		}
		res.Refusal = statusIn(p, is.Body)
		res.Detail = fmt.Sprintf("test at statement %d, refusal branch `if %s`, signing at statement %d", idxVal, p.str(is.Cond), idxSign)
		break
	}
	return res
}

func leanPathClass(c string) string {
	switch c {
	case "direct":
		return ".direct"
	case "helper":
		return ".helper"
	case "insigner":
		return ".inSigner"
	case "missing":
		return ".missing"
	}
	return ".unknown"
}

func genC10(e *emitter) {
	cg := e.pkg("lib/certgen")
	kmd := e.pkg("cmd/keymasterd")
	aws := e.pkg("lib/server/aws_identity_cert")
	th := analyseStrength(cg)

	// regular expression of getValidSSHPublicKey
	sshRE, sshTypes := "", []string{}
	if fd := kmd.funcs["getValidSSHPublicKey"]; fd != nil {
		ast.Inspect(fd.Body, func(n ast.Node) bool {
			if ce, ok := isCallTo2(n, "regexp.MatchString"); ok && len(ce.Args) == 2 {
				if s, ok := kmd.evalStr(ce.Args[0]); ok {
					sshRE = s
				}
			}
			return true
		})
	}
	if strings.HasPrefix(sshRE, "^(") {
		if end := strings.Index(sshRE, ")"); end > 0 {
			sshTypes = strings.Split(sshRE[2:end], "|")
		}
	}

	paths := []c10Path{
		analysePath(kmd, "ssh", "cmd/keymasterd", "postAuthSSHCertHandler", "certgen.GenSSHCertFileString", []string{"getValidSSHPublicKey"}),
		analysePath(kmd, "x509", "cmd/keymasterd", "postAuthX509CertHandler", "certgen.GenUserX509Cert", nil),
		analysePath(kmd, "x509-kubernetes", "cmd/keymasterd", "postAuthX509CertHandler", "certgen.GenUserX509Cert", nil),
		analysePath(kmd, "role-requesting", "cmd/keymasterd", "roleRequetingCertGenHandler", "state.withParamsGenerateRoleRequestingCert", []string{"state.parseRoleCertGenParams"}),
		analysePath(kmd, "role-refresh", "cmd/keymasterd", "refreshRoleRequestingCertGenHandler", "state.withParamsGenerateRoleRequestingCert", []string{"state.parseRefreshRoleCertGenParams"}),
		analysePath(aws, "aws-role", "lib/server/aws_identity_cert", "requestHandler", "i.generateRoleCert", nil),
	}
	// the AWS handler delegates signing to cmd/keymasterd generateRoleCert: if the handler itself has no test,
	// say whether the signer has one (its refusal then surfaces as the handler's error status)
	signer := analysePath(kmd, "aws-signer", "cmd/keymasterd", "generateRoleCert", "x509.CreateCertificate", nil)
	if paths[5].Class == "missing" && signer.Class == "direct" && signer.Precedes {
		paths[5].Class = "insigner"
		paths[5].Detail = "strength test only inside the CertificateGenerator (cmd/keymasterd generateRoleCert); its error is answered with the handler's generic failure status"
	}
	// dispatch of certGenHandler: case label -> called handler
	type disp struct{ Case, Callee string }
	var dispatch []disp
	if fd := kmd.funcs["certGenHandler"]; fd != nil {
		ast.Inspect(fd.Body, func(n ast.Node) bool {
			sw, ok := n.(*ast.SwitchStmt)
			if !ok || kmd.str(sw.Tag) != "certType" {
				return true
			}
			for _, cs := range sw.Body.List {
				cc := cs.(*ast.CaseClause)
				label := "default"
				if len(cc.List) == 1 {
					if s, ok := kmd.evalStr(cc.List[0]); ok {
						label = s
					}
				}
				callee := "none"
				for _, st := range cc.Body {
					if es, ok := st.(*ast.ExprStmt); ok {
						if ce, ok := es.X.(*ast.CallExpr); ok {
							fn := kmd.str(ce.Fun)
							if strings.HasSuffix(fn, "writeFailureResponse") {
								callee = fmt.Sprintf("refuse:%d", statusIn(kmd, &ast.BlockStmt{List: cc.Body}))
							} else {
								callee = fn[strings.LastIndex(fn, ".")+1:]
							}
						}
					}
				}
				dispatch = append(dispatch, disp{label, callee})
			}
			return false
		})
	}
	// every call of a signing primitive in cmd/keymasterd, and the callers of the shared signing helpers
	prims := map[string]bool{"certgen.GenSSHCertFileString": true, "certgen.GenSSHCertFileStringFromSSSDPublicKey": true,
		"certgen.GenUserX509Cert": true, "certgen.GenIPRestrictedX509Cert": true, "certgen.GenSelfSignedCACert": true,
		"x509.CreateCertificate": true, "ssh.NewCertSigner": true}
	shared := map[string]bool{"state.withParamsGenerateRoleRequestingCert": true, "state.postAuthSSHCertHandler": true,
		"state.postAuthX509CertHandler": true, "state.generateRoleCert": true, "runtimeState.generateRoleCert": true}
	var signSites, sharedCallers []string
	kmd.eachFunc(func(fd *ast.FuncDecl) {
		ast.Inspect(fd.Body, func(n ast.Node) bool {
			switch x := n.(type) {
			case *ast.CallExpr:
				fn := kmd.str(x.Fun)
				if prims[fn] || strings.HasSuffix(fn, ".SignCert") {
					signSites = append(signSites, fd.Name.Name+"→"+fn)
				}
				if shared[fn] {
					sharedCallers = append(sharedCallers, fd.Name.Name+"→"+fn[strings.LastIndex(fn, ".")+1:])
				}
			case *ast.KeyValueExpr: // CertificateGenerator: runtimeState.generateRoleCert
				if kmd.str(x.Key) == "CertificateGenerator" {
					sharedCallers = append(sharedCallers, fd.Name.Name+"→CertificateGenerator="+kmd.str(x.Value))
				}
			}
			return true
		})
	})
	sort.Strings(signSites)
	sort.Strings(sharedCallers)

	// key flow: the expression whose strength is tested vs the expression handed to the signer, per path
	callArg := func(p *pkgInfo, fn, callee string, idx int) string {
		res := "unknown"
		if fd := p.funcs[fn]; fd != nil && fd.Body != nil {
			ast.Inspect(fd.Body, func(n ast.Node) bool {
				if ce, ok := n.(*ast.CallExpr); ok && p.str(ce.Fun) == callee && idx < len(ce.Args) && res == "unknown" {
					res = strings.ReplaceAll(p.str(ce.Args[idx]), " ", "")
				}
				return true
			})
		}
		return res
	}
	fieldRHS := func(p *pkgInfo, fn, lhs string) string {
		res := "unknown"
		if fd := p.funcs[fn]; fd != nil && fd.Body != nil {
			ast.Inspect(fd.Body, func(n ast.Node) bool {
				if as, ok := n.(*ast.AssignStmt); ok && len(as.Lhs) == 1 && len(as.Rhs) == 1 && p.str(as.Lhs[0]) == lhs {
					res = p.str(as.Rhs[0])
				}
				return true
			})
		}
		return res
	}
	type flow struct{ Path, Validated, Signed string }
	var flows []flow
	{ // ssh: the helper parses a string; is it its own parameter, i.e. the very string the handler also hands to the signer?
		parsed := callArg(kmd, "getValidSSHPublicKey", "ssh.ParseAuthorizedKey", 0)
		parsed = strings.TrimSuffix(strings.TrimPrefix(parsed, "[]byte("), ")")
		validated := "local:" + parsed
		if fd := kmd.funcs["getValidSSHPublicKey"]; fd != nil && len(fd.Type.Params.List) == 1 && len(fd.Type.Params.List[0].Names) == 1 &&
			fd.Type.Params.List[0].Names[0].Name == parsed {
			validated = callArg(kmd, "postAuthSSHCertHandler", "getValidSSHPublicKey", 0)
		}
		flows = append(flows, flow{"ssh", validated, callArg(kmd, "postAuthSSHCertHandler", "certgen.GenSSHCertFileString", 1)})
	}
	x509v := callArg(kmd, "postAuthX509CertHandler", "certgen.ValidatePublicKeyStrength", 0)
	x509s := callArg(kmd, "postAuthX509CertHandler", "certgen.GenUserX509Cert", 1)
	flows = append(flows, flow{"x509", x509v, x509s}, flow{"x509-kubernetes", x509v, x509s})
	flows = append(flows, flow{"role-requesting", callArg(kmd, "parseRoleCertGenParams", "certgen.ValidatePublicKeyStrength", 0),
		fieldRHS(kmd, "parseRoleCertGenParams", "rvalue.UserPub")})
	flows = append(flows, flow{"role-refresh", callArg(kmd, "parseRefreshRoleCertGenParams", "certgen.ValidatePublicKeyStrength", 0),
		fieldRHS(kmd, "parseRefreshRoleCertGenParams", "rvalue.UserPub")})
	flows = append(flows, flow{"aws-role", callArg(aws, "requestHandler", "certgen.ValidatePublicKeyStrength", 0),
		callArg(aws, "requestHandler", "i.generateRoleCert", 0)})
	roleSignerArg := callArg(kmd, "withParamsGenerateRoleRequestingCert", "certgen.GenIPRestrictedX509Cert", 1)
	awsSignerV := callArg(kmd, "generateRoleCert", "certgen.ValidatePublicKeyStrength", 0)
	awsSignerS := callArg(kmd, "generateRoleCert", "x509.CreateCertificate", 3)

	var b strings.Builder
	b.WriteString("import KM.Model.KeyTypes\nnamespace KM.Gen.C10\nopen KM.KeyStrength\n\n")
	opt := func(v int64) string {
		if v < 0 {
			return "none"
		}
		return fmt.Sprintf("some %d", v)
	}
	fmt.Fprintf(&b, "/-- `ValidatePublicKeyStrength`, rsa case: smallest accepted modulus bit length (from `%s`) and exponent -/\n", th.RsaForm)
	fmt.Fprintf(&b, "def rsaMinBits : Option Nat := %s\n", opt(th.RsaMinBits))
	fmt.Fprintf(&b, "def rsaMinE : Option Nat := %s\n", opt(th.RsaMinE))
	fmt.Fprintf(&b, "/-- ecdsa case: curves with `BitSize` below this are refused -/\ndef ecdsaBitSizeBelow : Option Nat := %s\n", opt(th.EcBelow))
	fmt.Fprintf(&b, "def ed25519Accepted : Bool := %s\n", leanBool(th.Ed25519))
	fmt.Fprintf(&b, "def defaultRefuses : Bool := %s\n", leanBool(th.DefaultFalse))
	var ux []string
	for _, u := range th.Unexpected {
		ux = append(ux, chars(u))
	}
	fmt.Fprintf(&b, "/-- anything in the function the extractor did not recognise (must be empty) -/\ndef strengthUnrecognised : List (List Char) := [%s]\n\n", strings.Join(ux, ", "))
	var st []string
	for _, t := range sshTypes {
		st = append(st, chars(t))
	}
	fmt.Fprintf(&b, "/-- key types the regular expression of `getValidSSHPublicKey` lets through -/\ndef sshKeyTypes : List (List Char) := [%s]\n\n", strings.Join(st, ", "))
	b.WriteString("/-- the six issuing paths: where the strength test sits and what its false branch answers -/\ndef issuingPaths : List PathFact := [\n")
	for i, pth := range paths {
		sep := ","
		if i == len(paths)-1 {
			sep = ""
		}
		fmt.Fprintf(&b, "  ⟨%s, %s, %s, %s, %d⟩%s  -- %s %s: %s\n", chars(pth.Name), chars(pth.Func), leanPathClass(pth.Class),
			leanBool(pth.Precedes), pth.Refusal, sep, pth.Pkg, pth.Sign, pth.Detail)
	}
	b.WriteString("]\n\n")
	fmt.Fprintf(&b, "/-- the signer behind the AWS path (cmd/keymasterd generateRoleCert) tests strength before x509.CreateCertificate -/\ndef awsSignerTests : Bool := %s\n\n",
		leanBool(signer.Class == "direct" && signer.Precedes))
	var ds []string
	for _, d := range dispatch {
		ds = append(ds, fmt.Sprintf("(%s, %s)", chars(d.Case), chars(d.Callee)))
	}
	fmt.Fprintf(&b, "/-- `switch certType` of certGenHandler: label ↦ handler called (or refusal) -/\ndef certTypeDispatch : List (List Char × List Char) := [%s]\n\n", strings.Join(ds, ", "))
	var ss []string
	for _, s := range signSites {
		ss = append(ss, chars(s))
	}
	fmt.Fprintf(&b, "/-- every call of a signing primitive in cmd/keymasterd: enclosing function → primitive -/\ndef signSites : List (List Char) := [%s]\n\n", strings.Join(ss, ", "))
	var sc []string
	for _, s := range sharedCallers {
		sc = append(sc, chars(s))
	}
	fmt.Fprintf(&b, "/-- callers of the shared signing helpers -/\ndef signerCallers : List (List Char) := [%s]\n", strings.Join(sc, ", "))
	var fl []string
	for _, f := range flows {
		fl = append(fl, fmt.Sprintf("(%s, %s, %s)", chars(f.Path), chars(f.Validated), chars(f.Signed)))
	}
	fmt.Fprintf(&b, "\n/-- per path: (path, expression whose strength is tested, expression handed on to the signer) -/\ndef keyFlow : List (List Char × List Char × List Char) := [%s]\n", strings.Join(fl, ", "))
	fmt.Fprintf(&b, "/-- key argument of the signing call inside withParamsGenerateRoleRequestingCert -/\ndef roleSignerKeyArg : List Char := %s\n", chars(roleSignerArg))
	fmt.Fprintf(&b, "/-- cmd/keymasterd generateRoleCert: expression tested / expression put into the certificate -/\ndef awsSignerFlow : List Char × List Char := (%s, %s)\n", chars(awsSignerV), chars(awsSignerS))
	b.WriteString("\nend KM.Gen.C10\n")
	e.lean("C10.lean", b.String())
	e.facts["c10_key_flow"] = flows
	e.facts["c10"] = map[string]interface{}{"thresholds": th, "ssh_regex": sshRE, "ssh_key_types": sshTypes, "paths": paths,
		"aws_signer": signer, "dispatch": dispatch, "sign_sites": signSites, "signer_callers": sharedCallers}
}
