package main

import (
	"crypto/sha256"
	"fmt"
	"sort"
	"strings"
)

// Source pins: SHA-256 of the whitespace-normalised go/printer text of the function bodies that the
// hand-written Lean models transcribe. A theorem per property compares them with the values
// recorded when the model was (last) checked against the code by hand (lean/KM/Props/PinsExpected.lean).

var pinnedFuncs = map[string][]string{
	"cmd/keymasterd": {
		// C01 / C06
		"checkAuth", "getUsernameIfKeymasterSigned", "getUsernameIfIPRestricted", "getAuthInfoFromJWT",
		"getAuthInfoFromAuthJWT", "certGenHandler", "getRequiredWebUIAuthLevel", "sendFailureToClientIfLocked",
		"sendFailureToClientIfNonAdmin", "commonTOTPPostHandler", "reprocessUsername", "checkUserPassword",
		"checkPasswordAttemptLimit", "getOriginOrReferrer",
		// C09
		"unsealCA", "secretInjectorHandler", "loadSignersFromPemData", "signerPublicKeyToKeymasterKeys",
		"readyzHandler", "isUnsealed", "pgpDecryptFileData",
		// C16
		"LoadUserProfile", "SaveUserProfile", "u2fTokenManagerHandler", "totpTokenManagerHandler",
		"BootstrapOtpAuthHandler", "userBootstrapOtpHash", "performStateCleanup",
		"consumeLoginChallenge", "u2fSignRequest", "u2fSignResponse", "webauthnAuthLogin", "webauthnAuthFinish",
	},
	"lib/certgen": {"VerifyIPRestrictedX509CertIP", "IsIPRestrictedX509Cert"},
}

func init() { register("pins", genPins) }

func genPins(e *emitter) {
	var b strings.Builder
	b.WriteString("namespace KM.Gen.Pins\n\n")
	facts := map[string]string{}
	var dirs []string
	for d := range pinnedFuncs {
		dirs = append(dirs, d)
	}
	sort.Strings(dirs)
	for _, d := range dirs {
		p := e.pkg(d)
		names := append([]string{}, pinnedFuncs[d]...)
		sort.Strings(names)
		for _, fn := range names {
			h := "missing"
			if fd := p.funcs[fn]; fd != nil && fd.Body != nil {
				sum := sha256.Sum256([]byte(p.str(fd.Type) + " " + p.str(fd.Body)))
				h = fmt.Sprintf("%x", sum[:10])
			}
			facts[d+"."+fn] = h
			fmt.Fprintf(&b, "def %s : String := %s\n", fn, leanStr(h))
		}
	}
	b.WriteString("\nend KM.Gen.Pins\n")
	e.lean("Pins.lean", b.String())
	e.facts["pins"] = facts
}
