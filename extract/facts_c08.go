package main

// C08 — who may act on whose profile. For every handler of the operation list:
// which admin gate it consults (and with which arguments), the shape of the refusing
// statement, the pair of names compared in it, the source of every key handed to
// Load/Save/DeleteUserProfile, and whether the refusal precedes the first profile
// access. Plus: every function that writes profiles, the routes of the handlers,
// the bodies of the small helpers the model transcribes, the admincache lifetime.

import (
	"fmt"
	"go/ast"
	"go/token"
	"strconv"
	"strings"
)

func init() { register("c08-admin", genC08) }

var c08HandlerNames = []string{
	"profileHandler", "u2fTokenManagerHandler", "totpTokenManagerHandler",
	"GenerateNewTOTP", "validateNewTOTP",
	"u2fRegisterRequest", "u2fRegisterResponse",
	"webauthnBeginRegistration", "webauthnFinishRegistration",
	"usersHandler", "addUserHandler", "deleteUserHandler", "generateBootstrapOTP",
	"roleRequetingCertGenHandler",
	// not a route handler, but the gate of the four user-administration handlers
	"sendFailureToClientIfNonAdmin",
}

type c08Fact struct {
	Name      string   `json:"name"`
	Gate      string   `json:"gate"`
	Cond      string   `json:"cond"`
	CmpA      string   `json:"cmp_a"`
	CmpB      string   `json:"cmp_b"`
	Keys      []string `json:"keys"`
	GateFirst bool     `json:"gate_first"`
	Where     string   `json:"where"`
	Text      string   `json:"text"`
}

type c08Writer struct {
	Func string   `json:"func"`
	Keys []string `json:"keys"`
}

// ---- name sources -------------------------------------------------------------

func c08IsParam(fd *ast.FuncDecl, name string) bool {
	if fd.Type.Params == nil {
		return false
	}
	for _, f := range fd.Type.Params.List {
		for _, n := range f.Names {
			if n.Name == name {
				return true
			}
		}
	}
	return false
}

type c08Assign struct {
	rhs       ast.Expr
	idx       int  // position among the LHS when the RHS is a single multi-value call
	multi     bool
	defaulted bool // `x = authData.Username` directly inside `if x == "" { … }`
}

// c08Assignments: every assignment to the local identifier name in fd.
func c08Assignments(p *pkgInfo, fd *ast.FuncDecl, name string) []c08Assign {
	var out []c08Assign
	var walk func(n ast.Node, emptyGuard bool)
	walk = func(n ast.Node, emptyGuard bool) {
		if n == nil {
			return
		}
		switch x := n.(type) {
		case *ast.IfStmt:
			if x.Init != nil {
				walk(x.Init, false)
			}
			guard := p.str(x.Cond) == name+` == ""`
			for _, s := range x.Body.List {
				walk(s, guard)
			}
			if x.Else != nil {
				walk(x.Else, false)
			}
			return
		case *ast.AssignStmt:
			for i, l := range x.Lhs {
				if id, ok := l.(*ast.Ident); ok && id.Name == name {
					if len(x.Rhs) == len(x.Lhs) {
						out = append(out, c08Assign{rhs: x.Rhs[i], defaulted: emptyGuard && p.str(x.Rhs[i]) == "authData.Username"})
					} else if len(x.Rhs) == 1 {
						out = append(out, c08Assign{rhs: x.Rhs[0], idx: i, multi: true})
					}
				}
			}
			return
		case *ast.DeclStmt:
			if gd, ok := x.Decl.(*ast.GenDecl); ok {
				for _, sp := range gd.Specs {
					if vs, ok := sp.(*ast.ValueSpec); ok {
						for i, nm := range vs.Names {
							if nm.Name == name && i < len(vs.Values) {
								out = append(out, c08Assign{rhs: vs.Values[i]})
							}
						}
					}
				}
			}
			return
		case *ast.BlockStmt:
			for _, s := range x.List {
				walk(s, false)
			}
			return
		case *ast.FuncLit:
			return
		}
		// generic descent for the remaining statement kinds
		ast.Inspect(n, func(c ast.Node) bool {
			if c == n || c == nil {
				return true
			}
			switch c.(type) {
			case *ast.IfStmt, *ast.AssignStmt, *ast.DeclStmt, *ast.BlockStmt:
				walk(c, false)
				return false
			case *ast.FuncLit:
				return false
			}
			return true
		})
	}
	walk(fd.Body, false)
	return out
}

// c08HelperFirstResultIsAuthUser: does helper return authData.Username as its first
// result on its success path and "" on every other return?
func c08HelperFirstResultIsAuthUser(p *pkgInfo, helper string) bool {
	fd, ok := p.funcs[helper]
	if !ok || fd.Body == nil {
		return false
	}
	good, bad := 0, 0
	ast.Inspect(fd.Body, func(n ast.Node) bool {
		if _, ok := n.(*ast.FuncLit); ok {
			return false
		}
		if rs, ok := n.(*ast.ReturnStmt); ok && len(rs.Results) > 0 {
			switch p.str(rs.Results[0]) {
			case "authData.Username":
				good++
			case `""`:
			default:
				bad++
			}
		}
		return true
	})
	return good == 1 && bad == 0
}

func c08ClassifySrc(p *pkgInfo, fd *ast.FuncDecl, e ast.Expr, depth int) string {
	s := p.str(e)
	switch s {
	case "authData.Username":
		return "authUser"
	case `r.Form.Get("username")`:
		return "formUsername"
	case `r.PostForm.Get("identity")`:
		return "formIdentity"
	case "state.ensurePostAndGetUsername(w, r)":
		return "ensuredFormUsername"
	}
	if ix, ok := e.(*ast.IndexExpr); ok {
		if id, ok := ix.X.(*ast.Ident); ok {
			if lit, ok := ix.Index.(*ast.BasicLit); ok && lit.Kind == token.INT {
				as := c08Assignments(p, fd, id.Name)
				if len(as) == 1 && p.str(as[0].rhs) == `strings.Split(r.URL.Path, "/")` {
					return "pathUser:" + lit.Value
				}
			}
		}
		return "unknown"
	}
	if id, ok := e.(*ast.Ident); ok && depth < 3 {
		if c08IsParam(fd, id.Name) {
			return "param"
		}
		classes := map[string]bool{}
		for _, a := range c08Assignments(p, fd, id.Name) {
			if a.defaulted {
				continue
			}
			if a.multi {
				if ce, ok := a.rhs.(*ast.CallExpr); ok {
					if sel, ok := ce.Fun.(*ast.SelectorExpr); ok && a.idx == 0 && c08HelperFirstResultIsAuthUser(p, sel.Sel.Name) {
						classes["authUser"] = true
						continue
					}
				}
				classes["unknown"] = true
				continue
			}
			classes[c08ClassifySrc(p, fd, a.rhs, depth+1)] = true
		}
		if len(classes) == 1 {
			for c := range classes {
				return c
			}
		}
	}
	return "unknown"
}

// ---- gates --------------------------------------------------------------------

// c08GateCall recognises a call of one of the admin helpers with the expected arguments.
func c08GateCall(p *pkgInfo, e ast.Expr) (string, bool) {
	ce, ok := e.(*ast.CallExpr)
	if !ok {
		return "", false
	}
	sel, ok := ce.Fun.(*ast.SelectorExpr)
	if !ok || p.str(sel.X) != "state" {
		return "", false
	}
	args := make([]string, len(ce.Args))
	for i, a := range ce.Args {
		args[i] = p.str(a)
	}
	j := strings.Join(args, ", ")
	switch sel.Sel.Name {
	case "IsAdminUser":
		if j == "authData.Username" {
			return "isAdminUser", true
		}
		return "unknown", true
	case "IsAdminUserAndU2F":
		if j == "authData.Username, authData.AuthType" {
			return "isAdminUserAndU2F", true
		}
		return "unknown", true
	case "isAutomationAdmin":
		if j == "authData.Username" {
			return "automationAdmin", true
		}
		return "unknown", true
	case "sendFailureToClientIfNonAdmin":
		if j == "w, r" {
			return "nonAdminHelper", true
		}
		return "unknown", true
	}
	return "", false
}

func c08MentionsGate(p *pkgInfo, e ast.Node) bool {
	found := false
	ast.Inspect(e, func(n ast.Node) bool {
		if x, ok := n.(ast.Expr); ok {
			if _, ok := c08GateCall(p, x); ok {
				found = true
			}
		}
		return !found
	})
	return found
}

func c08Unparen(e ast.Expr) ast.Expr {
	for {
		pe, ok := e.(*ast.ParenExpr)
		if !ok {
			return e
		}
		e = pe.X
	}
}

// c08Refuses: the block tells the client and ends with a return.
func c08Refuses(p *pkgInfo, b *ast.BlockStmt, needMessage bool) bool {
	if b == nil || len(b.List) == 0 {
		return false
	}
	if _, ok := b.List[len(b.List)-1].(*ast.ReturnStmt); !ok {
		return false
	}
	if !needMessage {
		return true
	}
	told := false
	for _, s := range b.List {
		t := p.str(s)
		if strings.Contains(t, "http.Error(w,") || strings.Contains(t, "writeFailureResponse(w, r,") {
			told = true
		}
	}
	return told
}

type c08GateHit struct {
	gate, cond, a, b string
	pos              token.Pos
	text             string
}

func c08AnalyseHandler(p *pkgInfo, name string) c08Fact {
	f := c08Fact{Name: name, Gate: "unknown", Cond: "unknown", CmpA: "", CmpB: "", GateFirst: false}
	fd, ok := p.funcs[name]
	if !ok || fd.Body == nil {
		f.Text = "function not found"
		return f
	}
	f.Where = p.pos(fd)
	// local booleans assigned exactly once from a gate call (e.g. hasAdminRights)
	gateVars := map[string]ast.Expr{}
	for _, st := range fd.Body.List {
		if as, ok := st.(*ast.AssignStmt); ok && len(as.Lhs) == 1 && len(as.Rhs) == 1 {
			if id, ok := as.Lhs[0].(*ast.Ident); ok {
				if _, isGate := c08GateCall(p, as.Rhs[0]); isGate && len(c08Assignments(p, fd, id.Name)) == 1 {
					gateVars[id.Name] = as.Rhs[0]
				}
			}
		}
	}
	resolve := func(e ast.Expr) ast.Expr {
		e = c08Unparen(e)
		if id, ok := e.(*ast.Ident); ok {
			if g, ok := gateVars[id.Name]; ok {
				return g
			}
		}
		return e
	}
	notGate := func(e ast.Expr) (string, bool) {
		u, ok := c08Unparen(e).(*ast.UnaryExpr)
		if !ok || u.Op != token.NOT {
			return "", false
		}
		return c08GateCall(p, resolve(u.X))
	}
	var hits []c08GateHit
	unrecognised := false
	// helperFailure with the call in a preceding assignment: `failure, authData := helper(w, r)`
	helperVar := ""
	var helperPos token.Pos
	for _, st := range fd.Body.List {
		switch x := st.(type) {
		case *ast.AssignStmt:
			if len(x.Rhs) == 1 && len(x.Lhs) == 2 {
				if g, ok := c08GateCall(p, x.Rhs[0]); ok && g == "nonAdminHelper" {
					if id, ok := x.Lhs[0].(*ast.Ident); ok {
						helperVar = id.Name
						helperPos = x.Pos()
					}
				} else if ok {
					unrecognised = true
				}
			}
		case *ast.IfStmt:
			// pattern: if failure, _ := helper(w, r); failure { return }
			if as, ok := x.Init.(*ast.AssignStmt); ok && len(as.Rhs) == 1 && len(as.Lhs) == 2 {
				if g, ok := c08GateCall(p, as.Rhs[0]); ok {
					id, _ := as.Lhs[0].(*ast.Ident)
					if g == "nonAdminHelper" && id != nil && p.str(x.Cond) == id.Name && c08Refuses(p, x.Body, false) && x.Else == nil {
						hits = append(hits, c08GateHit{gate: g, cond: "helperFailure", pos: x.Pos(), text: p.str(as) + "; " + p.str(x.Cond)})
					} else {
						unrecognised = true
					}
					continue
				}
			}
			if helperVar != "" && (p.str(x.Cond) == helperVar || p.str(x.Cond) == helperVar+" || authData == nil") {
				if c08Refuses(p, x.Body, false) && x.Else == nil {
					hits = append(hits, c08GateHit{gate: "nonAdminHelper", cond: "helperFailure", pos: helperPos, text: p.str(x.Cond)})
				} else {
					unrecognised = true
				}
				helperVar = ""
				continue
			}
			// pattern: if t == "" { t = authData.Username } else if !gate(..) { refuse }
			if be, ok := c08Unparen(x.Cond).(*ast.BinaryExpr); ok && be.Op == token.EQL && p.str(be.Y) == `""` {
				if tid, ok := be.X.(*ast.Ident); ok && len(x.Body.List) == 1 && p.str(x.Body.List[0]) == tid.Name+" = authData.Username" {
					if ei, ok := x.Else.(*ast.IfStmt); ok {
						if g, ok := notGate(ei.Cond); ok && c08Refuses(p, ei.Body, true) {
							hits = append(hits, c08GateHit{gate: g, cond: "emptySelfElseNotGate", pos: x.Pos(), text: p.str(x.Cond) + " … else " + p.str(ei.Cond)})
							// anything chained after the refusal must not consult a gate again in an unknown way
							continue
						}
					}
				}
			}
			// pattern: if !gate(..) && a != b { refuse }
			if be, ok := c08Unparen(x.Cond).(*ast.BinaryExpr); ok && be.Op == token.LAND {
				if g, ok := notGate(be.X); ok {
					if ne, ok := c08Unparen(be.Y).(*ast.BinaryExpr); ok && ne.Op == token.NEQ && c08Refuses(p, x.Body, true) && x.Else == nil {
						a := c08ClassifySrc(p, fd, ne.X, 0)
						b := c08ClassifySrc(p, fd, ne.Y, 0)
						if b == "authUser" && a != "authUser" {
							a, b = b, a
						}
						hits = append(hits, c08GateHit{gate: g, cond: "notGateAndNe", a: a, b: b, pos: x.Pos(), text: p.str(x.Cond)})
						continue
					}
				}
			}
			// pattern: if !gate(..) { refuse }
			if g, ok := notGate(x.Cond); ok {
				if c08Refuses(p, x.Body, true) && x.Else == nil {
					hits = append(hits, c08GateHit{gate: g, cond: "notGate", pos: x.Pos(), text: p.str(x.Cond)})
				} else {
					unrecognised = true
				}
				continue
			}
			// any other top-level condition that consults a gate (directly or through a gate variable)
			mention := c08MentionsGate(p, x.Cond)
			ast.Inspect(x.Cond, func(n ast.Node) bool {
				if id, ok := n.(*ast.Ident); ok {
					if _, ok := gateVars[id.Name]; ok {
						mention = true
					}
				}
				return true
			})
			if mention {
				unrecognised = true
			}
		}
	}
	// first profile access
	var firstStore token.Pos
	seen := map[string]bool{}
	ast.Inspect(fd.Body, func(n ast.Node) bool {
		ce, ok := n.(*ast.CallExpr)
		if !ok {
			return true
		}
		sel, ok := ce.Fun.(*ast.SelectorExpr)
		if !ok || p.str(sel.X) != "state" {
			return true
		}
		switch sel.Sel.Name {
		case "LoadUserProfile", "SaveUserProfile", "DeleteUserProfile":
			if firstStore == 0 || ce.Pos() < firstStore {
				firstStore = ce.Pos()
			}
			if len(ce.Args) > 0 {
				k := c08ClassifySrc(p, fd, ce.Args[0], 0)
				if !seen[k] {
					seen[k] = true
					f.Keys = append(f.Keys, k)
				}
			}
		case "GetUsers":
			if firstStore == 0 || ce.Pos() < firstStore {
				firstStore = ce.Pos()
			}
		}
		return true
	})
	switch {
	case unrecognised || len(hits) > 1:
		f.Gate, f.Cond = "unknown", "unknown"
		f.Text = "unrecognised gate use"
	case len(hits) == 0:
		f.Gate, f.Cond = "none", "none"
		f.GateFirst = true
	default:
		h := hits[0]
		f.Gate, f.Cond, f.CmpA, f.CmpB, f.Text = h.gate, h.cond, h.a, h.b, h.text
		f.GateFirst = firstStore == 0 || h.pos < firstStore
	}
	return f
}

// ---- Lean rendering -------------------------------------------------------------

func c08LeanSrc(s string) string {
	switch {
	case s == "authUser":
		return "Src.authUser"
	case s == "formUsername":
		return "Src.formUsername"
	case s == "ensuredFormUsername":
		return "Src.ensuredFormUsername"
	case s == "formIdentity":
		return "Src.formIdentity"
	case s == "param":
		return "Src.param"
	case strings.HasPrefix(s, "pathUser:"):
		if n, err := strconv.Atoi(s[9:]); err == nil && n >= 0 {
			return fmt.Sprintf("(Src.pathUser %d)", n)
		}
	}
	return "Src.unknown"
}

func c08LeanGate(s string) string {
	switch s {
	case "nonAdminHelper", "isAdminUser", "isAdminUserAndU2F", "automationAdmin", "none":
		return "Gate." + s
	}
	return "Gate.unknown"
}

func c08LeanCond(s string) string {
	switch s {
	case "notGateAndNe", "emptySelfElseNotGate", "notGate", "helperFailure", "none":
		return "Cond." + s
	}
	return "Cond.unknown"
}

func c08LeanKeys(keys []string) string {
	var l []string
	for _, k := range keys {
		l = append(l, c08LeanSrc(k))
	}
	return "[" + strings.Join(l, ", ") + "]"
}

func genC08(e *emitter) {
	p := e.pkg("cmd/keymasterd")
	ac := e.pkg("keymasterd/admincache")
	var facts []c08Fact
	for _, n := range c08HandlerNames {
		facts = append(facts, c08AnalyseHandler(p, n))
	}
	// every function that writes or deletes a stored profile
	var writers []c08Writer
	p.eachFunc(func(fd *ast.FuncDecl) {
		if fd.Name.Name == "SaveUserProfile" || fd.Name.Name == "DeleteUserProfile" {
			return
		}
		var keys []string
		seen := map[string]bool{}
		ast.Inspect(fd.Body, func(n ast.Node) bool {
			ce, ok := n.(*ast.CallExpr)
			if !ok {
				return true
			}
			sel, ok := ce.Fun.(*ast.SelectorExpr)
			if !ok || (sel.Sel.Name != "SaveUserProfile" && sel.Sel.Name != "DeleteUserProfile") || len(ce.Args) == 0 {
				return true
			}
			k := c08ClassifySrc(p, fd, ce.Args[0], 0)
			if !seen[k] {
				seen[k] = true
				keys = append(keys, k)
			}
			return true
		})
		if len(keys) > 0 {
			writers = append(writers, c08Writer{Func: fd.Name.Name, Keys: keys})
		}
	})
	// routes: mux.HandleFunc(path, runtimeState.handler)
	type route struct{ Path, Handler string }
	var routes []route
	p.eachFunc(func(fd *ast.FuncDecl) {
		ast.Inspect(fd.Body, func(n ast.Node) bool {
			ce, ok := n.(*ast.CallExpr)
			if !ok || len(ce.Args) != 2 {
				return true
			}
			sel, ok := ce.Fun.(*ast.SelectorExpr)
			if !ok || sel.Sel.Name != "HandleFunc" {
				return true
			}
			path, ok := p.evalStr(ce.Args[0])
			if !ok {
				return true
			}
			if hs, ok := ce.Args[1].(*ast.SelectorExpr); ok {
				routes = append(routes, route{path, hs.Sel.Name})
			}
			return true
		})
	})
	// helper bodies the model transcribes literally
	type helper struct{ Name, Body string }
	var helpers []helper
	for _, h := range []struct {
		pk   *pkgInfo
		name string
		tag  string
	}{{p, "IsAdminUser", "IsAdminUser"}, {p, "IsAdminUserAndU2F", "IsAdminUserAndU2F"}, {p, "isAutomationAdmin", "isAutomationAdmin"},
		{ac, "get", "admincache.get"}, {ac, "put", "admincache.put"}, {ac, "isValid", "admincache.isValid"}, {ac, "New", "admincache.New"}} {
		body := "<missing>"
		if fd, ok := h.pk.funcs[h.name]; ok && fd.Body != nil {
			body = h.pk.str(fd.Body)
		}
		helpers = append(helpers, helper{h.tag, body})
	}
	// admincache.New(<lifetime>) calls in cmd/keymasterd
	var lifetimes []int64
	lifetimeOK := true
	for _, fn := range c08SortedFileNames(p) {
		ast.Inspect(p.files[fn], func(n ast.Node) bool {
			ce, ok := isCallTo2(n, "admincache.New")
			if !ok {
				return true
			}
			if len(ce.Args) != 1 {
				lifetimeOK = false
				return true
			}
			v, ok := p.evalInt(ce.Args[0], 0)
			if !ok || v < 0 {
				lifetimeOK = false
				return true
			}
			lifetimes = append(lifetimes, v)
			return true
		})
	}
	var b strings.Builder
	b.WriteString("import KM.Model.AdminSites\nnamespace KM.Gen\nopen KM.AdminSite\n\n")
	b.WriteString("/-- per handler: admin gate, shape of the refusal, names compared, keys of the profile accesses -/\n")
	b.WriteString("def c08Handlers : List (List Char × HandlerFact) := [\n")
	for i, f := range facts {
		cmp := "Cmp.none"
		if f.Cond == "notGateAndNe" {
			cmp = fmt.Sprintf("Cmp.pair %s %s", c08LeanSrc(f.CmpA), c08LeanSrc(f.CmpB))
		}
		sep := ","
		if i == len(facts)-1 {
			sep = ""
		}
		fmt.Fprintf(&b, "  (%s.toList, { gate := %s, cond := %s, cmp := %s, keys := %s, gateFirst := %s })%s  -- %s: %s\n",
			leanStr(f.Name), c08LeanGate(f.Gate), c08LeanCond(f.Cond), cmp, c08LeanKeys(f.Keys), leanBool(f.GateFirst), sep, f.Where, f.Text)
	}
	b.WriteString("]\n\n/-- every function of cmd/keymasterd that calls SaveUserProfile / DeleteUserProfile, with the sources of the keys -/\n")
	b.WriteString("def c08Writers : List (List Char × List Src) := [\n")
	for i, w := range writers {
		sep := ","
		if i == len(writers)-1 {
			sep = ""
		}
		fmt.Fprintf(&b, "  (%s.toList, %s)%s\n", leanStr(w.Func), c08LeanKeys(w.Keys), sep)
	}
	b.WriteString("]\n\n/-- `HandleFunc(path, runtimeState.handler)` registrations -/\n")
	b.WriteString("def c08Routes : List (List Char × List Char) := [\n")
	for i, r := range routes {
		sep := ","
		if i == len(routes)-1 {
			sep = ""
		}
		fmt.Fprintf(&b, "  (%s.toList, %s.toList)%s\n", leanStr(r.Path), leanStr(r.Handler), sep)
	}
	b.WriteString("]\n\n")
	// normalised source text of the helpers whose logic the model transcribes: explicit character
	// lists (a string literal's `.toList` costs the kernel seconds per helper), text in the doc comment
	for _, h := range helpers {
		fmt.Fprintf(&b, "/-- `%s` reads: %s -/\ndef c08Helper_%s : List Char := %s\n\n",
			h.Name, strings.ReplaceAll(h.Body, "-/", "- /"), strings.ReplaceAll(h.Name, ".", "_"), c08LeanChars(h.Body))
	}
	var ls []string
	for _, v := range lifetimes {
		ls = append(ls, fmt.Sprintf("%d", v))
	}
	// storage statements of the profile rows: how do they select the row?
	type stmtFact struct{ Var, DB, Text, Class string }
	var stmts []stmtFact
	for _, v := range []string{"loadUserProfileStmt", "saveUserProfileStmt", "deleteUserProfileStmt"} {
		cl, ok := p.vars[v].(*ast.CompositeLit)
		if !ok {
			stmts = append(stmts, stmtFact{v, "?", "<not a map literal>", "unknown"})
			continue
		}
		for _, el := range cl.Elts {
			kv, ok := el.(*ast.KeyValueExpr)
			if !ok {
				stmts = append(stmts, stmtFact{v, "?", p.str(el), "unknown"})
				continue
			}
			db, _ := p.evalStr(kv.Key)
			text, okT := p.evalStr(kv.Value)
			class := "unknown"
			if okT {
				class = c08ClassifyStmt(v, text)
			}
			stmts = append(stmts, stmtFact{v, db, text, class})
		}
	}
	b.WriteString("/-- the SQL statements behind Load/Save/DeleteUserProfile: (variable, database, row selection) -/\n")
	b.WriteString("def c08StorageStmts : List (List Char × List Char × KeyUse) := [\n")
	for i, st := range stmts {
		sep := ","
		if i == len(stmts)-1 {
			sep = ""
		}
		fmt.Fprintf(&b, "  (%s.toList, %s.toList, KeyUse.%s)%s  -- %s\n", leanStr(st.Var), leanStr(st.DB), st.Class, sep, st.Text)
	}
	b.WriteString("]\n\n")
	e.facts["c08_storage_stmts"] = stmts
	fmt.Fprintf(&b, "/-- argument (ns) of every `admincache.New(..)` call in cmd/keymasterd -/\ndef c08AdminCacheLifetimes : List Nat := [%s]\n", strings.Join(ls, ", "))
	fmt.Fprintf(&b, "def c08AdminCacheLifetimesEvaluated : Bool := %s\n", leanBool(lifetimeOK))
	life := int64(0)
	if len(lifetimes) > 0 {
		life = lifetimes[0]
	}
	fmt.Fprintf(&b, "def c08AdminCacheLifetimeNs : Nat := %d\n", life)
	b.WriteString("\nend KM.Gen\n")
	e.lean("C08.lean", b.String())
	e.facts["c08_handlers"] = facts
	e.facts["c08_writers"] = writers
	e.facts["c08_routes"] = routes
	e.facts["c08_helpers"] = helpers
	e.facts["c08_admincache_lifetimes_ns"] = lifetimes
}

// c08ClassifyStmt: exactKey iff the statement addresses the row by plain equality on username
// (load/delete) or is an upsert on the username key with the name as first value (save).
func c08ClassifyStmt(v, text string) string {
	t := strings.ToLower(strings.Join(strings.Fields(text), " "))
	t = strings.TrimSuffix(t, ";")
	param := func(s string) bool { return s == "?" || s == "?1" || s == "$1" }
	switch v {
	case "loadUserProfileStmt":
		const pre = "select profile_data from user_profile where username = "
		if strings.HasPrefix(t, pre) && param(t[len(pre):]) {
			return "exactKey"
		}
	case "deleteUserProfileStmt":
		const pre = "delete from user_profile where username = "
		if strings.HasPrefix(t, pre) && param(t[len(pre):]) {
			return "exactKey"
		}
	case "saveUserProfileStmt":
		switch t {
		case "insert or replace into user_profile(username, profile_data) values(?, ?)",
			"insert into user_profile(username, profile_data) values ($1,$2) on conflict(username) do update set profile_data = excluded.profile_data":
			return "exactKey"
		}
	}
	return "unknown"
}

// c08LeanChars renders s as an explicit Lean `List Char` literal.
func c08LeanChars(s string) string {
	var parts []string
	for _, r := range s {
		switch {
		case r == '\'':
			parts = append(parts, `'\''`)
		case r == '\\':
			parts = append(parts, `'\\'`)
		case r == '\n':
			parts = append(parts, `'\n'`)
		case r == '\t':
			parts = append(parts, `'\t'`)
		case r < 0x20 || r == 0x7f:
			parts = append(parts, fmt.Sprintf("(Char.ofNat %d)", r))
		default:
			parts = append(parts, "'"+string(r)+"'")
		}
	}
	return "[" + strings.Join(parts, ", ") + "]"
}

func c08SortedFileNames(p *pkgInfo) []string {
	names := make([]string, 0, len(p.files))
	for n := range p.files {
		names = append(names, n)
	}
	return sortStrings(names)
}
