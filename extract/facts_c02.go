package main

import (
	"fmt"
	"go/ast"
	"go/token"
	"regexp"
	"sort"
	"strings"
)

// C02 facts: what lib/certgen puts into SSH and X.509 user certificates, the merge of the
// operator's extensions, the target-user test of certGenHandler and the key-type alternation
// accepted for SSH keys.

func init() { register("c02-certfields", genC02) }

// c02LitFields: all `key: value` of the first composite literal of type typ in fd (sorted by key)
func c02LitFields(p *pkgInfo, fd *ast.FuncDecl, typ string) [][2]string {
	var out [][2]string
	done := false
	ast.Inspect(fd.Body, func(n ast.Node) bool {
		cl, ok := n.(*ast.CompositeLit)
		if !ok || done || p.str(cl.Type) != typ {
			return true
		}
		done = true
		for _, el := range cl.Elts {
			if kv, ok := el.(*ast.KeyValueExpr); ok {
				out = append(out, [2]string{p.str(kv.Key), p.str(kv.Value)})
			}
		}
		return false
	})
	sort.Slice(out, func(i, j int) bool { return out[i][0] < out[j][0] })
	return out
}

func c02Pairs(l [][2]string) string {
	var q []string
	for _, kv := range l {
		q = append(q, fmt.Sprintf("(%s, %s.toList)", leanStr(kv[0]), leanStr(kv[1])))
	}
	return "[\n  " + strings.Join(q, ",\n  ") + "]"
}

func c02CallArgs(p *pkgInfo, fd *ast.FuncDecl, callee string) []string {
	var out []string
	found := false
	ast.Inspect(fd.Body, func(n ast.Node) bool {
		ce, ok := n.(*ast.CallExpr)
		if !ok || found {
			return true
		}
		name := p.str(ce.Fun)
		if name == callee || strings.HasSuffix(name, "."+callee) {
			found = true
			for _, a := range ce.Args {
				out = append(out, p.str(a))
			}
		}
		return true
	})
	return out
}

func genC02(e *emitter) {
	kmd := e.pkg("cmd/keymasterd")
	cg := e.pkg("lib/certgen")
	facts := map[string]interface{}{}
	var b strings.Builder
	b.WriteString("import KM.Model.CertFields\nnamespace KM.Gen.C02\n\n")

	// ---- GenSSHCertFileString
	var stdExt [][2]string
	skipEmpty := false
	var mergeLoop []string
	var sshFields [][2]string
	var userKeyDef, keyIdDef []string
	if fd := cg.funcs["GenSSHCertFileString"]; fd != nil {
		// extensions := map[string]string{ ... }
		for _, rhs := range assignmentsTo(fd, "extensions") {
			if cl, ok := rhs.(*ast.CompositeLit); ok && cg.str(cl.Type) == "map[string]string" {
				for _, el := range cl.Elts {
					if kv, ok := el.(*ast.KeyValueExpr); ok {
						k, ok1 := cg.evalStr(kv.Key)
						v, ok2 := cg.evalStr(kv.Value)
						if !ok1 || !ok2 {
							k, v = "<non-constant>", "<non-constant>"
						}
						stdExt = append(stdExt, [2]string{k, v})
					}
				}
			} else {
				stdExt = append(stdExt, [2]string{"<not a literal>", cg.str(rhs)})
			}
		}
		// for key, value := range customExtensions { if key == "" { continue }; extensions[key] = value }
		ast.Inspect(fd.Body, func(n ast.Node) bool {
			rs, ok := n.(*ast.RangeStmt)
			if !ok || cg.str(rs.X) != "customExtensions" {
				return true
			}
			for _, s := range rs.Body.List {
				mergeLoop = append(mergeLoop, cg.str(s))
			}
			if len(rs.Body.List) == 2 && cg.str(rs.Key) == "key" && cg.str(rs.Value) == "value" {
				if is, ok := rs.Body.List[0].(*ast.IfStmt); ok && cg.str(is.Cond) == `key == ""` && len(is.Body.List) == 1 {
					if br, ok := is.Body.List[0].(*ast.BranchStmt); ok && br.Tok == token.CONTINUE {
						if cg.str(rs.Body.List[1]) == "extensions[key] = value" {
							skipEmpty = true
						}
					}
				}
			}
			return true
		})
		sshFields = c02LitFields(cg, fd, "ssh.Certificate")
		userKeyDef = c03Assigned(cg, fd, "userKey")
		keyIdDef = c03Assigned(cg, fd, "keyIdentity")
	}
	sort.Slice(stdExt, func(i, j int) bool { return stdExt[i][0] < stdExt[j][0] })
	// ---- GenUserX509Cert
	var x509Fields, subjectFields [][2]string
	var createArgs []string
	if fd := cg.funcs["GenUserX509Cert"]; fd != nil {
		x509Fields = c02LitFields(cg, fd, "x509.Certificate")
		subjectFields = c02LitFields(cg, fd, "pkix.Name")
		createArgs = c02CallArgs(cg, fd, "x509.CreateCertificate")
	}
	// ---- certGenHandler: target user test; handlers: what they hand to the generators
	targetUserDef, mismatchCond := []string{}, "<none>"
	mismatchStatus := 0
	var sshHandlerArgs, x509HandlerArgs, sshGenArgs, x509GenArgs []string
	if fd := kmd.funcs["certGenHandler"]; fd != nil {
		targetUserDef = c03Assigned(kmd, fd, "targetUser")
		for _, s := range fd.Body.List {
			if is, ok := s.(*ast.IfStmt); ok && strings.Contains(kmd.str(is.Cond), "targetUser") {
				mismatchCond = kmd.str(is.Cond)
				// failure response then return (a log call may follow the response)
				for _, st := range is.Body.List {
					if es, ok := st.(*ast.ExprStmt); ok {
						if ce, ok := es.X.(*ast.CallExpr); ok {
							if sel, ok := ce.Fun.(*ast.SelectorExpr); ok && sel.Sel.Name == "writeFailureResponse" && len(ce.Args) == 4 {
								if stt, ok := ce.Args[2].(*ast.SelectorExpr); ok {
									mismatchStatus = c03Status[stt.Sel.Name]
								}
							}
						}
					}
				}
				if len(is.Body.List) == 0 {
					mismatchStatus = 0
				} else if _, ok := is.Body.List[len(is.Body.List)-1].(*ast.ReturnStmt); !ok {
					mismatchStatus = 0
				}
				break
			}
		}
		sshHandlerArgs = c02CallArgs(kmd, fd, "postAuthSSHCertHandler")
		x509HandlerArgs = c02CallArgs(kmd, fd, "postAuthX509CertHandler")
	}
	if fd := kmd.funcs["postAuthSSHCertHandler"]; fd != nil {
		sshGenArgs = c02CallArgs(kmd, fd, "certgen.GenSSHCertFileString")
	}
	if fd := kmd.funcs["postAuthX509CertHandler"]; fd != nil {
		x509GenArgs = c02CallArgs(kmd, fd, "certgen.GenUserX509Cert")
	}
	// ---- key types accepted by getValidSSHPublicKey's regexp
	var keyTypes []string
	keyRegexp := "<none>"
	if fd := kmd.funcs["getValidSSHPublicKey"]; fd != nil {
		args := c02CallArgs(kmd, fd, "regexp.MatchString")
		if len(args) == 2 {
			ast.Inspect(fd.Body, func(n ast.Node) bool {
				if ce, ok := n.(*ast.CallExpr); ok && kmd.str(ce.Fun) == "regexp.MatchString" && len(ce.Args) == 2 {
					if s, ok := kmd.evalStr(ce.Args[0]); ok {
						keyRegexp = s
					}
				}
				return true
			})
			if m := regexp.MustCompile(`^\^\(([a-z0-9|-]+)\) `).FindStringSubmatch(keyRegexp); m != nil {
				keyTypes = strings.Split(m[1], "|")
			}
		}
	}
	// ---- expandSSHExtensions
	var expandShape []string
	if fd := kmd.funcs["expandSSHExtensions"]; fd != nil {
		ast.Inspect(fd.Body, func(n ast.Node) bool {
			if rs, ok := n.(*ast.RangeStmt); ok {
				expandShape = append(expandShape, "range "+kmd.str(rs.X))
				for _, s := range rs.Body.List {
					t := kmd.str(s)
					if len(t) > 90 {
						t = t[:90]
					}
					expandShape = append(expandShape, t)
				}
			}
			if cc, ok := n.(*ast.CaseClause); ok && len(cc.List) == 1 {
				expandShape = append(expandShape, "case "+kmd.str(cc.List[0])+": "+kmd.str(cc.Body[0]))
			}
			return true
		})
	}

	field := func(l [][2]string, k string) string {
		for _, kv := range l {
			if kv[0] == k {
				return kv[1]
			}
		}
		return "<missing>"
	}
	var stdNames []string
	for _, kv := range stdExt {
		stdNames = append(stdNames, kv[0])
	}
	fmt.Fprintf(&b, "/-- the literal extension map of GenSSHCertFileString (key, value), sorted by key -/\ndef standardExtensions : List (String × List Char) := %s\n\n", c02Pairs(stdExt))
	fmt.Fprintf(&b, "/-- body of the `range customExtensions` loop -/\ndef mergeLoop : List (List Char) := %s\n\n", c03CharLists(mergeLoop))
	fmt.Fprintf(&b, "/-- fields of the ssh.Certificate literal -/\ndef sshCertFields : List (String × List Char) := %s\n", c02Pairs(sshFields))
	fmt.Fprintf(&b, "def userKeyDef : List (List Char) := %s\ndef keyIdentityDef : List (List Char) := %s\n\n", c03CharLists(userKeyDef), c03CharLists(keyIdDef))
	fmt.Fprintf(&b, "/-- fields of the x509.Certificate template and its pkix.Name in GenUserX509Cert, arguments of CreateCertificate -/\ndef x509TemplateFields : List (String × List Char) := %s\ndef x509SubjectFields : List (String × List Char) := %s\ndef x509CreateArgs : List (List Char) := %s\n\n",
		c02Pairs(x509Fields), c02Pairs(subjectFields), c03CharLists(createArgs))
	fmt.Fprintf(&b, "/-- certGenHandler: target user and its comparison with the authenticated user -/\ndef targetUserDef : List (List Char) := %s\ndef mismatchCond : List Char := %s.toList\n",
		c03CharLists(targetUserDef), leanStr(mismatchCond))
	fmt.Fprintf(&b, "def sshHandlerArgs : List (List Char) := %s\ndef x509HandlerArgs : List (List Char) := %s\ndef sshGenArgs : List (List Char) := %s\ndef x509GenArgs : List (List Char) := %s\n\n",
		c03CharLists(sshHandlerArgs), c03CharLists(x509HandlerArgs), c03CharLists(sshGenArgs), c03CharLists(x509GenArgs))
	fmt.Fprintf(&b, "/-- getValidSSHPublicKey: the regexp and its key-type alternation -/\ndef sshKeyRegexp : List Char := %s.toList\n\n", leanStr(keyRegexp))
	fmt.Fprintf(&b, "/-- expandSSHExtensions: loop and mapper -/\ndef expandShape : List (List Char) := %s\n\n", c03CharLists(expandShape))
	isLit := func(s string) (bool, bool) { return s == "true", s == "true" || s == "false" }
	isCA, okCA := isLit(field(x509Fields, "IsCA"))
	bc, okBC := isLit(field(x509Fields, "BasicConstraintsValid"))
	if !okCA {
		isCA = true // unknown expression: assume the worst so that the theorem fails
	}
	if !okBC {
		bc = false
	}
	fmt.Fprintf(&b, "/-- the facts the model is instantiated with -/\ndef src : KM.CertFields.Src :=\n  { stdExt := %s,\n    skipEmptyKey := %s,\n    sshKeyTypes := %s,\n    certTypeIsUser := %s,\n    principalsIsUser := %s,\n    x509IsCA := %s,\n    x509BC := %s,\n    x509ClientAuth := %s,\n    mismatchStatus := %d }\n",
		c03CharLists(stdNames), leanBool(skipEmpty), c03CharLists(keyTypes),
		leanBool(field(sshFields, "CertType") == "ssh.UserCert"),
		leanBool(field(sshFields, "ValidPrincipals") == "[]string{username}"),
		leanBool(isCA), leanBool(bc),
		leanBool(field(x509Fields, "ExtKeyUsage") == "[]x509.ExtKeyUsage{x509.ExtKeyUsageClientAuth}"),
		mismatchStatus)
	b.WriteString("\nend KM.Gen.C02\n")
	e.lean("C02.lean", b.String())
	facts["standardExtensions"] = stdExt
	facts["skipEmptyKey"] = skipEmpty
	facts["sshKeyTypes"] = keyTypes
	facts["sshCertFields"] = sshFields
	facts["x509TemplateFields"] = x509Fields
	facts["mismatchStatus"] = mismatchStatus
	e.facts["c02"] = facts
}
