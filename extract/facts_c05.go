package main

// C05: per-site facts about session level upgrades.
//   - every updateAuthCookieAuthlevel(w, r, X): what X is built from
//   - how VIPPollCheckHandler / oktaPollCheckHandler tie the polled transaction to the session user
//   - whether the handlers that consume a stored one-time entry consult its ExpiresAt
//   - whether every upgrade in the hardware token handlers is preceded by delete(state.localAuthData, …)
//   - which step validateUserTOTP stores

import (
	"fmt"
	"go/ast"
	"go/token"
	"sort"
	"strconv"
	"strings"
)

func init() { register("c05-upgrades", genC05) }

type c05Site struct {
	Pos     string  `json:"pos"`
	Func    string  `json:"func"`
	Arg     string  `json:"arg"`
	Base    string  `json:"base"`
	Consts  []int64 `json:"consts"`
	Deleted bool    `json:"challenge_deleted_before"`
	User    string  `json:"user_arg"` // the argument naming the authenticated user ("" in the 3-argument form)
}

func flattenOr(e ast.Expr) []ast.Expr {
	switch x := e.(type) {
	case *ast.ParenExpr:
		return flattenOr(x.X)
	case *ast.BinaryExpr:
		if x.Op == token.OR {
			return append(flattenOr(x.X), flattenOr(x.Y)...)
		}
	}
	return []ast.Expr{e}
}

// secondResultOfCommonTOTP: does commonTOTPPostHandler return authData.AuthType (of its own checkAuth) as 2nd value?
func c05CommonReturnsSessionLevel(p *pkgInfo) bool {
	fd := p.funcs["commonTOTPPostHandler"]
	if fd == nil {
		return false
	}
	if !c05AuthDataFromCheckAuth(p, fd) {
		return false
	}
	ok := false
	ast.Inspect(fd.Body, func(n ast.Node) bool {
		if rs, is := n.(*ast.ReturnStmt); is && len(rs.Results) == 4 {
			if p.str(rs.Results[3]) == "nil" {
				ok = p.str(rs.Results[1]) == "authData.AuthType"
			}
		}
		return true
	})
	return ok
}

func c05AuthDataFromCheckAuth(p *pkgInfo, fd *ast.FuncDecl) bool {
	for _, rhs := range assignmentsTo(fd, "authData") {
		if ce, ok := rhs.(*ast.CallExpr); ok {
			if sel, ok := ce.Fun.(*ast.SelectorExpr); ok && sel.Sel.Name == "checkAuth" {
				continue
			}
		}
		return false
	}
	return len(assignmentsTo(fd, "authData")) > 0
}

// classify one operand of the OR: "session", "const:<v>", "unknown"
func c05Operand(p *pkgInfo, fd *ast.FuncDecl, e ast.Expr, depth int) []string {
	s := p.str(e)
	if s == "authData.AuthType" && c05AuthDataFromCheckAuth(p, fd) {
		return []string{"session"}
	}
	id, ok := e.(*ast.Ident)
	if !ok {
		return []string{"unknown"}
	}
	if strings.HasPrefix(id.Name, "AuthType") {
		if v, ok := p.evalInt(id, 0); ok {
			return []string{fmt.Sprintf("const:%d", v)}
		}
	}
	// 2nd result of commonTOTPPostHandler
	rhs := assignmentsTo(fd, id.Name)
	if len(rhs) > 0 && depth < 3 {
		var out []string
		for _, r := range rhs {
			if ce, ok := r.(*ast.CallExpr); ok {
				if sel, ok := ce.Fun.(*ast.SelectorExpr); ok && sel.Sel.Name == "commonTOTPPostHandler" {
					// position of id among the LHS is checked by name below
					if c05CommonReturnsSessionLevel(p) && c05IsSecondLHS(fd, id.Name) {
						out = append(out, "session")
						continue
					}
				}
				out = append(out, "unknown")
				continue
			}
			out = append(out, c05Operand(p, fd, r, depth+1)...)
		}
		return out
	}
	// a parameter: every caller must pass a session level
	if fd.Type.Params != nil {
		idx, pos := -1, 0
		for _, f := range fd.Type.Params.List {
			for _, n := range f.Names {
				if n.Name == id.Name {
					idx = pos
				}
				pos++
			}
		}
		if idx >= 0 && depth < 3 {
			var out []string
			found := false
			p.eachFunc(func(caller *ast.FuncDecl) {
				ast.Inspect(caller.Body, func(n ast.Node) bool {
					ce, ok := n.(*ast.CallExpr)
					if !ok {
						return true
					}
					if sel, ok := ce.Fun.(*ast.SelectorExpr); ok && sel.Sel.Name == fd.Name.Name && idx < len(ce.Args) {
						found = true
						out = append(out, c05Operand(p, caller, ce.Args[idx], depth+1)...)
					}
					return true
				})
			})
			if found {
				return out
			}
		}
	}
	return []string{"unknown"}
}

func c05IsSecondLHS(fd *ast.FuncDecl, name string) bool {
	ok := false
	ast.Inspect(fd.Body, func(n ast.Node) bool {
		as, is := n.(*ast.AssignStmt)
		if !is || len(as.Rhs) != 1 || len(as.Lhs) != 4 {
			return true
		}
		if ce, isc := as.Rhs[0].(*ast.CallExpr); isc {
			if sel, iss := ce.Fun.(*ast.SelectorExpr); iss && sel.Sel.Name == "commonTOTPPostHandler" {
				if id, isid := as.Lhs[1].(*ast.Ident); isid && id.Name == name {
					ok = true
				}
			}
		}
		return true
	})
	return ok
}

var c05HandlerIds = map[string]string{
	"VIPAuthHandler": "vipAuth", "VIPPollCheckHandler": "vipPollCheck", "internalTOTPAuthHandler": "totpAuth",
	"Okta2FAuthHandler": "oktaOtp", "oktaPollCheckHandler": "oktaPollCheck", "BootstrapOtpAuthHandler": "bootstrapOtp",
	"u2fSignResponse": "u2fSignResponse", "webauthnAuthFinish": "webauthnAuthFinish",
}

func c05Handler(name string) string {
	if h, ok := c05HandlerIds[name]; ok {
		return "HandlerId." + h
	}
	return "HandlerId.other"
}

// innermost block (if/for body or function body) that contains pos
func c05InnermostBlock(fd *ast.FuncDecl, pos token.Pos) *ast.BlockStmt {
	best := fd.Body
	ast.Inspect(fd.Body, func(n ast.Node) bool {
		if b, ok := n.(*ast.BlockStmt); ok && b.Pos() <= pos && pos < b.End() {
			if b.End()-b.Pos() < best.End()-best.Pos() {
				best = b
			}
		}
		return true
	})
	return best
}

func c05DeletesChallengeBefore(p *pkgInfo, blk *ast.BlockStmt, pos token.Pos) bool {
	found := false
	ast.Inspect(blk, func(n ast.Node) bool {
		ce, ok := n.(*ast.CallExpr)
		if !ok || ce.Pos() >= pos {
			return true
		}
		if id, ok := ce.Fun.(*ast.Ident); ok && id.Name == "delete" && len(ce.Args) == 2 &&
			p.str(ce.Args[0]) == "state.localAuthData" && p.str(ce.Args[1]) == "authData.Username" {
			found = true
		}
		return true
	})
	// or: `if !state.consumeLoginChallenge(authData.Username, localAuth) { …; return }` — the compare-and-remove
	// helper (it deletes the entry of its first argument; who deletes what is pinned by c16_challenge_sites),
	// with the losing request leaving the handler
	ast.Inspect(blk, func(n ast.Node) bool {
		is, ok := n.(*ast.IfStmt)
		if !ok || is.Pos() >= pos || is.End() > pos {
			return true
		}
		if p.str(is.Cond) == "!state.consumeLoginChallenge(authData.Username, localAuth)" && len(is.Body.List) > 0 {
			if _, ok := is.Body.List[len(is.Body.List)-1].(*ast.ReturnStmt); ok && c05HelperDeletesFirstArg(p) {
				found = true
			}
		}
		return true
	})
	return found
}

// consumeLoginChallenge(username, used) must delete state.localAuthData[username]
func c05HelperDeletesFirstArg(p *pkgInfo) bool {
	fd := p.funcs["consumeLoginChallenge"]
	if fd == nil || fd.Body == nil || fd.Type.Params == nil || len(fd.Type.Params.List) == 0 || len(fd.Type.Params.List[0].Names) == 0 {
		return false
	}
	arg := fd.Type.Params.List[0].Names[0].Name
	ok := false
	ast.Inspect(fd.Body, func(n ast.Node) bool {
		if ce, isCall := n.(*ast.CallExpr); isCall {
			if id, isId := ce.Fun.(*ast.Ident); isId && id.Name == "delete" && len(ce.Args) == 2 &&
				p.str(ce.Args[0]) == "state.localAuthData" && p.str(ce.Args[1]) == arg {
				ok = true
			}
		}
		return true
	})
	return ok
}

func c05ConsultsExpiry(p *pkgInfo, fd *ast.FuncDecl, entry string) bool {
	if fd == nil {
		return false
	}
	found := false
	ast.Inspect(fd.Body, func(n ast.Node) bool {
		is, ok := n.(*ast.IfStmt)
		if !ok {
			return true
		}
		c := p.str(is.Cond)
		if c == entry+".ExpiresAt.Before(time.Now())" || c == "time.Now().After("+entry+".ExpiresAt)" {
			// the branch must leave the handler
			for _, st := range is.Body.List {
				if _, ok := st.(*ast.ReturnStmt); ok {
					found = true
				}
			}
		}
		return true
	})
	return found
}

// c05CookieChoice: which cookie named auth_cookie does fd use when the request carries several?
func c05CookieChoice(p *pkgInfo, fd *ast.FuncDecl) string {
	if fd == nil {
		return "unknown"
	}
	res := "unknown"
	ast.Inspect(fd.Body, func(n ast.Node) bool {
		switch x := n.(type) {
		case *ast.CallExpr:
			if sel, ok := x.Fun.(*ast.SelectorExpr); ok && sel.Sel.Name == "Cookie" && len(x.Args) == 1 && p.str(x.Args[0]) == "authCookieName" {
				res = "first"
				return false
			}
		case *ast.RangeStmt:
			if p.str(x.X) != "r.Cookies()" || x.Value == nil {
				return true
			}
			v := p.str(x.Value)
			assigns, brk, filtered := false, false, false
			ast.Inspect(x.Body, func(m ast.Node) bool {
				switch y := m.(type) {
				case *ast.BranchStmt:
					if y.Tok == token.BREAK {
						brk = true
					}
				case *ast.IfStmt:
					if p.str(y.Cond) == v+".Name != authCookieName" && len(y.Body.List) == 1 {
						if bs, ok := y.Body.List[0].(*ast.BranchStmt); ok && bs.Tok == token.CONTINUE {
							filtered = true
						}
					}
				case *ast.AssignStmt:
					if len(y.Lhs) == 1 && p.str(y.Lhs[0]) == "authCookie" && p.str(y.Rhs[0]) == v {
						assigns = true
					}
				}
				return true
			})
			if assigns && filtered && res != "first" {
				if brk {
					res = "first"
				} else {
					res = "last"
				}
			}
		}
		return true
	})
	return res
}

func c05UpgradePos(fd *ast.FuncDecl) token.Pos {
	var pos token.Pos
	ast.Inspect(fd.Body, func(n ast.Node) bool {
		if ce, ok := n.(*ast.CallExpr); ok {
			if sel, ok := ce.Fun.(*ast.SelectorExpr); ok && sel.Sel.Name == "updateAuthCookieAuthlevel" && pos == 0 {
				pos = ce.Pos()
			}
		}
		return true
	})
	return pos
}

func c05BodyReturns(b *ast.BlockStmt) bool {
	for _, st := range b.List {
		if _, ok := st.(*ast.ReturnStmt); ok {
			return true
		}
	}
	return false
}

// BootstrapOtpAuthHandler: `profile.BootstrapOTP = bootstrapOTPData{}` then
// `if err := state.SaveUserProfile(...); err != nil { ...; return }`, both before the upgrade.
func c05BootstrapConsumesFirst(p *pkgInfo) bool {
	fd := p.funcs["BootstrapOtpAuthHandler"]
	if fd == nil {
		return false
	}
	up := c05UpgradePos(fd)
	var cleared, saved token.Pos
	ast.Inspect(fd.Body, func(n ast.Node) bool {
		switch x := n.(type) {
		case *ast.AssignStmt:
			if len(x.Lhs) == 1 && p.str(x.Lhs[0]) == "profile.BootstrapOTP" && p.str(x.Rhs[0]) == "bootstrapOTPData{}" {
				cleared = x.Pos()
			}
		case *ast.IfStmt:
			if x.Init != nil && strings.Contains(p.str(x.Init), "state.SaveUserProfile(authData.Username, profile)") &&
				p.str(x.Cond) == "err != nil" && c05BodyReturns(x.Body) {
				saved = x.Pos()
			}
		}
		return true
	})
	return up != 0 && cleared != 0 && saved != 0 && cleared < saved && saved < up
}

// internalTOTPAuthHandler validates (error and !valid leave the handler) before the upgrade, and
// validateUserTOTP reports success only after SaveUserProfile succeeded.
func c05TotpConsumesFirst(p *pkgInfo) bool {
	fd := p.funcs["internalTOTPAuthHandler"]
	vd := p.funcs["validateUserTOTP"]
	if fd == nil || vd == nil {
		return false
	}
	up := c05UpgradePos(fd)
	var call token.Pos
	errLeaves, invalidLeaves := false, false
	ast.Inspect(fd.Body, func(n ast.Node) bool {
		switch x := n.(type) {
		case *ast.CallExpr:
			if sel, ok := x.Fun.(*ast.SelectorExpr); ok && sel.Sel.Name == "validateUserTOTP" {
				call = x.Pos()
			}
		case *ast.IfStmt:
			if x.Pos() < up && c05BodyReturns(x.Body) {
				if p.str(x.Cond) == "err != nil" {
					errLeaves = true
				}
				if p.str(x.Cond) == "!valid" {
					invalidLeaves = true
				}
			}
		}
		return true
	})
	if !(call != 0 && call < up && errLeaves && invalidLeaves) {
		return false
	}
	// in validateUserTOTP: save, then `if err != nil { ...; return false, err }`, then `return true, nil`
	var save, guard, okRet token.Pos
	ast.Inspect(vd.Body, func(n ast.Node) bool {
		switch x := n.(type) {
		case *ast.AssignStmt:
			if len(x.Rhs) == 1 && strings.HasPrefix(p.str(x.Rhs[0]), "state.SaveUserProfile(username, profile)") {
				save = x.Pos()
			}
		case *ast.IfStmt:
			if save != 0 && guard == 0 && x.Pos() > save && p.str(x.Cond) == "err != nil" {
				for _, st := range x.Body.List {
					if rs, ok := st.(*ast.ReturnStmt); ok && len(rs.Results) == 2 && p.str(rs.Results[0]) == "false" {
						guard = x.Pos()
					}
				}
			}
		case *ast.ReturnStmt:
			if len(x.Results) == 2 && p.str(x.Results[0]) == "true" {
				okRet = x.Pos()
			}
		}
		return true
	})
	return save != 0 && guard != 0 && okRet != 0 && save < guard && guard < okRet
}

// c05UpgradeSubjectChecked: updateAuthJWTWithNewAuthLevel(intoken, username, level) leaves with an error when
// parsedJWT.Subject != username, before the only Serialize; and updateAuthCookieAuthlevel passes its own
// `username` parameter as that argument.
func c05UpgradeSubjectChecked(p *pkgInfo) bool {
	fd := p.funcs["updateAuthJWTWithNewAuthLevel"]
	outer := p.funcs["updateAuthCookieAuthlevel"]
	if fd == nil || outer == nil || fd.Type.Params == nil {
		return false
	}
	var params []string
	for _, f := range fd.Type.Params.List {
		for _, n := range f.Names {
			params = append(params, n.Name)
		}
	}
	if len(params) != 3 {
		return false
	}
	user := params[1]
	var checkPos, serPos token.Pos
	for _, st := range fd.Body.List {
		if is, ok := st.(*ast.IfStmt); ok && is.Init == nil && is.Else == nil {
			c := strings.ReplaceAll(p.str(is.Cond), " ", "")
			if (c == "parsedJWT.Subject!="+user || c == user+"!=parsedJWT.Subject") && c05BodyReturns(is.Body) && checkPos == 0 {
				checkPos = is.Pos()
			}
		}
	}
	n := 0
	ast.Inspect(fd.Body, func(x ast.Node) bool {
		if ce, ok := x.(*ast.CallExpr); ok {
			if sel, ok := ce.Fun.(*ast.SelectorExpr); ok && sel.Sel.Name == "Serialize" {
				n++
				serPos = ce.Pos()
			}
		}
		return true
	})
	if checkPos == 0 || n != 1 || checkPos > serPos {
		return false
	}
	// the subject must not be rewritten between the check and the signing
	bad := false
	ast.Inspect(fd.Body, func(x ast.Node) bool {
		if as, ok := x.(*ast.AssignStmt); ok {
			for _, l := range as.Lhs {
				if strings.HasPrefix(p.str(l), "parsedJWT.Subject") || p.str(l) == user {
					bad = true
				}
			}
		}
		return true
	})
	if bad {
		return false
	}
	// outer: exactly one call, second argument is its own username parameter
	var oparams []string
	for _, f := range outer.Type.Params.List {
		for _, nm := range f.Names {
			oparams = append(oparams, nm.Name)
		}
	}
	if len(oparams) != 4 {
		return false
	}
	okCall, calls := false, 0
	ast.Inspect(outer.Body, func(x ast.Node) bool {
		if ce, ok := x.(*ast.CallExpr); ok {
			if sel, ok := ce.Fun.(*ast.SelectorExpr); ok && sel.Sel.Name == "updateAuthJWTWithNewAuthLevel" {
				calls++
				if len(ce.Args) == 3 && p.str(ce.Args[1]) == oparams[2] {
					okCall = true
				}
			}
		}
		if as, ok := x.(*ast.AssignStmt); ok {
			for _, l := range as.Lhs {
				if p.str(l) == oparams[2] {
					bad = true
				}
			}
		}
		return true
	})
	return okCall && calls == 1 && !bad
}

func genC05(e *emitter) {
	p := e.pkg("cmd/keymasterd")
	var sites []c05Site
	p.eachFunc(func(fd *ast.FuncDecl) {
		ast.Inspect(fd.Body, func(n ast.Node) bool {
			ce, ok := n.(*ast.CallExpr)
			if !ok {
				return true
			}
			sel, ok := ce.Fun.(*ast.SelectorExpr)
			if !ok || sel.Sel.Name != "updateAuthCookieAuthlevel" || (len(ce.Args) != 3 && len(ce.Args) != 4) {
				return true
			}
			// (w, r, level) as found; (w, r, username, level) since the repair that binds the cookie to the caller
			levelArg := ce.Args[len(ce.Args)-1]
			userArg := ""
			if len(ce.Args) == 4 {
				userArg = p.str(ce.Args[2])
			}
			base := "unknown"
			cs := map[int64]bool{}
			unknown, session := false, false
			for _, op := range flattenOr(levelArg) {
				for _, cl := range c05Operand(p, fd, op, 0) {
					switch {
					case cl == "session":
						session = true
					case strings.HasPrefix(cl, "const:"):
						var v int64
						fmt.Sscan(cl[6:], &v)
						cs[v] = true
					default:
						unknown = true
					}
				}
			}
			if session && !unknown {
				base = "session"
			}
			var consts []int64
			for v := range cs {
				consts = append(consts, v)
			}
			sort.Slice(consts, func(i, j int) bool { return consts[i] < consts[j] })
			del := c05DeletesChallengeBefore(p, c05InnermostBlock(fd, ce.Pos()), ce.Pos())
			sites = append(sites, c05Site{Pos: p.pos(ce), Func: fd.Name.Name, Arg: p.str(levelArg), Base: base, Consts: consts, Deleted: del, User: userArg})
			return true
		})
	})
	// poll binding
	vipBinding := "unknown"
	if fd := p.funcs["VIPPollCheckHandler"]; fd != nil && c05AuthDataFromCheckAuth(p, fd) {
		vipBinding = "unchecked"
		ast.Inspect(fd.Body, func(n ast.Node) bool {
			is, ok := n.(*ast.IfStmt)
			if !ok {
				return true
			}
			leaves := false
			for _, st := range is.Body.List {
				if _, ok := st.(*ast.ReturnStmt); ok {
					leaves = true
				}
			}
			if !leaves {
				return true
			}
			ast.Inspect(is.Cond, func(m ast.Node) bool {
				if be, ok := m.(*ast.BinaryExpr); ok && be.Op == token.NEQ {
					a, b := p.str(be.X), p.str(be.Y)
					if (a == "pushTransaction.Username" && b == "authData.Username") || (b == "pushTransaction.Username" && a == "authData.Username") {
						vipBinding = "checked"
					}
				}
				return true
			})
			return true
		})
	}
	oktaBinding := "unknown"
	if fd := p.funcs["oktaPollCheckHandler"]; fd != nil && c05AuthDataFromCheckAuth(p, fd) {
		n, good := 0, 0
		ast.Inspect(fd.Body, func(m ast.Node) bool {
			if ce, ok := m.(*ast.CallExpr); ok {
				if sel, ok := ce.Fun.(*ast.SelectorExpr); ok && sel.Sel.Name == "ValidateUserPush" {
					n++
					if len(ce.Args) == 1 && p.str(ce.Args[0]) == "authData.Username" {
						good++
					}
				}
			}
			return true
		})
		if n > 0 && n == good {
			oktaBinding = "keyedBySessionUser"
		} else if n > 0 {
			oktaBinding = "unchecked"
		}
	}
	// expiry consulted
	type exp struct {
		Func  string `json:"func"`
		Entry string `json:"entry"`
		Ok    bool   `json:"consulted"`
	}
	exps := []exp{
		{"VIPPollCheckHandler", "pushTransaction", c05ConsultsExpiry(p, p.funcs["VIPPollCheckHandler"], "pushTransaction")},
		{"u2fSignResponse", "localAuth", c05ConsultsExpiry(p, p.funcs["u2fSignResponse"], "localAuth")},
		{"webauthnAuthFinish", "localAuth", c05ConsultsExpiry(p, p.funcs["webauthnAuthFinish"], "localAuth")},
	}
	// TOTP: which step is stored
	stored := "unknown"
	if fd := p.funcs["validateUserTOTP"]; fd != nil {
		var rhs []string
		ast.Inspect(fd.Body, func(n ast.Node) bool {
			if as, ok := n.(*ast.AssignStmt); ok && len(as.Lhs) == 1 && p.str(as.Lhs[0]) == "profile.LastSuccessfullTOTPCounter" {
				rhs = append(rhs, p.str(as.Rhs[0]))
			}
			return true
		})
		guard := false
		ast.Inspect(fd.Body, func(n ast.Node) bool {
			if be, ok := n.(*ast.BinaryExpr); ok && be.Op == token.LEQ &&
				p.str(be.X) == "matchedCounter" && p.str(be.Y) == "profile.LastSuccessfullTOTPCounter" {
				guard = true
			}
			return true
		})
		fromMatch := false
		for _, r := range assignmentsTo(fd, "matchedCounter") {
			if ce, ok := r.(*ast.CallExpr); ok && p.str(ce.Fun) == "totpMatchedCounter" {
				fromMatch = true
			}
		}
		if len(rhs) == 1 && rhs[0] == "counter" {
			stored = "currentStep"
		} else if len(rhs) == 1 && rhs[0] == "matchedCounter" && guard && fromMatch {
			stored = "matchedStep"
		}
	}

	// which of several auth cookies is used
	type choice struct {
		Func   string `json:"func"`
		Choice string `json:"choice"`
	}
	var choices []choice
	for _, fn := range []string{"checkAuth", "updateAuthCookieAuthlevel", "logoutHandler"} {
		choices = append(choices, choice{fn, c05CookieChoice(p, p.funcs[fn])})
	}
	// one-time value consumed (durably) before the upgrade
	type cons struct {
		Func string `json:"func"`
		Ok   bool   `json:"consumed_before_upgrade"`
	}
	conss := []cons{
		{"BootstrapOtpAuthHandler", c05BootstrapConsumesFirst(p)},
		{"internalTOTPAuthHandler", c05TotpConsumesFirst(p)},
	}

	var b strings.Builder
	b.WriteString("import KM.Model.SessionSites\nnamespace KM.Gen\nopen KM.SessionSites\n\n")
	b.WriteString("/-- every `updateAuthCookieAuthlevel(w, r, X)` call of cmd/keymasterd: what X is built from -/\n")
	b.WriteString("def upgradeSites : List UpgradeSite := [\n")
	for i, s := range sites {
		sep := ","
		if i == len(sites)-1 {
			sep = ""
		}
		var cs []string
		for _, v := range s.Consts {
			cs = append(cs, fmt.Sprint(v))
		}
		fmt.Fprintf(&b, "  ⟨%s, LevelBase.%s, [%s]⟩%s  -- %s %s: %s\n", c05Handler(s.Func), s.Base, strings.Join(cs, ", "), sep, s.Pos, s.Func, s.Arg)
	}
	b.WriteString("]\n\n")
	fmt.Fprintf(&b, "/-- VIPPollCheckHandler: is `pushTransaction.Username` compared with `authData.Username`? -/\ndef vipPollBinding : PollBinding := PollBinding.%s\n", vipBinding)
	fmt.Fprintf(&b, "/-- oktaPollCheckHandler: is the push looked up by `authData.Username`? -/\ndef oktaPollBinding : PollBinding := PollBinding.%s\n\n", oktaBinding)
	b.WriteString("/-- (handler, does it refuse an entry whose ExpiresAt has passed before using it) -/\ndef expirySites : List (HandlerId × Bool) := [")
	for i, x := range exps {
		if i > 0 {
			b.WriteString(", ")
		}
		fmt.Fprintf(&b, "(%s, %s)", c05Handler(x.Func), leanBool(x.Ok))
	}
	b.WriteString("]\n\n")
	b.WriteString("/-- (handler, is the pending challenge deleted before this upgrade) for the hardware token handlers -/\ndef challengeConsumed : List (HandlerId × Bool) := [")
	first := true
	for _, s := range sites {
		if s.Func == "u2fSignResponse" || s.Func == "webauthnAuthFinish" {
			if !first {
				b.WriteString(", ")
			}
			first = false
			fmt.Fprintf(&b, "(%s, %s)", c05Handler(s.Func), leanBool(s.Deleted))
		}
	}
	b.WriteString("]\n\n")
	fmt.Fprintf(&b, "/-- what validateUserTOTP stores in LastSuccessfullTOTPCounter -/\ndef totpStored : TotpStored := TotpStored.%s\n", stored)
	b.WriteString("\n/-- which of several cookies named auth_cookie each function uses -/\ndef authCookieChoice : List (AuthFn × CookieChoice) := [")
	for i, c := range choices {
		if i > 0 {
			b.WriteString(", ")
		}
		fmt.Fprintf(&b, "(AuthFn.%s, CookieChoice.%s)", c.Func, c.Choice)
	}
	b.WriteString("]\n\n/-- (handler, is the stored one-time value cleared/advanced and SAVED, with the error path leaving the handler, before the upgrade) -/\ndef consumedBeforeUpgrade : List (HandlerId × Bool) := [")
	for i, c := range conss {
		if i > 0 {
			b.WriteString(", ")
		}
		fmt.Fprintf(&b, "(%s, %s)", c05Handler(c.Func), leanBool(c.Ok))
	}
	b.WriteString("]\n")
	// the user each upgrade site names as the owner of the cookie to raise, and whether the re-signing helper
	// refuses a cookie whose subject is somebody else
	b.WriteString("\n/-- (handler, source of the user name handed to updateAuthCookieAuthlevel; \"\" = none) -/\ndef upgradeUserArgs : List (HandlerId × List Char) := [")
	for i, s := range sites {
		if i > 0 {
			b.WriteString(", ")
		}
		fmt.Fprintf(&b, "(%s, %s.toList)", c05Handler(s.Func), strconv.Quote(s.User))
	}
	b.WriteString("]\n")
	subj := c05UpgradeSubjectChecked(p)
	fmt.Fprintf(&b, "\n/-- updateAuthJWTWithNewAuthLevel: `if parsedJWT.Subject != username { … return }` before the claims are re-signed, and updateAuthCookieAuthlevel hands its username parameter through -/\ndef upgradeSubjectChecked : Bool := %s\n", leanBool(subj))
	b.WriteString("\nend KM.Gen\n")
	e.lean("C05.lean", b.String())
	e.facts["c05_upgrade_subject_checked"] = subj
	e.facts["c05_auth_cookie_choice"] = choices
	e.facts["c05_consumed_before_upgrade"] = conss
	e.facts["c05_upgrade_sites"] = sites
	e.facts["c05_poll_binding"] = map[string]string{"vip": vipBinding, "okta": oktaBinding}
	e.facts["c05_expiry_sites"] = exps
	e.facts["c05_totp_stored"] = stored
}
