package main

// Facts for C11 (and the decode part of C10), regenerated from lib/certgen/iprestricted.go and
// cmd/keymasterd/{roleRequestingCert,app}.go:
//   * the guard of decodeIPV4AddressChoice (which comparisons return an error before the copy loop),
//     the shape of the copy loop and the size of the destination array;
//   * the address-family constant and the extension OID;
//   * what VerifyIPRestrictedX509CertIP / ExtractIPNetsFromIPRestrictedX509 do with a foreign family;
//   * where the refresh handler takes identity and netblocks from, and which mask it hands to checkAuth.

import (
	"fmt"
	"go/ast"
	"go/token"
	"strings"
)

func init() { register("c11-ipblock", genC11) }

// resolveLocal replaces a local identifier by its single assignment's right-hand side (depth ≤ 3).
func resolveLocal(p *pkgInfo, fd *ast.FuncDecl, e ast.Expr, depth int) string {
	if id, ok := e.(*ast.Ident); ok && depth < 3 {
		rhs := assignmentsTo(fd, id.Name)
		if len(rhs) == 1 {
			return resolveLocal(p, fd, rhs[0], depth+1)
		}
	}
	if ce, ok := e.(*ast.CallExpr); ok && depth < 3 {
		parts := make([]string, len(ce.Args))
		for i, a := range ce.Args {
			parts[i] = resolveLocal(p, fd, a, depth+1)
		}
		return p.str(ce.Fun) + "(" + strings.Join(parts, ", ") + ")"
	}
	return p.str(e)
}

// returnsError: does the block end in a return whose last result is not the identifier nil?
func returnsError(b *ast.BlockStmt) bool {
	if b == nil || len(b.List) == 0 {
		return false
	}
	rs, ok := b.List[len(b.List)-1].(*ast.ReturnStmt)
	if !ok || len(rs.Results) == 0 {
		return false
	}
	last := rs.Results[len(rs.Results)-1]
	if id, ok := last.(*ast.Ident); ok && id.Name == "nil" {
		return false
	}
	return true
}

func splitOr(e ast.Expr) []ast.Expr {
	if pe, ok := e.(*ast.ParenExpr); ok {
		return splitOr(pe.X)
	}
	if be, ok := e.(*ast.BinaryExpr); ok && be.Op == token.LOR {
		return append(splitOr(be.X), splitOr(be.Y)...)
	}
	return []ast.Expr{e}
}

type c11Guard struct {
	MaxBits  int64    `json:"max_bits"` // -1: no such comparison
	Neg      bool     `json:"rejects_negative"`
	Bytes    bool     `json:"rejects_short_bytes"`
	Unknown  []string `json:"unrecognised_disjuncts"`
	LoopOK   bool     `json:"loop_shape_recognised"`
	ArrayLen int64    `json:"array_len"`
	Param    string   `json:"param"`
}

func analyseDecode(p *pkgInfo) c11Guard {
	g := c11Guard{MaxBits: -1, ArrayLen: -1}
	fd := p.funcs["decodeIPV4AddressChoice"]
	if fd == nil || fd.Body == nil || len(fd.Type.Params.List) != 1 || len(fd.Type.Params.List[0].Names) != 1 {
		return g
	}
	x := fd.Type.Params.List[0].Names[0].Name
	g.Param = x
	bl := x + ".BitLength"
	seenLoop := false
	for _, st := range fd.Body.List {
		switch s := st.(type) {
		case *ast.DeclStmt:
			// var encodedIP [4]byte
			if gd, ok := s.Decl.(*ast.GenDecl); ok {
				for _, sp := range gd.Specs {
					if vs, ok := sp.(*ast.ValueSpec); ok {
						if at, ok := vs.Type.(*ast.ArrayType); ok && at.Len != nil {
							if v, ok := p.evalInt(at.Len, 0); ok {
								g.ArrayLen = v
							}
						}
					}
				}
			}
		case *ast.IfStmt:
			if seenLoop || s.Init != nil || s.Else != nil || !returnsError(s.Body) {
				continue
			}
			for _, d := range splitOr(s.Cond) {
				str := p.str(d)
				be, ok := d.(*ast.BinaryExpr)
				if !ok {
					g.Unknown = append(g.Unknown, str)
					continue
				}
				l, r := p.str(be.X), p.str(be.Y)
				switch {
				case l == bl && be.Op == token.GTR:
					if v, ok := p.evalInt(be.Y, 0); ok {
						g.MaxBits = v
					} else {
						g.Unknown = append(g.Unknown, str)
					}
				case r == bl && be.Op == token.LSS && l != "len("+x+".Bytes)":
					if v, ok := p.evalInt(be.X, 0); ok {
						g.MaxBits = v
					} else {
						g.Unknown = append(g.Unknown, str)
					}
				case l == bl && be.Op == token.LSS && r == "0":
					g.Neg = true
				case l == "len("+x+".Bytes)" && be.Op == token.LSS &&
					(r == "("+bl+"+7)/8" || r == "("+bl+" + 7) / 8" || r == "("+bl+"+7) / 8"):
					g.Bytes = true
				default:
					g.Unknown = append(g.Unknown, str)
				}
			}
		case *ast.ForStmt:
			seenLoop = true
			// for i := 0; (i * 8) < X.BitLength; i++ { encodedIP[i] = X.Bytes[i] }
			cond := strings.ReplaceAll(p.str(s.Cond), " ", "")
			okCond := cond == "(i*8)<"+bl || cond == "i*8<"+bl
			okInit := s.Init != nil && strings.ReplaceAll(p.str(s.Init), " ", "") == "i:=0"
			okPost := s.Post != nil && strings.ReplaceAll(p.str(s.Post), " ", "") == "i++"
			okBody := len(s.Body.List) == 1 && strings.ReplaceAll(p.str(s.Body.List[0]), " ", "") == "encodedIP[i]="+x+".Bytes[i]"
			g.LoopOK = okCond && okInit && okPost && okBody
		}
	}
	return g
}

// wrongFamilyAction: inside fn, the `if !bytes.Equal(addressList.AddressFamily, ipV4FamilyEncoding) {…}` body
func wrongFamilyAction(p *pkgInfo, fn string) string {
	fd := p.funcs[fn]
	if fd == nil {
		return "unknown"
	}
	res := "unknown"
	ast.Inspect(fd.Body, func(n ast.Node) bool {
		is, ok := n.(*ast.IfStmt)
		if !ok {
			return true
		}
		c := strings.ReplaceAll(p.str(is.Cond), " ", "")
		if !strings.HasPrefix(c, "!bytes.Equal(") || !strings.Contains(c, "AddressFamily") || !strings.Contains(c, "ipV4FamilyEncoding") {
			return true
		}
		if len(is.Body.List) == 0 {
			return true
		}
		switch last := is.Body.List[len(is.Body.List)-1].(type) {
		case *ast.BranchStmt:
			if last.Tok == token.CONTINUE {
				res = "skip"
			}
		case *ast.ReturnStmt:
			if returnsError(is.Body) {
				res = "error"
			}
		}
		return true
	})
	return res
}

func byteSliceLit(p *pkgInfo, e ast.Expr) ([]int64, bool) {
	cl, ok := e.(*ast.CompositeLit)
	if !ok {
		return nil, false
	}
	var out []int64
	for _, el := range cl.Elts {
		v, ok := p.evalInt(el, 0)
		if !ok {
			return nil, false
		}
		out = append(out, v)
	}
	return out, true
}

func natList(l []int64) string {
	s := make([]string, len(l))
	for i, v := range l {
		s[i] = fmt.Sprint(v)
	}
	return "[" + strings.Join(s, ", ") + "]"
}

func chars(s string) string { return leanStr(s) + ".toList" }

func genC11(e *emitter) {
	cg := e.pkg("lib/certgen")
	kmd := e.pkg("cmd/keymasterd")
	g := analyseDecode(cg)
	afi, _ := byteSliceLit(cg, cg.vars["ipV4FamilyEncoding"])
	oid, _ := byteSliceLit(cg, cg.vars["oidIPAddressDelegation"])
	vAct := wrongFamilyAction(cg, "VerifyIPRestrictedX509CertIP")
	xAct := wrongFamilyAction(cg, "ExtractIPNetsFromIPRestrictedX509")

	// refresh: where do identity and netblocks come from?
	roleSrc, netSrc, maskArg := "unknown", "unknown", "unknown"
	if fd := kmd.funcs["parseRefreshRoleCertGenParams"]; fd != nil {
		ast.Inspect(fd.Body, func(n ast.Node) bool {
			as, ok := n.(*ast.AssignStmt)
			if !ok || len(as.Lhs) != 1 || len(as.Rhs) != 1 {
				return true
			}
			switch kmd.str(as.Lhs[0]) {
			case "rvalue.Role":
				roleSrc = resolveLocal(kmd, fd, as.Rhs[0], 0)
			case "rvalue.RequestorNetblocks":
				netSrc = resolveLocal(kmd, fd, as.Rhs[0], 0)
			}
			return true
		})
	}
	if fd := kmd.funcs["refreshRoleRequestingCertGenHandler"]; fd != nil {
		ast.Inspect(fd.Body, func(n ast.Node) bool {
			if ce, ok := isCallTo2(n, "state.checkAuth"); ok && len(ce.Args) == 3 {
				maskArg = kmd.str(ce.Args[2])
			}
			return true
		})
	}
	// getUsernameIfIPRestricted: what is verified against what, and which name is returned
	verCert, verAddr, nameSrc := "unknown", "unknown", "unknown"
	if fd := kmd.funcs["getUsernameIfIPRestricted"]; fd != nil {
		ast.Inspect(fd.Body, func(n ast.Node) bool {
			if ce, ok := isCallTo2(n, "certgen.VerifyIPRestrictedX509CertIP"); ok && len(ce.Args) == 2 {
				verCert = resolveLocal(kmd, fd, ce.Args[0], 0)
				verAddr = resolveLocal(kmd, fd, ce.Args[1], 0)
			}
			return true
		})
		// the success return is the last statement
		if n := len(fd.Body.List); n > 0 {
			if rs, ok := fd.Body.List[n-1].(*ast.ReturnStmt); ok && len(rs.Results) == 4 {
				nameSrc = resolveLocal(kmd, fd, rs.Results[0], 0)
			}
		}
	}

	var b strings.Builder
	b.WriteString("namespace KM.Gen.C11\n\n")
	b.WriteString("/-- `decodeIPV4AddressChoice`: bound N of an `X.BitLength > N` test that returns an error before the copy loop -/\n")
	if g.MaxBits >= 0 {
		fmt.Fprintf(&b, "def decodeGuardMaxBits : Option Nat := some %d\n", g.MaxBits)
	} else {
		b.WriteString("def decodeGuardMaxBits : Option Nat := none\n")
	}
	b.WriteString("/-- … a `len(X.Bytes) < (X.BitLength+7)/8` test that returns an error before the copy loop -/\n")
	fmt.Fprintf(&b, "def decodeGuardBytes : Bool := %s\n", leanBool(g.Bytes))
	b.WriteString("/-- … a `X.BitLength < 0` test (Go int; encoding/asn1 never yields one) -/\n")
	fmt.Fprintf(&b, "def decodeGuardNegative : Bool := %s\n", leanBool(g.Neg))
	b.WriteString("/-- the copy loop is `for i := 0; (i*8) < X.BitLength; i++ { encodedIP[i] = X.Bytes[i] }` -/\n")
	fmt.Fprintf(&b, "def decodeLoopRecognised : Bool := %s\n", leanBool(g.LoopOK))
	al := g.ArrayLen
	if al < 0 {
		al = 0
	}
	fmt.Fprintf(&b, "/-- length of the destination array `encodedIP` -/\ndef decodeArrayLen : Nat := %d\n", al)
	fmt.Fprintf(&b, "def ipV4FamilyEncoding : List Nat := %s\n", natList(afi))
	fmt.Fprintf(&b, "def oidIPAddressDelegation : List Nat := %s\n", natList(oid))
	fmt.Fprintf(&b, "/-- what each reader does with an address family other than IPv4 (skip | error | unknown) -/\n")
	fmt.Fprintf(&b, "def verifyWrongFamily : List Char := %s\n", chars(vAct))
	fmt.Fprintf(&b, "def extractWrongFamily : List Char := %s\n", chars(xAct))
	fmt.Fprintf(&b, "/-- parseRefreshRoleCertGenParams: sources of the refreshed certificate's identity and netblocks -/\n")
	fmt.Fprintf(&b, "def refreshRoleSource : List Char := %s\n", chars(roleSrc))
	fmt.Fprintf(&b, "def refreshNetblocksSource : List Char := %s\n", chars(netSrc))
	fmt.Fprintf(&b, "/-- mask refreshRoleRequestingCertGenHandler hands to checkAuth -/\n")
	fmt.Fprintf(&b, "def refreshAuthMask : List Char := %s\n", chars(maskArg))
	fmt.Fprintf(&b, "/-- getUsernameIfIPRestricted: certificate and address handed to VerifyIPRestrictedX509CertIP, name returned -/\n")
	fmt.Fprintf(&b, "def ipBranchVerifyCert : List Char := %s\n", chars(verCert))
	fmt.Fprintf(&b, "def ipBranchVerifyAddr : List Char := %s\n", chars(verAddr))
	fmt.Fprintf(&b, "def ipBranchNameSource : List Char := %s\n", chars(nameSrc))
	b.WriteString("\nend KM.Gen.C11\n")
	e.lean("C11.lean", b.String())
	e.facts["c11"] = map[string]interface{}{
		"decode_guard": g, "ipv4_family": afi, "oid": oid,
		"verify_wrong_family": vAct, "extract_wrong_family": xAct,
		"refresh_role_source": roleSrc, "refresh_netblocks_source": netSrc, "refresh_auth_mask": maskArg,
		"ip_branch_verify_cert": verCert, "ip_branch_verify_addr": verAddr, "ip_branch_name_source": nameSrc,
	}
}
