package main

// A wrapping database/sql driver around sqlite3 that reports every statement on the
// user_profile table to a scheduler, so that the harness can force any interleaving of
// profile loads and saves of concurrently served requests (storage-operation granularity).

import (
	"database/sql"
	"database/sql/driver"
	"path/filepath"
	"strings"
	"sync"
	"testing"
	"time"

	sqlite3 "github.com/mattn/go-sqlite3"
)

type vfDBEvent struct {
	kind    string // load | save
	release chan struct{}
}

type vfScheduler struct {
	mu       sync.Mutex
	enabled  bool
	arrivals chan *vfDBEvent
}

var vfSched = &vfScheduler{arrivals: make(chan *vfDBEvent, 64)}

func vfClassify(q string) string {
	l := strings.ToLower(q)
	switch {
	case strings.HasPrefix(l, "select profile_data from user_profile where username"):
		return "load"
	case strings.HasPrefix(l, "insert or replace into user_profile"), strings.HasPrefix(l, "delete from  user_profile where username"):
		return "save"
	}
	return ""
}

// vfSlowSave > 0: every profile save takes that long (a remote database round trip); loads are unaffected
var vfSlowSave time.Duration

func (s *vfScheduler) hook(q string) {
	s.mu.Lock()
	on := s.enabled
	slow := vfSlowSave
	s.mu.Unlock()
	if slow > 0 && vfClassify(q) == "save" {
		time.Sleep(slow)
	}
	if !on {
		return
	}
	k := vfClassify(q)
	if k == "" {
		return
	}
	ev := &vfDBEvent{kind: k, release: make(chan struct{})}
	s.arrivals <- ev
	<-ev.release
}

type vfHookDriver struct{ inner driver.Driver }

func (d vfHookDriver) Open(name string) (driver.Conn, error) {
	c, err := d.inner.Open(name)
	if err != nil {
		return nil, err
	}
	return &vfHookConn{c}, nil
}

type vfHookConn struct{ driver.Conn }

func (c *vfHookConn) Prepare(q string) (driver.Stmt, error) {
	s, err := c.Conn.Prepare(q)
	if err != nil {
		return nil, err
	}
	return &vfHookStmt{Stmt: s, q: q}, nil
}

type vfHookStmt struct {
	driver.Stmt
	q string
}

func (s *vfHookStmt) Exec(args []driver.Value) (driver.Result, error) {
	vfSched.hook(s.q)
	return s.Stmt.Exec(args)
}

func (s *vfHookStmt) Query(args []driver.Value) (driver.Rows, error) {
	vfSched.hook(s.q)
	rows, err := s.Stmt.Query(args)
	if err == nil && vfClassify(s.q) == "load" {
		return &vfHookRows{Rows: rows}, nil
	}
	return rows, err
}

// vfPostLoad (guarded by vfSched.mu): while the scheduler is enabled, a request is parked a second
// time when its profile load has RETURNED (the result set is read and closed, nothing is held in the
// database any more) — event kind "loaded". With it a request has a yield point on both sides of
// whatever it does between reading the profile and its next storage statement.
var vfPostLoad bool

type vfHookRows struct {
	driver.Rows
	once sync.Once
}

func (r *vfHookRows) Close() error {
	err := r.Rows.Close()
	r.once.Do(func() {
		vfSched.mu.Lock()
		on := vfSched.enabled && vfPostLoad
		vfSched.mu.Unlock()
		if !on {
			return
		}
		ev := &vfDBEvent{kind: "loaded", release: make(chan struct{})}
		vfSched.arrivals <- ev
		<-ev.release
	})
	return err
}

var vfHookRegisterOnce sync.Once

// vfHookDB reopens the primary database of state through the hooking driver.
func vfHookDB(t *testing.T, state *RuntimeState) {
	vfHookRegisterOnce.Do(func() { sql.Register("sqlite3vf", vfHookDriver{&sqlite3.SQLiteDriver{}}) })
	path := filepath.Join(state.Config.Base.DataDirectory, profileDBFilename)
	state.db.Close()
	db, err := sql.Open("sqlite3vf", path)
	if err != nil {
		t.Fatal(err)
	}
	db.SetMaxIdleConns(0)
	state.db = db
	state.remoteDBQueryTimeout = time.Hour // never fall back to the cache while a load is held
}

// vfTask is one request being served in its own goroutine.
type vfTask struct {
	name    string
	run     func()
	done    chan struct{}
	pending *vfDBEvent
	trace   []string
}

// vfRunSchedule serves the tasks concurrently, but lets exactly one of them run at a time:
// schedule[i] names the task whose next storage operation is released at step i. Tasks are
// started in the order of their first appearance. Returns the realised trace, e.g.
// ["A:load","B:load","A:save","B:save"]. A task that finishes early is skipped.
func vfRunSchedule(t *testing.T, tasks map[string]*vfTask, schedule []string) []string {
	var trace []string
	vfSched.mu.Lock()
	vfSched.enabled = true
	vfSched.mu.Unlock()
	defer func() {
		vfSched.mu.Lock()
		vfSched.enabled = false
		vfSched.mu.Unlock()
	}()
	started := map[string]bool{}
	// advance lets task x run until its next storage event or its completion
	waitNext := func(x *vfTask) {
		select {
		case ev := <-vfSched.arrivals:
			x.pending = ev
		case <-x.done:
			x.pending = nil
		case <-time.After(20 * time.Second):
			t.Fatalf("scheduler: task %s neither reached storage nor finished", x.name)
		}
	}
	for _, name := range schedule {
		x := tasks[name]
		if x == nil {
			t.Fatalf("unknown task %s", name)
		}
		if !started[name] {
			started[name] = true
			x.done = make(chan struct{})
			go func() { defer close(x.done); x.run() }()
			waitNext(x)
		}
		if x.pending == nil {
			continue // already finished
		}
		trace = append(trace, name+":"+x.pending.kind)
		close(x.pending.release)
		waitNext(x)
	}
	// let everything still blocked run to completion, in name order
	for _, name := range []string{"A", "B", "C"} {
		x := tasks[name]
		if x == nil || !started[name] {
			continue
		}
		for x.pending != nil {
			trace = append(trace, name+":"+x.pending.kind)
			close(x.pending.release)
			waitNext(x)
		}
	}
	return trace
}
