package main

// C03 harness: drives the real certificate issuing paths and reports the validity
// window of every certificate that comes back, together with wall-clock readings
// taken immediately before and after the call.
//
// ops (one per line, space separated):
//   cg <ssh|x509|k8s> <cookie|basic|cert|ipcert> <ageSeconds> <q|m> <hex duration | ~>
//        -> <status> <parsed: absent|err|int64 ns> <iat ns | now> <tb ns> <ta ns> <validAfter|- > <validBefore|- >
//   role <handler|refresh|direct> [<presented lifetime ns | -> <role|ext|-> <hex form duration | ~>]
//        refresh: the IP-restricted certificate presented is minted with certgen.GenIPRestrictedX509Cert
//        for the given lifetime under keymaster's role CA (role) or under another client CA (ext);
//        an optional `duration` form field is sent along (the handlers document one but must not obey it blindly)
//        -> <status> <Duration ns chosen by the parameter parser | -> <tb> <ta> <notBefore> <notAfter> [<NotAfter-NotBefore of the presented certificate, ns | ->]
//   aws  -> <status> - <tb> <ta> <notBefore> <notAfter>
//   ca <offset seconds>   -> ok
//        replaces the user CA certificate(s) and the role-requesting CA certificate by ones (same keys, same
//        subjects, made by the repo's own generator) whose validity is shifted by the offset, i.e. what the daemon
//        holds when it was unsealed while the clock read now+offset (clock stepped back since, or not yet reached).
//        0 restores the originals.  All following ops run under these CA certificates.
//   seq <ssh|x509|k8s> <bootstrap|totp|direct|twice> <login age s> <q|m> <hex duration | ~>
//        a session: password login `age` seconds ago (cookie iat = exp-16h), then NOW a real second-factor step-up
//        through the named handler (twice: TOTP then bootstrap OTP), then the certificate request with the cookie the
//        step-up handed back  -> like cg, with <iat> = the LOGIN moment, plus <iat of the cookie presented to certgen>
//   secs <int64 ns>
//        -> decimal value of uint64(time.Duration(ns).Seconds()) as computed by this platform
//   par <ssh|x509|k8s> <q|m> <cookie|cert>:<ageSeconds>:<hex duration | ~> ... (2 or more)
//        OVERLAPPING requests of one user, each on its own session (own authentication moment), all for the same
//        public key: the first one listed is started alone and parked inside the CA signer (crypto.Signer wrapper
//        around state.Signer whose first Sign() waits); while it is parked the others are started; the signer is
//        released once every other request has either answered or reached the signer itself (or a budget ran out:
//        they are waiting for something else).  Each request is answered with its own certificate and reported
//        exactly like a cg op (own <iat>, own clock bracket)
//        -> <Sign() calls seen> <1 if the first request was parked> <n released because budget ran out> | <cg result 1> | <cg result 2> ...

import (
	"bytes"
	"crypto"
	"crypto/ecdsa"
	"crypto/elliptic"
	"crypto/rand"
	"crypto/tls"
	"crypto/x509"
	"crypto/x509/pkix"
	"encoding/base64"
	"encoding/pem"
	"fmt"
	"io"
	"math/big"
	"mime/multipart"
	"net"
	"net/http"
	"net/http/httptest"
	"net/url"
	"strconv"
	"strings"
	"sync"
	"sync/atomic"
	"testing"
	"time"

	"github.com/Cloud-Foundations/keymaster/lib/certgen"
	"github.com/Cloud-Foundations/keymaster/lib/server/aws_identity_cert"
	"github.com/Cloud-Foundations/keymaster/lib/webapi/v0/proto"
	"github.com/go-jose/go-jose/v4"
	"github.com/go-jose/go-jose/v4/jwt"
	"github.com/pquerna/otp/totp"
	"golang.org/x/crypto/ssh"
)

// vfC03Cookie mints a session cookie exactly like genNewSerializedAuthJWT does, but with
// caller-chosen iat / nbf / exp (seconds), using the state's real signer.
func vfC03Cookie(t *testing.T, state *RuntimeState, user string, level int, iat, nbf, exp int64) *http.Cookie {
	signerOptions := (&jose.SignerOptions{}).WithType("JWT")
	sigAlgo, err := publicToPreferedJoseSigAlgo(state.Signer.Public())
	if err != nil {
		t.Fatal(err)
	}
	signer, err := jose.NewSigner(jose.SigningKey{Algorithm: sigAlgo, Key: state.Signer}, signerOptions)
	if err != nil {
		t.Fatal(err)
	}
	issuer := state.idpGetIssuer()
	tok := authInfoJWT{Issuer: issuer, Subject: user, Audience: []string{issuer},
		AuthType: level, TokenType: "keymaster_auth", NotBefore: nbf, IssuedAt: iat, Expiration: exp}
	val, err := jwt.Signed(signer).Claims(tok).Serialize()
	if err != nil {
		t.Fatal(err)
	}
	return &http.Cookie{Name: authCookieName, Value: val}
}

// vfC03ClientCert signs a keymaster user certificate (CN=user) whose NotBefore is chosen.
func vfC03ClientCert(t *testing.T, state *RuntimeState, user string, notBefore time.Time) []*x509.Certificate {
	caCert, err := x509.ParseCertificate(state.caCertDer[len(state.caCertDer)-1])
	if err != nil {
		t.Fatal(err)
	}
	pub, err := getPubKeyFromPem(testUserPEMPublicKey)
	if err != nil {
		t.Fatal(err)
	}
	serial, _ := rand.Int(rand.Reader, big.NewInt(1<<62))
	tmpl := x509.Certificate{SerialNumber: serial, Subject: pkix.Name{CommonName: user},
		NotBefore: notBefore, NotAfter: time.Now().Add(time.Hour),
		KeyUsage:    x509.KeyUsageDigitalSignature,
		ExtKeyUsage: []x509.ExtKeyUsage{x509.ExtKeyUsageClientAuth}, BasicConstraintsValid: true}
	der, err := x509.CreateCertificate(rand.Reader, &tmpl, caCert, pub, state.Signer)
	if err != nil {
		t.Fatal(err)
	}
	leaf, err := x509.ParseCertificate(der)
	if err != nil {
		t.Fatal(err)
	}
	return []*x509.Certificate{leaf, caCert}
}

func vfC03KeyRequest(path string, query url.Values, fields [][2]string, fileData string) *http.Request {
	body := &bytes.Buffer{}
	mw := multipart.NewWriter(body)
	fw, _ := mw.CreateFormFile("pubkeyfile", "somefilename.pub")
	io.Copy(fw, strings.NewReader(fileData))
	for _, kv := range fields {
		mw.WriteField(kv[0], kv[1])
	}
	mw.Close()
	target := path
	if len(query) > 0 {
		target += "?" + query.Encode()
	}
	req := httptest.NewRequest("POST", target, body)
	req.Header.Set("Content-Type", mw.FormDataContentType())
	return req
}

type vfC03RoundTripper struct{ arn string }

func (rt vfC03RoundTripper) RoundTrip(r *http.Request) (*http.Response, error) {
	xmlBody := "<GetCallerIdentityResponse><GetCallerIdentityResult><Arn>" + rt.arn +
		"</Arn></GetCallerIdentityResult></GetCallerIdentityResponse>"
	return &http.Response{StatusCode: 200, Status: "200 OK", Proto: "HTTP/1.1", ProtoMajor: 1, ProtoMinor: 1,
		Header: http.Header{}, Body: io.NopCloser(strings.NewReader(xmlBody)), Request: r}, nil
}

func vfC03X509Window(body []byte) (string, string) {
	block, _ := pem.Decode(body)
	if block == nil || block.Type != "CERTIFICATE" {
		return "undecodable", "undecodable"
	}
	c, err := x509.ParseCertificate(block.Bytes)
	if err != nil {
		return "undecodable", "undecodable"
	}
	return strconv.FormatInt(c.NotBefore.Unix(), 10), strconv.FormatInt(c.NotAfter.Unix(), 10)
}

// vfC03ShiftCA re-issues a self-signed CA certificate with its validity shifted by d.
func vfC03ShiftCA(t *testing.T, der []byte, signer crypto.Signer, d time.Duration) []byte {
	c, err := x509.ParseCertificate(der)
	if err != nil {
		t.Fatal(err)
	}
	tmpl := *c
	tmpl.NotBefore = c.NotBefore.Add(d)
	tmpl.NotAfter = c.NotAfter.Add(d)
	tmpl.SignatureAlgorithm = x509.UnknownSignatureAlgorithm
	out, err := x509.CreateCertificate(rand.Reader, &tmpl, &tmpl, signer.Public(), signer)
	if err != nil {
		t.Fatal(err)
	}
	return out
}

// vfC03Window serves one certificate request and decodes the validity window of the answer.
func vfC03Window(state *RuntimeState, req *http.Request, ty string) (status string, va, vb string, tb, ta int64) {
	tb = time.Now().UnixNano()
	rr, p := vfServe(state.certGenHandler, req)
	ta = time.Now().UnixNano()
	va, vb = "-", "-"
	if p != nil {
		return "PANIC", va, vb, tb, ta
	}
	if rr.Code == 200 {
		if ty == "ssh" {
			pk, _, _, _, err := ssh.ParseAuthorizedKey(rr.Body.Bytes())
			if c, ok := pk.(*ssh.Certificate); err == nil && ok {
				va, vb = strconv.FormatUint(c.ValidAfter, 10), strconv.FormatUint(c.ValidBefore, 10)
			} else {
				va, vb = "undecodable", "undecodable"
			}
		} else {
			va, vb = vfC03X509Window(rr.Body.Bytes())
		}
	}
	return strconv.Itoa(rr.Code), va, vb, tb, ta
}

func vfC03CookieFrom(rr *httptest.ResponseRecorder) *http.Cookie {
	var out *http.Cookie
	for _, ck := range rr.Result().Cookies() {
		if ck.Name == authCookieName {
			out = &http.Cookie{Name: authCookieName, Value: ck.Value}
		}
	}
	return out
}

// vfC03ParkingSigner wraps a CA signer: the first Sign() call announces itself and waits for release,
// later calls go straight through.
type vfC03ParkingSigner struct {
	inner   crypto.Signer
	calls   int32
	entered chan struct{}
	release chan struct{}
}

func (s *vfC03ParkingSigner) Public() crypto.PublicKey { return s.inner.Public() }

func (s *vfC03ParkingSigner) Sign(rnd io.Reader, digest []byte, opts crypto.SignerOpts) ([]byte, error) {
	if atomic.AddInt32(&s.calls, 1) == 1 {
		close(s.entered)
		<-s.release
	}
	return s.inner.Sign(rnd, digest, opts)
}

func TestVerifC03(t *testing.T) {
	vio := vfOpen(t)
	defer vio.close()
	state, cleanup := vfNewState(t)
	defer cleanup()
	state.Config.Base.AllowedAuthBackendsForCerts = []string{proto.AuthTypePassword}
	state.Config.Base.AllowedAuthBackendsForWebUI = []string{proto.AuthTypePassword}
	state.Config.Base.AutomationUsers = []string{"role1"}
	state.Config.Base.AutomationAdmins = []string{"admin1"}
	state.Config.AwsCerts.allowedAccounts = map[string]struct{}{"*": {}}
	const awsArn = "arn:aws:iam::123456789012:role/TestRole"
	issuer, err := aws_identity_cert.New(aws_identity_cert.Params{
		CertificateGenerator: state.generateRoleCert,
		AccountIdValidator:   state.checkAwsAccountAllowed,
		HttpClient:           &http.Client{Transport: vfC03RoundTripper{arn: "arn:aws:sts::123456789012:assumed-role/TestRole/sess"}},
	})
	if err != nil {
		t.Fatal(err)
	}
	state.awsCertIssuer = issuer
	userPemBlock, _ := pem.Decode([]byte(testUserPEMPublicKey))
	b64public := base64.RawURLEncoding.EncodeToString(userPemBlock.Bytes)
	userPub, err := getPubKeyFromPem(testUserPEMPublicKey)
	if err != nil {
		t.Fatal(err)
	}
	roleCA, err := x509.ParseCertificate(state.selfRoleCaCertDer)
	if err != nil {
		t.Fatal(err)
	}
	_, block10, _ := net.ParseCIDR("10.0.0.0/8")
	// a second client CA, as loaded through client_ca_filename
	extCAKey, err := ecdsa.GenerateKey(elliptic.P256(), rand.Reader)
	if err != nil {
		t.Fatal(err)
	}
	extCADer, err := certgen.GenSelfSignedCACert("external-client-ca", "example", extCAKey)
	if err != nil {
		t.Fatal(err)
	}
	extCA, err := x509.ParseCertificate(extCADer)
	if err != nil {
		t.Fatal(err)
	}
	awsSeq := 0
	origCA := append([][]byte{}, state.caCertDer...)
	origRoleCA := append([]byte{}, state.selfRoleCaCertDer...)
	state.Config.Base.EnableLocalTOTP = true
	totpKey, err := totp.Generate(totp.GenerateOpts{Issuer: "verif", AccountName: "username"})
	if err != nil {
		t.Fatal(err)
	}
	totpEnc, err := state.encryptWithPublicKeys([]byte(totpKey.Secret()))
	if err != nil {
		t.Fatal(err)
	}
	// one second-factor step-up through a real handler; returns the cookie the handler set
	stepUp := func(kind string, cookie *http.Cookie) (*http.Cookie, string) {
		profile := &userProfile{U2fAuthData: map[int64]*u2fAuthData{}, TOTPAuthData: map[int64]*totpAuthData{}}
		if kind == "bootstrap" { // only honoured for users without any registered second factor
			profile.BootstrapOTP = bootstrapOTPData{ExpiresAt: time.Now().Add(time.Minute), Sha512Hash: testBootstrapOtpHash[:]}
		} else {
			profile.TOTPAuthData[1] = &totpAuthData{Enabled: true, CreatedAt: time.Now(), EncryptedSecret: totpEnc}
		}
		if err := state.SaveUserProfile("username", profile); err != nil {
			t.Fatal(err)
		}
		state.totpLocalTateLimitMutex.Lock()
		state.totpLocalRateLimit = make(map[string]totpRateLimitInfo)
		state.totpLocalTateLimitMutex.Unlock()
		form := url.Values{}
		var h http.HandlerFunc
		path := ""
		switch kind {
		case "bootstrap":
			form.Set("OTP", testBootstrapOTP)
			h, path = state.BootstrapOtpAuthHandler, bootstrapOtpAuthPath
		case "totp":
			code, err := totp.GenerateCode(totpKey.Secret(), time.Now())
			if err != nil {
				t.Fatal(err)
			}
			form.Set("OTP", code)
			h, path = state.TOTPAuthHandler, totpAuthPath
		case "direct":
			h = func(w http.ResponseWriter, r *http.Request) {
				if _, err := vfUpgradeCookie(state, w, r, "username", AuthTypePassword|AuthTypeU2F); err != nil {
					w.WriteHeader(500)
				}
			}
			path = "/"
		default:
			return nil, "bad-stepup"
		}
		req := vfFormPost(path, form)
		req.AddCookie(cookie)
		rr, p := vfServe(h, req)
		if p != nil {
			return nil, "stepup-panic"
		}
		ck := vfC03CookieFrom(rr)
		if ck == nil {
			return nil, fmt.Sprintf("stepup-failed-%d", rr.Code)
		}
		return ck, ""
	}

	for _, line := range vio.ops {
		f := strings.Fields(line)
		if len(f) == 0 {
			vio.emit("bad-op")
			continue
		}
		switch f[0] {
		case "ca":
			if len(f) != 2 {
				vio.emit("bad-op")
				continue
			}
			off, err := strconv.ParseInt(f[1], 10, 64)
			if err != nil {
				vio.emit("bad-op")
				continue
			}
			if off == 0 {
				state.caCertDer = append([][]byte{}, origCA...)
				state.selfRoleCaCertDer = append([]byte{}, origRoleCA...)
			} else {
				state.caCertDer = nil
				for _, der := range origCA {
					state.caCertDer = append(state.caCertDer, vfC03ShiftCA(t, der, state.Signer, time.Duration(off)*time.Second))
				}
				state.selfRoleCaCertDer = vfC03ShiftCA(t, origRoleCA, state.Signer, time.Duration(off)*time.Second)
			}
			vio.emit("ok")
		case "seq":
			if len(f) != 6 {
				vio.emit("bad-op")
				continue
			}
			age, err := strconv.ParseInt(f[3], 10, 64)
			if err != nil || age < 0 || age >= maxAgeSecondsAuthCookie {
				vio.emit("bad-op")
				continue
			}
			q := url.Values{}
			var fields [][2]string
			keyData := testUserSSHPublicKey
			switch f[1] {
			case "ssh":
			case "x509":
				q.Set("type", "x509")
				keyData = testUserPEMPublicKey
			case "k8s":
				q.Set("type", "x509-kubernetes")
				keyData = testUserPEMPublicKey
			default:
				vio.emit("bad-op")
				continue
			}
			parsed := "absent"
			if f[5] != "~" {
				d, ok := vfUnhex(f[5])
				if !ok {
					vio.emit("bad-op")
					continue
				}
				if pd, err := time.ParseDuration(d); err != nil {
					parsed = "err"
				} else {
					parsed = strconv.FormatInt(int64(pd), 10)
				}
				if f[4] == "q" {
					q.Set("duration", d)
				} else {
					fields = append(fields, [2]string{"duration", d})
				}
			}
			// the login, `age` seconds ago: exactly the cookie setNewAuthCookie minted then
			t0 := time.Now().Unix() - age
			cookie := vfC03Cookie(t, state, "username", AuthTypePassword, t0, t0, t0+maxAgeSecondsAuthCookie)
			var kinds []string
			switch f[2] {
			case "twice":
				kinds = []string{"totp", "bootstrap"}
			default:
				kinds = []string{f[2]}
			}
			fail := ""
			for _, k := range kinds {
				var msg string
				cookie, msg = stepUp(k, cookie)
				if cookie == nil {
					fail = msg
					break
				}
			}
			if fail != "" {
				vio.emit("%s %s %d 0 0 - - -", fail, parsed, t0*1000000000)
				continue
			}
			presentedIat := "?"
			if info, err := state.getAuthInfoFromAuthJWT(cookie.Value); err == nil {
				presentedIat = strconv.FormatInt(info.IssuedAt.Unix(), 10)
			}
			req := vfC03KeyRequest("/certgen/username", q, fields, keyData)
			req.AddCookie(cookie)
			status, va, vb, tb, ta := vfC03Window(state, req, f[1])
			vio.emit("%s %s %d %d %d %s %s %s", status, parsed, t0*1000000000, tb, ta, va, vb, presentedIat)
		case "secs":
			if len(f) != 2 {
				vio.emit("bad-op")
				continue
			}
			n, err := strconv.ParseInt(f[1], 10, 64)
			if err != nil {
				vio.emit("bad-op")
				continue
			}
			d := time.Duration(n)
			vio.emit("%d", uint64(d.Seconds()))
		case "par":
			if len(f) < 5 {
				vio.emit("bad-op")
				continue
			}
			q0 := url.Values{}
			keyData := testUserSSHPublicKey
			switch f[1] {
			case "ssh":
			case "x509":
				q0.Set("type", "x509")
				keyData = testUserPEMPublicKey
			case "k8s":
				q0.Set("type", "x509-kubernetes")
				keyData = testUserPEMPublicKey
			default:
				vio.emit("bad-op")
				continue
			}
			type parReq struct {
				req    *http.Request
				parsed string
				iatNs  string
				out    string
			}
			var reqs []*parReq
			bad := false
			// every credential is minted while state.Signer is still the real key
			for _, spec := range f[3:] {
				sp := strings.Split(spec, ":")
				if len(sp) != 3 {
					bad = true
					break
				}
				age, err := strconv.ParseInt(sp[1], 10, 64)
				if err != nil {
					bad = true
					break
				}
				pr := &parReq{parsed: "absent"}
				q := url.Values{}
				for k, v := range q0 {
					q[k] = v
				}
				var fields [][2]string
				if sp[2] != "~" {
					d, ok := vfUnhex(sp[2])
					if !ok {
						bad = true
						break
					}
					if pd, err := time.ParseDuration(d); err != nil {
						pr.parsed = "err"
					} else {
						pr.parsed = strconv.FormatInt(int64(pd), 10)
					}
					if f[2] == "q" {
						q.Set("duration", d)
					} else {
						fields = append(fields, [2]string{"duration", d})
					}
				}
				pr.req = vfC03KeyRequest("/certgen/username", q, fields, keyData)
				nowS := time.Now().Unix()
				iat := nowS - age
				switch sp[0] {
				case "cookie":
					nbf := iat
					if nbf > nowS {
						nbf = nowS
					}
					pr.req.AddCookie(vfC03Cookie(t, state, "username", AuthTypePassword, iat, nbf, nowS+3600))
				case "cert":
					chain := vfC03ClientCert(t, state, "username", time.Unix(iat, 0))
					pr.req.TLS = &tls.ConnectionState{VerifiedChains: [][]*x509.Certificate{chain}, PeerCertificates: chain[:1]}
				default:
					bad = true
				}
				pr.iatNs = strconv.FormatInt(iat*1000000000, 10)
				reqs = append(reqs, pr)
			}
			if bad || len(reqs) < 2 {
				vio.emit("bad-op")
				continue
			}
			realSigner := state.Signer
			parking := &vfC03ParkingSigner{inner: realSigner, entered: make(chan struct{}), release: make(chan struct{})}
			state.Mutex.Lock()
			state.Signer = parking
			state.Mutex.Unlock()
			var wg sync.WaitGroup
			var answered int32
			serve := func(pr *parReq) {
				defer wg.Done()
				status, va, vb, tb, ta := vfC03Window(state, pr.req, f[1])
				pr.out = fmt.Sprintf("%s %s %s %d %d %s %s", status, pr.parsed, pr.iatNs, tb, ta, va, vb)
				atomic.AddInt32(&answered, 1)
			}
			wg.Add(1)
			go serve(reqs[0])
			parked := false
			firstWait := time.Now().Add(20 * time.Second)
			for time.Now().Before(firstWait) && atomic.LoadInt32(&answered) == 0 && !parked {
				select {
				case <-parking.entered:
					parked = true
				case <-time.After(2 * time.Millisecond):
				}
			}
			for _, pr := range reqs[1:] {
				wg.Add(1)
				go serve(pr)
			}
			// let the others get as far as they can: answer, or reach the signer themselves
			budget := time.Now().Add(400 * time.Millisecond)
			n := int32(len(reqs))
			ranOut := 0
			for atomic.LoadInt32(&parking.calls)+atomic.LoadInt32(&answered) < n {
				if !time.Now().Before(budget) {
					ranOut = int(n - atomic.LoadInt32(&parking.calls) - atomic.LoadInt32(&answered))
					break
				}
				time.Sleep(2 * time.Millisecond)
			}
			close(parking.release)
			wg.Wait()
			state.Mutex.Lock()
			state.Signer = realSigner
			state.Mutex.Unlock()
			outs := []string{fmt.Sprintf("%d %s %d", atomic.LoadInt32(&parking.calls), vfBool(parked), ranOut)}
			for _, pr := range reqs {
				outs = append(outs, pr.out)
			}
			vio.emit("%s", strings.Join(outs, " | "))
		case "cg":
			if len(f) != 6 {
				vio.emit("bad-op")
				continue
			}
			age, err := strconv.ParseInt(f[3], 10, 64)
			if err != nil {
				vio.emit("bad-op")
				continue
			}
			var durs []string
			parsed := "absent"
			if f[5] != "~" {
				s, ok := vfUnhex(f[5])
				if !ok {
					vio.emit("bad-op")
					continue
				}
				durs = []string{s}
				if d, err := time.ParseDuration(s); err != nil {
					parsed = "err"
				} else {
					parsed = strconv.FormatInt(int64(d), 10)
				}
			}
			user := "username"
			q := url.Values{}
			var fields [][2]string
			keyData := testUserSSHPublicKey
			switch f[1] {
			case "ssh":
			case "x509":
				q.Set("type", "x509")
				keyData = testUserPEMPublicKey
			case "k8s":
				q.Set("type", "x509-kubernetes")
				keyData = testUserPEMPublicKey
			default:
				vio.emit("bad-op")
				continue
			}
			for _, d := range durs {
				if f[4] == "q" {
					q.Set("duration", d)
				} else {
					fields = append(fields, [2]string{"duration", d})
				}
			}
			if f[2] == "ipcert" {
				user = "role1"
			}
			req := vfC03KeyRequest("/certgen/"+user, q, fields, keyData)
			nowS := time.Now().Unix()
			iatNs := "now"
			switch f[2] {
			case "cookie":
				iat := nowS - age
				nbf := iat
				if nbf > nowS {
					nbf = nowS
				}
				req.AddCookie(vfC03Cookie(t, state, user, AuthTypePassword, iat, nbf, nowS+3600))
				iatNs = strconv.FormatInt(iat*1000000000, 10)
			case "basic":
				req.SetBasicAuth("username", "password")
			case "cert":
				iat := nowS - age
				chain := vfC03ClientCert(t, state, user, time.Unix(iat, 0))
				req.TLS = &tls.ConnectionState{VerifiedChains: [][]*x509.Certificate{chain}, PeerCertificates: chain[:1]}
				iatNs = strconv.FormatInt(iat*1000000000, 10)
			case "ipcert":
				params := roleRequestingCertGenParams{Role: "role1", Duration: time.Hour,
					RequestorNetblocks: []net.IPNet{*block10}, UserPub: userPub}
				_, rrcert, err := state.withParamsGenerateRoleRequestingCert(&params)
				if err != nil {
					t.Fatal(err)
				}
				chain := []*x509.Certificate{rrcert, roleCA}
				req.RemoteAddr = "10.1.2.3:4321"
				req.TLS = &tls.ConnectionState{VerifiedChains: [][]*x509.Certificate{chain}, PeerCertificates: chain[:1]}
			default:
				vio.emit("bad-op")
				continue
			}
			tb := time.Now().UnixNano()
			rr, p := vfServe(state.certGenHandler, req)
			ta := time.Now().UnixNano()
			if p != nil {
				vio.emit("PANIC %s %s %d %d - -", parsed, iatNs, tb, ta)
				continue
			}
			va, vb := "-", "-"
			if rr.Code == 200 {
				if f[1] == "ssh" {
					pk, _, _, _, err := ssh.ParseAuthorizedKey(rr.Body.Bytes())
					if c, ok := pk.(*ssh.Certificate); err == nil && ok {
						va, vb = strconv.FormatUint(c.ValidAfter, 10), strconv.FormatUint(c.ValidBefore, 10)
					} else {
						va, vb = "undecodable", "undecodable"
					}
				} else {
					va, vb = vfC03X509Window(rr.Body.Bytes())
				}
			}
			vio.emit("%d %s %s %d %d %s %s", rr.Code, parsed, iatNs, tb, ta, va, vb)
		case "role":
			if len(f) != 2 && len(f) != 5 {
				vio.emit("bad-op")
				continue
			}
			form := url.Values{}
			form.Add("pubkey", b64public)
			presentedLifetime := time.Hour
			presentedCA := "role"
			presented := ""
			if len(f) == 5 {
				if f[2] != "-" {
					n, err := strconv.ParseInt(f[2], 10, 64)
					if err != nil {
						vio.emit("bad-op")
						continue
					}
					presentedLifetime = time.Duration(n)
				}
				if f[3] != "-" {
					presentedCA = f[3]
				}
				if f[4] != "~" {
					d, ok := vfUnhex(f[4])
					if !ok {
						vio.emit("bad-op")
						continue
					}
					form.Add("duration", d)
				}
				presented = " -"
			}
			var handler http.HandlerFunc
			path := getRoleRequestingPath
			chosen := "-"
			var tlsState *tls.ConnectionState
			var cookie *http.Cookie
			remote := "10.1.2.3:4321"
			switch f[1] {
			case "handler", "direct":
				form.Add("identity", "role1")
				form.Add("requestor_netblock", "10.0.0.0/8")
				form.Add("target_netblock", "192.168.0.174/32")
				handler = state.roleRequetingCertGenHandler
				cookie = vfAuthCookie(t, state, "admin1", AuthTypePassword)
			case "refresh":
				var issuerCert *x509.Certificate
				var issuerKey crypto.Signer
				switch presentedCA {
				case "role":
					issuerCert, issuerKey = roleCA, state.Signer
				case "ext":
					issuerCert, issuerKey = extCA, extCAKey
				default:
					vio.emit("bad-op")
					continue
				}
				// minted directly: keymasterd itself never hands out more than 45 days, another
				// CA in the TLS client pool (or an older keymaster) may have
				der, err := certgen.GenIPRestrictedX509Cert("role1", userPub, issuerCert, issuerKey,
					[]net.IPNet{*block10}, presentedLifetime, nil, nil)
				if err != nil {
					t.Fatal(err)
				}
				rrcert, err := x509.ParseCertificate(der)
				if err != nil {
					t.Fatal(err)
				}
				if presented != "" {
					presented = " " + strconv.FormatInt(int64(rrcert.NotAfter.Sub(rrcert.NotBefore)), 10)
				}
				chain := []*x509.Certificate{rrcert, issuerCert}
				tlsState = &tls.ConnectionState{VerifiedChains: [][]*x509.Certificate{chain}, PeerCertificates: chain[:1]}
				handler = state.refreshRoleRequestingCertGenHandler
				path = refreshRoleRequestingCertPath
			default:
				vio.emit("bad-op")
				continue
			}
			mk := func() *http.Request {
				req := httptest.NewRequest("POST", path, strings.NewReader(form.Encode()))
				req.Header.Set("Content-Type", "application/x-www-form-urlencoded")
				req.RemoteAddr = remote
				req.TLS = tlsState
				if cookie != nil {
					req.AddCookie(cookie)
				}
				return req
			}
			// what Duration does the parameter parser choose?
			var params *roleRequestingCertGenParams
			var uerr, ierr error
			if f[1] == "refresh" {
				params, uerr, ierr = state.parseRefreshRoleCertGenParams(&authInfo{Username: "role1"}, mk())
			} else {
				params, uerr, ierr = state.parseRoleCertGenParams(mk())
			}
			if uerr == nil && ierr == nil && params != nil {
				chosen = strconv.FormatInt(int64(params.Duration), 10)
			}
			if f[1] == "direct" {
				if params == nil {
					vio.emit("500 %s 0 0 - -%s", chosen, presented)
					continue
				}
				tb := time.Now().UnixNano()
				pemCert, _, err := state.withParamsGenerateRoleRequestingCert(params)
				ta := time.Now().UnixNano()
				if err != nil {
					vio.emit("500 %s %d %d - -%s", chosen, tb, ta, presented)
					continue
				}
				nb, na := vfC03X509Window([]byte(pemCert))
				vio.emit("200 %s %d %d %s %s%s", chosen, tb, ta, nb, na, presented)
				continue
			}
			tb := time.Now().UnixNano()
			rr, p := vfServe(handler, mk())
			ta := time.Now().UnixNano()
			if p != nil {
				vio.emit("PANIC %s %d %d - -%s", chosen, tb, ta, presented)
				continue
			}
			nb, na := "-", "-"
			if rr.Code == 200 {
				nb, na = vfC03X509Window(rr.Body.Bytes())
			}
			vio.emit("%d %s %d %d %s %s%s", rr.Code, chosen, tb, ta, nb, na, presented)
		case "aws":
			awsSeq++
			req := httptest.NewRequest("POST", "/aws/requestRoleCertificate/v1", strings.NewReader(testUserPEMPublicKey))
			req.Header.Set("claimed-arn", awsArn)
			req.Header.Set("presigned-method", "GET")
			req.Header.Set("presigned-url", fmt.Sprintf(
				"https://sts.us-west-2.amazonaws.com/?Action=GetCallerIdentity&Version=2011-06-15&n=%d", awsSeq))
			tb := time.Now().UnixNano()
			rr, p := vfServe(state.requestAwsRoleCertificateHandler, req)
			ta := time.Now().UnixNano()
			if p != nil {
				vio.emit("PANIC - %d %d - -", tb, ta)
				continue
			}
			nb, na := "-", "-"
			if rr.Code == 200 {
				nb, na = vfC03X509Window(rr.Body.Bytes())
			}
			vio.emit("%d - %d %d %s %s", rr.Code, tb, ta, nb, na)
		default:
			vio.emit("bad-op")
		}
	}
}
