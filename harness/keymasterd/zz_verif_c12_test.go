package main

// C12 harness: authorization codes (from the real authorization endpoint, or minted with the real
// signer and the real sealing functions exactly as that endpoint does, so that expiry / method /
// kind can be chosen) are presented to the real token endpoint under every combination of client,
// secret, verifier, challenge method, redirect URI, code state and credential placement. Released
// tokens are verified against the keys the JWKS handler publishes and fed to the real userinfo handler.

import (
	"crypto"
	"crypto/ecdsa"
	"crypto/ed25519"
	"crypto/elliptic"
	"crypto/rand"
	"crypto/rsa"
	"crypto/sha256"
	"crypto/x509"
	"encoding/hex"
	"encoding/json"
	"encoding/pem"
	"fmt"
	"net/http"
	"net/http/httptest"
	"net/url"
	"strings"
	"sync"
	"testing"
	"time"

	golog "github.com/Cloud-Foundations/golib/pkg/log"
	"github.com/go-jose/go-jose/v4"
	"github.com/go-jose/go-jose/v4/jwt"
)

const (
	vf12S1       = "confidentialOne"
	vf12S1Secret = "secret-one"
	vf12S2       = "confidentialTwo"
	vf12S2Secret = "secret-two"
	vf12P1       = "publicOne"
	vf12P2       = "publicTwo"
	vf12SA       = "confidentialAud"
	vf12SASecret = "secret-aud"
	vf12PA       = "publicAud"
	vf12Redirect = "https://app.localhost/cb"
	vf12Verifier = "verifier-0123456789-abcdefghijklmnopqrstuvwxyz-ABCDEFG"
	vf12Wrong    = "wrong-verifier-0123456789-abcdefghijklmnopqrstuvwxyz-AB"
	vf12Nonce    = "nonce-987654"
	vf12User     = "alice"
)

func vf12S256(v string) string {
	sum := sha256.Sum256([]byte(v))
	return vf4b64.EncodeToString(sum[:])
}

func vf12Secret(client string) string {
	switch client {
	case vf12S1:
		return vf12S1Secret
	case vf12S2:
		return vf12S2Secret
	case vf12SA:
		return vf12SASecret
	}
	return ""
}

// vf12MintBackdated: the next minted code is the one an authorization 300 s before its expiry produced
var vf12MintBackdated bool

// mintCode builds a code the way idpOpenIDCAuthorizationHandler does (same struct, same sealing
// functions, same signer), with chosen expiry / kind / sealed challenge.
func (e *vf4Env) vf12MintCode(client, method, challenge string, sealed bool, exp int64, kind string) (string, error) {
	st := e.state
	jwtId, err := genRandomString()
	if err != nil {
		return "", err
	}
	tokc := keymasterdCodeToken{Issuer: st.idpGetIssuer(), Subject: client, IssuedAt: time.Now().Unix()}
	tokc.JWTId = jwtId
	tokc.Scope = "openid"
	tokc.AuthExpiration = time.Now().Unix() + maxAgeSecondsAuthCookie
	tokc.Expiration = exp
	if vf12MintBackdated {
		// exactly what the authorization handler would have minted at exp - 300 s
		tokc.IssuedAt = exp - idpOpenIDCMaxAuthProcessMaxDurationSeconds
		tokc.AuthExpiration = tokc.IssuedAt + maxAgeSecondsAuthCookie
	}
	tokc.Username = vf12User
	tokc.RedirectURI = vf12Redirect
	tokc.Type = kind
	tokc.Nonce = vf12Nonce
	if sealed {
		pd := keymasterdIDPCodeProtectedData{CodeChallenge: challenge, CodeChallengeMethod: method}
		js, err := json.Marshal(pd)
		if err != nil {
			return "", err
		}
		key, err := genRandomBytes()
		if err != nil {
			return "", err
		}
		ks, err := st.encryptKeyAndSerialize(key)
		if err != nil {
			return "", err
		}
		tokc.ProtectedDataKey = string(ks)
		if tokc.ProtectedData, err = sealEncodeData(js, []byte(jwtId), key); err != nil {
			return "", err
		}
	}
	payload, err := json.Marshal(tokc)
	if err != nil {
		return "", err
	}
	return vf4JoseSign(st.Signer, jose.RS256, payload, false)
}

// authzCode obtains a code from the real authorization endpoint for the logged-in user.
func (e *vf4Env) vf12AuthzCode(client, method, challenge string) (string, error) {
	st := e.state
	cookie, err := st.genNewSerializedAuthJWT(vf12User, AuthTypePassword, maxAgeSecondsAuthCookie)
	if err != nil {
		return "", err
	}
	form := url.Values{}
	form.Set("scope", "openid")
	form.Set("response_type", "code")
	form.Set("client_id", client)
	form.Set("redirect_uri", vf12Redirect)
	form.Set("nonce", vf12Nonce)
	form.Set("state", "xyz")
	if challenge != "" {
		form.Set("code_challenge", challenge)
		if method != "" {
			form.Set("code_challenge_method", method)
		}
	}
	req := httptest.NewRequest("GET", idpOpenIDCAuthorizationPath+"?"+form.Encode(), nil)
	req.AddCookie(&http.Cookie{Name: authCookieName, Value: cookie})
	rr, p := vfServe(st.idpOpenIDCAuthorizationHandler, req)
	if p != nil {
		return "", fmt.Errorf("authorization handler panicked: %v", p)
	}
	if rr.Code != 302 {
		return "", fmt.Errorf("authz status %d", rr.Code)
	}
	loc, err := url.Parse(rr.Header().Get("Location"))
	if err != nil {
		return "", err
	}
	return loc.Query().Get("code"), nil
}

func (e *vf4Env) vf12JWKSVerifies(toks ...string) bool {
	rr, p := vfServe(e.state.idpOpenIDCJWKSHandler, httptest.NewRequest("GET", idpOpenIDCJWKSPath, nil))
	if p != nil || rr.Code != 200 {
		return false
	}
	var set jose.JSONWebKeySet
	if err := json.Unmarshal(rr.Body.Bytes(), &set); err != nil {
		return false
	}
	for _, tk := range toks {
		parsed, err := jwt.ParseSigned(tk, []jose.SignatureAlgorithm{jose.RS256, jose.ES256, jose.ES384, jose.ES512, jose.EdDSA})
		if err != nil || len(parsed.Headers) != 1 {
			return false
		}
		ok := false
		for _, k := range set.Key(parsed.Headers[0].KeyID) {
			var out map[string]interface{}
			if parsed.Claims(k.Key, &out) == nil {
				ok = true
			}
		}
		if !ok {
			return false
		}
	}
	return true
}

func (e *vf4Env) vf12Userinfo(tok string) string {
	r := httptest.NewRequest("GET", idpOpenIDCUserinfoPath, nil)
	r.Header.Set("Authorization", "Bearer "+tok)
	rr, p := vfServe(e.state.idpOpenIDCUserinfoHandler, r)
	if p != nil {
		return "PANIC"
	}
	if rr.Code != 200 {
		return fmt.Sprintf("status%d", rr.Code)
	}
	var ui openidConnectUserInfo
	if err := json.Unmarshal(rr.Body.Bytes(), &ui); err != nil {
		return "badjson"
	}
	return "ok:" + vfHex(ui.Subject)
}

// vf12Redeem presents a code to the real token endpoint and, on release, verifies the tokens against
// the JWKS handler's keys and feeds them to the real userinfo handler.
func (e *vf4Env) vf12Redeem(code string, payload []byte, by, prot, client, secret, verifier, redirect, place string) (string, error) {
	return e.vf12RedeemHook(code, payload, by, prot, client, secret, verifier, redirect, place, nil)
}

// vf12RedeemHook: `after` (if any) runs as soon as the token handler has returned, before the
// released tokens are looked at.
func (e *vf4Env) vf12RedeemHook(code string, payload []byte, by, prot, client, secret, verifier, redirect, place string, after func()) (string, error) {
	st := e.state
	form := url.Values{}
	form.Set("grant_type", "authorization_code")
	form.Set("redirect_uri", redirect)
	form.Set("code", code)
	if verifier != "" {
		form.Set("code_verifier", verifier)
	}
	basic, formID, formSecret := "-", "", ""
	if place == "form" {
		formID, formSecret = client, secret
		if client != "" {
			form.Set("client_id", client)
		}
		if secret != "" {
			form.Set("client_secret", secret)
		}
	}
	r := httptest.NewRequest("POST", idpOpenIDCTokenPath, strings.NewReader(form.Encode()))
	r.Header.Set("Content-Type", "application/x-www-form-urlencoded")
	if place == "header" {
		r.SetBasicAuth(client, secret)
		basic = vfHex(client) + ":" + vfHex(secret)
	}
	now := time.Now().Unix()
	rr, p := vfServe(st.idpOpenIDCTokenHandler, r)
	if after != nil {
		after()
	}
	if p != nil {
		return "", fmt.Errorf("token handler panicked: %v", p)
	}
	body := rr.Body.String()
	class := "other"
	switch {
	case rr.Code == 200:
		class = "released"
	case rr.Code == 400 && strings.Contains(body, "bad code"):
		class = "badCode"
	case rr.Code == 400 && strings.Contains(body, "ClientID uknown"):
		class = "unknownClient"
	case rr.Code == 400 && strings.Contains(body, "Invalid grant type"):
		class = "grant"
	case rr.Code == 400 && strings.Contains(body, "Invalid redirect uri"):
		class = "noRedirect"
	case rr.Code == 401 && strings.Contains(body, "Missing client_id"):
		class = "noClientID"
	case rr.Code == 401 && strings.Contains(body, "Client Cannot use PKCE"):
		class = "pkceNotAllowed"
	case rr.Code == 401:
		class = "denied"
	}
	out := fmt.Sprintf("%d %s | now=%d by=%s prot=%s verifier=%s s256=%s basic=%s formid=%s formsecret=%s redirect=%s wire=%s",
		rr.Code, class, now, by, prot, vfHex(verifier), vfHex(vf12S256(verifier)), basic, vfHex(formID), vfHex(formSecret),
		vfHex(redirect), hex.EncodeToString(payload))
	if rr.Code == 200 {
		var resp tokenResponse
		if err := json.Unmarshal(rr.Body.Bytes(), &resp); err != nil {
			return "", err
		}
		idp, _ := vf4Payload(resp.IDToken)
		acp, _ := vf4Payload(resp.AccessToken)
		out += fmt.Sprintf(" idt=%s acc=%s jwks=%s ui=%s uiid=%s uicode=%s ttype=%s expin=%d", hex.EncodeToString(idp), hex.EncodeToString(acp),
			vfBool(e.vf12JWKSVerifies(resp.IDToken, resp.AccessToken)), e.vf12Userinfo(resp.AccessToken),
			e.vf12Userinfo(resp.IDToken), e.vf12Userinfo(code), vfHex(resp.TokenType), resp.ExpiresIn)
	} else if vf4CountJWS(body) > 0 {
		out += " LEAK"
	}
	return out, nil
}

var vf12AzMessages = []struct{ msg, class string }{
	{"Unsupported or Missing response_type", "responseType"}, {"Empty cleint_id", "noClient"},
	{"Invalid scope value", "scope"}, {"ClientID uknown", "unknownClient"}, {"redirect string not valid", "redirect"},
	{"challenge method is invalid", "challengeMethod"}, {"Invalid audience", "audience"}, {"bad Nonce value", "nonce"},
	{"Invalid URL", "badURL"},
}

// vf12Az drives one complete flow through the REAL authorization endpoint with the optional
// parameters of the op, then redeems the code with the client's own credentials.
//
//	az <client> <audienceHex> <scopeHex> <nonceHex> <stateHex> <challengeMode> <httpMethod> <redirectHex>
//
// hex "-" = parameter absent. output: `az <status> <class> tauth= state= | <output of the redeem step>`
func (e *vf4Env) vf12Az(f []string) (string, error) {
	st := e.state
	client := f[1]
	get := func(h string) (string, bool) {
		if h == "-" {
			return "", false
		}
		v, ok := vfUnhex(h)
		return v, ok
	}
	form := url.Values{}
	form.Set("response_type", "code")
	form.Set("client_id", client)
	if v, ok := get(f[8]); ok {
		form.Set("redirect_uri", v)
	}
	if v, ok := get(f[2]); ok {
		form.Set("audience", v)
	}
	if v, ok := get(f[3]); ok {
		form.Set("scope", v)
	}
	if v, ok := get(f[4]); ok {
		form.Set("nonce", v)
	}
	if v, ok := get(f[5]); ok {
		form.Set("state", v)
	}
	verifier, prot := "", "-"
	switch f[6] {
	case "S256":
		form.Set("code_challenge", vf12S256(vf12Verifier))
		form.Set("code_challenge_method", "S256")
		verifier, prot = vf12Verifier, vfHex("S256")+":"+vfHex(vf12S256(vf12Verifier))
	case "implicit": // challenge without method: treated as plain
		form.Set("code_challenge", vf12Verifier)
		verifier, prot = vf12Verifier, vfHex("")+":"+vfHex(vf12Verifier)
	case "plain":
		form.Set("code_challenge", vf12Verifier)
		form.Set("code_challenge_method", "plain")
	case "S512":
		form.Set("code_challenge", vf12Verifier)
		form.Set("code_challenge_method", "S512")
	case "methodonly": // a method without challenge is ignored
		form.Set("code_challenge_method", "S256")
	}
	cookie, err := st.genNewSerializedAuthJWT(vf12User, AuthTypePassword, maxAgeSecondsAuthCookie)
	if err != nil {
		return "", err
	}
	var req *http.Request
	if f[7] == "POST" {
		req = httptest.NewRequest("POST", idpOpenIDCAuthorizationPath, strings.NewReader(form.Encode()))
		req.Header.Set("Content-Type", "application/x-www-form-urlencoded")
	} else {
		req = httptest.NewRequest("GET", idpOpenIDCAuthorizationPath+"?"+form.Encode(), nil)
	}
	req.AddCookie(&http.Cookie{Name: authCookieName, Value: cookie})
	tauth := time.Now().Unix()
	rr, p := vfServe(st.idpOpenIDCAuthorizationHandler, req)
	tauth2 := time.Now().Unix()
	if p != nil {
		return "", fmt.Errorf("authorization handler panicked: %v", p)
	}
	if rr.Code != 302 {
		class := fmt.Sprintf("status%d", rr.Code)
		for _, m := range vf12AzMessages {
			if strings.Contains(rr.Body.String(), m.msg) {
				class = m.class
				break
			}
		}
		leak := ""
		if vf4CountJWS(rr.Body.String(), rr.Header().Get("Location")) > 0 {
			leak = " LEAK"
		}
		return fmt.Sprintf("az %d %s tauth=%d%s", rr.Code, class, tauth, leak), nil
	}
	loc, err := url.Parse(rr.Header().Get("Location"))
	if err != nil {
		return "", err
	}
	code := loc.Query().Get("code")
	payload, ok := vf4Payload(code)
	if !ok {
		return "", fmt.Errorf("no code in %q", rr.Header().Get("Location"))
	}
	redirect, _ := get(f[8])
	locBase := loc.Scheme + "://" + loc.Host + loc.Path
	// redeem with the client's own credentials (secret in the header, or the verifier)
	secret := vf12Secret(client)
	place := "header"
	if secret == "" {
		place = "form"
	}
	out, err := e.vf12Redeem(code, payload, "1", prot, client, secret, verifier, redirect, place)
	if err != nil {
		return "", err
	}
	return fmt.Sprintf("az 302 code tauth=%d tauth2=%d state=%s locbase=%s || %s", tauth, tauth2, vfHex(loc.Query().Get("state")), vfHex(locBase), out), nil
}

// ---------------------------------------------------------------- signer kinds and the published JWKS

func vf12KeyKind(pub crypto.PublicKey) string {
	switch k := pub.(type) {
	case *rsa.PublicKey:
		return "rsa"
	case *ecdsa.PublicKey:
		switch k.Curve {
		case elliptic.P256():
			return "p256"
		case elliptic.P384():
			return "p384"
		case elliptic.P521():
			return "p521"
		}
		return "unsupported"
	case ed25519.PublicKey:
		return "ed25519"
	}
	return "unsupported"
}

func vf12SignerPEM(kind, form string) ([]byte, error) {
	var key interface{}
	var err error
	switch kind {
	case "rsa":
		return []byte(testSignerPrivateKey), nil
	case "rsa3072":
		key, err = rsa.GenerateKey(rand.Reader, 3072)
	case "p256":
		key, err = ecdsa.GenerateKey(elliptic.P256(), rand.Reader)
	case "p384":
		key, err = ecdsa.GenerateKey(elliptic.P384(), rand.Reader)
	case "p521":
		key, err = ecdsa.GenerateKey(elliptic.P521(), rand.Reader)
	default:
		return nil, fmt.Errorf("unknown signer kind %q", kind)
	}
	if err != nil {
		return nil, err
	}
	if ec, ok := key.(*ecdsa.PrivateKey); ok && form == "sec1" {
		der, err := x509.MarshalECPrivateKey(ec)
		if err != nil {
			return nil, err
		}
		return pem.EncodeToMemory(&pem.Block{Type: "EC PRIVATE KEY", Bytes: der}), nil
	}
	der, err := x509.MarshalPKCS8PrivateKey(key)
	if err != nil {
		return nil, err
	}
	return pem.EncodeToMemory(&pem.Block{Type: "PRIVATE KEY", Bytes: der}), nil
}

// vf12Jw: a deployment whose signer is of the given kind — loaded through the real
// loadSignersFromPemData, published through the real signerPublicKeyToKeymasterKeys — runs one
// complete confidential-client flow; the released tokens are verified the way a relying party
// does it: fetch the JWKS from the real handler, take the key(s) named by the token's kid (all
// keys when none carries it), verify.
//
//	jw <signer kind> <with Ed25519 ssh-CA signer 0|1> <with a trusted peer keymaster key 0|1> <sec1|pkcs8>
//
// output: `jw <class> signer= alg= kid=<n> trusted=<id:type,…> published=<id:type,…> idv= accv= || <redeem output>`
func vf12Jw(t *testing.T, f []string) (string, error) {
	state, cleanup := vfNewState(t)
	defer cleanup()
	state.HostIdentity = "keymaster.example.com"
	state.Config.Base.HttpAddress = ":443"
	state.Config.Base.AllowedAuthBackendsForWebUI = []string{"password"}
	state.Config.OpenIDConnectIDP.Client = []OpenIDConnectClientConfig{
		{ClientID: vf12S1, ClientSecret: vf12S1Secret, AllowedRedirectDomains: []string{"localhost"}},
	}
	signerPEM, err := vf12SignerPEM(f[1], f[4])
	if err != nil {
		return "", err
	}
	var edPEM []byte
	if f[2] == "1" {
		_, edk, err := ed25519.GenerateKey(rand.Reader)
		if err != nil {
			return "", err
		}
		der, err := x509.MarshalPKCS8PrivateKey(edk)
		if err != nil {
			return "", err
		}
		edPEM = pem.EncodeToMemory(&pem.Block{Type: "PRIVATE KEY", Bytes: der})
	}
	// the daemon's own start-up path
	state.Signer, state.Ed25519Signer, state.KeymasterPublicKeys = nil, nil, nil
	if err := state.loadSignersFromPemData(signerPEM, edPEM); err != nil {
		return "jw refused-signer " + vfHex(err.Error()), nil
	}
	if f[3] == "1" { // another keymaster of the same deployment (configured public key)
		peer, err := ecdsa.GenerateKey(elliptic.P256(), rand.Reader)
		if err != nil {
			return "", err
		}
		state.KeymasterPublicKeys = append(state.KeymasterPublicKeys, peer.Public())
	}
	if err := state.signerPublicKeyToKeymasterKeys(); err != nil {
		return "", err
	}
	e := &vf4Env{t: t, state: state}
	ids := map[string]int{}
	describe := func(keys []crypto.PublicKey) string {
		var out []string
		for _, k := range keys {
			fp, err := getKeyFingerprint(k)
			if err != nil {
				fp = fmt.Sprintf("nofp%d", len(ids))
			}
			if _, ok := ids[fp]; !ok {
				ids[fp] = len(ids) + 1
			}
			out = append(out, fmt.Sprintf("%d:%s", ids[fp], vf12KeyKind(k)))
		}
		if len(out) == 0 {
			return "-"
		}
		return strings.Join(out, ",")
	}
	trusted := describe(state.KeymasterPublicKeys)
	signerFP, _ := getKeyFingerprint(state.Signer.Public())
	code, err := e.vf12AuthzCode(vf12S1, "", "")
	if err != nil {
		return "jw no-code " + vfHex(err.Error()) + " signer=" + vf12KeyKind(state.Signer.Public()) + " trusted=" + trusted, nil
	}
	payload, _ := vf4Payload(code)
	out, err := e.vf12Redeem(code, payload, fmt.Sprint(ids[signerFP]), "-", vf12S1, vf12S1Secret, "", vf12Redirect, "header")
	if err != nil {
		return "", err
	}
	// the JWKS as published
	rr, p := vfServe(state.idpOpenIDCJWKSHandler, httptest.NewRequest("GET", idpOpenIDCJWKSPath, nil))
	if p != nil || rr.Code != 200 {
		return fmt.Sprintf("jw jwks-status%d signer=%s trusted=%s || %s", rr.Code, vf12KeyKind(state.Signer.Public()), trusted, out), nil
	}
	var set jose.JSONWebKeySet
	if err := json.Unmarshal(rr.Body.Bytes(), &set); err != nil {
		return fmt.Sprintf("jw jwks-unparsable signer=%s trusted=%s || %s", vf12KeyKind(state.Signer.Public()), trusted, out), nil
	}
	var pubs []crypto.PublicKey
	for _, k := range set.Keys {
		pubs = append(pubs, k.Key)
	}
	published := describe(pubs)
	kv := map[string]string{}
	for _, x := range strings.Fields(out) {
		if i := strings.Index(x, "="); i > 0 {
			kv[x[:i]] = x[i+1:]
		}
	}
	rpVerify := func(tok string) (string, string, int) {
		parsed, err := jwt.ParseSigned(tok, []jose.SignatureAlgorithm{jose.RS256, jose.RS384, jose.RS512, jose.PS256,
			jose.ES256, jose.ES384, jose.ES512, jose.EdDSA})
		if err != nil || len(parsed.Headers) != 1 {
			return "0", "unparsable", 0
		}
		cands := set.Key(parsed.Headers[0].KeyID)
		if len(cands) == 0 {
			cands = set.Keys
		}
		for _, k := range cands {
			var o map[string]interface{}
			if parsed.Claims(k.Key, &o) == nil {
				return "1", parsed.Headers[0].Algorithm, ids[parsed.Headers[0].KeyID]
			}
		}
		return "0", parsed.Headers[0].Algorithm, ids[parsed.Headers[0].KeyID]
	}
	class := "not-released"
	extra := ""
	if strings.HasPrefix(out, "200 ") {
		class = "released"
		// the raw tokens are not in `out`; redeem again is unnecessary: vf12Redeem verified them against the same
		// handler (jwks=); here the relying-party view with kid fallback is recomputed from a second redemption
		code2, err := e.vf12AuthzCode(vf12S1, "", "")
		if err != nil {
			return "", err
		}
		idt, acc, err := e.vf12RawTokens(code2)
		if err != nil {
			return "", err
		}
		idv, alg, kid := rpVerify(idt)
		accv, _, _ := rpVerify(acc)
		extra = fmt.Sprintf(" alg=%s kid=%d idv=%s accv=%s", alg, kid, idv, accv)
	}
	return fmt.Sprintf("jw %s signer=%d:%s trusted=%s published=%s%s || %s", class, ids[signerFP], vf12KeyKind(state.Signer.Public()),
		trusted, published, extra, out), nil
}

// vf12RawTokens redeems a code of the confidential client and returns the compact ID and access tokens.
func (e *vf4Env) vf12RawTokens(code string) (string, string, error) {
	form := url.Values{}
	form.Set("grant_type", "authorization_code")
	form.Set("redirect_uri", vf12Redirect)
	form.Set("code", code)
	r := httptest.NewRequest("POST", idpOpenIDCTokenPath, strings.NewReader(form.Encode()))
	r.Header.Set("Content-Type", "application/x-www-form-urlencoded")
	r.SetBasicAuth(vf12S1, vf12S1Secret)
	rr, p := vfServe(e.state.idpOpenIDCTokenHandler, r)
	if p != nil || rr.Code != 200 {
		return "", "", fmt.Errorf("token endpoint: status %d panic %v", rr.Code, p)
	}
	var resp tokenResponse
	if err := json.Unmarshal(rr.Body.Bytes(), &resp); err != nil {
		return "", "", err
	}
	return resp.IDToken, resp.AccessToken, nil
}

// ---------------------------------------------------------------- loader-built deployment, delayed and repeated redemption

var vf12LoaderEnvMemo *vf4Env

// vf12LoaderEnv: the six clients WRITTEN into a configuration file, the state built by the real loader.
func vf12LoaderEnv(t *testing.T, hand *vf4Env) (*vf4Env, error) {
	if vf12LoaderEnvMemo != nil {
		vf12LoaderEnvMemo.t = t
		return vf12LoaderEnvMemo, nil
	}
	loader, err := vfConfigLoader(t)
	if err != nil {
		return nil, err
	}
	cl := func(id, secret string, aud bool) map[interface{}]interface{} {
		m := map[interface{}]interface{}{"client_id": id, "allowed_redirect_domains": []interface{}{"localhost"}}
		if secret != "" {
			m["client_secret"] = secret
		}
		if aud {
			m["allow_client_chose_audiences"] = true
		}
		return m
	}
	state, err := loader.load(map[string]interface{}{
		"base.host_identity":                   "keymaster.example.com",
		"base.http_address":                    ":443",
		"base.allowed_auth_backends_for_webui": []interface{}{"password"},
		"openid_connect_idp.clients": []interface{}{
			cl(vf12S1, vf12S1Secret, false), cl(vf12S2, vf12S2Secret, false), cl(vf12P1, "", false), cl(vf12P2, "", false),
			cl(vf12SA, vf12SASecret, true), cl(vf12PA, "", true)},
	}, true)
	if err != nil {
		return nil, err
	}
	vf12LoaderEnvMemo = &vf4Env{t: t, state: state, frsa: hand.frsa, fixedKeys: true}
	return vf12LoaderEnvMemo, nil
}

type vf12Pending struct {
	env                  *vf4Env
	where, client, aud   string
	code, prot, verifier string
	payload              []byte
	tauth1, tauth2       int64
}

// vf12Slow: authorization and redemption are different moments. Eight flows (four clients, on the hand-built
// and on the loader-built deployment) are authorized through the real endpoint, then — after <delay ms> —
// each code is redeemed, and redeemed a second time.
//
//	slow <delay ms>
//
// output: `slow | <where> <client> aud=<hex|-> tauth1= tauth2= || <redeem 1> || <redeem 2> ;; …`
func vf12Slow(f []string, hand, loaded *vf4Env) string {
	var delay int64
	fmt.Sscan(f[1], &delay)
	var pend []vf12Pending
	for _, w := range []struct {
		name string
		env  *vf4Env
	}{{"hand", hand}, {"loader", loaded}} {
		for _, c := range []struct {
			client, aud string
			pkce        bool
		}{{vf12S1, "", false}, {vf12SA, "https://api.localhost", false}, {vf12P1, "", true}, {vf12PA, "https://api.localhost", true}} {
			st := w.env.state
			form := url.Values{}
			form.Set("response_type", "code")
			form.Set("client_id", c.client)
			form.Set("redirect_uri", vf12Redirect)
			form.Set("scope", "openid")
			form.Set("nonce", vf12Nonce)
			if c.aud != "" {
				form.Set("audience", c.aud)
			}
			p := vf12Pending{env: w.env, where: w.name, client: c.client, aud: c.aud, prot: "-"}
			if c.pkce {
				form.Set("code_challenge", vf12S256(vf12Verifier))
				form.Set("code_challenge_method", "S256")
				p.verifier, p.prot = vf12Verifier, vfHex("S256")+":"+vfHex(vf12S256(vf12Verifier))
			}
			cookie, err := st.genNewSerializedAuthJWT(vf12User, AuthTypePassword, maxAgeSecondsAuthCookie)
			if err != nil {
				return "harness-error " + err.Error()
			}
			req := httptest.NewRequest("GET", idpOpenIDCAuthorizationPath+"?"+form.Encode(), nil)
			req.AddCookie(&http.Cookie{Name: authCookieName, Value: cookie})
			p.tauth1 = time.Now().Unix()
			rr, pn := vfServe(st.idpOpenIDCAuthorizationHandler, req)
			p.tauth2 = time.Now().Unix()
			if pn != nil || rr.Code != 302 {
				return fmt.Sprintf("harness-error authorization of %s on %s: status %d panic %v", c.client, w.name, rr.Code, pn)
			}
			loc, err := url.Parse(rr.Header().Get("Location"))
			if err != nil {
				return "harness-error " + err.Error()
			}
			p.code = loc.Query().Get("code")
			p.payload, _ = vf4Payload(p.code)
			pend = append(pend, p)
		}
	}
	time.Sleep(time.Duration(delay) * time.Millisecond)
	var outs []string
	for _, p := range pend {
		secret, place := vf12Secret(p.client), "header"
		if secret == "" {
			place = "form"
		}
		var parts []string
		for i := 0; i < 2; i++ {
			out, err := p.env.vf12Redeem(p.code, p.payload, "1", p.prot, p.client, secret, p.verifier, vf12Redirect, place)
			if err != nil {
				return "harness-error " + strings.Join(strings.Fields(err.Error()), "_")
			}
			parts = append(parts, out)
			if i == 0 {
				time.Sleep(1100 * time.Millisecond / time.Duration(len(pend))) // the second redemption is later still
			}
		}
		aud := "-"
		if p.aud != "" {
			aud = vfHex(p.aud)
		}
		outs = append(outs, fmt.Sprintf("%s %s aud=%s tauth1=%d tauth2=%d || %s", p.where, p.client, aud, p.tauth1, p.tauth2, strings.Join(parts, " || ")))
	}
	return "slow | " + strings.Join(outs, " ;; ")
}

// ---------------------------------------------------------------- round 5: access tokens around their expiry; overlapping token requests

// vf12Uix presents to the real userinfo handler an access token as the token endpoint mints it (same struct,
// same signer), for a session whose 16 h end <expOffset> seconds away from now.
//
//	uix <type: bearer|token_endpoint|none> <expOffset> <issuer: right|wrong> <signer: real|foreign> <aud: none|userinfo|other>
//
// output: `uix <ok:userhex|statusNNN> | now= by= wire=`
func (e *vf4Env) vf12Uix(f []string) (string, error) {
	st := e.state
	var off int64
	if _, err := fmt.Sscanf(f[2], "%d", &off); err != nil {
		return "bad-op", nil
	}
	now := time.Now().Unix()
	tok := bearerAccessToken{Issuer: st.idpGetIssuer(), Username: vf12User, Scope: "openid", Expiration: now + off,
		IssuedAt: now + off - maxAgeSecondsAuthCookie + 1, Type: f[1]}
	if f[1] == "none" {
		tok.Type = ""
	}
	if f[3] == "wrong" {
		tok.Issuer = "https://evil.example.com"
	}
	switch f[5] {
	case "userinfo":
		tok.Audience = []string{"https://api.localhost", st.idpGetIssuer() + idpOpenIDCUserinfoPath}
	case "other":
		tok.Audience = []string{"https://api.localhost"}
	}
	payload, err := json.Marshal(tok)
	if err != nil {
		return "", err
	}
	var key interface{} = st.Signer
	by := "1"
	if f[4] == "foreign" {
		key, by = e.frsa, "11"
	}
	compact, err := vf4JoseSign(key, jose.RS256, payload, false)
	if err != nil {
		return "", err
	}
	now = time.Now().Unix()
	return fmt.Sprintf("uix %s | now=%d by=%s wire=%s", e.vf12Userinfo(compact), now, by, hex.EncodeToString(payload)), nil
}

// vf12Park: the n-th log statement (of the package logger or of the state's logger) executed after arming
// blocks until released — the way to hold one request at a chosen statement inside a handler.
type vf12Park struct {
	mu        sync.Mutex
	countdown int // < 0: not armed
	at        string
	entered   chan struct{}
	release   chan struct{}
}

func (p *vf12Park) arm(n int) {
	p.mu.Lock()
	p.countdown, p.at = n, ""
	p.entered, p.release = make(chan struct{}), make(chan struct{})
	p.mu.Unlock()
}

func (p *vf12Park) disarm() {
	p.mu.Lock()
	p.countdown = -1
	p.mu.Unlock()
}

func (p *vf12Park) hit(what string) {
	p.mu.Lock()
	if p.countdown < 0 {
		p.mu.Unlock()
		return
	}
	if p.countdown > 0 {
		p.countdown--
		p.mu.Unlock()
		return
	}
	p.countdown = -1
	p.at = what
	entered, release := p.entered, p.release
	p.mu.Unlock()
	close(entered)
	<-release
}

type vf12ParkLogger struct {
	golog.DebugLogger
	p *vf12Park
}

func (l vf12ParkLogger) Debug(level uint8, v ...interface{}) {
	l.p.hit("Debug")
	l.DebugLogger.Debug(level, v...)
}
func (l vf12ParkLogger) Debugf(level uint8, format string, v ...interface{}) {
	l.p.hit(format)
	l.DebugLogger.Debugf(level, format, v...)
}
func (l vf12ParkLogger) Debugln(level uint8, v ...interface{}) {
	l.p.hit("Debugln")
	l.DebugLogger.Debugln(level, v...)
}
func (l vf12ParkLogger) Print(v ...interface{}) {
	l.p.hit("Print")
	l.DebugLogger.Print(v...)
}
func (l vf12ParkLogger) Printf(format string, v ...interface{}) {
	l.p.hit(format)
	l.DebugLogger.Printf(format, v...)
}
func (l vf12ParkLogger) Println(v ...interface{}) {
	l.p.hit("Println")
	l.DebugLogger.Println(v...)
}

type vf12Presenter struct{ client, secret, verifier, place string }

// vf12Race: two token requests for the SAME code overlap. The first is held at its k-th log statement, for
// k = 0, 1, 2, … until it runs through without reaching a k-th one; while it is held the second request is
// sent and given <wait ms> to finish on its own; then the first is released. Every request is reported
// exactly like a `tok` op (and judged exactly like one: each on its own).
//
//	race <codeClient> <method> <via> <present1> <secret1> <verifier1> <place1> <present2> <secret2> <verifier2> <place2> <wait ms>
//
// output: `race | k=<k> parked=<0|1> at=<hex of the log format> waited=<0|1> || <redeem 1> || <redeem 2> ;; …`
func (e *vf4Env) vf12Race(f []string) string {
	st := e.state
	codeClient, method, via := f[1], f[2], f[3]
	var waitMs int64
	fmt.Sscan(f[12], &waitMs)
	sealed := method != "nochallenge"
	sealMethod := method
	if method == "none" {
		sealMethod = ""
	}
	challenge := vf12Verifier
	if method == "S256" {
		challenge = vf12S256(vf12Verifier)
	}
	prot := "-"
	if sealed {
		prot = vfHex(sealMethod) + ":" + vfHex(challenge)
	}
	var code string
	var err error
	if via == "authz" {
		ch := challenge
		if !sealed {
			ch = ""
		}
		code, err = e.vf12AuthzCode(codeClient, sealMethod, ch)
	} else {
		code, err = e.vf12MintCode(codeClient, sealMethod, challenge, sealed, time.Now().Unix()+idpOpenIDCMaxAuthProcessMaxDurationSeconds, "token_endpoint")
	}
	if err != nil {
		return "harness-error " + strings.Join(strings.Fields(err.Error()), "_")
	}
	payload, _ := vf4Payload(code)
	presenter := func(g []string) vf12Presenter {
		p := vf12Presenter{client: codeClient, place: g[3]}
		switch g[0] {
		case "other":
			p.client = map[string]string{vf12S1: vf12S2, vf12P1: vf12P2}[codeClient]
		case "otherType":
			p.client = map[string]string{vf12S1: vf12P1, vf12P1: vf12S1}[codeClient]
		}
		switch g[1] {
		case "right":
			p.secret = vf12Secret(p.client)
		case "wrong":
			p.secret = "not-the-secret"
		case "codeClients":
			p.secret = vf12Secret(codeClient)
		}
		switch g[2] {
		case "right":
			p.verifier = vf12Verifier
		case "wrong":
			p.verifier = vf12Wrong
		case "challenge":
			p.verifier = challenge
		}
		return p
	}
	p1, p2 := presenter(f[4:8]), presenter(f[8:12])
	park := &vf12Park{countdown: -1}
	oldGlobal, oldState := logger, st.logger
	logger, st.logger = vf12ParkLogger{oldGlobal, park}, vf12ParkLogger{oldState, park}
	defer func() { logger, st.logger = oldGlobal, oldState }()
	type res struct {
		out string
		err error
	}
	redeem := func(p vf12Presenter, after func()) res {
		out, err := e.vf12RedeemHook(code, payload, "1", prot, p.client, p.secret, p.verifier, vf12Redirect, p.place, after)
		return res{out, err}
	}
	var outs []string
	for k := 0; k < 40; k++ {
		park.arm(k)
		d1, d2 := make(chan res, 1), make(chan res, 1)
		go func() { d1 <- redeem(p1, park.disarm) }()
		var r1, r2 res
		parked, waited := false, false
		select {
		case <-park.entered:
			parked = true
		case r1 = <-d1:
		}
		if !parked {
			r2 = redeem(p2, nil)
		} else {
			go func() { d2 <- redeem(p2, nil) }()
			got2 := false
			select {
			case r2 = <-d2:
				got2 = true
			case <-time.After(time.Duration(waitMs) * time.Millisecond):
				waited = true // it waits for something the held request holds
			}
			close(park.release)
			r1 = <-d1
			if !got2 {
				r2 = <-d2
			}
		}
		if r1.err != nil || r2.err != nil {
			return "harness-error " + strings.Join(strings.Fields(fmt.Sprint(r1.err, r2.err)), "_")
		}
		park.mu.Lock()
		at := park.at
		park.mu.Unlock()
		outs = append(outs, fmt.Sprintf("k=%d parked=%s at=%s waited=%s || %s || %s", k, vfBool(parked), vfHex(at), vfBool(waited), r1.out, r2.out))
		if !parked {
			break
		}
	}
	return "race | " + strings.Join(outs, " ;; ")
}

// TestVerifC12
//
//	tok <codeClient> <present> <secret> <verifier> <method> <redirect> <codeState> <place> <via>
//
// output: `<status> <class> | now= by= prot= verifier= s256= basic= formid= formsecret= redirect= wire= [idt= acc= jwks= ui= uiid= uicode=]`
func TestVerifC12(t *testing.T) {
	io := vfOpen(t)
	defer io.close()
	e, cleanup := vf4Setup(t)
	defer cleanup()
	st := e.state
	st.Config.OpenIDConnectIDP.Client = []OpenIDConnectClientConfig{
		{ClientID: vf12S1, ClientSecret: vf12S1Secret, AllowedRedirectDomains: []string{"localhost"}},
		{ClientID: vf12S2, ClientSecret: vf12S2Secret, AllowedRedirectDomains: []string{"localhost"}},
		{ClientID: vf12P1, ClientSecret: "", AllowedRedirectDomains: []string{"localhost"}},
		{ClientID: vf12P2, ClientSecret: "", AllowedRedirectDomains: []string{"localhost"}},
		{ClientID: vf12SA, ClientSecret: vf12SASecret, AllowedRedirectDomains: []string{"localhost"}, AllowClientChosenAudiences: true},
		{ClientID: vf12PA, ClientSecret: "", AllowedRedirectDomains: []string{"localhost"}, AllowClientChosenAudiences: true},
	}
	e.setDeployment("single")
	for _, line := range io.ops {
		f := strings.Fields(line)
		if len(f) == 5 && f[0] == "jw" {
			out, err := vf12Jw(t, f)
			if err != nil {
				io.emit("harness-error %v", err)
			} else {
				io.emit("%s", out)
			}
			continue
		}
		cur := e
		if len(f) > 0 && (f[0] == "ltok" || f[0] == "laz") {
			// the same op on a deployment built by the real configuration loader (clients written in the file)
			le, err := vf12LoaderEnv(t, e)
			if err != nil {
				io.emit("harness-error loader %s", strings.Join(strings.Fields(err.Error()), "_"))
				continue
			}
			cur = le
			f[0] = f[0][1:]
		}
		if len(f) == 2 && f[0] == "slow" {
			le, err := vf12LoaderEnv(t, e)
			if err != nil {
				io.emit("harness-error loader %s", strings.Join(strings.Fields(err.Error()), "_"))
				continue
			}
			io.emit("%s", vf12Slow(f, e, le))
			continue
		}
		if len(f) == 6 && f[0] == "uix" {
			out, err := cur.vf12Uix(f)
			if err != nil {
				io.emit("harness-error %v", err)
			} else {
				io.emit("%s", out)
			}
			continue
		}
		if len(f) == 13 && f[0] == "race" {
			io.emit("%s", cur.vf12Race(f))
			continue
		}
		if len(f) == 9 && f[0] == "az" {
			out, err := cur.vf12Az(f)
			if err != nil {
				io.emit("harness-error %v", err)
			} else {
				io.emit("%s", out)
			}
			continue
		}
		if len(f) != 10 || f[0] != "tok" {
			io.emit("bad-op")
			continue
		}
		codeClient, present, secretSel, verSel, method, redirSel, codeState, place, via := f[1], f[2], f[3], f[4], f[5], f[6], f[7], f[8], f[9]
		// what is sealed into the code
		sealed := method != "nochallenge"
		sealMethod := method
		if method == "none" {
			sealMethod = ""
		}
		if method == "unknown" {
			sealMethod = "S512"
		}
		challenge := vf12Verifier
		if method == "S256" {
			challenge = vf12S256(vf12Verifier)
		}
		prot := "-"
		if sealed {
			prot = vfHex(sealMethod) + ":" + vfHex(challenge)
		}
		// the code
		now := time.Now().Unix()
		exp := now + idpOpenIDCMaxAuthProcessMaxDurationSeconds
		kind := "token_endpoint"
		switch codeState {
		case "expired":
			exp = now - 600
		case "wrongkind":
			kind = "bearer"
		}
		// round 5: `exp<±seconds>` = a code whose authorization happened 300 s before an expiry that lies
		// <seconds> away from the moment of presentation (the same credential before / after its expiry)
		backdated := false
		if strings.HasPrefix(codeState, "exp+") || strings.HasPrefix(codeState, "exp-") {
			var off int64
			if _, serr := fmt.Sscanf(codeState[3:], "%d", &off); serr != nil {
				io.emit("bad-op")
				continue
			}
			exp, backdated = now+off, true
		}
		var code string
		var err error
		if via == "authz" {
			ch := challenge
			if !sealed {
				ch = ""
			}
			code, err = cur.vf12AuthzCode(codeClient, sealMethod, ch)
		} else {
			vf12MintBackdated = backdated
			code, err = cur.vf12MintCode(codeClient, sealMethod, challenge, sealed, exp, kind)
			vf12MintBackdated = false
		}
		if err != nil {
			io.emit("harness-error %v", err)
			continue
		}
		by := "1"
		payload, _ := vf4Payload(code)
		switch codeState {
		case "tampered":
			// one bit of the signed payload flipped (the username), signature kept
			mutated := strings.Replace(string(payload), `"username":"alice"`, `"username":"alicf"`, 1)
			parts := strings.Split(code, ".")
			code = parts[0] + "." + vf4b64.EncodeToString([]byte(mutated)) + "." + parts[2]
			payload = []byte(mutated)
			by = "-"
		case "foreign":
			if code, err = vf4JoseSign(cur.frsa, jose.RS256, payload, false); err != nil {
				io.emit("harness-error %v", err)
				continue
			}
			by = "11"
		}
		// who presents it
		client := codeClient
		switch present {
		case "other":
			client = map[string]string{vf12S1: vf12S2, vf12P1: vf12P2}[codeClient]
		case "otherType":
			client = map[string]string{vf12S1: vf12P1, vf12P1: vf12S1}[codeClient]
		case "unknown":
			client = "nobody"
		case "empty":
			client = ""
		}
		secret := ""
		switch secretSel {
		case "right":
			secret = vf12Secret(client)
		case "wrong":
			secret = "not-the-secret"
		case "codeClients": // the secret of the client the code was issued to
			secret = vf12Secret(codeClient)
		}
		verifier := ""
		switch verSel {
		case "right":
			verifier = vf12Verifier
		case "wrong":
			verifier = vf12Wrong
		case "challenge": // downgrade attempt: present the challenge itself
			verifier = challenge
		}
		redirect := vf12Redirect
		if redirSel == "diff" {
			redirect = "https://evil.localhost/cb"
		}
		out, err := cur.vf12Redeem(code, payload, by, prot, client, secret, verifier, redirect, place)
		if err != nil {
			io.emit("harness-error %v", err)
			continue
		}
		io.emit("%s", out)
	}
}
