package main

import (
	"crypto/rand"
	"crypto/tls"
	"crypto/x509"
	"crypto/x509/pkix"
	"encoding/asn1"
	"encoding/base64"
	"encoding/pem"
	"fmt"
	"math/big"
	"net"
	"net/http"
	"net/http/httptest"
	"net/url"
	"strconv"
	"strings"
	"sync"
	"testing"
	"time"

	"github.com/Cloud-Foundations/keymaster/lib/certgen"
	"github.com/Cloud-Foundations/keymaster/lib/webapi/v0/proto"
)

var vfOidIPAddressDelegation = asn1.ObjectIdentifier{1, 3, 6, 1, 5, 5, 7, 1, 7}

// peer class as the standard library sees the RemoteAddr string (independent of the code under test)
func vfPeerClass(remoteAddr string) string {
	host, _, err := net.SplitHostPort(remoteAddr)
	if err != nil {
		return "noport"
	}
	ip := net.ParseIP(host)
	if ip == nil {
		return "unparsed"
	}
	if v4 := ip.To4(); v4 != nil {
		if strings.Contains(host, ":") {
			return "m4:" + v4.String()
		}
		return "v4:" + v4.String()
	}
	return "v6"
}

func vfHexBytes(b []byte) string {
	if len(b) == 0 {
		return "-"
	}
	return fmt.Sprintf("%x", b)
}

func vfExtValue(cert *x509.Certificate) []byte {
	for _, e := range cert.Extensions {
		if e.Id.Equal(vfOidIPAddressDelegation) {
			return e.Value
		}
	}
	return nil
}

func vfBytesStr(b []byte) string {
	if len(b) == 0 {
		return "_"
	}
	return fmt.Sprintf("%x", b)
}

// what encoding/asn1 makes of an extension value, in the driver's text form
func vfParseExt(value []byte) string {
	var fams []certgen.IpAdressFamily
	if _, err := asn1.Unmarshal(value, &fams); err != nil {
		return "unparsable"
	}
	var fs []string
	for _, f := range fams {
		var as []string
		for _, a := range f.Addresses {
			as = append(as, fmt.Sprintf("%d:%s", a.BitLength, vfBytesStr(a.Bytes)))
		}
		l := "-"
		if len(as) > 0 {
			l = strings.Join(as, ",")
		}
		fs = append(fs, vfBytesStr(f.AddressFamily)+"="+l)
	}
	if len(fs) == 0 {
		return "P-"
	}
	return "P" + strings.Join(fs, ";")
}

func vfNetsStr(l []net.IPNet) string {
	if len(l) == 0 {
		return "-"
	}
	s := make([]string, len(l))
	for i, n := range l {
		ones, _ := n.Mask.Size()
		s[i] = n.IP.String() + "/" + strconv.Itoa(ones)
	}
	return strings.Join(s, ",")
}

// what came back from an issuing handler: status, and for a 200 the certificate's CN, netblocks,
// extension bytes and whether it certifies the submitted key
func vfIssued(rr interface{}, code int, body []byte, submitted interface{}) string {
	if code != 200 {
		return fmt.Sprintf("%d - - - -", code)
	}
	block, _ := pem.Decode(body)
	if block == nil || block.Type != "CERTIFICATE" {
		return "200 nopem - - -"
	}
	cert, err := x509.ParseCertificate(block.Bytes)
	if err != nil {
		return "200 badcert - - -"
	}
	nets := "noext"
	if certgen.IsIPRestrictedX509Cert(cert) {
		l, err := certgen.ExtractIPNetsFromIPRestrictedX509(cert)
		if err != nil {
			nets = "err"
		} else {
			nets = vfNetsStr(l)
		}
	}
	same := "0"
	fp1, e1 := getKeyFingerprint(cert.PublicKey)
	fp2, e2 := getKeyFingerprint(submitted)
	if e1 == nil && e2 == nil && fp1 == fp2 {
		same = "1"
	}
	return fmt.Sprintf("200 %s %s %s %s", vfHex(cert.Subject.CommonName), nets, same, vfHexBytes(vfExtValue(cert)))
}

// TestVerifC11 — handler level.  Ops:
//
//	ref <chain 1|2> nets <cidr,cidr,…> <hexaddr> <env: denied automation revoked>
//	ref <chain 1|2> raw  <hexDER>      <hexaddr> <env>
//	    a certificate for CN role1 (minted by the server's own role-requesting code, resp. signed by the
//	    harness under the role-requesting CA with an arbitrary extension value) is presented from <addr>
//	    as VerifiedChains [[leaf]] or [[leaf, CA]] to /v1/refreshRoleRequestingCert and /certgen/role1
//	    -> peer=<class> refresh=<status cn nets samekey ext> certgen=<status cn - samekey ->
//	get <hex "cidr,cidr,…">   POST /v1/getRoleRequestingCert as an automation admin
//	    -> status=<code> cn=<hex> nets=<…> ext=<hexDER>
//	cget <rounds> <hex "cidr,…">@<hexaddr> <hex "cidr,…">@<hexaddr> …
//	    one creation request per worker, all workers released AT THE SAME TIME (<rounds> times); every certificate that comes
//	    back is read (library verify from <addr>, netblocks) and at once presented from <addr> (with its issuer) to
//	    /v1/refreshRoleRequestingCert, while the other workers are still creating / refreshing
//	    -> workers=<n> ;; <distinct results of worker 0, " || "-separated> ;; …   result: get=<…> verify=<t|f|err> refresh=<…>
func TestVerifC11(t *testing.T) {
	io := vfOpen(t)
	defer io.close()
	state, cleanup := vfNewState(t)
	defer cleanup()
	state.Config.Base.AutomationAdmins = []string{"admin1"}
	// a usual configuration: passwords and IP certificates both good for certificates (with "password" in the list
	// certGenHandler asks nothing more of a credential than that checkAuth returned it)
	state.Config.Base.AllowedAuthBackendsForCerts = []string{proto.AuthTypePassword, proto.AuthTypeIPCertificate}
	state.Config.Base.AllowedAuthBackendsForWebUI = []string{proto.AuthTypePassword}
	caCert, err := x509.ParseCertificate(state.selfRoleCaCertDer)
	if err != nil {
		t.Fatal(err)
	}
	userPub, err := getPubKeyFromPem(testUserPEMPublicKey)
	if err != nil {
		t.Fatal(err)
	}
	userFP, err := getKeyFingerprint(userPub)
	if err != nil {
		t.Fatal(err)
	}
	userPemBlock, _ := pem.Decode([]byte(testUserPEMPublicKey))
	b64public := base64.RawURLEncoding.EncodeToString(userPemBlock.Bytes)
	onCfg := false
	// one certificate, presented from one address: what checkAuth(AuthTypeAny) says, and the two endpoints
	present := func(leaf *x509.Certificate, chainLen string, from string) string {
		chain := []*x509.Certificate{leaf}
		if chainLen == "2" {
			chain = append(chain, caCert)
		}
		cs := &tls.ConnectionState{VerifiedChains: [][]*x509.Certificate{chain}, PeerCertificates: []*x509.Certificate{leaf}}
		user := "none"
		req3, _ := http.NewRequest("GET", "/profile/", nil)
		req3.RemoteAddr = from
		req3.TLS = cs
		if _, p3 := vfServe(func(w http.ResponseWriter, r *http.Request) {
			if ad, err := state.checkAuth(w, r, AuthTypeAny); err == nil && ad != nil {
				user = vfHex(ad.Username)
			}
		}, req3); p3 != nil {
			user = "PANIC"
		}
		form := url.Values{}
		form.Add("pubkey", b64public)
		req, _ := http.NewRequest("POST", refreshRoleRequestingCertPath, strings.NewReader(form.Encode()))
		req.Header.Add("Content-Length", strconv.Itoa(len(form.Encode())))
		req.Header.Add("Content-Type", "application/x-www-form-urlencoded")
		req.RemoteAddr = from
		req.TLS = cs
		r1 := "PANIC"
		if rr, p := vfServe(state.refreshRoleRequestingCertGenHandler, req); p == nil {
			r1 = strconv.Itoa(rr.Code)
		}
		req2, err := createKeyBodyRequest("POST", "/certgen/"+leaf.Subject.CommonName+"?type=x509", testUserPEMPublicKey, "")
		if err != nil {
			t.Fatal(err)
		}
		req2.RemoteAddr = from
		req2.TLS = cs
		r2 := "PANIC"
		if rr, p := vfServe(state.certGenHandler, req2); p == nil {
			r2 = strconv.Itoa(rr.Code)
		}
		return vfPeerClass(from) + "~" + user + "~" + r1 + "/" + r2
	}
	presentAll := func(leaf *x509.Certificate, chainLen string, hexAddrs string) string {
		var out []string
		for _, ph := range strings.Split(hexAddrs, ";") {
			pa, ok := vfUnhex(ph)
			if !ok {
				pa = "bad-hex"
			}
			out = append(out, present(leaf, chainLen, pa))
		}
		return strings.Join(out, ",")
	}
	for _, line := range io.ops {
		f := strings.Fields(line)
		switch {
		case len(f) == 2 && f[0] == "usecfg":
			// from here on: a state the real loader read from a configuration file (baseline automation settings), with the
			// configuration keys named in the hex JSON — options the pinned list does not know — switched on
			js, ok := vfUnhex(f[1])
			if !ok {
				io.emit("bad-op")
				continue
			}
			st, rep, err := vfLoadWithNewOptions(t, js)
			if err != nil {
				io.emit("load-error %s", strings.Join(strings.Fields(err.Error()), "_"))
				continue
			}
			cc, err := x509.ParseCertificate(st.selfRoleCaCertDer)
			if err != nil {
				io.emit("load-error %v", err)
				continue
			}
			state, caCert, onCfg = st, cc, true
			io.emit("cfg %s", rep)
		case len(f) == 5 && f[0] == "seq":
			// seq <chain 1|2> <cidrs> <env> <hexaddr;hexaddr;…>: ONE certificate, presented from each address in turn
			if (f[1] != "1" && f[1] != "2") || len(f[3]) != 3 || (onCfg && f[3] != "010") {
				io.emit("bad-op")
				continue
			}
			var nets []net.IPNet
			bad := false
			for _, s := range strings.Split(f[2], ",") {
				_, n, err := net.ParseCIDR(s)
				if err != nil {
					bad = true
					break
				}
				nets = append(nets, *n)
			}
			if bad {
				io.emit("bad-op")
				continue
			}
			params := roleRequestingCertGenParams{Role: "role1", Duration: time.Hour, RequestorNetblocks: nets, UserPub: userPub}
			_, leaf, err := state.withParamsGenerateRoleRequestingCert(&params)
			if err != nil {
				io.emit("minterr")
				continue
			}
			if !onCfg {
				state.Config.DenyTrustData.KeyDenyFPsshSha256 = nil
				if f[3][0] == '1' {
					state.Config.DenyTrustData.KeyDenyFPsshSha256 = []string{userFP}
				}
				state.Config.Base.AutomationUsers = nil
				if f[3][1] == '1' {
					state.Config.Base.AutomationUsers = []string{"role1", "role2"}
				}
			}
			io.emit("seq=%s", presentAll(leaf, f[1], f[4]))
		case (len(f) == 6 || len(f) == 8) && f[0] == "ref":
			if onCfg && f[5] != "010" {
				io.emit("bad-op")
				continue
			}
			addr, ok := vfUnhex(f[4])
			if !ok || len(f[5]) != 3 || (f[1] != "1" && f[1] != "2") {
				io.emit("bad-op")
				continue
			}
			// optional: extra form parameters of the request (urlencoded, hex) and addresses from which a
			// refreshed certificate is then used (hex, ';'-separated)
			extraForm := url.Values{}
			var probes []string
			if len(f) == 8 {
				fs, ok1 := vfUnhex(f[6])
				extraForm, err = url.ParseQuery(fs)
				if !ok1 || err != nil {
					io.emit("bad-op")
					continue
				}
				if f[7] != "-" {
					for _, ph := range strings.Split(f[7], ";") {
						pa, ok := vfUnhex(ph)
						if !ok {
							pa = "bad-hex"
						}
						probes = append(probes, pa)
					}
				}
			}
			var leaf *x509.Certificate
			switch f[2] {
			case "nets":
				var nets []net.IPNet
				bad := false
				if f[3] != "-" {
					for _, s := range strings.Split(f[3], ",") {
						_, n, err := net.ParseCIDR(s)
						if err != nil {
							bad = true
							break
						}
						nets = append(nets, *n)
					}
				}
				if bad {
					io.emit("bad-op")
					continue
				}
				params := roleRequestingCertGenParams{Role: "role1", Duration: time.Hour,
					RequestorNetblocks: nets, UserPub: userPub}
				_, leaf, err = state.withParamsGenerateRoleRequestingCert(&params)
				if err != nil {
					io.emit("minterr")
					continue
				}
			case "raw":
				value, ok := vfUnhex(f[3])
				if !ok {
					io.emit("bad-op")
					continue
				}
				tmpl := x509.Certificate{
					SerialNumber: big.NewInt(time.Now().UnixNano()),
					Subject:      pkix.Name{CommonName: "role1"},
					NotBefore:    time.Now().Add(-time.Minute),
					NotAfter:     time.Now().Add(time.Hour),
					KeyUsage:     x509.KeyUsageDigitalSignature,
					ExtKeyUsage:  []x509.ExtKeyUsage{x509.ExtKeyUsageClientAuth},
					ExtraExtensions: []pkix.Extension{{Id: vfOidIPAddressDelegation, Value: []byte(value)}},
				}
				der, err := x509.CreateCertificate(rand.Reader, &tmpl, caCert, userPub, state.Signer)
				if err != nil {
					io.emit("cert-error %v", err)
					continue
				}
				leaf, err = x509.ParseCertificate(der)
				if err != nil {
					io.emit("cert-error %v", err)
					continue
				}
			default:
				io.emit("bad-op")
				continue
			}
			chain := []*x509.Certificate{leaf}
			if f[1] == "2" {
				chain = append(chain, caCert)
			}
			cs := &tls.ConnectionState{VerifiedChains: [][]*x509.Certificate{chain},
				PeerCertificates: []*x509.Certificate{leaf}}
			// environment of getUsernameIfIPRestricted
			if !onCfg {
				state.Config.DenyTrustData.KeyDenyFPsshSha256 = nil
				if f[5][0] == '1' {
					state.Config.DenyTrustData.KeyDenyFPsshSha256 = []string{userFP}
				}
				state.Config.Base.AutomationUsers = nil
				if f[5][1] == '1' {
					state.Config.Base.AutomationUsers = []string{"role1", "role2"}
				}
			}
			// refresh
			// keys "H:<name>" of the extra parameters are request headers (X-Forwarded-For …), the rest form values
			reqHeaders := http.Header{}
			for k, vs := range extraForm {
				if strings.HasPrefix(k, "H:") {
					for _, v := range vs {
						reqHeaders.Add(k[2:], v)
					}
					delete(extraForm, k)
				}
			}
			setHeaders := func(req *http.Request, on bool) {
				if on {
					for k, vs := range reqHeaders {
						for _, v := range vs {
							req.Header.Add(k, v)
						}
					}
				}
			}
			doRefresh := func(cs *tls.ConnectionState, from string, extra url.Values) (*httptest.ResponseRecorder, string) {
				form := url.Values{}
				form.Add("pubkey", b64public)
				for k, vs := range extra {
					for _, v := range vs {
						form.Add(k, v)
					}
				}
				req, _ := http.NewRequest("POST", refreshRoleRequestingCertPath, strings.NewReader(form.Encode()))
				req.Header.Add("Content-Length", strconv.Itoa(len(form.Encode())))
				req.Header.Add("Content-Type", "application/x-www-form-urlencoded")
				req.RemoteAddr = from
				req.TLS = cs
				setHeaders(req, extra != nil)
				rr, p := vfServe(state.refreshRoleRequestingCertGenHandler, req)
				if p != nil {
					return nil, "PANIC - - - -"
				}
				return rr, vfIssued(rr, rr.Code, rr.Body.Bytes(), userPub)
			}
			doCertgen := func(cs *tls.ConnectionState, from string, extra url.Values) string {
				target := "/certgen/role1?type=x509"
				for k, vs := range extra {
					for _, v := range vs {
						target += "&" + url.QueryEscape(k) + "=" + url.QueryEscape(v)
					}
				}
				req2, err := createKeyBodyRequest("POST", target, testUserPEMPublicKey, "")
				if err != nil {
					t.Fatal(err)
				}
				req2.RemoteAddr = from
				req2.TLS = cs
				setHeaders(req2, extra != nil)
				rr2, p2 := vfServe(state.certGenHandler, req2)
				if p2 != nil {
					return "PANIC - - - -"
				}
				return vfIssued(rr2, rr2.Code, rr2.Body.Bytes(), userPub)
			}
			rr, refresh := doRefresh(cs, addr, extraForm)
			cgExtra := url.Values{}
			for k, vs := range extraForm { // certgen: everything but its own parameters
				if k != "type" && k != "duration" {
					cgExtra[k] = vs
				}
			}
			cg := doCertgen(cs, addr, cgExtra)
			// the credential decision itself, independent of what any handler then asks of it:
			// checkAuth(…, AuthTypeAny) with this chain from this address
			authany := func() string {
				res := "-"
				req3, _ := http.NewRequest("GET", "/profile/", nil)
				req3.RemoteAddr = addr
				req3.TLS = cs
				setHeaders(req3, true)
				_, p3 := vfServe(func(w http.ResponseWriter, r *http.Request) {
					ad, err := state.checkAuth(w, r, AuthTypeAny)
					if err == nil && ad != nil {
						res = fmt.Sprintf("%s:%d", vfHex(ad.Username), ad.AuthType)
					}
				}, req3)
				if p3 != nil {
					return "PANIC"
				}
				return res
			}()
			parse := " authany=" + authany
			if f[2] == "raw" {
				parse += " parse=" + vfParseExt(vfExtValue(leaf))
			}
			// use the refreshed certificate: what does it open, and from where?
			use := ""
			if rr != nil && rr.Code == 200 && len(probes) > 0 {
				var us []string
				if block, _ := pem.Decode(rr.Body.Bytes()); block != nil {
					if newLeaf, err := x509.ParseCertificate(block.Bytes); err == nil {
						nchain := []*x509.Certificate{newLeaf}
						if f[1] == "2" {
							nchain = append(nchain, caCert)
						}
						ncs := &tls.ConnectionState{VerifiedChains: [][]*x509.Certificate{nchain},
							PeerCertificates: []*x509.Certificate{newLeaf}}
						for _, pa := range probes {
							_, r2 := doRefresh(ncs, pa, nil)
							c2 := doCertgen(ncs, pa, nil)
							us = append(us, vfPeerClass(pa)+"~"+strings.Fields(r2)[0]+"/"+strings.Fields(c2)[0])
						}
					}
				}
				if len(us) > 0 {
					use = " use=" + strings.Join(us, ",")
				}
			}
			io.emit("peer=%s refresh=%s certgen=%s%s%s", vfPeerClass(addr), strings.ReplaceAll(refresh, " ", "|"), strings.ReplaceAll(cg, " ", "|"), parse, use)
		case (len(f) == 2 || len(f) == 3) && f[0] == "get":
			cidrs, ok := vfUnhex(f[1])
			if !ok {
				io.emit("bad-op")
				continue
			}
			if !onCfg {
				state.Config.Base.AutomationUsers = []string{"role1"}
				state.Config.DenyTrustData.KeyDenyFPsshSha256 = nil
			}
			form := url.Values{}
			form.Add("identity", "role1")
			for _, c := range strings.Split(cidrs, ",") {
				form.Add("requestor_netblock", c)
			}
			form.Add("target_netblock", "192.168.0.174/32")
			form.Add("pubkey", b64public)
			req, _ := http.NewRequest("POST", getRoleRequestingPath, strings.NewReader(form.Encode()))
			req.Header.Add("Content-Length", strconv.Itoa(len(form.Encode())))
			req.Header.Add("Content-Type", "application/x-www-form-urlencoded")
			req.AddCookie(vfAuthCookie(t, state, "admin1", AuthTypePassword))
			rr, p := vfServe(state.roleRequetingCertGenHandler, req)
			if p != nil {
				io.emit("status=PANIC")
				continue
			}
			// whatever was minted is then USED (with its issuer) from the given addresses
			use := ""
			if rr.Code == 200 && len(f) == 3 {
				if block, _ := pem.Decode(rr.Body.Bytes()); block != nil {
					if minted, err := x509.ParseCertificate(block.Bytes); err == nil {
						use = " use=" + presentAll(minted, "2", f[2])
					}
				}
			}
			io.emit("get=%s%s", strings.ReplaceAll(vfIssued(rr, rr.Code, rr.Body.Bytes(), userPub), " ", "|"), use)
		case len(f) >= 4 && f[0] == "cget":
			rounds, err := strconv.Atoi(f[1])
			if err != nil || rounds < 1 || rounds > 10000 {
				io.emit("bad-op")
				continue
			}
			type worker struct {
				cidrs  []string
				addr   string
				cookie *http.Cookie
				seen   []string
			}
			var ws []*worker
			bad := false
			for _, spec := range f[2:] {
				parts := strings.Split(spec, "@")
				if len(parts) != 2 {
					bad = true
					break
				}
				cidrs, ok1 := vfUnhex(parts[0])
				addr, ok2 := vfUnhex(parts[1])
				if !ok1 || !ok2 {
					bad = true
					break
				}
				ws = append(ws, &worker{cidrs: strings.Split(cidrs, ","), addr: addr,
					cookie: vfAuthCookie(t, state, "admin1", AuthTypePassword)})
			}
			if bad {
				io.emit("bad-op")
				continue
			}
			if !onCfg {
				state.Config.Base.AutomationUsers = []string{"role1"}
				state.Config.DenyTrustData.KeyDenyFPsshSha256 = nil
			}
			once := func(w *worker) string {
				form := url.Values{}
				form.Add("identity", "role1")
				for _, c := range w.cidrs {
					form.Add("requestor_netblock", c)
				}
				form.Add("target_netblock", "192.168.0.174/32")
				form.Add("pubkey", b64public)
				req, _ := http.NewRequest("POST", getRoleRequestingPath, strings.NewReader(form.Encode()))
				req.Header.Add("Content-Length", strconv.Itoa(len(form.Encode())))
				req.Header.Add("Content-Type", "application/x-www-form-urlencoded")
				req.AddCookie(w.cookie)
				rr, p := vfServe(state.roleRequetingCertGenHandler, req)
				if p != nil {
					return "get=PANIC verify=- refresh=-"
				}
				got := strings.ReplaceAll(vfIssued(rr, rr.Code, rr.Body.Bytes(), userPub), " ", "|")
				if rr.Code != 200 {
					return "get=" + got + " verify=- refresh=-"
				}
				block, _ := pem.Decode(rr.Body.Bytes())
				if block == nil {
					return "get=" + got + " verify=- refresh=-"
				}
				minted, err := x509.ParseCertificate(block.Bytes)
				if err != nil {
					return "get=" + got + " verify=- refresh=-"
				}
				verify := func() (res string) {
					defer func() {
						if recover() != nil {
							res = "PANIC"
						}
					}()
					ok, err := certgen.VerifyIPRestrictedX509CertIP(minted, w.addr)
					if ok {
						return "t"
					}
					if err != nil {
						return "err"
					}
					return "f"
				}()
				cs := &tls.ConnectionState{VerifiedChains: [][]*x509.Certificate{{minted, caCert}},
					PeerCertificates: []*x509.Certificate{minted}}
				form2 := url.Values{}
				form2.Add("pubkey", b64public)
				req2, _ := http.NewRequest("POST", refreshRoleRequestingCertPath, strings.NewReader(form2.Encode()))
				req2.Header.Add("Content-Length", strconv.Itoa(len(form2.Encode())))
				req2.Header.Add("Content-Type", "application/x-www-form-urlencoded")
				req2.RemoteAddr = w.addr
				req2.TLS = cs
				refreshed := "PANIC|-|-|-|-"
				if rr2, p2 := vfServe(state.refreshRoleRequestingCertGenHandler, req2); p2 == nil {
					refreshed = strings.ReplaceAll(vfIssued(rr2, rr2.Code, rr2.Body.Bytes(), userPub), " ", "|")
				}
				return "get=" + got + " verify=" + verify + " refresh=" + refreshed
			}
			for r := 0; r < rounds; r++ {
				start := make(chan struct{})
				var wg sync.WaitGroup
				for _, w := range ws {
					wg.Add(1)
					go func(w *worker) {
						defer wg.Done()
						<-start
						res := once(w)
						known := false
						for _, s := range w.seen {
							known = known || s == res
						}
						if !known && len(w.seen) < 4 {
							w.seen = append(w.seen, res)
						}
					}(w)
				}
				close(start)
				wg.Wait()
			}
			out := []string{fmt.Sprintf("workers=%d", len(ws))}
			for _, w := range ws {
				out = append(out, strings.Join(w.seen, " || "))
			}
			io.emit("%s", strings.Join(out, " ;; "))
		default:
			io.emit("bad-op")
		}
	}
}
