package main

// C04 harness: every signed artefact kind is minted by the REAL producer functions / handlers,
// optionally mutated (one claim at a time), re-signed (real key, trusted peer key, foreign key,
// header-algorithm substitutions) or corrupted, and fed to every REAL consumer. One output line per
// op: decision, side effects, and the claims object that was actually on the wire (so that the Lean
// model is evaluated on exactly what the real code saw).

import (
	"bytes"
	"crypto"
	"crypto/ecdsa"
	"crypto/ed25519"
	"crypto/elliptic"
	"crypto/hmac"
	"crypto/rand"
	"crypto/rsa"
	"crypto/sha256"
	"crypto/sha512"
	"crypto/x509"
	"encoding/base64"
	"encoding/hex"
	"encoding/json"
	"encoding/pem"
	"fmt"
	"net/http"
	"net/http/httptest"
	"net/url"
	"regexp"
	"sort"
	"strconv"
	"strings"
	"testing"
	"time"

	"github.com/go-jose/go-jose/v4"
)

var vf4b64 = base64.RawURLEncoding

type vf4Env struct {
	t       *testing.T
	state   *RuntimeState
	realRSA *rsa.PrivateKey
	peer    *ecdsa.PrivateKey
	ed      ed25519.PrivateKey
	frsa    *rsa.PrivateKey
	fec     *ecdsa.PrivateKey
	fed     ed25519.PrivateKey
	base    map[string]string // kind -> compact JWS from the real producer
	baseAt  time.Time
	// loader-built deployments: the trusted keys are whatever the real loader made of the configuration
	fixedKeys bool
	named     map[string]crypto.Signer // every private key that exists around the configuration, by name
	// round 5: a deployment with a long trusted-key list (one verification takes tens of milliseconds)
	slowKeys []crypto.PublicKey
	slowPer  time.Duration
}

const (
	vf4User      = "alice"
	vf4ClientA   = "clientA"
	vf4SecretA   = "secretA"
	vf4ClientB   = "clientB"
	vf4SecretB   = "secretB"
	vf4RedirectA = "https://app.localhost/cb"
)

func vf4Setup(t *testing.T) (*vf4Env, func()) {
	state, cleanup := vfNewState(t)
	state.HostIdentity = "keymaster.example.com"
	state.Config.Base.HttpAddress = ":443"
	state.Config.Base.AllowedAuthBackendsForWebUI = []string{"password"}
	state.Config.Base.WebauthTokenForCliLifetime = time.Hour
	state.Config.OpenIDConnectIDP.Client = []OpenIDConnectClientConfig{
		{ClientID: vf4ClientA, ClientSecret: vf4SecretA, AllowedRedirectDomains: []string{"localhost"}, AllowClientChosenAudiences: true},
		{ClientID: vf4ClientB, ClientSecret: vf4SecretB, AllowedRedirectDomains: []string{"localhost"}},
	}
	e := &vf4Env{t: t, state: state}
	var ok bool
	if e.realRSA, ok = state.Signer.(*rsa.PrivateKey); !ok {
		t.Fatal("test signer is not RSA")
	}
	var err error
	if e.peer, err = ecdsa.GenerateKey(elliptic.P256(), rand.Reader); err != nil {
		t.Fatal(err)
	}
	if _, e.ed, err = ed25519.GenerateKey(rand.Reader); err != nil {
		t.Fatal(err)
	}
	if e.frsa, err = rsa.GenerateKey(rand.Reader, 2048); err != nil {
		t.Fatal(err)
	}
	if e.fec, err = ecdsa.GenerateKey(elliptic.P256(), rand.Reader); err != nil {
		t.Fatal(err)
	}
	if _, e.fed, err = ed25519.GenerateKey(rand.Reader); err != nil {
		t.Fatal(err)
	}
	return e, cleanup
}

func (e *vf4Env) setDeployment(dep string) {
	if e.fixedKeys {
		return
	}
	switch dep {
	case "multi":
		e.state.KeymasterPublicKeys = []crypto.PublicKey{e.realRSA.Public(), e.peer.Public(), e.ed.Public()}
	default:
		e.state.KeymasterPublicKeys = []crypto.PublicKey{e.realRSA.Public()}
	}
}

var vf4JWSRe = regexp.MustCompile(`[A-Za-z0-9_-]{8,}\.[A-Za-z0-9_-]{8,}\.[A-Za-z0-9_-]{8,}`)

// vf4CountJWS counts the distinct compact JWS strings in the given texts.
func vf4CountJWS(texts ...string) int {
	seen := map[string]bool{}
	for _, s := range texts {
		for _, m := range vf4JWSRe.FindAllString(s, -1) {
			seen[m] = true
		}
	}
	return len(seen)
}

func vf4Payload(tok string) ([]byte, bool) {
	parts := strings.Split(tok, ".")
	if len(parts) != 3 {
		return nil, false
	}
	b, err := vf4b64.DecodeString(parts[1])
	return b, err == nil
}

// mintBase produces one artefact of every kind with the real producers.
func (e *vf4Env) mintBase() {
	st := e.state
	e.setDeployment("single")
	e.base = map[string]string{}
	var err error
	if e.base["session"], err = st.genNewSerializedAuthJWT(vf4User, AuthTypePassword|AuthTypeU2F, maxAgeSecondsAuthCookie); err != nil {
		e.t.Fatal(err)
	}
	if e.base["cli"], err = st.generateAuthJWT(vf4User); err != nil {
		e.t.Fatal(err)
	}
	if e.base["storage"], err = st.genNewSerializedStorageStringDataJWT(vf4User, 1, "hashA", time.Now().Unix()+3600); err != nil {
		e.t.Fatal(err)
	}
	// authorization code through the real authorization endpoint
	form := url.Values{}
	form.Set("scope", "openid email")
	form.Set("response_type", "code")
	form.Set("client_id", vf4ClientA)
	form.Set("redirect_uri", vf4RedirectA)
	form.Set("nonce", "nonce-123456")
	form.Set("state", "st")
	req := httptest.NewRequest("GET", idpOpenIDCAuthorizationPath+"?"+form.Encode(), nil)
	req.AddCookie(&http.Cookie{Name: authCookieName, Value: e.base["session"]})
	rr, p := vfServe(st.idpOpenIDCAuthorizationHandler, req)
	if p != nil || rr.Code != 302 {
		e.t.Fatalf("authorization endpoint: code=%d panic=%v body=%s", rr.Code, p, rr.Body.String())
	}
	loc, err := url.Parse(rr.Header().Get("Location"))
	if err != nil {
		e.t.Fatal(err)
	}
	e.base["code"] = loc.Query().Get("code")
	// tokens through the real token endpoint
	tform := url.Values{}
	tform.Set("grant_type", "authorization_code")
	tform.Set("redirect_uri", vf4RedirectA)
	tform.Set("code", e.base["code"])
	treq := httptest.NewRequest("POST", idpOpenIDCTokenPath, strings.NewReader(tform.Encode()))
	treq.Header.Set("Content-Type", "application/x-www-form-urlencoded")
	treq.SetBasicAuth(vf4ClientA, vf4SecretA)
	trr, p := vfServe(st.idpOpenIDCTokenHandler, treq)
	if p != nil || trr.Code != 200 {
		e.t.Fatalf("token endpoint: code=%d panic=%v body=%s", trr.Code, p, trr.Body.String())
	}
	var resp tokenResponse
	if err := json.Unmarshal(trr.Body.Bytes(), &resp); err != nil {
		e.t.Fatal(err)
	}
	e.base["access"] = resp.AccessToken
	e.base["id"] = resp.IDToken
	e.baseAt = time.Now()
}

// ---------------------------------------------------------------- signing

func vf4JoseSign(key interface{}, alg jose.SignatureAlgorithm, payload []byte, embed bool) (string, error) {
	opts := (&jose.SignerOptions{}).WithType("JWT")
	if embed {
		opts.EmbedJWK = true
	}
	s, err := jose.NewSigner(jose.SigningKey{Algorithm: alg, Key: key}, opts)
	if err != nil {
		return "", err
	}
	obj, err := s.Sign(payload)
	if err != nil {
		return "", err
	}
	return obj.CompactSerialize()
}

func vf4Manual(alg string, payload []byte, sign func(input []byte) ([]byte, error)) (string, error) {
	hdr := []byte(`{"alg":"` + alg + `","typ":"JWT"}`)
	input := vf4b64.EncodeToString(hdr) + "." + vf4b64.EncodeToString(payload)
	sig, err := sign([]byte(input))
	if err != nil {
		return "", err
	}
	return input + "." + vf4b64.EncodeToString(sig), nil
}

func vf4ECDSASign(key *ecdsa.PrivateKey, input []byte) ([]byte, error) {
	h := sha256.Sum256(input)
	r, s, err := ecdsa.Sign(rand.Reader, key, h[:])
	if err != nil {
		return nil, err
	}
	out := make([]byte, 64)
	r.FillBytes(out[:32])
	s.FillBytes(out[32:])
	return out, nil
}

func (e *vf4Env) sign(mode string, payload []byte) (string, error) {
	pubDER, _ := x509.MarshalPKIXPublicKey(e.realRSA.Public())
	switch mode {
	case "real":
		return vf4JoseSign(e.state.Signer, jose.RS256, payload, false)
	case "peer":
		return vf4JoseSign(e.peer, jose.ES256, payload, false)
	case "ed":
		return vf4JoseSign(e.ed, jose.EdDSA, payload, false)
	case "frsa":
		return vf4JoseSign(e.frsa, jose.RS256, payload, false)
	case "fec":
		return vf4JoseSign(e.fec, jose.ES256, payload, false)
	case "fed":
		return vf4JoseSign(e.fed, jose.EdDSA, payload, false)
	case "jwk-embed":
		return vf4JoseSign(e.frsa, jose.RS256, payload, true)
	case "ps256":
		return vf4JoseSign(e.state.Signer, jose.PS256, payload, false)
	case "rs384":
		return vf4JoseSign(e.state.Signer, jose.RS384, payload, false)
	case "rs512":
		return vf4JoseSign(e.state.Signer, jose.RS512, payload, false)
	case "manual-real": // sanity: the hand-built RS256 token must behave like the go-jose one
		return vf4Manual("RS256", payload, func(in []byte) ([]byte, error) {
			h := sha256.Sum256(in)
			return rsa.SignPKCS1v15(rand.Reader, e.realRSA, crypto.SHA256, h[:])
		})
	case "none":
		return vf4Manual("none", payload, func(in []byte) ([]byte, error) { return nil, nil })
	case "sig-empty":
		return vf4Manual("RS256", payload, func(in []byte) ([]byte, error) { return nil, nil })
	case "hs-der", "hs-pem", "hs-pkcs1":
		var k []byte
		switch mode {
		case "hs-der":
			k = pubDER
		case "hs-pem":
			k = pem.EncodeToMemory(&pem.Block{Type: "PUBLIC KEY", Bytes: pubDER})
		default:
			k = x509.MarshalPKCS1PublicKey(&e.realRSA.PublicKey)
		}
		return vf4Manual("HS256", payload, func(in []byte) ([]byte, error) {
			m := hmac.New(sha256.New, k)
			m.Write(in)
			return m.Sum(nil), nil
		})
	case "es-hdr-rsa-sig": // header says ES256, signature is the real RSA key's PKCS#1 v1.5
		return vf4Manual("ES256", payload, func(in []byte) ([]byte, error) {
			h := sha256.Sum256(in)
			return rsa.SignPKCS1v15(rand.Reader, e.realRSA, crypto.SHA256, h[:])
		})
	case "rs-hdr-ec-sig": // header says RS256, signature is the trusted peer's ECDSA
		return vf4Manual("RS256", payload, func(in []byte) ([]byte, error) { return vf4ECDSASign(e.peer, in) })
	case "es384-hdr-p256-sig":
		return vf4Manual("ES384", payload, func(in []byte) ([]byte, error) {
			h := sha512.Sum384(in)
			r, s, err := ecdsa.Sign(rand.Reader, e.peer, h[:])
			if err != nil {
				return nil, err
			}
			out := make([]byte, 64)
			r.FillBytes(out[:32])
			s.FillBytes(out[32:])
			return out, nil
		})
	}
	return "", fmt.Errorf("unknown sign mode %s", mode)
}

// ---------------------------------------------------------------- mutation

func (e *vf4Env) valueOf(spec string, now int64) (interface{}, error) {
	issuer := e.state.idpGetIssuer()
	switch {
	case spec == "I":
		return issuer, nil
	case spec == "A":
		return []string{issuer}, nil
	case spec == "U":
		return issuer + idpOpenIDCUserinfoPath, nil
	case spec == "UA":
		return []string{issuer + idpOpenIDCUserinfoPath}, nil
	case strings.HasPrefix(spec, "t"):
		n, err := strconv.ParseInt(spec[1:], 10, 64)
		return json.Number(strconv.FormatInt(now+n, 10)), err
	case strings.HasPrefix(spec, "j"):
		b, err := hex.DecodeString(spec[1:])
		if err != nil {
			return nil, err
		}
		return json.RawMessage(b), nil
	}
	return nil, fmt.Errorf("bad value spec %q", spec)
}

func (e *vf4Env) mutate(payload []byte, muts []string, now int64) ([]byte, error) {
	if len(muts) == 0 {
		return payload, nil
	}
	m := map[string]interface{}{}
	dec := json.NewDecoder(bytes.NewReader(payload))
	dec.UseNumber()
	if err := dec.Decode(&m); err != nil {
		return nil, err
	}
	for _, mu := range muts {
		f := strings.SplitN(mu, ":", 3)
		switch {
		case f[0] == "del" && len(f) == 2:
			delete(m, f[1])
		case f[0] == "set" && len(f) == 3:
			v, err := e.valueOf(f[2], now)
			if err != nil {
				return nil, err
			}
			m[f[1]] = v
		default:
			return nil, fmt.Errorf("bad mutation %q", mu)
		}
	}
	return json.Marshal(m)
}

// garble corrupts the compact token; returns the new token and whether the three decoded
// segments are byte-identical to the original's (then it is the same token for any decoder).
func vf4Garble(tok, spec string) (string, bool, error) {
	if spec == "-" {
		return tok, true, nil
	}
	f := strings.Split(spec, ":")
	parts := strings.Split(tok, ".")
	if len(parts) != 3 {
		return "", false, fmt.Errorf("not compact")
	}
	out := tok
	orig := append([]string{}, parts...)
	switch f[0] {
	case "bit": // bit:<segment>:<position per mille>:<bit>
		seg, _ := strconv.Atoi(f[1])
		pm, _ := strconv.Atoi(f[2])
		bit, _ := strconv.Atoi(f[3])
		raw, err := vf4b64.DecodeString(parts[seg])
		if err != nil {
			return "", false, fmt.Errorf("segment %d not decodable", seg)
		}
		if len(raw) == 0 { // empty signature (alg none / stripped): corrupt it by adding one byte
			raw = []byte{0}
		}
		raw[(len(raw)-1)*pm/1000] ^= 1 << uint(bit%8)
		parts[seg] = vf4b64.EncodeToString(raw)
		out = strings.Join(parts, ".")
	case "raw": // raw:<position per mille>:<char code>
		pm, _ := strconv.Atoi(f[1])
		ch, _ := strconv.Atoi(f[2])
		b := []byte(tok)
		b[(len(b)-1)*pm/1000] = byte(ch)
		out = string(b)
	case "trunc":
		n, _ := strconv.Atoi(f[1])
		if n < len(tok) {
			out = tok[:len(tok)-n]
		}
	case "dot":
		out = tok + "."
	case "swapsig": // signature of another valid token of the same key
		out = parts[0] + "." + parts[1] + "." + f[1]
	default:
		return "", false, fmt.Errorf("bad garble %q", spec)
	}
	np := strings.Split(out, ".")
	same := len(np) == 3
	if same {
		for i := 0; i < 3; i++ {
			a, e1 := vf4b64.DecodeString(orig[i])
			b, e2 := vf4b64.DecodeString(np[i])
			if e1 != nil || e2 != nil || !bytes.Equal(a, b) {
				same = false
			}
		}
	}
	return out, same, nil
}

// ---------------------------------------------------------------- observation

func (e *vf4Env) dbDigest() string {
	h := sha256.New()
	for _, q := range []string{
		"select username, type, jws_data, expiration_epoch from expiring_signed_user_data order by username, type",
		"select username, hex(profile_data) from user_profile order by username"} {
		rows, err := e.state.db.Query(q)
		if err != nil {
			return "ERR " + err.Error()
		}
		cols, _ := rows.Columns()
		for rows.Next() {
			vals := make([]interface{}, len(cols))
			ptrs := make([]interface{}, len(cols))
			for i := range vals {
				ptrs[i] = &vals[i]
			}
			rows.Scan(ptrs...)
			fmt.Fprintf(h, "%v|", vals)
		}
		rows.Close()
	}
	return hex.EncodeToString(h.Sum(nil))[:16]
}

func vf4HasAuthSetCookie(rr *httptest.ResponseRecorder) int {
	for _, c := range rr.Result().Cookies() {
		if c.Name == authCookieName && c.Value != "" {
			return 1
		}
	}
	return 0
}

func vf4ErrClass(err error) string {
	if err == nil {
		return "ok"
	}
	if err.Error() == "invalid JWT values" {
		return "values"
	}
	return "crypto"
}

type vf4Result struct {
	dec   string // "ok …" | "rej <class>"
	sc    int    // Set-Cookie: auth_cookie=<non-empty>
	ho    int    // tokens handed out
	di    int    // protected value disclosed
	slots [5]string
	extra string
}

func vf4Slots(s ...string) [5]string {
	out := [5]string{"-", "-", "-", "-", "-"}
	copy(out[:], s)
	return out
}

func (e *vf4Env) setRequired(req int) {
	var l []string
	if req&AuthTypePassword != 0 {
		l = append(l, "password")
	}
	if req&AuthTypeU2F != 0 {
		l = append(l, "U2F")
	}
	if req&AuthTypeTOTP != 0 {
		l = append(l, "TOTP")
	}
	e.state.Config.Base.AllowedAuthBackendsForWebUI = l
}

func vf4Ctx(spec string) map[string]string {
	m := map[string]string{}
	if spec == "-" {
		return m
	}
	for _, kv := range strings.Split(spec, ",") {
		p := strings.SplitN(kv, "=", 2)
		if len(p) == 2 {
			m[p[0]] = p[1]
		}
	}
	return m
}

func vf4Get(m map[string]string, k, def string) string {
	if v, ok := m[k]; ok {
		return v
	}
	return def
}

func (e *vf4Env) consume(consumer, tok string, ctx map[string]string, now int64) (res vf4Result, err error) {
	st := e.state
	res.slots = vf4Slots()
	switch consumer {
	case "session":
		req, _ := strconv.Atoi(vf4Get(ctx, "req", "2"))
		e.setRequired(req)
		res.slots = vf4Slots(strconv.Itoa(req))
		_, ferr := st.getAuthInfoFromAuthJWT(tok)
		// checkAuth itself
		r := httptest.NewRequest("GET", "/", nil)
		r.AddCookie(&http.Cookie{Name: authCookieName, Value: tok})
		rr := httptest.NewRecorder()
		info, cerr := st.checkAuth(rr, r, req)
		res.sc = vf4HasAuthSetCookie(rr)
		switch {
		case cerr == nil:
			res.dec = fmt.Sprintf("ok %s %d %d", vfHex(info.Username), info.AuthType, info.ExpiresAt.Unix())
		case cerr.Error() == "Invalid Cookie":
			res.dec = "rej " + vf4ErrClass(ferr)
		case cerr.Error() == "Expired Cookie":
			res.dec = "rej expired"
		case strings.HasPrefix(cerr.Error(), "Insufficient Auth Level"):
			res.dec = "rej level"
		default:
			res.dec = "rej other:" + vfHex(cerr.Error())
		}
		// a real handler behind checkAuth that hands out a token: the authorization endpoint
		form := url.Values{}
		form.Set("scope", "openid")
		form.Set("response_type", "code")
		form.Set("client_id", vf4ClientA)
		form.Set("redirect_uri", vf4RedirectA)
		hreq := httptest.NewRequest("GET", idpOpenIDCAuthorizationPath+"?"+form.Encode(), nil)
		hreq.Header.Set("Accept", "text/html")
		hreq.AddCookie(&http.Cookie{Name: authCookieName, Value: tok})
		hrr, p := vfServe(st.idpOpenIDCAuthorizationHandler, hreq)
		if p != nil {
			return res, fmt.Errorf("authorization handler panicked: %v", p)
		}
		res.sc |= vf4HasAuthSetCookie(hrr)
		res.ho = vf4CountJWS(hrr.Header().Get("Location"), hrr.Body.String())
		res.extra = fmt.Sprintf("hstatus=%d", hrr.Code)
		if (hrr.Code == 302) != (cerr == nil) {
			res.extra += " MISMATCH-handler-vs-checkAuth"
		}
	case "upgrade":
		lvl, _ := strconv.Atoi(vf4Get(ctx, "lvl", "10"))
		res.slots = vf4Slots(strconv.Itoa(lvl))
		r := httptest.NewRequest("POST", "/", nil)
		r.AddCookie(&http.Cookie{Name: authCookieName, Value: tok})
		rr := httptest.NewRecorder()
		// the user the request was authenticated as: this stream is about the TOKEN (kind, key, values), so the
		// caller is whoever the presented token names; whose session may be raised is C05's subject
		_, uerr := vfUpgradeCookie(st, rr, r, vf4TokenSubject(tok), lvl)
		res.sc = vf4HasAuthSetCookie(rr)
		if uerr != nil {
			res.dec = "rej " + vf4ErrClass(uerr)
			break
		}
		var newTok string
		for _, c := range rr.Result().Cookies() {
			if c.Name == authCookieName {
				newTok = c.Value
			}
		}
		pl, ok := vf4Payload(newTok)
		if !ok {
			return res, fmt.Errorf("upgrade produced an undecodable cookie")
		}
		res.dec = "ok " + hex.EncodeToString(pl)
		// the re-signed cookie must be the deployment's own
		e.setDeployment("single")
		if _, err := st.getAuthInfoFromAuthJWT(newTok); err != nil {
			res.extra = "RESIGNED-COOKIE-INVALID"
		}
	case "cliVerify", "cliSend":
		_, ferr := st.getAuthInfoFromJWT(tok, "keymaster_webauth_for_cli_identity")
		form := url.Values{}
		form.Set("token", tok)
		if consumer == "cliVerify" {
			r := httptest.NewRequest("POST", "/", strings.NewReader(form.Encode()))
			r.Header.Set("Content-Type", "application/x-www-form-urlencoded")
			rr, p := vfServe(st.VerifyAuthTokenHandler, r)
			if p != nil {
				return res, fmt.Errorf("VerifyAuthTokenHandler panicked: %v", p)
			}
			res.sc = vf4HasAuthSetCookie(rr)
			res.ho = vf4CountJWS(rr.Body.String())
			switch rr.Code {
			case 200:
				res.dec = "ok"
			case http.StatusNotAcceptable:
				res.dec = "rej " + vf4ErrClass(ferr)
			case http.StatusGone:
				res.dec = "rej expired"
			default:
				res.dec = fmt.Sprintf("rej status%d", rr.Code)
			}
			break
		}
		au, _ := vfUnhex(vf4Get(ctx, "au", vfHex(vf4User)))
		req := AuthTypePassword
		e.setRequired(req)
		res.slots = vf4Slots(vfHex(au), strconv.Itoa(req))
		// a fresh, valid session of user `au`, minted by the real producer with the real key
		cookie, err := st.genNewSerializedAuthJWT(au, req, 1000)
		if err != nil {
			return res, err
		}
		form.Set("port", "12345")
		r := httptest.NewRequest("POST", "/", strings.NewReader(form.Encode()))
		r.Header.Set("Content-Type", "application/x-www-form-urlencoded")
		r.AddCookie(&http.Cookie{Name: authCookieName, Value: cookie})
		rr, p := vfServe(st.SendAuthDocumentHandler, r)
		if p != nil {
			return res, fmt.Errorf("SendAuthDocumentHandler panicked: %v", p)
		}
		res.sc = vf4HasAuthSetCookie(rr)
		loc := rr.Header().Get("Location")
		res.ho = vf4CountJWS(loc, rr.Body.String())
		body := rr.Body.String()
		switch {
		case rr.Code == http.StatusPermanentRedirect:
			u, err := url.Parse(loc)
			if err != nil {
				return res, err
			}
			pl, ok := vf4Payload(u.Query().Get("auth_cookie"))
			if !ok {
				return res, fmt.Errorf("no auth_cookie in %q", loc)
			}
			res.dec = "ok " + hex.EncodeToString(pl)
			res.extra = "lochost=" + vfHex(u.Host)
		case rr.Code == 400 && strings.Contains(body, "Bad token"):
			res.dec = "rej " + vf4ErrClass(ferr)
		case rr.Code == 400 && strings.Contains(body, "User mismatch"):
			res.dec = "rej user"
		case rr.Code == 400 && strings.Contains(body, "Token expired"):
			res.dec = "rej expired"
		default:
			res.dec = fmt.Sprintf("rej status%d", rr.Code)
		}
	case "storage":
		lu, _ := vfUnhex(vf4Get(ctx, "lu", vfHex(vf4User)))
		cu, _ := vfUnhex(vf4Get(ctx, "cu", vfHex(vf4User)))
		lt, _ := strconv.Atoi(vf4Get(ctx, "lt", "1"))
		ct, _ := strconv.Atoi(vf4Get(ctx, "ct", "1"))
		ceOff, _ := strconv.ParseInt(vf4Get(ctx, "ce", "3600"), 10, 64)
		ce := now + ceOff
		res.slots = vf4Slots(vfHex(lu), strconv.Itoa(lt), vfHex(cu), strconv.Itoa(ct), strconv.FormatInt(ce, 10))
		// the attacker model of the property: write access to the table, no signing key
		if _, err := st.db.Exec("delete from expiring_signed_user_data"); err != nil {
			return res, err
		}
		if _, err := st.db.Exec("insert into expiring_signed_user_data(username, type, jws_data, expiration_epoch, update_epoch) values(?,?,?,?,?)",
			cu, ct, tok, ce, now); err != nil {
			return res, err
		}
		res.extra = "dbpre=" + e.dbDigest()
		ok, data, gerr := st.GetSigned(lu, lt)
		switch {
		case gerr == nil && ok:
			res.dec = "ok " + vfHex(data)
			res.di = 1
		case gerr == nil:
			res.dec = "rej notFound"
		case gerr.Error() == "invalid JWT values":
			res.dec = "rej values"
		case strings.Contains(gerr.Error(), "data type"):
			res.dec = "rej dtype"
		case strings.Contains(gerr.Error(), "expired"):
			res.dec = "rej expired"
		case strings.Contains(gerr.Error(), "inconsistent"):
			res.dec = "rej subject"
		default:
			res.dec = "rej crypto"
		}
		if data != "" && !ok {
			res.di = 1
		}
	case "code":
		client := vf4Get(ctx, "client", vf4ClientA)
		secret := vf4SecretA
		if client == vf4ClientB {
			secret = vf4SecretB
		}
		authOK := "1"
		if vf4Get(ctx, "secret", "good") != "good" {
			secret = "wrong"
			authOK = "0"
		}
		redir := vf4RedirectA
		if vf4Get(ctx, "redir", "same") != "same" {
			redir = "https://other.localhost/cb"
		}
		res.slots = vf4Slots(vfHex(client), vfHex(redir), authOK)
		form := url.Values{}
		form.Set("grant_type", "authorization_code")
		form.Set("redirect_uri", redir)
		form.Set("code", tok)
		r := httptest.NewRequest("POST", idpOpenIDCTokenPath, strings.NewReader(form.Encode()))
		r.Header.Set("Content-Type", "application/x-www-form-urlencoded")
		r.SetBasicAuth(client, secret)
		rr, p := vfServe(st.idpOpenIDCTokenHandler, r)
		if p != nil {
			return res, fmt.Errorf("token handler panicked: %v", p)
		}
		res.sc = vf4HasAuthSetCookie(rr)
		res.ho = vf4CountJWS(rr.Body.String())
		switch rr.Code {
		case 200:
			var resp tokenResponse
			if err := json.Unmarshal(rr.Body.Bytes(), &resp); err != nil {
				return res, err
			}
			var idc openIDConnectIDToken
			pl, _ := vf4Payload(resp.IDToken)
			json.Unmarshal(pl, &idc)
			res.dec = "ok " + vfHex(idc.Subject)
		case 400:
			res.dec = "rej crypto"
		case 401:
			res.dec = "rej denied"
		default:
			res.dec = fmt.Sprintf("rej status%d", rr.Code)
		}
	case "access":
		r := httptest.NewRequest("GET", idpOpenIDCUserinfoPath, nil)
		r.Header.Set("Authorization", "Bearer "+tok)
		rr, p := vfServe(st.idpOpenIDCUserinfoHandler, r)
		if p != nil {
			return res, fmt.Errorf("userinfo handler panicked: %v", p)
		}
		res.sc = vf4HasAuthSetCookie(rr)
		res.ho = vf4CountJWS(rr.Body.String())
		body := rr.Body.String()
		switch {
		case rr.Code == 200:
			var ui openidConnectUserInfo
			if err := json.Unmarshal(rr.Body.Bytes(), &ui); err != nil {
				return res, err
			}
			res.dec = "ok " + vfHex(ui.Subject)
			res.di = 1
		case rr.Code == 400:
			res.dec = "rej crypto"
		case rr.Code == 401 && strings.Contains(body, "Expired Token"):
			res.dec = "rej expired"
		case rr.Code == 401 && strings.Contains(body, "Wrong Token Type"):
			res.dec = "rej kind"
		case rr.Code == 401 && strings.Contains(body, "Invalid Token Issuer"):
			res.dec = "rej issuer"
		case rr.Code == 401 && strings.Contains(body, "Invalid Audience"):
			res.dec = "rej audience"
		default:
			res.dec = fmt.Sprintf("rej status%d", rr.Code)
		}
		if rr.Code != 200 && strings.Contains(body, vf4User) {
			res.di = 1
		}
	default:
		return res, fmt.Errorf("unknown consumer %q", consumer)
	}
	return res, nil
}

// TestVerifC04
//
//	op   <consumer> <dep> <kind> <sign> <garble> <ctx> <mutation>*
//	base <kind>                       -> claims of the artefact the real producer minted
//
// output of op: `<dec…> | fx=<sc><ho><di> db=<0|1> now=<unix> same=<0|1> slots=<A>,<B>,<C>,<D>,<E> wire=<hex JSON> <extra>`
func TestVerifC04(t *testing.T) {
	io := vfOpen(t)
	defer io.close()
	e, cleanup := vf4Setup(t)
	defer cleanup()
	e.mintBase()
	for i, line := range io.ops {
		f := strings.Fields(line)
		if i%250 == 249 || time.Since(e.baseAt) > 20*time.Second {
			e.mintBase()
		}
		if len(f) == 2 && f[0] == "base" {
			pl, ok := vf4Payload(e.base[f[1]])
			if !ok {
				io.emit("bad-op")
				continue
			}
			hdr, _ := vf4b64.DecodeString(strings.Split(e.base[f[1]], ".")[0])
			io.emit("base %s wire=%s hdr=%s issuer=%s", f[1], hex.EncodeToString(pl), hex.EncodeToString(hdr), vfHex(e.state.idpGetIssuer()))
			continue
		}
		if len(f) == 6 && f[0] == "cfg" {
			io.emit("%s", vf4CfgOp(t, f))
			continue
		}
		if len(f) == 3 && f[0] == "seq" {
			io.emit("%s", e.vf4SeqOp(f))
			continue
		}
		if len(f) == 4 && f[0] == "ovl" {
			io.emit("%s", e.vf4OvlOp(f))
			continue
		}
		if len(f) < 7 || f[0] != "op" {
			io.emit("bad-op")
			continue
		}
		consumer, dep, kind, signMode, garble, ctxSpec, muts := f[1], f[2], f[3], f[4], f[5], f[6], f[7:]
		baseTok, ok := e.base[kind]
		if !ok {
			io.emit("bad-op")
			continue
		}
		now := time.Now().Unix()
		payload, _ := vf4Payload(baseTok)
		tok := baseTok
		var err error
		if signMode != "orig" || len(muts) > 0 {
			if payload, err = e.mutate(payload, muts, now); err != nil {
				io.emit("bad-op mutate: %v", err)
				continue
			}
			mode := signMode
			if mode == "orig" {
				mode = "real"
			}
			if tok, err = e.sign(mode, payload); err != nil {
				io.emit("bad-op sign: %v", err)
				continue
			}
		}
		same := true
		if strings.HasPrefix(garble, "swapsig") {
			// signature bytes of a different token signed by the same real key
			other, _ := e.sign("real", []byte(`{"iss":"x"}`))
			garble = "swapsig:" + strings.Split(other, ".")[2]
		}
		if tok, same, err = vf4Garble(tok, garble); err != nil {
			io.emit("bad-op garble: %v", err)
			continue
		}
		e.setDeployment(dep)
		pre := e.dbDigest()
		now = time.Now().Unix()
		res, err := e.consume(consumer, tok, vf4Ctx(ctxSpec), now)
		if err != nil {
			io.emit("harness-error %v", err)
			continue
		}
		if strings.HasPrefix(res.extra, "dbpre=") {
			pre = strings.Fields(res.extra)[0][6:]
			res.extra = ""
		}
		db := 0
		if e.dbDigest() != pre {
			db = 1
		}
		io.emit("%s | fx=%d%d%d db=%d now=%d same=%s slots=%s wire=%s %s", res.dec, res.sc, res.ho, res.di, db, now,
			vfBool(same), strings.Join(res.slots[:], ","), hex.EncodeToString(payload), res.extra)
	}
	_ = sort.Strings
}

// vf4TokenSubject: the (unverified) `sub` claim of a compact JWS, or the fixture's user when it cannot be read
func vf4TokenSubject(tok string) string {
	parts := strings.Split(tok, ".")
	if len(parts) == 3 {
		if raw, err := base64.RawURLEncoding.DecodeString(parts[1]); err == nil {
			var c struct {
				Sub string `json:"sub"`
			}
			if json.Unmarshal(raw, &c) == nil {
				return c.Sub
			}
		}
	}
	return vf4User
}
