package main

// C08 harness: the whole actor × level × target × operation × index matrix against the real
// handlers (status + before/after comparison of every stored profile involved), and the real
// admincache / IsAdminUser driven with an injected clock and a directory that answers or fails
// on demand.
//
// Op lines
//   cfg <adminUsers> <adminGroups> <automationUsers> <automationUserGroups> <automationAdmins> <webui backends>
//                                                     (comma separated hex lists, "-" = empty)
//   grp <hex user> <comma separated hex groups>       directory content (gitdb)
//   usr <hex user> <hasTokens 0|1>                    fixture profile
//   endcfg
//   req <hex actor> <dirdown 0|1> <level> <op> <action> <hex target> <index> <pending 0|1> <proof 0|1>
//   sbegin <lifetime ms> / sadv <ms> / sreq <same fields as req> / send
//                                                     a SEQUENCE of requests on one shared admin cache (injected clock)
//   cseq <lifetime ms> <ev>,<ev>,…                    a<ms> | c<hex user>:<T|G|F|E> | g<hex user> | p<hex user>:<0|1>
//   cconc <lifetime ms> <ev>,<ev>,…                   overlapping admin checks, slow directory (zz_verif_c08conc_test.go)
// Output
//   cfg/grp/usr/endcfg: ok
//   req:  st=<code|PANIC> chg=<h+hex,…|-> read=<h+hex,…|none> list=<0|1> cert=<h+hex|none> copy=<h+hex(owner)>h+hex(row),…|->
//   cseq: one token per c/g/p event: c<0|1>  g<isAdmin><valid>  p

import (
	"bytes"
	"crypto/ecdsa"
	"crypto/elliptic"
	"crypto/rand"
	"crypto/sha256"
	"crypto/x509"
	"crypto/x509/pkix"
	"encoding/base64"
	"encoding/binary"
	"encoding/gob"
	"encoding/hex"
	"encoding/json"
	"encoding/pem"
	"fmt"
	"io/ioutil"
	"math/big"
	"net/http"
	"net/http/httptest"
	"net/url"
	"os"
	"path/filepath"
	"reflect"
	"regexp"
	"sort"
	"strconv"
	"strings"
	"testing"
	"time"
	"unsafe"

	"github.com/Cloud-Foundations/golib/pkg/auth/userinfo/gitdb"
	"github.com/Cloud-Foundations/keymaster/keymasterd/admincache"
	"github.com/duo-labs/webauthn/protocol/webauthncbor"
	"github.com/duo-labs/webauthn/protocol/webauthncose"
	"github.com/duo-labs/webauthn/webauthn"
	"github.com/pquerna/otp/totp"
	"github.com/tstranex/u2f"
)

const (
	c08DeadLDAP = "ldaps://127.0.0.1:1" // connection refused at once: the directory does not answer
	c08RPID     = "www.example.com"
)

// ---- software tokens -------------------------------------------------------------

type c08SoftU2F struct {
	attKey  *ecdsa.PrivateKey
	attCert []byte
}

func c08NewSoftU2F(t *testing.T) *c08SoftU2F {
	k, err := ecdsa.GenerateKey(elliptic.P256(), rand.Reader)
	if err != nil {
		t.Fatal(err)
	}
	tmpl := &x509.Certificate{SerialNumber: big.NewInt(8), Subject: pkix.Name{CommonName: "verif soft token"},
		NotBefore: time.Now().Add(-time.Hour), NotAfter: time.Now().Add(24 * time.Hour)}
	der, err := x509.CreateCertificate(rand.Reader, tmpl, tmpl, &k.PublicKey, k)
	if err != nil {
		t.Fatal(err)
	}
	return &c08SoftU2F{attKey: k, attCert: der}
}

// c08H: "h" + hex, so that the empty name ("h") differs from "no name" ("-" / "none")
func c08H(s string) string { return "h" + hex.EncodeToString([]byte(s)) }

func c08B64(b []byte) string { return strings.TrimRight(base64.URLEncoding.EncodeToString(b), "=") }

// register answers a U2F registration challenge like a token + browser would.
func (s *c08SoftU2F) register(c *u2f.Challenge, origin string) (u2f.RegisterResponse, error) {
	k, err := ecdsa.GenerateKey(elliptic.P256(), rand.Reader)
	if err != nil {
		return u2f.RegisterResponse{}, err
	}
	kh := make([]byte, 32)
	rand.Read(kh)
	clientData, _ := json.Marshal(map[string]string{"typ": "navigator.id.finishEnrollment",
		"challenge": c08B64(c.Challenge), "origin": origin})
	pub := elliptic.Marshal(elliptic.P256(), k.PublicKey.X, k.PublicKey.Y)
	app := sha256.Sum256([]byte(c.AppID))
	ch := sha256.Sum256(clientData)
	buf := []byte{0}
	buf = append(buf, app[:]...)
	buf = append(buf, ch[:]...)
	buf = append(buf, kh...)
	buf = append(buf, pub...)
	h := sha256.Sum256(buf)
	sig, err := ecdsa.SignASN1(rand.Reader, s.attKey, h[:])
	if err != nil {
		return u2f.RegisterResponse{}, err
	}
	reg := []byte{5}
	reg = append(reg, pub...)
	reg = append(reg, byte(len(kh)))
	reg = append(reg, kh...)
	reg = append(reg, s.attCert...)
	reg = append(reg, sig...)
	return u2f.RegisterResponse{Version: "U2F_V2", RegistrationData: c08B64(reg), ClientData: c08B64(clientData)}, nil
}

// c08WebauthnAttestation builds a "none"-attestation credential creation response for the challenge.
func c08WebauthnAttestation(challenge, origin, rpid string) ([]byte, []byte, error) {
	k, err := ecdsa.GenerateKey(elliptic.P256(), rand.Reader)
	if err != nil {
		return nil, nil, err
	}
	credID := make([]byte, 32)
	rand.Read(credID)
	x := k.PublicKey.X.FillBytes(make([]byte, 32))
	y := k.PublicKey.Y.FillBytes(make([]byte, 32))
	cose, err := webauthncbor.Marshal(webauthncose.EC2PublicKeyData{
		PublicKeyData: webauthncose.PublicKeyData{KeyType: 2, Algorithm: -7}, Curve: 1, XCoord: x, YCoord: y})
	if err != nil {
		return nil, nil, err
	}
	rp := sha256.Sum256([]byte(rpid))
	ad := append([]byte{}, rp[:]...)
	ad = append(ad, 0x41)       // user present + attested credential data
	ad = append(ad, 0, 0, 0, 0) // sign count
	ad = append(ad, make([]byte, 16)...)
	l := make([]byte, 2)
	binary.BigEndian.PutUint16(l, uint16(len(credID)))
	ad = append(ad, l...)
	ad = append(ad, credID...)
	ad = append(ad, cose...)
	att, err := webauthncbor.Marshal(map[string]interface{}{"fmt": "none", "attStmt": map[string]interface{}{}, "authData": ad})
	if err != nil {
		return nil, nil, err
	}
	clientData, _ := json.Marshal(map[string]string{"type": "webauthn.create", "challenge": challenge, "origin": origin})
	raw := base64.RawURLEncoding
	body, _ := json.Marshal(map[string]interface{}{
		"id": raw.EncodeToString(credID), "rawId": raw.EncodeToString(credID), "type": "public-key",
		"response": map[string]string{"attestationObject": raw.EncodeToString(att), "clientDataJSON": raw.EncodeToString(clientData)}})
	return body, credID, nil
}

// ---- environment -------------------------------------------------------------------

type c08Clock struct{ now time.Time }

func (c *c08Clock) Now() time.Time { return c.now }

// c08SetClock replaces the (unexported) clock of an admincache.Cache.
func c08SetClock(c *admincache.Cache, clk interface{}) error {
	f := reflect.ValueOf(c).Elem().FieldByName("clock")
	if !f.IsValid() {
		return fmt.Errorf("admincache.Cache has no field clock")
	}
	v := reflect.ValueOf(clk)
	if !v.Type().Implements(f.Type()) {
		return fmt.Errorf("test clock does not implement %s", f.Type())
	}
	reflect.NewAt(f.Type(), unsafe.Pointer(f.UnsafeAddr())).Elem().Set(v)
	return nil
}

type c08Env struct {
	t        *testing.T
	state    *RuntimeState
	soft     *c08SoftU2F
	tmp      string
	groups   map[string][]string
	fixture  map[string]*userProfile // canonical stored profiles
	order    []string
	cookies  map[string]*http.Cookie
	dbYes    *gitdb.UserInfo // directory content of the grp lines
	dbNo     *gitdb.UserInfo // same users, no group at all
	rolePub  string
	totpKey  string
	nGitDirs int
	seqMode  bool
	seqClock *c08Clock
}

func c08List(s string) []string {
	if s == "-" || s == "" {
		return nil
	}
	var out []string
	for _, h := range strings.Split(s, ",") {
		v, ok := vfUnhex(h)
		if ok {
			out = append(out, v)
		}
	}
	return out
}

func (e *c08Env) newGitDB(groups map[string][]string) *gitdb.UserInfo {
	e.nGitDirs++
	dir := filepath.Join(e.tmp, fmt.Sprintf("gitdb%d", e.nGitDirs))
	os.MkdirAll(dir, 0755)
	type grp struct {
		Name        string
		UserMembers []string
	}
	byGroup := map[string][]string{}
	for u, gs := range groups {
		for _, g := range gs {
			byGroup[g] = append(byGroup[g], u)
		}
	}
	var names []string
	for g := range byGroup {
		names = append(names, g)
	}
	sort.Strings(names)
	var l []grp
	for _, g := range names {
		sort.Strings(byGroup[g])
		l = append(l, grp{g, byGroup[g]})
	}
	js, _ := json.Marshal(l)
	ioutil.WriteFile(filepath.Join(dir, "groups.json"), js, 0644)
	ioutil.WriteFile(filepath.Join(dir, "permitted-groups.json"), []byte(`[".*"]`), 0644)
	db, err := gitdb.New("", "", dir, time.Hour, e.state.logger)
	if err != nil {
		e.t.Fatalf("gitdb: %v", err)
	}
	return db
}

func (e *c08Env) directory(up bool) {
	if up {
		e.state.Config.UserInfo.Ldap.LDAPTargetURLs = ""
	} else {
		e.state.Config.UserInfo.Ldap.LDAPTargetURLs = c08DeadLDAP
	}
}

// mkProfile: a stored profile, with two U2F, two WebAuthn and two TOTP tokens when withTokens.
func (e *c08Env) mkProfile(name string, withTokens bool) *userProfile {
	p := &userProfile{U2fAuthData: map[int64]*u2fAuthData{}, TOTPAuthData: map[int64]*totpAuthData{},
		WebauthnData: map[int64]*webauthAuthData{}}
	if !withTokens {
		return p
	}
	for i, en := range map[int64]bool{1: true, 2: false} {
		c, _ := u2f.NewChallenge(u2fAppID, u2fTrustedFacets)
		resp, err := e.soft.register(c, u2fAppID)
		if err != nil {
			e.t.Fatal(err)
		}
		reg, err := u2f.Register(resp, *c, &u2f.Config{SkipAttestationVerify: true})
		if err != nil {
			e.t.Fatalf("soft token registration rejected: %v", err)
		}
		p.U2fAuthData[i] = &u2fAuthData{Enabled: en, Name: c08Marker(name) + fmt.Sprintf("u%d", i), Registration: reg, CreatedAt: time.Unix(1700000000, 0)}
	}
	for i, en := range map[int64]bool{11: true, 12: false} {
		id := make([]byte, 16)
		rand.Read(id)
		p.WebauthnData[i] = &webauthAuthData{Enabled: en, Name: c08Marker(name) + fmt.Sprintf("w%d", i), CreatedAt: time.Unix(1700000000, 0),
			Credential: webauthn.Credential{ID: id, PublicKey: []byte{4, 1, 2, 3}, AttestationType: "none"}}
	}
	for i, en := range map[int64]bool{21: true, 22: false} {
		enc, err := e.state.encryptWithPublicKeys([]byte(e.totpKey))
		if err != nil {
			e.t.Fatal(err)
		}
		p.TOTPAuthData[i] = &totpAuthData{Enabled: en, Name: c08Marker(name) + fmt.Sprintf("t%d", i), EncryptedSecret: enc, CreatedAt: time.Unix(1700000000, 0)}
	}
	p.UserHasRegistered2ndFactor = true
	return p
}

// Every fixture token is named after its OWNER (hex, so that any login name can be read back):
// whatever profile page or stored row such a name turns up in tells whose token data that is.
func c08Marker(owner string) string { return "vftok." + hex.EncodeToString([]byte(owner)) + "." }

var c08MarkerRE = regexp.MustCompile(`vftok\.([0-9a-f]*)\.`)

func c08Owners(text string, into map[string]bool) {
	for _, m := range c08MarkerRE.FindAllStringSubmatch(text, -1) {
		if b, err := hex.DecodeString(m[1]); err == nil {
			into[string(b)] = true
		}
	}
}

// table: every stored row, read with the harness's own exact SQL (never through LoadUserProfile).
func (e *c08Env) table() map[string][]byte {
	res := map[string][]byte{}
	rows, err := e.state.db.Query("select username, profile_data from user_profile")
	if err != nil {
		e.t.Fatalf("table: %v", err)
	}
	defer rows.Close()
	for rows.Next() {
		var u string
		var b []byte
		if err := rows.Scan(&u, &b); err != nil {
			e.t.Fatalf("table: %v", err)
		}
		if b == nil {
			b = []byte{}
		}
		res[u] = b
	}
	return res
}

func c08Decode(b []byte) *userProfile {
	p := &userProfile{U2fAuthData: map[int64]*u2fAuthData{}, TOTPAuthData: map[int64]*totpAuthData{}}
	if b != nil {
		if err := gob.NewDecoder(bytes.NewReader(b)).Decode(p); err != nil {
			return nil
		}
	}
	return p
}

// loadExact: the stored profile under exactly this key (an empty profile when there is no row).
func (e *c08Env) loadExact(name string) *userProfile {
	p := c08Decode(e.raw(name))
	if p == nil {
		e.t.Fatalf("cannot decode stored profile of %q", name)
	}
	return p
}

// c08StoredOwners: whose fixture tokens does a stored profile hold?
func c08StoredOwners(b []byte) map[string]bool {
	res := map[string]bool{}
	p := c08Decode(b)
	if p == nil {
		return res
	}
	for _, t := range p.U2fAuthData {
		c08Owners(t.Name, res)
	}
	for _, t := range p.WebauthnData {
		c08Owners(t.Name, res)
	}
	for _, t := range p.TOTPAuthData {
		c08Owners(t.Name, res)
	}
	return res
}

func (e *c08Env) raw(name string) []byte {
	var b []byte
	err := e.state.db.QueryRow("select profile_data from user_profile where username = ?", name).Scan(&b)
	if err != nil {
		return nil
	}
	if b == nil {
		b = []byte{}
	}
	return b
}

func (e *c08Env) cookie(user string, level int) *http.Cookie {
	k := fmt.Sprintf("%s/%d", user, level)
	if c, ok := e.cookies[k]; ok {
		return c
	}
	c := vfAuthCookie(e.t, e.state, user, level)
	e.cookies[k] = c
	return c
}

var c08UsernameRE = regexp.MustCompile(`<h2 id="username">([^<]*)</h2>`)

func (e *c08Env) doReq(f []string) string {
	actor, ok1 := vfUnhex(f[1])
	target, ok2 := vfUnhex(f[6])
	level, err := strconv.Atoi(f[3])
	if !ok1 || !ok2 || err != nil {
		return "bad-op"
	}
	op, action, index, pending, proof := f[4], f[5], f[7], f[8] == "1", f[9] == "1"
	state := e.state
	e.directory(f[2] != "1")
	if !e.seqMode { // a sequence (sbegin … send) shares one cache, as a running daemon does
		state.isAdminCache = admincache.New(5 * time.Minute)
	}
	// pending challenge / secret / session for the finish operations (set up with the directory's
	// state irrelevant: direct storage writes)
	var body []byte
	form := url.Values{}
	form.Set("username", target)
	method, path := "POST", ""
	var h http.HandlerFunc
	switch op {
	case "view":
		method, path, h = "GET", profilePath+target, state.profileHandler
	case "mu2f", "mtotp":
		path, h = u2fTokenManagementPath, state.u2fTokenManagerHandler
		if op == "mtotp" {
			path, h = totpTokenManagementPath, state.totpTokenManagerHandler
		}
		if index != "-" {
			form.Set("index", index)
		}
		form.Set("action", action)
		form.Set("name", "renamed by "+actor)
	case "totpgen":
		path, h = totpGeneratNewPath, state.GenerateNewTOTP
	case "totpval":
		path, h = totpValidateNewPath, state.validateNewTOTP
		p := e.loadExact(actor)
		secret := "JBSWY3DPEHPK3PXPJBSWY3DPEHPK3PXP"
		if pending {
			enc, err := state.encryptWithPublicKeys([]byte(secret))
			if err != nil {
				return "bad-op"
			}
			p.PendingTOTPSecret = &enc
			if err := state.SaveUserProfile(actor, p); err != nil {
				return "bad-op"
			}
		}
		code, _ := totp.GenerateCode(secret, time.Now())
		if !proof {
			n, _ := strconv.Atoi(code)
			code = fmt.Sprintf("%06d", (n+500000)%1000000)
		}
		form.Set("OTP", code)
	case "u2fbeg":
		method, path, h = "GET", u2fRegustisterRequestPath+target, state.u2fRegisterRequest
	case "u2ffin":
		path, h = u2fRegisterRequesponsePath+target, state.u2fRegisterResponse
		c, _ := u2f.NewChallenge(u2fAppID, u2fTrustedFacets)
		if pending {
			p := e.loadExact(target)
			p.RegistrationChallenge = c
			if err := state.SaveUserProfile(target, p); err != nil {
				return "bad-op"
			}
		}
		answer := c
		if !proof {
			answer, _ = u2f.NewChallenge(u2fAppID, u2fTrustedFacets)
		}
		resp, err := e.soft.register(answer, u2fAppID)
		if err != nil {
			return "bad-op"
		}
		body, _ = json.Marshal(resp)
	case "wabeg":
		method, path, h = "GET", webAutnRegististerRequestPath+target, state.webauthnBeginRegistration
	case "wafin":
		path, h = webAutnRegististerFinishPath+target, state.webauthnFinishRegistration
		challenge := "AAAAAAAAAAAAAAAAAAAAAAAAAAAAAAAAAAAAAAAAAAA"
		if pending {
			p := e.loadExact(target)
			p.FixupCredential(target, target)
			_, session, err := state.webAuthn.BeginRegistration(p)
			if err != nil {
				return "bad-op"
			}
			p.WebauthnSessionData = session
			if err := state.SaveUserProfile(target, p); err != nil {
				return "bad-op"
			}
			if proof {
				challenge = session.Challenge
			}
		}
		body, _, err = c08WebauthnAttestation(challenge, u2fAppID, c08RPID)
		if err != nil {
			return "bad-op"
		}
	case "list":
		method, path, h = "GET", usersPath, state.usersHandler
	case "add":
		path, h = addUserPath, state.addUserHandler
	case "del":
		path, h = deleteUserPath, state.deleteUserHandler
	case "botp":
		path, h = generateBoostrapOTPPath, state.generateBootstrapOTP
	case "role":
		path, h = getRoleRequestingPath, state.roleRequetingCertGenHandler
		form = url.Values{}
		form.Set("identity", target)
		form.Set("requestor_netblock", "10.0.0.0/8")
		form.Set("target_netblock", "10.1.0.0/16")
		form.Set("pubkey", e.rolePub)
	default:
		return "bad-op"
	}
	var req *http.Request
	switch {
	case method == "GET":
		req = httptest.NewRequest("GET", "http://localhost"+(&url.URL{Path: path}).EscapedPath(), nil)
	case body != nil:
		req = httptest.NewRequest("POST", "http://localhost"+(&url.URL{Path: path}).EscapedPath(), bytes.NewReader(body))
		req.Header.Set("Content-Type", "application/json")
	default:
		req = httptest.NewRequest("POST", "http://localhost"+(&url.URL{Path: path}).EscapedPath(), strings.NewReader(form.Encode()))
		req.Header.Set("Content-Type", "application/x-www-form-urlencoded")
	}
	req.AddCookie(e.cookie(actor, level))
	// before: the whole table
	before := e.table()
	rr, panicked := vfServe(h, req)
	// after
	after := e.table()
	var changed []string
	names := map[string]bool{}
	for n := range before {
		names[n] = true
	}
	for n := range after {
		names[n] = true
	}
	var copies []string
	for n := range names {
		b, okb := before[n]
		a, oka := after[n]
		if okb != oka || !bytes.Equal(a, b) {
			changed = append(changed, c08H(n))
			if oka { // provenance of what is now stored under n
				for o := range c08StoredOwners(a) {
					if o != n {
						copies = append(copies, c08H(o)+">"+c08H(n))
					}
				}
			}
		}
	}
	sort.Strings(copies)
	sort.Strings(changed)
	st := strconv.Itoa(rr.Code)
	if panicked != nil {
		st = "PANIC"
	}
	okStatus := panicked == nil && rr.Code >= 200 && rr.Code < 400
	read, list, cert := "none", "0", "none"
	if okStatus {
		bodyS := rr.Body.String()
		shown := map[string]bool{} // whose profile data the answer carries (any operation)
		c08Owners(bodyS, shown)
		switch op {
		case "view":
			if m := c08UsernameRE.FindStringSubmatch(bodyS); m != nil {
				shown[m[1]] = true
			} else {
				read = "unparsed"
			}
		}
		if len(shown) > 0 && read != "unparsed" {
			var l []string
			for o := range shown {
				l = append(l, c08H(o))
			}
			sort.Strings(l)
			read = strings.Join(l, ",")
		}
		switch op {
		case "list":
			all := true
			for _, n := range e.order {
				if e.fixture[n] != nil && !strings.Contains(bodyS, n) {
					all = false
				}
			}
			if all {
				list = "1"
			}
		case "role":
			if blk, _ := pem.Decode([]byte(bodyS)); blk != nil {
				if c, err := x509.ParseCertificate(blk.Bytes); err == nil {
					cert = c08H(c.Subject.CommonName)
				} else {
					cert = "unparsed"
				}
			} else {
				cert = "unparsed"
			}
		}
	}
	// restore the fixture: every row that changed or was written during set-up; rows that do not
	// belong to the fixture are deleted
	for n := range names {
		canon, isFix := e.fixture[n]
		_, exists := after[n]
		dirty := false
		for _, c := range changed {
			if c == c08H(n) {
				dirty = true
			}
		}
		if n == actor && op == "totpval" || n == target && (op == "u2ffin" || op == "wafin") {
			dirty = true
		}
		if !isFix && exists {
			dirty = true
		}
		if !dirty {
			continue
		}
		if isFix && canon != nil {
			if err := state.SaveUserProfile(n, canon); err != nil {
				e.t.Fatalf("restore %q: %v", n, err)
			}
		} else if exists {
			if err := state.DeleteUserProfile(n); err != nil {
				e.t.Fatalf("restore(delete) %q: %v", n, err)
			}
		}
	}
	chg := "-"
	if len(changed) > 0 {
		chg = strings.Join(changed, ",")
	}
	cp := "-"
	if len(copies) > 0 {
		cp = strings.Join(copies, ",")
	}
	return fmt.Sprintf("st=%s chg=%s read=%s list=%s cert=%s copy=%s", st, chg, read, list, cert, cp)
}

// doCseq drives the real IsAdminUser / admincache with an injected clock.
func (e *c08Env) doCseq(f []string) string {
	ms, err := strconv.Atoi(f[1])
	if err != nil {
		return "bad-op"
	}
	state := e.state
	clk := &c08Clock{now: time.Unix(1700000000, 0)}
	cache := admincache.New(time.Duration(ms) * time.Millisecond)
	if err := c08SetClock(cache, clk); err != nil {
		return "no-clock " + strings.ReplaceAll(err.Error(), " ", "_")
	}
	state.isAdminCache = cache
	savedUsers, savedGroups, savedDB := state.Config.Base.AdminUsers, state.Config.Base.AdminGroups, state.gitDB
	defer func() {
		state.Config.Base.AdminUsers, state.Config.Base.AdminGroups, state.gitDB = savedUsers, savedGroups, savedDB
		e.directory(true)
	}()
	state.Config.Base.AdminGroups = []string{"c08-cache-admins"}
	var out []string
	for _, ev := range strings.Split(f[2], ",") {
		if ev == "" {
			continue
		}
		switch ev[0] {
		case 'a':
			d, err := strconv.Atoi(ev[1:])
			if err != nil {
				return "bad-op"
			}
			clk.now = clk.now.Add(time.Duration(d) * time.Millisecond)
		case 'c':
			parts := strings.SplitN(ev[1:], ":", 2)
			if len(parts) != 2 {
				return "bad-op"
			}
			u, ok := vfUnhex(parts[0])
			if !ok {
				return "bad-op"
			}
			state.Config.Base.AdminUsers = nil
			e.directory(true)
			switch parts[1] {
			case "T": // listed by name: no lookup needed
				state.Config.Base.AdminUsers = []string{"somebody", u}
				state.gitDB = e.dbNo
			case "G": // the directory answers and names the admin group
				state.gitDB = e.cacheDB(u)
			case "F": // the directory answers: no admin group
				state.gitDB = e.dbNo
			case "E": // the directory does not answer
				e.directory(false)
			default:
				return "bad-op"
			}
			out = append(out, "c"+vfBool(state.IsAdminUser(u)))
		case 'g':
			u, ok := vfUnhex(ev[1:])
			if !ok {
				return "bad-op"
			}
			a, v := cache.Get(u)
			out = append(out, "g"+vfBool(a)+vfBool(v))
		case 'p':
			parts := strings.SplitN(ev[1:], ":", 2)
			if len(parts) != 2 {
				return "bad-op"
			}
			u, ok := vfUnhex(parts[0])
			if !ok {
				return "bad-op"
			}
			cache.Put(u, parts[1] == "1")
			out = append(out, "p")
		default:
			return "bad-op"
		}
	}
	if len(out) == 0 {
		return "-"
	}
	return strings.Join(out, " ")
}

var c08CacheDBs = map[string]*gitdb.UserInfo{}

// cacheDB: a directory in which u belongs to the cache test's admin group.
func (e *c08Env) cacheDB(u string) *gitdb.UserInfo {
	if db, ok := c08CacheDBs[u]; ok {
		return db
	}
	db := e.newGitDB(map[string][]string{u: {"c08-cache-admins", "staff"}})
	c08CacheDBs[u] = db
	return db
}

func TestVerifC08(t *testing.T) {
	io := vfOpen(t)
	defer io.close()
	state, cleanup := vfNewState(t)
	defer cleanup()
	logger = state.logger
	u2fTrustedFacets = []string{u2fAppID}
	state.HostIdentity = c08RPID
	var err error
	state.webAuthn, err = webauthn.New(&webauthn.Config{RPDisplayName: "Keymaster Server", RPID: c08RPID, RPOrigin: u2fAppID})
	if err != nil {
		t.Fatal(err)
	}
	env := &c08Env{t: t, state: state, soft: c08NewSoftU2F(t), groups: map[string][]string{},
		fixture: map[string]*userProfile{}, cookies: map[string]*http.Cookie{}, totpKey: "JBSWY3DPEHPK3PXPJBSWY3DPEHPK3PXQ"}
	env.tmp, err = ioutil.TempDir("", "vfc08")
	if err != nil {
		t.Fatal(err)
	}
	defer os.RemoveAll(env.tmp)
	rk, err := ecdsa.GenerateKey(elliptic.P256(), rand.Reader)
	if err != nil {
		t.Fatal(err)
	}
	der, err := x509.MarshalPKIXPublicKey(&rk.PublicKey)
	if err != nil {
		t.Fatal(err)
	}
	env.rolePub = base64.RawURLEncoding.EncodeToString(der)
	env.dbNo = env.newGitDB(map[string][]string{"nobody": {"staff"}})
	state.gitDB = env.dbNo
	for _, line := range io.ops {
		f := strings.Fields(line)
		if len(f) == 0 {
			io.emit("bad-op")
			continue
		}
		switch {
		case f[0] == "cfg" && len(f) == 7:
			state.Config.Base.AdminUsers = c08List(f[1])
			state.Config.Base.AdminGroups = c08List(f[2])
			state.Config.Base.AutomationUsers = c08List(f[3])
			state.Config.Base.AutomationUserGroups = c08List(f[4])
			state.Config.Base.AutomationAdmins = c08List(f[5])
			state.Config.Base.AllowedAuthBackendsForWebUI = c08List(f[6])
			io.emit("ok")
		case f[0] == "grp" && len(f) == 3:
			u, _ := vfUnhex(f[1])
			env.groups[u] = c08List(f[2])
			io.emit("ok")
		case f[0] == "usr" && len(f) == 3:
			u, _ := vfUnhex(f[1])
			p := env.mkProfile(u, f[2] == "1")
			env.fixture[u] = p
			env.order = append(env.order, u)
			if err := state.SaveUserProfile(u, p); err != nil {
				t.Fatal(err)
			}
			io.emit("ok")
		case f[0] == "endcfg":
			env.dbYes = env.newGitDB(env.groups)
			state.gitDB = env.dbYes
			io.emit("ok")
		case f[0] == "req" && len(f) == 10:
			state.gitDB = env.dbYes
			io.emit("%s", env.doReq(f))
		case f[0] == "sbegin" && len(f) == 2:
			ms, err := strconv.Atoi(f[1])
			if err != nil {
				io.emit("bad-op")
				continue
			}
			env.seqClock = &c08Clock{now: time.Unix(1700000000, 0)}
			cache := admincache.New(time.Duration(ms) * time.Millisecond)
			if err := c08SetClock(cache, env.seqClock); err != nil {
				io.emit("no-clock %s", strings.ReplaceAll(err.Error(), " ", "_"))
				continue
			}
			state.isAdminCache = cache
			env.seqMode = true
			io.emit("ok")
		case f[0] == "sadv" && len(f) == 2 && env.seqMode:
			ms, err := strconv.Atoi(f[1])
			if err != nil {
				io.emit("bad-op")
				continue
			}
			env.seqClock.now = env.seqClock.now.Add(time.Duration(ms) * time.Millisecond)
			io.emit("ok")
		case f[0] == "sreq" && len(f) == 10 && env.seqMode:
			state.gitDB = env.dbYes
			io.emit("%s", env.doReq(f))
		case f[0] == "send" && len(f) == 1:
			env.seqMode = false
			io.emit("ok")
		case f[0] == "cseq" && len(f) == 3:
			io.emit("%s", env.doCseq(f))
		case f[0] == "cconc" && len(f) == 3: // overlapping calls, slow directory: zz_verif_c08conc_test.go
			io.emit("%s", env.doCconc(f))
		default:
			io.emit("bad-op")
		}
	}
}
