package main

// Verification harness (injected with `go test -overlay`; never committed to /repo).
// Common plumbing: op-file reader, result writer, hex helpers, state factory.

import (
	"bufio"
	"encoding/hex"
	"fmt"
	"io/ioutil"
	"net/http"
	"net/http/httptest"
	"os"
	"reflect"
	"strings"
	"testing"
	"time"

	"github.com/Cloud-Foundations/golib/pkg/log/testlogger"
	"github.com/Cloud-Foundations/keymaster/lib/instrumentedwriter"
	"github.com/Cloud-Foundations/keymaster/lib/pwauth/htpassword"
	"github.com/duo-labs/webauthn/webauthn"
	"golang.org/x/time/rate"
)

type vfIO struct {
	ops []string
	out *bufio.Writer
	f   *os.File
}

// vfOpen reads $VERIF_OPS (one op per line) and opens $VERIF_OUT for writing.
func vfOpen(t *testing.T) *vfIO {
	opsPath := os.Getenv("VERIF_OPS")
	outPath := os.Getenv("VERIF_OUT")
	if opsPath == "" || outPath == "" {
		t.Skip("VERIF_OPS / VERIF_OUT not set")
	}
	data, err := ioutil.ReadFile(opsPath)
	if err != nil {
		t.Fatal(err)
	}
	f, err := os.Create(outPath)
	if err != nil {
		t.Fatal(err)
	}
	lines := strings.Split(strings.TrimRight(string(data), "\n"), "\n")
	return &vfIO{ops: lines, out: bufio.NewWriter(f), f: f}
}

func (v *vfIO) emit(format string, args ...interface{}) {
	fmt.Fprintf(v.out, format+"\n", args...)
	v.out.Flush()
}

func (v *vfIO) close() {
	v.out.Flush()
	v.f.Close()
}

func vfHex(s string) string {
	if s == "" {
		return "-"
	}
	return hex.EncodeToString([]byte(s))
}

func vfUnhex(s string) (string, bool) {
	if s == "-" {
		return "", true
	}
	b, err := hex.DecodeString(s)
	if err != nil {
		return "", false
	}
	return string(b), true
}

func vfBool(b bool) string {
	if b {
		return "1"
	}
	return "0"
}

// vfServe runs one request through a handler wrapped exactly like the service port
// wraps it (instrumentedwriter), recovering panics so that one bad op does not
// kill the run.
func vfServe(h http.HandlerFunc, req *http.Request) (rr *httptest.ResponseRecorder, panicked interface{}) {
	rr = httptest.NewRecorder()
	handler := instrumentedwriter.NewLoggingHandler(h, httpLogger{})
	func() {
		defer func() {
			if p := recover(); p != nil {
				panicked = p
			}
		}()
		handler.ServeHTTP(rr, req)
	}()
	return rr, panicked
}

// vfNewState builds a RuntimeState with the test signer, a sqlite DB in a temp dir,
// the htpasswd password backend of the repo's own tests and loaded templates.
// vfPrimaryAnswersInTime: remoteDBQueryTimeout of a harness state whose primary database is up (see vfNewState).
const vfPrimaryAnswersInTime = 10 * time.Minute

func vfNewState(t *testing.T) (*RuntimeState, func()) {
	tmpdir, err := ioutil.TempDir("", "vfkm")
	if err != nil {
		t.Fatal(err)
	}
	state := &RuntimeState{
		passwordAttemptGlobalLimiter: rate.NewLimiter(1e9, 1000000),
		logger:                       testlogger.New(t),
	}
	state.Config.Base.DataDirectory = tmpdir
	signer, err := getSignerFromPEMBytes([]byte(testSignerPrivateKey))
	if err != nil {
		t.Fatal(err)
	}
	state.Signer = signer
	state.signerPublicKeyToKeymasterKeys()
	caCertDer, err := generateCADer(state, signer)
	if err != nil {
		t.Fatal(err)
	}
	state.caCertDer = append(state.caCertDer, caCertDer)
	state.selfRoleCaCertDer, err = generateSelfRoleRequestingCADer(state, signer)
	if err != nil {
		t.Fatal(err)
	}
	passwdFile, err := setupPasswdFile()
	if err != nil {
		t.Fatal(err)
	}
	state.passwordChecker, err = htpassword.New(passwdFile.Name(), logger)
	if err != nil {
		t.Fatal(err)
	}
	state.totpLocalRateLimit = make(map[string]totpRateLimitInfo)
	state.vipPushCookie = make(map[string]pushPollTransaction)
	state.localAuthData = make(map[string]localUserData)
	state.pendingOauth2 = make(map[string]pendingAuth2Request)
	// initDB starts BackgroundDBCopy with the logger the state holds at that moment and that goroutine keeps it: with
	// the testing.T-bound logger a line it writes after the test function has returned ("Cancelled after copy") makes
	// the testing package panic the test BINARY (seen under load: VERIF_SEED=2, C05). It gets the package's own logger.
	tlog := state.logger
	state.logger = logger
	if err := initDB(state); err != nil {
		t.Fatal(err)
	}
	state.logger = tlog
	// initDB's default: a primary database that has not answered after 2 s counts as unreachable and the local
	// copy is consulted. Every model here takes "the primary answers in time" as given unless an op says otherwise
	// (the harnesses that study the outage set the field themselves, as the repository's own storage_test.go does);
	// on a loaded machine a 2 s stall of the sqlite goroutine is possible and would silently serve a stale profile.
	state.remoteDBQueryTimeout = vfPrimaryAnswersInTime
	if err := state.loadTemplates(); err != nil {
		t.Fatal(err)
	}
	vfConfigureWebAuthn(t, state)
	cleanup := func() {
		select {
		case state.dbDone <- struct{}{}:
		default:
		}
		os.Remove(passwdFile.Name())
		os.RemoveAll(tmpdir)
	}
	return state, cleanup
}

// vfAuthCookie mints a session cookie with the state's real signer.
func vfAuthCookie(t *testing.T, state *RuntimeState, user string, level int) *http.Cookie {
	val, err := state.setNewAuthCookie(nil, user, level)
	if err != nil {
		t.Fatal(err)
	}
	return &http.Cookie{Name: authCookieName, Value: val}
}

// vfConfigureWebAuthn gives the state the WebAuthn relying party the config loader would build
// (without it every admitted WebAuthn request dereferences nil — a harness artefact, not a finding).
func vfConfigureWebAuthn(t *testing.T, state *RuntimeState) {
	if state.webAuthn != nil {
		return
	}
	var err error
	state.webAuthn, err = webauthn.New(&webauthn.Config{
		RPDisplayName: "Keymaster Server",
		RPID:          "keymaster.example.com",
		RPOrigin:      "https://keymaster.example.com",
	})
	if err != nil {
		t.Fatal(err)
	}
}

// vfUpgradeCookie calls state.updateAuthCookieAuthlevel whatever its arity: (w, r, level) in trees before the
// repair that binds the cookie to the authenticated user, (w, r, username, level) since. Going through
// reflect keeps every harness of this package compiling on both, so that a tree without the repair is
// judged on its behaviour instead of failing to build.
func vfUpgradeCookie(state *RuntimeState, w http.ResponseWriter, r *http.Request, user string, level int) (string, error) {
	f := reflect.ValueOf(state.updateAuthCookieAuthlevel)
	args := []reflect.Value{reflect.ValueOf(w), reflect.ValueOf(r)}
	if f.Type().NumIn() == 4 {
		args = append(args, reflect.ValueOf(user))
	}
	args = append(args, reflect.ValueOf(level))
	out := f.Call(args)
	var err error
	if e, ok := out[1].Interface().(error); ok {
		err = e
	}
	return out[0].String(), err
}
