package main

import (
	"crypto/x509"
	"encoding/pem"
	"strings"
	"testing"

	"golang.org/x/crypto/ssh"
)

// TestVerifC01: `cg <allowed csv|-> <sealed 0|1> <target> <certtype> <key ok|bad> <7 shape tokens>`
//   `cfgcg <allowed csv|-> <webui csv|-> <target> …` the same on a state loaded from a config file
//   ↦ `issued <hex principal>` | `refused <status>` | `noresponse` | `panic`
func TestVerifC01(t *testing.T) {
	io := vfOpen(t)
	defer io.close()
	state, cleanup := vfNewState(t)
	defer cleanup()
	shapes := vfNewShapes(t, state)
	signer := state.Signer
	handState, handShapes, handSigner := state, shapes, signer
	cfgShapes := map[*RuntimeState]*vfShapes{}
	for _, line := range io.ops {
		f := strings.Fields(line)
		if len(f) != 13 || (f[0] != "cg" && f[0] != "cfgcg") {
			io.emit("bad-op")
			continue
		}
		state, shapes, signer = handState, handShapes, handSigner
		if f[0] == "cfgcg" {
			// cfgcg <allowed for certs> <allowed for web UI> …: the lists are written into a config file that the
			// real loader reads; nothing is assigned to state.Config by hand
			loader, err := vfConfigLoader(t)
			if err != nil {
				io.emit("harness-error %v", err)
				continue
			}
			st, err := loader.load(map[string]interface{}{
				"base.allowed_auth_backends_for_certs": vfCfgList(f[1]),
				"base.allowed_auth_backends_for_webui": vfCfgList(f[2]),
				"base.automation_users":                []interface{}{"role1"},
			}, true)
			if err != nil {
				io.emit("load-error %s", strings.Join(strings.Fields(err.Error()), "_"))
				continue
			}
			if cfgShapes[st] == nil {
				cfgShapes[st] = vfNewShapes(t, st)
			}
			state, shapes, signer = st, cfgShapes[st], st.Signer
		} else {
			if f[1] == "-" {
				state.Config.Base.AllowedAuthBackendsForCerts = nil
			} else {
				state.Config.Base.AllowedAuthBackendsForCerts = strings.Split(f[1], ",")
			}
			state.Mutex.Lock()
			if f[2] == "1" {
				state.Signer = nil
			} else {
				state.Signer = signer
			}
			state.Mutex.Unlock()
		}
		key := testUserSSHPublicKey
		if f[4] != "ssh" {
			key = testUserPEMPublicKey
		}
		if f[5] == "bad" {
			key = "not a key"
		}
		req, err := createKeyBodyRequest(f[6], "/certgen/"+f[3]+"?type="+f[4], key, "")
		if err != nil {
			io.emit("bad-op")
			continue
		}
		req, ok := shapes.decorate(f[6:], req)
		if !ok {
			io.emit("bad-op")
			continue
		}
		rr, p := vfServe(state.certGenHandler, req)
		state.Mutex.Lock()
		state.Signer = signer
		state.Mutex.Unlock()
		if p != nil {
			io.emit("panic")
			continue
		}
		body := rr.Body.String()
		if rr.Code == 200 {
			// anything signed?
			if f[4] == "ssh" {
				pk, _, _, _, err := ssh.ParseAuthorizedKey([]byte(body))
				if err == nil {
					if c, ok := pk.(*ssh.Certificate); ok && len(c.ValidPrincipals) == 1 {
						io.emit("issued %s", vfHex(c.ValidPrincipals[0]))
						continue
					}
				}
			} else if block, _ := pem.Decode([]byte(body)); block != nil {
				if c, err := x509.ParseCertificate(block.Bytes); err == nil {
					io.emit("issued %s", vfHex(c.Subject.CommonName))
					continue
				}
			}
			if len(body) == 0 {
				io.emit("noresponse")
			} else {
				io.emit("refused 200")
			}
			continue
		}
		if strings.Contains(body, "CERTIFICATE") || strings.Contains(body, "-cert-v01@openssh.com") {
			io.emit("refused-but-signed %d", rr.Code)
			continue
		}
		io.emit("refused %d", rr.Code)
	}
}
