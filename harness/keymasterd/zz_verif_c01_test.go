package main

import (
	"crypto/x509"
	"encoding/pem"
	"net/http"
	"net/http/httptest"
	"strconv"
	"strings"
	"sync/atomic"
	"testing"
	"time"

	"github.com/Cloud-Foundations/keymaster/lib/simplestorage"
	"golang.org/x/crypto/ssh"
)

// vfC01Outcome classifies the answer of certGenHandler: `issued <hex principal>` | `refused <status>` |
// `refused-but-signed <status>` | `noresponse` | `panic`
func vfC01Outcome(ctype string, rr *httptest.ResponseRecorder, p interface{}) string {
	if p != nil {
		return "panic"
	}
	body := rr.Body.String()
	if rr.Code == 200 {
		// anything signed?
		if ctype == "ssh" {
			pk, _, _, _, err := ssh.ParseAuthorizedKey([]byte(body))
			if err == nil {
				if c, ok := pk.(*ssh.Certificate); ok && len(c.ValidPrincipals) == 1 {
					return "issued " + vfHex(c.ValidPrincipals[0])
				}
			}
		} else if block, _ := pem.Decode([]byte(body)); block != nil {
			if c, err := x509.ParseCertificate(block.Bytes); err == nil {
				return "issued " + vfHex(c.Subject.CommonName)
			}
		}
		if len(body) == 0 {
			return "noresponse"
		}
		return "refused 200"
	}
	if strings.Contains(body, "CERTIFICATE") || strings.Contains(body, "-cert-v01@openssh.com") {
		return "refused-but-signed " + strconv.Itoa(rr.Code)
	}
	return "refused " + strconv.Itoa(rr.Code)
}

// vfParkPw is a password backend in front of the real one in which the FIRST verification after arming is slow: it
// signals `entered` and waits for `release` before asking the real backend (a slow LDAP bind / Okta call).
type vfParkPw struct {
	inner interface {
		PasswordAuthenticate(string, []byte) (bool, error)
		UpdateStorage(simplestorage.SimpleStore) error
	}
	armed   int32
	entered chan struct{}
	release chan struct{}
}

func (c *vfParkPw) PasswordAuthenticate(u string, pw []byte) (bool, error) {
	if atomic.CompareAndSwapInt32(&c.armed, 1, 0) {
		close(c.entered)
		<-c.release
	}
	return c.inner.PasswordAuthenticate(u, pw)
}
func (c *vfParkPw) UpdateStorage(s simplestorage.SimpleStore) error { return c.inner.UpdateStorage(s) }

// vfC01Request builds the certificate request for target/ctype decorated with the seven shape tokens.
func vfC01Request(shapes *vfShapes, target, ctype string, tok []string) (*http.Request, bool) {
	key := testUserSSHPublicKey
	if ctype != "ssh" {
		key = testUserPEMPublicKey
	}
	req, err := createKeyBodyRequest(tok[0], "/certgen/"+target+"?type="+ctype, key, "")
	if err != nil {
		return nil, false
	}
	return shapes.decorate(tok, req)
}

// vfC01Overlap serves request A, lets it park inside the password backend (if it gets that far), serves request B
// while A is parked, then releases A. Each answer is classified on its own.
func vfC01Overlap(state *RuntimeState, shapes *vfShapes, target, ctype string, a, b []string) string {
	for _, tok := range [][]string{a, b} {
		// state that decorate() would change under the feet of the other request is not varied inside a pair
		if tok[5] == "error" || tok[6] != "1" || strings.HasSuffix(tok[3], ":denied") {
			return "bad-op"
		}
	}
	reqA, okA := vfC01Request(shapes, target, ctype, a)
	reqB, okB := vfC01Request(shapes, target, ctype, b)
	if !okA || !okB {
		return "bad-op"
	}
	real := state.passwordChecker
	park := &vfParkPw{inner: real, armed: 1, entered: make(chan struct{}), release: make(chan struct{})}
	state.passwordChecker = park
	defer func() { state.passwordChecker = real }()
	serve := func(req *http.Request) chan string {
		done := make(chan string, 1)
		go func() {
			rr, p := vfServe(state.certGenHandler, req)
			done <- vfC01Outcome(ctype, rr, p)
		}()
		return done
	}
	var outA, outB string
	doneA := serve(reqA)
	select {
	case <-park.entered:
	case outA = <-doneA:
		atomic.StoreInt32(&park.armed, 0) // A never asked the backend: nobody is parked
	case <-time.After(30 * time.Second):
		outA = "hung"
	}
	doneB := serve(reqB)
	select {
	case outB = <-doneB: // answered on its own
	case <-time.After(250 * time.Millisecond): // is waiting for something: let the backend answer A
	}
	close(park.release)
	if outA == "" {
		select {
		case outA = <-doneA:
		case <-time.After(30 * time.Second):
			outA = "hung"
		}
	}
	if outB == "" {
		select {
		case outB = <-doneB:
		case <-time.After(30 * time.Second):
			outB = "hung"
		}
	}
	return outA + " | " + outB
}

// vfC01Expiry: every `cgexp` op of the run, in two passes: each request is served once while its `soon` cookie is
// valid, then (after one common sleep past the latest expiry) the SAME cookie value is presented again.
func vfC01Expiry(state *RuntimeState, shapes *vfShapes, ops []string) map[int]string {
	type item struct {
		idx    int
		f      []string
		cookie string
		out1   string
	}
	setAllowed := func(a string) {
		if a == "-" {
			state.Config.Base.AllowedAuthBackendsForCerts = nil
		} else {
			state.Config.Base.AllowedAuthBackendsForCerts = strings.Split(a, ",")
		}
	}
	res := map[int]string{}
	var items []*item
	var latest int64
	for i, line := range ops {
		f := strings.Fields(line)
		if len(f) == 0 || f[0] != "cgexp" {
			continue
		}
		ck := []string{}
		if len(f) == 11 {
			ck = strings.Split(f[8], ":")
		}
		if len(f) != 11 || len(ck) != 8 || ck[5] != "soon" {
			res[i] = "bad-op"
			continue
		}
		it := &item{idx: i, f: f}
		setAllowed(f[1])
		for attempt := 0; attempt < 6; attempt++ {
			req, ok := vfC01Request(shapes, f[2], f[3], f[4:])
			if !ok {
				it.out1 = "bad-op"
				break
			}
			c, err := req.Cookie(authCookieName)
			if err != nil {
				it.out1 = "bad-op"
				break
			}
			exp := shapes.lastSoonExp
			rr, p := vfServe(state.certGenHandler, req)
			if time.Now().Unix() >= exp {
				it.out1 = "harness-late" // the machine was too slow: the first presentation may have been late
				continue
			}
			it.cookie, it.out1 = c.Value, vfC01Outcome(f[3], rr, p)
			if exp > latest {
				latest = exp
			}
			break
		}
		if it.cookie == "" {
			res[i] = it.out1
			continue
		}
		items = append(items, it)
	}
	if len(items) == 0 {
		return res
	}
	time.Sleep(time.Until(time.Unix(latest+1, 0).Add(200 * time.Millisecond)))
	for _, it := range items {
		f := it.f
		setAllowed(f[1])
		tok := append([]string{}, f[4:]...)
		tok[4] = "none"
		req, ok := vfC01Request(shapes, f[2], f[3], tok)
		if !ok {
			res[it.idx] = "bad-op"
			continue
		}
		req.AddCookie(&http.Cookie{Name: authCookieName, Value: it.cookie})
		rr, p := vfServe(state.certGenHandler, req)
		res[it.idx] = it.out1 + " | " + vfC01Outcome(f[3], rr, p)
	}
	return res
}

// TestVerifC01: `cg <allowed csv|-> <sealed 0|1> <target> <certtype> <key ok|bad> <7 shape tokens>`
//
//	`cfgcg <allowed csv|-> <webui csv|-> <target> …` the same on a state loaded from a config file
//	↦ `issued <hex principal>` | `refused <status>` | `noresponse` | `panic`
//	`cgov <allowed> <target> <certtype> <7 shape tokens A> <7 shape tokens B>`: B served while A is parked inside the
//	password backend ↦ `<outcome A> | <outcome B>`
//	`cgexp <allowed> <target> <certtype> <7 shape tokens, cookie exp = soon>`: the same cookie presented while valid
//	and again after its expiry ↦ `<outcome before> | <outcome after>`
func TestVerifC01(t *testing.T) {
	io := vfOpen(t)
	defer io.close()
	state, cleanup := vfNewState(t)
	defer cleanup()
	shapes := vfNewShapes(t, state)
	signer := state.Signer
	handState, handShapes, handSigner := state, shapes, signer
	cfgShapes := map[*RuntimeState]*vfShapes{}
	var expiry map[int]string
	for lineNo, line := range io.ops {
		f := strings.Fields(line)
		if len(f) > 0 && (f[0] == "cgov" || f[0] == "cgexp") {
			state, shapes, signer = handState, handShapes, handSigner
			state.Mutex.Lock()
			state.Signer = signer
			state.Mutex.Unlock()
			if f[0] == "cgexp" {
				if expiry == nil {
					expiry = vfC01Expiry(state, shapes, io.ops)
				}
				io.emit("%s", expiry[lineNo])
				continue
			}
			if len(f) != 18 {
				io.emit("bad-op")
				continue
			}
			if f[1] == "-" {
				state.Config.Base.AllowedAuthBackendsForCerts = nil
			} else {
				state.Config.Base.AllowedAuthBackendsForCerts = strings.Split(f[1], ",")
			}
			io.emit("%s", vfC01Overlap(state, shapes, f[2], f[3], f[4:11], f[11:18]))
			continue
		}
		if len(f) != 13 || (f[0] != "cg" && f[0] != "cfgcg") {
			io.emit("bad-op")
			continue
		}
		state, shapes, signer = handState, handShapes, handSigner
		if f[0] == "cfgcg" {
			// cfgcg <allowed for certs> <allowed for web UI> …: the lists are written into a config file that the
			// real loader reads; nothing is assigned to state.Config by hand
			loader, err := vfConfigLoader(t)
			if err != nil {
				io.emit("harness-error %v", err)
				continue
			}
			st, err := loader.load(map[string]interface{}{
				"base.allowed_auth_backends_for_certs": vfCfgList(f[1]),
				"base.allowed_auth_backends_for_webui": vfCfgList(f[2]),
				"base.automation_users":                []interface{}{"role1"},
			}, true)
			if err != nil {
				io.emit("load-error %s", strings.Join(strings.Fields(err.Error()), "_"))
				continue
			}
			if cfgShapes[st] == nil {
				cfgShapes[st] = vfNewShapes(t, st)
			}
			state, shapes, signer = st, cfgShapes[st], st.Signer
		} else {
			if f[1] == "-" {
				state.Config.Base.AllowedAuthBackendsForCerts = nil
			} else {
				state.Config.Base.AllowedAuthBackendsForCerts = strings.Split(f[1], ",")
			}
			state.Mutex.Lock()
			if f[2] == "1" {
				state.Signer = nil
			} else {
				state.Signer = signer
			}
			state.Mutex.Unlock()
		}
		key := testUserSSHPublicKey
		if f[4] != "ssh" {
			key = testUserPEMPublicKey
		}
		if f[5] == "bad" {
			key = "not a key"
		}
		req, err := createKeyBodyRequest(f[6], "/certgen/"+f[3]+"?type="+f[4], key, "")
		if err != nil {
			io.emit("bad-op")
			continue
		}
		req, ok := shapes.decorate(f[6:], req)
		if !ok {
			io.emit("bad-op")
			continue
		}
		rr, p := vfServe(state.certGenHandler, req)
		state.Mutex.Lock()
		state.Signer = signer
		state.Mutex.Unlock()
		io.emit("%s", vfC01Outcome(f[4], rr, p))
	}
}
