package main

import (
	"bufio"
	"bytes"
	"crypto"
	"crypto/ecdsa"
	"crypto/ed25519"
	"crypto/elliptic"
	"crypto/rand"
	"crypto/rsa"
	"crypto/sha256"
	"crypto/tls"
	"crypto/x509"
	"encoding/base64"
	"encoding/hex"
	"encoding/json"
	"encoding/pem"
	"fmt"
	"io"
	"mime/multipart"
	"net"
	"net/http"
	"net/http/httptest"
	"net/url"
	"sort"
	"strconv"
	"strings"
	"sync"
	"testing"
	"time"

	"github.com/Cloud-Foundations/keymaster/keymasterd/eventnotifier"
	"github.com/Cloud-Foundations/keymaster/lib/instrumentedwriter"
	"github.com/Cloud-Foundations/keymaster/lib/server/aws_identity_cert"
	"github.com/Cloud-Foundations/keymaster/lib/webapi/v0/proto"
	"github.com/Cloud-Foundations/keymaster/proto/eventmon"
	"golang.org/x/crypto/ssh"
)

// TestVerifC20 (stream `i` of the C20 driver): every issuing path of cmd/keymasterd is called
// in-process while raw subscribers are connected to the real notifier the way
// eventmon/monitord connects (CONNECT /eventmon/v0, then a JSON stream).
//
//	i sub <id> fast|stall      fast: a client goroutine decodes events; stall: never reads
//	i close <id>
//	i issue <path> <variant>   path: ssh x509 x509-kubernetes role refresh aws
//	                           variant: rsa ec ed25519 weak garbage
//	i login <hex user> <ok>    password login through loginHandler (ok=0: wrong password)
//	i flood <n> <size>         n large service-provider-login events straight into the notifier
//
// issue answers `status=<code> order=<before|timeout|na> box=<0|1> {<id>:<events since last op>}`
// where order=before means: when the handler first wrote a 200 response every fast subscriber
// received a certificate event while that write was being held back (so the publish happened
// no later than the response); an event is printed `<Type>;<1 iff CertData equals the bytes
// of the certificate in the response>`.
type vfC20Sub struct {
	id   int
	kind string
	conn net.Conn
	mu   sync.Mutex
	evs  []eventmon.EventV0
	seen int
}

func (s *vfC20Sub) count() int {
	s.mu.Lock()
	defer s.mu.Unlock()
	return len(s.evs)
}

type vfC20 struct {
	t      *testing.T
	state  *RuntimeState
	srv    *httptest.Server
	subs   map[int]*vfC20Sub
	keys   map[string]crypto.Signer
	rrcert *x509.Certificate
}

func (h *vfC20) fast() []*vfC20Sub {
	var l []*vfC20Sub
	for _, s := range h.subs {
		if s.kind == "fast" {
			l = append(l, s)
		}
	}
	sort.Slice(l, func(i, j int) bool { return l[i].id < l[j].id })
	return l
}

func (h *vfC20) subscribe(id int, kind string) error {
	conn, err := net.Dial("tcp", h.srv.Listener.Addr().String())
	if err != nil {
		return err
	}
	io.WriteString(conn, "CONNECT "+eventmon.HttpPath+" HTTP/1.0\n\n")
	br := bufio.NewReader(conn)
	resp, err := http.ReadResponse(br, &http.Request{Method: "CONNECT"})
	if err != nil {
		conn.Close()
		return err
	}
	if resp.Status != eventmon.ConnectString {
		conn.Close()
		return fmt.Errorf("unexpected status %q", resp.Status)
	}
	s := &vfC20Sub{id: id, kind: kind, conn: conn}
	if kind == "fast" {
		go func() {
			dec := json.NewDecoder(br)
			for {
				var ev eventmon.EventV0
				if err := dec.Decode(&ev); err != nil {
					return
				}
				s.mu.Lock()
				s.evs = append(s.evs, ev)
				s.mu.Unlock()
			}
		}()
	}
	h.subs[id] = s
	// the notifier registers the channel after answering the CONNECT: publish probe events
	// until this subscriber sees one, then forget them
	if kind == "fast" {
		deadline := time.Now().Add(5 * time.Second)
		for s.count() == 0 && time.Now().Before(deadline) {
			eventNotifier.PublishWebLoginEvent("vf-probe")
			time.Sleep(2 * time.Millisecond)
		}
		if s.count() == 0 {
			return fmt.Errorf("subscriber never received the probe event")
		}
	} else {
		time.Sleep(50 * time.Millisecond)
	}
	h.quiesce()
	for _, o := range h.subs {
		o.seen = o.count()
	}
	return nil
}

// quiesce waits until no fast subscriber has received anything for a few milliseconds.
func (h *vfC20) quiesce() {
	last := -1
	stable := 0
	for i := 0; i < 2000 && stable < 4; i++ {
		n := 0
		for _, s := range h.fast() {
			n += s.count()
		}
		if n == last {
			stable++
		} else {
			stable = 0
		}
		last = n
		time.Sleep(time.Millisecond)
	}
}

// vfHoldWriter holds back the first 200 response until every fast subscriber has received a
// new event (or a timeout), which tells whether the publish preceded the response.
type vfHoldWriter struct {
	rr    *httptest.ResponseRecorder
	h     *vfC20
	fired bool
	order string
}

func (w *vfHoldWriter) Header() http.Header { return w.rr.Header() }
func (w *vfHoldWriter) hold() {
	if w.fired {
		return
	}
	w.fired = true
	deadline := time.Now().Add(400 * time.Millisecond)
	for {
		all := true
		for _, s := range w.h.fast() {
			if s.count() <= s.seen {
				all = false
			}
		}
		if all {
			w.order = "before"
			return
		}
		if time.Now().After(deadline) {
			w.order = "timeout"
			return
		}
		time.Sleep(200 * time.Microsecond)
	}
}
func (w *vfHoldWriter) WriteHeader(code int) {
	if code == 200 {
		w.hold()
	}
	w.rr.WriteHeader(code)
}
func (w *vfHoldWriter) Write(p []byte) (int, error) {
	if w.rr.Code == 200 {
		w.hold()
	}
	return w.rr.Write(p)
}

func (h *vfC20) serve(handler http.HandlerFunc, req *http.Request) (w *vfHoldWriter, box bool) {
	w = &vfHoldWriter{rr: httptest.NewRecorder(), h: h, order: "na"}
	wrapped := instrumentedwriter.NewLoggingHandler(handler, httpLogger{})
	done := make(chan struct{})
	go func() {
		defer close(done)
		defer func() {
			if p := recover(); p != nil {
				w.rr.Code = 599
			}
		}()
		wrapped.ServeHTTP(w, req)
	}()
	select {
	case <-done:
		return w, true
	case <-time.After(10 * time.Second):
		return w, false
	}
}

func vfMultipart(path string, pub string, fields map[string]string) *http.Request {
	body := &bytes.Buffer{}
	mw := multipart.NewWriter(body)
	fw, _ := mw.CreateFormFile("pubkeyfile", "key.pub")
	io.WriteString(fw, pub)
	for k, v := range fields {
		mw.WriteField(k, v)
	}
	mw.Close()
	req := httptest.NewRequest("POST", path, body)
	req.Header.Set("Content-Type", mw.FormDataContentType())
	return req
}

func vfPKIXPem(pub crypto.PublicKey) (string, []byte) {
	der, err := x509.MarshalPKIXPublicKey(pub)
	if err != nil {
		return "", nil
	}
	return string(pem.EncodeToMemory(&pem.Block{Type: "PUBLIC KEY", Bytes: der})), der
}

type vfFakeSTSc20 struct{}

func (vfFakeSTSc20) RoundTrip(req *http.Request) (*http.Response, error) {
	body := `<GetCallerIdentityResponse xmlns="https://sts.amazonaws.com/doc/2011-06-15/"><GetCallerIdentityResult>` +
		`<Arn>arn:aws:sts::123456789012:assumed-role/VerifRole/i-0123456789</Arn><UserId>X:i</UserId><Account>123456789012</Account>` +
		`</GetCallerIdentityResult></GetCallerIdentityResponse>`
	return &http.Response{StatusCode: 200, Status: "200 OK", Proto: "HTTP/1.1", ProtoMajor: 1, ProtoMinor: 1,
		Header: http.Header{"Content-Type": []string{"text/xml"}}, Body: io.NopCloser(strings.NewReader(body)),
		Request: req}, nil
}

// issue runs one issuing path; returns the response writer, the time-box flag and the
// certificate bytes found in the response (nil when none).
func (h *vfC20) issue(path, variant string) (*vfHoldWriter, bool, []byte) {
	state := h.state
	signer := h.keys[variant]
	var sshPub, pkixPem string
	var pkixDer []byte
	if signer != nil {
		if sp, err := ssh.NewPublicKey(signer.Public()); err == nil {
			sshPub = string(ssh.MarshalAuthorizedKey(sp))
		}
		pkixPem, pkixDer = vfPKIXPem(signer.Public())
	} else {
		sshPub = "ssh-rsa AAAAB3NzaC1yc2EAAAADAQABAAABAQDI09fp garbage\n"
		pkixPem = "-----BEGIN PUBLIC KEY-----\nAAAA\n-----END PUBLIC KEY-----\n"
		pkixDer = []byte("not a key")
	}
	var w *vfHoldWriter
	var box bool
	switch path {
	case "ssh", "x509", "x509-kubernetes":
		pub := pkixPem
		if path == "ssh" {
			pub = sshPub
		}
		req := vfMultipart(certgenPath+"username?type="+path, pub, map[string]string{"duration": "1h"})
		req.AddCookie(vfAuthCookie(h.t, state, "username", AuthTypePassword))
		w, box = h.serve(state.certGenHandler, req)
	case "role":
		form := url.Values{}
		form.Add("identity", "role1")
		form.Add("requestor_netblock", "127.0.0.1/32")
		form.Add("target_netblock", "192.168.0.174/32")
		form.Add("pubkey", base64.RawURLEncoding.EncodeToString(pkixDer))
		req := httptest.NewRequest("POST", getRoleRequestingPath, strings.NewReader(form.Encode()))
		req.Header.Set("Content-Type", "application/x-www-form-urlencoded")
		req.AddCookie(vfAuthCookie(h.t, state, "admin1", AuthTypePassword))
		w, box = h.serve(state.roleRequetingCertGenHandler, req)
	case "refresh":
		form := url.Values{}
		form.Add("pubkey", base64.RawURLEncoding.EncodeToString(pkixDer))
		req := httptest.NewRequest("POST", refreshRoleRequestingCertPath, strings.NewReader(form.Encode()))
		req.Header.Set("Content-Type", "application/x-www-form-urlencoded")
		req.RemoteAddr = "127.0.0.1:12345"
		chain := []*x509.Certificate{h.rrcert}
		if ca, err := x509.ParseCertificate(state.selfRoleCaCertDer); err == nil {
			chain = append(chain, ca)
		}
		req.TLS = &tls.ConnectionState{VerifiedChains: [][]*x509.Certificate{chain}, PeerCertificates: chain[:1]}
		w, box = h.serve(state.refreshRoleRequestingCertGenHandler, req)
	case "aws":
		req := httptest.NewRequest("POST", "/aws/requestRoleCertificate/v1", strings.NewReader(pkixPem))
		req.Header.Set("claimed-arn", "arn:aws:iam::123456789012:role/VerifRole")
		req.Header.Set("presigned-method", "GET")
		req.Header.Set("presigned-url", "https://sts.us-west-2.amazonaws.com/?Action=GetCallerIdentity&Version=2011-06-15&X-Amz-Signature=00")
		w, box = h.serve(state.requestAwsRoleCertificateHandler, req)
	default:
		return nil, false, nil
	}
	var certBytes []byte
	if w.rr.Code == 200 {
		body := w.rr.Body.Bytes()
		if path == "ssh" {
			if pk, _, _, _, err := ssh.ParseAuthorizedKey(body); err == nil {
				certBytes = pk.Marshal()
			}
		} else if block, _ := pem.Decode(body); block != nil && block.Type == "CERTIFICATE" {
			certBytes = block.Bytes
		}
	}
	return w, box, certBytes
}

// newEvents waits for the events of this op to arrive and prints what every fast subscriber
// received since the previous op.
func (h *vfC20) newEvents(expectAtLeast int, cert []byte) string {
	deadline := time.Now().Add(500 * time.Millisecond)
	for time.Now().Before(deadline) {
		all := true
		for _, s := range h.fast() {
			if s.count()-s.seen < expectAtLeast {
				all = false
			}
		}
		if all {
			break
		}
		time.Sleep(200 * time.Microsecond)
	}
	h.quiesce()
	out := ""
	for _, s := range h.fast() {
		s.mu.Lock()
		evs := append([]eventmon.EventV0(nil), s.evs[s.seen:]...)
		s.seen = len(s.evs)
		s.mu.Unlock()
		var l []string
		for _, ev := range evs {
			switch ev.Type {
			case eventmon.EventTypeSSHCert, eventmon.EventTypeX509Cert:
				l = append(l, ev.Type+";"+vfBool(cert != nil && bytes.Equal(ev.CertData, cert)))
			case eventmon.EventTypeAuth:
				l = append(l, ev.Type+";"+ev.AuthType+","+vfHex(ev.Username))
			case eventmon.EventTypeWebLogin:
				l = append(l, ev.Type+";"+vfHex(ev.Username))
			default:
				l = append(l, ev.Type+";"+ev.Username)
			}
		}
		tok := "-"
		if len(l) > 0 {
			tok = strings.Join(l, "+")
		}
		out += fmt.Sprintf(" %d:%s", s.id, tok)
	}
	return out
}

func TestVerifC20(t *testing.T) {
	vio := vfOpen(t)
	defer vio.close()
	state, cleanup := vfNewState(t)
	defer cleanup()
	eventNotifier = eventnotifier.New(logger)
	state.Config.Base.AutomationUsers = []string{"role1"}
	state.Config.Base.AutomationAdmins = []string{"admin1"}
	state.Config.Base.AllowedAuthBackendsForCerts = []string{proto.AuthTypePassword}
	state.Config.Base.AllowedAuthBackendsForWebUI = []string{proto.AuthTypePassword}
	_, edPriv, err := ed25519.GenerateKey(rand.Reader)
	if err != nil {
		t.Fatal(err)
	}
	state.Ed25519Signer = edPriv
	// AWS role certificates wired exactly as loadVerifyConfigFile does, with STS answered locally
	state.Config.AwsCerts.AllowedAccounts = []string{"*"}
	if err := state.configureAwsRoles(); err != nil {
		t.Fatal(err)
	}
	state.awsCertIssuer, err = aws_identity_cert.New(aws_identity_cert.Params{
		CertificateGenerator: state.generateRoleCert,
		AccountIdValidator:   state.checkAwsAccountAllowed,
		FailureWriter: func(w http.ResponseWriter, r *http.Request, errorString string, code int) {
			state.writeFailureResponse(w, r, code, errorString)
		},
		HttpClient: &http.Client{Transport: vfFakeSTSc20{}},
		Logger:     logger,
	})
	if err != nil {
		t.Fatal(err)
	}
	h := &vfC20{t: t, state: state, subs: map[int]*vfC20Sub{}, keys: map[string]crypto.Signer{}}
	rsaKey, err := rsa.GenerateKey(rand.Reader, 2048)
	if err != nil {
		t.Fatal(err)
	}
	weakKey, err := rsa.GenerateKey(rand.Reader, 1024)
	if err != nil {
		t.Fatal(err)
	}
	ecKey, err := ecdsa.GenerateKey(elliptic.P256(), rand.Reader)
	if err != nil {
		t.Fatal(err)
	}
	_, edUser, _ := ed25519.GenerateKey(rand.Reader)
	h.keys["rsa"], h.keys["weak"], h.keys["ec"], h.keys["ed25519"] = rsaKey, weakKey, ecKey, edUser
	// a role requesting certificate for the refresh path (made before anyone subscribes)
	_, nb, _ := net.ParseCIDR("127.0.0.0/8")
	_, h.rrcert, err = state.withParamsGenerateRoleRequestingCert(&roleRequestingCertGenParams{
		Role: "role1", Duration: time.Hour, RequestorNetblocks: []net.IPNet{*nb}, UserPub: rsaKey.Public()})
	if err != nil {
		t.Fatal(err)
	}
	mux := http.NewServeMux()
	mux.Handle(eventmon.HttpPath, eventNotifier)
	h.srv = httptest.NewServer(mux)
	defer h.srv.Close()
	defer func() {
		for _, s := range h.subs {
			s.conn.Close()
		}
		time.Sleep(20 * time.Millisecond)
	}()
	for _, line := range vio.ops {
		f := strings.Fields(line)
		if len(f) < 2 || f[0] != "i" {
			vio.emit("bad-op")
			continue
		}
		f = f[1:]
		switch {
		case f[0] == "sub" && len(f) == 3 && (f[2] == "fast" || f[2] == "stall"):
			id, err := strconv.Atoi(f[1])
			if err != nil || h.subs[id] != nil {
				vio.emit("bad-op")
				continue
			}
			if err := h.subscribe(id, f[2]); err != nil {
				vio.emit("sub-failed %v", err)
				continue
			}
			vio.emit("ok")
		case f[0] == "close" && len(f) == 2:
			id, err := strconv.Atoi(f[1])
			if err != nil || h.subs[id] == nil {
				vio.emit("bad-op")
				continue
			}
			h.subs[id].conn.Close()
			delete(h.subs, id)
			time.Sleep(20 * time.Millisecond)
			vio.emit("ok")
		case f[0] == "issue" && len(f) == 3:
			w, box, cert := h.issue(f[1], f[2])
			if w == nil {
				vio.emit("bad-op")
				continue
			}
			n := 0
			if w.rr.Code == 200 {
				n = 1
			}
			sum := "-"
			if cert != nil {
				d := sha256.Sum256(cert)
				sum = hex.EncodeToString(d[:8])
			}
			vio.emit("status=%d order=%s box=%s%s #cert=%s", w.rr.Code, w.order, vfBool(box), h.newEvents(n, cert), sum)
		case f[0] == "login" && len(f) == 3:
			user, ok := vfUnhex(f[1])
			if !ok {
				vio.emit("bad-op")
				continue
			}
			form := url.Values{}
			form.Set("username", user)
			form.Set("password", "password")
			if f[2] != "1" {
				form.Set("password", "wrong")
			}
			req := httptest.NewRequest("POST", "/api/v0/login", strings.NewReader(form.Encode()))
			req.Header.Set("Content-Type", "application/x-www-form-urlencoded")
			req.Header.Set("Accept", "text/html")
			w, box := h.serve(state.loginHandler, req)
			good := w.rr.Code == 302 || w.rr.Code == 200
			n := 0
			if good {
				n = 2
			}
			vio.emit("ok=%s box=%s%s #status=%d", vfBool(good), vfBool(box), h.newEvents(n, nil), w.rr.Code)
		case f[0] == "flood" && len(f) == 3:
			n, e1 := strconv.Atoi(f[1])
			size, e2 := strconv.Atoi(f[2])
			if e1 != nil || e2 != nil {
				vio.emit("bad-op")
				continue
			}
			u := strings.Repeat("x", size)
			lagging := map[int]bool{}
			start := time.Now()
			for i := 0; i < n; i++ {
				eventNotifier.PublishServiceProviderLoginEvent(u, "flood")
				// give the fast readers time to keep up: the flood is there to fill the stalled ones
				// (a reader that once fails to keep up within the time limit is not waited for again)
				for _, s := range h.fast() {
					if lagging[s.id] {
						continue
					}
					deadline := time.Now().Add(500 * time.Millisecond)
					for s.count()-s.seen < i+1 && time.Now().Before(deadline) {
						time.Sleep(50 * time.Microsecond)
					}
					if s.count()-s.seen < i+1 {
						lagging[s.id] = true
					}
				}
			}
			box := time.Since(start) < 20*time.Second
			vio.emit("box=%s%s", vfBool(box), h.newEvents(n, nil))
		default:
			vio.emit("bad-op")
		}
	}
}
