package main

// C08 harness, round 5: OVERLAPPING admin checks against a slow directory.
//
// The user-info directory is a private in-process LDAPS server (own throw-away CA, trusted through
// SSL_CERT_FILE because the daemon verifies the user-info LDAP with the system roots) whose search
// handler can PARK a question until the harness releases it. The directory decides its answer when
// it answers (for a parked question: at the release), from its own membership table — that table,
// not the code under test, is the ground truth the verdicts are judged against.
//
// Op line
//   cconc <lifetime ms> <ev>,<ev>,…
//     a<ms>                    advance the injected clock (refused while a call is in flight)
//     d<hex user>:<0|1>        directory content: user is (not) a member of the admin group
//     b<hex user>:<H|N>:<i|l>  BEGIN an admin check of user in its own goroutine; H = the directory
//                              parks the question this call asks (if it asks one), N = answers at
//                              once; i = state.IsAdminUser(user), l = GET /users/ with user's cookie
//     r<k>                     release the question of the k-th begun call (0-based) and wait for it
// Output: one token per b / r event
//     b0 | b1   the call returned at once (verdict);  bp  the call is parked inside the directory
//     r0 | r1   verdict of the released call;          r-  that call was not parked
//   or the single word  slow  when a parked question ran into the LDAP client's timeout (machine
//   overloaded: the history says nothing), or  no-directory <why>  when the fixture could not start.

import (
	"crypto/ecdsa"
	"crypto/elliptic"
	"crypto/rand"
	"crypto/tls"
	"crypto/x509"
	"crypto/x509/pkix"
	"encoding/pem"
	"fmt"
	"io/ioutil"
	"math/big"
	"net"
	"net/http/httptest"
	"os"
	"regexp"
	"strconv"
	"strings"
	"sync"
	"time"

	"github.com/Cloud-Foundations/keymaster/keymasterd/admincache"
	ldapsrv "github.com/vjeantet/ldapserver"
)

const (
	c08ConcAdminGroup = "c08-conc-admins"
	c08ConcHoldLimit  = 1200 * time.Millisecond // the LDAP client of getLdapUserGroups gives up after 2 s
)

type c08ConcDir struct {
	mu       sync.Mutex
	member   map[string]bool
	holdNext bool
	entered  chan chan struct{}
	slow     bool
	searches int
	url      string
	caFile   string
}

var c08ConcFilterRE = regexp.MustCompile(`uid=([^)]*)\)`)

func (d *c08ConcDir) handleBind(w ldapsrv.ResponseWriter, m *ldapsrv.Message) {
	w.Write(ldapsrv.NewBindResponse(ldapsrv.LDAPResultSuccess))
}

// c08AddAttr calls SearchResultEntry.AddAttribute with run-time strings without importing the message
// package by name (a direct import would make `go test -mod=mod` rewrite /repo's go.mod).
func c08AddAttr[D ~string, V ~string](add func(D, ...V), name, val string) { add(D(name), V(val)) }

func (d *c08ConcDir) handleSearch(w ldapsrv.ResponseWriter, m *ldapsrv.Message) {
	r := m.GetSearchRequest()
	user := ""
	if mm := c08ConcFilterRE.FindStringSubmatch(r.FilterString()); mm != nil {
		user = mm[1]
	}
	d.mu.Lock()
	d.searches++
	hold := d.holdNext
	d.holdNext = false
	d.mu.Unlock()
	if hold {
		rel := make(chan struct{})
		start := time.Now()
		d.entered <- rel
		select {
		case <-rel:
		case <-time.After(c08ConcHoldLimit):
		}
		if time.Since(start) >= c08ConcHoldLimit {
			d.mu.Lock()
			d.slow = true
			d.mu.Unlock()
		}
	}
	// the directory decides when it answers
	d.mu.Lock()
	isMember := d.member[user]
	d.mu.Unlock()
	e := ldapsrv.NewSearchResultEntry("uid=" + user + ",o=people")
	c08AddAttr(e.AddAttribute, "uid", user)
	if isMember {
		c08AddAttr(e.AddAttribute, "memberOf", "cn="+c08ConcAdminGroup+",o=group")
	}
	w.Write(e)
	w.Write(ldapsrv.NewSearchResultDoneResponse(ldapsrv.LDAPResultSuccess))
}

// c08StartConcDir: CA -> SSL_CERT_FILE (must happen before this process first loads the system
// roots; nothing in TestVerifC08 verifies a certificate against them earlier), server certificate,
// LDAPS listener on a free loopback port.
func c08StartConcDir(tmp string) (*c08ConcDir, error) {
	caKey, err := ecdsa.GenerateKey(elliptic.P256(), rand.Reader)
	if err != nil {
		return nil, err
	}
	now := time.Now()
	caTmpl := &x509.Certificate{SerialNumber: big.NewInt(1), Subject: pkix.Name{CommonName: "verif c08 directory CA"},
		NotBefore: now.Add(-time.Hour), NotAfter: now.Add(48 * time.Hour), IsCA: true, BasicConstraintsValid: true,
		KeyUsage: x509.KeyUsageCertSign | x509.KeyUsageDigitalSignature}
	caDer, err := x509.CreateCertificate(rand.Reader, caTmpl, caTmpl, &caKey.PublicKey, caKey)
	if err != nil {
		return nil, err
	}
	caCert, err := x509.ParseCertificate(caDer)
	if err != nil {
		return nil, err
	}
	caFile := tmp + "/c08-directory-ca.pem"
	if err := ioutil.WriteFile(caFile, pem.EncodeToMemory(&pem.Block{Type: "CERTIFICATE", Bytes: caDer}), 0644); err != nil {
		return nil, err
	}
	if err := os.Setenv("SSL_CERT_FILE", caFile); err != nil {
		return nil, err
	}
	srvKey, err := ecdsa.GenerateKey(elliptic.P256(), rand.Reader)
	if err != nil {
		return nil, err
	}
	srvTmpl := &x509.Certificate{SerialNumber: big.NewInt(2), Subject: pkix.Name{CommonName: "localhost"},
		NotBefore: now.Add(-time.Hour), NotAfter: now.Add(48 * time.Hour), DNSNames: []string{"localhost"},
		IPAddresses: []net.IP{net.ParseIP("127.0.0.1")}, KeyUsage: x509.KeyUsageDigitalSignature,
		ExtKeyUsage: []x509.ExtKeyUsage{x509.ExtKeyUsageServerAuth}}
	srvDer, err := x509.CreateCertificate(rand.Reader, srvTmpl, caCert, &srvKey.PublicKey, caKey)
	if err != nil {
		return nil, err
	}
	tlsConfig := &tls.Config{Certificates: []tls.Certificate{{Certificate: [][]byte{srvDer}, PrivateKey: srvKey}},
		MinVersion: tls.VersionTLS12}
	d := &c08ConcDir{member: map[string]bool{}, entered: make(chan chan struct{}, 1), caFile: caFile}
	ldapsrv.Logger = ldapsrv.DiscardingLogger
	server := ldapsrv.NewServer()
	routes := ldapsrv.NewRouteMux()
	routes.Bind(d.handleBind)
	routes.Search(d.handleSearch)
	server.Handle(routes)
	addrCh := make(chan string, 1)
	go server.ListenAndServe("127.0.0.1:0", func(s *ldapsrv.Server) {
		addrCh <- s.Listener.Addr().String()
		s.Listener = tls.NewListener(s.Listener, tlsConfig)
	})
	select {
	case addr := <-addrCh:
		_, port, err := net.SplitHostPort(addr)
		if err != nil {
			return nil, err
		}
		d.url = "ldaps://localhost:" + port
	case <-time.After(10 * time.Second):
		return nil, fmt.Errorf("directory did not start")
	}
	return d, nil
}

var (
	c08ConcDirectory *c08ConcDir
	c08ConcDirErr    error
)

type c08ConcCall struct {
	done    chan bool
	release chan struct{}
}

func (e *c08Env) doCconc(f []string) string {
	ms, err := strconv.Atoi(f[1])
	if err != nil {
		return "bad-op"
	}
	state := e.state
	if c08ConcDirectory == nil && c08ConcDirErr == nil {
		c08ConcDirectory, c08ConcDirErr = c08StartConcDir(e.tmp)
	}
	if c08ConcDirErr != nil {
		return "no-directory " + strings.ReplaceAll(c08ConcDirErr.Error(), " ", "_")
	}
	dir := c08ConcDirectory
	clk := &c08Clock{now: time.Unix(1700000000, 0)}
	cache := admincache.New(time.Duration(ms) * time.Millisecond)
	if err := c08SetClock(cache, clk); err != nil {
		return "no-clock " + strings.ReplaceAll(err.Error(), " ", "_")
	}
	savedCache, savedUsers, savedGroups, savedLdap := state.isAdminCache, state.Config.Base.AdminUsers, state.Config.Base.AdminGroups, state.Config.UserInfo.Ldap
	state.isAdminCache = cache
	state.Config.Base.AdminUsers = nil
	state.Config.Base.AdminGroups = []string{c08ConcAdminGroup}
	state.Config.UserInfo.Ldap = UserInfoLDAPSource{BindUsername: "cn=keymaster,o=services", BindPassword: "secret",
		LDAPTargetURLs: dir.url, UserSearchBaseDNs: []string{"o=people"}, UserSearchFilter: "(uid=%s)"}
	dir.mu.Lock()
	dir.member = map[string]bool{}
	dir.holdNext = false
	dir.slow = false
	dir.mu.Unlock()
	var calls []*c08ConcCall
	inflight := 0
	defer func() {
		for _, cl := range calls { // never leave a goroutine of this history behind
			if cl.release != nil {
				close(cl.release)
				cl.release = nil
				select {
				case <-cl.done:
				case <-time.After(10 * time.Second):
				}
			}
		}
		state.isAdminCache, state.Config.Base.AdminUsers, state.Config.Base.AdminGroups, state.Config.UserInfo.Ldap = savedCache, savedUsers, savedGroups, savedLdap
	}()
	// the directory must answer at all (trust set-up): one question outside the history
	if _, err := state.getUserGroups("c08-probe"); err != nil {
		return "no-directory probe_lookup_failed"
	}
	var out []string
	for _, ev := range strings.Split(f[2], ",") {
		if ev == "" {
			continue
		}
		switch ev[0] {
		case 'a':
			d, err := strconv.Atoi(ev[1:])
			if err != nil || inflight > 0 {
				return "bad-op"
			}
			clk.now = clk.now.Add(time.Duration(d) * time.Millisecond)
		case 'd':
			parts := strings.Split(ev[1:], ":")
			if len(parts) != 2 || (parts[1] != "0" && parts[1] != "1") {
				return "bad-op"
			}
			u, ok := vfUnhex(parts[0])
			if !ok {
				return "bad-op"
			}
			dir.mu.Lock()
			dir.member[u] = parts[1] == "1"
			dir.mu.Unlock()
		case 'b':
			parts := strings.Split(ev[1:], ":")
			if len(parts) != 3 || (parts[1] != "H" && parts[1] != "N") || (parts[2] != "i" && parts[2] != "l") {
				return "bad-op"
			}
			u, ok := vfUnhex(parts[0])
			if !ok {
				return "bad-op"
			}
			cl := &c08ConcCall{done: make(chan bool, 1)}
			calls = append(calls, cl)
			dir.mu.Lock()
			dir.holdNext = parts[1] == "H"
			dir.mu.Unlock()
			if parts[2] == "i" {
				go func() { cl.done <- state.IsAdminUser(u) }()
			} else {
				req := httptest.NewRequest("GET", "http://localhost"+usersPath, nil)
				req.AddCookie(e.cookie(u, 2))
				go func() {
					rr, panicked := vfServe(state.usersHandler, req)
					cl.done <- panicked == nil && rr.Code >= 200 && rr.Code < 300
				}()
			}
			select {
			case v := <-cl.done:
				out = append(out, "b"+vfBool(v))
			case rel := <-dir.entered:
				cl.release = rel
				inflight++
				out = append(out, "bp")
			case <-time.After(20 * time.Second):
				return "stuck"
			}
			dir.mu.Lock()
			dir.holdNext = false
			dir.mu.Unlock()
		case 'r':
			k, err := strconv.Atoi(ev[1:])
			if err != nil || k < 0 || k >= len(calls) {
				return "bad-op"
			}
			cl := calls[k]
			if cl.release == nil {
				out = append(out, "r-")
				continue
			}
			close(cl.release)
			cl.release = nil
			inflight--
			select {
			case v := <-cl.done:
				out = append(out, "r"+vfBool(v))
			case <-time.After(20 * time.Second):
				return "stuck"
			}
		default:
			return "bad-op"
		}
	}
	dir.mu.Lock()
	slow := dir.slow
	dir.mu.Unlock()
	if slow {
		return "slow"
	}
	if len(out) == 0 {
		return "-"
	}
	return strings.Join(out, " ")
}
