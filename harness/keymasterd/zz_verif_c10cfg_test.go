package main

// Loader-built states for the C10 / C11 streams: the baseline settings an operator would write for an
// automation deployment, plus — when the tree under test accepts configuration keys the pinned option
// list does not know — every such new option switched ON with a value of its type. A new opt-in option is
// one more way to reach an effect the property constrains; the ordinary request streams are simply run
// again with it enabled and judged by the same predicates.

import (
	"encoding/json"
	"fmt"
	"io/ioutil"
	"os"
	"path/filepath"
	"sort"
	"strings"
	"testing"
)

type vfNewOption struct {
	Path string `json:"path"`
	Type string `json:"type"`
}

// a program that prints a WEAK key in authorized_keys format whatever it is called with: the value given to
// new string options (commands, helpers, file names …)
func vfWeakKeyProgram(dir string) (string, error) {
	line, ok := vfSSHLine("rsa:1024:65537")
	if !ok {
		return "", fmt.Errorf("no weak key line")
	}
	path := filepath.Join(dir, "vf_weak_keys.sh")
	script := "#!/bin/sh\necho '" + strings.TrimSpace(line) + "'\n"
	if err := ioutil.WriteFile(path, []byte(script), 0755); err != nil {
		return "", err
	}
	return path, nil
}

func vfOptionValue(o vfNewOption, program string) (interface{}, bool) {
	switch o.Type {
	case "string":
		return program, true
	case "time.Duration":
		return "60s", true
	case "bool":
		return true, true
	case "int", "uint", "int64", "uint64", "uint16", "float64", "rate.Limit":
		return 1, true
	case "[]string":
		return []interface{}{"role1"}, true
	}
	return nil, false
}

// vfCfgSet puts value under a dotted option path into the "section.key" settings map of vfCfgLoader.load
// (deeper levels become nested YAML maps).
func vfCfgSet(settings map[string]interface{}, path string, value interface{}) bool {
	parts := strings.Split(path, ".")
	if len(parts) < 2 {
		return false
	}
	if len(parts) == 2 {
		settings[path] = value
		return true
	}
	top := parts[0] + "." + parts[1]
	m, _ := settings[top].(map[interface{}]interface{})
	if m == nil {
		m = map[interface{}]interface{}{}
		settings[top] = m
	}
	for _, k := range parts[2 : len(parts)-1] {
		n, _ := m[k].(map[interface{}]interface{})
		if n == nil {
			n = map[interface{}]interface{}{}
			m[k] = n
		}
		m = n
	}
	m[parts[len(parts)-1]] = value
	return true
}

func vfBaselineSettings() map[string]interface{} {
	return map[string]interface{}{
		"base.allowed_auth_backends_for_certs": []interface{}{"password", "IPCertificate"},
		"base.allowed_auth_backends_for_webui": []interface{}{"password"},
		"base.automation_users":                []interface{}{"role1", "role2"},
		"base.automation_admins":               []interface{}{"admin1"},
	}
}

// vfLoadWithNewOptions: baseline settings + every new option that the loader accepts with a value of its
// type (options that make loading fail are left out, one by one). Returns the state and a report.
func vfLoadWithNewOptions(t *testing.T, optsJSON string) (*RuntimeState, string, error) {
	var opts []vfNewOption
	if optsJSON != "" && optsJSON != "-" {
		if err := json.Unmarshal([]byte(optsJSON), &opts); err != nil {
			return nil, "", err
		}
	}
	loader, err := vfConfigLoader(t)
	if err != nil {
		return nil, "", err
	}
	program, err := vfWeakKeyProgram(loader.dir)
	if err != nil {
		return nil, "", err
	}
	build := func(use []vfNewOption) map[string]interface{} {
		s := vfBaselineSettings()
		for _, o := range use {
			if v, ok := vfOptionValue(o, program); ok {
				vfCfgSet(s, o.Path, v)
			}
		}
		return s
	}
	var set, failed []string
	var use []vfNewOption
	for _, o := range opts {
		if _, ok := vfOptionValue(o, program); !ok {
			failed = append(failed, o.Path+"(type)")
			continue
		}
		if _, err := loader.load(build(append(append([]vfNewOption{}, use...), o)), true); err != nil {
			failed = append(failed, o.Path)
			continue
		}
		use = append(use, o)
		set = append(set, o.Path)
	}
	state, err := loader.load(build(use), true)
	if err != nil {
		return nil, "", err
	}
	sort.Strings(set)
	sort.Strings(failed)
	rep := "set=" + strings.Join(set, ",") + " skipped=" + strings.Join(failed, ",")
	if len(set) == 0 {
		rep = "set=- skipped=" + strings.Join(failed, ",")
	}
	if len(failed) == 0 {
		rep += "-"
	}
	_ = os.Getenv
	return state, rep, nil
}
