package main

import (
	"crypto"
	"crypto/ed25519"
	"crypto/rand"
	"crypto/sha256"
	"crypto/tls"
	"crypto/x509"
	"net"
	"sort"
	"fmt"
	"io"
	"net/http"
	"net/http/httptest"
	neturl "net/url"
	"strconv"
	"strings"
	"sync/atomic"
	"testing"
	"time"

	"github.com/Cloud-Foundations/keymaster/keymasterd/admincache"
	"github.com/Cloud-Foundations/keymaster/lib/certgen"

)

// TestVerifC06: `ca <mask> <method origin host tls cookie basic limiter>` ↦ outcome of the real checkAuth.
func TestVerifC06(t *testing.T) {
	vio := vfOpen(t)
	defer vio.close()
	state, cleanup := vfNewState(t)
	defer cleanup()
	shapes := vfNewShapes(t, state)
	var rig *vfTLSRig
	var expiry map[int]string
	for lineNo, line := range vio.ops {
		f := strings.Fields(line)
		if len(f) < 2 {
			vio.emit("bad-op")
			continue
		}
		switch f[0] {
		case "ca":
			mask, err := strconv.Atoi(f[1])
			req, ok := shapes.build(f[2:], "/some/path")
			if err != nil || !ok {
				vio.emit("bad-op")
				continue
			}
			w := &vfTrackRW{ResponseRecorder: httptest.NewRecorder()}
			var out string
			func() {
				defer func() {
					if p := recover(); p != nil {
						out = "panic"
					}
				}()
				info, err := state.checkAuth(w, req, mask)
				out = vfCheckAuthOut(info, err, w)
			}()
			vio.emit("%s", out)
		case "caov":
			// caov <mask> <7 shape tokens A> <7 shape tokens B>: B is checked while A is parked inside the password backend
			mask, err := strconv.Atoi(f[1])
			if err != nil || len(f) != 16 {
				vio.emit("bad-op")
				continue
			}
			vio.emit("%s", vfC06Overlap(state, shapes, mask, f[2:9], f[9:16]))
		case "caexp":
			// caexp <mask> <7 shape tokens, cookie exp = soon>: the same cookie while valid and again after its expiry
			if expiry == nil {
				expiry = vfC06Expiry(state, shapes, vio.ops)
			}
			vio.emit("%s", expiry[lineNo])
		case "tls":
			// tls <path> <client cert km|ipin|ipout|foreign|none> <denied 0|1>  — real TLS handshake
			if len(f) != 4 {
				vio.emit("bad-op")
				continue
			}
			if rig == nil {
				rig = vfNewTLSRig(t, state, shapes)
				defer rig.srv.Close()
			}
			vio.emit("%s", rig.probe(t, state, shapes, f[1], f[2], f[3] == "1"))
		case "cfgdeny":
			n, err := strconv.Atoi(f[1])
			if err != nil || n < 1 {
				vio.emit("bad-op")
				continue
			}
			vio.emit("%s", vfCfgDenyProbe(t, n))
		case "rt":
			// rt <path> <webui csv|-> <7 shape tokens>
			if len(f) != 10 {
				vio.emit("bad-op")
				continue
			}
			vio.emit("%s", vfProbeRoute(t, state, shapes, f[1], f[2], f[3:]))
		default:
			vio.emit("bad-op")
		}
	}
}

// vfC06CheckAuth calls the real checkAuth and renders what it did.
func vfC06CheckAuth(state *RuntimeState, req *http.Request, mask int) (out string) {
	w := &vfTrackRW{ResponseRecorder: httptest.NewRecorder()}
	defer func() {
		if p := recover(); p != nil {
			out = "panic"
		}
	}()
	info, err := state.checkAuth(w, req, mask)
	return vfCheckAuthOut(info, err, w)
}

// vfC06Overlap: checkAuth(A) is started and parks inside the password backend (if it gets that far); checkAuth(B) runs
// meanwhile; then the backend answers A. Each result is reported on its own.
func vfC06Overlap(state *RuntimeState, shapes *vfShapes, mask int, a, b []string) string {
	for _, tok := range [][]string{a, b} {
		// state shared by both requests (backend down, closed limiter, deny list) is not varied inside a pair
		if tok[5] == "error" || tok[6] != "1" || strings.HasSuffix(tok[3], ":denied") {
			return "bad-op"
		}
	}
	reqA, okA := shapes.build(a, "/some/path")
	reqB, okB := shapes.build(b, "/some/path")
	if !okA || !okB {
		return "bad-op"
	}
	real := state.passwordChecker
	park := &vfParkPw{inner: real, armed: 1, entered: make(chan struct{}), release: make(chan struct{})}
	state.passwordChecker = park
	defer func() { state.passwordChecker = real }()
	call := func(req *http.Request) chan string {
		done := make(chan string, 1)
		go func() { done <- vfC06CheckAuth(state, req, mask) }()
		return done
	}
	wait := func(done chan string, d time.Duration) string {
		select {
		case out := <-done:
			return out
		case <-time.After(d):
			return ""
		}
	}
	var outA, outB string
	doneA := call(reqA)
	select {
	case <-park.entered:
	case outA = <-doneA:
		atomic.StoreInt32(&park.armed, 0) // A never asked the backend: nobody is parked
	case <-time.After(30 * time.Second):
		outA = "hung"
	}
	doneB := call(reqB)
	outB = wait(doneB, 250*time.Millisecond) // empty: B is waiting for something; let the backend answer A
	close(park.release)
	if outA == "" {
		if outA = wait(doneA, 30*time.Second); outA == "" {
			outA = "hung"
		}
	}
	if outB == "" {
		if outB = wait(doneB, 30*time.Second); outB == "" {
			outB = "hung"
		}
	}
	return outA + " | " + outB
}

// vfC06Expiry: every `caexp` op of the run in two passes (all first presentations, one sleep past the latest expiry,
// then the SAME cookie values again).
func vfC06Expiry(state *RuntimeState, shapes *vfShapes, ops []string) map[int]string {
	type item struct {
		idx    int
		mask   int
		tok    []string
		cookie string
		out1   string
	}
	res := map[int]string{}
	var items []*item
	var latest int64
	for i, line := range ops {
		f := strings.Fields(line)
		if len(f) == 0 || f[0] != "caexp" {
			continue
		}
		mask, err := 0, error(nil)
		if len(f) == 9 {
			mask, err = strconv.Atoi(f[1])
		}
		if len(f) != 9 || err != nil || len(strings.Split(f[6], ":")) != 8 || strings.Split(f[6], ":")[5] != "soon" {
			res[i] = "bad-op"
			continue
		}
		it := &item{idx: i, mask: mask, tok: f[2:]}
		for attempt := 0; attempt < 6; attempt++ {
			req, ok := shapes.build(f[2:], "/some/path")
			if !ok {
				it.out1 = "bad-op"
				break
			}
			c, err := req.Cookie(authCookieName)
			if err != nil {
				it.out1 = "bad-op"
				break
			}
			exp := shapes.lastSoonExp
			out := vfC06CheckAuth(state, req, mask)
			if time.Now().Unix() >= exp {
				it.out1 = "harness-late" // the machine was too slow: the first presentation may have been late
				continue
			}
			it.cookie, it.out1 = c.Value, out
			if exp > latest {
				latest = exp
			}
			break
		}
		if it.cookie == "" {
			res[i] = it.out1
			continue
		}
		items = append(items, it)
	}
	if len(items) == 0 {
		return res
	}
	time.Sleep(time.Until(time.Unix(latest+1, 0).Add(200 * time.Millisecond)))
	for _, it := range items {
		tok := append([]string{}, it.tok...)
		tok[4] = "none"
		req, ok := shapes.build(tok, "/some/path")
		if !ok {
			res[it.idx] = "bad-op"
			continue
		}
		req.AddCookie(&http.Cookie{Name: authCookieName, Value: it.cookie})
		res[it.idx] = it.out1 + " | " + vfC06CheckAuth(state, req, it.mask)
	}
	return res
}

func vfDBDigest(t *testing.T, state *RuntimeState) string {
	h := sha256.New()
	for _, q := range []string{"select username, profile_data from user_profile order by username",
		"select username, type, jws_data, expiration_epoch from expiring_signed_user_data order by username, type"} {
		rows, err := state.db.Query(q)
		if err != nil {
			t.Fatal(err)
		}
		cols, _ := rows.Columns()
		for rows.Next() {
			vals := make([]interface{}, len(cols))
			ptrs := make([]interface{}, len(cols))
			for i := range vals {
				ptrs[i] = &vals[i]
			}
			rows.Scan(ptrs...)
			fmt.Fprintf(h, "%v|", vals)
		}
		rows.Close()
	}
	return fmt.Sprintf("%x", h.Sum(nil))[:16]
}

func vfSeedProfiles(t *testing.T, state *RuntimeState) {
	for _, u := range []string{"alice", "bob", "username"} {
		profile := &userProfile{}
		profile.U2fAuthData = map[int64]*u2fAuthData{} // a nil Registration would make the sign/register handlers panic
		profile.TOTPAuthData = map[int64]*totpAuthData{1: {Enabled: true, Name: "totp", EncryptedSecret: [][]byte{[]byte("x")}}}
		profile.WebauthnData = map[int64]*webauthAuthData{}
		if err := state.SaveUserProfile(u, profile); err != nil {
			t.Fatal(err)
		}
	}
}

// vfProbeRoute sends one request of the given shape to the handler registered for path and
// reports `<status> eff=<0|1> <detail>`: eff=1 when a protected effect was observed (session
// cookie set, signed material returned, profile DB changed, 2FA transaction state created).
func vfProbeRoute(t *testing.T, state *RuntimeState, shapes *vfShapes, path, webui string, tok []string) string {
	var route *vfRoute
	for _, r := range vfRouteTable(state) {
		if r.path == path {
			rr := r
			route = &rr
			break
		}
	}
	if route == nil {
		return "no-such-route"
	}
	if webui == "-" {
		state.Config.Base.AllowedAuthBackendsForWebUI = nil
	} else {
		state.Config.Base.AllowedAuthBackendsForWebUI = strings.Split(webui, ",")
	}
	state.Config.Base.AllowedAuthBackendsForCerts = []string{"password"}
	state.Config.SymantecVIP.Enabled = false
	// alice is an administrator and automation administrator: an admitted request then really
	// has an effect (user administration, role certificates), so a bypassed gate is observable
	state.Config.Base.AdminUsers = []string{"alice"}
	state.Config.Base.AutomationAdmins = []string{"alice"}
	if state.isAdminCache == nil {
		state.isAdminCache = admincache.New(5 * time.Minute)
	}
	vfSeedProfiles(t, state)
	url := path
	if strings.HasSuffix(path, "/") && path != "/" {
		switch path {
		case "/public/":
			url += "x509ca"
		case "/static/", "/static/compiled/", "/custom_static/":
		default:
			url += "alice"
		}
	}
	form := neturl.Values{}
	for k, v := range map[string]string{"username": "alice", "index": "1", "action": "Delete", "OTP": "123456",
		"name": "x", "login_destination": "/", "identity": "role1", "requestor_netblock": "10.0.0.0/8",
		"target_netblock": "10.0.0.0/8", "port": "1234", "token": "x", "user": "alice",
		"pubkey": shapes.b64Pub(), "duration": "1h", "password": "password"} {
		form.Set(k, v)
	}
	var body io.Reader
	if tok[0] != "GET" {
		body = strings.NewReader(form.Encode())
	} else {
		url += "?" + form.Encode()
	}
	req := httptest.NewRequest(tok[0], url, body)
	if tok[0] != "GET" {
		req.Header.Set("Content-Type", "application/x-www-form-urlencoded")
	}
	req, ok := shapes.decorate(tok, req)
	if !ok {
		return "bad-op"
	}
	before := vfDBDigest(t, state)
	state.Mutex.Lock()
	nb := len(state.vipPushCookie) + len(state.localAuthData)
	state.Mutex.Unlock()
	rr, p := vfServe(route.h, req)
	if p != nil {
		return "panic"
	}
	time.Sleep(0)
	var eff []string
	for _, c := range rr.Result().Cookies() {
		if c.Name == authCookieName && c.Value != "" {
			eff = append(eff, "cookie")
		}
	}
	b := rr.Body.String()
	if strings.Contains(b, "BEGIN CERTIFICATE") || strings.Contains(b, "-cert-v01@openssh.com") {
		eff = append(eff, "signed")
	}
	if vfDBDigest(t, state) != before {
		eff = append(eff, "db")
	}
	state.Mutex.Lock()
	na := len(state.vipPushCookie) + len(state.localAuthData)
	state.Mutex.Unlock()
	if na != nb {
		eff = append(eff, "2fa-state")
	}
	e := "0"
	if len(eff) > 0 {
		e = "1"
	}
	code := rr.Code
	return fmt.Sprintf("%d eff=%s %s", code, e, strings.Join(eff, ","))
}

// vfCfgDenyProbe: at least n fresh keys whose fingerprints between them start with every hex digit are written
// into denytrustdata.key_deny_list_ssh_sha256 of a configuration FILE, exactly as getKeyFingerprint prints them;
// the file is read by the real loader. A keymaster-signed user certificate and an IP-restricted certificate
// (presented from inside its block) over each listed key must be refused by checkAuth; two unlisted keys are
// the control. `admitted=<first digits of listed keys admitted|-> ipadmitted=<…> control=<k>/2`.
func vfCfgDenyProbe(t *testing.T, n int) string {
	loader, err := vfConfigLoader(t)
	if err != nil {
		return "harness-error " + err.Error()
	}
	type kp struct {
		pub crypto.PublicKey
		fp  string
	}
	var listed []kp
	seen := map[byte]bool{}
	for len(listed) < n || len(seen) < 16 {
		pub, _, err := ed25519.GenerateKey(rand.Reader)
		if err != nil {
			return "harness-error keygen"
		}
		fp, err := getKeyFingerprint(pub)
		if err != nil {
			return "harness-error fingerprint"
		}
		if len(listed) >= n && seen[fp[0]] {
			continue
		}
		seen[fp[0]] = true
		listed = append(listed, kp{pub, fp})
	}
	var list []interface{}
	for _, k := range listed {
		list = append(list, k.fp)
	}
	state, err := loader.load(map[string]interface{}{
		"denytrustdata.key_deny_list_ssh_sha256": list,
		"base.automation_users":                  []interface{}{"role1"},
	}, true)
	if err != nil {
		return "load-error " + strings.Join(strings.Fields(err.Error()), "_")
	}
	kmCA, err1 := x509.ParseCertificate(state.caCertDer[len(state.caCertDer)-1])
	roleCA, err2 := x509.ParseCertificate(state.selfRoleCaCertDer)
	if err1 != nil || err2 != nil {
		return "harness-error ca"
	}
	_, block, _ := net.ParseCIDR("10.0.0.0/8")
	probe := func(pub crypto.PublicKey, ip bool) bool {
		var der []byte
		var err error
		ca := kmCA
		if ip {
			ca = roleCA
			der, err = certgen.GenIPRestrictedX509Cert("role1", pub, roleCA, state.Signer, []net.IPNet{*block}, time.Hour, nil, nil)
		} else {
			der, err = certgen.GenUserX509Cert("alice", pub, kmCA, state.Signer, nil, time.Hour, nil, nil, nil, logger)
		}
		if err != nil {
			t.Fatal(err)
		}
		leaf, err := x509.ParseCertificate(der)
		if err != nil {
			t.Fatal(err)
		}
		req := httptest.NewRequest("POST", "/some/path", nil)
		req.RemoteAddr = "10.1.2.3:4321"
		req.TLS = &tls.ConnectionState{VerifiedChains: [][]*x509.Certificate{{leaf, ca}}, PeerCertificates: []*x509.Certificate{leaf}}
		w := &vfTrackRW{ResponseRecorder: httptest.NewRecorder()}
		admitted := false
		func() {
			defer func() { recover() }()
			info, err := state.checkAuth(w, req, 65535)
			admitted = err == nil && info != nil
		}()
		return admitted
	}
	var adm, ipadm []string
	for _, k := range listed {
		if probe(k.pub, false) {
			adm = append(adm, k.fp[:1])
		}
		if probe(k.pub, true) {
			ipadm = append(ipadm, k.fp[:1])
		}
	}
	control := 0
	cpub, _, _ := ed25519.GenerateKey(rand.Reader)
	if probe(cpub, false) {
		control++
	}
	if probe(cpub, true) {
		control++
	}
	join := func(l []string) string {
		if len(l) == 0 {
			return "-"
		}
		sort.Strings(l)
		return strings.Join(l, ",")
	}
	return fmt.Sprintf("admitted=%s ipadmitted=%s control=%d/2", join(adm), join(ipadm), control)
}
