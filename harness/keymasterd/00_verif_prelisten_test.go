package main

// cmd/keymasterd's own auth_oauth2_test.go init() starts its fake OAuth2 provider with
// `go http.ListenAndServe("127.0.0.1:12345", nil)`, sleeps 20 ms and log.Fatal()s when the port does
// not answer yet: on a loaded machine the goroutine has not bound the socket by then and the whole
// test binary (hence every harness in this package) dies before any test runs. This file sorts
// before every file of the package, so its init() runs first and binds the same address
// synchronously, serving the same http.DefaultServeMux the repository's init() registers its
// handlers on; the repository's own ListenAndServe then fails with "address in use" inside its
// goroutine, which it ignores. If the order ever differs, the Listen below fails and nothing changes.

import (
	"net"
	"net/http"
)

func init() {
	ln, err := net.Listen("tcp", "127.0.0.1:12345")
	if err == nil {
		go http.Serve(ln, nil)
	}
}
