package main

import (
	"bytes"
	"crypto/x509"
	"crypto"
	"crypto/dsa"
	"crypto/ecdsa"
	"crypto/ed25519"
	"crypto/rand"
	"crypto/rsa"
	"encoding/pem"
	"fmt"
	"io"
	"mime/multipart"
	"net/http"
	"net/http/httptest"
	"os"
	"path/filepath"
	"strconv"
	"strings"
	"sync/atomic"
	"testing"
	"time"

	"github.com/Cloud-Foundations/keymaster/keymasterd/eventnotifier"
	"github.com/Cloud-Foundations/keymaster/lib/instrumentedwriter"
	"github.com/Cloud-Foundations/keymaster/lib/webapi/v0/proto"
	"golang.org/x/crypto/openpgp"
	"golang.org/x/crypto/openpgp/armor"
	"golang.org/x/crypto/ssh"
)

// TestVerifC19 (stream `s` of the C19 driver): the server side of the key offer.
//
//	s getvalid <hex key file>           real getValidSSHPublicKey
//	                                    -> <ok|badRe|unparseable|weak|internal> <what ssh.ParseAuthorizedKey made of it: kind:bits:e | none>
//	s certgen <type> <ed25519 CA 0|1> <hex key file>
//	                                    real certGenHandler, authenticated POST -> <status>
//	s cfgcertgen <type> <ed25519 CA 0|1> <hex key file>
//	                                    the same request on a state built the way the daemon builds it: configuration
//	                                    file (with base.ed25519_ca_keyfilename pointing at a sealed Ed25519 key when
//	                                    asked) read by the real loadVerifyConfigFile, signers loaded by the real
//	                                    unsealCA / loadSignersFromPemData -> <status>
//	s serve <dir> <ed25519 CA 0|1> <max seconds>
//	                                    TLS server with the real login and certgen handlers for the client
//	                                    harness process; writes <dir>/addr and <dir>/ca.pem, runs until
//	                                    <dir>/stop exists -> served logins=<n> certgen200=<n> certgenOther=<n>
func vfC19KeyDesc(pub crypto.PublicKey) string {
	switch k := pub.(type) {
	case *rsa.PublicKey:
		return fmt.Sprintf("rsa:%d:%d", k.N.BitLen(), k.E)
	case *ecdsa.PublicKey:
		return fmt.Sprintf("ecdsa:%d:0", k.Curve.Params().BitSize)
	case ed25519.PublicKey:
		return "ed25519:256:0"
	case *dsa.PublicKey:
		return fmt.Sprintf("dsa:%d:0", k.P.BitLen())
	}
	return "other:0:0"
}

func vfC19Parsed(line string) string {
	pk, _, _, _, err := ssh.ParseAuthorizedKey([]byte(line))
	if err != nil {
		return "none"
	}
	if cpk, ok := pk.(ssh.CryptoPublicKey); ok {
		return vfC19KeyDesc(cpk.CryptoPublicKey())
	}
	return "other:0:0"
}

func vfC19Certgen(t *testing.T, state *RuntimeState, certType string, keyfile string) int {
	body := &bytes.Buffer{}
	mw := multipart.NewWriter(body)
	fw, _ := mw.CreateFormFile("pubkeyfile", "somefilename.pub")
	io.WriteString(fw, keyfile)
	mw.WriteField("duration", "1h")
	mw.Close()
	req := httptest.NewRequest("POST", certgenPath+"username?type="+certType, body)
	req.Header.Set("Content-Type", mw.FormDataContentType())
	req.AddCookie(vfAuthCookie(t, state, "username", AuthTypePassword))
	rr, p := vfServe(state.certGenHandler, req)
	if p != nil {
		return 599
	}
	return rr.Code
}

func TestVerifC19(t *testing.T) {
	vio := vfOpen(t)
	defer vio.close()
	state, cleanup := vfNewState(t)
	defer cleanup()
	eventNotifier = eventnotifier.New(logger)
	state.Config.Base.AllowedAuthBackendsForCerts = []string{proto.AuthTypePassword}
	state.Config.Base.AllowedAuthBackendsForWebUI = []string{proto.AuthTypePassword}
	_, edCA, err := ed25519.GenerateKey(rand.Reader)
	if err != nil {
		t.Fatal(err)
	}
	setCA := func(on string) {
		if on == "1" {
			state.Ed25519Signer = edCA
		} else {
			state.Ed25519Signer = nil
		}
	}
	for _, line := range vio.ops {
		f := strings.Fields(line)
		if len(f) < 2 || f[0] != "s" {
			vio.emit("bad-op")
			continue
		}
		f = f[1:]
		switch {
		case f[0] == "getvalid" && len(f) == 2:
			s, ok := vfUnhex(f[1])
			if !ok {
				vio.emit("bad-op")
				continue
			}
			verdict := "ok"
			func() {
				defer func() {
					if p := recover(); p != nil {
						verdict = "panic"
					}
				}()
				key, userErr, err := getValidSSHPublicKey(s)
				switch {
				case err != nil:
					verdict = "internal"
				case userErr != nil && strings.Contains(userErr.Error(), "bad re"):
					verdict = "badRe"
				case userErr != nil && strings.Contains(userErr.Error(), "unparseable"):
					verdict = "unparseable"
				case userErr != nil && strings.Contains(userErr.Error(), "Key strength"):
					verdict = "weak"
				case userErr != nil:
					verdict = "other-user-error"
				case key == nil:
					verdict = "nil-key"
				}
			}()
			vio.emit("%s %s", verdict, vfC19Parsed(s))
		case f[0] == "certgen" && len(f) == 4:
			s, ok := vfUnhex(f[3])
			if !ok {
				vio.emit("bad-op")
				continue
			}
			setCA(f[2])
			vio.emit("%d", vfC19Certgen(t, state, f[1], s))
		case f[0] == "cfgcertgen" && len(f) == 4:
			s, ok := vfUnhex(f[3])
			if !ok {
				vio.emit("bad-op")
				continue
			}
			st, err := vfC19LoadedState(t, f[2] == "1")
			if err != nil {
				vio.emit("load-error %s", strings.Join(strings.Fields(err.Error()), "_"))
				continue
			}
			vio.emit("%d", vfC19Certgen(t, st, f[1], s))
		case f[0] == "serve" && len(f) == 4:
			setCA(f[2])
			if st, err := vfC19LoadedState(t, f[2] == "1"); err == nil {
				state = st // the client talks to a server configured and unsealed like the daemon
			} else {
				t.Logf("loader-built state unavailable, serving the hand-built one: %v", err)
			}
			maxSecs, _ := strconv.Atoi(f[3])
			var logins, ok200, other int64
			mux := http.NewServeMux()
			mux.HandleFunc("/", func(w http.ResponseWriter, r *http.Request) { fmt.Fprint(w, "keymaster") })
			mux.HandleFunc(proto.LoginPath, state.loginHandler)
			mux.HandleFunc(certgenPath, state.certGenHandler)
			logging := instrumentedwriter.NewLoggingHandler(mux, httpLogger{})
			srv := httptest.NewUnstartedServer(http.HandlerFunc(func(w http.ResponseWriter, r *http.Request) {
				rec := &vfStatusWriter{ResponseWriter: w, code: 200}
				logging.ServeHTTP(rec, r)
				switch {
				case r.URL.Path == proto.LoginPath:
					atomic.AddInt64(&logins, 1)
				case strings.HasPrefix(r.URL.Path, certgenPath) && rec.code == 200:
					atomic.AddInt64(&ok200, 1)
				case strings.HasPrefix(r.URL.Path, certgenPath):
					atomic.AddInt64(&other, 1)
				}
			}))
			srv.EnableHTTP2 = true
			srv.StartTLS()
			ca := pem.EncodeToMemory(&pem.Block{Type: "CERTIFICATE", Bytes: srv.Certificate().Raw})
			os.WriteFile(filepath.Join(f[1], "ca.pem"), ca, 0644)
			os.WriteFile(filepath.Join(f[1], "pid"), []byte(strconv.Itoa(os.Getpid())), 0644)
			os.WriteFile(filepath.Join(f[1], "addr.tmp"), []byte(srv.URL), 0644)
			os.Rename(filepath.Join(f[1], "addr.tmp"), filepath.Join(f[1], "addr"))
			deadline := time.Now().Add(time.Duration(maxSecs) * time.Second)
			for time.Now().Before(deadline) {
				if _, err := os.Stat(filepath.Join(f[1], "stop")); err == nil {
					break
				}
				time.Sleep(50 * time.Millisecond)
			}
			srv.Close()
			vio.emit("served logins=%d certgen200=%d certgenOther=%d", logins, ok200, other)
		default:
			vio.emit("bad-op")
		}
	}
}

// vfStatusWriter sits outside the instrumentedwriter wrapper (the handlers type-assert their
// ResponseWriter to *instrumentedwriter.LoggingWriter).
type vfStatusWriter struct {
	http.ResponseWriter
	code int
}

func (w *vfStatusWriter) WriteHeader(code int) {
	w.code = code
	w.ResponseWriter.WriteHeader(code)
}

// vfC19LoadedState: configuration file + real loader + real unseal; with an Ed25519 CA the operator
// configured (a PKCS#8 Ed25519 key sealed with the same passphrase as the main CA key).
func vfC19LoadedState(t *testing.T, withEd25519CA bool) (*RuntimeState, error) {
	loader, err := vfConfigLoader(t)
	if err != nil {
		return nil, err
	}
	settings := map[string]interface{}{
		"base.allowed_auth_backends_for_certs": []interface{}{proto.AuthTypePassword},
		"base.allowed_auth_backends_for_webui": []interface{}{proto.AuthTypePassword},
	}
	if withEd25519CA {
		path := filepath.Join(loader.dir, "vf-c19-ed25519-ca.key")
		if _, err := os.Stat(path); err != nil {
			_, priv, err := ed25519.GenerateKey(rand.Reader)
			if err != nil {
				return nil, err
			}
			der, err := x509.MarshalPKCS8PrivateKey(priv)
			if err != nil {
				return nil, err
			}
			var buf bytes.Buffer
			aw, err := armor.Encode(&buf, "PGP MESSAGE", nil)
			if err != nil {
				return nil, err
			}
			pw, err := openpgp.SymmetricallyEncrypt(aw, []byte(vfCfgPassphrase), nil, nil)
			if err != nil {
				return nil, err
			}
			if err := pem.Encode(pw, &pem.Block{Type: "PRIVATE KEY", Bytes: der}); err != nil {
				return nil, err
			}
			pw.Close()
			aw.Close()
			if err := os.WriteFile(path, buf.Bytes(), 0600); err != nil {
				return nil, err
			}
		}
		settings["base.ed25519_ca_keyfilename"] = path
	}
	st, err := loader.load(settings, true)
	if err != nil {
		return nil, err
	}
	if withEd25519CA && st.Ed25519Signer == nil {
		return nil, fmt.Errorf("the loader did not install the configured Ed25519 CA")
	}
	return st, nil
}
