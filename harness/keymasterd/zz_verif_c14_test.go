package main

// C14 harness: (1) the real x/time/rate limiter on synthetic timestamps, (2) bursts of password
// attempts through the real entry points against a counting backend, (3) the per-user TOTP limiter
// through the real validateUserTOTP / TOTP handlers with the clock advanced by shifting the stored
// timestamps backwards (every comparison in that function is relative to time.Now()).

import (
	"bufio"
	"fmt"
	"io/ioutil"
	"math"
	"net/http"
	"net/http/httptest"
	"net/url"
	"os"
	"path/filepath"
	"runtime"
	"sort"
	"strconv"
	"strings"
	"sync"
	"testing"
	"time"

	"github.com/Cloud-Foundations/golib/pkg/log/testlogger"
	"github.com/Cloud-Foundations/keymaster/lib/simplestorage"
	"github.com/Cloud-Foundations/keymaster/lib/webapi/v0/proto"
	"github.com/pquerna/otp/totp"
	"golang.org/x/time/rate"
)

// vfCountingAuth is a password backend that records who was looked up.
type vfCountingAuth struct {
	mu    sync.Mutex
	seen  map[string]int
	calls int
}

func (c *vfCountingAuth) PasswordAuthenticate(username string, password []byte) (bool, error) {
	c.mu.Lock()
	c.seen[username]++
	c.calls++
	c.mu.Unlock()
	return string(password) == "right-"+username, nil
}

func (c *vfCountingAuth) UpdateStorage(storage simplestorage.SimpleStore) error { return nil }

func (c *vfCountingAuth) reached(username string) bool {
	c.mu.Lock()
	defer c.mu.Unlock()
	return c.seen[username] > 0
}

// vfC14Variants: everything about a request that the client chooses freely and that has nothing to
// do with the password being guessed. The throttle must count the attempt whatever these say.
var vfC14Variants = []struct {
	name  string
	dress func(r *http.Request)
}{
	{"plain", func(r *http.Request) {}},
	{"host-noport", func(r *http.Request) { r.Host = "keymaster.example.com" }},
	{"host-service-port", func(r *http.Request) { r.Host = "keymaster.example.com:443" }},
	{"host-admin-port", func(r *http.Request) { r.Host = "keymaster.example.com:6920" }},
	{"host-other-port", func(r *http.Request) { r.Host = "keymaster.example.com:8080" }},
	{"host-v6-port", func(r *http.Request) { r.Host = "[::1]:6920" }},
	{"host-localhost", func(r *http.Request) { r.Host = "localhost"; r.RemoteAddr = "127.0.0.1:40000" }},
	{"browser", func(r *http.Request) {
		r.Header.Set("Accept", "text/html,application/xhtml+xml")
		r.Header.Set("User-Agent", "Mozilla/5.0 Chrome/120.0")
	}},
	{"cli", func(r *http.Request) { r.Header.Set("User-Agent", "keymaster/1.15.0"); r.Header.Set("Accept", "*/*") }},
	{"forwarded", func(r *http.Request) {
		r.Header.Set("X-Forwarded-For", "127.0.0.1")
		r.Header.Set("X-Real-Ip", "10.0.0.1")
		r.Header.Set("Forwarded", "for=127.0.0.1;host=keymaster.example.com:6920;proto=https")
		r.RemoteAddr = "10.1.2.3:1234"
	}},
	{"query", func(r *http.Request) { r.URL.RawQuery = "port=6920&admin=1&nolimit=true" }},
}

// one password attempt through an entry point, dressed as variant `variant`; returns the status code
func vfC14AttemptAs(state *RuntimeState, entry, user, pass string, variant int) int {
	dress := vfC14Variants[variant%len(vfC14Variants)].dress
	var rr *httptest.ResponseRecorder
	var p interface{}
	switch entry {
	case "login":
		form := url.Values{}
		form.Set("username", user)
		form.Set("password", pass)
		req := vfFormPost("/api/v0/login", form)
		req.Header.Set("Accept", "application/json")
		dress(req)
		rr, p = vfServe(state.loginHandler, req)
	case "loginbasic":
		req := httptest.NewRequest("POST", "/api/v0/login", nil)
		req.SetBasicAuth(user, pass)
		dress(req)
		rr, p = vfServe(state.loginHandler, req)
	case "certgen":
		req := httptest.NewRequest("POST", "/certgen/"+user, nil)
		req.SetBasicAuth(user, pass)
		dress(req)
		rr, p = vfServe(state.certGenHandler, req)
	case "checkauth":
		req := httptest.NewRequest("GET", "/whatever", nil)
		req.SetBasicAuth(user, pass)
		dress(req)
		rr, p = vfServe(func(w http.ResponseWriter, r *http.Request) {
			if _, err := state.checkAuth(w, r, AuthTypePassword); err == nil {
				w.WriteHeader(http.StatusNoContent)
			}
		}, req)
	case "routes":
		// every handler main() registers, in turn: whichever of them looks at a password must do so
		// behind the limiter
		routes := vfRouteTable(state)
		rt := routes[(variant/len(vfC14Variants))%len(routes)]
		target := rt.path
		if strings.HasSuffix(target, "/") && target != "/" {
			target += user
		}
		method := "GET"
		if (variant/len(vfC14Variants)/len(routes))%2 == 1 {
			method = "POST"
		}
		req := httptest.NewRequest(method, target, nil)
		req.SetBasicAuth(user, pass)
		dress(req)
		rr, p = vfServe(rt.h, req)
	default:
		return -2
	}
	if p != nil {
		return -1
	}
	return rr.Code
}

// one password attempt through an entry point; returns the status code
func vfC14Attempt(state *RuntimeState, entry, user, pass string) int {
	var rr *httptest.ResponseRecorder
	var p interface{}
	switch entry {
	case "login":
		form := url.Values{}
		form.Set("username", user)
		form.Set("password", pass)
		req := vfFormPost("/api/v0/login", form)
		req.Header.Set("Accept", "application/json")
		rr, p = vfServe(state.loginHandler, req)
	case "loginbasic":
		req := httptest.NewRequest("POST", "/api/v0/login", nil)
		req.SetBasicAuth(user, pass)
		rr, p = vfServe(state.loginHandler, req)
	case "certgen":
		req := httptest.NewRequest("POST", "/certgen/"+user, nil)
		req.SetBasicAuth(user, pass)
		rr, p = vfServe(state.certGenHandler, req)
	case "checkauth":
		req := httptest.NewRequest("GET", "/whatever", nil)
		req.SetBasicAuth(user, pass)
		rr, p = vfServe(func(w http.ResponseWriter, r *http.Request) {
			if _, err := state.checkAuth(w, r, AuthTypePassword); err == nil {
				w.WriteHeader(http.StatusNoContent)
			}
		}, req)
	default:
		return -2
	}
	if p != nil {
		return -1
	}
	return rr.Code
}

// burst <entry> <seq|conc> <n> <rateMilli> <burst> <pause_ms>
func vfC14Burst(state *RuntimeState, f []string, serial int) string {
	n, _ := strconv.Atoi(f[3])
	rateMilli, _ := strconv.Atoi(f[4])
	burst, _ := strconv.Atoi(f[5])
	pauseMs, _ := strconv.Atoi(f[6])
	state.passwordAttemptGlobalLimiter = rate.NewLimiter(rate.Limit(float64(rateMilli)/1000), burst)
	return vfC14RunBurst(state, f[1], f[2], n, pauseMs, serial)
}

// n attempts through `entry` against a fresh counting backend, with whatever limiter the state has
func vfC14RunBurst(state *RuntimeState, entry, mode string, n, pauseMs, serial int) string {
	f := []string{"", entry, mode}
	backend := &vfCountingAuth{seen: map[string]int{}}
	state.passwordChecker = backend
	codes := make([]int, n)
	users := make([]string, n)
	for i := range users {
		users[i] = fmt.Sprintf("b%dn%d", serial, i)
	}
	one := func(i int) {
		pass := "wrong"
		if i%7 == 3 {
			pass = "right-" + users[i]
		}
		codes[i] = vfC14AttemptAs(state, f[1], users[i], pass, i+serial)
	}
	start := time.Now()
	if f[2] == "conc" {
		const workers = 16
		var wg sync.WaitGroup
		for w := 0; w < workers; w++ {
			wg.Add(1)
			go func(w int) {
				defer wg.Done()
				for i := w; i < n; i += workers {
					one(i)
				}
			}(w)
		}
		wg.Wait()
	} else {
		for i := 0; i < n; i++ {
			if i == n/2 && pauseMs > 0 {
				time.Sleep(time.Duration(pauseMs) * time.Millisecond)
			}
			one(i)
		}
	}
	elapsed := time.Since(start)
	nBackend, n429, bad, other := 0, 0, 0, 0
	hist := map[int]int{}
	sent := make([]int, len(vfC14Variants))
	got := make([]int, len(vfC14Variants))
	for i := range users {
		hist[codes[i]]++
		r := backend.reached(users[i])
		sent[(i+serial)%len(vfC14Variants)]++
		if r {
			got[(i+serial)%len(vfC14Variants)]++
		}
		switch {
		case r && codes[i] != http.StatusTooManyRequests && codes[i] > 0:
			nBackend++
		case !r && codes[i] == http.StatusTooManyRequests:
			n429++
		case !r && entry == "routes":
			other++ // this handler, for this request, did not get as far as a password
		default:
			bad++
		}
	}
	var hs []string
	for c, k := range hist {
		hs = append(hs, fmt.Sprintf("%d:%d", c, k))
	}
	sort.Strings(hs)
	var vs []string
	for v := range vfC14Variants {
		vs = append(vs, fmt.Sprintf("%s:%d/%d", vfC14Variants[v].name, got[v], sent[v]))
	}
	return fmt.Sprintf("backend=%d r429=%d bad=%d other=%d calls=%d elapsed_ns=%d codes=%s reached_by_request_variant=%s", nBackend, n429, bad, other,
		backend.calls, elapsed.Nanoseconds(), strings.Join(hs, ","), strings.Join(vs, ","))
}

// vfC14Cfg builds RuntimeStates the way the daemon does: a config file on disk, read by the real
// loadVerifyConfigFile. The file is generated once by the repo's own -generateConfig code.
type vfC14Cfg struct {
	t    *testing.T
	dir  string
	file string
	base string // generated config text without the two limiter settings
}

func (c *vfC14Cfg) init() error {
	if c.base != "" {
		return nil
	}
	dir, err := ioutil.TempDir("", "vfc14cfg")
	if err != nil {
		return err
	}
	c.dir = dir
	c.file = filepath.Join(dir, "config.yml")
	reader := bufio.NewReader(strings.NewReader(dir + "\n\n\n\n\n\n\n\n\n\n\n\n\n\n\n\n"))
	if err := generateNewConfigInternal(reader, c.file, 2048, []byte("passphrase")); err != nil {
		return err
	}
	if err := os.MkdirAll(filepath.Join(dir, "var/lib/keymaster"), 0750); err != nil {
		return err
	}
	text, err := ioutil.ReadFile(c.file)
	if err != nil {
		return err
	}
	var keep []string
	for _, l := range strings.Split(string(text), "\n") {
		if strings.Contains(l, "password_attempt_global_burst_limit:") || strings.Contains(l, "password_attempt_global_rate_limit:") {
			continue
		}
		keep = append(keep, l)
	}
	c.base = strings.Join(keep, "\n")
	if !strings.HasPrefix(c.base, "base:\n") {
		return fmt.Errorf("generated config does not start with base:")
	}
	return nil
}

// load writes the config with the given settings ("-" = not set in the file) and loads it
func (c *vfC14Cfg) load(rateMilli, burst string) (*RuntimeState, error) {
	if err := c.init(); err != nil {
		return nil, err
	}
	extra := ""
	if burst != "-" {
		extra += "  password_attempt_global_burst_limit: " + burst + "\n"
	}
	if rateMilli != "-" {
		r, err := strconv.Atoi(rateMilli)
		if err != nil {
			return nil, err
		}
		extra += "  password_attempt_global_rate_limit: " + strconv.FormatFloat(float64(r)/1000, 'f', -1, 64) + "\n"
	}
	text := "base:\n" + extra + strings.TrimPrefix(c.base, "base:\n")
	if err := ioutil.WriteFile(c.file, []byte(text), 0640); err != nil {
		return nil, err
	}
	state, err := loadVerifyConfigFile(c.file, testlogger.New(c.t))
	if err != nil {
		return nil, err
	}
	signer, err := getSignerFromPEMBytes([]byte(testSignerPrivateKey))
	if err != nil {
		return nil, err
	}
	state.Mutex.Lock()
	state.Signer = signer
	state.Mutex.Unlock()
	return state, nil
}

// cfgburst <entry> <seq|conc> <n> <rateMilli|-> <burst|-> <pause_ms>: the limiter is whatever the real
// config loader built from a file with these settings
func (c *vfC14Cfg) burst(f []string, serial int) string {
	n, e1 := strconv.Atoi(f[3])
	pauseMs, e2 := strconv.Atoi(f[6])
	if e1 != nil || e2 != nil {
		return "bad-op"
	}
	state, err := c.load(f[4], f[5])
	if err != nil {
		return "err " + strings.Join(strings.Fields(err.Error()), "_")
	}
	lim := state.passwordAttemptGlobalLimiter
	res := vfC14RunBurst(state, f[1], f[2], n, pauseMs, serial)
	select {
	case state.dbDone <- struct{}{}:
	default:
	}
	return fmt.Sprintf("%s lim_burst=%d lim_rate_milli=%d", res, lim.Burst(), int64(math.Round(float64(lim.Limit())*1000)))
}

type vfC14User struct {
	secret   string
	disabled string
	cookie   *http.Cookie
}

type vfC14Totp struct {
	t        *testing.T
	state    *RuntimeState
	prefix   string
	users    map[string]*vfC14User
	prevReal time.Time
	cleaners int
}

func (v *vfC14Totp) user(name string) *vfC14User {
	if u, ok := v.users[name]; ok {
		return u
	}
	full := v.prefix + name
	mk := func() (string, [][]byte) {
		key, err := totp.Generate(totp.GenerateOpts{Issuer: "keymaster-totp", AccountName: full})
		if err != nil {
			v.t.Fatal(err)
		}
		enc, err := v.state.encryptWithPublicKeys([]byte(key.Secret()))
		if err != nil {
			v.t.Fatal(err)
		}
		return key.Secret(), enc
	}
	profile, _, _, err := v.state.LoadUserProfile(full)
	if err != nil {
		v.t.Fatal(err)
	}
	s1, e1 := mk()
	s2, e2 := mk()
	profile.TOTPAuthData[1] = &totpAuthData{CreatedAt: time.Now(), EncryptedSecret: e1, Enabled: true}
	profile.TOTPAuthData[2] = &totpAuthData{CreatedAt: time.Now(), EncryptedSecret: e2, Enabled: false}
	if err := v.state.SaveUserProfile(full, profile); err != nil {
		v.t.Fatal(err)
	}
	u := &vfC14User{secret: s1, disabled: s2, cookie: vfAuthCookie(v.t, v.state, full, AuthTypePassword)}
	v.users[name] = u
	return u
}

// the code to submit, relative to the time step of `at` (the step validateUserTOTP derives from its
// t argument): the enabled device's code of that step (good), of the step before (prev) or after
// (next), a code that is right only for the disabled device (dis), or one that fits nothing (bad).
// ok=false: the wanted code happens to coincide with the code of an earlier-tried step.
func (u *vfC14User) code(kind string, at time.Time) (int, bool) {
	gen := func(secret string, d time.Duration) string {
		c, _ := totp.GenerateCode(secret, at.Add(d))
		return c
	}
	cur, prev, next := gen(u.secret, 0), gen(u.secret, -30*time.Second), gen(u.secret, 30*time.Second)
	valid := map[string]bool{cur: true, prev: true, next: true}
	num := func(c string) int {
		n, _ := strconv.Atoi(c)
		return n
	}
	switch kind {
	case "good":
		return num(cur), true
	case "prev":
		return num(prev), prev != cur
	case "next":
		return num(next), next != cur && next != prev
	case "dis":
		if c := gen(u.disabled, 0); !valid[c] {
			return num(c), true
		}
	}
	for n := 123456; ; n++ {
		if !valid[fmt.Sprintf("%06d", n)] {
			return n, true
		}
	}
}

// advance the clock seen by validateUserTOTP by `gap` seconds since the previous op: every stored
// timestamp moves back by gap minus the real time that has passed meanwhile.
func (v *vfC14Totp) advance(gapSecs int64) time.Time {
	realNow := time.Now()
	d := time.Duration(gapSecs) * time.Second
	if !v.prevReal.IsZero() {
		d -= realNow.Sub(v.prevReal)
	}
	v.prevReal = realNow
	sh := func(t time.Time) time.Time {
		if t.IsZero() {
			return t
		}
		return t.Add(-d)
	}
	v.state.totpLocalTateLimitMutex.Lock()
	for k, rl := range v.state.totpLocalRateLimit {
		rl.lastCheckTime = sh(rl.lastCheckTime)
		rl.lastFailTime = sh(rl.lastFailTime)
		rl.lockoutExpirationTime = sh(rl.lockoutExpirationTime)
		v.state.totpLocalRateLimit[k] = rl
	}
	v.state.totpLocalTateLimitMutex.Unlock()
	return realNow
}

func (v *vfC14Totp) snapshot(full string) totpRateLimitInfo {
	v.state.totpLocalTateLimitMutex.Lock()
	defer v.state.totpLocalTateLimitMutex.Unlock()
	return v.state.totpLocalRateLimit[full]
}

// clean <gap_s>: the clock advances, then one pass of the daemon's periodic state cleanup runs.
// performStateCleanup only exists as an endless loop (one pass, then sleep): it is started with a
// period of years and the op returns once every such goroutine has reached its sleep.
func (v *vfC14Totp) cleanup(f []string) string {
	gap, err := strconv.ParseInt(f[1], 10, 64)
	if err != nil || gap < 0 {
		return "bad-op"
	}
	v.advance(gap)
	v.state.totpLocalTateLimitMutex.Lock()
	before := len(v.state.totpLocalRateLimit)
	v.state.totpLocalTateLimitMutex.Unlock()
	v.cleaners++
	go v.state.performStateCleanup(100000000)
	deadline := time.Now().Add(20 * time.Second)
	buf := make([]byte, 1<<22)
	for {
		n := runtime.Stack(buf, true)
		asleep := 0
		for _, g := range strings.Split(string(buf[:n]), "\n\n") {
			if strings.Contains(g, ".performStateCleanup(") && strings.Contains(g, "0x5f5e100") && strings.Contains(strings.SplitN(g, "\n", 2)[0], "[sleep") {
				asleep++
			}
		}
		if asleep >= v.cleaners {
			break
		}
		if time.Now().After(deadline) {
			return "err cleanup-pass-did-not-finish"
		}
		time.Sleep(200 * time.Microsecond)
	}
	v.state.totpLocalTateLimitMutex.Lock()
	after := len(v.state.totpLocalRateLimit)
	v.state.totpLocalTateLimitMutex.Unlock()
	return fmt.Sprintf("clean entries_before=%d entries_after=%d", before, after)
}

func vfRoundSecs(d time.Duration) int64 { return int64(math.Floor(d.Seconds() + 0.5)) }

// att <user> <gap_s> <counter> <code> | hatt <user> <gap_s> <verify|auth> <code>
func (v *vfC14Totp) attempt(f []string) string {
	gap, err := strconv.ParseInt(f[2], 10, 64)
	if err != nil || gap < 0 {
		return "bad-op"
	}
	u := v.user(f[1])
	full := v.prefix + f[1]
	codeAt := time.Now()
	if f[0] == "att" {
		counter, err := strconv.ParseInt(f[3], 10, 64)
		if err != nil {
			return "bad-op"
		}
		codeAt = time.Unix(counter*30+1, 0)
	} else if f[4] == "prev" || f[4] == "next" {
		return "bad-op"
	}
	code, distinct := u.code(f[4], codeAt)
	if !distinct {
		return "collide"
	}
	began := time.Now()
	realNow := v.advance(gap)
	before := v.snapshot(full)
	var ret bool
	if f[0] == "att" {
		counter, err := strconv.ParseInt(f[3], 10, 64)
		if err != nil {
			return "bad-op"
		}
		var p interface{}
		func() {
			defer func() { p = recover() }()
			ret, err = v.state.validateUserTOTP(full, code, time.Unix(counter*30+1, 0))
		}()
		if p != nil {
			return "panic"
		}
		if err != nil {
			return "err"
		}
	} else {
		form := url.Values{}
		form.Set("OTP", fmt.Sprintf("%06d", code))
		var h http.HandlerFunc
		var path string
		var okCode, failCode int
		switch f[3] {
		case "verify":
			h, path, okCode, failCode = v.state.verifyTOTPHandler, totpVerifyHandlerPath, http.StatusFound, http.StatusOK
		case "auth":
			h, path, okCode, failCode = v.state.TOTPAuthHandler, totpAuthPath, http.StatusOK, http.StatusUnauthorized
		default:
			return "bad-op"
		}
		req := httptest.NewRequest("POST", path, strings.NewReader(form.Encode()))
		req.Header.Set("Content-Type", "application/x-www-form-urlencoded")
		req.AddCookie(u.cookie)
		rr, p := vfServe(h, req)
		switch {
		case p != nil:
			return "panic"
		case rr.Code == okCode:
			ret = true
		case rr.Code == failCode:
			ret = false
		default:
			return fmt.Sprintf("status%d", rr.Code)
		}
	}
	after := v.snapshot(full)
	took := time.Since(began)
	gate := !after.lastCheckTime.Equal(before.lastCheckTime)
	frec := !after.lastFailTime.Equal(before.lastFailTime)
	lock := int64(0)
	if after.lockoutExpirationTime.After(realNow) {
		lock = vfRoundSecs(after.lockoutExpirationTime.Sub(realNow))
	}
	lfAge := int64(-1)
	if !after.lastFailTime.IsZero() {
		lfAge = vfRoundSecs(realNow.Sub(after.lastFailTime))
	}
	slow := ""
	if took > 300*time.Millisecond {
		slow = " slow"
	}
	return fmt.Sprintf("%s %s %s %d %d %d%s", vfBool(ret), vfBool(gate), vfBool(frec), after.failCount, lock, lfAge, slow)
}

// catt <user> <gap_s> <counter> <n>: n goroutines submit the right code at the same moment
func (v *vfC14Totp) concurrent(f []string) string {
	gap, e1 := strconv.ParseInt(f[2], 10, 64)
	counter, e2 := strconv.ParseInt(f[3], 10, 64)
	n, e3 := strconv.Atoi(f[4])
	if e1 != nil || e2 != nil || e3 != nil || gap < 0 || n < 1 {
		return "bad-op"
	}
	u := v.user(f[1])
	full := v.prefix + f[1]
	code, _ := u.code("good", time.Unix(counter*30+1, 0))
	began := time.Now()
	realNow := v.advance(gap)
	before := v.snapshot(full)
	var wg sync.WaitGroup
	var mu sync.Mutex
	trues, errs := 0, 0
	startGate := make(chan struct{})
	for i := 0; i < n; i++ {
		wg.Add(1)
		go func() {
			defer wg.Done()
			defer func() {
				if p := recover(); p != nil {
					mu.Lock()
					errs++
					mu.Unlock()
				}
			}()
			<-startGate
			ok, err := v.state.validateUserTOTP(full, code, time.Unix(counter*30+1, 0))
			mu.Lock()
			if err != nil {
				errs++
			} else if ok {
				trues++
			}
			mu.Unlock()
		}()
	}
	close(startGate)
	wg.Wait()
	if errs > 0 {
		return "err"
	}
	after := v.snapshot(full)
	took := time.Since(began)
	gate := !after.lastCheckTime.Equal(before.lastCheckTime)
	frec := !after.lastFailTime.Equal(before.lastFailTime)
	lock := int64(0)
	if after.lockoutExpirationTime.After(realNow) {
		lock = vfRoundSecs(after.lockoutExpirationTime.Sub(realNow))
	}
	lfAge := int64(-1)
	if !after.lastFailTime.IsZero() {
		lfAge = vfRoundSecs(realNow.Sub(after.lastFailTime))
	}
	slow := ""
	if took > 300*time.Millisecond {
		slow = " slow"
	}
	return fmt.Sprintf("%d %s %s %d %d %d%s", trues, vfBool(gate), vfBool(frec), after.failCount, lock, lfAge, slow)
}

func TestVerifC14(t *testing.T) {
	io := vfOpen(t)
	defer io.close()
	state, cleanup := vfNewState(t)
	defer cleanup()
	state.Config.Base.AllowedAuthBackendsForWebUI = []string{proto.AuthTypePassword}
	state.Config.Base.AllowedAuthBackendsForCerts = []string{proto.AuthTypePassword}
	state.Config.Base.HttpAddress = ":443" // as in every generated configuration: the Host-port comparisons are live
	state.Config.Base.AdminAddress = ":6920"
	var lim *rate.Limiter
	var limT int64
	tv := &vfC14Totp{t: t, state: state, users: map[string]*vfC14User{}}
	bigLimiter := state.passwordAttemptGlobalLimiter
	cfg := &vfC14Cfg{t: t}
	defer func() {
		if cfg.dir != "" {
			os.RemoveAll(cfg.dir)
		}
	}()
	for i, line := range io.ops {
		f := strings.Fields(line)
		switch {
		case len(f) == 4 && f[0] == "lim":
			r, e1 := strconv.Atoi(f[1])
			b, e2 := strconv.Atoi(f[2])
			if e1 != nil || e2 != nil {
				io.emit("bad-op")
				continue
			}
			lim = rate.NewLimiter(rate.Limit(float64(r)/1000), b)
			limT = 1000000000 * 1000000000
			io.emit("lim")
		case len(f) == 2 && f[0] == "at" && lim != nil:
			g, err := strconv.ParseInt(f[1], 10, 64)
			if err != nil {
				io.emit("bad-op")
				continue
			}
			limT += g
			io.emit("%s", vfBool(lim.AllowN(time.Unix(0, limT), 1)))
		case len(f) == 7 && f[0] == "burst":
			io.emit("%s", vfC14Burst(state, f, i))
			state.passwordAttemptGlobalLimiter = bigLimiter
		case len(f) == 7 && f[0] == "cfgburst":
			io.emit("%s", cfg.burst(f, i))
		case len(f) == 2 && f[0] == "clean":
			io.emit("%s", tv.cleanup(f))
		case len(f) == 2 && f[0] == "seq":
			state.totpLocalTateLimitMutex.Lock()
			state.totpLocalRateLimit = make(map[string]totpRateLimitInfo)
			state.totpLocalTateLimitMutex.Unlock()
			tv.prefix = "s" + f[1] + "x"
			tv.users = map[string]*vfC14User{}
			tv.prevReal = time.Time{}
			io.emit("seq")
		case len(f) == 5 && (f[0] == "att" || f[0] == "hatt"):
			io.emit("%s", tv.attempt(f))
		case len(f) == 5 && f[0] == "catt":
			io.emit("%s", tv.concurrent(f))
		default:
			io.emit("bad-op")
		}
	}
}
